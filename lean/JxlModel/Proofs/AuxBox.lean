import JxlModel.Proofs.Container
import JxlModel.Model.AuxBox
/-! Helper lemmas for the `AuxBoxList` layer of C10 (`Model/AuxBox.lean`). -/
namespace Jxl.AuxBox
open Jxl.Container Jxl.Container.Spec

/-! ## Events vs. flattened tokens -/

/-- `handle_event` on one token of the flattened stream -/
def handleTok (c : Codec) (s : St) : Tok → Except AErr St
  | .kind _ => .ok s
  | .cs _ => .ok s
  | .noMoreAux => handleEvent c s .noMoreAux
  | .auxStart ty b l => handleEvent c s (.auxStart ty b l)
  | .aux ty b => handleEvent c s (.auxData ty [b])
  | .auxEnd ty => handleEvent c s (.auxEnd ty)

def runToks (c : Codec) : St → List Tok → Except AErr St
  | s, [] => .ok s
  | s, t :: r =>
    match handleTok c s t with
    | .error x => .error x
    | .ok s' => runToks c s' r

/-- sequencing of two partial steps -/
def andThen {α : Type} (x : Except AErr α) (f : α → Except AErr St) : Except AErr St :=
  match x with
  | .error e => .error e
  | .ok a => f a

@[simp] theorem andThen_ok {α : Type} (a : α) (f : α → Except AErr St) : andThen (.ok a) f = f a := rfl
@[simp] theorem andThen_error {α : Type} (e : AErr) (f : α → Except AErr St) :
    andThen (.error e : Except AErr α) f = .error e := rfl

theorem runToks_append (c : Codec) (x y : List Tok) : ∀ s,
    runToks c s (x ++ y) = andThen (runToks c s x) (fun s' => runToks c s' y) := by
  induction x with
  | nil => intro s; simp [runToks]
  | cons t r ih =>
    intro s
    simp only [List.cons_append, runToks]
    cases handleTok c s t with
    | error e => simp
    | ok s' => simpa using ih s'

theorem runEvents_append (c : Codec) (x y : List Event) : ∀ s,
    runEvents c s (x ++ y) = andThen (runEvents c s x) (fun s' => runEvents c s' y) := by
  induction x with
  | nil => intro s; simp [runEvents]
  | cons t r ih =>
    intro s
    simp only [List.cons_append, runEvents]
    cases handleEvent c s t with
    | error e => simp
    | ok s' => simpa using ih s'

/-- the state after an `AuxBoxData(ty, d)` event (it cannot fail in the model) -/
def dataSt (s : St) (ty d : Bytes) : St :=
  if ty = tyJbrd then { s with curTy := some ty, jbrd := s.jbrd ++ d }
  else { s with curTy := some ty, cur := feedData s.cur d }

theorem handleEvent_auxData (c : Codec) (s : St) (ty d : Bytes) :
    handleEvent c s (.auxData ty d) = .ok (dataSt s ty d) := by
  simp only [handleEvent, dataSt]; split <;> rfl

theorem feedData_feedData (r : Reader) (a b : Bytes) :
    feedData (feedData r a) b = feedData r (a ++ b) := by
  cases r <;> simp [feedData]

theorem dataSt_dataSt (s : St) (ty a b : Bytes) :
    dataSt (dataSt s ty a) ty b = dataSt s ty (a ++ b) := by
  unfold dataSt
  split <;> simp [feedData_feedData]

theorem runToks_cs (c : Codec) (d : Bytes) (T : List Tok) (s : St) :
    runToks c s (d.map .cs ++ T) = runToks c s T := by
  induction d with
  | nil => rfl
  | cons b r ih => simpa [runToks, handleTok] using ih

theorem runToks_aux (c : Codec) (ty : Bytes) (T : List Tok) : ∀ (d : Bytes) (s : St), d ≠ [] →
    runToks c s (d.map (.aux ty) ++ T) = runToks c (dataSt s ty d) T := by
  intro d
  induction d with
  | nil => intro s h; exact absurd rfl h
  | cons b r ih =>
    intro s _
    simp only [List.map_cons, List.cons_append, runToks, handleTok, handleEvent_auxData]
    cases r with
    | nil => rfl
    | cons b' r' =>
      rw [ih (dataSt s ty [b]) (by simp), dataSt_dataSt]
      rfl

/-- no `AuxBoxData` event with an empty payload -/
def NoEmpty (evs : List Event) : Prop := ∀ ty, Event.auxData ty [] ∉ evs

theorem NoEmpty.append {x y : List Event} (hx : NoEmpty x) (hy : NoEmpty y) : NoEmpty (x ++ y) := by
  intro ty h
  rcases List.mem_append.mp h with h | h
  · exact hx ty h
  · exact hy ty h

/-- The list only sees the flattened event stream. -/
theorem runEvents_eq_runToks (c : Codec) (evs : List Event) : ∀ s, NoEmpty evs →
    runEvents c s evs = runToks c s (toks evs) := by
  induction evs with
  | nil => intro s _; rfl
  | cons e r ih =>
    intro s hne
    have hr : NoEmpty r := fun ty h => hne ty (List.mem_cons_of_mem _ h)
    have htk : toks (e :: r) = e.toks ++ toks r := by simp [toks]
    rw [htk]
    cases e with
    | kind k => simp only [Event.toks, List.cons_append, List.nil_append, runEvents, runToks, handleEvent, handleTok]; exact ih s hr
    | noMoreAux =>
      simp only [Event.toks, List.cons_append, List.nil_append, runEvents, runToks, handleTok]
      cases handleEvent c s .noMoreAux with
      | error e => rfl
      | ok s' => exact ih s' hr
    | auxStart ty b l =>
      simp only [Event.toks, List.cons_append, List.nil_append, runEvents, runToks, handleTok]
      cases handleEvent c s (.auxStart ty b l) with
      | error e => rfl
      | ok s' => exact ih s' hr
    | auxEnd ty =>
      simp only [Event.toks, List.cons_append, List.nil_append, runEvents, runToks, handleTok]
      cases handleEvent c s (.auxEnd ty) with
      | error e => rfl
      | ok s' => exact ih s' hr
    | codestream d =>
      simp only [Event.toks, runEvents, handleEvent]
      rw [runToks_cs]; exact ih s hr
    | auxData ty d =>
      have hd : d ≠ [] := by
        intro h; subst h; exact hne ty (List.mem_cons_self ..)
      simp only [Event.toks, runEvents, handleEvent_auxData]
      rw [runToks_aux c ty _ d s hd]; exact ih _ hr

/-! ## The parser never emits an empty `AuxBoxData` -/

theorem stepHeader_no_auxData (jx : JxlpState) (h : Header) (rest : Bytes) (ty d : Bytes)
    (s' : PState) (r : Bytes) : stepHeader jx h rest ≠ .cont (some (.auxData ty d)) s' r := by
  unfold stepHeader
  repeat' split
  all_goals simp

theorem step_auxData_nonempty (s : PState) (buf : Bytes) (ty d : Bytes) (s' : PState) (rest : Bytes)
    (h : step s buf = .cont (some (.auxData ty d)) s' rest) : d ≠ [] := by
  unfold step at h
  split at h
  · cases h
  · rename_i hne
    have hpos : buf ≠ [] := by
      cases buf with
      | nil => simp at hne
      | cons => simp
    split at h
    · (repeat' split at h) <;> cases h
    · split at h
      · cases h
      · cases h
      · exact (stepHeader_no_auxData _ _ _ _ _ _ _ h).elim
    · split at h
      · cases h
      · simp only at h
        (repeat' split at h) <;> cases h
    · cases h
    · cases h
    · (repeat' split at h) <;> cases h
    · split at h
      · split at h
        · cases h
        · simp only at h
          (repeat' split at h) <;> cases h
      · simp only at h
        split at h
        · split at h
          · cases h
          · cases h
            intro hd
            have h0 := congrArg List.length hd
            rw [List.length_take] at h0
            have : 0 < buf.length := List.length_pos_iff.mpr hpos
            simp only [List.length_nil] at h0
            omega
        · cases h; exact hpos

theorem feed_noEmpty : ∀ (s : PState) (buf : Bytes), NoEmpty (feed s buf).events := by
  apply feed_induct
  intro s buf ih
  cases hs : step s buf with
  | stop => rw [feed_of_stop hs]; intro ty h; cases h
  | err e rest => rw [feed_of_err hs]; intro ty h; cases h
  | cont ev s' rest =>
    rw [feed_of_cont hs]
    simp only
    apply NoEmpty.append _ (ih ev s' rest hs)
    intro ty hm
    cases ev with
    | none => cases hm
    | some e =>
      simp only [Option.toList, List.mem_singleton] at hm
      subst hm
      exact step_auxData_nonempty s buf ty [] s' rest hs rfl

theorem feedChunks_noEmpty (cs : List Bytes) : ∀ (s : PState) (pending : Bytes),
    NoEmpty (feedChunks s pending cs).events := by
  induction cs with
  | nil => intro s p ty h; cases h
  | cons c r ih =>
    intro s p
    simp only [feedChunks]
    split
    · exact feed_noEmpty _ _
    · exact NoEmpty.append (feed_noEmpty _ _) (ih _ _)

/-! ## Sessions in terms of the container model's chunked run -/

/-- outcome of a caller that feeds chunks and stops at the first error, from the events, final
parser state and error of `feedChunks` -/
def sessOf (c : Codec) (a : St) (r : FeedResult) : Except SErr Sess :=
  match runEvents c a r.events with
  | .error e => .error (.aux e)
  | .ok a' =>
    match r.error with
    | some e => .error (.container e)
    | none => .ok ⟨r.state, r.rest, a'⟩

theorem pushAll_eq (c : Codec) (cs : List Bytes) : ∀ (s : Sess),
    Sess.pushAll c s cs = sessOf c s.a (feedChunks s.p s.pending cs) := by
  induction cs with
  | nil => intro s; simp [Sess.pushAll, sessOf, feedChunks, runEvents]
  | cons ch r ih =>
    intro s
    simp only [Sess.pushAll, Sess.push, feedChunks]
    cases hev : runEvents c s.a (feed s.p (s.pending ++ ch)).events with
    | error e =>
      cases her : (feed s.p (s.pending ++ ch)).error with
      | some e' => simp [sessOf, hev]
      | none => simp [sessOf, hev, runEvents_append]
    | ok a =>
      cases her : (feed s.p (s.pending ++ ch)).error with
      | some e => simp [sessOf, hev, her]
      | none =>
        simp only [ih, sessOf, runEvents_append, hev, andThen_ok]

/-! ## Delivery of a whole well-formed file -/

/-- nothing is open: `current_box_ty == None`, `current_box` untouched -/
def Closed (s : St) : Prop := s.curTy = none ∧ s.cur = .init

/-- the list after `AuxBoxStart{ty, brotli, last}` and the data events of a box with (raw or
compressed) payload `d`, from a closed state -/
def openSt (s : St) (ty : Bytes) (br last : Bool) (d : Bytes) : St :=
  if ty = tyJbrd then { s with curTy := some ty, lastBox := last, jbrd := s.jbrd ++ d }
  else { s with curTy := some ty, lastBox := last, cur := if br then .brotli d else .raw d }

def setLast (x : Bool) (s : St) : Except AErr St := .ok { s with lastBox := x }

theorem run_start_data (c : Codec) (s : St) (hs : Closed s) (ty : Bytes) (br last : Bool) (d : Bytes)
    (T : List Tok) :
    runToks c s (Tok.auxStart ty br last :: (d.map (.aux ty) ++ T)) =
      runToks c (openSt s ty br last d) T := by
  obtain ⟨h1, h2⟩ := hs
  by_cases hd : d = []
  · subst hd
    simp only [List.map_nil, List.nil_append, runToks, handleTok, handleEvent, openSt, h2]
    by_cases hj : ty = tyJbrd
    · simp [hj]
    · cases br <;> simp [hj, ensureBrotli, ensureRaw]
  · simp only [runToks, handleTok, handleEvent, h2]
    by_cases hj : ty = tyJbrd
    · simp only [hj, if_true]
      rw [runToks_aux c _ T d _ hd]
      simp [dataSt, openSt, h2]
    · cases br
      · simp only [hj, if_false, ensureRaw, Bool.false_eq_true]
        rw [runToks_aux c _ T d _ hd]
        simp [dataSt, openSt, hj, feedData]
      · simp only [hj, if_false, ensureBrotli, if_true]
        rw [runToks_aux c _ T d _ hd]
        simp [dataSt, openSt, hj, feedData]

theorem finalize_open (c : Codec) (s : St) (hs : Closed s) (ty : Bytes) (br last : Bool) (d : Bytes) :
    finalize c (openSt s ty br last d) = andThen (deliverBox c s ⟨ty, br, d⟩) (setLast last) := by
  obtain ⟨h1, h2⟩ := hs
  cases s with
  | mk boxes jb jd ct cu lb =>
  simp only at h1 h2
  subst h1 h2
  by_cases hj : ty = tyJbrd
  · simp only [openSt, hj, if_true, finalize, deliverBox]
    split <;> simp [setLast]
  · simp only [openSt, hj, if_false, finalize, deliverBox, decodedPayload]
    cases br
    · simp [finalizeReader, setLast]
    · simp only [if_true, finalizeReader]
      cases c.decompress d <;> simp [setLast]

theorem handleTok_auxEnd_open (c : Codec) (s : St) (ty : Bytes) (br last : Bool) (d : Bytes) :
    handleTok c (openSt s ty br last d) (.auxEnd ty) = finalize c (openSt s ty br last d) := by
  simp only [handleTok, handleEvent]
  congr 1
  unfold openSt
  split <;> rfl

theorem deliverBox_closed (c : Codec) (s s' : St) (b : AuxBox) (hs : Closed s)
    (h : deliverBox c s b = .ok s') : Closed s' := by
  unfold deliverBox at h
  split at h
  · split at h
    · cases h; exact hs
    · cases h
  · split at h
    · cases h; exact hs
    · cases h

theorem deliverBox_setLast (c : Codec) (s : St) (b : AuxBox) (x : Bool) :
    deliverBox c { s with lastBox := x } b = andThen (deliverBox c s b) (setLast x) := by
  unfold deliverBox
  split
  · split <;> simp [setLast]
  · split <;> simp [setLast]

theorem deliverAll_setLast (c : Codec) (l : List AuxBox) : ∀ (s : St) (x : Bool),
    deliverAll c { s with lastBox := x } l = andThen (deliverAll c s l) (setLast x) := by
  induction l with
  | nil => intro s x; rfl
  | cons b r ih =>
    intro s x
    simp only [deliverAll, deliverBox_setLast]
    cases deliverBox c s b with
    | error e => rfl
    | ok s' => simp only [andThen_ok, setLast]; exact ih s' x

theorem setLast_setLast (x y : Bool) (r : Except AErr St) :
    andThen (andThen r (setLast x)) (setLast y) = andThen r (setLast y) := by
  cases r <;> simp [setLast]

theorem eof_eq (c : Codec) (s : St) : eof c s = andThen (finalize c s) (setLast true) := by
  unfold eof; cases finalize c s <;> rfl

/-- tokens of one auxiliary box (plain or `brob`) from a closed state -/
theorem run_aux_box (c : Codec) (s : St) (hs : Closed s) (ty : Bytes) (br last closes : Bool)
    (d : Bytes) (T : List Tok) :
    runToks c s ([Tok.auxStart ty br last] ++ d.map (.aux ty) ++
        (if closes then [Tok.auxEnd ty] else []) ++ T) =
      if closes then
        andThen (andThen (deliverBox c s ⟨ty, br, d⟩) (setLast last)) (fun s' => runToks c s' T)
      else runToks c (openSt s ty br last d) T := by
  have : [Tok.auxStart ty br last] ++ d.map (.aux ty) ++ (if closes then [Tok.auxEnd ty] else []) ++ T
      = Tok.auxStart ty br last :: (d.map (.aux ty) ++ ((if closes then [Tok.auxEnd ty] else []) ++ T)) := by
    simp
  rw [this, run_start_data c s hs]
  cases closes
  · simp
  · simp only [if_true, List.cons_append, List.nil_append, runToks, handleTok_auxEnd_open,
      finalize_open c s hs]
    cases andThen (deliverBox c s ⟨ty, br, d⟩) (setLast last) <;> rfl

/-- tokens of a codestream box -/
theorem run_cs_box (c : Codec) (s : St) (hs : Closed s) (nm : Bool) (d : Bytes) (T : List Tok) :
    runToks c s ((if nm then [Tok.noMoreAux] else []) ++ d.map .cs ++ T) =
      runToks c (if nm then { s with lastBox := true } else s) T := by
  cases nm
  · simp only [Bool.false_eq_true, if_false, List.nil_append]; exact runToks_cs c d T s
  · simp only [if_true, List.cons_append, List.nil_append, runToks, handleTok, handleEvent]
    rw [runToks_cs]
    obtain ⟨h1, _⟩ := hs
    cases s; simp only at h1; subst h1; rfl

theorem closed_setLastBox (s : St) (x : Bool) (hs : Closed s) : Closed { s with lastBox := x } := hs

/-- The whole token stream of a well-formed box list followed by `eof`, from a closed state: the
auxiliary boxes are delivered completely, in order. -/
theorem run_expected (c : Codec) (bs : List Box) : ∀ (s : St), Closed s → shapeOk bs = true →
    andThen (runToks c s (expectedM false bs)) (eof c) =
      andThen (deliverAll c s (aux bs)) (setLast true) := by
  induction bs with
  | nil =>
    intro s hs _
    simp only [expectedM, runToks, andThen_ok, aux, deliverAll, eof_eq, finalize, hs.1]
  | cons b r ih =>
    intro s hs hsh
    simp only [shapeOk, Bool.and_eq_true, Bool.or_eq_true, bne_iff_ne, ne_eq] at hsh
    obtain ⟨⟨hok, hlast⟩, hr⟩ := hsh
    simp only [expectedM, Bool.false_or]
    have cs_case : ∀ (nm : Bool) (d : Bytes),
        andThen (runToks c s ((if nm then [Tok.noMoreAux] else []) ++ d.map .cs ++ expectedM false r)) (eof c)
          = andThen (deliverAll c s (aux r)) (setLast true) := by
      intro nm d
      rw [run_cs_box c s hs]
      cases nm
      · exact ih s hs hr
      · simp only [if_true]
        rw [ih _ (closed_setLastBox s true hs) hr, deliverAll_setLast, setLast_setLast]
    have aux_case : ∀ (ty : Bytes) (br last : Bool) (d : Bytes) (e : Enc), b.enc = e →
        andThen (runToks c s ([Tok.auxStart ty br last] ++ d.map (.aux ty) ++
            (if e ≠ .toEof ∧ (!r.isEmpty) = true then [Tok.auxEnd ty] else []) ++ expectedM false r)) (eof c)
          = andThen (deliverAll c s (⟨ty, br, d⟩ :: aux r)) (setLast true) := by
      intro ty br last d e he
      rw [he] at hlast
      cases r with
      | nil =>
        have hcl : (if e ≠ .toEof ∧ (!([] : List Box).isEmpty) = true then [Tok.auxEnd ty] else []) = [] := by
          simp
        have := run_aux_box c s hs ty br last false d []
        simp only [Bool.false_eq_true, if_false, List.append_nil] at this
        rw [hcl]
        simp only [expectedM, List.append_nil, this, runToks, andThen_ok, eof_eq, finalize_open c s hs,
          aux, deliverAll, setLast_setLast]
        cases deliverBox c s ⟨ty, br, d⟩ <;> simp [setLast]
      | cons b2 r2 =>
        have hne : e ≠ .toEof := by
          rcases hlast with h | h
          · simpa using h
          · simp at h
        have hcl : (if e ≠ .toEof ∧ (!(b2 :: r2).isEmpty) = true then [Tok.auxEnd ty] else [])
            = [Tok.auxEnd ty] := by simp [hne]
        have := run_aux_box c s hs ty br last true d (expectedM false (b2 :: r2))
        simp only [if_true] at this
        rw [hcl, this]
        simp only [deliverAll]
        cases hd : deliverBox c s ⟨ty, br, d⟩ with
        | error x => rfl
        | ok s2 =>
          have hc2 := deliverBox_closed c s s2 _ hs hd
          simp only [andThen_ok, setLast]
          rw [ih _ (closed_setLastBox s2 _ hc2) hr, deliverAll_setLast, setLast_setLast]
    cases b with
    | jxlc d e =>
      have := cs_case (decide (e = .toEof ∧ d ≠ [])) d
      simpa [boxToks, aux] using this
    | jxlp i l d e =>
      have := cs_case (decide (e = .toEof ∧ d ≠ [])) d
      simpa [boxToks, aux] using this
    | aux ty d e =>
      have := aux_case ty false (decide (e = .toEof)) d e rfl
      simpa [boxToks, aux] using this
    | brob inner d e =>
      have := aux_case inner true (decide (e = .toEof)) d e rfl
      simpa [boxToks, aux] using this

/-- outcome of a complete session on a well-formed file -/
theorem run_file (c : Codec) (bs : List Box) (hwf : wf bs = true) (chunks : List Bytes)
    (hc : chunks.flatten = serFile bs) :
    Sess.run c chunks =
      match deliverAll c St.init (aux bs) with
      | .error e => .error (.aux e)
      | .ok a => .ok ⟨(feedChunks Container.init [] chunks).state, [], { a with lastBox := true }⟩ := by
  have hfeed : (feedChunks Container.init [] chunks).error = none ∧
      (feedChunks Container.init [] chunks).rest = [] ∧
      toks (feedChunks Container.init [] chunks).events = Tok.kind .container :: expected bs := by
    simp only [wf, Bool.and_eq_true] at hwf
    have hf := feed_file bs hwf.1
    have hci := feedChunks_same
    cases chunks with
    | nil =>
      have : serFile bs = [] := by simpa using hc.symm
      simp [serFile, contSig] at this
    | cons c0 cs =>
      obtain ⟨c1, c2, _, c4⟩ := feedChunks_same cs Container.init [] c0
      rw [List.nil_append, hc] at c1 c2 c4
      cases hq : seqFrom .initial bs with
      | none => rw [hq] at hwf; simp at hwf
      | some jx =>
        simp only [hq] at hf
        exact ⟨by rw [c2]; exact hf.1, by rw [c4 (by rw [c2]; exact hf.1)]; exact hf.2.1,
          by rw [c1]; exact hf.2.2⟩
  obtain ⟨he, hrest, htk⟩ := hfeed
  have hshape : shapeOk bs = true := by
    simp only [wf, Bool.and_eq_true] at hwf; exact hwf.1
  have hrun := run_expected c bs St.init ⟨rfl, rfl⟩ hshape
  simp only [Sess.run, pushAll_eq, Sess.init, sessOf, he, hrest]
  rw [runEvents_eq_runToks c _ _ (feedChunks_noEmpty chunks _ _), htk]
  simp only [runToks, handleTok]
  cases hr : runToks c St.init (expected bs) with
  | error e =>
    rw [show expected bs = expectedM false bs from rfl] at hr
    rw [hr] at hrun
    simp only [andThen_error] at hrun
    cases hd : deliverAll c St.init (aux bs) with
    | error e' => rw [hd] at hrun; simp only [andThen_error] at hrun; cases hrun; rfl
    | ok a => rw [hd] at hrun; simp [setLast] at hrun
  | ok a =>
    rw [show expected bs = expectedM false bs from rfl] at hr
    rw [hr] at hrun
    simp only [andThen_ok] at hrun
    simp only [Sess.finalize, hrun]
    cases hd : deliverAll c St.init (aux bs) with
    | error e' => simp
    | ok a' => simp [setLast]

/-! ## Answers that come from a finished box never change -/

theorem finalize_boxes_prefix (c : Codec) (s s' : St) (h : finalize c s = .ok s') :
    s.boxes <+: s'.boxes ∧ s'.lastBox = s.lastBox := by
  unfold finalize at h
  split at h
  · cases h; exact ⟨List.prefix_refl _, rfl⟩
  · split at h
    · split at h
      · cases h; exact ⟨List.prefix_refl _, rfl⟩
      · cases h
    · split at h
      · cases h
      · cases h; exact ⟨List.prefix_append _ _, rfl⟩

theorem handleEvent_boxes_prefix (c : Codec) (s s' : St) (e : Event) (h : handleEvent c s e = .ok s') :
    s.boxes <+: s'.boxes := by
  cases e with
  | kind k => cases h; exact List.prefix_refl _
  | codestream d => cases h; exact List.prefix_refl _
  | noMoreAux => cases h; exact List.prefix_refl _
  | auxStart ty b l =>
    simp only [handleEvent] at h
    split at h
    · cases h; exact List.prefix_refl _
    · split at h
      · cases h
      · cases h; exact List.prefix_refl _
  | auxData ty d => rw [handleEvent_auxData] at h; cases h; unfold dataSt; split <;> exact List.prefix_refl _
  | auxEnd ty => exact (finalize_boxes_prefix c { s with curTy := some ty } s' h).1

theorem runEvents_boxes_prefix (c : Codec) (evs : List Event) : ∀ (s s' : St),
    runEvents c s evs = .ok s' → s.boxes <+: s'.boxes := by
  induction evs with
  | nil => intro s s' h; cases h; exact List.prefix_refl _
  | cons e r ih =>
    intro s s' h
    simp only [runEvents] at h
    cases he : handleEvent c s e with
    | error x => rw [he] at h; cases h
    | ok s1 =>
      rw [he] at h
      exact List.IsPrefix.trans (handleEvent_boxes_prefix c s s1 e he) (ih s1 s' h)

theorem eof_boxes_prefix (c : Codec) (s s' : St) (h : eof c s = .ok s') : s.boxes <+: s'.boxes := by
  unfold eof at h
  cases hf : finalize c s with
  | error x => rw [hf] at h; cases h
  | ok s1 => rw [hf] at h; cases h; exact (finalize_boxes_prefix c s s1 hf).1

theorem push_boxes_prefix (c : Codec) (s s' : Sess) (ch : Bytes) (h : s.push c ch = .ok s') :
    s.a.boxes <+: s'.a.boxes := by
  unfold Sess.push at h
  cases hr : runEvents c s.a (feed s.p (s.pending ++ ch)).events with
  | error x => rw [hr] at h; cases h
  | ok a =>
    rw [hr] at h
    simp only at h
    split at h
    · cases h
    · cases h; exact runEvents_boxes_prefix c _ _ _ hr

theorem pushAll_boxes_prefix (c : Codec) (cs : List Bytes) : ∀ (s s' : Sess),
    Sess.pushAll c s cs = .ok s' → s.a.boxes <+: s'.a.boxes := by
  induction cs with
  | nil => intro s s' h; cases h; exact List.prefix_refl _
  | cons ch r ih =>
    intro s s' h
    simp only [Sess.pushAll] at h
    cases hp : s.push c ch with
    | error x => rw [hp] at h; cases h
    | ok s1 => rw [hp] at h; exact List.IsPrefix.trans (push_boxes_prefix c s s1 ch hp) (ih s1 s' h)

theorem finalize_sess_boxes_prefix (c : Codec) (s s' : Sess) (h : s.finalize c = .ok s') :
    s.a.boxes <+: s'.a.boxes := by
  unfold Sess.finalize at h
  cases he : eof c s.a with
  | error x => rw [he] at h; cases h
  | ok a => rw [he] at h; cases h; exact eof_boxes_prefix c _ _ he

/-- an answer `Data` can only come from a finished box -/
theorem firstOfType_data_found (s : St) (ty d : Bytes) (h : firstOfType s ty = .data d) :
    ∃ p, s.boxes.find? (fun p => p.1 == ty) = some p ∧ p.2.data = .data d := by
  unfold firstOfType at h
  split at h
  · rename_i p hp; exact ⟨p, hp, h⟩
  · split at h <;> cases h

theorem firstOfType_of_prefix (s s' : St) (ty : Bytes) (hp : s.boxes <+: s'.boxes)
    (p : Bytes × Finished) (h : s.boxes.find? (fun p => p.1 == ty) = some p) :
    firstOfType s' ty = p.2.data := by
  obtain ⟨t, ht⟩ := hp
  unfold firstOfType
  rw [← ht, List.find?_append, h]
  rfl

theorem pushAll_append (c : Codec) (x y : List Bytes) : ∀ (s : Sess),
    Sess.pushAll c s (x ++ y) =
      match Sess.pushAll c s x with
      | .error e => .error e
      | .ok m => Sess.pushAll c m y := by
  induction x with
  | nil => intro s; rfl
  | cons ch r ih =>
    intro s
    simp only [List.cons_append, Sess.pushAll]
    cases s.push c ch with
    | error e => rfl
    | ok s1 => exact ih s1

/-! ## `NotFound` before the end is final (well-formed files) -/

def onlyCs (q : List Tok) : Prop := ∀ t ∈ q, ∃ b, t = Tok.cs b
def onlyAux (ty : Bytes) (q : List Tok) : Prop := ∀ t ∈ q, ∃ b, t = Tok.aux ty b

/-- after a token that announces the last box nothing else starts -/
def tailOk (t : Tok) (r : List Tok) (rec : Prop) : Prop :=
  match t with
  | .noMoreAux => onlyCs r
  | .auxStart ty _ true => onlyAux ty r
  | _ => rec

def lastTail : List Tok → Prop
  | [] => True
  | t :: r => tailOk t r (lastTail r)

/-- tokens that do not announce a last box -/
def plainTok : Tok → Bool
  | .noMoreAux => false
  | .auxStart _ _ true => false
  | _ => true

theorem tailOk_plain (t : Tok) (r : List Tok) (rec : Prop) (h : plainTok t = true) :
    tailOk t r rec = rec := by
  cases t with
  | auxStart ty b l => cases l <;> simp_all [plainTok, tailOk]
  | noMoreAux => simp [plainTok] at h
  | _ => rfl

theorem lastTail_append_plain (x y : List Tok) (h : ∀ t ∈ x, plainTok t = true) :
    lastTail (x ++ y) = lastTail y := by
  induction x with
  | nil => rfl
  | cons t r ih =>
    simp only [List.cons_append, lastTail]
    rw [tailOk_plain t _ _ (h t (List.mem_cons_self ..))]
    exact ih (fun t ht => h t (List.mem_cons_of_mem _ ht))

theorem lastTail_of_onlyCs (q : List Tok) (h : onlyCs q) : lastTail q := by
  induction q with
  | nil => trivial
  | cons t r ih =>
    obtain ⟨b, hb⟩ := h t (List.mem_cons_self ..)
    subst hb
    exact ih (fun t ht => h t (List.mem_cons_of_mem _ ht))

theorem lastTail_of_onlyAux (ty : Bytes) (q : List Tok) (h : onlyAux ty q) : lastTail q := by
  induction q with
  | nil => trivial
  | cons t r ih =>
    obtain ⟨b, hb⟩ := h t (List.mem_cons_self ..)
    subst hb
    exact ih (fun t ht => h t (List.mem_cons_of_mem _ ht))

theorem onlyCs_map (d : Bytes) : onlyCs (d.map .cs) := by
  intro t ht
  obtain ⟨b, _, hb⟩ := List.mem_map.mp ht
  exact ⟨b, hb.symm⟩

theorem onlyAux_map (ty d : Bytes) : onlyAux ty (d.map (.aux ty)) := by
  intro t ht
  obtain ⟨b, _, hb⟩ := List.mem_map.mp ht
  exact ⟨b, hb.symm⟩

theorem plain_cs (d : Bytes) : ∀ t ∈ d.map Tok.cs, plainTok t = true := by
  intro t ht
  obtain ⟨b, _, hb⟩ := List.mem_map.mp ht
  subst hb; rfl

theorem plain_aux (ty d : Bytes) : ∀ t ∈ d.map (Tok.aux ty), plainTok t = true := by
  intro t ht
  obtain ⟨b, _, hb⟩ := List.mem_map.mp ht
  subst hb; rfl

theorem lastTail_expected (bs : List Box) (hs : shapeOk bs = true) : lastTail (expectedM false bs) := by
  induction bs with
  | nil => trivial
  | cons b r ih =>
    simp only [shapeOk, Bool.and_eq_true, Bool.or_eq_true, bne_iff_ne, ne_eq] at hs
    obtain ⟨⟨_, hlast⟩, hr⟩ := hs
    simp only [expectedM, Bool.false_or]
    by_cases he : b.enc = .toEof
    · -- the last box, running to the end of the file
      have hrn : r = [] := by
        rcases hlast with h | h
        · exact absurd he h
        · simpa using h
      subst hrn
      simp only [expectedM, List.append_nil]
      cases b with
      | jxlc d e =>
        simp only [Box.enc] at he; subst he
        by_cases hd : d = []
        · subst hd; simp [boxToks, lastTail]
        · simp only [boxToks, hd, ne_eq, not_false_eq_true, and_self, if_true, List.cons_append,
            List.nil_append, lastTail, tailOk]
          exact onlyCs_map d
      | jxlp i l d e =>
        simp only [Box.enc] at he; subst he
        by_cases hd : d = []
        · subst hd; simp [boxToks, lastTail]
        · simp only [boxToks, hd, ne_eq, not_false_eq_true, and_self, if_true, List.cons_append,
            List.nil_append, lastTail, tailOk]
          exact onlyCs_map d
      | aux ty d e =>
        simp only [Box.enc] at he; subst he
        simp only [boxToks, ne_eq, not_true_eq_false, false_and, if_false, List.append_nil,
          List.cons_append, List.nil_append, decide_true, lastTail, tailOk]
        exact onlyAux_map ty d
      | brob ty d e =>
        simp only [Box.enc] at he; subst he
        simp only [boxToks, ne_eq, not_true_eq_false, false_and, if_false, List.append_nil,
          List.cons_append, List.nil_append, decide_true, lastTail, tailOk]
        exact onlyAux_map ty d
    · rw [lastTail_append_plain _ _ ?_]
      · exact ih hr
      · intro t ht
        cases b with
        | jxlc d e =>
          simp only [Box.enc] at he
          simp only [boxToks, he, false_and, if_false, List.nil_append] at ht
          exact plain_cs d t ht
        | jxlp i l d e =>
          simp only [Box.enc] at he
          simp only [boxToks, he, false_and, if_false, List.nil_append] at ht
          exact plain_cs d t ht
        | aux ty d e =>
          simp only [Box.enc] at he
          simp only [boxToks, he, decide_false, List.cons_append, List.nil_append, List.mem_cons,
            List.mem_append] at ht
          rcases ht with h | h | h
          · subst h; rfl
          · exact plain_aux ty d t h
          · split at h
            · simp only [List.mem_singleton] at h; subst h; rfl
            · cases h
        | brob ty d e =>
          simp only [Box.enc] at he
          simp only [boxToks, he, decide_false, List.cons_append, List.nil_append, List.mem_cons,
            List.mem_append] at ht
          rcases ht with h | h | h
          · subst h; rfl
          · exact plain_aux ty d t h
          · split at h
            · simp only [List.mem_singleton] at h; subst h; rfl
            · cases h

/-- once `last_box` is set, only data of the open box (or codestream) can follow -/
def Safe (s : St) (q : List Tok) : Prop :=
  s.lastBox = true →
    match s.curTy with
    | none => onlyCs q
    | some t => onlyAux t q

theorem finalize_lastBox (c : Codec) (s s' : St) (h : finalize c s = .ok s') : s'.lastBox = s.lastBox :=
  (finalize_boxes_prefix c s s' h).2

theorem safe_step (c : Codec) (s s' : St) (t : Tok) (q : List Tok) (hsafe : Safe s (t :: q))
    (htail : lastTail (t :: q)) (h : handleTok c s t = .ok s') : Safe s' q ∧ lastTail q := by
  have tl : ∀ u ∈ q, u ∈ t :: q := fun u hu => List.mem_cons_of_mem _ hu
  cases t with
  | kind k =>
    cases h
    refine ⟨?_, htail⟩
    intro hl
    have := hsafe hl
    split at this
    · obtain ⟨b, hb⟩ := this _ (List.mem_cons_self ..); cases hb
    · obtain ⟨b, hb⟩ := this _ (List.mem_cons_self ..); cases hb
  | cs b =>
    cases h
    refine ⟨?_, htail⟩
    intro hl
    have := hsafe hl
    split at this
    · exact fun u hu => this u (tl u hu)
    · obtain ⟨b, hb⟩ := this _ (List.mem_cons_self ..); cases hb
  | noMoreAux =>
    cases h
    have hq : onlyCs q := htail
    exact ⟨fun _ => hq, lastTail_of_onlyCs q hq⟩
  | auxStart ty b l =>
    have hs' : s'.curTy = some ty ∧ s'.lastBox = l := by
      simp only [handleTok, handleEvent] at h
      split at h
      · cases h; exact ⟨rfl, rfl⟩
      · split at h
        · cases h
        · cases h; exact ⟨rfl, rfl⟩
    cases l with
    | true =>
      have hq : onlyAux ty q := htail
      refine ⟨?_, lastTail_of_onlyAux ty q hq⟩
      intro _
      rw [hs'.1]; exact hq
    | false =>
      refine ⟨?_, htail⟩
      intro hl; rw [hs'.2] at hl; cases hl
  | aux ty b =>
    simp only [handleTok, handleEvent_auxData] at h
    cases h
    refine ⟨?_, htail⟩
    have hcur : (dataSt s ty [b]).curTy = some ty ∧ (dataSt s ty [b]).lastBox = s.lastBox := by
      unfold dataSt; split <;> exact ⟨rfl, rfl⟩
    intro hl
    rw [hcur.2] at hl
    have := hsafe hl
    rw [hcur.1]
    split at this
    · obtain ⟨b', hb⟩ := this _ (List.mem_cons_self ..); cases hb
    · rename_i t0 _
      obtain ⟨b', hb⟩ := this _ (List.mem_cons_self ..)
      cases hb
      exact fun u hu => this u (tl u hu)
  | auxEnd ty =>
    simp only [handleTok, handleEvent] at h
    have hl' := finalize_lastBox c _ s' h
    refine ⟨?_, htail⟩
    intro hl
    rw [hl'] at hl
    have := hsafe hl
    split at this
    · obtain ⟨b, hb⟩ := this _ (List.mem_cons_self ..); cases hb
    · obtain ⟨b, hb⟩ := this _ (List.mem_cons_self ..); cases hb

theorem safe_run (c : Codec) (p : List Tok) : ∀ (s s' : St) (q : List Tok), Safe s (p ++ q) →
    lastTail (p ++ q) → runToks c s p = .ok s' → Safe s' q ∧ lastTail q := by
  induction p with
  | nil => intro s s' q h1 h2 h; cases h; exact ⟨h1, h2⟩
  | cons t r ih =>
    intro s s' q h1 h2 h
    simp only [runToks] at h
    cases ht : handleTok c s t with
    | error x => rw [ht] at h; cases h
    | ok s1 =>
      rw [ht] at h
      obtain ⟨a1, a2⟩ := safe_step c s s1 t (r ++ q) h1 h2 ht
      exact ih s1 s' q a1 a2 h

theorem runToks_onlyCs (c : Codec) (q : List Tok) (s : St) (h : onlyCs q) : runToks c s q = .ok s := by
  induction q with
  | nil => rfl
  | cons t r ih =>
    obtain ⟨b, hb⟩ := h t (List.mem_cons_self ..)
    subst hb
    simp only [runToks, handleTok]
    exact ih (fun t ht => h t (List.mem_cons_of_mem _ ht))

theorem runToks_onlyAux (c : Codec) (ty : Bytes) (q : List Tok) : ∀ (s : St), onlyAux ty q →
    s.curTy = some ty →
    ∃ s', runToks c s q = .ok s' ∧ s'.boxes = s.boxes ∧ s'.curTy = some ty ∧ s'.lastBox = s.lastBox := by
  induction q with
  | nil => intro s _ hc; exact ⟨s, rfl, rfl, hc, rfl⟩
  | cons t r ih =>
    intro s h hc
    obtain ⟨b, hb⟩ := h t (List.mem_cons_self ..)
    subst hb
    simp only [runToks, handleTok, handleEvent_auxData]
    have hd : (dataSt s ty [b]).boxes = s.boxes ∧ (dataSt s ty [b]).curTy = some ty ∧
        (dataSt s ty [b]).lastBox = s.lastBox := by
      unfold dataSt; split <;> exact ⟨rfl, rfl, rfl⟩
    obtain ⟨s', e1, e2, e3, e4⟩ := ih (dataSt s ty [b]) (fun t ht => h t (List.mem_cons_of_mem _ ht)) hd.2.1
    exact ⟨s', e1, by rw [e2, hd.1], e3, by rw [e4, hd.2.2]⟩

theorem find_append_single_ne (l : List (Bytes × Finished)) (t ty : Bytes) (f : Finished) (hne : t ≠ ty)
    (h : l.find? (fun p => p.1 == ty) = none) :
    (l ++ [(t, f)]).find? (fun p => p.1 == ty) = none := by
  have hb : (t == ty) = false := by simp [hne]
  rw [List.find?_append, h]
  simp [List.find?, hb]

theorem finalize_some (c : Codec) (s s' : St) (t : Bytes) (hc : s.curTy = some t)
    (h : finalize c s = .ok s') :
    (s'.boxes = s.boxes ∨ ∃ f, s'.boxes = s.boxes ++ [(t, f)]) ∧ s'.curTy = none := by
  unfold finalize at h
  rw [hc] at h
  simp only at h
  split at h
  · split at h
    · cases h; exact ⟨Or.inl rfl, rfl⟩
    · cases h
  · split at h
    · cases h
    · rename_i f _
      cases h; exact ⟨Or.inr ⟨f, rfl⟩, rfl⟩

/-- `NotFound` reported while `Safe` holds stays `NotFound` through the remaining tokens and `eof` -/
theorem notFound_final (c : Codec) (m f : St) (q : List Tok) (ty : Bytes) (hsafe : Safe m q)
    (hnf : firstOfType m ty = .notFound) (hrun : andThen (runToks c m q) (eof c) = .ok f) :
    firstOfType f ty = .notFound := by
  unfold firstOfType at hnf
  split at hnf
  · -- a finished box without data: stable because the list only grows
    rename_i p hp
    cases hr : runToks c m q with
    | error x => rw [hr] at hrun; cases hrun
    | ok m' =>
      rw [hr] at hrun
      simp only [andThen_ok] at hrun
      have h1 : m.boxes <+: m'.boxes := by
        have : ∀ (q : List Tok) (s s' : St), runToks c s q = .ok s' → s.boxes <+: s'.boxes := by
          intro q
          induction q with
          | nil => intro s s' h; cases h; exact List.prefix_refl _
          | cons t r ih =>
            intro s s' h
            simp only [runToks] at h
            cases ht : handleTok c s t with
            | error x => rw [ht] at h; cases h
            | ok s1 =>
              rw [ht] at h
              refine List.IsPrefix.trans ?_ (ih s1 s' h)
              cases t with
              | kind k => cases ht; exact List.prefix_refl _
              | cs b => cases ht; exact List.prefix_refl _
              | noMoreAux => exact handleEvent_boxes_prefix c s s1 .noMoreAux ht
              | auxStart ty b l => exact handleEvent_boxes_prefix c s s1 (.auxStart ty b l) ht
              | aux ty b => exact handleEvent_boxes_prefix c s s1 (.auxData ty [b]) ht
              | auxEnd ty => exact handleEvent_boxes_prefix c s s1 (.auxEnd ty) ht
        exact this q m m' hr
      have h2 := eof_boxes_prefix c m' f hrun
      rw [firstOfType_of_prefix m f ty (List.IsPrefix.trans h1 h2) p hp]
      exact hnf
  · rename_i hfind
    split at hnf
    · rename_i hcond
      simp only [Bool.and_eq_true, bne_iff_ne, ne_eq] at hcond
      obtain ⟨hl, hct⟩ := hcond
      have hs := hsafe hl
      cases hcur : m.curTy with
      | none =>
        rw [hcur] at hs
        simp only at hs
        rw [runToks_onlyCs c q m hs] at hrun
        simp only [andThen_ok, eof, finalize, hcur] at hrun
        cases hrun
        simp [firstOfType, hfind]
      | some t =>
        rw [hcur] at hs hct
        simp only at hs
        have hne : t ≠ ty := fun h => hct (by rw [h])
        obtain ⟨m', e1, e2, e3, e4⟩ := runToks_onlyAux c t q m hs hcur
        rw [e1] at hrun
        simp only [andThen_ok, eof] at hrun
        cases hfin : finalize c m' with
        | error x => rw [hfin] at hrun; cases hrun
        | ok m2 =>
          rw [hfin] at hrun
          cases hrun
          obtain ⟨hb, hc2⟩ := finalize_some c m' m2 t e3 hfin
          simp only [firstOfType, hc2]
          rcases hb with hb | ⟨f0, hb⟩
          · rw [hb, e2, hfind]; simp
          · rw [hb, e2, find_append_single_ne _ t ty _ hne hfind]; simp
    · cases hnf

/-! ## `feedChunks` on a concatenation of chunk lists -/

theorem feedChunks_append (x y : List Bytes) : ∀ (s : PState) (p : Bytes),
    feedChunks s p (x ++ y) =
      match (feedChunks s p x).error with
      | some _ => feedChunks s p x
      | none =>
        ⟨(feedChunks s p x).events ++ (feedChunks (feedChunks s p x).state (feedChunks s p x).rest y).events,
         (feedChunks (feedChunks s p x).state (feedChunks s p x).rest y).state,
         (feedChunks (feedChunks s p x).state (feedChunks s p x).rest y).rest,
         (feedChunks (feedChunks s p x).state (feedChunks s p x).rest y).error⟩ := by
  induction x with
  | nil => intro s p; simp [feedChunks]
  | cons ch r ih =>
    intro s p
    simp only [List.cons_append, feedChunks]
    cases he : (feed s (p ++ ch)).error with
    | some e => simp [he]
    | none =>
      simp only [ih]
      cases he2 : (feedChunks (feed s (p ++ ch)).state (feed s (p ++ ch)).rest r).error with
      | some e => simp [he2]
      | none => simp

/-! ## `read()` is a chunked feed -/

theorem push_pending_short (c : Codec) (s s' : Sess) (ch : Bytes) (h : s.push c ch = .ok s') :
    s'.pending.length < 16 := by
  unfold Sess.push at h
  cases hr : runEvents c s.a (feed s.p (s.pending ++ ch)).events with
  | error x => rw [hr] at h; cases h
  | ok a =>
    rw [hr] at h
    simp only at h
    cases he : (feed s.p (s.pending ++ ch)).error with
    | some e => rw [he] at h; cases h
    | none =>
      rw [he] at h; cases h
      exact step_stop_short _ _ (feed_final_stop s.p (s.pending ++ ch) he)

theorem readLoop_chunks (c : Codec) : ∀ (f : Nat) (s : Sess) (file : Bytes), file.length < f →
    s.pending.length < 4096 →
    ∃ chunks, chunks.flatten = file ∧ readLoop c f s file = Sess.pushAll c s chunks := by
  intro f
  induction f with
  | zero => intro s file h; omega
  | succ f ih =>
    intro s file hf hp
    simp only [readLoop]
    by_cases hfile : file = []
    · subst hfile
      exact ⟨[], rfl, by simp [Sess.pushAll]⟩
    · have hpos : 0 < file.length := List.length_pos_iff.mpr hfile
      have hn : min (4096 - s.pending.length) file.length ≠ 0 := by omega
      simp only [hn, if_false]
      cases hpush : s.push c (file.take (min (4096 - s.pending.length) file.length)) with
      | error e =>
        refine ⟨[file.take (min (4096 - s.pending.length) file.length),
          file.drop (min (4096 - s.pending.length) file.length)], by simp, ?_⟩
        simp [Sess.pushAll, hpush]
      | ok s1 =>
        have h16 := push_pending_short c s s1 _ hpush
        obtain ⟨chunks, e1, e2⟩ := ih s1 (file.drop (min (4096 - s.pending.length) file.length))
          (by rw [List.length_drop]; omega) (by omega)
        refine ⟨file.take (min (4096 - s.pending.length) file.length) :: chunks, ?_, ?_⟩
        · simp [e1]
        · simp [Sess.pushAll, hpush, e2]

theorem read_eq_run (c : Codec) (file : Bytes) :
    ∃ chunks, chunks.flatten = file ∧ read c file = Sess.run c chunks := by
  obtain ⟨chunks, e1, e2⟩ := readLoop_chunks c (file.length + 1) Sess.init file (by omega)
    (by simp [Sess.init])
  exact ⟨chunks, e1, by simp [read, Sess.run, e2]⟩

/-! ## Small facts used by the property theorems -/

theorem sessOf_ok (c : Codec) (a : St) (r : FeedResult) (s : Sess) (h : sessOf c a r = .ok s) :
    r.error = none ∧ runEvents c a r.events = .ok s.a ∧ s.p = r.state ∧ s.pending = r.rest := by
  unfold sessOf at h
  cases hr : runEvents c a r.events with
  | error x => rw [hr] at h; cases h
  | ok a' =>
    rw [hr] at h
    simp only at h
    cases he : r.error with
    | some e => rw [he] at h; cases h
    | none => rw [he] at h; cases h; exact ⟨rfl, rfl, rfl, rfl⟩

theorem deliverBox_not_panic (c : Codec) (s : St) (b : AuxBox) (e : AErr)
    (h : deliverBox c s b = .error e) : e ≠ .panic := by
  unfold deliverBox at h
  split at h
  · split at h
    · cases h
    · cases h; simp
  · split at h
    · cases h
    · cases h; simp

theorem deliverAll_not_panic (c : Codec) (l : List AuxBox) : ∀ (s : St) (e : AErr),
    deliverAll c s l = .error e → e ≠ .panic := by
  induction l with
  | nil => intro s e h; cases h
  | cons b r ih =>
    intro s e h
    simp only [deliverAll] at h
    cases hb : deliverBox c s b with
    | error x => rw [hb] at h; cases h; exact deliverBox_not_panic c s b _ hb
    | ok s1 => rw [hb] at h; exact ih s1 e h

/-- two chunked runs that agree with the same whole-buffer run give the same session -/
theorem sessOf_same (c : Codec) (a : St) (r r' w : FeedResult) (h : r.same w) (h' : r'.same w)
    (hn : NoEmpty r.events) (hn' : NoEmpty r'.events) : sessOf c a r = sessOf c a r' := by
  obtain ⟨a1, a2, a3, a4⟩ := h
  obtain ⟨b1, b2, b3, b4⟩ := h'
  unfold sessOf
  rw [runEvents_eq_runToks c _ _ hn, runEvents_eq_runToks c _ _ hn', a1, b1, a2, b2, a3, b3]
  cases runToks c a (toks w.events) with
  | error e => rfl
  | ok x =>
    simp only
    cases he : w.error with
    | some e => rfl
    | none => simp only; rw [a4 (by rw [a2]; exact he), b4 (by rw [b2]; exact he)]

/-- what is in the list after complete delivery -/
def deliveredList (c : Codec) (l : List AuxBox) : List (Bytes × Finished) :=
  (l.filter (fun b => b.ty != tyJbrd)).map (fun b => (b.ty, Finished.raw ((decodedPayload c b).getD [])))

theorem deliverAll_boxes (c : Codec) (l : List AuxBox) : ∀ (s a : St), deliverAll c s l = .ok a →
    a.boxes = s.boxes ++ deliveredList c l ∧ a.curTy = s.curTy ∧ a.cur = s.cur ∧
      (∀ b ∈ l, b.ty ≠ tyJbrd → (decodedPayload c b).isSome = true) := by
  induction l with
  | nil => intro s a h; cases h; simp [deliveredList]
  | cons b r ih =>
    intro s a h
    simp only [deliverAll] at h
    cases hb : deliverBox c s b with
    | error x => rw [hb] at h; cases h
    | ok s1 =>
      rw [hb] at h
      obtain ⟨i1, i2, i3, i4⟩ := ih s1 a h
      unfold deliverBox at hb
      split at hb
      · rename_i hj
        split at hb
        · cases hb
          refine ⟨?_, i2, i3, ?_⟩
          · simpa [deliveredList, hj] using i1
          · intro b' hb' hne
            rcases List.mem_cons.mp hb' with h0 | h0
            · subst h0; exact absurd hj hne
            · exact i4 b' h0 hne
        · cases hb
      · rename_i hj
        split at hb
        · rename_i d hd
          cases hb
          refine ⟨?_, i2, i3, ?_⟩
          · have hk : (b.ty != tyJbrd) = true := by simp [hj]
            rw [i1]
            simp only [deliveredList, List.filter, hk, List.map_cons, hd, Option.getD_some,
              List.append_assoc, List.cons_append, List.nil_append]
          · intro b' hb' hne
            rcases List.mem_cons.mp hb' with h0 | h0
            · subst h0; simp [hd]
            · exact i4 b' h0 hne
        · cases hb

theorem find_deliveredList (c : Codec) (ty : Bytes) (hty : ty ≠ tyJbrd) (l : List AuxBox) :
    (deliveredList c l).find? (fun p => p.1 == ty) =
      (l.find? (fun b => b.ty == ty)).map
        (fun b => (b.ty, Finished.raw ((decodedPayload c b).getD []))) := by
  induction l with
  | nil => rfl
  | cons b r ih =>
    unfold deliveredList at ih ⊢
    by_cases hj : b.ty = tyJbrd
    · have hne : (tyJbrd == ty) = false := by
        simp only [beq_eq_false_iff_ne, ne_eq]; intro h; exact hty h.symm
      simp only [List.filter, hj, bne_self_eq_false, List.find?, hne]
      exact ih
    · have hk : (b.ty != tyJbrd) = true := by simp [hj]
      simp only [List.filter, hk, List.map_cons, List.find?]
      cases hbt : b.ty == ty with
      | true => simp
      | false => simpa using ih

/-! ## The stored-Brotli instance decodes what the generator's encoder writes -/

theorem storedLen_header (first : Bool) (n : Nat) (h1 : 1 ≤ n) (h2 : n ≤ 65536) :
    ∃ b0 b1 b2, storedHeader first n = [b0, b1, b2] ∧ storedLen first b0 b1 b2 = some n := by
  cases first
  · refine ⟨_, _, _, rfl, ?_⟩
    simp only [storedLen, UInt8.toNat_ofNat']
    simp only [Bool.false_eq_true, if_false]
    have e : ((n - 1) * 8 + 2 ^ 19) % 256 % 2 ^ 8 + 256 * (((n - 1) * 8 + 2 ^ 19) / 256 % 256 % 2 ^ 8) +
        65536 * (((n - 1) * 8 + 2 ^ 19) / 65536 % 2 ^ 8) = (n - 1) * 8 + 2 ^ 19 := by omega
    rw [e]
    rw [if_pos (by omega)]
    congr 1; omega
  · refine ⟨_, _, _, rfl, ?_⟩
    simp only [storedLen, UInt8.toNat_ofNat']
    simp only [if_true]
    have e : ((n - 1) * 16 + 2 ^ 20) % 256 % 2 ^ 8 + 256 * (((n - 1) * 16 + 2 ^ 20) / 256 % 256 % 2 ^ 8) +
        65536 * (((n - 1) * 16 + 2 ^ 20) / 65536 % 2 ^ 8) = (n - 1) * 16 + 2 ^ 20 := by omega
    rw [e]
    rw [if_pos (by omega)]
    congr 1; omega

theorem storedEncodeFrom_length (first : Bool) (parts : List Bytes) :
    1 ≤ (storedEncodeFrom first parts).length := by
  cases parts with
  | nil => cases first <;> simp [storedEncodeFrom]
  | cons p r => simp [storedEncodeFrom, storedHeader]

theorem storedBlocks_encode (parts : List Bytes) : ∀ (first : Bool) (f : Nat),
    (∀ p ∈ parts, 1 ≤ p.length ∧ p.length ≤ 65536) → (first = true → parts ≠ []) →
    (storedEncodeFrom first parts).length < f →
    storedBlocks f first (storedEncodeFrom first parts) = some parts.flatten := by
  induction parts with
  | nil =>
    intro first f _ hne hf
    cases first
    · cases f with
      | zero => omega
      | succ f => simp [storedEncodeFrom, storedBlocks]
    · exact absurd rfl (hne rfl)
  | cons p r ih =>
    intro first f hp _ hf
    obtain ⟨h1, h2⟩ := hp p (List.mem_cons_self ..)
    obtain ⟨b0, b1, b2, hh, hl⟩ := storedLen_header first p.length h1 h2
    cases f with
    | zero => omega
    | succ f =>
      have hlen := storedEncodeFrom_length false r
      simp only [storedEncodeFrom, hh, List.cons_append, List.nil_append, List.length_cons,
        List.length_append] at hf ⊢
      have hz : ((b0 :: b1 :: b2 :: (p ++ storedEncodeFrom false r)) == [0x03]) = false := by
        cases p with
        | nil => simp at h1
        | cons x p' => simp
      simp only [storedBlocks, hz, Bool.and_false, Bool.false_eq_true, if_false, hl]
      rw [if_neg (by simp)]
      simp only [List.drop_left, List.take_left]
      rw [ih false f (fun q hq => hp q (List.mem_cons_of_mem _ hq)) (by simp) (by omega)]
      simp

theorem stored_roundtrip (parts : List Bytes) (hp : ∀ p ∈ parts, 1 ≤ p.length ∧ p.length ≤ 65536) :
    storedBrotli (storedEncode parts) = some parts.flatten := by
  cases parts with
  | nil => simp [storedBrotli, storedEncode, storedEncodeFrom]
  | cons p r =>
    obtain ⟨h1, _⟩ := hp p (List.mem_cons_self ..)
    have hz : (storedEncode (p :: r) == [0x06]) = false := by
      cases p with
      | nil => simp at h1
      | cons x p' => simp [storedEncode, storedEncodeFrom, storedHeader]
    simp only [storedBrotli, hz, Bool.false_eq_true, if_false]
    exact storedBlocks_encode (p :: r) true _ hp (by simp) (by simp [storedEncode])

/-! ## The `panic!()` sites of `ensure_raw` / `ensure_brotli` are unreachable -/

/-- the reader is untouched unless the parser is inside an auxiliary box whose start was announced
(and for a `jbrd` box even then) -/
def Sync (p : PState) (a : St) : Prop :=
  match p.st with
  | .inAuxBox h bty _ =>
    if h.ty = tyBrob ∧ bty = none then a.cur = .init else (bty.getD h.ty = tyJbrd → a.cur = .init)
  | _ => a.cur = .init

def handleOpt (c : Codec) (a : St) : Option Event → Except AErr St
  | none => .ok a
  | some e => handleEvent c a e

/-- outcome of a step of the list: in sync with the parser, or a non-panic error -/
def Good (p : PState) (r : Except AErr St) : Prop :=
  match r with
  | .ok a => Sync p a
  | .error e => e ≠ .panic

theorem good_start (c : Codec) (a : St) (ha : a.cur = .init) (h : Header) (bty : Option Bytes)
    (left : Option Nat) (jx : JxlpState) (ty : Bytes) (br last : Bool)
    (hty : bty.getD h.ty = ty) (hopen : ¬(h.ty = tyBrob ∧ bty = none)) :
    Good ⟨.inAuxBox h bty left, jx⟩ (handleEvent c a (.auxStart ty br last)) := by
  by_cases hj : ty = tyJbrd
  · subst hj; simp [handleEvent, Good, Sync, hopen, hty, ha]
  · cases br <;> simp [handleEvent, Good, Sync, hopen, hty, ha, hj, ensureRaw, ensureBrotli]

theorem good_data (c : Codec) (a : St) (h : Header) (bty : Option Bytes) (left left' : Option Nat)
    (jx : JxlpState) (d : Bytes) (hopen : ¬(h.ty = tyBrob ∧ bty = none))
    (hs : Sync ⟨.inAuxBox h bty left, jx⟩ a) :
    Good ⟨.inAuxBox h bty left', jx⟩ (handleEvent c a (.auxData (bty.getD h.ty) d)) := by
  rw [handleEvent_auxData]
  simp only [Sync, hopen, if_false] at hs
  simp only [Good, Sync, hopen, if_false, dataSt]
  intro hj
  simp only [hj, if_true]
  exact hs hj

theorem good_end (c : Codec) (a : St) (h : Header) (bty : Option Bytes) (left : Option Nat)
    (jx : JxlpState) (hopen : ¬(h.ty = tyBrob ∧ bty = none))
    (hs : Sync ⟨.inAuxBox h bty left, jx⟩ a) :
    Good ⟨.waitingBoxHeader, jx⟩ (handleEvent c a (.auxEnd (bty.getD h.ty))) := by
  simp only [Sync, hopen, if_false] at hs
  simp only [handleEvent, finalize]
  by_cases hj : bty.getD h.ty = tyJbrd
  · simp only [hj, if_true]
    split
    · exact hs hj
    · simp [Good]
  · simp only [hj, if_false]
    cases a.cur with
    | init => simp [finalizeReader, Good, Sync]
    | raw b => simp [finalizeReader, Good, Sync]
    | brotli z =>
      simp only [finalizeReader]
      cases c.decompress z <;> simp [Good, Sync]

theorem stepHeader_sync (c : Codec) (jx : JxlpState) (h : Header) (rest : Bytes) (a : St)
    (ha : a.cur = .init) (ev : Option Event) (p' : PState) (r : Bytes)
    (hh : stepHeader jx h rest = .cont ev p' r) : Good p' (handleOpt c a ev) := by
  obtain ⟨ty, size⟩ := h
  unfold stepHeader at hh
  simp only at hh
  by_cases h1 : ty = tyJxlc
  · simp only [h1, if_true] at hh
    (repeat' split at hh) <;> cases hh <;> exact ha
  · simp only [h1, if_false] at hh
    by_cases h2 : ty = tyJxlp
    · simp only [h2, if_true] at hh
      cases size with
      | none => simp only [Bool.false_eq_true, if_false] at hh; (repeat' split at hh) <;> cases hh <;> exact ha
      | some n =>
        by_cases hn : n < 4
        · simp only [hn, decide_true, if_true] at hh; cases hh
        · simp only [hn, decide_false, Bool.false_eq_true, if_false] at hh
          (repeat' split at hh) <;> cases hh <;> exact ha
    · simp only [h2, if_false] at hh
      by_cases h3 : ty = tyBrob
      · simp only [h3, if_true] at hh
        cases size with
        | none =>
          simp only [Bool.false_eq_true, if_false] at hh; cases hh
          simp only [handleOpt, Good, Sync, and_self, if_true]; exact ha
        | some n =>
          by_cases hn : n < 4
          · simp only [hn, decide_true, if_true] at hh; cases hh
          · simp only [hn, decide_false, Bool.false_eq_true, if_false] at hh
            cases hh
            simp only [handleOpt, Good, Sync, and_self, if_true]; exact ha
      · simp only [h3, if_false] at hh
        cases hh
        exact good_start c a ha ⟨ty, size⟩ none size jx ty false _ rfl (fun hc => h3 hc.1)

theorem step_sync (c : Codec) (p : PState) (buf : Bytes) (a : St) (hs : Sync p a)
    (ev : Option Event) (p' : PState) (rest : Bytes) (h : step p buf = .cont ev p' rest) :
    Good p' (handleOpt c a ev) := by
  by_cases hne : buf.isEmpty = true
  · have : step p buf = .stop := by simp [step, hne]
    rw [this] at h; cases h
  · have hne : buf.isEmpty = false := by simpa using hne
    obtain ⟨st, jx⟩ := p
    cases st with
    | waitingSignature =>
      simp only [step, hne] at h
      (repeat' split at h) <;> cases h <;> exact hs
    | waitingBoxHeader =>
      simp only [step, hne] at h
      cases hp : parseHeader buf with
      | invalid => rw [hp] at h; cases h
      | needMore => rw [hp] at h; cases h
      | done hh hsz => rw [hp] at h; exact stepHeader_sync c _ _ _ a hs ev p' rest h
    | waitingJxlpIndex hd =>
      simp only [step, hne] at h
      (repeat' split at h) <;> cases h <;> exact hs
    | inCodestream k left pending =>
      cases pending <;> cases left <;> simp only [step, hne] at h <;> (repeat' split at h) <;> cases h <;> exact hs
    | inAuxBox hd bty left =>
      by_cases hb : hd.ty = tyBrob ∧ bty = none
      · have ha : a.cur = .init := by simpa [Sync, hb] using hs
        simp only [step, hne, hb, and_self, if_true] at h
        cases left with
        | none =>
          simp only at h
          (repeat' split at h) <;> cases h
          exact good_start c a ha hd (some _) none jx _ true true rfl (by simp)
        | some n =>
          simp only at h
          (repeat' split at h) <;> cases h
          exact good_start c a ha hd (some _) (some (n - 4)) jx _ true false rfl (by simp)
      · simp only [step, hne, hb, if_false] at h
        cases left with
        | none =>
          simp only at h
          cases h
          exact good_data c a hd bty none none jx buf hb hs
        | some n =>
          simp only at h
          by_cases hn0 : n = 0
          · simp only [hn0, if_true] at h
            cases h
            exact good_end c a hd bty (some 0) jx hb (by simpa [hn0] using hs)
          · simp only [hn0, if_false] at h
            cases h
            exact good_data c a hd bty (some n) _ jx _ hb hs

theorem feed_sync (c : Codec) : ∀ (p : PState) (buf : Bytes) (a : St), Sync p a →
    Good (feed p buf).state (runEvents c a (feed p buf).events) := by
  apply feed_induct
  intro p buf ih a hs
  cases hst : step p buf with
  | stop => rw [feed_of_stop hst]; exact hs
  | err e rest => rw [feed_of_err hst]; exact hs
  | cont ev p' rest =>
    rw [feed_of_cont hst]
    simp only [runEvents_append]
    have h1 := step_sync c p buf a hs ev p' rest hst
    cases ev with
    | none => exact ih none p' rest hst a h1
    | some e =>
      simp only [handleOpt] at h1
      simp only [Option.toList, runEvents]
      cases he : handleEvent c a e with
      | error x => rw [he] at h1; exact h1
      | ok a' => rw [he] at h1; exact ih (some e) p' rest hst a' h1

theorem push_sync (c : Codec) (s : Sess) (ch : Bytes) (hs : Sync s.p s.a) :
    match s.push c ch with
    | .ok s' => Sync s'.p s'.a
    | .error e => e ≠ .aux .panic := by
  have h := feed_sync c s.p (s.pending ++ ch) s.a hs
  unfold Sess.push
  cases hr : runEvents c s.a (feed s.p (s.pending ++ ch)).events with
  | error x =>
    rw [hr] at h
    simp only [Good] at h
    simp only
    intro hc; cases hc; exact h rfl
  | ok a' =>
    rw [hr] at h
    simp only
    cases (feed s.p (s.pending ++ ch)).error with
    | some e => simp
    | none => exact h

theorem pushAll_sync (c : Codec) (cs : List Bytes) : ∀ (s : Sess), Sync s.p s.a →
    match Sess.pushAll c s cs with
    | .ok s' => Sync s'.p s'.a
    | .error e => e ≠ .aux .panic := by
  induction cs with
  | nil => intro s hs; exact hs
  | cons ch r ih =>
    intro s hs
    simp only [Sess.pushAll]
    have h := push_sync c s ch hs
    cases hp : s.push c ch with
    | error e => rw [hp] at h; exact h
    | ok s1 => rw [hp] at h; exact ih s1 h

theorem finalize_no_panic (c : Codec) (a : St) : finalize c a ≠ .error .panic := by
  unfold finalize
  split
  · simp
  · split
    · split <;> simp
    · cases a.cur with
      | init => simp [finalizeReader]
      | raw b => simp [finalizeReader]
      | brotli z => simp only [finalizeReader]; cases c.decompress z <;> simp

theorem run_no_panic (c : Codec) (chunks : List Bytes) : Sess.run c chunks ≠ .error (.aux .panic) := by
  have h := pushAll_sync c chunks Sess.init rfl
  unfold Sess.run
  cases hp : Sess.init.pushAll c chunks with
  | error e => rw [hp] at h; simp only; intro hc; cases hc; exact h rfl
  | ok s =>
    simp only [Sess.finalize, eof]
    have := finalize_no_panic c s.a
    cases hf : finalize c s.a with
    | error x => simp only; intro hc; cases hc; exact this hf
    | ok a' => simp


end Jxl.AuxBox
