import JxlModel.Model.Alloc
namespace Jxl.Alloc

theorem sum_eraseIdx (l : List Nat) (i : Nat) (b : Nat) (h : l[i]? = some b) :
    (l.eraseIdx i).sum + b = l.sum := by
  induction l generalizing i with
  | nil => simp at h
  | cons x xs ih =>
    cases i with
    | zero => simp at h; subst h; simp [List.eraseIdx]; omega
    | succ i =>
      simp at h
      have := ih i h
      simp [List.eraseIdx]; omega

theorem step_inv (s : State) (op : Op) (h : Inv s)
    (hw : match op with | .expand n => s.limit + n < W | _ => True) :
    Inv (step s op).1 := by
  obtain ⟨h1, h2⟩ := h
  unfold Inv outstanding at *
  cases op with
  | alloc count size =>
    simp only [step]
    split
    · exact ⟨h1, h2⟩
    · split
      · simp; omega
      · exact ⟨h1, h2⟩
  | drop idx =>
    simp only [step]
    split
    · exact ⟨h1, h2⟩
    · rename_i b hb
      have := sum_eraseIdx s.handles idx b hb
      simp only
      have hlt : s.left + b < W := by omega
      rw [Nat.mod_eq_of_lt hlt]
      omega
  | expand n =>
    simp only [step]
    simp only at hw
    have hlt : s.left + n < W := by omega
    rw [Nat.mod_eq_of_lt hlt]
    omega
  | shrink n =>
    simp only [step]
    split
    · simp only; omega
    · exact ⟨h1, h2⟩

theorem run_inv (s : State) (ops : List Op) (h : Inv s) (hw : NoWrap s ops) :
    Inv (run s ops) := by
  induction ops generalizing s with
  | nil => simpa [run]
  | cons op ops ih =>
    simp only [run, List.foldl]
    exact ih _ (step_inv s op h hw.1) hw.2

theorem init_inv (l : Nat) (h : l < W) : Inv (init l) := by
  simp [Inv, init, outstanding, h]

/-! ## set_limits bookkeeping -/

def DecInv (d : Dec) : Prop := Inv d.tr ∧ d.tr.limit = d.current

theorem step_limit_of_not_resize (s : State) (op : Op)
    (h : (∀ n, op ≠ .expand n) ∧ (∀ n, op ≠ .shrink n)) : (step s op).1.limit = s.limit := by
  cases op with
  | alloc c sz =>
    simp only [step]
    split
    · rfl
    · split <;> rfl
  | drop i => simp only [step]; split <;> rfl
  | expand n => exact absurd rfl (h.1 n)
  | shrink n => exact absurd rfl (h.2 n)

theorem setLimits_inv (d : Dec) (new : Nat) (hn : new < W) (h : DecInv d) :
    DecInv (setLimits d new).1 := by
  obtain ⟨hi, hl⟩ := h
  unfold setLimits
  by_cases hgt : new > d.current
  · simp only [hgt, if_true]
    refine ⟨step_inv d.tr (.expand (new - d.current)) hi (by simp only; omega), ?_⟩
    simp only [step]; omega
  · simp only [hgt, if_false]
    by_cases hfit : d.current - new ≤ d.tr.left
    · have e : step d.tr (.shrink (d.current - new)) =
          ({ d.tr with left := d.tr.left - (d.current - new), limit := d.tr.limit - (d.current - new) }, .ok) := by
        simp [step, hfit]
      rw [e]
      refine ⟨?_, ?_⟩
      · have := step_inv d.tr (.shrink (d.current - new)) hi trivial
        rw [e] at this; exact this
      · simp only; omega
    · have e : step d.tr (.shrink (d.current - new)) = (d.tr, .oom (d.current - new)) := by
        simp [step, hfit]
      rw [e]; exact ⟨hi, hl⟩

theorem decStep_inv (d : Dec) (op : DecOp) (hw : op.wf) (h : DecInv d) : DecInv (decStep d op) := by
  cases op with
  | setLimits new => exact setLimits_inv d new hw h
  | tracker op =>
    obtain ⟨hi, hl⟩ := h
    cases op with
    | expand n => exact absurd hw (by simp [DecOp.wf])
    | shrink n => exact absurd hw (by simp [DecOp.wf])
    | alloc c sz =>
      refine ⟨step_inv d.tr _ hi trivial, ?_⟩
      simp only [decStep]
      have h1 : ∀ n, Op.alloc c sz ≠ .expand n := fun n h => by cases h
      have h2 : ∀ n, Op.alloc c sz ≠ .shrink n := fun n h => by cases h
      rw [step_limit_of_not_resize _ _ ⟨h1, h2⟩]; exact hl
    | drop i =>
      refine ⟨step_inv d.tr _ hi trivial, ?_⟩
      simp only [decStep]
      have h1 : ∀ n, Op.drop i ≠ .expand n := fun n h => by cases h
      have h2 : ∀ n, Op.drop i ≠ .shrink n := fun n h => by cases h
      rw [step_limit_of_not_resize _ _ ⟨h1, h2⟩]; exact hl

theorem decRun_inv (d : Dec) (ops : List DecOp) (hw : ∀ op ∈ ops, op.wf) (h : DecInv d) :
    DecInv (decRun d ops) := by
  induction ops generalizing d with
  | nil => simpa [decRun]
  | cons op ops ih =>
    simp only [decRun, List.foldl]
    exact ih _ (fun o ho => hw o (by simp [ho])) (decStep_inv d op (hw op (by simp)) h)

theorem decInit_inv : DecInv Dec.init := by
  refine ⟨init_inv (W - 1) (by simp [W]), rfl⟩

end Jxl.Alloc
