import JxlModel.Model.Alloc
namespace Jxl.Alloc

theorem sum_eraseIdx (l : List Nat) (i : Nat) (b : Nat) (h : l[i]? = some b) :
    (l.eraseIdx i).sum + b = l.sum := by
  induction l generalizing i with
  | nil => simp at h
  | cons x xs ih =>
    cases i with
    | zero => simp at h; subst h; simp [List.eraseIdx]; omega
    | succ i =>
      simp at h
      have := ih i h
      simp [List.eraseIdx]; omega

theorem step_inv (s : State) (op : Op) (h : Inv s)
    (hw : match op with | .expand n => s.limit + n < W | _ => True) :
    Inv (step s op).1 := by
  obtain ⟨h1, h2⟩ := h
  unfold Inv outstanding at *
  cases op with
  | alloc count size =>
    simp only [step]
    split
    · exact ⟨h1, h2⟩
    · split
      · simp; omega
      · exact ⟨h1, h2⟩
  | drop idx =>
    simp only [step]
    split
    · exact ⟨h1, h2⟩
    · rename_i b hb
      have := sum_eraseIdx s.handles idx b hb
      simp only
      have hlt : s.left + b < W := by omega
      rw [Nat.mod_eq_of_lt hlt]
      omega
  | expand n =>
    simp only [step]
    simp only at hw
    have hlt : s.left + n < W := by omega
    rw [Nat.mod_eq_of_lt hlt]
    omega
  | shrink n =>
    simp only [step]
    split
    · simp only; omega
    · exact ⟨h1, h2⟩

theorem run_inv (s : State) (ops : List Op) (h : Inv s) (hw : NoWrap s ops) :
    Inv (run s ops) := by
  induction ops generalizing s with
  | nil => simpa [run]
  | cons op ops ih =>
    simp only [run, List.foldl]
    exact ih _ (step_inv s op h hw.1) hw.2

theorem init_inv (l : Nat) (h : l < W) : Inv (init l) := by
  simp [Inv, init, outstanding, h]

end Jxl.Alloc
