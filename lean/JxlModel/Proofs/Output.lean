import JxlModel.Model.Output
import JxlModel.Gen.Orientation
/-!
# Lemmas for property C15

Everything about the generated maps is proved by splitting into the eight orientations and
letting `simp` unfold the generated `if` chains, then `omega`: the proofs re-check against
whatever `tools/translate_c15.py` generated from the current source.
-/
namespace Jxl.Output
open Jxl.Gen.Orientation

theorem orient_cases {o : Nat} (h : 1 ≤ o ∧ o ≤ 8) :
    o = 1 ∨ o = 2 ∨ o = 3 ∨ o = 4 ∨ o = 5 ∨ o = 6 ∨ o = 7 ∨ o = 8 := by omega

/-! ## cursor machine -/

theorem writeToBuffer_not_atSample (W H C n : Nat) (s : Cursor) (h : atSample W H C s = false) :
    writeToBuffer W H C n s = ([], s) := by
  cases n with
  | zero => rfl
  | succ n => simp [writeToBuffer, h]

theorem writeToBuffer_add (W H C : Nat) (n m : Nat) (s : Cursor) :
    writeToBuffer W H C (n + m) s =
      ((writeToBuffer W H C n s).1 ++ (writeToBuffer W H C m (writeToBuffer W H C n s).2).1,
       (writeToBuffer W H C m (writeToBuffer W H C n s).2).2) := by
  induction n generalizing s with
  | zero => simp [writeToBuffer]
  | succ n ih =>
    by_cases h : atSample W H C s = true
    · have e : n + 1 + m = (n + m) + 1 := by omega
      rw [e]
      simp only [writeToBuffer, h, if_true]
      rw [ih]
      simp
    · have h' : atSample W H C s = false := by simpa using h
      rw [writeToBuffer_not_atSample W H C (n + 1 + m) s h', writeToBuffer_not_atSample W H C (n + 1) s h']
      simp [writeToBuffer_not_atSample W H C m s h']

/-- the samples of successive calls, concatenated -/
def flatCalls (W H C : Nat) (sizes : List Nat) (s : Cursor) : List (Nat × Nat × Nat) :=
  (writeCalls W H C sizes s).1.flatten

theorem writeCalls_eq_sum (W H C : Nat) (sizes : List Nat) (s : Cursor) :
    flatCalls W H C sizes s = (writeToBuffer W H C sizes.sum s).1 ∧
    (writeCalls W H C sizes s).2 = (writeToBuffer W H C sizes.sum s).2 := by
  induction sizes generalizing s with
  | nil => simp [flatCalls, writeCalls, writeToBuffer]
  | cons n ns ih =>
    have := ih (writeToBuffer W H C n s).2
    simp only [flatCalls] at this ⊢
    simp only [writeCalls, List.flatten_cons, List.sum_cons]
    rw [writeToBuffer_add]
    simp [this.1, this.2]

/-- linear position of a cursor -/
def lin (W C : Nat) (s : Cursor) : Nat := (s.y * W + s.x) * C + s.c

def decodeLin (W C k : Nat) : Nat × Nat × Nat := (k / (W * C), k / C % W, k % C)

theorem decodeLin_lin (W C : Nat) (s : Cursor) (hx : s.x < W) (hc : s.c < C) :
    decodeLin W C (lin W C s) = (s.y, s.x, s.c) := by
  have hC : 0 < C := by omega
  have hW : 0 < W := by omega
  have h1 : ((s.y * W + s.x) * C + s.c) % C = s.c := by
    rw [Nat.add_comm, Nat.add_mul_mod_self_right]; exact Nat.mod_eq_of_lt hc
  have h2 : ((s.y * W + s.x) * C + s.c) / C = s.y * W + s.x := by
    rw [Nat.add_comm, Nat.add_mul_div_right _ _ hC, Nat.div_eq_of_lt hc]; omega
  have h3 : (s.y * W + s.x) % W = s.x := by
    rw [Nat.add_comm, Nat.add_mul_mod_self_right]; exact Nat.mod_eq_of_lt hx
  have h4 : (s.y * W + s.x) / W = s.y := by
    rw [Nat.add_comm, Nat.add_mul_div_right _ _ hW, Nat.div_eq_of_lt hx]; omega
  have h5 : ((s.y * W + s.x) * C + s.c) / (W * C) = s.y := by
    rw [Nat.mul_comm W C, ← Nat.div_div_eq_div_mul, h2, h4]
  simp [decodeLin, lin, h1, h2, h3, h5]

theorem lin_bump (W C : Nat) (s : Cursor) (hx : s.x < W) (hc : s.c < C) :
    lin W C (bump W C s) = lin W C s + 1 ∧ (bump W C s).x < W ∧ (bump W C s).c < C := by
  unfold bump
  by_cases h1 : s.c + 1 < C
  · rw [if_pos h1]
    refine ⟨?_, hx, h1⟩
    simp only [lin]; omega
  · rw [if_neg h1]
    by_cases h2 : s.x + 1 < W
    · rw [if_pos h2]
      have hc' : s.c + 1 = C := by omega
      refine ⟨?_, h2, by show 0 < C; omega⟩
      have : (s.y * W + (s.x + 1)) * C = (s.y * W + s.x) * C + C := by
        rw [← Nat.add_assoc, Nat.add_mul, Nat.one_mul]
      simp only [lin]
      omega
    · rw [if_neg h2]
      have hc' : s.c + 1 = C := by omega
      have hx' : s.x + 1 = W := by omega
      refine ⟨?_, by show 0 < W; omega, by show 0 < C; omega⟩
      have e1 : (s.y + 1) * W = s.y * W + s.x + 1 := by rw [Nat.add_mul, Nat.one_mul]; omega
      have e2 : (s.y * W + s.x + 1) * C = (s.y * W + s.x) * C + C := by rw [Nat.add_mul, Nat.one_mul]
      simp only [lin, Nat.add_zero, e1, e2]
      omega

theorem atSample_iff_lin (W H C : Nat) (s : Cursor) (hx : s.x < W) (hc : s.c < C) :
    atSample W H C s = true ↔ lin W C s < W * H * C := by
  simp only [atSample, Bool.and_eq_true, decide_eq_true_eq, hx, hc, and_true, lin]
  constructor
  · intro hy
    have h1 : s.y * W + s.x < H * W := by
      have : (s.y + 1) * W ≤ H * W := Nat.mul_le_mul_right W hy
      rw [Nat.add_mul, Nat.one_mul] at this; omega
    have h2 : (s.y * W + s.x + 1) * C ≤ H * W * C := Nat.mul_le_mul_right C h1
    rw [Nat.add_mul, Nat.one_mul] at h2
    rw [Nat.mul_comm W H]; omega
  · intro hl
    by_cases hy : s.y < H
    · exact hy
    · exfalso
      have hy' : H ≤ s.y := by omega
      have h1 : H * W ≤ s.y * W := Nat.mul_le_mul_right W hy'
      have h2 : H * W * C ≤ (s.y * W + s.x) * C := Nat.mul_le_mul_right C (by omega)
      rw [Nat.mul_comm W H] at hl; omega

theorem writeToBuffer_rowMajor (W H C : Nat) (n : Nat) (s : Cursor) (hx : s.x < W) (hc : s.c < C) :
    (writeToBuffer W H C n s).1 =
      (List.range' (lin W C s) (min n (W * H * C - lin W C s))).map (decodeLin W C) := by
  induction n generalizing s with
  | zero => simp [writeToBuffer]
  | succ n ih =>
    by_cases h : atSample W H C s = true
    · have hl := (atSample_iff_lin W H C s hx hc).1 h
      obtain ⟨b1, b2, b3⟩ := lin_bump W C s hx hc
      simp only [writeToBuffer, h, if_true]
      rw [ih (bump W C s) b2 b3, b1]
      have e : min (n + 1) (W * H * C - lin W C s) = min n (W * H * C - (lin W C s + 1)) + 1 := by omega
      rw [e, List.range'_succ, List.map_cons, decodeLin_lin W C s hx hc]
    · have h' : atSample W H C s = false := by simpa using h
      have hl : ¬ lin W C s < W * H * C := fun hl => h ((atSample_iff_lin W H C s hx hc).2 hl)
      rw [writeToBuffer_not_atSample W H C (n + 1) s h']
      have : min (n + 1) (W * H * C - lin W C s) = 0 := by omega
      simp [this]

theorem writeToBuffer_full (W H C : Nat) (n : Nat) (hn : W * H * C ≤ n) :
    (writeToBuffer W H C n ⟨0, 0, 0⟩).1 = rowMajor W H C := by
  by_cases hW : 0 < W
  · by_cases hC : 0 < C
    · rw [writeToBuffer_rowMajor W H C n ⟨0, 0, 0⟩ hW hC]
      have : lin W C ⟨0, 0, 0⟩ = 0 := by simp [lin]
      rw [this, Nat.sub_zero, Nat.min_eq_right hn]
      simp [rowMajor, List.range_eq_range', decodeLin]
    · have hC0 : C = 0 := by omega
      subst hC0
      rw [writeToBuffer_not_atSample W H 0 n ⟨0, 0, 0⟩ (by simp [atSample])]
      simp [rowMajor]
  · have hW0 : W = 0 := by omega
    subst hW0
    rw [writeToBuffer_not_atSample 0 H C n ⟨0, 0, 0⟩ (by simp [atSample])]
    simp [rowMajor]

/-! ## index arithmetic -/

theorem interleaved_decode (w C x y c : Nat) (hc : c < C) :
    interleavedIdx w C x y c % C = c ∧ interleavedIdx w C x y c / C = planarIdx w x y := by
  have hC : 0 < C := by omega
  unfold interleavedIdx planarIdx
  constructor
  · rw [Nat.add_mul_mod_self_right]; exact Nat.mod_eq_of_lt hc
  · rw [Nat.add_mul_div_right _ _ hC, Nat.div_eq_of_lt hc]; omega

theorem planar_decode (w x y : Nat) (hx : x < w) :
    planarIdx w x y % w = x ∧ planarIdx w x y / w = y := by
  have hw : 0 < w := by omega
  unfold planarIdx
  constructor
  · rw [Nat.add_mul_mod_self_right]; exact Nat.mod_eq_of_lt hx
  · rw [Nat.add_mul_div_right _ _ hw, Nat.div_eq_of_lt hx]; omega

theorem planar_lt (w h x y : Nat) (hx : x < w) (hy : y < h) : planarIdx w x y < w * h := by
  unfold planarIdx
  have : (y + 1) * w ≤ h * w := Nat.mul_le_mul_right w hy
  rw [Nat.add_mul, Nat.one_mul] at this
  rw [Nat.mul_comm w h]; omega

theorem interleaved_lt (w h C x y c : Nat) (hx : x < w) (hy : y < h) (hc : c < C) :
    interleavedIdx w C x y c < w * h * C := by
  have h1 := planar_lt w h x y hx hy
  unfold interleavedIdx
  unfold planarIdx at h1
  have : (x + y * w + 1) * C ≤ w * h * C := Nat.mul_le_mul_right C h1
  rw [Nat.add_mul, Nat.one_mul] at this
  omega

/-! ## channel order -/

theorem firstOfType_spec (ty : Nat) (l : List Nat) :
    match firstOfType ty l with
    | none => ∀ t ∈ l, t ≠ ty
    | some i => i < l.length ∧ l[i]? = some ty ∧ ∀ j, j < i → l[j]? ≠ some ty := by
  induction l with
  | nil => simp [firstOfType]
  | cons t r ih =>
    by_cases h : t = ty
    · simp [firstOfType, h]
    · simp only [firstOfType, h, if_false]
      cases hf : firstOfType ty r with
      | none =>
        rw [hf] at ih
        simp only [Option.map_none]
        intro t' ht'
        rcases List.mem_cons.1 ht' with e | e
        · exact e ▸ h
        · exact ih t' e
      | some i =>
        rw [hf] at ih
        simp only [Option.map_some]
        refine ⟨by simp; omega, by simpa using ih.2.1, ?_⟩
        intro j hj
        cases j with
        | zero => simp [h]
        | succ j => simpa using ih.2.2 j (by omega)

end Jxl.Output
