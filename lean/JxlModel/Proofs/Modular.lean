import JxlModel.Model.Modular.Decode
/-! Helper lemmas for property C03 (lossless Modular). -/
namespace Jxl.Modular

theorem unpack_pack (v : Int) : unpackSigned (packSigned v) = v := by
  unfold unpackSigned packSigned
  by_cases h : v ≥ 0
  · simp only [h, if_true]
    have h2 : (2 * v).toNat % 2 = 0 := by omega
    simp [h2]
    omega
  · simp only [h, if_false]
    have h2 : ¬ ((-2 * v - 1).toNat % 2 = 0) := by omega
    simp [h2]
    omega

theorem wrap_eq_self (b : Nat) (v : Int) (hb : 0 < b)
    (h1 : -(2 : Int) ^ (b - 1) ≤ v) (h2 : v < (2 : Int) ^ (b - 1)) : wrap b v = v := by
  unfold wrap
  have hp : (2 : Int) ^ b = 2 * (2 : Int) ^ (b - 1) := by
    have : b = (b - 1) + 1 := by omega
    conv => lhs; rw [this, Int.pow_succ]
    omega
  have hpos : (0 : Int) < (2 : Int) ^ (b - 1) := Int.pow_pos (by omega)
  simp only []
  by_cases hv : 0 ≤ v
  · have hm : v % (2 : Int) ^ b = v := Int.emod_eq_of_lt hv (by omega)
    rw [hm]
    have : ¬ (2 * v ≥ (2 : Int) ^ b) := by omega
    simp [this]
  · have hm : v % (2 : Int) ^ b = v + (2 : Int) ^ b := by
      have h3 : (v + (2 : Int) ^ b) % (2 : Int) ^ b = v + (2 : Int) ^ b :=
        Int.emod_eq_of_lt (by omega) (by omega)
      rw [← h3]; simp
    rw [hm]
    have : 2 * (v + (2 : Int) ^ b) ≥ (2 : Int) ^ b := by omega
    simp [this]

/-! ## token-level round trip -/

theorem encodeResidual_sound (sb : SBits) (leaf : Leaf) (pred v : Int) (tok : Nat)
    (h : encodeResidual sb leaf pred v = some tok) : sampleOf sb leaf pred tok = v := by
  simp only [encodeResidual] at h
  split at h
  · simp at h
  · split at h
    · split at h
      · rename_i hc
        simp at h
        subst h
        exact (by simpa using hc.2)
      · simp at h
    · simp at h

theorem decode_encode_samples (sb : SBits) (leafOf : LeafOf) (prev : List Chan)
    (vs : List Int) (ps : PState) (out : List (Nat × Nat)) (rest : List Nat)
    (h : encodeSamples sb leafOf prev vs ps = some out) :
    ∃ ps', decodeSamples sb leafOf prev vs.length ps (out.map (·.2) ++ rest) = some (vs, rest, ps') := by
  induction vs generalizing ps out with
  | nil =>
    simp [encodeSamples] at h
    subst h
    exact ⟨ps, by simp [decodeSamples]⟩
  | cons v vs ih =>
    simp only [encodeSamples] at h
    split at h
    · simp at h
    · rename_i leaf hleaf
      split at h
      · simp at h
      · rename_i tok htok
        split at h
        · simp at h
        · rename_i out' hout
          simp at h
          subst h
          have hv := encodeResidual_sound sb leaf _ v tok htok
          obtain ⟨ps', hps'⟩ := ih (ps.record ps.scPredict v) out' hout
          refine ⟨ps', ?_⟩
          simp only [List.length_cons, decodeSamples, List.map_cons, List.cons_append, hleaf, hv, hps']

/-! ## RCT -/

theorem rct_permute_inv (perm : Nat) (t : Int × Int × Int) :
    rctInvPermute perm (rctFwdPermute perm t) = t := by
  obtain ⟨x, y, z⟩ := t
  match perm with
  | 0 => rfl
  | 1 => rfl
  | 2 => rfl
  | 3 => rfl
  | 4 => rfl
  | 5 => rfl
  | n + 6 => rfl

/-- forward / inverse on triples -/
def rctFwdT (ty : Nat) (t : Int × Int × Int) : Int × Int × Int := rctFwdSample ty t.1 t.2.1 t.2.2
def rctInvT (wr : Int → Int) (ty : Nat) (t : Int × Int × Int) : Int × Int × Int :=
  rctInvSampleG wr ty t.1 t.2.1 t.2.2

theorem rct_sample_inv (ty : Nat) (t : Int × Int × Int) : rctInvT id ty (rctFwdT ty t) = t := by
  obtain ⟨d, e, f⟩ := t
  unfold rctInvT rctFwdT rctFwdSample rctInvSampleG
  by_cases h6 : ty = 6
  · subst h6
    simp only [beq_self_eq_true, if_true, id, Prod.mk.injEq]
    refine ⟨?_, ?_, ?_⟩ <;> omega
  · have h6' : (ty == 6) = false := by simp [h6]
    simp only [h6', id]
    by_cases h1 : ty % 2 = 1 <;> by_cases h2 : ty / 2 = 1 <;> by_cases h3 : ty / 2 = 2 <;>
      simp [h1, h2, h3] <;> omega

/-! ## Squeeze -/

theorem squeeze_pair (a b : Int) :
    let avg := (a + b + (if a > b then 1 else 0)) / 2
    avg + tdiv (a - b) 2 = a ∧ (avg + tdiv (a - b) 2) - (a - b) = b := by
  simp only [tdiv]
  by_cases h : a > b
  · simp only [h, if_true]
    have : Int.tdiv (a - b) 2 = (a - b) / 2 := Int.tdiv_eq_ediv_of_nonneg (by omega)
    rw [this]
    omega
  · simp only [h, if_false]
    have h2 : Int.tdiv (a - b) 2 = -((b - a) / 2) := by
      have : a - b = -(b - a) := by omega
      rw [this, Int.neg_tdiv, Int.tdiv_eq_ediv_of_nonneg (by omega)]
    rw [h2]
    omega

theorem squeezeAvgs_headD (l : List Int) (x : Int) (h : l ≠ []) :
    (squeezeAvgs l).headD x = match l with
      | a :: b :: _ => (a + b + (if a > b then 1 else 0)) / 2
      | [a] => a
      | [] => x := by
  match l with
  | [] => exact absurd rfl h
  | [a] => simp [squeezeAvgs]
  | a :: b :: r => simp [squeezeAvgs]

/-- inverse ∘ forward squeeze on one line, for every tendency function, in exact arithmetic -/
theorem unsqueeze_squeeze_go (T : Int → Int → Int → Int) (line : List Int) (left : Int) :
    unsqueezeGo id T (squeezeAvgs line) (squeezeRes T line (squeezeAvgs line) left) left = line := by
  induction line using squeezeAvgs.induct generalizing left with
  | case1 a b rest ih =>
    simp only [squeezeAvgs, squeezeRes, unsqueezeGo, id]
    have hp := squeeze_pair a b
    simp only at hp
    have hd : a - b - T left ((a + b + if a > b then 1 else 0) / 2)
          ((squeezeAvgs rest).headD ((a + b + if a > b then 1 else 0) / 2))
        + T left ((a + b + if a > b then 1 else 0) / 2)
          ((squeezeAvgs rest).headD ((a + b + if a > b then 1 else 0) / 2)) = a - b := by omega
    have e2 : a - (a - b) = b := by omega
    rw [hd, hp.1, e2, ih]
  | case2 a => simp [squeezeAvgs, squeezeRes, unsqueezeGo]
  | case3 => simp [squeezeAvgs, unsqueezeGo]

end Jxl.Modular
