import JxlModel.Model.TocEntropy
import JxlModel.Proofs.Entropy.Final
import JxlModel.Proofs.Headers
/-!
# The TOC permutation through the real entropy model (C14 ∘ C04)

`readLehmerCode` (the reading half of `read_permutation`) is `readSeq` over `permCtxs` whenever the
values read are an accepted Lehmer code; with `entropy_roundtrip_of_check` (C04) this discharges
the coder hypothesis of `parseToc_writeToc_permuted`.
-/
namespace Jxl.Headers
open Jxl Jxl.Bundle Jxl.Entropy Jxl.Enc

/-- inversion of one `readSeq` step -/
theorem readSeq_cons_ok {d : Decoder} {m c : Nat} {cs : List Nat} {st : DState} {s : Bits}
    {vs : List Nat} {st2 : DState} {s2 : Bits}
    (h : d.readSeq m (c :: cs) st s = .ok ((vs, st2), s2)) :
    ∃ v st1 s1 vs', d.readVarint st c m s = .ok ((v, st1), s1) ∧
      d.readSeq m cs st1 s1 = .ok ((vs', st2), s2) ∧ vs = v :: vs' := by
  simp only [Decoder.readSeq] at h
  split at h
  · cases h
  · rename_i v st1 s1 hv
    split at h
    · cases h
    · rename_i vs' st2' s2' hr
      simp only [Except.ok.injEq, Prod.mk.injEq] at h
      obtain ⟨⟨rfl, rfl⟩, rfl⟩ := h
      exact ⟨v, st1, s1, vs', hv, hr, rfl⟩

/-- a Lehmer code `lehmerValid` accepts for `n` remaining positions has at most `n` entries -/
theorem lehmerValid_length : ∀ (n : Nat) (lehmer : List Nat), lehmerValid n lehmer = true →
    lehmer.length ≤ n
  | _, [], _ => Nat.zero_le _
  | n, i :: r, h => by
    simp only [lehmerValid, Bool.and_eq_true, decide_eq_true_eq] at h
    have := lehmerValid_length (n - 1) r h.2
    simp only [List.length_cons]
    omega

/-- the entry loop of `read_permutation` is `readSeq` over the entry contexts: if reading one value
per context of `lehmerSyms prev lehmer` returns exactly `lehmer`, and `lehmer` passes the range
checks from position `idx` on, the loop returns `lehmer` in the same state at the same bit -/
theorem readLehmer_of_readSeq (d : Decoder) (size skip : Nat) :
    ∀ (lehmer : List Nat) (idx prev : Nat) (st : DState) (s : Bits) (st1 : DState) (rest : Bits),
      d.readSeq 0 ((lehmerSyms prev lehmer).map (·.1)) st s = .ok ((lehmer, st1), rest) →
      lehmerValid (size - skip - idx) lehmer = true →
      readLehmer d size skip lehmer.length idx prev st s = .ok ((lehmer, st1), rest)
  | [], _, _, st, s, st1, rest, h, _ => by
    simp only [lehmerSyms, List.map_nil, Decoder.readSeq, Except.ok.injEq, Prod.mk.injEq,
      true_and] at h
    obtain ⟨rfl, rfl⟩ := h
    rfl
  | v :: r, idx, prev, st, s, st1, rest, h, hv => by
    simp only [lehmerSyms, List.map_cons] at h
    obtain ⟨v', st', s', vs', h1, h2, heq⟩ := readSeq_cons_ok h
    simp only [List.cons.injEq] at heq
    obtain ⟨rfl, rfl⟩ := heq
    simp only [lehmerValid, Bool.and_eq_true, decide_eq_true_eq] at hv
    have hv2 : lehmerValid (size - skip - (idx + 1)) r = true := by
      rw [show size - skip - (idx + 1) = size - skip - idx - 1 by omega]
      exact hv.2
    have ih := readLehmer_of_readSeq d size skip r (idx + 1) v st' s' st1 rest h2 hv2
    simp only [List.length_cons, readLehmer, h1]
    rw [if_neg (by omega), ih]

/-- `read_permutation`'s reads (`end`, range check, entries) are `readSeq` over `permCtxs` -/
theorem readLehmerCode_of_readSeq (d : Decoder) (size : Nat) (lehmer : List Nat)
    (st : DState) (s : Bits) (st1 : DState) (rest : Bits)
    (h : d.readSeq 0 (permCtxs size lehmer) st s = .ok ((lehmer.length :: lehmer, st1), rest))
    (hv : lehmerValid size lehmer = true) :
    readLehmerCode d st size s = .ok ((lehmer, st1), rest) := by
  simp only [permCtxs, permSyms, List.map_cons] at h
  obtain ⟨v', st', s', vs', h1, h2, heq⟩ := readSeq_cons_ok h
  simp only [List.cons.injEq] at heq
  obtain ⟨rfl, rfl⟩ := heq
  have hlen := lehmerValid_length size lehmer hv
  simp only [readLehmerCode, h1]
  rw [if_neg (by omega)]
  exact readLehmer_of_readSeq d size 0 lehmer 0 0 st' s' st1 rest h2 (by simpa using hv)

/-- one context per item -/
theorem ctxsFor_lits (syms : List (Nat × Nat)) :
    CtxsFor (syms.map fun (c, v) => Item.lit c v) (syms.map (·.1)) := by
  induction syms with
  | nil => rfl
  | cons cv r ih =>
    obtain ⟨c, v⟩ := cv
    exact ⟨_, rfl, ih⟩

theorem permCtxs_for (size : Nat) (lehmer : List Nat) :
    CtxsFor (permItems size lehmer) (permCtxs size lehmer) := ctxsFor_lits _

/-- what the decoder returns for the items: the length, then the Lehmer code -/
theorem expand_permItems (mult size : Nat) (lehmer : List Nat) :
    expandItems mult (permItems size lehmer) = lehmer.length :: lehmer := by
  have hs : ∀ (l : List Nat) (prev : Nat), (lehmerSyms prev l).map (·.2) = l := by
    intro l
    induction l with
    | nil => intro _; rfl
    | cons v r ih => intro prev; simp only [lehmerSyms, List.map_cons, ih]
  rw [← decodeVals_eq_expand, permItems, decodeVals_lits, permSyms, List.map_cons, hs]

/-- every item is a literal: the "no copy of 2^32 values" side condition of C04 is void -/
theorem permItems_lits (size : Nat) (lehmer : List Nat) :
    ∀ i ∈ permItems size lehmer,
      match i with | Item.copy _ len _ => len < 2 ^ 32 | Item.lit _ _ => True := by
  intro i hi
  simp only [permItems, List.mem_map] at hi
  obtain ⟨⟨c, v⟩, _, rfl⟩ := hi
  trivial

/-- **Step 2**: for every plan with 8 distributions the reference encoder accepts for the items
of a Lehmer code `read_permutation` accepts, `Toc::parse`'s decoder sequence reads the encoder's
bits back as that Lehmer code and stops exactly behind them. -/
theorem entropyPermDecoder_roundtrip (p : EntropyPlan) (size : Nat) (lehmer : List Nat)
    (h8 : p.numDist = 8) (hv : lehmerValid size lehmer = true)
    (hc : p.check (permItems size lehmer) = true) (r : Bits) :
    entropyPermDecoder size (encodeHeader p ++ encodeItems p (permItems size lehmer) ++ r)
      = .ok (lehmer, r) := by
  obtain ⟨st0, s0, st1, hp, hb, hseq, hfin⟩ :=
    entropy_roundtrip_of_check p 0 (permItems size lehmer) (permCtxs size lehmer) r
      (permCtxs_for size lehmer) hc (permItems_lits size lehmer)
  rw [h8] at hp
  rw [expand_permItems] at hseq
  have hl := readLehmerCode_of_readSeq _ size lehmer st0 s0 st1 r hseq hv
  simp only [entropyPermDecoder, hp, hb, hl, hfin]

/-- the permutation `parseToc` builds from the Lehmer code is the one `read_permutation` returns
(`Entropy.lehmerDecode` with `skip = 0`) -/
theorem lehmerToPerm_eq_lehmerDecode (size : Nat) (lehmer : List Nat) :
    lehmerToPerm size lehmer = lehmerDecode size 0 lehmer := by
  have hg : ∀ (l temp : List Nat), lehmerGo temp l = lehmerApply l temp := by
    intro l
    induction l with
    | nil => intro _; rfl
    | cons i r ih => intro temp; simp only [lehmerGo, lehmerApply, ih]
  simp [lehmerToPerm, lehmerDecode, hg]

/-- `readLehmerCode` followed by `lehmerToPerm` is the model of the whole `read_permutation`
(`Entropy.readPermutation` with `skip = 0`) -/
theorem readPermutation_eq (d : Decoder) (st : DState) (size : Nat) (s : Bits) :
    readPermutation d st size 0 s =
      match readLehmerCode d st size s with
      | .error e => .error e
      | .ok ((lehmer, st2), s2) => .ok ((lehmerToPerm size lehmer, st2), s2) := by
  simp only [readPermutation, readLehmerCode, Nat.sub_zero]
  cases h1 : d.readVarint st (permContext size) 0 s with
  | error e => rfl
  | ok x =>
    obtain ⟨⟨e, st1⟩, s1⟩ := x
    simp only
    by_cases he : e > size
    · simp only [if_pos he]
    · simp only [if_neg he]
      cases h2 : readLehmer d size 0 e 0 0 st1 s1 with
      | error e => rfl
      | ok y =>
        obtain ⟨⟨l, st2⟩, s2⟩ := y
        simp only [lehmerToPerm_eq_lehmerDecode]

end Jxl.Headers
