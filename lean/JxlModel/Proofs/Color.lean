import JxlModel.Model.Color
import Mathlib.Analysis.SpecialFunctions.Pow.Real
import Mathlib.Analysis.SpecialFunctions.Sqrt
import Mathlib.Tactic.Linarith
import Mathlib.Tactic.NormNum
import Mathlib.Tactic.Ring
import Mathlib.Tactic.FieldSimp
import Mathlib.Tactic.Positivity
/-!
# Lemmas for C19

1. integers and bytes: big-endian / two's complement round trips, s15Fixed16 rounding, the gamma
   parameter round trip;
2. layout of the synthesised profile (tag table, alignment, bounds, required tags);
3. the transfer curves of `Model/Color.lean` instantiated at `ℝ`.
-/
namespace Jxl.Color

theorem isEquivalent_refl (d : Described) : isEquivalent d d = true := by
  cases d with
  | enum e => simp [isEquivalent]
  | icc cs p => simp [isEquivalent]

/-! ## 1. integers and bytes -/


theorem ofBe_be32 (n : Nat) (h : n < 4294967296) : ofBe (be32 n) = n := by
  simp only [be32, ofBe, List.length_cons, List.length_nil]
  omega

theorem ofBe_be16 (n : Nat) (h : n < 65536) : ofBe (be16 n) = n := by
  simp only [be16, ofBe, List.length_cons, List.length_nil]
  omega

theorem ofU32_toU32 (v : Int) (h1 : -2147483648 ≤ v) (h2 : v < 2147483648) : ofU32 (toU32 v) = v := by
  unfold ofU32 toU32
  split <;> omega

theorem toU32_lt (v : Int) : toU32 v < 4294967296 := by
  unfold toU32; omega

/-- s15Fixed16 quantisation of a non-negative ratio: the stored integer is within half a unit
(`2^-17`) of `65536 * num / den`. -/
theorem s15OfRatio_bound (num den : Nat) (hd : 0 < den) :
    2 * (s15OfRatio num den * den) ≤ 2 * (num * 65536) + den ∧
    2 * (num * 65536) < 2 * (s15OfRatio num den * den) + den + 2 := by
  unfold s15OfRatio
  have h1 := Nat.div_add_mod (num * 65536 + den / 2) den
  have h2 := Nat.mod_lt (num * 65536 + den / 2) hd
  generalize (num * 65536 + den / 2) / den = r at *
  generalize (num * 65536 + den / 2) % den = m at *
  rw [Nat.mul_comm den r] at h1
  generalize r * den = t at *
  omega

/-- "`tf` has decode exponent within 1e-4 (relative) of `1e7 / g`", on integers -/
def closeToInvGamma (g : Nat) : TransferFunction → Prop
  | .linear => (10000000 - g) * 10000 ≤ g ∧ g ≤ 10000000
  | .dci => 10000 * (26 * g - 100000000) ≤ 100000000 ∧ 10000 * (100000000 - 26 * g) ≤ 100000000
  | .gamma g' false => g' * g ≤ 100000000000000 + 10000000000 ∧
      100000000000000 ≤ g' * g + 10000000000
  | .gamma g' true => g' = g
  | _ => False

theorem div_bounds (a d : Nat) (hd : 0 < d) : (a / d) * d ≤ a ∧ a < (a / d) * d + d := by
  have h1 := Nat.div_add_mod a d
  have h2 := Nat.mod_lt a hd
  rw [Nat.mul_comm d (a / d)] at h1
  constructor <;> omega

theorem gamma_core (g G : Nat) (h1 : 1221 ≤ g) (h2 : g ≤ 10000000)
    (hA : G * g ≤ 655360000000 + g / 2) (hB : 655360000000 + g / 2 < G * g + g) :
    65536 ≤ G ∧ G < 536740378 ∧
      ∃ t, Trc.fromGamma (G : Int) = some t ∧ closeToInvGamma g t.toTf := by
  have hg0 : 0 < g := by omega
  have hGlo : 65536 ≤ G := by
    by_contra hc
    have : G * g ≤ 65535 * g := Nat.mul_le_mul_right g (by omega)
    omega
  have hGhi : G < 536740378 := by
    by_contra hc
    have : 536740378 * g ≤ G * g := Nat.mul_le_mul_right g (by omega)
    omega
  refine ⟨hGlo, hGhi, ?_⟩
  unfold Trc.fromGamma
  rw [if_neg (by omega)]
  by_cases hlin : G = 65536
  · refine ⟨.linear, by simp [hlin], ?_⟩
    simp only [Trc.toTf, closeToInvGamma]
    subst hlin
    omega
  · rw [if_neg (by omega)]
    by_cases hdci : G = 170394
    · refine ⟨.dci, by simp [hdci, dciGamma], ?_⟩
      simp only [Trc.toTf, closeToInvGamma]
      subst hdci
      omega
    · rw [if_neg (by simp only [dciGamma]; omega)]
      refine ⟨.parametricGamma G, by simp, ?_⟩
      simp only [Trc.toTf]
      obtain ⟨hC, hD⟩ := div_bounds (G * 10000000 + 32768) 65536 (by omega)
      obtain ⟨g1, hg1⟩ : ∃ g1, g1 = (G * 10000000 + 32768) / 65536 := ⟨_, rfl⟩
      rw [← hg1] at hC hD ⊢
      by_cases hfit : g1 < 4294967296
      · rw [if_pos hfit]
        simp only [closeToInvGamma]
        have e1 : g1 * 65536 * g ≤ (G * 10000000 + 32768) * g := Nat.mul_le_mul_right g hC
        have e2 : (G * 10000000 + 32768) * g < (g1 * 65536 + 65536) * g :=
          Nat.mul_lt_mul_of_pos_right hD hg0
        have r1 : g1 * 65536 * g = (g1 * g) * 65536 := by ring
        have r2 : (G * 10000000 + 32768) * g = (G * g) * 10000000 + 32768 * g := by ring
        have r3 : (g1 * 65536 + 65536) * g = (g1 * g) * 65536 + 65536 * g := by ring
        rw [r1, r2] at e1
        rw [r2, r3] at e2
        generalize g1 * g = Q at *
        generalize G * g = P at *
        omega
      · rw [if_neg hfit]
        simp only [closeToInvGamma]
        have hGbig : 28147497 ≤ G := by omega
        have hGpos : 0 < G := by omega
        have hlo : g * G ≤ 655360000000 + G / 2 := by rw [Nat.mul_comm]; omega
        have hhi : 655360000000 + G / 2 < (g + 1) * G := by
          have e : (g + 1) * G = G * g + G := by ring
          rw [e]
          generalize G * g = P at *
          omega
        have hdiv : (65536 * 10000000 + G / 2) / G = g := by
          have e : 65536 * 10000000 = 655360000000 := by norm_num
          rw [e]
          apply Nat.le_antisymm
          · exact Nat.lt_succ_iff.mp ((Nat.div_lt_iff_lt_mul hGpos).mpr hhi)
          · exact (Nat.le_div_iff_mul_le hGpos).mpr hlo
        rw [hdiv]
        exact Nat.mod_eq_of_lt (by omega)

theorem gamma_inverted_roundtrip (g : Nat) (h1 : 1221 ≤ g) (h2 : g ≤ 10000000) :
    ∃ G, gammaParam g true = .ok G ∧ 65536 ≤ G ∧ G < 2147483648 ∧
      ∃ t, Trc.fromGamma (G : Int) = some t ∧ closeToInvGamma g t.toTf := by
  have hg0 : 0 < g := by omega
  obtain ⟨hA, hB⟩ := div_bounds (65536 * 10000000 + g / 2) g hg0
  generalize hG : (65536 * 10000000 + g / 2) / g = G at hA hB
  have e : 65536 * 10000000 = 655360000000 := by norm_num
  rw [e] at hA hB
  obtain ⟨k1, k2, k3⟩ := gamma_core g G h1 h2 hA hB
  refine ⟨G, ?_, k1, by omega, k3⟩
  unfold gammaParam
  rw [if_pos rfl, if_neg (by omega), hG]
  congr 1
  exact Nat.mod_eq_of_lt (by omega)


/-! ## 2. layout of the synthesised profile -/


/-! ### layout of the tagged data -/


theorem pad4_length_mod (l : List Nat) : (pad4 l).length % 4 = 0 := by
  simp only [pad4, List.length_append, List.length_replicate]; omega

theorem pad4_length_ge (l : List Nat) : l.length ≤ (pad4 l).length := by
  simp only [pad4, List.length_append]; omega

theorem pad4_append (a d : List Nat) (ha : a.length % 4 = 0) : pad4 (a ++ d) = a ++ pad4 d := by
  have e : (4 - (a.length + d.length) % 4) % 4 = (4 - d.length % 4) % 4 := by omega
  simp only [pad4, List.length_append, List.append_assoc, e]

def layoutTags : Nat → List Piece → List Tag
  | _, [] => []
  | off, (sigs, d) :: ps =>
    sigs.map (fun s => { sig := s, off := off, len := d.length }) ++
      layoutTags (off + (pad4 d).length) ps

def layoutData : List Piece → List Nat
  | [] => []
  | (_, d) :: ps => pad4 d ++ layoutData ps


theorem layoutData_length_mod (ps : List Piece) : (layoutData ps).length % 4 = 0 := by
  induction ps with
  | nil => rfl
  | cons p ps ih =>
    obtain ⟨sigs, d⟩ := p
    simp only [layoutData, List.length_append]
    have := pad4_length_mod d
    omega

theorem foldl_appendTags (ps : List Piece) (tags0 : List Tag) (data0 : List Nat)
    (h : data0.length % 4 = 0) :
    ps.foldl (fun st p => appendTags st p.1 p.2) (tags0, data0) =
      (tags0 ++ layoutTags data0.length ps, data0 ++ layoutData ps) := by
  induction ps generalizing tags0 data0 with
  | nil => simp [layoutTags, layoutData]
  | cons p ps ih =>
    obtain ⟨sigs, d⟩ := p
    rw [List.foldl_cons]
    have e : appendTags (tags0, data0) (sigs, d).1 (sigs, d).2 =
        (tags0 ++ sigs.map (fun s => { sig := s, off := data0.length, len := d.length }),
          pad4 (data0 ++ d)) := rfl
    rw [e, pad4_append data0 d h, ih]
    · simp only [layoutTags, layoutData, List.length_append, List.append_assoc]
    · simp only [List.length_append]
      have := pad4_length_mod d
      omega

theorem layout_eq (ps : List Piece) : layout ps = (layoutTags 0 ps, layoutData ps) := by
  unfold layout
  rw [foldl_appendTags ps [] [] rfl]
  simp

/-- every tag lies inside the data, 4-aligned -/
theorem layoutTags_bounds (ps : List Piece) (off : Nat) (hoff : off % 4 = 0) :
    ∀ t ∈ layoutTags off ps, t.off % 4 = 0 ∧ off ≤ t.off ∧
      t.off + t.len ≤ off + (layoutData ps).length := by
  induction ps generalizing off with
  | nil => intro t ht; simp [layoutTags] at ht
  | cons p ps ih =>
    obtain ⟨sigs, d⟩ := p
    intro t ht
    simp only [layoutTags, List.mem_append, List.mem_map] at ht
    have hp := pad4_length_mod d
    have hg := pad4_length_ge d
    rcases ht with ⟨s, _, rfl⟩ | ht
    · simp only [layoutData, List.length_append]
      refine ⟨hoff, le_refl _, ?_⟩
      omega
    · have := ih (off + (pad4 d).length) (by omega) t ht
      simp only [layoutData, List.length_append]
      omega


/-! ### the synthesised profile -/

theorem be32_length (n : Nat) : (be32 n).length = 4 := rfl

theorem header_length (cs : ColourSpace) (ri : Intent) : (header cs ri).length = 128 := by
  cases cs <;> cases ri <;> rfl

theorem sig_lengths (e : Enc) (q : Quant) (trc : List Nat) :
    ∀ p ∈ pieces e q trc, ∀ s ∈ p.1, s.length = 4 := by
  intro p hp s hs
  simp only [pieces, cicpPieces, List.mem_append, List.mem_cons] at hp
  rcases hp with ((hp | hp) | hp) | hp
  · rcases hp with rfl | rfl | hp
    · simp at hs; subst hs; rfl
    · simp at hs; subst hs; rfl
    · simp at hp
  · split at hp
    · simp at hp; rcases hp with rfl | rfl <;> (simp at hs; subst hs; rfl)
    · simp at hp; subst hp; simp at hs; subst hs; rfl
  · split at hp
    · simp at hp; subst hp; simp at hs; subst hs; rfl
    · simp at hp; subst hp; simp at hs; subst hs; rfl
    · simp at hp
  · split at hp
    · simp at hp
      rcases hp with rfl | rfl | rfl | rfl
      · simp at hs; rcases hs with rfl | rfl | rfl <;> rfl
      · simp at hs; subst hs; rfl
      · simp at hs; subst hs; rfl
      · simp at hs; subst hs; rfl
    · simp at hp; subst hp; simp at hs; subst hs; rfl

theorem layoutTags_sig (ps : List Piece) (off : Nat) (h : ∀ p ∈ ps, ∀ s ∈ p.1, s.length = 4) :
    ∀ t ∈ layoutTags off ps, t.sig.length = 4 := by
  induction ps generalizing off with
  | nil => intro t ht; simp [layoutTags] at ht
  | cons p ps ih =>
    obtain ⟨sigs, d⟩ := p
    intro t ht
    simp only [layoutTags, List.mem_append, List.mem_map] at ht
    rcases ht with ⟨s, hs, rfl⟩ | ht
    · exact h (sigs, d) (by simp) s hs
    · exact ih _ (fun p hp => h p (by simp [hp])) t ht

theorem entries_length (tags : List Tag) (base : Nat) (h : ∀ t ∈ tags, t.sig.length = 4) :
    (tags.flatMap (fun t => t.sig ++ be32 (t.off + base) ++ be32 t.len)).length = 12 * tags.length := by
  induction tags with
  | nil => rfl
  | cons t ts ih =>
    simp only [List.flatMap_cons, List.length_append, List.length_cons, be32_length]
    rw [ih (fun t ht => h t (by simp [ht])), h t (by simp)]
    omega

theorem tagTable_length (tags : List Tag) (h : ∀ t ∈ tags, t.sig.length = 4) :
    (tagTable tags).length = 4 + 12 * tags.length := by
  unfold tagTable
  rw [List.length_append, be32_length, entries_length tags _ h]

theorem synthBody_length (e : Enc) (tags : List Tag) (data : List Nat)
    (h : ∀ t ∈ tags, t.sig.length = 4) :
    (synthBody e tags data).length + 4 = 132 + 12 * tags.length + data.length := by
  unfold synthBody
  simp only [List.length_append, List.length_drop, header_length, tagTable_length tags h]
  omega


theorem trcData_ok (q : Quant) (tf : TransferFunction) (h1 : tf ≠ .unknown)
    (h2 : tf ≠ .gamma 0 true) : ∃ trc, trcData q tf = .ok trc := by
  cases tf with
  | gamma g inv =>
    simp only [trcData, gammaParam]
    cases inv with
    | false => exact ⟨_, rfl⟩
    | true =>
      have hg : g ≠ 0 := by intro h; subst h; exact h2 rfl
      simp [hg]
  | unknown => exact absurd rfl h1
  | _ => exact ⟨_, rfl⟩

theorem layoutTags_mem (ps : List Piece) (off : Nat) (sigs : List (List Nat)) (d : List Nat)
    (h : (sigs, d) ∈ ps) :
    ∃ o, ∀ s ∈ sigs, ({ sig := s, off := o, len := d.length } : Tag) ∈ layoutTags off ps := by
  induction ps generalizing off with
  | nil => simp at h
  | cons p ps ih =>
    obtain ⟨sigs', d'⟩ := p
    simp only [List.mem_cons] at h
    rcases h with h | h
    · obtain ⟨rfl, rfl⟩ := Prod.mk.inj h
      refine ⟨off, fun s hs => ?_⟩
      simp only [layoutTags, List.mem_append, List.mem_map]
      exact Or.inl ⟨s, hs, rfl⟩
    · obtain ⟨o, ho⟩ := ih (off + (pad4 d').length) h
      refine ⟨o, fun s hs => ?_⟩
      simp only [layoutTags, List.mem_append]
      exact Or.inr (ho s hs)

/-- signatures every synthesised profile of that colour space carries -/
def requiredSigs : ColourSpace → List (List Nat)
  | .rgb => [ascii "desc", ascii "cprt", ascii "wtpt", ascii "chad", ascii "rTRC", ascii "gTRC",
             ascii "bTRC", ascii "rXYZ", ascii "gXYZ", ascii "bXYZ"]
  | _ => [ascii "desc", ascii "cprt", ascii "wtpt", ascii "kTRC"]

theorem required_present (e : Enc) (q : Quant) (trc : List Nat) (hcs : e.cs = .rgb ∨ e.cs = .grey) :
    ∀ s ∈ requiredSigs e.cs, ∃ p ∈ pieces e q trc, s ∈ p.1 := by
  intro s hs
  have m1 : ([ascii "desc"], mluc e.desc) ∈ pieces e q trc := by simp [pieces]
  have m2 : ([ascii "cprt"], mluc "CC0, generated by jxl-oxide") ∈ pieces e q trc := by simp [pieces]
  rcases hcs with hcs | hcs
  · rw [hcs] at hs
    simp only [requiredSigs, List.mem_cons, List.not_mem_nil, or_false] at hs
    have m3 : ([ascii "wtpt"], xyzTag d50Xyz) ∈ pieces e q trc := by simp [pieces, hcs]
    have m4 : ([ascii "chad"], chadTag q) ∈ pieces e q trc := by simp [pieces, hcs]
    have m5 : ([ascii "rTRC", ascii "gTRC", ascii "bTRC"], trc) ∈ pieces e q trc := by
      simp [pieces, hcs]
    have m6 : ([ascii "rXYZ"], xyzTag q.rXYZ) ∈ pieces e q trc := by simp [pieces, hcs]
    have m7 : ([ascii "gXYZ"], xyzTag q.gXYZ) ∈ pieces e q trc := by simp [pieces, hcs]
    have m8 : ([ascii "bXYZ"], xyzTag q.bXYZ) ∈ pieces e q trc := by simp [pieces, hcs]
    rcases hs with rfl | rfl | rfl | rfl | rfl | rfl | rfl | rfl | rfl | rfl
    · exact ⟨_, m1, by simp⟩
    · exact ⟨_, m2, by simp⟩
    · exact ⟨_, m3, by simp⟩
    · exact ⟨_, m4, by simp⟩
    · exact ⟨_, m5, by simp⟩
    · exact ⟨_, m5, by simp⟩
    · exact ⟨_, m5, by simp⟩
    · exact ⟨_, m6, by simp⟩
    · exact ⟨_, m7, by simp⟩
    · exact ⟨_, m8, by simp⟩
  · rw [hcs] at hs
    simp only [requiredSigs, List.mem_cons, List.not_mem_nil, or_false] at hs
    have hne : ¬ (ColourSpace.grey = ColourSpace.rgb) := by decide
    have m3 : ([ascii "wtpt"], xyzTag q.wtpt) ∈ pieces e q trc := by simp [pieces, hcs]
    have m4 : ([ascii "kTRC"], trc) ∈ pieces e q trc := by simp [pieces, hcs]
    rcases hs with rfl | rfl | rfl | rfl
    · exact ⟨_, m1, by simp⟩
    · exact ⟨_, m2, by simp⟩
    · exact ⟨_, m3, by simp⟩
    · exact ⟨_, m4, by simp⟩


theorem synth_structure (e : Enc) (q : Quant) (hcs : e.cs = .rgb ∨ e.cs = .grey)
    (htf : e.tf ≠ .unknown) (hg : e.tf ≠ .gamma 0 true) :
    ∃ trc tags data bytes, trcData q e.tf = .ok trc ∧
      tags = layoutTags 0 (pieces e q trc) ∧ data = layoutData (pieces e q trc) ∧
      synth e q = .ok bytes ∧
      bytes = be32 (132 + 12 * tags.length + data.length) ++ (header e.cs e.ri).drop 4
        ++ tagTable tags ++ data ∧
      bytes.length = 132 + 12 * tags.length + data.length ∧
      (bytes.length < 4294967296 → u32At bytes 0 = bytes.length) ∧
      (∀ t ∈ tags, t.sig.length = 4 ∧ (t.off + (132 + 12 * tags.length)) % 4 = 0 ∧
        t.off + (132 + 12 * tags.length) + t.len ≤ bytes.length) ∧
      (∀ s ∈ requiredSigs e.cs, ∃ t ∈ tags, t.sig = s) ∧
      (e.cs = .rgb → ∃ o, ∀ s ∈ [ascii "rTRC", ascii "gTRC", ascii "bTRC"],
        ({ sig := s, off := o, len := trc.length } : Tag) ∈ tags) := by
  obtain ⟨trc, htrc⟩ := trcData_ok q e.tf htf hg
  obtain ⟨tags, htags⟩ : ∃ tags, tags = layoutTags 0 (pieces e q trc) := ⟨_, rfl⟩
  obtain ⟨data, hdata⟩ : ∃ data, data = layoutData (pieces e q trc) := ⟨_, rfl⟩
  have hsig : ∀ t ∈ tags, t.sig.length = 4 := by
    rw [htags]; exact layoutTags_sig _ 0 (sig_lengths e q trc)
  have hlen := synthBody_length e tags data hsig
  have hsynth : synth e q = .ok (be32 ((synthBody e tags data).length + 4) ++ synthBody e tags data) := by
    unfold synth synthTags
    have hx : e.cs ≠ .xyb := by rcases hcs with h | h <;> simp [h]
    rw [if_neg hx, htrc, htags, hdata]
    rcases hcs with h | h <;> simp only [h, layout_eq]
  refine ⟨trc, tags, data, _, htrc, htags, hdata, hsynth, ?_, ?_, ?_, ?_, ?_, ?_⟩
  · rw [hlen]; simp only [synthBody, List.append_assoc]
  · simp only [List.length_append, be32_length]; omega
  · intro hlt
    simp only [List.length_append, be32_length] at hlt
    unfold u32At
    rw [hlen]
    simp only [List.drop_zero]
    have : ((be32 (132 + 12 * tags.length + data.length) ++ synthBody e tags data).take 4)
        = be32 (132 + 12 * tags.length + data.length) := by
      rw [List.take_append_of_le_length (by simp [be32_length])]
      exact List.take_of_length_le (by simp [be32_length])
    rw [this, ofBe_be32 _ (by omega)]
    simp only [List.length_append, be32_length]; omega
  · intro t ht
    have hb := layoutTags_bounds (pieces e q trc) 0 rfl t (htags ▸ ht)
    refine ⟨hsig t ht, by omega, ?_⟩
    simp only [List.length_append, be32_length]
    rw [← hdata] at hb
    omega
  · intro s hs
    obtain ⟨p, hp, hsp⟩ := required_present e q trc hcs s hs
    obtain ⟨o, ho⟩ := layoutTags_mem (pieces e q trc) 0 p.1 p.2 hp
    exact ⟨_, htags ▸ ho s hsp, rfl⟩
  · intro hrgb
    have hp : ([ascii "rTRC", ascii "gTRC", ascii "bTRC"], trc) ∈ pieces e q trc := by
      simp [pieces, hrgb]
    rw [htags]
    exact layoutTags_mem (pieces e q trc) 0 _ _ hp


/-! ## 2b. reading a synthesised profile back -/


/-! ### reading the synthesised bytes back -/

theorem drop_append_len {α} (a b : List α) (n : Nat) (h : a.length = n) : (a ++ b).drop n = b := by
  subst h; simp

theorem take_append_len {α} (a b : List α) (n : Nat) (h : a.length = n) : (a ++ b).take n = a := by
  subst h; simp

theorem u32At_append (pre a rest : List Nat) (k : Nat) (hk : pre.length = k) (ha : a.length = 4) :
    u32At (pre ++ a ++ rest) k = ofBe a := by
  unfold u32At
  rw [List.append_assoc, drop_append_len pre _ k hk, take_append_len a rest 4 ha]

/-- the expected raw tags of a layout: every signature with the data of its piece -/
def expectedRaw (ps : List Piece) : List (List Nat × List Nat) :=
  ps.flatMap (fun p => p.1.map (fun s => (s, p.2)))

theorem slices (ps : List Piece) (pre : List Nat) :
    (layoutTags pre.length ps).map
        (fun t => (t.sig, ((pre ++ layoutData ps).drop t.off).take t.len)) = expectedRaw ps := by
  induction ps generalizing pre with
  | nil => rfl
  | cons p ps ih =>
    obtain ⟨sigs, d⟩ := p
    simp only [layoutTags, layoutData, expectedRaw, List.map_append, List.map_map, List.flatMap_cons]
    congr 1
    · apply List.map_congr_left
      intro s _
      simp only [Function.comp]
      rw [drop_append_len pre _ _ rfl]
      simp only [pad4, List.append_assoc]
      rw [take_append_len d _ _ rfl]
    · have := ih (pre ++ pad4 d)
      simp only [List.length_append, List.append_assoc] at this
      exact this

def entries (b : Nat) (ts : List Tag) : List Nat :=
  ts.flatMap (fun t => t.sig ++ be32 (t.off + b) ++ be32 t.len)

theorem readTags_entries (b size : Nat) (ts : List Tag) (pre post : List Nat)
    (h : ∀ t ∈ ts, t.sig.length = 4 ∧ t.off + b < 4294967296 ∧ t.len < 4294967296 ∧
      t.off + b + t.len ≤ size) :
    readTags (pre ++ entries b ts ++ post) size ts.length pre.length =
      .ok (ts.map (fun t => { sig := t.sig,
                              data := ((pre ++ entries b ts ++ post).drop (t.off + b)).take t.len })) := by
  induction ts generalizing pre with
  | nil => rfl
  | cons t ts ih =>
    obtain ⟨h1, h2, h3, h4⟩ := h t (by simp)
    have hrest : ∀ t' ∈ ts, t'.sig.length = 4 ∧ t'.off + b < 4294967296 ∧ t'.len < 4294967296 ∧
        t'.off + b + t'.len ≤ size := fun t' ht' => h t' (by simp [ht'])
    have hprof : pre ++ entries b (t :: ts) ++ post =
        (pre ++ t.sig ++ be32 (t.off + b) ++ be32 t.len) ++ entries b ts ++ post := by
      simp only [entries, List.flatMap_cons, List.append_assoc]
    have hoff : u32At (pre ++ entries b (t :: ts) ++ post) (pre.length + 4) = t.off + b := by
      have e : pre ++ entries b (t :: ts) ++ post =
          (pre ++ t.sig) ++ be32 (t.off + b) ++ (be32 t.len ++ entries b ts ++ post) := by
        simp only [entries, List.flatMap_cons, List.append_assoc]
      rw [e, u32At_append _ _ _ _ (by simp [h1]) (be32_length _), ofBe_be32 _ h2]
    have hlen : u32At (pre ++ entries b (t :: ts) ++ post) (pre.length + 8) = t.len := by
      have e : pre ++ entries b (t :: ts) ++ post =
          (pre ++ t.sig ++ be32 (t.off + b)) ++ be32 t.len ++ (entries b ts ++ post) := by
        simp only [entries, List.flatMap_cons, List.append_assoc]
      rw [e, u32At_append _ _ _ _ (by simp [h1, be32_length]) (be32_length _), ofBe_be32 _ h3]
    have hsig : ((pre ++ entries b (t :: ts) ++ post).drop pre.length).take 4 = t.sig := by
      have e : pre ++ entries b (t :: ts) ++ post =
          pre ++ (t.sig ++ (be32 (t.off + b) ++ be32 t.len ++ entries b ts ++ post)) := by
        simp only [entries, List.flatMap_cons, List.append_assoc]
      rw [e, drop_append_len pre _ _ rfl, take_append_len _ _ _ h1]
    have hih := ih (pre ++ t.sig ++ be32 (t.off + b) ++ be32 t.len) hrest
    rw [← hprof] at hih
    have hl : (pre ++ t.sig ++ be32 (t.off + b) ++ be32 t.len).length = pre.length + 12 := by
      simp only [List.length_append, h1, be32_length]
    rw [hl] at hih
    simp only [List.length_cons, readTags, hoff, hlen, hsig]
    rw [if_neg (by omega), hih]
    rfl

theorem header_intent (cs : ColourSpace) (ri : Intent) (a b c d : Nat) (rest : List Nat) :
    ([a, b, c, d] ++ (header cs ri).drop 4 ++ rest).getD 0x43 0 = ri.toNat := by
  cases cs <;> cases ri <;> rfl

theorem header_cs (cs : ColourSpace) (ri : Intent) (a b c d : Nat) (rest : List Nat) :
    (([a, b, c, d] ++ (header cs ri).drop 4 ++ rest).drop 0x10).take 4 = csSig cs := by
  cases cs <;> cases ri <;> rfl

theorem intent_roundtrip (ri : Intent) : Intent.ofNat? ri.toNat = some ri := by
  cases ri <;> rfl

theorem parseRaw_synth (e : Enc) (tags : List Tag) (data : List Nat)
    (hsig : ∀ t ∈ tags, t.sig.length = 4) (hb : ∀ t ∈ tags, t.off + t.len ≤ data.length)
    (hL : 132 + 12 * tags.length + data.length < 4294967296) :
    parseRaw (be32 (132 + 12 * tags.length + data.length) ++ (header e.cs e.ri).drop 4
        ++ tagTable tags ++ data) =
      .ok { cs := csSig e.cs, ri := e.ri,
            tags := tags.map (fun t => { sig := t.sig, data := (data.drop t.off).take t.len }) } := by
  obtain ⟨bytes, hbytes⟩ : ∃ bytes, bytes = be32 (132 + 12 * tags.length + data.length)
      ++ (header e.cs e.ri).drop 4 ++ tagTable tags ++ data := ⟨_, rfl⟩
  rw [← hbytes]
  have hlen : bytes.length = 132 + 12 * tags.length + data.length := by
    rw [hbytes]
    simp only [List.length_append, be32_length, List.length_drop, header_length,
      tagTable_length tags hsig]
    omega
  have hPlen : (be32 (132 + 12 * tags.length + data.length) ++ (header e.cs e.ri).drop 4).length
      = 128 := by
    simp only [List.length_append, be32_length, List.length_drop, header_length]
  have hsize : u32At bytes 0 = bytes.length := by
    rw [hlen, hbytes]
    unfold u32At
    simp only [List.drop_zero, List.append_assoc]
    rw [take_append_len _ _ _ (be32_length _), ofBe_be32 _ hL]
  have hri : bytes.getD 0x43 0 = e.ri.toNat := by
    rw [hbytes, List.append_assoc _ (tagTable tags) data]
    exact header_intent e.cs e.ri _ _ _ _ _
  have hcs : (bytes.drop 0x10).take 4 = csSig e.cs := by
    rw [hbytes, List.append_assoc _ (tagTable tags) data]
    exact header_cs e.cs e.ri _ _ _ _ _
  have hshape : bytes = (be32 (132 + 12 * tags.length + data.length) ++ (header e.cs e.ri).drop 4
      ++ be32 tags.length) ++ entries (128 + 4 + tags.length * 12) tags ++ data := by
    rw [hbytes]; simp only [tagTable, entries, List.append_assoc]
  have hcount : u32At bytes 0x80 = tags.length := by
    rw [hbytes]
    have e1 : be32 (132 + 12 * tags.length + data.length) ++ (header e.cs e.ri).drop 4
        ++ tagTable tags ++ data
        = (be32 (132 + 12 * tags.length + data.length) ++ (header e.cs e.ri).drop 4)
          ++ be32 tags.length ++ (entries (128 + 4 + tags.length * 12) tags ++ data) := by
      simp only [tagTable, entries, List.append_assoc]
    rw [e1, u32At_append _ _ _ _ hPlen (be32_length _), ofBe_be32 _ (by omega)]
  have hread := readTags_entries (128 + 4 + tags.length * 12) bytes.length tags
    (be32 (132 + 12 * tags.length + data.length) ++ (header e.cs e.ri).drop 4 ++ be32 tags.length)
    data (by
      intro t ht
      have := hb t ht
      refine ⟨hsig t ht, by omega, by omega, by omega⟩)
  rw [← hshape] at hread
  have hpl : (be32 (132 + 12 * tags.length + data.length) ++ (header e.cs e.ri).drop 4
      ++ be32 tags.length).length = 0x84 := by
    simp only [List.length_append, be32_length, List.length_drop, header_length]
  rw [hpl] at hread
  unfold parseRaw
  rw [if_neg (by omega), hsize, if_neg (by simp), hri, intent_roundtrip]
  simp only []
  rw [if_neg (by omega), hcount, if_neg (by omega), hread, hcs]
  simp only [bind, Except.bind, pure, Except.pure]
  congr 2
  apply List.map_congr_left
  intro t ht
  congr 1
  -- the data slice: drop (off + base) of the whole file = drop off of the data
  have hpre : bytes = (be32 (132 + 12 * tags.length + data.length) ++ (header e.cs e.ri).drop 4
      ++ tagTable tags) ++ data := by rw [hbytes]
  have hprelen : (be32 (132 + 12 * tags.length + data.length) ++ (header e.cs e.ri).drop 4
      ++ tagTable tags).length = 128 + 4 + tags.length * 12 := by
    simp only [List.length_append, be32_length, List.length_drop, header_length,
      tagTable_length tags hsig]
    omega
  rw [hpre, Nat.add_comm t.off, ← List.drop_drop, drop_append_len _ _ _ hprelen]

/-! ascii literals as byte lists (simp set `lits`) -/
theorem lit_XYZ_ : ascii "XYZ " = [88, 89, 90, 32] := by decide
theorem lit_para : ascii "para" = [112, 97, 114, 97] := by decide
theorem lit_curv : ascii "curv" = [99, 117, 114, 118] := by decide
theorem lit_sf32 : ascii "sf32" = [115, 102, 51, 50] := by decide
theorem lit_cicp : ascii "cicp" = [99, 105, 99, 112] := by decide
theorem lit_desc : ascii "desc" = [100, 101, 115, 99] := by decide
theorem lit_cprt : ascii "cprt" = [99, 112, 114, 116] := by decide
theorem lit_wtpt : ascii "wtpt" = [119, 116, 112, 116] := by decide
theorem lit_chad : ascii "chad" = [99, 104, 97, 100] := by decide
theorem lit_rTRC : ascii "rTRC" = [114, 84, 82, 67] := by decide
theorem lit_gTRC : ascii "gTRC" = [103, 84, 82, 67] := by decide
theorem lit_bTRC : ascii "bTRC" = [98, 84, 82, 67] := by decide
theorem lit_kTRC : ascii "kTRC" = [107, 84, 82, 67] := by decide
theorem lit_rXYZ : ascii "rXYZ" = [114, 88, 89, 90] := by decide
theorem lit_gXYZ : ascii "gXYZ" = [103, 88, 89, 90] := by decide
theorem lit_bXYZ : ascii "bXYZ" = [98, 88, 89, 90] := by decide
theorem lit_TRC : ascii "TRC" = [84, 82, 67] := by decide
theorem lit_XYZ : ascii "XYZ" = [88, 89, 90] := by decide
theorem lit_RGB_ : ascii "RGB " = [82, 71, 66, 32] := by decide
theorem lit_GRAY : ascii "GRAY" = [71, 82, 65, 89] := by decide
theorem lit_CMYK : ascii "CMYK" = [67, 77, 89, 75] := by decide
theorem lit_mluc : ascii "mluc" = [109, 108, 117, 99] := by decide
theorem lit_enUS : ascii "enUS" = [101, 110, 85, 83] := by decide

/-! ### one step of the tag scan on each kind of synthesised tag -/

def I32 (v : Int) : Prop := -2147483648 ≤ v ∧ v < 2147483648

theorem i32At_beI32 (pre rest : List Nat) (v : Int) (k : Nat) (hk : pre.length = k) (hv : I32 v) :
    i32At (pre ++ beI32 v ++ rest) k = v := by
  unfold i32At
  rw [List.append_assoc, drop_append_len pre _ k hk, take_append_len _ rest 4 (by simp [beI32, be32_length])]
  unfold beI32
  rw [ofBe_be32 _ (toU32_lt v), ofU32_toU32 v hv.1 hv.2]

theorem i32s_xyzTag (a b c : Int) (ha : I32 a) (hb : I32 b) (hc : I32 c) :
    i32s (xyzTag [a, b, c]) 8 3 = [a, b, c] := by
  have e : xyzTag [a, b, c] = ascii "XYZ " ++ [0, 0, 0, 0] ++ beI32 a ++ beI32 b ++ beI32 c := by
    simp [xyzTag, List.flatMap_cons, List.append_assoc]
  simp only [i32s, List.range, List.range.loop, List.map_cons, List.map_nil]
  refine congrArg₂ _ ?_ (congrArg₂ _ ?_ (congrArg₂ _ ?_ rfl))
  · rw [e]
    have := i32At_beI32 (ascii "XYZ " ++ [0, 0, 0, 0]) (beI32 b ++ beI32 c) a 8 rfl ha
    simpa [List.append_assoc] using this
  · rw [e]
    have := i32At_beI32 (ascii "XYZ " ++ [0, 0, 0, 0] ++ beI32 a) (beI32 c) b 12 (by simp [beI32, be32_length, lit_XYZ_]) hb
    simpa [List.append_assoc] using this
  · rw [e]
    have := i32At_beI32 (ascii "XYZ " ++ [0, 0, 0, 0] ++ beI32 a ++ beI32 b) [] c 16 (by simp [beI32, be32_length, lit_XYZ_]) hc
    simpa [List.append_assoc] using this

theorem xyzTag_head (a b c : Int) :
    (xyzTag [a, b, c]).take 4 = ascii "XYZ " ∧ (xyzTag [a, b, c]).length = 20 := by
  simp [xyzTag, beI32, be32, lit_XYZ_]

theorem mluc_length (s : String) : 4 ≤ (mluc s).length := by
  simp [mluc, lit_mluc, lit_enUS, be32]

theorem step_mluc (f : FloatOps) (pq hlg : List Nat) (i : Info) (sig : List Nat) (s : String)
    (hsig : sig = ascii "desc" ∨ sig = ascii "cprt") :
    tagStep f pq hlg i { sig := sig, data := mluc s } = .skip := by
  have hl := mluc_length s
  unfold tagStep
  simp only []
  rw [if_neg (by omega)]
  rcases hsig with rfl | rfl
  · rw [if_neg (by decide), if_neg (by decide), if_neg (by decide), if_neg (by decide)]
    rw [if_neg (by decide), if_neg (by decide)]
  · rw [if_neg (by decide), if_neg (by decide), if_neg (by decide), if_neg (by decide)]
    rw [if_neg (by decide), if_neg (by decide)]

theorem step_wtpt (f : FloatOps) (pq hlg : List Nat) (i : Info) (a b c : Int)
    (ha : I32 a) (hb : I32 b) (hc : I32 c) (hv : f.validXyz [a, b, c] = true) :
    tagStep f pq hlg i { sig := ascii "wtpt", data := xyzTag [a, b, c] } =
      .set { i with wtpt := [a, b, c] } := by
  obtain ⟨h1, h2⟩ := xyzTag_head a b c
  unfold tagStep
  simp only []
  rw [if_neg (by omega), if_neg (by decide), if_neg (by decide), if_neg (by decide),
    if_pos trivial, if_neg (by rw [h1, h2]; simp), i32s_xyzTag a b c ha hb hc, if_pos hv]

theorem step_xyz (f : FloatOps) (pq hlg : List Nat) (i : Info) (ch : Nat) (idx : Nat)
    (hch : chIndex ch false = some idx) (a b c : Int)
    (ha : I32 a) (hb : I32 b) (hc : I32 c) (hv : f.validXyz [a, b, c] = true) :
    tagStep f pq hlg i { sig := ch :: ascii "XYZ", data := xyzTag [a, b, c] } =
      .set { i with xyzs := i.xyzs.set idx (some [a, b, c]) } := by
  obtain ⟨h1, h2⟩ := xyzTag_head a b c
  unfold tagStep
  simp only []
  rw [if_neg (by omega), if_neg (by simp [lit_TRC, lit_XYZ]), if_pos (by simp)]
  simp only [List.getD_cons_zero, hch]
  rw [if_neg (by rw [h1, h2]; simp), i32s_xyzTag a b c ha hb hc, if_pos hv]

theorem step_trc (f : FloatOps) (pq hlg : List Nat) (i : Info) (ch : Nat) (idx : Nat)
    (hch : chIndex ch true = some idx) (d : List Nat) (t : Trc) (hd : 4 ≤ d.length)
    (ht : trcOfData pq hlg d = some (.ok t)) :
    tagStep f pq hlg i { sig := ch :: ascii "TRC", data := d } =
      .set { i with trcs := i.trcs.set idx (some t) } := by
  unfold tagStep
  simp only []
  rw [if_neg (by omega), if_pos (by simp)]
  simp only [List.getD_cons_zero, hch, ht]

theorem step_cicp (f : FloatOps) (pq hlg : List Nat) (i : Info) (c : List Nat) (hc : c.length = 4) :
    tagStep f pq hlg i { sig := ascii "cicp", data := ascii "cicp" ++ [0, 0, 0, 0] ++ c } =
      .set { i with cicp := some c } := by
  unfold tagStep
  simp only []
  have hl : (ascii "cicp" ++ [0, 0, 0, 0] ++ c).length = 12 := by simp [lit_cicp, hc]
  rw [if_neg (by omega), if_neg (by decide), if_neg (by decide), if_neg (by decide),
    if_neg (by decide), if_neg (by decide), if_pos trivial, if_neg (by omega)]
  congr 3
  rw [drop_append_len _ c 8 (by simp [lit_cicp])]
  exact List.take_of_length_le (by omega)

theorem i32s_flatMap (l : List Int) (pre : List Nat) (h : ∀ v ∈ l, I32 v) :
    i32s (pre ++ l.flatMap beI32) pre.length l.length = l := by
  unfold i32s
  induction l generalizing pre with
  | nil => rfl
  | cons v l ih =>
    rw [List.length_cons, List.range_succ_eq_map, List.map_cons, List.map_map]
    congr 1
    · have := i32At_beI32 pre (l.flatMap beI32) v pre.length rfl (h v (by simp))
      simpa [List.flatMap_cons, List.append_assoc] using this
    · have hih := ih (pre ++ beI32 v) (fun w hw => h w (by simp [hw]))
      have hl : (pre ++ beI32 v).length = pre.length + 4 := by simp [beI32, be32_length]
      rw [hl] at hih
      refine Eq.trans ?_ hih
      apply List.map_congr_left
      intro k _
      simp only [Function.comp, List.flatMap_cons, List.append_assoc]
      congr 1
      omega

theorem step_chad (f : FloatOps) (pq hlg : List Nat) (i : Info) (q : Quant)
    (hlen : q.chad.length = 9) (hr : ∀ v ∈ q.chad, I32 v) (hv : f.validChad q.chad = true) :
    tagStep f pq hlg i { sig := ascii "chad", data := chadTag q } =
      .set { i with chad := some q.chad } := by
  have htake : q.chad.take 9 = q.chad := List.take_of_length_le (by omega)
  have hd : chadTag q = (ascii "sf32" ++ [0, 0, 0, 0]) ++ q.chad.flatMap beI32 := by
    unfold chadTag; rw [htake]
  have hdl : (chadTag q).length = 44 := by
    rw [hd]
    have : (q.chad.flatMap beI32).length = 4 * q.chad.length := by
      clear hd hv htake hlen hr
      induction q.chad with
      | nil => rfl
      | cons v l ih => simp [List.flatMap_cons, beI32, be32_length, ih]; omega
    simp [lit_sf32, this, hlen]
  have hhead : (chadTag q).take 4 = ascii "sf32" := by
    rw [hd, List.append_assoc, take_append_len _ _ 4 (by simp [lit_sf32])]
  have hi : i32s (chadTag q) 8 9 = q.chad := by
    have := i32s_flatMap q.chad (ascii "sf32" ++ [0, 0, 0, 0]) hr
    rw [hlen] at this
    rw [hd]
    simpa [lit_sf32] using this
  unfold tagStep
  simp only []
  rw [if_neg (by omega), if_neg (by decide), if_neg (by decide), if_pos trivial,
    if_neg (by rw [hhead, hdl]; simp), hi, if_pos hv]

/-! ### the whole scan -/

theorem scan_skip (f : FloatOps) (pq hlg : List Nat) (i : Info) (t : RawTag) (ts : List RawTag)
    (h : tagStep f pq hlg i t = .skip) : scanTags f pq hlg i (t :: ts) = scanTags f pq hlg i ts := by
  simp only [scanTags, h]

theorem scan_set (f : FloatOps) (pq hlg : List Nat) (i i' : Info) (t : RawTag) (ts : List RawTag)
    (h : tagStep f pq hlg i t = .set i') : scanTags f pq hlg i (t :: ts) = scanTags f pq hlg i' ts := by
  simp only [scanTags, h]

structure Quant.WF (q : Quant) : Prop where
  chadLen : q.chad.length = 9
  chadRange : ∀ v ∈ q.chad, I32 v
  wtpt : ∃ a b c, q.wtpt = [a, b, c] ∧ I32 a ∧ I32 b ∧ I32 c
  rXYZ : ∃ a b c, q.rXYZ = [a, b, c] ∧ I32 a ∧ I32 b ∧ I32 c
  gXYZ : ∃ a b c, q.gXYZ = [a, b, c] ∧ I32 a ∧ I32 b ∧ I32 c
  bXYZ : ∃ a b c, q.bXYZ = [a, b, c] ∧ I32 a ∧ I32 b ∧ I32 c

theorem cicp_cases (e : Enc) :
    cicpPieces e = [] ∨
    (∃ p, e.tf = .pq ∧ cicpPieces e = [([ascii "cicp"], ascii "cicp" ++ [0, 0, 0, 0] ++ [p, 16, 0, 1])]) ∨
    (∃ p, e.tf = .hlg ∧ cicpPieces e = [([ascii "cicp"], ascii "cicp" ++ [0, 0, 0, 0] ++ [p, 18, 0, 1])]) := by
  obtain ⟨cs, wp, prim, tf, ri⟩ := e
  cases tf <;> cases prim <;>
    simp [cicpPieces, Enc.cicp, Primaries.cicp, TransferFunction.cicp]

/-- the TRC the parser ends up with: the `cicp` override wins when the tag was written -/
def recognisedTrc (e : Enc) (t : Trc) : Trc :=
  if cicpPieces e = [] then t else if e.tf = .pq then .pq else .hlg

def mkRaw (p : List Nat × List Nat) : RawTag := { sig := p.1, data := p.2 }

theorem lit_rTRC' : ascii "rTRC" = 114 :: ascii "TRC" := by decide
theorem lit_gTRC' : ascii "gTRC" = 103 :: ascii "TRC" := by decide
theorem lit_bTRC' : ascii "bTRC" = 98 :: ascii "TRC" := by decide
theorem lit_kTRC' : ascii "kTRC" = 107 :: ascii "TRC" := by decide
theorem lit_rXYZ' : ascii "rXYZ" = 114 :: ascii "XYZ" := by decide
theorem lit_gXYZ' : ascii "gXYZ" = 103 :: ascii "XYZ" := by decide
theorem lit_bXYZ' : ascii "bXYZ" = 98 :: ascii "XYZ" := by decide

theorem scan_cicp (f : FloatOps) (pq hlg : List Nat) (e : Enc) (i : Info) (hi : i.cicp = none)
    (rest : List RawTag) :
    ∃ i', scanTags f pq hlg i ((expectedRaw (cicpPieces e)).map mkRaw ++ rest) = scanTags f pq hlg i' rest ∧
      i'.chad = i.chad ∧ i'.wtpt = i.wtpt ∧ i'.trcs = i.trcs ∧ i'.xyzs = i.xyzs ∧
      (cicpPieces e = [] → i'.cicp = none) ∧
      (cicpPieces e ≠ [] → e.tf = .pq → ∃ p, i'.cicp = some [p, 16, 0, 1]) ∧
      (cicpPieces e ≠ [] → e.tf ≠ .pq → ∃ p, i'.cicp = some [p, 18, 0, 1]) := by
  rcases cicp_cases e with h | ⟨p, htf, h⟩ | ⟨p, htf, h⟩
  · refine ⟨i, by simp [h, expectedRaw], rfl, rfl, rfl, rfl, fun _ => hi, fun hne => absurd h hne,
      fun hne => absurd h hne⟩
  · refine ⟨{ i with cicp := some [p, 16, 0, 1] }, ?_, rfl, rfl, rfl, rfl, ?_, ?_, ?_⟩
    · rw [h]
      simp only [expectedRaw, List.flatMap_cons, List.flatMap_nil, List.map_cons, List.map_nil,
        List.append_nil, List.cons_append, List.nil_append, mkRaw]
      exact scan_set _ _ _ _ _ _ _ (step_cicp f pq hlg i [p, 16, 0, 1] rfl)
    · intro h'; rw [h'] at h; simp at h
    · intro _ _; exact ⟨p, rfl⟩
    · intro _ hne; exact absurd htf hne
  · refine ⟨{ i with cicp := some [p, 18, 0, 1] }, ?_, rfl, rfl, rfl, rfl, ?_, ?_, ?_⟩
    · rw [h]
      simp only [expectedRaw, List.flatMap_cons, List.flatMap_nil, List.map_cons, List.map_nil,
        List.append_nil, List.cons_append, List.nil_append, mkRaw]
      exact scan_set _ _ _ _ _ _ _ (step_cicp f pq hlg i [p, 18, 0, 1] rfl)
    · intro h'; rw [h'] at h; simp at h
    · intro _ hpq; rw [htf] at hpq; cases hpq
    · intro _ _; exact ⟨p, rfl⟩

theorem expectedRaw_append (a b : List Piece) : expectedRaw (a ++ b) = expectedRaw a ++ expectedRaw b := by
  simp [expectedRaw, List.flatMap_append]

theorem d50_I32 : I32 0xf6d6 ∧ I32 0x10000 ∧ I32 0xd32d := by
  refine ⟨⟨?_, ?_⟩, ⟨?_, ?_⟩, ⟨?_, ?_⟩⟩ <;> decide

theorem scan_rgb (f : FloatOps) (pq hlg : List Nat) (e : Enc) (q : Quant) (trc : List Nat) (t : Trc)
    (hcs : e.cs = .rgb) (wf : q.WF) (hd50 : f.validXyz d50Xyz = true)
    (hchad : f.validChad q.chad = true) (hr : f.validXyz q.rXYZ = true)
    (hg : f.validXyz q.gXYZ = true) (hb : f.validXyz q.bXYZ = true)
    (hd : 4 ≤ trc.length) (ht : trcOfData pq hlg trc = some (.ok t)) :
    ∃ i, scanTags f pq hlg {} ((expectedRaw (pieces e q trc)).map mkRaw) = .ok i ∧
      i.chad = some q.chad ∧ i.wtpt = d50Xyz ∧ i.trcs = [some t, some t, some t, none] ∧
      i.xyzs = [some q.rXYZ, some q.gXYZ, some q.bXYZ] ∧
      (cicpPieces e = [] → i.cicp = none) ∧
      (cicpPieces e ≠ [] → e.tf = .pq → ∃ p, i.cicp = some [p, 16, 0, 1]) ∧
      (cicpPieces e ≠ [] → e.tf ≠ .pq → ∃ p, i.cicp = some [p, 18, 0, 1]) := by
  obtain ⟨ra, rb, rc, hrq, hra, hrb, hrc⟩ := wf.rXYZ
  obtain ⟨ga, gb, gc, hgq, hga, hgb, hgc⟩ := wf.gXYZ
  obtain ⟨ba, bb, bc, hbq, hba, hbb, hbc⟩ := wf.bXYZ
  obtain ⟨d1, d2, d3⟩ := d50_I32
  have hps : pieces e q trc =
      [([ascii "desc"], mluc e.desc), ([ascii "cprt"], mluc "CC0, generated by jxl-oxide"),
       ([ascii "wtpt"], xyzTag d50Xyz), ([ascii "chad"], chadTag q)] ++
      (cicpPieces e ++
        [([ascii "rTRC", ascii "gTRC", ascii "bTRC"], trc), ([ascii "rXYZ"], xyzTag q.rXYZ),
         ([ascii "gXYZ"], xyzTag q.gXYZ), ([ascii "bXYZ"], xyzTag q.bXYZ)]) := by
    simp [pieces, hcs]
  rw [hps, expectedRaw_append, expectedRaw_append, List.map_append, List.map_append]
  simp only [expectedRaw, List.flatMap_cons, List.flatMap_nil, List.map_cons, List.map_nil,
    List.append_nil, List.cons_append, List.nil_append, mkRaw]
  rw [scan_skip _ _ _ _ _ _ (step_mluc f pq hlg _ _ _ (Or.inl rfl)),
    scan_skip _ _ _ _ _ _ (step_mluc f pq hlg _ _ _ (Or.inr rfl))]
  have hw : tagStep f pq hlg {} { sig := ascii "wtpt", data := xyzTag d50Xyz } =
      .set { ({} : Info) with wtpt := d50Xyz } := step_wtpt f pq hlg {} _ _ _ d1 d2 d3 hd50
  rw [scan_set _ _ _ _ _ _ _ hw,
    scan_set _ _ _ _ _ _ _ (step_chad f pq hlg _ q wf.chadLen wf.chadRange hchad)]
  obtain ⟨i', hscan, k1, k2, k3, k4, k5, k6, k7⟩ := scan_cicp f pq hlg e
    { ({} : Info) with wtpt := d50Xyz, chad := some q.chad } rfl
    [{ sig := ascii "rTRC", data := trc }, { sig := ascii "gTRC", data := trc },
     { sig := ascii "bTRC", data := trc }, { sig := ascii "rXYZ", data := xyzTag q.rXYZ },
     { sig := ascii "gXYZ", data := xyzTag q.gXYZ }, { sig := ascii "bXYZ", data := xyzTag q.bXYZ }]
  simp only [expectedRaw] at hscan
  rw [hscan]
  rw [lit_rTRC', lit_gTRC', lit_bTRC', lit_rXYZ', lit_gXYZ', lit_bXYZ']
  rw [scan_set _ _ _ _ _ _ _ (step_trc f pq hlg _ 114 0 (by decide) trc t hd ht),
    scan_set _ _ _ _ _ _ _ (step_trc f pq hlg _ 103 1 (by decide) trc t hd ht),
    scan_set _ _ _ _ _ _ _ (step_trc f pq hlg _ 98 2 (by decide) trc t hd ht)]
  rw [hrq] at hr
  rw [hgq] at hg
  rw [hbq] at hb
  rw [hrq, hgq, hbq]
  rw [scan_set _ _ _ _ _ _ _ (step_xyz f pq hlg _ 114 0 (by decide) ra rb rc hra hrb hrc hr),
    scan_set _ _ _ _ _ _ _ (step_xyz f pq hlg _ 103 1 (by decide) ga gb gc hga hgb hgc hg),
    scan_set _ _ _ _ _ _ _ (step_xyz f pq hlg _ 98 2 (by decide) ba bb bc hba hbb hbc hb)]
  refine ⟨_, rfl, ?_, ?_, ?_, ?_, ?_, ?_, ?_⟩
  · simp [k1]
  · simp [k2]
  · simp [k3]
  · simp [k4]
  · simpa using k5
  · simpa using k6
  · simpa using k7

theorem scan_grey (f : FloatOps) (pq hlg : List Nat) (e : Enc) (q : Quant) (trc : List Nat) (t : Trc)
    (hcs : e.cs = .grey) (wf : q.WF) (hw : f.validXyz q.wtpt = true)
    (hd : 4 ≤ trc.length) (ht : trcOfData pq hlg trc = some (.ok t)) :
    ∃ i, scanTags f pq hlg {} ((expectedRaw (pieces e q trc)).map mkRaw) = .ok i ∧
      i.chad = none ∧ i.wtpt = q.wtpt ∧ i.trcs = [none, none, none, some t] ∧
      i.xyzs = [none, none, none] ∧
      (cicpPieces e = [] → i.cicp = none) ∧
      (cicpPieces e ≠ [] → e.tf = .pq → ∃ p, i.cicp = some [p, 16, 0, 1]) ∧
      (cicpPieces e ≠ [] → e.tf ≠ .pq → ∃ p, i.cicp = some [p, 18, 0, 1]) := by
  obtain ⟨wa, wb, wc, hwq, hwa, hwb, hwc⟩ := wf.wtpt
  have hne : ¬ (ColourSpace.grey = ColourSpace.rgb) := by decide
  have hps : pieces e q trc =
      [([ascii "desc"], mluc e.desc), ([ascii "cprt"], mluc "CC0, generated by jxl-oxide"),
       ([ascii "wtpt"], xyzTag q.wtpt)] ++ (cicpPieces e ++ [([ascii "kTRC"], trc)]) := by
    simp [pieces, hcs]
  rw [hps, expectedRaw_append, expectedRaw_append, List.map_append, List.map_append]
  simp only [expectedRaw, List.flatMap_cons, List.flatMap_nil, List.map_cons, List.map_nil,
    List.append_nil, List.cons_append, List.nil_append, mkRaw]
  rw [scan_skip _ _ _ _ _ _ (step_mluc f pq hlg _ _ _ (Or.inl rfl)),
    scan_skip _ _ _ _ _ _ (step_mluc f pq hlg _ _ _ (Or.inr rfl))]
  rw [hwq] at hw
  rw [hwq]
  rw [scan_set _ _ _ _ _ _ _ (step_wtpt f pq hlg {} wa wb wc hwa hwb hwc hw)]
  obtain ⟨i', hscan, k1, k2, k3, k4, k5, k6, k7⟩ := scan_cicp f pq hlg e
    { ({} : Info) with wtpt := [wa, wb, wc] } rfl [{ sig := ascii "kTRC", data := trc }]
  simp only [expectedRaw] at hscan
  rw [hscan, lit_kTRC', scan_set _ _ _ _ _ _ _ (step_trc f pq hlg _ 107 3 (by decide) trc t hd ht)]
  refine ⟨_, rfl, ?_, ?_, ?_, ?_, ?_, ?_, ?_⟩
  · simp [k1]
  · simp [k2]
  · simp [k3]
  · simp [k4]
  · simpa using k5
  · simpa using k6
  · simpa using k7

theorem csSig_rgb : csSig .rgb = ascii "RGB " := rfl
theorem csSig_grey : csSig .grey = ascii "GRAY" := rfl

/-- **recognition of a synthesised profile**, structural part: whatever the float predicates
and float-derived answers are, the parser finds exactly the numbers that were written and
returns the same colour space and intent, and the transfer function of the recognised curve. -/
theorem parse_synth (f : FloatOps) (e : Enc) (q : Quant) (trc : List Nat) (t : Trc)
    (hcs : e.cs = .rgb ∨ e.cs = .grey) (wf : q.WF)
    (htrc : trcData q e.tf = .ok trc) (hd : 4 ≤ trc.length)
    (ht : trcOfData q.pqLut q.hlgLut trc = some (.ok t))
    (hd50 : f.validXyz d50Xyz = true) (hchad : f.validChad q.chad = true)
    (hw : f.validXyz q.wtpt = true) (hr : f.validXyz q.rXYZ = true)
    (hg : f.validXyz q.gXYZ = true) (hb : f.validXyz q.bXYZ = true)
    (hL : 132 + 12 * (layoutTags 0 (pieces e q trc)).length + (layoutData (pieces e q trc)).length
      < 4294967296) :
    ∃ bytes, synth e q = .ok bytes ∧
      parseIcc f q.pqLut q.hlgLut bytes = .ok
        { cs := e.cs,
          wp := if e.cs = .rgb then f.whitePoint q.chad d50Xyz else f.whitePoint identityChad q.wtpt,
          prim := if e.cs = .rgb then f.primaries q.chad q.rXYZ q.gXYZ q.bXYZ else .srgb,
          tf := (recognisedTrc e t).toTf,
          ri := e.ri } := by
  have hsig : ∀ t ∈ layoutTags 0 (pieces e q trc), t.sig.length = 4 :=
    layoutTags_sig _ 0 (sig_lengths e q trc)
  have hbnd : ∀ t ∈ layoutTags 0 (pieces e q trc), t.off + t.len ≤ (layoutData (pieces e q trc)).length := by
    intro t ht
    have := layoutTags_bounds (pieces e q trc) 0 rfl t ht
    omega
  have hsynth : synth e q = .ok (be32 (132 + 12 * (layoutTags 0 (pieces e q trc)).length
      + (layoutData (pieces e q trc)).length) ++ (header e.cs e.ri).drop 4
      ++ tagTable (layoutTags 0 (pieces e q trc)) ++ layoutData (pieces e q trc)) := by
    have hx : e.cs ≠ .xyb := by rcases hcs with h | h <;> simp [h]
    have hm : synthTags e q = .ok (layout (pieces e q trc)) := by
      unfold synthTags
      rw [if_neg hx, htrc]
      rcases hcs with h | h <;> rw [h]
    have hlen := synthBody_length e _ (layoutData (pieces e q trc)) hsig
    unfold synth
    rw [hm, layout_eq]
    simp only []
    rw [hlen]
    simp only [synthBody, List.append_assoc]
  refine ⟨_, hsynth, ?_⟩
  have hraw := parseRaw_synth e _ _ hsig hbnd hL
  have hslices := slices (pieces e q trc) []
  simp only [List.length_nil, List.nil_append] at hslices
  have htags : (layoutTags 0 (pieces e q trc)).map
      (fun t => ({ sig := t.sig, data := ((layoutData (pieces e q trc)).drop t.off).take t.len } : RawTag))
      = (expectedRaw (pieces e q trc)).map mkRaw := by
    rw [← hslices, List.map_map]
    rfl
  rw [htags] at hraw
  unfold parseIcc detectInfo
  rw [hraw]
  simp only [bind, Except.bind, pure, Except.pure]
  rcases hcs with hcs | hcs
  · obtain ⟨i, hscan, k1, k2, k3, k4, k5, k6, k7⟩ :=
      scan_rgb f q.pqLut q.hlgLut e q trc t hcs wf hd50 hchad hr hg hb hd ht
    rw [hscan]
    simp only [hcs, csSig_rgb, k1, k2, k3, k4, if_true, Option.getD_some]
    by_cases hc : cicpPieces e = []
    · simp [k5 hc, recognisedTrc, hc, lit_CMYK, lit_GRAY, lit_RGB_]
    · by_cases hpq : e.tf = .pq
      · obtain ⟨p, hp⟩ := k6 hc hpq
        simp [hp, recognisedTrc, hc, hpq, lit_RGB_, lit_CMYK, lit_GRAY]
      · obtain ⟨p, hp⟩ := k7 hc hpq
        simp [hp, recognisedTrc, hc, hpq, lit_RGB_, lit_CMYK, lit_GRAY]
  · obtain ⟨i, hscan, k1, k2, k3, k4, k5, k6, k7⟩ :=
      scan_grey f q.pqLut q.hlgLut e q trc t hcs wf hw hd ht
    rw [hscan]
    have hne : ¬ (ColourSpace.grey = ColourSpace.rgb) := by decide
    simp only [hcs, csSig_grey, k1, k2, k3, k4, hne, if_false, Option.getD_none]
    by_cases hc : cicpPieces e = []
    · simp [k5 hc, recognisedTrc, hc, lit_CMYK, lit_GRAY, lit_RGB_]
    · by_cases hpq : e.tf = .pq
      · obtain ⟨p, hp⟩ := k6 hc hpq
        simp [hp, recognisedTrc, hc, hpq, lit_RGB_, lit_CMYK, lit_GRAY]
      · obtain ⟨p, hp⟩ := k7 hc hpq
        simp [hp, recognisedTrc, hc, hpq, lit_RGB_, lit_CMYK, lit_GRAY]


/-! ## 2c. the TRC decision logic and the named enums in exact arithmetic -/


/-! ### the TRC decision logic round trip -/

theorem trc_bt709 (pq hlg : List Nat) :
    trcOfData pq hlg (para 3 bt709Params) = some (.ok .bt709) := by rfl

theorem trc_srgb (pq hlg : List Nat) :
    trcOfData pq hlg (para 3 srgbParams) = some (.ok .srgb) := by rfl

theorem trc_linear (pq hlg : List Nat) :
    trcOfData pq hlg (ascii "curv" ++ [0, 0, 0, 0, 0, 0, 0, 0]) = some (.ok .linear) := by rfl

theorem trc_dci (pq hlg : List Nat) :
    trcOfData pq hlg (para 0 [dciGamma]) = some (.ok .dci) := by rfl

theorem flatMap_be16_length (l : List Nat) : (l.flatMap be16).length = 2 * l.length := by
  induction l with
  | nil => rfl
  | cons v l ih => simp [List.flatMap_cons, be16, ih]; omega

theorem trc_lut (pq hlg lut : List Nat) (hlen : lut.length = 4096) :
    trcOfData pq hlg (curvLut lut) =
      if lut.flatMap be16 = pq.flatMap be16 then some (.ok .pq)
      else if lut.flatMap be16 = hlg.flatMap be16 then some (.ok .hlg) else none := by
  have hl := flatMap_be16_length lut
  have hd : curvLut lut = (ascii "curv" ++ [0, 0, 0, 0, 0, 0, 0x10, 0]) ++ lut.flatMap be16 := by
    simp [curvLut, hlen, be32, lit_curv]
  have hlen' : (curvLut lut).length = 12 + 8192 := by
    rw [hd]; simp [lit_curv, hl, hlen]
  have htake4 : (curvLut lut).take 4 = ascii "curv" := by
    rw [hd]; simp [lit_curv]
  have htake12 : (curvLut lut).take 12 = ascii "curv" ++ [0, 0, 0, 0, 0, 0, 0x10, 0] := by
    rw [hd]; exact take_append_len _ _ 12 (by simp [lit_curv])
  have hdrop : (curvLut lut).drop 12 = lut.flatMap be16 := by
    rw [hd]; exact drop_append_len _ _ 12 (by simp [lit_curv])
  unfold trcOfData
  rw [htake4, if_neg (by decide)]
  rw [if_neg (by intro h; have := congrArg List.length h; rw [hlen'] at this; simp [lit_curv] at this)]
  rw [if_neg (by rw [hlen']; omega)]
  rw [if_pos ⟨hlen', htake12⟩, hdrop]

theorem trc_gamma (pq hlg : List Nat) (G : Nat) (hG : G < 2147483648) :
    trcOfData pq hlg (para 0 [G]) = (Trc.fromGamma (G : Int)).map .ok := by
  have hd : para 0 [G] = (ascii "para" ++ [0, 0, 0, 0, 0, 0, 0, 0]) ++ be32 G ++ [] := by
    simp [para, be16, lit_para]
  have hi : i32At (para 0 [G]) 12 = (G : Int) := by
    rw [hd]
    unfold i32At
    rw [List.append_assoc, drop_append_len _ _ 12 (by simp [lit_para]), List.append_nil,
      List.take_of_length_le (by simp [be32_length]), ofBe_be32 _ (by omega)]
    unfold ofU32; rw [if_pos (by omega)]
  have hlen : (para 0 [G]).length = 16 := by rw [hd]; simp [lit_para, be32_length]
  have htake : (para 0 [G]).take 4 = ascii "para" := by rw [hd]; simp [lit_para]
  have hty : u16At (para 0 [G]) 8 = 0 := by
    rw [hd]; simp [u16At, lit_para, ofBe]
  unfold trcOfData
  rw [htake, if_pos rfl, hlen, if_neg (by omega)]
  simp only [hty, if_true, hi]
  rfl

/-! ### recognition of named white points / primaries in exact arithmetic

`IccProfileInfo::{white_point, primaries}` divide by the determinant of `chad` and by 65536
throughout; both cancel in the chromaticities, so the comparisons `|x - known| < 1e-4` can be
stated on integers (adjugate instead of inverse). The named constants are the decimal values of
`consts.rs`; the `f32` constants of the code differ from them by less than 3e-8. -/

def gi (m : List Int) (i : Nat) : Int := m.getD i 0

def adj (m : List Int) : List Int :=
  [gi m 4 * gi m 8 - gi m 5 * gi m 7, gi m 7 * gi m 2 - gi m 8 * gi m 1, gi m 1 * gi m 5 - gi m 2 * gi m 4,
   gi m 5 * gi m 6 - gi m 3 * gi m 8, gi m 8 * gi m 0 - gi m 6 * gi m 2, gi m 2 * gi m 3 - gi m 0 * gi m 5,
   gi m 3 * gi m 7 - gi m 4 * gi m 6, gi m 6 * gi m 1 - gi m 7 * gi m 0, gi m 0 * gi m 4 - gi m 1 * gi m 3]

def det (m : List Int) : Int :=
  gi m 0 * (gi m 4 * gi m 8 - gi m 5 * gi m 7) + gi m 1 * (gi m 5 * gi m 6 - gi m 3 * gi m 8)
    + gi m 2 * (gi m 3 * gi m 7 - gi m 4 * gi m 6)

def mulVec (a v : List Int) : List Int :=
  [gi a 0 * gi v 0 + gi a 1 * gi v 1 + gi a 2 * gi v 2, gi a 3 * gi v 0 + gi a 4 * gi v 1 + gi a 5 * gi v 2,
   gi a 6 * gi v 0 + gi a 7 * gi v 1 + gi a 8 * gi v 2]

/-- `|num/den - p/q| < 1e-4` -/
def nearQ (num den p q : Int) : Bool := decide ((num * q - p * den).natAbs * 10000 < (den * q).natAbs)

/-- `(v * 1e6 + 0.5) as i32` for `v = num/den` -/
def microQ (num den : Int) : Int := (2 * 1000000 * num * den + den * den).tdiv (2 * den * den)

/-- chromaticity `(x, y)` of an XYZ triple as fractions over the common denominator `X+Y+Z` -/
def xyNear (v : List Int) (px qx py qy : Int) : Bool :=
  let s := gi v 0 + gi v 1 + gi v 2
  nearQ (gi v 0) s px qx && nearQ (gi v 1) s py qy

def ratWhitePoint (chad wtpt : List Int) : WhitePoint :=
  let ill := mulVec (adj chad) wtpt
  let s := gi ill 0 + gi ill 1 + gi ill 2
  if xyNear ill 3127 10000 329 1000 then .d65
  else if xyNear ill 314 1000 351 1000 then .dci
  else if xyNear ill 1 3 1 3 then .e
  else .custom ⟨microQ (gi ill 0) s, microQ (gi ill 1) s⟩

def ratPrimaries (chad xr xg xb : List Int) : Primaries :=
  let a := adj chad
  let col (c : List Int) : List Int := mulVec a c
  let cols := [col xr, col xg, col xb]
  let close (k : List (Int × Int × Int × Int)) : Bool :=
    (List.range 3).all fun i =>
      let (px, qx, py, qy) := k.getD i (0, 1, 0, 1)
      xyNear (cols.getD i []) px qx py qy
  if close [(639998686, 1000000000, 330010138, 1000000000), (300003784, 1000000000, 600003357, 1000000000),
            (150002046, 1000000000, 59997204, 1000000000)] then .srgb
  else if close [(680, 1000, 320, 1000), (265, 1000, 690, 1000), (150, 1000, 60, 1000)] then .p3
  else if close [(708, 1000, 292, 1000), (170, 1000, 797, 1000), (131, 1000, 46, 1000)] then .bt2100
  else
    let c (i : Nat) : Customxy :=
      let v := cols.getD i []
      let s := gi v 0 + gi v 1 + gi v 2
      ⟨microQ (gi v 0) s, microQ (gi v 1) s⟩
    .custom (c 0) (c 1) (c 2)

/-- the parser's float part in exact arithmetic; the `validate_*` checks become "no division by
zero" -/
def ratOps : FloatOps where
  validXyz v := decide (gi v 0 + gi v 1 + gi v 2 ≠ 0)
  validChad m := decide (det m ≠ 0)
  whitePoint := ratWhitePoint
  primaries := ratPrimaries

/-- the quantised numbers `colour_encoding_to_icc` writes for the named white points and
primaries (read off the synthesised profiles; the correspondence run compares the model's
`quantOf` with the real bytes on every named combination) -/
def namedChad : WhitePoint → List Int
  | .d65 => [68672, 1501, -3286, 1938, 64912, -1117, -605, 987, 49281]
  | .e => [65389, -272, -1924, -639, 66736, -559, -485, 881, 53686]
  | .dci => [70372, 2542, -2414, 3641, 63175, -938, -280, 346, 56565]
  | .custom _ => identityChad

def namedWtpt : WhitePoint → List Int
  | .d65 => [62289, 65536, 71372]
  | .e => [65536, 65536, 65536]
  | .dci => [58628, 65536, 62549]
  | .custom _ => d50Xyz

def namedColorants : WhitePoint → Primaries → List (List Int)
  | .d65, .srgb => [[28575, 14581, 912], [25238, 46983, 6363], [9378, 3973, 46806]]
  | .d65, .bt2100 => [[44136, 18287, -126], [10857, 44259, 1965], [8199, 2990, 52243]]
  | .d65, .p3 => [[33758, 15806, -68], [19134, 45366, 2745], [10299, 4364, 51405]]
  | .e, .srgb => [[32378, 16769, 1234], [21770, 44979, 6500], [9043, 3789, 46346]]
  | .e, .bt2100 => [[46053, 18967, -86], [8900, 43585, 1964], [8239, 2985, 52204]]
  | .e, .p3 => [[36815, 17356, -39], [16358, 43983, 2777], [10018, 4197, 51345]]
  | .dci, .srgb => [[26151, 13217, 931], [27990, 48623, 7223], [9050, 3696, 45927]]
  | .dci, .bt2100 => [[42681, 17746, -81], [12248, 44855, 1844], [8262, 2935, 52319]]
  | .dci, .p3 => [[31860, 14856, -51], [21223, 46552, 2834], [10108, 4129, 51300]]
  | _, _ => [[0, 0, 0], [0, 0, 0], [0, 0, 0]]

def isNamedWp : WhitePoint → Bool | .custom _ => false | _ => true
def isNamedPrim : Primaries → Bool | .custom .. => false | _ => true

theorem named_wp_rgb (wp : WhitePoint) (h : isNamedWp wp = true) :
    ratWhitePoint (namedChad wp) d50Xyz = wp ∧ ratOps.validChad (namedChad wp) = true := by
  cases wp with
  | custom xy => cases h
  | d65 => decide
  | e => decide
  | dci => decide

theorem named_wp_grey (wp : WhitePoint) (h : isNamedWp wp = true) :
    ratWhitePoint identityChad (namedWtpt wp) = wp ∧ ratOps.validXyz (namedWtpt wp) = true := by
  cases wp with
  | custom xy => cases h
  | d65 => decide
  | e => decide
  | dci => decide

theorem named_prim (wp : WhitePoint) (p : Primaries) (h : isNamedWp wp = true) (hp : isNamedPrim p = true) :
    ratPrimaries (namedChad wp) ((namedColorants wp p).getD 0 []) ((namedColorants wp p).getD 1 [])
      ((namedColorants wp p).getD 2 []) = p ∧
    (∀ c ∈ namedColorants wp p, ratOps.validXyz c = true) := by
  cases wp with
  | custom xy => cases h
  | d65 => cases p with
    | custom r g b => cases hp
    | srgb => decide
    | bt2100 => decide
    | p3 => decide
  | e => cases p with
    | custom r g b => cases hp
    | srgb => decide
    | bt2100 => decide
    | p3 => decide
  | dci => cases p with
    | custom r g b => cases hp
    | srgb => decide
    | bt2100 => decide
    | p3 => decide

def namedQuant (e : Enc) (pqLut hlgLut : List Nat) : Quant :=
  { chad := namedChad e.wp, wtpt := namedWtpt e.wp,
    rXYZ := (namedColorants e.wp e.prim).getD 0 [], gXYZ := (namedColorants e.wp e.prim).getD 1 [],
    bXYZ := (namedColorants e.wp e.prim).getD 2 [], pqLut, hlgLut }

def isNamedTf : TransferFunction → Bool
  | .bt709 | .linear | .srgb | .dci | .pq | .hlg => true
  | _ => false

theorem I32_of_small (v : Int) (h : v.natAbs < 2147483648) : I32 v := by
  unfold I32; omega

theorem namedQuant_wf (e : Enc) (pqLut hlgLut : List Nat) : (namedQuant e pqLut hlgLut).WF := by
  obtain ⟨cs, wp, prim, tf, ri⟩ := e
  have key : ∀ (a b c : Int), a.natAbs < 2147483648 → b.natAbs < 2147483648 → c.natAbs < 2147483648 →
      ∃ x y z, [a, b, c] = [x, y, z] ∧ I32 x ∧ I32 y ∧ I32 z :=
    fun a b c ha hb hc => ⟨a, b, c, rfl, I32_of_small a ha, I32_of_small b hb, I32_of_small c hc⟩
  constructor
  · cases wp <;> rfl
  · intro v hv
    apply I32_of_small
    cases wp <;> simp [namedQuant, namedChad, identityChad] at hv <;>
      rcases hv with rfl | rfl | rfl | rfl | rfl | rfl | rfl | rfl | rfl <;> decide
  · cases wp <;> exact key _ _ _ (by decide) (by decide) (by decide)
  · cases wp <;> cases prim <;> exact key _ _ _ (by decide) (by decide) (by decide)
  · cases wp <;> cases prim <;> exact key _ _ _ (by decide) (by decide) (by decide)
  · cases wp <;> cases prim <;> exact key _ _ _ (by decide) (by decide) (by decide)

theorem cicpPieces_nil (e : Enc) (h1 : e.tf ≠ .pq) (h2 : e.tf ≠ .hlg) : cicpPieces e = [] := by
  obtain ⟨cs, wp, prim, tf, ri⟩ := e
  cases tf <;> simp_all [cicpPieces]

/-- the named-enum instance of `trcData`/`trcOfData`: the curve written for a named transfer
function is recognised as that transfer function -/
theorem trc_named (e : Enc) (q : Quant) (htf : isNamedTf e.tf = true)
    (hpq : q.pqLut.length = 4096) (hhlg : q.hlgLut.length = 4096)
    (hne : q.hlgLut.flatMap be16 ≠ q.pqLut.flatMap be16) :
    ∃ trc t, trcData q e.tf = .ok trc ∧ 4 ≤ trc.length ∧
      trcOfData q.pqLut q.hlgLut trc = some (.ok t) ∧ (recognisedTrc e t).toTf = e.tf := by
  have hrec : ∀ t, e.tf ≠ .pq → e.tf ≠ .hlg → recognisedTrc e t = t := by
    intro t h1 h2; unfold recognisedTrc; rw [if_pos (cicpPieces_nil e h1 h2)]
  cases h : e.tf with
  | gamma g inv => rw [h] at htf; cases htf
  | unknown => rw [h] at htf; cases htf
  | bt709 =>
    refine ⟨_, .bt709, rfl, by decide, trc_bt709 _ _, ?_⟩
    rw [hrec _ (by simp [h]) (by simp [h])]; rfl
  | linear =>
    refine ⟨_, .linear, rfl, by decide, trc_linear _ _, ?_⟩
    rw [hrec _ (by simp [h]) (by simp [h])]; rfl
  | srgb =>
    refine ⟨_, .srgb, rfl, by decide, trc_srgb _ _, ?_⟩
    rw [hrec _ (by simp [h]) (by simp [h])]; rfl
  | dci =>
    refine ⟨_, .dci, rfl, by decide, trc_dci _ _, ?_⟩
    rw [hrec _ (by simp [h]) (by simp [h])]; rfl
  | pq =>
    refine ⟨curvLut q.pqLut, .pq, rfl, ?_, ?_, ?_⟩
    · simp [curvLut, lit_curv, be32]
    · rw [trc_lut _ _ _ hpq, if_pos rfl]
    · unfold recognisedTrc; split <;> simp [Trc.toTf]
  | hlg =>
    refine ⟨curvLut q.hlgLut, .hlg, rfl, ?_, ?_, ?_⟩
    · simp [curvLut, lit_curv, be32]
    · rw [trc_lut _ _ _ hhlg, if_neg hne, if_pos rfl]
    · unfold recognisedTrc; split <;> simp [h, Trc.toTf]

theorem parse_synth_named (e : Enc) (pqLut hlgLut : List Nat)
    (hcs : e.cs = .rgb ∨ e.cs = .grey) (hwp : isNamedWp e.wp = true)
    (hprim : isNamedPrim e.prim = true) (htf : isNamedTf e.tf = true)
    (hpq : pqLut.length = 4096) (hhlg : hlgLut.length = 4096)
    (hne : hlgLut.flatMap be16 ≠ pqLut.flatMap be16)
    (hL : ∀ trc, 132 + 12 * (layoutTags 0 (pieces e (namedQuant e pqLut hlgLut) trc)).length
      + (layoutData (pieces e (namedQuant e pqLut hlgLut) trc)).length < 4294967296) :
    ∃ bytes, synth e (namedQuant e pqLut hlgLut) = .ok bytes ∧
      parseIcc ratOps pqLut hlgLut bytes =
        .ok (if e.cs = .rgb then e else { e with prim := .srgb }) := by
  obtain ⟨trc, t, h1, h2, h3, h4⟩ := trc_named e (namedQuant e pqLut hlgLut) htf hpq hhlg hne
  obtain ⟨w1, w2⟩ := named_wp_rgb e.wp hwp
  obtain ⟨g1, g2⟩ := named_wp_grey e.wp hwp
  obtain ⟨p1, p2⟩ := named_prim e.wp e.prim hwp hprim
  have hmem : ∀ i, i < 3 → (namedColorants e.wp e.prim).getD i [] ∈ namedColorants e.wp e.prim := by
    intro i hi
    obtain ⟨cs, wp, prim, tf, ri⟩ := e
    rcases i with _ | _ | _ | i
    · cases wp <;> cases prim <;> simp [namedColorants]
    · cases wp <;> cases prim <;> simp [namedColorants]
    · cases wp <;> cases prim <;> simp [namedColorants]
    · omega
  obtain ⟨bytes, hs, hp⟩ := parse_synth ratOps e (namedQuant e pqLut hlgLut) trc t hcs
    (namedQuant_wf e pqLut hlgLut) h1 h2 h3 (by decide) w2 g2
    (p2 _ (hmem 0 (by omega))) (p2 _ (hmem 1 (by omega))) (p2 _ (hmem 2 (by omega))) (hL trc)
  refine ⟨bytes, hs, ?_⟩
  have hp' : parseIcc ratOps pqLut hlgLut bytes = _ := hp
  rw [hp', h4]
  rcases hcs with hcs | hcs
  · simp only [hcs, if_true]
    have e1 : ratOps.whitePoint (namedQuant e pqLut hlgLut).chad d50Xyz = e.wp := w1
    have e2 : ratOps.primaries (namedQuant e pqLut hlgLut).chad (namedQuant e pqLut hlgLut).rXYZ
        (namedQuant e pqLut hlgLut).gXYZ (namedQuant e pqLut hlgLut).bXYZ = e.prim := p1
    rw [e1, e2, ← hcs]
  · have hne' : ¬ (ColourSpace.grey = ColourSpace.rgb) := by decide
    simp only [hcs, hne', if_false]
    have e1 : ratOps.whitePoint identityChad (namedQuant e pqLut hlgLut).wtpt = e.wp := g1
    rw [e1, ← hcs]


/-! ## 3. transfer curves over the reals -/
section Real
open Jxl.Color.Tf


noncomputable instance : TfScalar ℝ where
  decLe := fun a b => Classical.propDecidable (a ≤ b)
  lit m e := (m : ℝ) / 10 ^ e
  pow := Real.rpow
  exp := Real.exp
  log := Real.log
  sqrt := Real.sqrt

theorem lit_real (m e : Nat) : (TfScalar.lit m e : ℝ) = (m : ℝ) / 10 ^ e := rfl
theorem pow_real (a b : ℝ) : TfScalar.pow a b = a ^ b := rfl

theorem rpow_inv_cancel {x a : ℝ} (hx : 0 ≤ x) (ha : a ≠ 0) : (x ^ a) ^ (1 / a) = x := by
  rw [← Real.rpow_mul hx, mul_one_div_cancel ha, Real.rpow_one]

/-- `a ^ (p/q) < c` from the rational inequality `a ^ p < c ^ q` -/
theorem rpow_lt_of_pow_lt {a c : ℝ} (ha : 0 ≤ a) (hc : 0 ≤ c) (p q : ℕ) (hq : 0 < q)
    (h : a ^ p < c ^ q) : a ^ ((p : ℝ) / q) < c := by
  have hq' : (0 : ℝ) < q := by exact_mod_cast hq
  have h1 : a ^ ((p : ℝ) / q) = (a ^ p) ^ ((1 : ℝ) / q) := by
    rw [← Real.rpow_natCast, ← Real.rpow_mul ha]; congr 1; ring
  have h2 : c = (c ^ q) ^ ((1 : ℝ) / q) := by
    rw [← Real.rpow_natCast, ← Real.rpow_mul hc, mul_one_div_cancel (ne_of_gt hq'), Real.rpow_one]
  rw [h1, h2]
  exact Real.rpow_lt_rpow (pow_nonneg ha p) h (by positivity)

theorem lt_rpow_of_pow_lt {a c : ℝ} (ha : 0 ≤ a) (hc : 0 ≤ c) (p q : ℕ) (hq : 0 < q)
    (h : c ^ q < a ^ p) : c < a ^ ((p : ℝ) / q) := by
  have hq' : (0 : ℝ) < q := by exact_mod_cast hq
  have h1 : a ^ ((p : ℝ) / q) = (a ^ p) ^ ((1 : ℝ) / q) := by
    rw [← Real.rpow_natCast, ← Real.rpow_mul ha]; congr 1; ring
  have h2 : c = (c ^ q) ^ ((1 : ℝ) / q) := by
    rw [← Real.rpow_natCast, ← Real.rpow_mul hc, mul_one_div_cancel (ne_of_gt hq'), Real.rpow_one]
  rw [h1, h2]
  exact Real.rpow_lt_rpow (pow_nonneg hc q) h (by positivity)

/-! ### gamma / DCI -/

theorem gammaApply_real (γ x : ℝ) :
    gammaApply γ x = if x ≤ 1e-7 then 0 else x ^ γ := by
  unfold gammaApply zero
  simp only [lit_real, pow_real]
  norm_num

theorem gammaApply_monotone (γ : ℝ) (hγ : 0 ≤ γ) : Monotone (gammaApply γ) := by
  intro x y hxy
  simp only [gammaApply_real]
  by_cases hx : x ≤ 1e-7 <;> by_cases hy : y ≤ 1e-7 <;> simp only [hx, hy, if_true, if_false]
  · exact le_refl _
  · exact Real.rpow_nonneg (by linarith) _
  · linarith
  · exact Real.rpow_le_rpow (by linarith) hxy hγ

theorem gamma_pow_gt (γ x : ℝ) (hγ : 0 ≤ γ) (hγ1 : γ ≤ 1) (hx : 1e-7 < x) : 1e-7 < x ^ γ := by
  by_cases h1 : x ≤ 1
  · have : x ^ (1:ℝ) ≤ x ^ γ := Real.rpow_le_rpow_of_exponent_ge (by linarith) h1 hγ1
    rw [Real.rpow_one] at this; linarith
  · have : 1 ≤ x ^ γ := Real.one_le_rpow (by linarith) hγ
    linarith

theorem gamma_inverse (γ x : ℝ) (hγ : 0 < γ) (hγ1 : γ ≤ 1) (hx : 1e-7 < x) :
    gammaDecode γ (gammaEncode γ x) = x := by
  unfold gammaDecode gammaEncode
  have h := gamma_pow_gt γ x hγ.le hγ1 hx
  rw [gammaApply_real γ x, if_neg (not_le.mpr hx), gammaApply_real, if_neg (not_le.mpr h)]
  have : (one / γ : ℝ) = 1 / γ := by unfold one; simp [lit_real]
  rw [this]
  exact rpow_inv_cancel (by linarith) (ne_of_gt hγ)

/-! ### BT.709 -/

theorem bt709Encode_real (x : ℝ) :
    bt709Encode x = if x ≤ 0.018 then 4.5 * x else 1.099 * x ^ (0.45 : ℝ) - 0.099 := by
  unfold bt709Encode
  simp only [lit_real, pow_real]
  norm_num

theorem bt709Decode_real (x : ℝ) :
    bt709Decode x = if x ≤ 0.081 then x / 4.5 else ((x + 0.099) / 1.099) ^ ((1 : ℝ) / 0.45) := by
  unfold bt709Decode one
  simp only [lit_real, pow_real]
  norm_num

/-- the power piece starts above the end of the linear piece: `0.018^0.45 > 0.18/1.099` -/
theorem bt709_break : (0.18 / 1.099 : ℝ) < (0.018 : ℝ) ^ (0.45 : ℝ) := by
  have h := lt_rpow_of_pow_lt (a := 0.018) (c := 0.18 / 1.099) (by norm_num) (by norm_num) 9 20
    (by norm_num) (by norm_num)
  have e : ((9 : ℕ) : ℝ) / ((20 : ℕ) : ℝ) = 0.45 := by norm_num
  rwa [e] at h

theorem bt709_power_gt (x : ℝ) (hx : 0.018 < x) : 0.081 < 1.099 * x ^ (0.45 : ℝ) - 0.099 := by
  have h1 : (0.018 : ℝ) ^ (0.45 : ℝ) < x ^ (0.45 : ℝ) :=
    Real.rpow_lt_rpow (by norm_num) hx (by norm_num)
  have h2 := bt709_break
  have : (0.18 / 1.099 : ℝ) < x ^ (0.45 : ℝ) := lt_trans h2 h1
  have h3 : (0.18 : ℝ) < 1.099 * x ^ (0.45 : ℝ) := by
    have := mul_lt_mul_of_pos_left this (by norm_num : (0 : ℝ) < 1.099)
    have e : (1.099 : ℝ) * (0.18 / 1.099) = 0.18 := by norm_num
    linarith
  linarith

theorem bt709_inverse (x : ℝ) : bt709Decode (bt709Encode x) = x := by
  rw [bt709Encode_real]
  by_cases hx : x ≤ 0.018
  · rw [if_pos hx, bt709Decode_real, if_pos (by linarith)]
    field_simp
  · have hx' : 0.018 < x := not_le.mp hx
    have hgt := bt709_power_gt x hx'
    rw [if_neg hx, bt709Decode_real, if_neg (not_le.mpr hgt)]
    have e : (1.099 * x ^ (0.45 : ℝ) - 0.099 + 0.099) / 1.099 = x ^ (0.45 : ℝ) := by
      rw [sub_add_cancel]; exact mul_div_cancel_left₀ _ (by norm_num)
    rw [e]
    exact rpow_inv_cancel (by linarith) (by norm_num)

theorem bt709Encode_monotone : Monotone (bt709Encode : ℝ → ℝ) := by
  intro x y hxy
  simp only [bt709Encode_real]
  by_cases hx : x ≤ 0.018 <;> by_cases hy : y ≤ 0.018 <;> simp only [hx, hy, if_true, if_false]
  · linarith
  · have := bt709_power_gt y (not_le.mp hy); linarith
  · linarith
  · have : x ^ (0.45 : ℝ) ≤ y ^ (0.45 : ℝ) :=
      Real.rpow_le_rpow (by linarith) hxy (by norm_num)
    linarith

/-- `bt709_to_linear` is not monotone: `0.081 ↦ 0.018` but `0.0811 ↦` less than `0.018`. -/
theorem bt709Decode_not_monotone : ¬ Monotone (bt709Decode : ℝ → ℝ) := by
  intro h
  have h1 : bt709Decode (0.081 : ℝ) ≤ bt709Decode (0.0811 : ℝ) := h (by norm_num)
  rw [bt709Decode_real, bt709Decode_real, if_pos (le_refl _), if_neg (by norm_num)] at h1
  have h2 : ((0.0811 + 0.099) / 1.099 : ℝ) ^ ((1 : ℝ) / 0.45) < 0.018 := by
    have h := rpow_lt_of_pow_lt (a := (0.0811 + 0.099) / 1.099) (c := 0.018) (by norm_num)
      (by norm_num) 20 9 (by norm_num) (by norm_num)
    have e : ((20 : ℕ) : ℝ) / ((9 : ℕ) : ℝ) = 1 / 0.45 := by norm_num
    rwa [e] at h
  have h3 : (0.081 : ℝ) / 4.5 = 0.018 := by norm_num
  linarith

theorem bt709Decode_monotoneOn_linear : MonotoneOn (bt709Decode : ℝ → ℝ) (Set.Iic 0.081) := by
  intro x hx y hy hxy
  simp only [Set.mem_Iic] at hx hy
  rw [bt709Decode_real, bt709Decode_real, if_pos hx, if_pos hy]
  exact div_le_div_of_nonneg_right hxy (by norm_num)

theorem bt709Decode_monotoneOn_power : MonotoneOn (bt709Decode : ℝ → ℝ) (Set.Ioi 0.081) := by
  intro x hx y hy hxy
  simp only [Set.mem_Ioi] at hx hy
  rw [bt709Decode_real, bt709Decode_real, if_neg (not_le.mpr hx), if_neg (not_le.mpr hy)]
  apply Real.rpow_le_rpow
  · apply div_nonneg <;> linarith
  · apply div_le_div_of_nonneg_right <;> linarith
  · norm_num

/-! ### sRGB (on `x ≥ 0`; the kernels extend oddly) -/

theorem srgbEncodePos_real (x : ℝ) :
    srgbEncodePos x = if x ≤ 0.0031308 then 12.92 * x else 1.055 * x ^ ((1 : ℝ) / 2.4) - 0.055 := by
  unfold srgbEncodePos one
  simp only [lit_real, pow_real]
  norm_num

theorem srgbDecodePos_real (x : ℝ) :
    srgbDecodePos x = if x ≤ 0.04045 then x / 12.92 else ((x + 0.055) / 1.055) ^ (2.4 : ℝ) := by
  unfold srgbDecodePos
  simp only [lit_real, pow_real]
  norm_num

theorem srgb_inverse_linear (x : ℝ) (hx : x ≤ 0.0031308) :
    srgbDecodePos (srgbEncodePos x) = x := by
  rw [srgbEncodePos_real, if_pos hx, srgbDecodePos_real, if_pos (by linarith)]
  field_simp

/-- exact breakpoint of the decoder seen from the linear side:
`((0.04045+0.055)/1.055)^2.4 < 0.00313081` -/
theorem srgb_gap_hi : ((0.04045 + 0.055) / 1.055 : ℝ) ^ (2.4 : ℝ) < 0.00313081 := by
  have h := rpow_lt_of_pow_lt (a := (0.04045 + 0.055) / 1.055) (c := 0.00313081) (by norm_num)
    (by norm_num) 12 5 (by norm_num) (by norm_num)
  have e : ((12 : ℕ) : ℝ) / ((5 : ℕ) : ℝ) = 2.4 := by norm_num
  rwa [e] at h

theorem srgb_power_gt (x : ℝ) (hx : 0.00313081 ≤ x) :
    0.04045 < 1.055 * x ^ ((1 : ℝ) / 2.4) - 0.055 := by
  -- ((0.09045/1.055)^2.4)^(1/2.4) = 0.09045/1.055 < x^(1/2.4)
  have hb := srgb_gap_hi
  have h1 : ((0.04045 + 0.055) / 1.055 : ℝ) ^ (2.4 : ℝ) < x := lt_of_lt_of_le hb hx
  have h2 : (((0.04045 + 0.055) / 1.055 : ℝ) ^ (2.4 : ℝ)) ^ ((1 : ℝ) / 2.4) < x ^ ((1 : ℝ) / 2.4) :=
    Real.rpow_lt_rpow (Real.rpow_nonneg (by norm_num) _) h1 (by norm_num)
  rw [rpow_inv_cancel (by norm_num) (by norm_num)] at h2
  have h3 : (0.04045 + 0.055 : ℝ) < 1.055 * x ^ ((1 : ℝ) / 2.4) := by
    have := mul_lt_mul_of_pos_left h2 (by norm_num : (0 : ℝ) < 1.055)
    have e : (1.055 : ℝ) * ((0.04045 + 0.055) / 1.055) = 0.04045 + 0.055 := by norm_num
    linarith
  linarith

theorem srgb_inverse_power (x : ℝ) (hx : 0.00313081 ≤ x) :
    srgbDecodePos (srgbEncodePos x) = x := by
  have hgt := srgb_power_gt x hx
  rw [srgbEncodePos_real, if_neg (by linarith), srgbDecodePos_real, if_neg (not_le.mpr hgt)]
  have e : (1.055 * x ^ ((1 : ℝ) / 2.4) - 0.055 + 0.055) / 1.055 = x ^ ((1 : ℝ) / 2.4) := by
    rw [sub_add_cancel]; exact mul_div_cancel_left₀ _ (by norm_num)
  rw [e, ← Real.rpow_mul (by linarith)]
  have : (1 : ℝ) / 2.4 * 2.4 = 1 := by norm_num
  rw [this, Real.rpow_one]

/-- the decoder's power piece starts above the end of its linear piece -/
theorem srgb_decode_power_gt (e : ℝ) (he : 0.04045 < e) :
    0.04045 / 12.92 < ((e + 0.055) / 1.055) ^ (2.4 : ℝ) := by
  have h0 : (0.04045 / 12.92 : ℝ) < ((0.04045 + 0.055) / 1.055 : ℝ) ^ (2.4 : ℝ) := by
    have h := lt_rpow_of_pow_lt (a := (0.04045 + 0.055) / 1.055) (c := 0.04045 / 12.92)
      (by norm_num) (by norm_num) 12 5 (by norm_num) (by norm_num)
    have e : ((12 : ℕ) : ℝ) / ((5 : ℕ) : ℝ) = 2.4 := by norm_num
    rwa [e] at h
  have h1 : ((0.04045 + 0.055) / 1.055 : ℝ) ^ (2.4 : ℝ) ≤ ((e + 0.055) / 1.055) ^ (2.4 : ℝ) := by
    apply Real.rpow_le_rpow (by norm_num)
    · apply div_le_div_of_nonneg_right <;> linarith
    · norm_num
  linarith

/-- the other order, decode then encode, away from the sliver `(12.92*0.0031308, 0.04045]` where
the decoder's linear piece lands on the encoder's power piece -/
theorem srgb_encode_decode (e : ℝ) (he : e ≤ 12.92 * 0.0031308 ∨ 0.04045 < e) :
    srgbEncodePos (srgbDecodePos e) = e := by
  rw [srgbDecodePos_real]
  rcases he with he | he
  · have he2 : e ≤ 0.04045 := by linarith
    rw [if_pos he2, srgbEncodePos_real, if_pos]
    · field_simp
    · have : e / 12.92 ≤ 12.92 * 0.0031308 / 12.92 := div_le_div_of_nonneg_right he (by norm_num)
      have e2 : (12.92 * 0.0031308 : ℝ) / 12.92 = 0.0031308 := by norm_num
      linarith
  · have hgt := srgb_decode_power_gt e he
    have e2 : (0.0031308 : ℝ) < 0.04045 / 12.92 := by norm_num
    rw [if_neg (not_le.mpr he), srgbEncodePos_real, if_neg (not_le.mpr (by linarith)),
      ← Real.rpow_mul]
    · have : (2.4 : ℝ) * (1 / 2.4) = 1 := by norm_num
      rw [this, Real.rpow_one]
      have hm : (1.055 : ℝ) * ((e + 0.055) / 1.055) = e + 0.055 := by
        rw [← mul_div_assoc]; exact mul_div_cancel_left₀ _ (by norm_num)
      linarith
    · apply div_nonneg <;> linarith

theorem srgbDecodePos_monotone : Monotone (srgbDecodePos : ℝ → ℝ) := by
  intro x y hxy
  simp only [srgbDecodePos_real]
  by_cases hx : x ≤ 0.04045 <;> by_cases hy : y ≤ 0.04045 <;> simp only [hx, hy, if_true, if_false]
  · exact div_le_div_of_nonneg_right hxy (by norm_num)
  · have h1 := srgb_decode_power_gt y (not_le.mp hy)
    have h2 : x / 12.92 ≤ 0.04045 / 12.92 := div_le_div_of_nonneg_right hx (by norm_num)
    linarith
  · linarith
  · apply Real.rpow_le_rpow
    · apply div_nonneg <;> linarith
    · apply div_le_div_of_nonneg_right <;> linarith
    · norm_num

/-- With the constants of the standard the two pieces of the sRGB OETF do not meet: just above
`0.0031308` the power piece is *below* `12.92 * 0.0031308`. -/
theorem srgbEncodePos_not_monotone : ¬ Monotone (srgbEncodePos : ℝ → ℝ) := by
  intro h
  have h1 : srgbEncodePos (0.0031308 : ℝ) ≤ srgbEncodePos (0.003130801 : ℝ) := h (by norm_num)
  rw [srgbEncodePos_real, srgbEncodePos_real, if_pos (le_refl _), if_neg (by norm_num)] at h1
  have h2 : (0.003130801 : ℝ) ^ ((1 : ℝ) / 2.4) < (12.92 * 0.0031308 + 0.055) / 1.055 := by
    have h := rpow_lt_of_pow_lt (a := 0.003130801) (c := (12.92 * 0.0031308 + 0.055) / 1.055)
      (by norm_num) (by norm_num) 5 12 (by norm_num) (by norm_num)
    have e : ((5 : ℕ) : ℝ) / ((12 : ℕ) : ℝ) = 1 / 2.4 := by norm_num
    rwa [e] at h
  have h3 : 1.055 * (0.003130801 : ℝ) ^ ((1 : ℝ) / 2.4) < 12.92 * 0.0031308 + 0.055 := by
    have := mul_lt_mul_of_pos_left h2 (by norm_num : (0 : ℝ) < 1.055)
    have e : (1.055 : ℝ) * ((12.92 * 0.0031308 + 0.055) / 1.055) = 12.92 * 0.0031308 + 0.055 := by
      norm_num
    linarith
  linarith

theorem srgbEncodePos_strictMonoOn_linear : StrictMonoOn (srgbEncodePos : ℝ → ℝ) (Set.Iic 0.0031308) := by
  intro x hx y hy hxy
  simp only [Set.mem_Iic] at hx hy
  rw [srgbEncodePos_real, srgbEncodePos_real, if_pos hx, if_pos hy]
  linarith

theorem srgbEncodePos_strictMonoOn_power : StrictMonoOn (srgbEncodePos : ℝ → ℝ) (Set.Ioi 0.0031308) := by
  intro x hx y hy hxy
  simp only [Set.mem_Ioi] at hx hy
  rw [srgbEncodePos_real, srgbEncodePos_real, if_neg (not_le.mpr hx), if_neg (not_le.mpr hy)]
  have : x ^ ((1 : ℝ) / 2.4) < y ^ ((1 : ℝ) / 2.4) :=
    Real.rpow_lt_rpow (by linarith) hxy (by norm_num)
  linarith

/-! ### DCI -/

theorem dci_inverse (x : ℝ) (hx : 1e-7 < x) : dciDecode (dciEncode x) = x := by
  have h := gamma_inverse (1 / 2.6) x (by norm_num) (by norm_num) hx
  unfold gammaDecode gammaEncode at h
  unfold dciDecode dciEncode
  have e1 : (one / TfScalar.lit 26 1 : ℝ) = 1 / 2.6 := by unfold one; simp only [lit_real]; norm_num
  have e2 : (TfScalar.lit 26 1 : ℝ) = one / (1 / 2.6) := by unfold one; simp only [lit_real]; norm_num
  rw [e1, e2]; exact h

theorem dciEncode_monotone : Monotone (dciEncode : ℝ → ℝ) := by
  unfold dciEncode
  apply gammaApply_monotone
  unfold one; simp only [lit_real]; norm_num

theorem dciDecode_monotone : Monotone (dciDecode : ℝ → ℝ) := by
  unfold dciDecode
  apply gammaApply_monotone
  simp only [lit_real]; norm_num

/-! ### PQ -/

theorem pqM1_real : (pqM1 : ℝ) = 1305 / 8192 := by unfold pqM1; simp only [lit_real]; norm_num
theorem pqM2_real : (pqM2 : ℝ) = 2523 / 32 := by unfold pqM2; simp only [lit_real]; norm_num
theorem pqC1_real : (pqC1 : ℝ) = 107 / 128 := by unfold pqC1; simp only [lit_real]; norm_num
theorem pqC2_real : (pqC2 : ℝ) = 2413 / 128 := by unfold pqC2; simp only [lit_real]; norm_num
theorem pqC3_real : (pqC3 : ℝ) = 2392 / 128 := by unfold pqC3; simp only [lit_real]; norm_num
theorem zero_real : (zero : ℝ) = 0 := by unfold zero; simp [lit_real]
theorem one_real : (one : ℝ) = 1 := by unfold one; simp [lit_real]

/-- the rational core of PQ: `q p = (c1 + c2 p) / (1 + c3 p)` -/
noncomputable def pqQ (p : ℝ) : ℝ := (107 / 128 + 2413 / 128 * p) / (1 + 2392 / 128 * p)

theorem pqQ_sub (p : ℝ) (hp : 0 ≤ p) :
    pqQ p - 107 / 128 = p * (2413 / 128 - 107 / 128 * (2392 / 128)) / (1 + 2392 / 128 * p) := by
  unfold pqQ
  have : (1 + 2392 / 128 * p) ≠ 0 := by positivity
  field_simp
  ring

theorem pqQ_den (p : ℝ) (hp : 0 ≤ p) :
    2413 / 128 - 2392 / 128 * pqQ p = (2413 / 128 - 107 / 128 * (2392 / 128)) / (1 + 2392 / 128 * p) := by
  unfold pqQ
  have : (1 + 2392 / 128 * p) ≠ 0 := by positivity
  field_simp
  ring

theorem pqQ_mono {p r : ℝ} (hp : 0 ≤ p) (hpr : p ≤ r) : pqQ p ≤ pqQ r := by
  have hr : 0 ≤ r := le_trans hp hpr
  unfold pqQ
  rw [div_le_div_iff₀ (by positivity) (by positivity)]
  nlinarith

theorem pqEncodePos_real (y : ℝ) :
    pqEncodePos y = if y ≤ 0 then (107 / 128 : ℝ) ^ ((2523 : ℝ) / 32)
      else (pqQ (y ^ ((1305 : ℝ) / 8192))) ^ ((2523 : ℝ) / 32) := by
  unfold pqEncodePos pqQ
  simp only [pqM1_real, pqM2_real, pqC1_real, pqC2_real, pqC3_real, zero_real, one_real, pow_real]

theorem pqDecodePos_real (e : ℝ) :
    pqDecodePos e = if e ≤ 0 then 0 else
      if (if e ^ (1 / ((2523 : ℝ) / 32)) - 107 / 128 ≤ 0 then 0
          else e ^ (1 / ((2523 : ℝ) / 32)) - 107 / 128) ≤ 0 then 0 else
        ((if e ^ (1 / ((2523 : ℝ) / 32)) - 107 / 128 ≤ 0 then 0
          else e ^ (1 / ((2523 : ℝ) / 32)) - 107 / 128) /
          (2413 / 128 - 2392 / 128 * e ^ (1 / ((2523 : ℝ) / 32)))) ^ (1 / ((1305 : ℝ) / 8192)) := by
  unfold pqDecodePos
  simp only [pqM1_real, pqM2_real, pqC1_real, pqC2_real, pqC3_real, zero_real, one_real, pow_real]

theorem pq_inverse (y : ℝ) (hy : 0 < y) : pqDecodePos (pqEncodePos y) = y := by
  have hp : 0 < y ^ ((1305 : ℝ) / 8192) := Real.rpow_pos_of_pos hy _
  set p := y ^ ((1305 : ℝ) / 8192) with hpdef
  have hq : 0 < pqQ p := by unfold pqQ; positivity
  have hk : (0 : ℝ) < 2413 / 128 - 107 / 128 * (2392 / 128) := by norm_num
  rw [pqEncodePos_real, if_neg (not_le.mpr hy), pqDecodePos_real,
    if_neg (not_le.mpr (Real.rpow_pos_of_pos hq _)), rpow_inv_cancel hq.le (by norm_num)]
  have hsub := pqQ_sub p hp.le
  have hden := pqQ_den p hp.le
  have hpos : 0 < pqQ p - 107 / 128 := by
    rw [hsub]; apply div_pos (mul_pos hp hk); positivity
  rw [if_neg (not_le.mpr hpos), if_neg (not_le.mpr hpos), hsub, hden]
  have hd : (1 + 2392 / 128 * p) ≠ 0 := by positivity
  have : p * (2413 / 128 - 107 / 128 * (2392 / 128)) / (1 + 2392 / 128 * p) /
      ((2413 / 128 - 107 / 128 * (2392 / 128)) / (1 + 2392 / 128 * p)) = p := by
    field_simp
  rw [this, hpdef]
  exact rpow_inv_cancel hy.le (by norm_num)

theorem pqEncodePos_monotone : Monotone (pqEncodePos : ℝ → ℝ) := by
  intro x y hxy
  simp only [pqEncodePos_real]
  have hc : ∀ p : ℝ, 0 ≤ p → (107 / 128 : ℝ) ≤ pqQ p := by
    intro p hp
    have := pqQ_sub p hp
    have h2 : 0 ≤ p * (2413 / 128 - 107 / 128 * (2392 / 128)) / (1 + 2392 / 128 * p) := by
      apply div_nonneg (mul_nonneg hp (by norm_num)); positivity
    linarith
  by_cases hx : x ≤ 0 <;> by_cases hy : y ≤ 0 <;> simp only [hx, hy, if_true, if_false]
  · exact le_refl _
  · exact Real.rpow_le_rpow (by norm_num) (hc _ (Real.rpow_nonneg (by linarith) _)) (by norm_num)
  · linarith
  · have hx' : 0 ≤ x := by linarith
    have h1 : x ^ ((1305 : ℝ) / 8192) ≤ y ^ ((1305 : ℝ) / 8192) :=
      Real.rpow_le_rpow hx' hxy (by norm_num)
    have h0 : 0 ≤ x ^ ((1305 : ℝ) / 8192) := Real.rpow_nonneg hx' _
    apply Real.rpow_le_rpow _ (pqQ_mono h0 h1) (by norm_num)
    have := hc _ h0; linarith

/-! ### HLG -/

theorem sqrt_real (a : ℝ) : TfScalar.sqrt a = Real.sqrt a := rfl
theorem log_real (a : ℝ) : TfScalar.log a = Real.log a := rfl
theorem exp_real (a : ℝ) : TfScalar.exp a = Real.exp a := rfl

theorem hlg_consts :
    ((1 : ℕ) : ℝ) / 10 ^ 0 = 1 ∧ ((3 : ℕ) : ℝ) / 10 ^ 0 = 3 ∧
    ((12 : ℕ) : ℝ) / 10 ^ 0 = 12 ∧ ((17883277 : ℕ) : ℝ) / 10 ^ 8 = 0.17883277 ∧
    ((28466892 : ℕ) : ℝ) / 10 ^ 8 = 0.28466892 ∧ ((5599107 : ℕ) : ℝ) / 10 ^ 7 = 0.5599107 ∧
    ((5 : ℕ) : ℝ) / 10 ^ 1 = 0.5 := by
  refine ⟨?_, ?_, ?_, ?_, ?_, ?_, ?_⟩ <;> norm_num

theorem hlgEncodePos_real (x : ℝ) :
    hlgEncodePos x = if x ≤ 1 / 12 then Real.sqrt (3 * x)
      else 0.17883277 * Real.log (12 * x - 0.28466892) + 0.5599107 := by
  obtain ⟨e1, e2, e3, e4, e5, e6, _⟩ := hlg_consts
  unfold hlgEncodePos hlgA hlgB hlgC one
  simp only [lit_real, sqrt_real, log_real, e1, e2, e3, e4, e5, e6]

theorem hlgDecodePos_real (x : ℝ) :
    hlgDecodePos x = if x ≤ 0.5 then x * x / 3
      else (Real.exp ((x - 0.5599107) / 0.17883277) + 0.28466892) / 12 := by
  obtain ⟨_, e2, e3, e4, e5, e6, e7⟩ := hlg_consts
  unfold hlgDecodePos hlgA hlgB hlgC
  simp only [lit_real, exp_real, e2, e3, e4, e5, e6, e7]

theorem hlg_inverse_sqrt (x : ℝ) (h0 : 0 ≤ x) (hx : x ≤ 1 / 12) :
    hlgDecodePos (hlgEncodePos x) = x := by
  rw [hlgEncodePos_real, if_pos hx, hlgDecodePos_real, if_pos]
  · rw [Real.mul_self_sqrt (by linarith)]; field_simp
  · rw [Real.sqrt_le_iff]; constructor
    · norm_num
    · nlinarith

theorem hlg_inverse_log (x : ℝ) (hx : 1 / 12 < x)
    (hgt : 0.5 < 0.17883277 * Real.log (12 * x - 0.28466892) + 0.5599107) :
    hlgDecodePos (hlgEncodePos x) = x := by
  rw [hlgEncodePos_real, if_neg (not_le.mpr hx), hlgDecodePos_real, if_neg (not_le.mpr hgt)]
  have hpos : 0 < 12 * x - 0.28466892 := by linarith
  have e : (0.17883277 * Real.log (12 * x - 0.28466892) + 0.5599107 - 0.5599107) / 0.17883277
      = Real.log (12 * x - 0.28466892) := by
    rw [add_sub_cancel_right]; exact mul_div_cancel_left₀ _ (by norm_num)
  rw [e, Real.exp_log hpos]
  linarith

theorem hlgEncodePos_monotoneOn_sqrt : MonotoneOn (hlgEncodePos : ℝ → ℝ) (Set.Iic (1 / 12)) := by
  intro x hx y hy hxy
  simp only [Set.mem_Iic] at hx hy
  rw [hlgEncodePos_real, hlgEncodePos_real, if_pos hx, if_pos hy]
  exact Real.sqrt_le_sqrt (by linarith)

theorem hlgEncodePos_monotoneOn_log : MonotoneOn (hlgEncodePos : ℝ → ℝ) (Set.Ioi (1 / 12)) := by
  intro x hx y hy hxy
  simp only [Set.mem_Ioi] at hx hy
  rw [hlgEncodePos_real, hlgEncodePos_real, if_neg (not_le.mpr hx), if_neg (not_le.mpr hy)]
  have : Real.log (12 * x - 0.28466892) ≤ Real.log (12 * y - 0.28466892) :=
    Real.log_le_log (by linarith) (by linarith)
  linarith

theorem hlgDecodePos_monotoneOn_sq : MonotoneOn (hlgDecodePos : ℝ → ℝ) (Set.Icc 0 0.5) := by
  intro x hx y hy hxy
  simp only [Set.mem_Icc] at hx hy
  rw [hlgDecodePos_real, hlgDecodePos_real, if_pos hx.2, if_pos hy.2]
  have : x * x ≤ y * y := mul_le_mul hxy hxy hx.1 hy.1
  linarith

theorem hlgDecodePos_monotoneOn_exp : MonotoneOn (hlgDecodePos : ℝ → ℝ) (Set.Ioi 0.5) := by
  intro x hx y hy hxy
  simp only [Set.mem_Ioi] at hx hy
  rw [hlgDecodePos_real, hlgDecodePos_real, if_neg (not_le.mpr hx), if_neg (not_le.mpr hy)]
  have : Real.exp ((x - 0.5599107) / 0.17883277) ≤ Real.exp ((y - 0.5599107) / 0.17883277) := by
    apply Real.exp_le_exp.mpr
    apply div_le_div_of_nonneg_right _ (by norm_num); linarith
  linarith

/-! ### HLG: the breakpoints, numerically -/

/-- `exp((0.5 − 0.5599107)/0.17883277)` to ten digits (Taylor polynomial of degree 11 at the
rational point, `Real.exp_bound`). The true value is 0.715331198118… -/
theorem hlg_exp_enclosure :
    (0.71533119804 : ℝ) < Real.exp (-5991070 / 17883277) ∧
      Real.exp (-5991070 / 17883277) < (0.71533119816 : ℝ) := by
  have hx : |(-5991070 / 17883277 : ℝ)| ≤ 1 := by
    rw [abs_le]; constructor <;> norm_num
  have h := Real.exp_bound hx (n := 12) (by norm_num)
  have habs : |(-5991070 / 17883277 : ℝ)| = 5991070 / 17883277 := by
    rw [abs_of_neg (by norm_num)]; norm_num
  rw [habs, abs_le] at h
  obtain ⟨h1, h2⟩ := h
  have e1 : (0.71533119804 : ℝ) + (5991070 / 17883277 : ℝ) ^ 12 *
      (((12 : ℕ).succ : ℝ) / (((12 : ℕ).factorial : ℝ) * ((12 : ℕ) : ℝ))) <
      ∑ m ∈ Finset.range 12, (-5991070 / 17883277 : ℝ) ^ m / (m.factorial : ℝ) := by
    simp only [Finset.sum_range_succ, Finset.sum_range_zero, Nat.factorial]
    norm_num
  have e2 : (∑ m ∈ Finset.range 12, (-5991070 / 17883277 : ℝ) ^ m / (m.factorial : ℝ)) +
      (5991070 / 17883277 : ℝ) ^ 12 *
      (((12 : ℕ).succ : ℝ) / (((12 : ℕ).factorial : ℝ) * ((12 : ℕ) : ℝ))) < 0.71533119816 := by
    simp only [Finset.sum_range_succ, Finset.sum_range_zero, Nat.factorial]
    norm_num
  constructor <;> linarith

/-- the first linear sample that `hlgDecodePos ∘ hlgEncodePos` returns unchanged again:
`(exp((0.5 − C)/A) + B)/12 = 0.0833333431765…` -/
noncomputable def hlgGapEnd : ℝ := (Real.exp (-5991070 / 17883277) + 0.28466892) / 12

theorem hlgGapEnd_bounds : (0.08333334317 : ℝ) < hlgGapEnd ∧ hlgGapEnd < 0.08333334318 := by
  obtain ⟨h1, h2⟩ := hlg_exp_enclosure
  unfold hlgGapEnd
  constructor
  · rw [lt_div_iff₀ (by norm_num)]; linarith
  · rw [div_lt_iff₀ (by norm_num)]; linarith

/-- the logarithmic piece exceeds the decoder's breakpoint exactly beyond `hlgGapEnd` -/
theorem hlg_log_gt_iff (x : ℝ) (hx : 1 / 12 < x) :
    0.5 < 0.17883277 * Real.log (12 * x - 0.28466892) + 0.5599107 ↔ hlgGapEnd < x := by
  have hpos : 0 < 12 * x - 0.28466892 := by linarith
  have e : (-5991070 / 17883277 : ℝ) = (0.5 - 0.5599107) / 0.17883277 := by norm_num
  unfold hlgGapEnd
  rw [div_lt_iff₀ (by norm_num), e, ← lt_sub_iff_add_lt, mul_comm x 12,
    ← Real.lt_log_iff_exp_lt hpos, div_lt_iff₀ (by norm_num)]
  constructor <;> intro h <;> linarith

/-- on `x > 1/12` the logarithmic piece stays positive (crude: `log y ≥ 1 − 1/y`) -/
theorem hlg_log_piece_pos (x : ℝ) (hx : 1 / 12 < x) :
    0.48 < 0.17883277 * Real.log (12 * x - 0.28466892) + 0.5599107 := by
  have hpos : (0.7 : ℝ) < 12 * x - 0.28466892 := by linarith
  have h1 := Real.one_sub_inv_le_log_of_pos (lt_trans (by norm_num) hpos)
  have h2 : (12 * x - 0.28466892)⁻¹ < (0.7 : ℝ)⁻¹ := by
    apply inv_strictAnti₀ (by norm_num) hpos
  have h3 : ((0.7 : ℝ)⁻¹) < 1.43 := by norm_num
  nlinarith

/-- HLG encode-then-decode on `x ≥ 0`: the identity exactly off the sliver `(1/12, hlgGapEnd]` -/
theorem hlg_inverse_iff (x : ℝ) (h0 : 0 ≤ x) :
    hlgDecodePos (hlgEncodePos x) = x ↔ (x ≤ 1 / 12 ∨ hlgGapEnd < x) := by
  by_cases hx : x ≤ 1 / 12
  · exact ⟨fun _ => Or.inl hx, fun _ => hlg_inverse_sqrt x h0 hx⟩
  · have hx' : 1 / 12 < x := not_le.mp hx
    constructor
    · intro h
      right
      by_contra hc
      have hle : ¬ (0.5 < 0.17883277 * Real.log (12 * x - 0.28466892) + 0.5599107) :=
        fun hh => hc ((hlg_log_gt_iff x hx').mp hh)
      have hp := hlg_log_piece_pos x hx'
      rw [hlgEncodePos_real, if_neg hx, hlgDecodePos_real, if_pos (not_lt.mp hle)] at h
      have hle' := not_lt.mp hle
      nlinarith
    · rintro (h | h)
      · exact absurd h hx
      · exact hlg_inverse_log x hx' ((hlg_log_gt_iff x hx').mpr h)

/-- explicit rational form of `hlg_inverse_iff`, sufficient side -/
theorem hlg_inverse_of_ge (x : ℝ) (h0 : 0 ≤ x) (hx : x ≤ 1 / 12 ∨ 0.08333334318 ≤ x) :
    hlgDecodePos (hlgEncodePos x) = x := by
  rw [hlg_inverse_iff x h0]
  rcases hx with h | h
  · exact Or.inl h
  · exact Or.inr (lt_of_lt_of_le hlgGapEnd_bounds.2 h)

/-- … and on the whole interval `(1/12, 0.08333334317]` the round trip is *not* the identity -/
theorem hlg_inverse_false_on_gap (x : ℝ) (h1 : 1 / 12 < x) (h2 : x ≤ 0.08333334317) :
    hlgDecodePos (hlgEncodePos x) ≠ x := by
  intro h
  rcases (hlg_inverse_iff x (by linarith)).mp h with h | h
  · linarith
  · linarith [hlgGapEnd_bounds.1]

/-- `exp(−0.335009795) < 1 − 0.28466892`, i.e. `ln(1 − B) > −0.335009795` (true value −0.33500979451…) -/
theorem hlg_exp_lo : Real.exp (-335009795 / 1000000000) < (0.71533108 : ℝ) := by
  have hx : |(-335009795 / 1000000000 : ℝ)| ≤ 1 := by
    rw [abs_le]; constructor <;> norm_num
  have h := Real.exp_bound hx (n := 12) (by norm_num)
  have habs : |(-335009795 / 1000000000 : ℝ)| = 335009795 / 1000000000 := by
    rw [abs_of_neg (by norm_num)]; norm_num
  rw [habs, abs_le] at h
  obtain ⟨h1, h2⟩ := h
  have e2 : (∑ m ∈ Finset.range 12, (-335009795 / 1000000000 : ℝ) ^ m / (m.factorial : ℝ)) +
      (335009795 / 1000000000 : ℝ) ^ 12 *
      (((12 : ℕ).succ : ℝ) / (((12 : ℕ).factorial : ℝ) * ((12 : ℕ) : ℝ))) < 0.71533108 := by
    simp only [Finset.sum_range_succ, Finset.sum_range_zero, Nat.factorial]
    norm_num
  linarith

/-- the logarithmic piece on `x > 1/12` starts at `0.49999997047… < 0.5`; here a lower bound -/
theorem hlg_log_piece_gt (x : ℝ) (hx : 1 / 12 < x) :
    0.49999997 < 0.17883277 * Real.log (12 * x - 0.28466892) + 0.5599107 := by
  have hpos : (0.71533108 : ℝ) < 12 * x - 0.28466892 := by linarith
  have h1 : (-335009795 / 1000000000 : ℝ) < Real.log (12 * x - 0.28466892) := by
    rw [Real.lt_log_iff_exp_lt (by linarith)]
    exact lt_trans hlg_exp_lo hpos
  nlinarith

/-- HLG encode-then-decode is within `2e-8` of the identity on all of `x ≥ 0`, and never above -/
theorem hlg_inverse_approx (x : ℝ) (h0 : 0 ≤ x) :
    hlgDecodePos (hlgEncodePos x) ≤ x ∧ x - 2e-8 ≤ hlgDecodePos (hlgEncodePos x) := by
  by_cases hok : x ≤ 1 / 12 ∨ hlgGapEnd < x
  · rw [(hlg_inverse_iff x h0).mpr hok]
    constructor <;> linarith
  · rw [not_or, not_le, not_lt] at hok
    obtain ⟨hx, hg⟩ := hok
    have hle : ¬ (0.5 < 0.17883277 * Real.log (12 * x - 0.28466892) + 0.5599107) :=
      fun hh => absurd ((hlg_log_gt_iff x hx).mp hh) (not_lt.mpr hg)
    have hlo := hlg_log_piece_gt x hx
    have hgb := hlgGapEnd_bounds.2
    rw [hlgEncodePos_real, if_neg (not_le.mpr hx), hlgDecodePos_real, if_pos (not_lt.mp hle)]
    have hle' := not_lt.mp hle
    generalize 0.17883277 * Real.log (12 * x - 0.28466892) + 0.5599107 = e at *
    have hsq1 : e * e ≤ 0.5 * 0.5 := mul_le_mul hle' hle' (by linarith) (by norm_num)
    have hsq2 : (0.49999997 : ℝ) * 0.49999997 ≤ e * e :=
      mul_le_mul hlo.le hlo.le (by norm_num) (by linarith)
    constructor
    · rw [div_le_iff₀ (by norm_num)]; linarith
    · rw [le_div_iff₀ (by norm_num)]; linarith

/-! monotonicity: the encoder jumps *down* at `1/12` (0.5 ↦ 0.49999997…), the decoder jumps *up*
at `0.5` (1/12 ↦ 0.08333334317…) -/

theorem hlgEncodePos_not_monotoneOn : ¬ MonotoneOn (hlgEncodePos : ℝ → ℝ) (Set.Ici 0) := by
  intro h
  have h1 : hlgEncodePos (1 / 12 : ℝ) ≤ hlgEncodePos (0.08333334 : ℝ) :=
    h (by norm_num [Set.mem_Ici]) (by norm_num [Set.mem_Ici]) (by norm_num)
  have hx : (1 / 12 : ℝ) < 0.08333334 := by norm_num
  have hnot : ¬ (0.5 < 0.17883277 * Real.log (12 * (0.08333334 : ℝ) - 0.28466892) + 0.5599107) := by
    rw [hlg_log_gt_iff _ hx]
    linarith [hlgGapEnd_bounds.1]
  rw [hlgEncodePos_real, hlgEncodePos_real, if_pos (le_refl _), if_neg (not_le.mpr hx)] at h1
  have hs : Real.sqrt (3 * (1 / 12 : ℝ)) = 0.5 := by
    rw [show (3 * (1 / 12) : ℝ) = 0.5 * 0.5 by norm_num]
    exact Real.sqrt_mul_self (by norm_num)
  rw [hs] at h1
  -- equality would put 0.08333334 at the exact end of the gap; exclude it with the strict bound
  have hlt : 0.17883277 * Real.log (12 * (0.08333334 : ℝ) - 0.28466892) + 0.5599107 < 0.5 := by
    have hpos : (0 : ℝ) < 12 * 0.08333334 - 0.28466892 := by norm_num
    have e : (-5991070 / 17883277 : ℝ) = (0.5 - 0.5599107) / 0.17883277 := by norm_num
    have h2 : Real.log (12 * (0.08333334 : ℝ) - 0.28466892) < -5991070 / 17883277 := by
      rw [Real.log_lt_iff_lt_exp hpos]
      have := hlg_exp_enclosure.1
      norm_num at this ⊢
      linarith
    rw [e, lt_div_iff₀ (by norm_num)] at h2
    linarith
  linarith

theorem hlgEncodePos_sqrt_le (x : ℝ) (hx : x ≤ 1 / 12) : hlgEncodePos x ≤ 0.5 := by
  rw [hlgEncodePos_real, if_pos hx, Real.sqrt_le_iff]
  constructor
  · norm_num
  · nlinarith

/-- the encoder is monotone once the sliver is left out -/
theorem hlgEncodePos_monotoneOn_off_gap :
    MonotoneOn (hlgEncodePos : ℝ → ℝ) (Set.Iic (1 / 12) ∪ Set.Ioi hlgGapEnd) := by
  have hg : (1 / 12 : ℝ) < hlgGapEnd := lt_trans (by norm_num) hlgGapEnd_bounds.1
  intro x hx y hy hxy
  simp only [Set.mem_union, Set.mem_Iic, Set.mem_Ioi] at hx hy
  rcases hx with hx | hx <;> rcases hy with hy | hy
  · exact hlgEncodePos_monotoneOn_sqrt hx hy hxy
  · have h1 := hlgEncodePos_sqrt_le x hx
    have hy' : 1 / 12 < y := lt_trans hg hy
    have h2 := (hlg_log_gt_iff y hy').mpr hy
    rw [hlgEncodePos_real y, if_neg (not_le.mpr hy')]
    linarith
  · linarith
  · exact hlgEncodePos_monotoneOn_log (lt_trans hg hx) (lt_trans hg hy) hxy

theorem hlgDecodePos_monotoneOn : MonotoneOn (hlgDecodePos : ℝ → ℝ) (Set.Ici 0) := by
  intro x hx y hy hxy
  simp only [Set.mem_Ici] at hx hy
  by_cases hx5 : x ≤ 0.5 <;> by_cases hy5 : y ≤ 0.5
  · exact hlgDecodePos_monotoneOn_sq ⟨hx, hx5⟩ ⟨hy, hy5⟩ hxy
  · rw [hlgDecodePos_real, hlgDecodePos_real, if_pos hx5, if_neg hy5]
    have hy5' : 0.5 < y := not_le.mp hy5
    have h1 : Real.exp (-5991070 / 17883277) ≤ Real.exp ((y - 0.5599107) / 0.17883277) := by
      apply Real.exp_le_exp.mpr
      rw [show (-5991070 / 17883277 : ℝ) = (0.5 - 0.5599107) / 0.17883277 by norm_num]
      apply div_le_div_of_nonneg_right _ (by norm_num); linarith
    have h2 := hlg_exp_enclosure.1
    have h3 : x * x ≤ 0.5 * 0.5 := mul_le_mul hx5 hx5 hx (by norm_num)
    rw [div_le_div_iff₀ (by norm_num) (by norm_num)]
    linarith
  · linarith [not_le.mp hx5]
  · exact hlgDecodePos_monotoneOn_exp (not_le.mp hx5) (not_le.mp hy5) hxy

/-! ### odd extension -/

theorem odd_real (f : ℝ → ℝ) (x : ℝ) : odd f x = if 0 ≤ x then f x else - f (-x) := by
  unfold odd; simp only [zero_real]

/-- if `g ∘ f` is the identity on a set `S ⊆ [0, ∞)` with `f ≥ 0` there (and `f > 0` off zero),
then the odd extensions invert each other on `S ∪ -S` -/
theorem odd_inverse (f g : ℝ → ℝ) (x : ℝ) (hfpos : ∀ y, 0 < y → 0 < f y) (hf0 : 0 ≤ f 0)
    (hinv : g (f |x|) = |x|) : odd g (odd f x) = x := by
  rw [odd_real f]
  by_cases hx : 0 ≤ x
  · rw [if_pos hx, odd_real g]
    have hfx : 0 ≤ f x := by
      rcases eq_or_lt_of_le hx with h | h
      · rw [← h]; exact hf0
      · exact (hfpos x h).le
    rw [if_pos hfx]
    rw [abs_of_nonneg hx] at hinv; exact hinv
  · have hx' : 0 < -x := by linarith
    rw [if_neg hx, odd_real g]
    have : ¬ (0 ≤ - f (-x)) := by have := hfpos (-x) hx'; linarith
    rw [if_neg this, neg_neg]
    rw [abs_of_neg (by linarith)] at hinv
    rw [hinv]; ring


theorem gamma_clamped (γ x : ℝ) (hx : x ≤ 1e-7) : gammaDecode γ (gammaEncode γ x) = 0 := by
  unfold gammaDecode gammaEncode
  rw [gammaApply_real γ x, if_pos hx, gammaApply_real, if_pos (by norm_num)]

theorem srgbEncodePos_pos (y : ℝ) (hy : 0 < y) : 0 < srgbEncodePos y := by
  rw [srgbEncodePos_real]
  by_cases h : y ≤ 0.0031308
  · rw [if_pos h]; linarith
  · rw [if_neg h]
    have h1 : ((0.06 : ℝ) ^ (2.4 : ℝ)) < y := by
      have hh := rpow_lt_of_pow_lt (a := 0.06) (c := 0.0031308) (by norm_num) (by norm_num) 12 5
        (by norm_num) (by norm_num)
      have e : ((12 : ℕ) : ℝ) / ((5 : ℕ) : ℝ) = 2.4 := by norm_num
      rw [e] at hh
      linarith [not_le.mp h]
    have h2 : ((0.06 : ℝ) ^ (2.4 : ℝ)) ^ ((1 : ℝ) / 2.4) < y ^ ((1 : ℝ) / 2.4) :=
      Real.rpow_lt_rpow (Real.rpow_nonneg (by norm_num) _) h1 (by norm_num)
    rw [rpow_inv_cancel (by norm_num) (by norm_num)] at h2
    linarith

theorem srgb_inverse_odd (x : ℝ) (hx : |x| ≤ 0.0031308 ∨ 0.00313081 ≤ |x|) :
    srgbDecode (srgbEncode x) = x := by
  unfold srgbDecode srgbEncode
  apply odd_inverse srgbEncodePos srgbDecodePos x srgbEncodePos_pos
  · rw [srgbEncodePos_real, if_pos (by norm_num)]; norm_num
  · rcases hx with h | h
    · exact srgb_inverse_linear _ h
    · exact srgb_inverse_power _ h

theorem hlgEncodePos_pos (y : ℝ) (hy : 0 < y) : 0 < hlgEncodePos y := by
  by_cases h : y ≤ 1 / 12
  · rw [hlgEncodePos_real, if_pos h]; exact Real.sqrt_pos.mpr (by linarith)
  · have := hlg_log_piece_pos y (not_le.mp h)
    rw [hlgEncodePos_real, if_neg h]; linarith

/-- the sign-symmetric kernels (`copysign (f |x|) x`) on the whole line -/
theorem hlg_inverse_odd (x : ℝ) (hx : |x| ≤ 1 / 12 ∨ 0.08333334318 ≤ |x|) :
    hlgDecode (hlgEncode x) = x := by
  unfold hlgDecode hlgEncode
  apply odd_inverse hlgEncodePos hlgDecodePos x hlgEncodePos_pos
  · rw [hlgEncodePos_real, if_pos (by norm_num)]; exact Real.sqrt_nonneg _
  · exact hlg_inverse_of_ge _ (abs_nonneg x) hx

end Real

end Jxl.Color
