import JxlModel.Proofs.Region
/-! # More lemmas about the region arithmetic: orientation, frame coordinates, LF groups,
`patch()` geometry, radius stages -/
namespace Jxl.Region
open Region

/-- Orientation: every cell of a request is carried to a cell of the mapped region, and the
mapped region has exactly as many cells. -/
theorem orientation_maps_cells (r : Region) (imgW imgH o : Nat) (ho1 : 1 ≤ o) (ho8 : o ≤ 8)
    (x y : Int) (h : Mem x y r) :
    let WH := orientedSize o imgW imgH
    Mem (orientPoint o WH.1 WH.2 x y).1 (orientPoint o WH.1 WH.2 x y).2 (r.applyOrientation imgW imgH o) ∧
    (r.applyOrientation imgW imgH o).width * (r.applyOrientation imgW imgH o).height = r.width * r.height := by
  have ho : o = 1 ∨ o = 2 ∨ o = 3 ∨ o = 4 ∨ o = 5 ∨ o = 6 ∨ o = 7 ∨ o = 8 := by omega
  unfold Mem at h
  have hne : ¬ (r.width = 0 ∨ r.height = 0) := by omega
  rcases ho with rfl | rfl | rfl | rfl | rfl | rfl | rfl | rfl <;>
  (simp only [applyOrientation, hne, if_false, orientedSize, orientPoint, Mem]
   simp
   split <;> split <;> (try simp) <;> (first | (constructor <;> first | omega | (congr 1 <;> omega) | (rw [Nat.mul_comm]; congr 1 <;> omega)) | omega))

/-- `image_region_to_frame` (LF level ignored): the cells of the frame whose image position lies in
the oriented request. -/
theorem mem_imageRegionToFrame (c : Cfg) (hr : c.refOnly = false) (R : Region) (x y : Int) :
    Mem x y (imageRegionToFrame c R true) ↔
      Mem (x + c.x0) (y + c.y0) (R.applyOrientation c.imgW c.imgH c.orientation) ∧
      Mem x y (Region.withSize c.fw c.fh) := by
  unfold imageRegionToFrame
  simp only [hr, if_true, Bool.false_eq_true, if_false, mem_intersection, mem_translate]
  have e1 : x - -c.x0 = x + c.x0 := by omega
  have e2 : y - -c.y0 = y + c.y0 := by omega
  rw [e1, e2]

theorem imageRegionToFrame_refOnly (c : Cfg) (hr : c.refOnly = true) (R : Region) :
    imageRegionToFrame c R true = Region.withSize c.fw c.fh := by
  unfold imageRegionToFrame; simp [hr]

/-- tiles of size `d` in rows of `n`: the tile that holds `(x, y)` -/
theorem cell_in_tile (d n x y : Nat) (hd : 0 < d) (hcol : x / d < n) :
    Mem (x : Int) (y : Int)
      ⟨(((((y / d) * n + x / d) % n) * d : Nat) : Int), (((((y / d) * n + x / d) / n) * d : Nat) : Int), d, d⟩ := by
  have hmd := idx_mod_div (x / d) (y / d) n hcol
  rw [hmd.1, hmd.2]
  unfold Mem
  simp only []
  have a1 := Nat.div_add_mod x d
  have a2 := Nat.mod_lt x hd
  have b1 := Nat.div_add_mod y d
  have b2 := Nat.mod_lt y hd
  rw [Nat.mul_comm] at a1 b1
  have a1' : (((x / d) * d : Nat) : Int) + ((x % d : Nat) : Int) = (x : Int) := by exact_mod_cast a1
  have b1' : (((y / d) * d : Nat) : Int) + ((y % d : Nat) : Int) = (y : Int) := by exact_mod_cast b1
  have a2' : ((x % d : Nat) : Int) < (d : Int) := by exact_mod_cast a2
  have b2' : ((y % d : Nat) : Int) < (d : Int) := by exact_mod_cast b2
  omega

theorem lf_group_cover (c : Cfg) (mr : Region) (x y : Nat)
    (hx : x < c.colorSampleWidth) (hm : Mem x y mr) :
    let g := (y / 8 / c.groupDim) * c.lfGroupsPerRow + x / 8 / c.groupDim
    Mem ((x / 8 : Nat) : Int) ((y / 8 : Nat) : Int) (lfGroupRegion c g) ∧
    lfGroupSelected c (mr.downsample 3) g = true := by
  intro g
  have hd := groupDim_pos c
  have hcol : x / 8 / c.groupDim < c.lfGroupsPerRow := by
    rw [Nat.div_div_eq_div_mul]
    unfold Cfg.lfGroupsPerRow Cfg.lfGroupDim
    rw [Nat.mul_comm 8]
    exact div_lt_ceil x _ _ (by omega) hx
  have hmem : Mem ((x / 8 : Nat) : Int) ((y / 8 : Nat) : Int) (lfGroupRegion c g) :=
    cell_in_tile c.groupDim c.lfGroupsPerRow (x / 8) (y / 8) hd hcol
  refine ⟨hmem, ?_⟩
  unfold lfGroupSelected
  have hdn : Mem ((x / 8 : Nat) : Int) ((y / 8 : Nat) : Int) (mr.downsample 3) := by
    have := mem_downsample 3 hm
    have e1 : ((x / 8 : Nat) : Int) = (x : Int) / 2 ^ 3 := by push_cast; rfl
    have e2 : ((y / 8 : Nat) : Int) = (y : Int) / 2 ^ 3 := by push_cast; rfl
    rw [e1, e2]; exact this
  have : Mem _ _ ((mr.downsample 3).intersection (lfGroupRegion c g)) := (mem_intersection _ _ _ _).2 ⟨hdn, hmem⟩
  simp [not_isEmpty_of_mem this]


theorem patch_axis (BL : Int) (BW : Nat) (RL : Int) (RW : Nat) (p0 pw : Nat) (t : Int)
    (tpl : Int) (tpw : Nat) (rpl : Int) (rpw : Nat)
    (h1 : tpl = max BL t) (h2 : tpl + tpw = min (BL + BW) (t + pw))
    (h4 : rpl = max RL (p0 + (tpl - t))) (h5 : rpl + rpw = min (RL + RW) (p0 + (tpl - t) + tpw))
    (hs : RL ≤ p0 ∧ (p0 : Int) + pw ≤ RL + RW) (dx : Nat) (hdx : dx < rpw) :
    (tpl - BL).natAbs + dx < BW ∧ (rpl - RL).natAbs + dx < RW ∧
    (t ≤ BL + (((tpl - BL).natAbs + dx : Nat) : Int) ∧ BL + (((tpl - BL).natAbs + dx : Nat) : Int) < t + pw) ∧
    RL + (((rpl - RL).natAbs + dx : Nat) : Int) - p0 = BL + (((tpl - BL).natAbs + dx : Nat) : Int) - t ∧
    rpw = tpw := by
  omega

theorem patch_sound (baseGrid refGrid : Region) (px0 py0 pw ph : Nat) (tx ty : Int)
    (hsrc : Region.Within ⟨px0, py0, pw, ph⟩ refGrid) (dx dy : Nat)
    (hdx : dx < (patchGeom baseGrid refGrid px0 py0 pw ph tx ty).w)
    (hdy : dy < (patchGeom baseGrid refGrid px0 py0 pw ph tx ty).h) :
    PatchWrite baseGrid refGrid px0 py0 pw ph tx ty (patchGeom baseGrid refGrid px0 py0 pw ph tx ty) dx dy ∧
    (patchGeom baseGrid refGrid px0 py0 pw ph tx ty).w = (baseGrid.intersection ⟨tx, ty, pw, ph⟩).width ∧
    (patchGeom baseGrid refGrid px0 py0 pw ph tx ty).h = (baseGrid.intersection ⟨tx, ty, pw, ph⟩).height := by
  unfold patchGeom at *
  simp only [] at *
  generalize htp : baseGrid.intersection ⟨tx, ty, pw, ph⟩ = tp at *
  generalize hrp : refGrid.intersection ⟨(px0 : Int) + (tp.left - tx), (py0 : Int) + (tp.top - ty), tp.width, tp.height⟩ = rp at *
  have r := inter_pos refGrid ⟨(px0 : Int) + (tp.left - tx), (py0 : Int) + (tp.top - ty), tp.width, tp.height⟩ (by rw [hrp]; omega)
  rw [hrp] at r
  simp only [] at r
  have tpos : 0 < tp.width := by omega
  have t := inter_pos baseGrid ⟨tx, ty, pw, ph⟩ (by rw [htp]; omega)
  rw [htp] at t
  simp only [] at t
  unfold Within at hsrc
  simp only [] at hsrc
  obtain ⟨t1, t2, t3, t4, _, _⟩ := t
  obtain ⟨r1, r2, r3, r4, _, _⟩ := r
  have X := patch_axis baseGrid.left baseGrid.width refGrid.left refGrid.width px0 pw tx
    tp.left tp.width rp.left rp.width t1 t3 r1 r3 ⟨hsrc.1, hsrc.2.1⟩ dx hdx
  have Y := patch_axis baseGrid.top baseGrid.height refGrid.top refGrid.height py0 ph ty
    tp.top tp.height rp.top rp.height t2 t4 r2 r4 ⟨hsrc.2.2.1, hsrc.2.2.2⟩ dy hdy
  exact ⟨⟨X.1, Y.1, X.2.1, Y.2.1, X.2.2.1, Y.2.2.1, X.2.2.2.1, Y.2.2.2.1⟩, X.2.2.2.2, Y.2.2.2.2⟩

/-- an `r`-local stage over the frame rectangle `D` -/
def radiusStage {V : Type} (op : (Cell → Prop) → Img V → Img V) (r : Nat) (D : Region) : Stage V :=
  { op, dep := fun p q => (p.1 - q.1).natAbs ≤ r ∧ (p.2 - q.2).natAbs ≤ r, dom := fun q => Mem q.1 q.2 D }

/-- what an `r`-local stage needs for the cells of `T` lies in `T.pad r`, clipped to the frame -/
theorem need_radius_subset_pad {V : Type} (op : (Cell → Prop) → Img V → Img V) (r : Nat) (D T : Region)
    (q : Cell) (h : need [radiusStage op r D] (fun p => Mem p.1 p.2 T) q) :
    Mem q.1 q.2 (T.pad r) ∧ Mem q.1 q.2 D := by
  obtain ⟨hd, p, hp, hdep⟩ := h
  refine ⟨?_, hd⟩
  simp only [need] at hp
  rw [mem_pad]
  unfold Mem at hp
  simp only [radiusStage] at hdep
  omega

/-! ## a request equals a fresh load when ReferenceOnly frames are closed under dependencies -/

theorem flatMap_congr' {α β : Type} (l : List α) (f g : α → List β) (h : ∀ a ∈ l, f a = g a) :
    l.flatMap f = l.flatMap g := by
  induction l with
  | nil => rfl
  | cons a l ih =>
    simp only [List.flatMap_cons]
    rw [h a (by simp), ih (fun b hb => h b (by simp [hb]))]

/-- the two accumulators agree on the handles of `ReferenceOnly` frames -/
def AgreeRef (frames : List FrameInfo) (acc0 acc : List Handle) : Prop :=
  acc0.length = acc.length ∧
  ∀ i, i < acc.length → (frames[i]?).map FrameInfo.refOnly = some true → acc0[i]? = acc[i]?

theorem reset_load_eq (frames : List FrameInfo) (hc : RefClosed frames) (r0 r : Region) :
    ∀ (fs pre : List FrameInfo) (acc0 acc : List Handle), frames = pre ++ fs → pre.length = acc.length →
      AgreeRef frames acc0 acc →
      resetFrom r fs (loadFrom r0 fs acc0) acc = loadFrom r fs acc := by
  intro fs
  induction fs with
  | nil => intro pre acc0 acc _ _ _; simp [loadFrom, resetFrom]
  | cons f fs ih =>
    intro pre acc0 acc hfr hlen hag
    simp only [loadFrom, resetFrom]
    have hfn : frames[acc.length]? = some f := by
      rw [hfr, ← hlen]; simp
    have hh : (if f.refOnly = true then freshHandle f acc0.length r0 acc0 else freshHandle f acc.length r acc) =
        freshHandle f acc.length r acc := by
      by_cases hf : f.refOnly = true
      · simp only [hf, if_true]
        unfold freshHandle
        simp only [hf, if_true, hag.1]
        congr 2
        apply flatMap_congr'
        intro d hd
        obtain ⟨hlt, hro⟩ := hc acc.length f hfn hf d hd
        rw [hag.2 d hlt hro]
      · simp [hf]
    rw [hh]
    congr 1
    apply ih (pre ++ [f]) _ _ (by rw [hfr]; simp) (by simp [hlen])
    constructor
    · simp [hag.1]
    · intro i hi hro
      have hl0 := hag.1
      simp only [List.length_append, List.length_singleton] at hi
      by_cases hlt : i < acc.length
      · rw [List.getElem?_append_left (by omega), List.getElem?_append_left hlt]
        exact hag.2 i hlt hro
      · have hi' : i = acc.length := by omega
        subst hi'
        rw [hfn] at hro
        simp only [Option.map_some, Option.some.injEq] at hro
        rw [List.getElem?_append_right (by omega), List.getElem?_append_right (by omega)]
        simp only [hag.1, Nat.sub_self, List.getElem?_cons_zero, Option.some.injEq]
        rw [← hh]
        simp [hro, hag.1]

theorem history_equals_fresh (frames : List FrameInfo) (hc : RefClosed frames) (r0 r : Region) :
    request frames (initial frames r0) r = initial frames r := by
  unfold request initial
  exact reset_load_eq frames hc r0 r frames [] [] [] rfl rfl ⟨rfl, fun i hi => absurd hi (by simp)⟩

end Jxl.Region
