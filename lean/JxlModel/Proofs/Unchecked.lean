import JxlModel.Model.Unchecked
/-! Helper lemmas for C02 (refill, ANS index, squeeze access plans). Core Lean only. -/
namespace Jxl.Unchecked

/-! ## refill -/

theorem readBytes_le {rem : Nat} (h : rem ≤ 63) : readBytes rem ≤ 7 := by
  unfold readBytes W; omega

theorem or56_le {rem : Nat} (h : rem ≤ 63) : rem ||| 56 ≤ 63 := by
  have : rem ||| 56 < 2 ^ 6 := Nat.or_lt_two_pow (by omega) (by omega)
  omega

def Inv (N : Nat) (s : Bs) : Prop := s.rem ≤ 63 ∧ s.len ≤ N

theorem refillSlow_inv {N : Nat} (fuel : Nat) (s : Bs) (h : Inv N s) : Inv N (refillSlow fuel s) := by
  induction fuel generalizing s with
  | zero => exact h
  | succ n ih =>
    unfold refillSlow
    split
    · apply ih; unfold Inv at *; simp only; omega
    · exact h

theorem refill_inv {N : Nat} (hN : N < W) (s : Bs) (h : Inv N s) :
    Inv N (refill s).1 ∧ ∀ e, (refill s).2 = some e → e.Safe ∧ e.len ≤ N := by
  unfold refill
  split
  · rename_i h8
    have hr := readBytes_le h.1
    have ho := or56_le h.1
    obtain ⟨h1, h2⟩ := h
    refine ⟨⟨ho, ?_⟩, ?_⟩
    · simp only; unfold W at *; omega
    · intro e he
      injection he with he; subst he
      refine ⟨⟨?_, ?_, ?_⟩, ?_⟩ <;> dsimp only <;> omega
  · exact ⟨refillSlow_inv 8 s h, by intro e he; cases he⟩

theorem consume_inv {N : Nat} (s : Bs) (n : Nat) (h : Inv N s) : Inv N (consume s n).1 := by
  unfold consume; split
  · unfold Inv at *; simp only; omega
  · exact h

theorem skipTail_inv {N : Nat} (hN : N < W) (s : Bs) (r : Nat) (h : Inv N s) :
    Inv N (skipTail s r).1 ∧ ∀ e, (skipTail s r).2.2 = some e → e.Safe ∧ e.len ≤ N := by
  have := refill_inv hN s h
  unfold skipTail
  split
  · refine ⟨?_, this.2⟩
    have h3 := this.1
    unfold Inv at *; simp only; omega
  · exact ⟨this.1, this.2⟩

theorem skip_inv {N : Nat} (hN : N < W) (s : Bs) (n : Nat) (h : Inv N s) :
    Inv N (skip s n).1 ∧ ∀ e, (skip s n).2.2 = some e → e.Safe ∧ e.len ≤ N := by
  unfold skip
  split
  · refine ⟨?_, by intro e he; cases he⟩
    unfold Inv at *; simp only; omega
  · split
    · refine ⟨?_, by intro e he; cases he⟩
      unfold Inv at *; simp only; omega
    · apply skipTail_inv hN
      unfold Inv at *; simp only; omega

theorem step_inv {N : Nat} (hN : N < W) (s : Bs) (op : BsOp) (h : Inv N s) :
    Inv N (step s op).1 ∧ ∀ e ∈ (step s op).2.2, e.Safe ∧ e.len ≤ N := by
  have hr := refill_inv hN s h
  cases op with
  | peek n =>
    simp only [step]
    refine ⟨hr.1, fun e he => hr.2 e ?_⟩
    simpa [Option.mem_toList] using he
  | consume n =>
    simp only [step]
    exact ⟨consume_inv s n h, by intro e he; cases he⟩
  | read n =>
    simp only [step]
    refine ⟨consume_inv _ n hr.1, fun e he => hr.2 e ?_⟩
    simpa [Option.mem_toList] using he
  | skip n =>
    simp only [step]
    have := skip_inv hN s n h
    refine ⟨this.1, fun e he => this.2 e ?_⟩
    simpa [Option.mem_toList] using he
  | pad =>
    simp only [step]
    refine ⟨consume_inv _ _ hr.1, fun e he => hr.2 e ?_⟩
    simpa [Option.mem_toList] using he

theorem run_inv {N : Nat} (hN : N < W) (ops : List BsOp) (s : Bs) (h : Inv N s) :
    Inv N (run s ops).1 ∧ ∀ e ∈ (run s ops).2, e.Safe ∧ e.len ≤ N := by
  induction ops generalizing s with
  | nil => exact ⟨h, by intro e he; cases he⟩
  | cons op ops ih =>
    have h1 := step_inv hN s op h
    have h2 := ih (step s op).1 h1.1
    simp only [run]
    refine ⟨h2.1, fun e he => ?_⟩
    rcases List.mem_append.1 he with he | he
    · exact h1.2 e he
    · exact h2.2 e he


/-! ## ANS -/
theorem buckets_length {β : Type} (mk : Nat → Nat → β) (dist : List Nat) :
    (buckets mk dist).length = dist.length := by
  simp [buckets]

theorem ansIndex_lt (u2 state : Nat) (hu : u2 < 4) :
    ansIndex state (logBucketSize (logAlphabetSize u2)) < tableSize (logAlphabetSize u2) := by
  have hm : state &&& 0xfff < 2 ^ 12 := Nat.and_lt_two_pow _ (by decide)
  have : u2 = 0 ∨ u2 = 1 ∨ u2 = 2 ∨ u2 = 3 := by omega
  rcases this with rfl | rfl | rfl | rfl <;>
    simp [ansIndex, logBucketSize, logAlphabetSize, tableSize, Nat.shiftRight_eq_div_pow] <;>
    omega

/-! ## access plans -/
theorem rowPlanAvx2_bounds {w : Nat} (hw : 32 < w) :
    ∀ e ∈ rowPlanAvx2 w, e.1 + e.2.1 ≤ w ∧ 1 ≤ e.2.1 := by
  intro e he
  have hA : avgWidth w = (w + 1) / 2 := rfl
  simp only [rowPlanAvx2, List.mem_append, List.mem_flatMap, List.mem_map, List.mem_range,
    List.mem_cons, List.not_mem_nil, or_false] at he
  rcases he with ((((he | ⟨k, hk, he | he⟩) | he) | he) | ⟨k, hk, rfl⟩) | ⟨k, hk, rfl⟩
  · subst he; simp; omega
  · subst he; simp; omega
  · subst he; simp; omega
  · by_cases hc : (avgWidth w - 1) % 16 ≥ 8
    · rw [if_pos hc] at he
      simp at he; rcases he with rfl | rfl <;> (simp; omega)
    · rw [if_neg hc] at he; simp at he
  · by_cases hc : (avgWidth w - 1) % 8 ≠ 0 ∨ w % 2 = 0
    · rw [if_pos hc] at he
      simp at he; rcases he with rfl | rfl <;> (simp; omega)
    · rw [if_neg hc] at he; simp at he
  · simp; omega
  · simp; omega

theorem rowPlanSse41_bounds {w : Nat} (hw : 16 < w) :
    ∀ e ∈ rowPlanSse41 w, e.1 + e.2.1 ≤ w ∧ 1 ≤ e.2.1 := by
  intro e he
  have hA : avgWidth w = (w + 1) / 2 := rfl
  simp only [rowPlanSse41, List.mem_append, List.mem_flatMap, List.mem_map, List.mem_range,
    List.mem_cons, List.not_mem_nil, or_false] at he
  rcases he with (((he | ⟨k, hk, he | he⟩) | he) | ⟨k, hk, rfl⟩) | ⟨k, hk, rfl⟩
  · subst he; simp; omega
  · subst he; simp; omega
  · subst he; simp; omega
  · by_cases hc : (avgWidth w - 1) % 8 ≠ 0 ∨ w % 2 = 0
    · rw [if_pos hc] at he
      simp at he; rcases he with rfl | rfl <;> (simp; omega)
    · rw [if_neg hc] at he; simp at he
  · simp; omega
  · simp; omega

theorem plan_bounds (k : Kernel) (w h : Nat) :
    ∀ a ∈ plan k w h, a.offset + a.lanes ≤ w ∧ a.row < h ∧ 1 ≤ a.lanes := by
  intro a ha
  unfold plan at ha
  split at ha
  · cases ha
  · rename_i hw
    simp only [List.mem_flatMap, List.mem_map, List.mem_range] at ha
    obtain ⟨y8, hy8, dy, hdy, e, he, rfl⟩ := ha
    have hb : e.1 + e.2.1 ≤ w ∧ 1 ≤ e.2.1 := by
      cases k
      · exact rowPlanAvx2_bounds (by simpa [Kernel.minWidth] using hw) e he
      · exact rowPlanSse41_bounds (by simpa [Kernel.minWidth] using hw) e he
    simp only
    omega


theorem mem_tailWrites {w i : Nat} :
    i ∈ tailWrites w ↔ ∃ j, (j < 8 ∧ tailFrom w ≤ j) ∧
      (i = w / 2 * 2 - (8 - j) * 2 ∨ i = w / 2 * 2 - (8 - j) * 2 + 1) := by
  simp [tailWrites, List.mem_flatMap, List.mem_filter, List.mem_range]

theorem tailFrom_eq {w : Nat} (hw : w < W) : tailFrom w = (8 - (w / 2) % 8) % 8 := by
  unfold tailFrom W at *; omega

theorem mem_scratchWritesSse41 {w i : Nat} :
    i ∈ scratchWritesSse41 w ↔
      (∃ x8, x8 < (avgWidth w - 1) / 8 ∧ ∃ dx, dx < 8 ∧ (i = x8 * 16 + dx * 2 ∨ i = x8 * 16 + dx * 2 + 1)) ∨
      (((avgWidth w - 1) % 8 ≠ 0 ∨ w % 2 = 0) ∧ i ∈ tailWrites w) ∨
      (w % 2 = 1 ∧ i = w - 1) := by
  simp only [scratchWritesSse41, List.mem_append, List.mem_flatMap, List.mem_range, List.mem_cons,
    List.not_mem_nil, or_false]
  constructor
  · rintro ((h | h) | h)
    · exact Or.inl h
    · by_cases hc : (avgWidth w - 1) % 8 ≠ 0 ∨ w % 2 = 0
      · rw [if_pos hc] at h; exact Or.inr (Or.inl ⟨hc, h⟩)
      · rw [if_neg hc] at h; cases h
    · by_cases hc : w % 2 = 1
      · rw [if_pos hc] at h; simp at h; exact Or.inr (Or.inr ⟨hc, h⟩)
      · rw [if_neg hc] at h; cases h
  · rintro (h | ⟨hc, h⟩ | ⟨hc, h⟩)
    · exact Or.inl (Or.inl h)
    · exact Or.inl (Or.inr (by rw [if_pos hc]; exact h))
    · exact Or.inr (by rw [if_pos hc]; simp [h])

theorem scratchWritesSse41_lt {w : Nat} (hw : 16 < w) (hW : w < W) :
    ∀ i ∈ scratchWritesSse41 w, i < w := by
  intro i hi
  have hA : avgWidth w = (w + 1) / 2 := rfl
  rcases mem_scratchWritesSse41.1 hi with ⟨x8, hx, dx, hd, h | h⟩ | ⟨_, h⟩ | ⟨_, h⟩
  · omega
  · omega
  · obtain ⟨j, ⟨hj, hf⟩, h | h⟩ := mem_tailWrites.1 h <;> omega
  · omega

theorem scratchWritesSse41_cover {w : Nat} (hw : 16 < w) (hW : w < W) :
    ∀ i, i < w → i ∈ scratchWritesSse41 w := by
  intro i hi
  have hA : avgWidth w = (w + 1) / 2 := rfl
  have hT := tailFrom_eq hW
  rw [mem_scratchWritesSse41]
  by_cases h1 : i < (avgWidth w - 1) / 8 * 16
  · refine Or.inl ⟨i / 16, by omega, (i % 16) / 2, by omega, ?_⟩
    omega
  · by_cases h2 : i < w / 2 * 2
    · refine Or.inr (Or.inl ⟨by omega, mem_tailWrites.2 ⟨8 - (w / 2 * 2 - i + 1) / 2, ⟨by omega, by omega⟩, ?_⟩⟩)
      omega
    · exact Or.inr (Or.inr ⟨by omega, by omega⟩)

theorem mem_scratchWritesAvx2 {w i : Nat} :
    i ∈ scratchWritesAvx2 w ↔
      (∃ x16, x16 < (avgWidth w - 1) / 16 ∧
        ((∃ dx, dx < 8 ∧ (i = x16 * 32 + dx * 2 ∨ i = x16 * 32 + dx * 2 + 1)) ∨
         (∃ dx, dx < 8 ∧ (i = x16 * 32 + 16 + dx * 2 ∨ i = x16 * 32 + 16 + dx * 2 + 1)))) ∨
      ((avgWidth w - 1) % 16 ≥ 8 ∧ ∃ dx, dx < 8 ∧
        (i = (avgWidth w - 1) / 16 * 32 + dx * 2 ∨ i = (avgWidth w - 1) / 16 * 32 + dx * 2 + 1)) ∨
      (((avgWidth w - 1) % 8 ≠ 0 ∨ w % 2 = 0) ∧ i ∈ tailWrites w) ∨
      (w % 2 = 1 ∧ i = w - 1) := by
  simp only [scratchWritesAvx2, List.mem_append, List.mem_flatMap, List.mem_range, List.mem_cons,
    List.not_mem_nil, or_false]
  constructor
  · rintro (((h | h) | h) | h)
    · exact Or.inl h
    · by_cases hc : (avgWidth w - 1) % 16 ≥ 8
      · rw [if_pos hc] at h
        simp only [List.mem_flatMap, List.mem_range, List.mem_cons, List.not_mem_nil, or_false] at h
        exact Or.inr (Or.inl ⟨hc, h⟩)
      · rw [if_neg hc] at h; cases h
    · by_cases hc : (avgWidth w - 1) % 8 ≠ 0 ∨ w % 2 = 0
      · rw [if_pos hc] at h; exact Or.inr (Or.inr (Or.inl ⟨hc, h⟩))
      · rw [if_neg hc] at h; cases h
    · by_cases hc : w % 2 = 1
      · rw [if_pos hc] at h; simp at h; exact Or.inr (Or.inr (Or.inr ⟨hc, h⟩))
      · rw [if_neg hc] at h; cases h
  · rintro (h | ⟨hc, h⟩ | ⟨hc, h⟩ | ⟨hc, h⟩)
    · exact Or.inl (Or.inl (Or.inl h))
    · refine Or.inl (Or.inl (Or.inr ?_))
      rw [if_pos hc]
      simp only [List.mem_flatMap, List.mem_range, List.mem_cons, List.not_mem_nil, or_false]
      exact h
    · exact Or.inl (Or.inr (by rw [if_pos hc]; exact h))
    · exact Or.inr (by rw [if_pos hc]; simp [h])

theorem scratchWritesAvx2_lt {w : Nat} (hw : 32 < w) (hW : w < W) :
    ∀ i ∈ scratchWritesAvx2 w, i < w := by
  intro i hi
  have hA : avgWidth w = (w + 1) / 2 := rfl
  rcases mem_scratchWritesAvx2.1 hi with
    ⟨x, hx, ⟨dx, hd, h | h⟩ | ⟨dx, hd, h | h⟩⟩ | ⟨_, dx, hd, h | h⟩ | ⟨_, h⟩ | ⟨_, h⟩
  · omega
  · omega
  · omega
  · omega
  · omega
  · omega
  · obtain ⟨j, ⟨hj, hf⟩, h | h⟩ := mem_tailWrites.1 h <;> omega
  · omega

theorem scratchWritesAvx2_cover {w : Nat} (hw : 32 < w) (hW : w < W) :
    ∀ i, i < w → i ∈ scratchWritesAvx2 w := by
  intro i hi
  have hA : avgWidth w = (w + 1) / 2 := rfl
  have hT := tailFrom_eq hW
  rw [mem_scratchWritesAvx2]
  by_cases h1 : i < (avgWidth w - 1) / 16 * 32
  · refine Or.inl ⟨i / 32, by omega, ?_⟩
    by_cases h16 : i % 32 < 16
    · exact Or.inl ⟨(i % 32) / 2, by omega, by omega⟩
    · exact Or.inr ⟨(i % 32 - 16) / 2, by omega, by omega⟩
  · by_cases h1b : (avgWidth w - 1) % 16 ≥ 8 ∧ i < (avgWidth w - 1) / 16 * 32 + 16
    · exact Or.inr (Or.inl ⟨h1b.1, (i - (avgWidth w - 1) / 16 * 32) / 2, by omega, by omega⟩)
    · by_cases h2 : i < w / 2 * 2
      · refine Or.inr (Or.inr (Or.inl ⟨by omega,
          mem_tailWrites.2 ⟨8 - (w / 2 * 2 - i + 1) / 2, ⟨by omega, by omega⟩, ?_⟩⟩))
        omega
      · exact Or.inr (Or.inr (Or.inr ⟨by omega, by omega⟩))

theorem writtenBeforeRead_of_cover {w : Nat} {ws : List Nat} (hlt : ∀ i ∈ ws, i < w)
    (hc : ∀ i, i < w → i ∈ ws) :
    WrittenBeforeRead w (ws.map ScratchEv.write ++ (List.range w).map ScratchEv.read) := by
  constructor
  · intro i hi
    simp only [List.mem_append, List.mem_map, List.mem_range] at hi
    rcases hi with (⟨j, hj, h⟩ | ⟨j, _, h⟩) | (⟨j, _, h⟩ | ⟨j, hj, h⟩)
    · injection h with h; subst h; exact hlt _ hj
    · cases h
    · cases h
    · injection h with h; subst h; exact hj
  · intro pre post i h
    rcases List.append_eq_append_iff.1 h with ⟨a', h1, h2⟩ | ⟨c', h1, h2⟩
    · -- pre = writes ++ a'
      have hi : i < w := by
        have : ScratchEv.read i ∈ (List.range w).map ScratchEv.read := by
          rw [h2]; simp
        simp only [List.mem_map, List.mem_range] at this
        obtain ⟨j, hj, hh⟩ := this
        injection hh with hh; subst hh; exact hj
      rw [h1]
      exact List.mem_append_left _ (List.mem_map.2 ⟨i, hc i hi, rfl⟩)
    · -- writes = pre ++ c', c' ++ reads = read i :: post
      cases c' with
      | nil =>
        simp only [List.append_nil] at h1
        rw [← h1]
        have hi : i < w := by
          have : ScratchEv.read i ∈ (List.range w).map ScratchEv.read := by
            simp only [List.nil_append] at h2; rw [← h2]; simp
          simp only [List.mem_map, List.mem_range] at this
          obtain ⟨j, hj, hh⟩ := this
          injection hh with hh; subst hh; exact hj
        exact List.mem_map.2 ⟨i, hc i hi, rfl⟩
      | cons x xs =>
        simp only [List.cons_append] at h2
        injection h2 with hx _
        have : ScratchEv.read i ∈ ws.map ScratchEv.write := by
          rw [h1, hx]; simp
        simp only [List.mem_map] at this
        obtain ⟨j, _, hh⟩ := this
        cases hh

end Jxl.Unchecked
