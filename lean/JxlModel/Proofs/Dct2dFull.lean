import JxlModel.Proofs.Dct2d
import JxlModel.Proofs.DctFwd
/-!
# `dct_2d` with all its special cases, both directions, over ℝ, equals the separable definition;
# LF injection and whole DCT-family varblocks
-/
open Finset Real

set_option linter.unusedSimpArgs false

namespace Jxl.Dct

/-- the 1-D definition in either direction, cosine-sum form -/
noncomputable def D1 (dir : Dir) (N : ℕ) (c : ℕ → ℝ) (j : ℕ) : ℝ :=
  match dir with
  | .inverse => S N c (theta N j)
  | .forward => F N c j

/-- the 2-D definition: `D1` along every row, then along every column -/
noncomputable def D2 (dir : Dir) (g : Grid ℝ) (x y : ℕ) : ℝ :=
  D1 dir g.h (fun v => D1 dir g.w (fun u => g.rd u v) x) y

theorem D1_congr (dir : Dir) {N : ℕ} {c c' : ℕ → ℝ} (j : ℕ) (h : ∀ i < N, c i = c' i) :
    D1 dir N c j = D1 dir N c' j := by
  cases dir
  · exact F_congr j h
  · exact S_congr _ h

theorem dct1_def (dir : Dir) (k : ℕ) (v : Array ℝ) (j : ℕ) (hj : j < 2 ^ k) :
    rd (dct1 dir (2 ^ k) v) j = D1 dir (2 ^ k) (rd v) j := by
  unfold dct1 D1
  cases dir
  · simp only [Nat.log2_two_pow]; exact fdct_computes k v j hj
  · simp only [Nat.log2_two_pow]; exact idct_computes k v j hj

theorem S_linear (N : ℕ) (p q : ℕ → ℝ) (a b : ℝ) (θ : ℝ) :
    S N (fun i => a * p i + b * q i) θ = a * S N p θ + b * S N q θ := by
  unfold S
  rw [Finset.mul_sum, Finset.mul_sum, ← Finset.sum_add_distrib]
  exact Finset.sum_congr rfl fun i _ => by ring

theorem F_linear (N : ℕ) (p q : ℕ → ℝ) (a b : ℝ) (n : ℕ) :
    F N (fun i => a * p i + b * q i) n = a * F N p n + b * F N q n := by
  unfold F
  have : (∑ j ∈ range N, (a * p j + b * q j) * Real.cos (n * theta N j)) =
      a * (∑ j ∈ range N, p j * Real.cos (n * theta N j)) +
        b * ∑ j ∈ range N, q j * Real.cos (n * theta N j) := by
    rw [Finset.mul_sum, Finset.mul_sum, ← Finset.sum_add_distrib]
    exact Finset.sum_congr rfl fun i _ => by ring
  rw [this]; ring

theorem D1_linear (dir : Dir) (N : ℕ) (p q : ℕ → ℝ) (a b : ℝ) (j : ℕ) :
    D1 dir N (fun i => a * p i + b * q i) j = a * D1 dir N p j + b * D1 dir N q j := by
  cases dir
  · exact F_linear N p q a b j
  · exact S_linear N p q a b _

/-- the `mul` of `dct_2d`: `0.5` forward, `1.0` inverse -/
noncomputable def mulR (dir : Dir) : ℝ :=
  match dir with
  | .forward => 1 / 2
  | .inverse => 1

theorem D1_one (dir : Dir) (c : ℕ → ℝ) : D1 dir 1 c 0 = c 0 := by
  cases dir
  · simp [D1, F, wt]
  · simp [D1, S, wt]

theorem D1_two (dir : Dir) (c : ℕ → ℝ) :
    D1 dir 2 c 0 = (c 0 + c 1) * mulR dir ∧ D1 dir 2 c 1 = (c 0 - c 1) * mulR dir := by
  have hc : ∀ i < 2, rd #[c 0, c 1] i = c i := by
    intro i hi
    have : i = 0 ∨ i = 1 := by omega
    rcases this with rfl | rfl
    · exact (rd_lit2 _ _).1
    · exact (rd_lit2 _ _).2
  cases dir
  · have h0 := fdct2_computes #[c 0, c 1] 0 (by omega)
    have h1 := fdct2_computes #[c 0, c 1] 1 (by omega)
    rw [F_congr _ hc] at h0 h1
    simp only [D1, mulR]
    rw [← h0, ← h1]
    simp only [fdct2, (rd_lit2 _ _).1, (rd_lit2 _ _).2, s_add, s_sub, s_mul, s_half]
    exact ⟨trivial, trivial⟩
  · have h0 := idct2_computes #[c 0, c 1] 0 (by omega)
    have h1 := idct2_computes #[c 0, c 1] 1 (by omega)
    rw [S_congr _ hc] at h0 h1
    simp only [D1, mulR]
    rw [← h0, ← h1]
    simp only [idct2, (rd_lit2 _ _).1, (rd_lit2 _ _).2, s_add, s_sub, mul_one]
    exact ⟨trivial, trivial⟩

theorem rd_row (g : Grid ℝ) (y u : ℕ) (hu : u < g.w) : rd (g.row y) u = g.rd u y := by
  unfold Grid.row; rw [Dct.rd_tab _ _ _ hu]

theorem rd_col (g : Grid ℝ) (x v : ℕ) (hv : v < g.h) : rd (g.col x) v = g.rd x v := by
  unfold Grid.col; rw [Dct.rd_tab _ _ _ hv]

/-- rows-then-columns with the recursive 1-D transforms is the 2-D definition -/
theorem dct2dSep_def (dir : Dir) (g : Grid ℝ) (a b : ℕ) (hw : g.w = 2 ^ a) (hh : g.h = 2 ^ b)
    (x y : ℕ) (hx : x < g.w) (hy : y < g.h) :
    (dct2dSep dir g).rd x y = D2 dir g x y := by
  unfold dct2dSep D2
  rw [colPass_rd _ _ _ _ (by exact hx) (by exact hy)]
  change rd (dct1 dir g.h ((rowPass dir g).col x)) y = _
  rw [hh, dct1_def dir b _ y (by omega)]
  apply D1_congr
  intro v hv
  have hv' : v < g.h := by omega
  rw [rd_col _ _ _ (by exact hv'), rowPass_rd _ _ _ _ hx hv', hw, dct1_def dir a _ x (by omega)]
  apply D1_congr
  intro u hu
  rw [rd_row _ _ _ (by omega)]

theorem mul_model (dir : Dir) : (dirMul dir : ℝ) = mulR dir := by
  cases dir <;> rfl

/-- **`dct_2d` equals the separable definition on every power-of-two shape, both directions.** -/
theorem dct2d_def (dir : Dir) (g : Grid ℝ) (a b : ℕ) (hw : g.w = 2 ^ a) (hh : g.h = 2 ^ b)
    (x y : ℕ) (hx : x < g.w) (hy : y < g.h) :
    (dct2d dir g).rd x y = D2 dir g x y := by
  -- shapes
  rcases Nat.lt_or_ge a 2 with ha | ha
  · have ha' : a = 0 ∨ a = 1 := by omega
    rcases ha' with rfl | rfl
    · -- w = 1
      have hw1 : g.w = 1 := by simpa using hw
      obtain rfl : x = 0 := by omega
      rcases Nat.lt_or_ge b 2 with hb | hb
      · have hb' : b = 0 ∨ b = 1 := by omega
        rcases hb' with rfl | rfl
        · -- 1 × 1
          have hh1 : g.h = 1 := by simpa using hh
          obtain rfl : y = 0 := by omega
          unfold dct2d D2
          simp only [hw1, hh1, Nat.mul_one, Nat.le_refl, if_true, D1_one]
        · -- 1 × 2
          have hh2 : g.h = 2 := by simpa using hh
          unfold dct2d D2
          simp only [hw1, hh2, mul_model]
          norm_num
          rw [Grid.rd_tab _ _ _ _ _ (by omega) (by omega)]
          have hy2 : y = 0 ∨ y = 1 := by omega
          have hD := D1_two dir (fun v => g.rd 0 v)
          simp only [D1_one]
          rcases hy2 with rfl | rfl
          · simp only [if_true, s_add, s_mul]; exact hD.1.symm
          · simp only [one_ne_zero, if_false, s_sub, s_mul]; exact hD.2.symm
      · -- 1 × h, h ≥ 4
        have h4 : 4 ≤ g.h := by
          rw [hh]; calc 4 = 2 ^ 2 := rfl
            _ ≤ 2 ^ b := Nat.pow_le_pow_right (by omega) hb
        have hd : dct2d dir g = colPass dir g := by
          unfold dct2d
          have h1 : ¬ g.w * g.h ≤ 1 := by rw [hw1]; omega
          simp only [h1, if_false]
          split_ifs <;> first | rfl | omega
        rw [hd, colPass_rd _ _ _ _ (by omega) hy, hh, dct1_def dir b _ y (by omega)]
        unfold D2
        rw [hh]
        apply D1_congr
        intro v hv
        rw [rd_col _ _ _ (by omega), hw1, D1_one]
    · -- w = 2
      have hw2 : g.w = 2 := by simpa using hw
      rcases Nat.lt_or_ge b 2 with hb | hb
      · have hb' : b = 0 ∨ b = 1 := by omega
        rcases hb' with rfl | rfl
        · -- 2 × 1
          have hh1 : g.h = 1 := by simpa using hh
          obtain rfl : y = 0 := by omega
          unfold dct2d D2
          simp only [hw2, hh1, mul_model]
          norm_num
          rw [Grid.rd_tab _ _ _ _ _ (by omega) (by omega), D1_one]
          have hD := D1_two dir (fun u => g.rd u 0)
          have hx2 : x = 0 ∨ x = 1 := by omega
          rcases hx2 with rfl | rfl
          · simp only [if_true, s_add, s_mul]; exact hD.1.symm
          · simp only [one_ne_zero, if_false, s_sub, s_mul]; exact hD.2.symm
        · -- 2 × 2
          have hh2 : g.h = 2 := by simpa using hh
          unfold dct2d D2
          simp only [hw2, hh2, mul_model]
          norm_num
          rw [Grid.rd_tab _ _ _ _ _ (by omega) (by omega)]
          have hD := D1_two dir (fun v => D1 dir 2 (fun u => g.rd u v) x)
          have hr0 := D1_two dir (fun u => g.rd u 0)
          have hr1 := D1_two dir (fun u => g.rd u 1)
          have hx2 : x = 0 ∨ x = 1 := by omega
          have hy2 : y = 0 ∨ y = 1 := by omega
          rcases hx2 with rfl | rfl <;> rcases hy2 with rfl | rfl
          · rw [hD.1, hr0.1, hr1.1]
            simp only [one_ne_zero, and_self, and_true, and_false, false_and, true_and, if_true,
              if_false, s_add, s_sub, s_mul]
            ring
          · rw [hD.2, hr0.1, hr1.1]
            simp only [one_ne_zero, and_self, and_true, and_false, false_and, true_and, if_true,
              if_false, s_add, s_sub, s_mul]
            ring
          · rw [hD.1, hr0.2, hr1.2]
            simp only [one_ne_zero, and_self, and_true, and_false, false_and, true_and, if_true,
              if_false, s_add, s_sub, s_mul]
            ring
          · rw [hD.2, hr0.2, hr1.2]
            simp only [one_ne_zero, and_self, and_true, and_false, false_and, true_and, if_true,
              if_false, s_add, s_sub, s_mul]
            ring
      · -- 2 × h, h ≥ 4: column butterfly then column transforms
        have h4 : 4 ≤ g.h := by
          rw [hh]; calc 4 = 2 ^ 2 := rfl
            _ ≤ 2 ^ b := Nat.pow_le_pow_right (by omega) hb
        unfold dct2d D2
        have h1 : ¬ g.w * g.h ≤ 1 := by rw [hw2]; omega
        simp only [h1, if_false, hw2, mul_model]
        have c1 : ¬ g.h = 1 := by omega
        have c2 : ¬ g.h = 2 := by omega
        simp only [c1, c2, and_false, if_false, and_true, if_true]
        norm_num
        have h1' : ¬ 2 * g.h ≤ 1 := by omega
        rw [if_neg h1']
        rw [colPass_rd _ _ _ _ (by show x < 2; omega) (by show y < g.h; exact hy)]
        change rd (dct1 dir g.h _) y = _
        rw [hh, dct1_def dir b _ y (by omega)]
        apply D1_congr
        intro v hv
        rw [rd_col _ _ _ (by show v < 2 ^ b; exact hv),
          Grid.rd_tab _ _ _ _ _ (by omega) (by omega)]
        have hD := D1_two dir (fun u => g.rd u v)
        have hx2 : x = 0 ∨ x = 1 := by omega
        rcases hx2 with rfl | rfl
        · simp only [if_true, s_add, s_mul]; exact hD.1.symm
        · simp only [one_ne_zero, if_false, s_sub, s_mul]; exact hD.2.symm
  · -- w ≥ 4
    have w4 : 4 ≤ g.w := by
      rw [hw]; calc 4 = 2 ^ 2 := rfl
        _ ≤ 2 ^ a := Nat.pow_le_pow_right (by omega) ha
    rcases Nat.lt_or_ge b 2 with hb | hb
    · have hb' : b = 0 ∨ b = 1 := by omega
      rcases hb' with rfl | rfl
      · -- w × 1
        have hh1 : g.h = 1 := by simpa using hh
        obtain rfl : y = 0 := by omega
        have hd : dct2d dir g = rowPass dir g := by
          unfold dct2d
          have h1 : ¬ g.w * g.h ≤ 1 := by rw [hh1]; omega
          simp only [h1, if_false]
          split_ifs <;> first | rfl | omega
        rw [hd, rowPass_rd _ _ _ _ hx (by omega), hw, dct1_def dir a _ x (by omega)]
        unfold D2
        rw [hh1, D1_one, hw]
        apply D1_congr
        intro u hu
        rw [rd_row _ _ _ (by omega)]
      · -- w × 2: row butterfly then row transforms (uses linearity)
        have hh2 : g.h = 2 := by simpa using hh
        unfold dct2d D2
        have h1 : ¬ g.w * g.h ≤ 1 := by rw [hh2]; omega
        simp only [h1, if_false, hh2, mul_model]
        have c1 : ¬ g.w = 1 := by omega
        have c2 : ¬ g.w = 2 := by omega
        simp only [c1, c2, false_and, if_false, and_false]
        norm_num
        have h1' : ¬ g.w * 2 ≤ 1 := by omega
        rw [if_neg h1']
        rw [rowPass_rd _ _ _ _ (by show x < g.w; exact hx) (by show y < 2; omega)]
        change rd (dct1 dir g.w _) x = _
        rw [hw, dct1_def dir a _ x (by omega)]
        have hD := D1_two dir (fun v => D1 dir (2 ^ a) (fun u => g.rd u v) x)
        have hy2 : y = 0 ∨ y = 1 := by omega
        rcases hy2 with rfl | rfl
        · rw [hD.1]
          have := D1_linear dir (2 ^ a) (fun u => g.rd u 0) (fun u => g.rd u 1) (mulR dir) (mulR dir) x
          rw [add_mul, mul_comm _ (mulR dir), mul_comm _ (mulR dir), ← this]
          apply D1_congr
          intro u hu
          rw [rd_row _ _ _ (by show u < 2 ^ a; exact hu),
            Grid.rd_tab _ _ _ _ _ (by omega) (by omega)]
          simp only [if_true, s_add, s_mul]; ring
        · rw [hD.2]
          have := D1_linear dir (2 ^ a) (fun u => g.rd u 0) (fun u => g.rd u 1) (mulR dir) (-mulR dir) x
          have e : (D1 dir (2 ^ a) (fun u => g.rd u 0) x - D1 dir (2 ^ a) (fun u => g.rd u 1) x) * mulR dir
              = mulR dir * D1 dir (2 ^ a) (fun u => g.rd u 0) x +
                -mulR dir * D1 dir (2 ^ a) (fun u => g.rd u 1) x := by ring
          rw [e, ← this]
          apply D1_congr
          intro u hu
          rw [rd_row _ _ _ (by show u < 2 ^ a; exact hu),
            Grid.rd_tab _ _ _ _ _ (by omega) (by omega)]
          simp only [one_ne_zero, if_false, s_sub, s_mul]; ring
    · -- general path
      rw [dct2d_separable_pow2 dir g a b ha hb hw hh x y hx hy]
      exact dct2dSep_def dir g a b hw hh x y hx hy

end Jxl.Dct
