import JxlModel.Model.Region
import JxlModel.Model.Locality
/-!
# Lemmas about the region arithmetic (`Model/Region.lean`)

Core tactics only (`omega`, `simp`); nonlinear facts about `/` by a positive divisor come from
`Int.ediv_*` lemmas, everything else is linear once the factors are literals.
-/
namespace Jxl.Region
open Region

/-! ## intersection -/

/-- `Region::intersection` is the box intersection, with `Region.empty` for an empty result. -/
theorem inter_norm (a b : Region) :
    a.intersection b =
      if a.width = 0 ∨ b.width = 0 ∨ a.height = 0 ∨ b.height = 0 ∨
         min a.right b.right ≤ max a.left b.left ∨ min a.bottom b.bottom ≤ max a.top b.top then Region.empty
      else ⟨max a.left b.left, max a.top b.top,
            (min a.right b.right - max a.left b.left).toNat, (min a.bottom b.bottom - max a.top b.top).toNat⟩ := by
  unfold intersection right bottom
  by_cases h0 : a.width = 0 ∨ b.width = 0 ∨ a.height = 0 ∨ b.height = 0
  · have : a.width = 0 ∨ b.width = 0 ∨ a.height = 0 ∨ b.height = 0 ∨
         min (a.left + ↑a.width) (b.left + ↑b.width) ≤ max a.left b.left ∨ min (a.top + ↑a.height) (b.top + ↑b.height) ≤ max a.top b.top := by
      omega
    simp only [h0, this, if_true]
  · simp only [h0, if_false]
    by_cases hx : a.left > b.left <;> by_cases hy : a.top > b.top <;> simp only [hx, hy, if_true, if_false] <;>
    split <;> split <;> first | rfl | (simp only [Region.mk.injEq, Region.empty]; omega) | omega

theorem mem_intersection (a b : Region) (x y : Int) :
    Mem x y (a.intersection b) ↔ Mem x y a ∧ Mem x y b := by
  rw [inter_norm]
  unfold Mem right bottom
  split
  · simp only [Region.empty]; omega
  · simp only []; omega

theorem inter_comm (a b : Region) : a.intersection b = b.intersection a := by
  rw [inter_norm, inter_norm]
  unfold right bottom
  split <;> split <;> first | rfl | (simp only [Region.mk.injEq, Region.empty]; omega) | omega

/-- empty regions are represented by `Region.empty` -/
def Normal (r : Region) : Prop := r.isEmpty = true → r = Region.empty

theorem inter_normal (a b : Region) : Normal (a.intersection b) := by
  rw [inter_norm]
  unfold Normal right bottom
  split
  · intro _; rfl
  · simp only [isEmpty, Bool.or_eq_true, beq_iff_eq]; omega

theorem eq_of_mem_iff {a b : Region} (ha : Normal a) (hb : Normal b)
    (h : ∀ x y, Mem x y a ↔ Mem x y b) : a = b := by
  unfold Normal at ha hb
  unfold Mem at h
  by_cases ea : a.isEmpty = true
  · by_cases eb : b.isEmpty = true
    · rw [ha ea, hb eb]
    · exfalso
      simp only [isEmpty, Bool.or_eq_true, beq_iff_eq] at ea eb
      have := (h b.left b.top).2 (by omega)
      omega
  · by_cases eb : b.isEmpty = true
    · exfalso
      simp only [isEmpty, Bool.or_eq_true, beq_iff_eq] at ea eb
      have := (h a.left a.top).1 (by omega)
      omega
    · simp only [isEmpty, Bool.or_eq_true, beq_iff_eq] at ea eb
      have h1 := (h a.left a.top).1 (by omega)
      have h2 := (h b.left b.top).2 (by omega)
      have h3 := (h (a.left + a.width - 1) (a.top + a.height - 1)).1 (by omega)
      have h4 := (h (b.left + b.width - 1) (b.top + b.height - 1)).2 (by omega)
      cases a; cases b
      simp only [Region.mk.injEq] at *
      omega

theorem inter_assoc (a b c : Region) :
    (a.intersection b).intersection c = a.intersection (b.intersection c) := by
  apply eq_of_mem_iff (inter_normal _ _) (inter_normal _ _)
  intro x y
  simp only [mem_intersection]
  exact and_assoc

theorem inter_idem (a : Region) (h : a.isEmpty = false) : a.intersection a = a := by
  rw [inter_norm]
  unfold right bottom
  simp only [isEmpty, Bool.or_eq_false_iff, beq_eq_false_iff_ne] at h
  split
  · omega
  · cases a; simp only [Region.mk.injEq]; omega

/-! ## box order, membership -/

theorem Within.subset {a b : Region} (h : a.Within b) : Region.Subset a b := by
  unfold Within at h; unfold Region.Subset Mem; intro x y; omega

theorem Within.refl (a : Region) : a.Within a := by unfold Within; omega

theorem Within.trans {a b c : Region} (h1 : a.Within b) (h2 : b.Within c) : a.Within c := by
  unfold Within at *; omega

theorem within_of_subset {a b : Region} (hne : a.isEmpty = false) (h : Region.Subset a b) : a.Within b := by
  unfold Region.Subset Mem at h
  simp only [isEmpty, Bool.or_eq_false_iff, beq_eq_false_iff_ne] at hne
  have h1 := h a.left a.top (by omega)
  have h2 := h (a.left + a.width - 1) (a.top + a.height - 1) (by omega)
  unfold Within; omega

theorem contains_iff (r t : Region) :
    r.contains t = true ↔ (t.isEmpty = true ∨ t.Within r) := by
  unfold contains Within right bottom
  by_cases h : t.isEmpty = true
  · simp [h]
  · simp [h]
    omega

theorem mem_pad (r : Region) (n : Nat) (x y : Int) :
    Mem x y (r.pad n) ↔
      r.left - n ≤ x ∧ x < r.left + r.width + n ∧ r.top - n ≤ y ∧ y < r.top + r.height + n := by
  unfold Mem pad; simp only []; omega

theorem pad_within_mono {a b : Region} (n : Nat) (h : a.Within b) : (a.pad n).Within (b.pad n) := by
  unfold Within pad at *; simp only []; omega

theorem within_pad (r : Region) (n : Nat) : r.Within (r.pad n) := by
  unfold Within pad; simp only []; omega

theorem translate_within_mono {a b : Region} (x y : Int) (h : a.Within b) :
    (a.translate x y).Within (b.translate x y) := by
  unfold Within translate at *; simp only []; omega

theorem mem_translate (r : Region) (dx dy x y : Int) :
    Mem x y (r.translate dx dy) ↔ Mem (x - dx) (y - dy) r := by
  unfold Mem translate; simp only []; omega

/-! ## one axis: downsample / upsample / align -/

/-- membership in a span -/
def inAx (x : Int) (s : Int × Nat) : Prop := s.1 ≤ x ∧ x < s.1 + s.2

theorem downAx_lo (l : Int) (w d : Nat) : (downAx l w d).1 = l / (d : Int) := rfl

/-- right end of a downsampled span is the ceiling of the right end -/
theorem downAx_hi (l : Int) (w d : Nat) (hd : 0 < d) :
    (downAx l w d).1 + ((downAx l w d).2 : Int) = (l + w + d - 1) / (d : Int) := by
  unfold downAx
  simp only []
  have hD : (0 : Int) < (d : Int) := by omega
  have h1 : l / (d:Int) * (d:Int) ≤ l := Int.ediv_mul_le l (by omega)
  have h2 : l < (l / (d:Int) + 1) * (d : Int) := Int.lt_ediv_add_one_mul_self l hD
  have hr : ((l - l / (d:Int) * (d:Int)).natAbs : Int) = l - l / (d:Int) * (d:Int) := by omega
  rw [Int.natCast_ediv]
  push_cast
  rw [hr]
  have : l + ↑w + ↑d - 1 = (↑w + (l - l / ↑d * ↑d) + (↑d - 1)) + (l / (d:Int)) * (d:Int) := by omega
  rw [this, Int.add_mul_ediv_right _ _ (by omega)]
  have : ((d - 1 : Nat) : Int) = (d:Int) - 1 := by omega
  rw [this]; omega

theorem down_mem (l : Int) (w d : Nat) (hd : 0 < d) (x : Int) (h : inAx x (l, w)) :
    inAx (x / (d:Int)) (downAx l w d) := by
  unfold inAx at *
  rw [downAx_hi l w d hd, downAx_lo]
  simp only [] at h
  have hD : (0 : Int) < (d : Int) := by omega
  constructor
  · exact Int.ediv_le_ediv hD h.1
  · have : x / (d:Int) ≤ (l + w - 1) / (d:Int) := Int.ediv_le_ediv hD (by omega)
    have h2 : (l + ↑w + ↑d - 1) / (d:Int) = (l + w - 1) / (d:Int) + 1 := by
      have : l + ↑w + ↑d - 1 = (l + w - 1) + 1 * (d:Int) := by omega
      rw [this, Int.add_mul_ediv_right _ _ (by omega)]
    omega

theorem downAx_one (l : Int) (w : Nat) : downAx l w 1 = (l, w) := by
  unfold downAx; simp

theorem downAx_mono (l l' : Int) (w w' d : Nat) (hd : 0 < d) (h1 : l' ≤ l) (h2 : l + w ≤ l' + w') :
    (downAx l' w' d).1 ≤ (downAx l w d).1 ∧
    (downAx l w d).1 + ((downAx l w d).2 : Int) ≤ (downAx l' w' d).1 + ((downAx l' w' d).2 : Int) := by
  rw [downAx_hi l w d hd, downAx_hi l' w' d hd, downAx_lo, downAx_lo]
  have hD : (0 : Int) < (d : Int) := by omega
  exact ⟨Int.ediv_le_ediv hD h1, Int.ediv_le_ediv hD (by omega)⟩

/-- one axis of `upsample` -/
def upAx (l : Int) (w : Nat) (d : Nat) : Int × Nat := (l * (d : Int), w * d)

theorem up_mem (l : Int) (w d : Nat) (hd : 0 < d) (x : Int) :
    inAx x (upAx l w d) ↔ inAx (x / (d : Int)) (l, w) := by
  unfold inAx upAx
  simp only []
  have hD : (0 : Int) < (d : Int) := by omega
  have h1 : x / (d:Int) * (d:Int) ≤ x := Int.ediv_mul_le x (by omega)
  have h2 : x < (x / (d:Int) + 1) * (d : Int) := Int.lt_ediv_add_one_mul_self x hD
  push_cast
  constructor
  · rintro ⟨a, b⟩
    constructor
    · exact Int.le_ediv_of_mul_le hD a
    · have : x < (l + w) * (d:Int) := by rw [Int.add_mul]; exact b
      exact Int.ediv_lt_of_lt_mul hD this
  · rintro ⟨a, b⟩
    constructor
    · have := Int.mul_le_mul_of_nonneg_right a (Int.le_of_lt hD)
      omega
    · have : (x / (d:Int) + 1) * (d:Int) ≤ (l + w) * (d:Int) :=
        Int.mul_le_mul_of_nonneg_right (by omega) (Int.le_of_lt hD)
      have e1 : (l + (w:Int)) * (d:Int) = l * (d:Int) + (w:Int) * (d:Int) := Int.add_mul _ _ _
      have e2 : (x / (d:Int) + 1) * (d:Int) = x / (d:Int) * (d:Int) + (d:Int) := by
        rw [Int.add_mul, Int.one_mul]
      omega

theorem alignAx_eq (l : Int) (w g : Nat) :
    alignAx l w g = upAx (downAx l w g).1 (downAx l w g).2 g := rfl

theorem down_up_mem (l : Int) (w d : Nat) (hd : 0 < d) (x : Int) (h : inAx x (l, w)) :
    inAx x (upAx (downAx l w d).1 (downAx l w d).2 d) :=
  (up_mem _ _ d hd x).2 (down_mem l w d hd x h)


/-! ## Region-level forms -/

theorem mem_iff_ax (r : Region) (x y : Int) :
    Mem x y r ↔ inAx x (r.left, r.width) ∧ inAx y (r.top, r.height) := by
  unfold Mem inAx; simp only []; omega

theorem two_pow_pos (k : Nat) : 0 < 2 ^ k := Nat.pow_pos (by decide)

theorem downsample_ax (r : Region) (k : Nat) :
    r.downsample k =
      ⟨(downAx r.left r.width (2 ^ k)).1, (downAx r.top r.height (2 ^ k)).1,
       (downAx r.left r.width (2 ^ k)).2, (downAx r.top r.height (2 ^ k)).2⟩ := by
  unfold downsample
  split
  · next h => subst h; simp [downAx_one]
  · rfl

theorem upsample_ax (r : Region) (k : Nat) :
    r.upsample k =
      ⟨(upAx r.left r.width (2 ^ k)).1, (upAx r.top r.height (2 ^ k)).1,
       (upAx r.left r.width (2 ^ k)).2, (upAx r.top r.height (2 ^ k)).2⟩ := by
  unfold upsample upAx
  simp only [Int.natCast_pow]
  rfl

theorem mem_downsample {r : Region} {x y : Int} (k : Nat) (h : Mem x y r) :
    Mem (x / 2 ^ k) (y / 2 ^ k) (r.downsample k) := by
  rw [downsample_ax, mem_iff_ax]
  rw [mem_iff_ax] at h
  have hx := down_mem r.left r.width (2 ^ k) (two_pow_pos k) x h.1
  have hy := down_mem r.top r.height (2 ^ k) (two_pow_pos k) y h.2
  simp only [Int.natCast_pow] at hx hy
  exact ⟨hx, hy⟩

theorem mem_upsample (r : Region) (k : Nat) (x y : Int) :
    Mem x y (r.upsample k) ↔ Mem (x / 2 ^ k) (y / 2 ^ k) r := by
  rw [upsample_ax, mem_iff_ax, mem_iff_ax]
  have hx := up_mem r.left r.width (2 ^ k) (two_pow_pos k) x
  have hy := up_mem r.top r.height (2 ^ k) (two_pow_pos k) y
  simp only [Int.natCast_pow] at hx hy
  exact and_congr hx hy

theorem downsample_within_mono {a b : Region} (k : Nat) (h : a.Within b) :
    (a.downsample k).Within (b.downsample k) := by
  rw [downsample_ax, downsample_ax]
  unfold Within at *
  have hx := downAx_mono a.left b.left a.width b.width (2 ^ k) (two_pow_pos k) h.1 h.2.1
  have hy := downAx_mono a.top b.top a.height b.height (2 ^ k) (two_pow_pos k) h.2.2.1 h.2.2.2
  exact ⟨hx.1, hx.2, hy.1, hy.2⟩

/-! ## abstract locality -/

theorem local_pipeline {V : Type} (stages : List (Stage V × (Cell → Prop))) (R : Cell → Prop)
    (hloc : ∀ sw ∈ stages, sw.1.Local) (hwin : Sufficient stages R) :
    ∀ (f g : Img V), (∀ q, need (stages.map (·.1)) R q → f q = g q) →
      ∀ p, R p → runWin stages f p = runFull (stages.map (·.1)) g p := by
  induction stages with
  | nil =>
    intro f g hfg p hp
    exact hfg p hp
  | cons sw ss ih =>
    obtain ⟨s, W⟩ := sw
    intro f g hfg p hp
    simp only [runWin, List.map_cons, runFull]
    have hl : s.Local := hloc (s, W) (by simp)
    obtain ⟨hW, hdom, hrest⟩ := hwin
    apply ih (fun sw h => hloc sw (by simp [h])) hrest
    · intro q hq
      apply hl W f g q hdom
      intro q' hdep hd
      have hn : need (s :: ss.map (·.1)) R q' := ⟨hd, q, hq, hdep⟩
      exact ⟨hW q' hn, hfg q' hn⟩
    · exact hp

/-! ## group selection -/

theorem not_isEmpty_of_mem {r : Region} {x y : Int} (h : Mem x y r) : r.isEmpty = false := by
  unfold Mem at h
  simp only [isEmpty, Bool.or_eq_false_iff, beq_eq_false_iff_ne]
  omega

theorem groupDim_pos (c : Cfg) : 0 < c.groupDim := by
  unfold Cfg.groupDim
  have := two_pow_pos c.groupSizeShift
  omega

/-- index arithmetic: column `a < n`, row `b`: `(b * n + a) % n = a`, `(b * n + a) / n = b` -/
theorem idx_mod_div (a b n : Nat) (h : a < n) : (b * n + a) % n = a ∧ (b * n + a) / n = b := by
  have hn : 0 < n := by omega
  constructor
  · rw [Nat.mul_comm, Nat.mul_add_mod]; exact Nat.mod_eq_of_lt h
  · rw [Nat.mul_comm, Nat.mul_add_div hn, Nat.div_eq_of_lt h]; omega

theorem div_lt_ceil (x w d : Nat) (hd : 0 < d) (h : x < w) : x / d < (w + d - 1) / d := by
  have h1 : x / d * d ≤ x := Nat.div_mul_le_self x d
  have h3 := Nat.div_add_mod (w + d - 1) d
  have h4 := Nat.mod_lt (w + d - 1) hd
  have h5 := Nat.div_add_mod x d
  have h6 := Nat.mod_lt x hd
  rw [Nat.mul_comm] at h3 h5
  -- x/d*d ≤ x < w ≤ ceil*d
  have : x / d * d < ((w + d - 1) / d) * d := by omega
  exact Nat.lt_of_mul_lt_mul_right this

theorem group_cover (c : Cfg) (mr : Region) (x y : Nat)
    (hx : x < c.colorSampleWidth) (hy : y < c.colorSampleHeight) (hm : Mem x y mr) :
    let g := (y / c.groupDim) * c.groupsPerRow + x / c.groupDim
    g < c.numGroups ∧ Mem x y (groupRegion c g) ∧ groupSelected c mr g = true := by
  intro g
  have hd := groupDim_pos c
  have hcol : x / c.groupDim < c.groupsPerRow := div_lt_ceil x _ _ hd hx
  have hrow : y / c.groupDim < c.groupsPerCol := div_lt_ceil y _ _ hd hy
  have hmd := idx_mod_div (x / c.groupDim) (y / c.groupDim) c.groupsPerRow hcol
  have hmem : Mem x y (groupRegion c g) := by
    unfold groupRegion Mem
    simp only []
    show _ ∧ _ ∧ _ ∧ _
    rw [show g = (y / c.groupDim) * c.groupsPerRow + x / c.groupDim from rfl, hmd.1, hmd.2]
    have a1 := Nat.div_add_mod x c.groupDim
    have a2 := Nat.mod_lt x hd
    have b1 := Nat.div_add_mod y c.groupDim
    have b2 := Nat.mod_lt y hd
    rw [Nat.mul_comm] at a1 b1
    push_cast
    have a1' : ((x / c.groupDim : Nat) : Int) * (c.groupDim : Int) + ((x % c.groupDim : Nat) : Int) = (x : Int) := by
      exact_mod_cast a1
    have b1' : ((y / c.groupDim : Nat) : Int) * (c.groupDim : Int) + ((y % c.groupDim : Nat) : Int) = (y : Int) := by
      exact_mod_cast b1
    have a2' : ((x % c.groupDim : Nat) : Int) < (c.groupDim : Int) := by exact_mod_cast a2
    have b2' : ((y % c.groupDim : Nat) : Int) < (c.groupDim : Int) := by exact_mod_cast b2
    push_cast at a1' b1'
    omega
  refine ⟨?_, hmem, ?_⟩
  · unfold Cfg.numGroups
    show (y / c.groupDim) * c.groupsPerRow + x / c.groupDim < c.groupsPerRow * c.groupsPerCol
    have : (y / c.groupDim + 1) * c.groupsPerRow ≤ c.groupsPerCol * c.groupsPerRow :=
      Nat.mul_le_mul_right _ hrow
    rw [Nat.add_mul, Nat.one_mul, Nat.mul_comm c.groupsPerCol] at this
    omega
  · unfold groupSelected
    have : Mem x y ((groupRegion c g).intersection mr) := (mem_intersection _ _ _ _).2 ⟨hmem, hm⟩
    simp [not_isEmpty_of_mem this]

/-! ## reset decision -/

theorem resetFrom_eq_rebuild (r : Region) (fs : List FrameInfo) :
    ∀ (hs acc : List Handle), resetFrom r fs hs acc = rebuildFrom r fs (kept fs hs) acc := by
  induction fs with
  | nil => intro hs acc; simp [resetFrom, rebuildFrom]
  | cons f fs ih =>
    intro hs acc
    cases hs with
    | nil => simp [resetFrom, rebuildFrom, kept]
    | cons h hs =>
      simp only [resetFrom, kept, rebuildFrom]
      by_cases hf : f.refOnly = true
      · simp only [hf, if_true]
        rw [ih]
      · simp only [hf, if_false]
        rw [ih]
        simp

theorem kept_resetFrom (r : Region) (fs : List FrameInfo) :
    ∀ (hs acc : List Handle), kept fs (resetFrom r fs hs acc) = kept fs hs := by
  induction fs with
  | nil => intro hs acc; simp [resetFrom, kept]
  | cons f fs ih =>
    intro hs acc
    cases hs with
    | nil => simp [resetFrom, kept]
    | cons h hs =>
      simp only [resetFrom, kept]
      rw [ih]
      by_cases hf : f.refOnly = true <;> simp [hf]

theorem kept_requests (fs : List FrameInfo) (rs : List Region) :
    ∀ hs, kept fs (requests fs hs rs) = kept fs hs := by
  induction rs with
  | nil => intro hs; rfl
  | cons r rs ih =>
    intro hs
    simp only [requests]
    rw [ih, request, kept_resetFrom]

theorem requests_append (fs : List FrameInfo) (rs : List Region) (r : Region) :
    ∀ hs, requests fs hs (rs ++ [r]) = request fs (requests fs hs rs) r := by
  induction rs with
  | nil => intro hs; rfl
  | cons r' rs ih => intro hs; simp only [List.cons_append, requests]; rw [ih]

theorem history_irrelevant (fs : List FrameInfo) (hs : List Handle) (rs : List Region) (r : Region) :
    requests fs hs (rs ++ [r]) = rebuildFrom r fs (kept fs hs) [] := by
  rw [requests_append, request, resetFrom_eq_rebuild, kept_requests]

/-! ## blend() geometry -/

theorem inter_of_within {a b : Region} (h : a.Within b) (hne : a.isEmpty = false) :
    a.intersection b = a := by
  rw [inter_norm]
  unfold Within at h
  simp only [isEmpty, Bool.or_eq_false_iff, beq_eq_false_iff_ne] at hne
  unfold right bottom
  split
  · omega
  · cases a; simp only [Region.mk.injEq] at *; omega

/-- a non-empty intersection, edge by edge -/
theorem inter_pos (a b : Region) (h : 0 < (a.intersection b).width ∨ 0 < (a.intersection b).height) :
    (a.intersection b).left = max a.left b.left ∧ (a.intersection b).top = max a.top b.top ∧
    ((a.intersection b).left + (a.intersection b).width : Int) = min (a.left + a.width) (b.left + b.width) ∧
    ((a.intersection b).top + (a.intersection b).height : Int) = min (a.top + a.height) (b.top + b.height) ∧
    0 < (a.intersection b).width ∧ 0 < (a.intersection b).height := by
  rw [inter_norm] at h ⊢
  unfold right bottom at *
  split at h
  · simp [Region.empty] at h
  · next hc =>
    simp only [hc, if_false] at h ⊢
    simp only [true_and]
    omega

theorem blend_clipped_mem (x0 y0 : Int) (fw fh : Nat) (newGrid output : Region)
    (base : Option (Int × Int × Region)) (x y : Int) :
    Mem x y (blendGeom x0 y0 fw fh newGrid output base).clipped ↔ BlendSpec fw fh newGrid output x y := by
  unfold blendGeom BlendSpec
  simp only [mem_intersection, and_assoc]


theorem blend_sound_fresh (x0 y0 : Int) (fw fh : Nat) (newGrid output : Region)
    (hin : newGrid.Within (Region.withSize fw fh)) (hne : newGrid.isEmpty = false) (dx dy : Nat)
    (hdx : dx < (blendGeom x0 y0 fw fh newGrid output none).w)
    (hdy : dy < (blendGeom x0 y0 fw fh newGrid output none).h) :
    BlendWrite newGrid (blendGeom x0 y0 fw fh newGrid output none) fw fh output dx dy := by
  have key : (blendGeom x0 y0 fw fh newGrid output none) =
      { original := newGrid, clipped := newGrid.intersection output,
        baseX := ((newGrid.intersection output).left - output.left).natAbs,
        baseY := ((newGrid.intersection output).top - output.top).natAbs,
        newX := ((newGrid.intersection output).left - newGrid.left).natAbs,
        newY := ((newGrid.intersection output).top - newGrid.top).natAbs,
        w := (newGrid.intersection output).width, h := (newGrid.intersection output).height,
        target := output, subLeft := 0, subTop := 0, subW := output.width, subH := output.height } := by
    unfold blendGeom
    simp only [inter_of_within hin hne]
  rw [key] at hdx hdy ⊢
  simp only [] at hdx hdy
  obtain ⟨e1, e2, e3, e4, e5, e6⟩ := inter_pos newGrid output (by omega)
  unfold Within at hin
  simp only [withSize] at hin
  constructor <;> simp only [BlendSpec, Mem, withSize] <;> omega


theorem blend_sound_base (x0 y0 : Int) (fw fh : Nat) (newGrid output : Region)
    (bx0 by0 : Int) (grid : Region)
    (hin : newGrid.Within (Region.withSize fw fh)) (hne : newGrid.isEmpty = false)
    (hg : grid.isEmpty = false)
    (hb : (((output.translate x0 y0).translate (-bx0) (-by0))).Within grid) (dx dy : Nat)
    (hdx : dx < (blendGeom x0 y0 fw fh newGrid output (some (bx0, by0, grid))).w)
    (hdy : dy < (blendGeom x0 y0 fw fh newGrid output (some (bx0, by0, grid))).h) :
    BlendWrite newGrid (blendGeom x0 y0 fw fh newGrid output (some (bx0, by0, grid))) fw fh output dx dy := by
  have key : (blendGeom x0 y0 fw fh newGrid output (some (bx0, by0, grid))) =
      { original := newGrid, clipped := newGrid.intersection output,
        baseX := ((newGrid.intersection output).left - output.left).natAbs,
        baseY := ((newGrid.intersection output).top - output.top).natAbs,
        newX := ((newGrid.intersection output).left - newGrid.left).natAbs,
        newY := ((newGrid.intersection output).top - newGrid.top).natAbs,
        w := (newGrid.intersection output).width, h := (newGrid.intersection output).height,
        target := grid.translate (bx0 - x0) (by0 - y0),
        subLeft := output.left + x0 + -bx0 + -grid.left, subTop := output.top + y0 + -by0 + -grid.top,
        subW := output.width, subH := output.height } := by
    unfold blendGeom
    simp only [inter_of_within hin hne, hg, translate]
    rfl
  rw [key] at hdx hdy ⊢
  simp only [] at hdx hdy
  obtain ⟨e1, e2, e3, e4, e5, e6⟩ := inter_pos newGrid output (by omega)
  unfold Within at hin hb
  simp only [withSize, translate] at hin hb
  constructor <;> simp only [BlendSpec, Mem, withSize, translate] <;> omega

/-- every cell of the specified intersection is written (by exactly one loop index) -/
theorem blend_complete (x0 y0 : Int) (fw fh : Nat) (newGrid output : Region)
    (base : Option (Int × Int × Region))
    (hin : newGrid.Within (Region.withSize fw fh)) (hne : newGrid.isEmpty = false) (x y : Int)
    (h : BlendSpec fw fh newGrid output x y) :
    let g := blendGeom x0 y0 fw fh newGrid output base
    ∃ dx dy : Nat, dx < g.w ∧ dy < g.h ∧
      x = newGrid.left + ((g.newX + dx : Nat) : Int) ∧ y = newGrid.top + ((g.newY + dy : Nat) : Int) ∧
      ∀ dx' dy' : Nat, x = newGrid.left + ((g.newX + dx' : Nat) : Int) → y = newGrid.top + ((g.newY + dy' : Nat) : Int) →
        dx' = dx ∧ dy' = dy := by
  intro g
  have hc : g.clipped = newGrid.intersection output := by
    simp only [g, blendGeom, inter_of_within hin hne]
  have hm : Mem x y (newGrid.intersection output) := by
    rw [mem_intersection]; exact ⟨h.1, h.2.2⟩
  have hpos : 0 < (newGrid.intersection output).width := by unfold Mem at hm; omega
  obtain ⟨e1, e2, e3, e4, e5, e6⟩ := inter_pos newGrid output (Or.inl hpos)
  have hw : g.w = (newGrid.intersection output).width := by simp only [g, blendGeom, inter_of_within hin hne]
  have hh : g.h = (newGrid.intersection output).height := by simp only [g, blendGeom, inter_of_within hin hne]
  have hnx : g.newX = ((newGrid.intersection output).left - newGrid.left).natAbs := by
    simp only [g, blendGeom, inter_of_within hin hne]
  have hny : g.newY = ((newGrid.intersection output).top - newGrid.top).natAbs := by
    simp only [g, blendGeom, inter_of_within hin hne]
  unfold Mem at hm
  refine ⟨(x - (newGrid.intersection output).left).toNat, (y - (newGrid.intersection output).top).toNat, ?_, ?_, ?_, ?_, ?_⟩
  · omega
  · omega
  · omega
  · omega
  · intro dx' dy' hx hy; omega

/-! ## padding chain of `pad_upsampling` / `pad_color_region` -/

/-- `pad_upsampling` with the maximum factor as a parameter -/
def padUp (m : Nat) (r : Region) : Region :=
  if m > 0 then ((r.downsample m).pad (2 + (m - 1) / 3)).upsample m else r

theorem padUpsampling_eq (c : Cfg) (r : Region) : padUpsampling c r = padUp c.maxUpsampleFactor r := rfl

set_option maxHeartbeats 4000000 in
theorem stageA (k m : Nat) (hkm : k ≤ m) (hm : m ≤ 6) (F : Region) :
    (upNeed F k).Within ((padUp m F).downsample k) := by
  have h1 : m = 0 ∨ m = 1 ∨ m = 2 ∨ m = 3 ∨ m = 4 ∨ m = 5 ∨ m = 6 := by omega
  have h2 : k = 0 ∨ k = 1 ∨ k = 2 ∨ k = 3 ∨ k = 4 ∨ k = 5 ∨ k = 6 := by omega
  rcases h1 with rfl | rfl | rfl | rfl | rfl | rfl | rfl <;>
  rcases h2 with rfl | rfl | rfl | rfl | rfl | rfl | rfl <;>
  first
  | (exfalso; omega)
  | (simp [padUp, upNeed, upNeedLoop, downsample, pad, upsample, downAx, Within]
     try omega)


/-- the part of `pad_color_region` after the upsampling padding (`util.rs:95..119`) -/
def colorTail (epf : Nat) (gab ycbcr : Bool) (s0 : Region) : Region :=
  let s1 := if epf = 0 then s0
            else if epf = 1 then s0.pad 2 else if epf = 2 then s0.pad 5 else s0.pad 6
  let s2 := if gab then s1.pad 1 else s1
  let s3 := if ycbcr then (((s2.pad 1).downsample 2).upsample 2) else s2
  if epf ≠ 0 then s3.containerAligned 8 else s3

theorem padColorRegion_eq (c : Cfg) (r : Region) :
    padColorRegion c r =
      colorTail c.epfIters c.gab c.ycbcr ((padUp c.maxUpsampleFactor r).downsample c.upsampling) := rfl

/-- the part of `stageNeed` after the upsampler's need -/
def needTail (epf : Nat) (gab ycbcr : Bool) (n0 : Region) : Region :=
  let n1 := n0.pad (epfRadius epf)
  let n2 := if gab then n1.pad 1 else n1
  if ycbcr then ((n2.pad 1).downsample 1).upsample 1 else n2

theorem stageNeed_eq (c : Cfg) (F : Region) :
    stageNeed c F = needTail c.epfIters c.gab c.ycbcr (upNeed F c.upsampling) := rfl

set_option maxHeartbeats 4000000 in
theorem stageB (epf : Nat) (hepf : epf ≤ 3) (gab ycbcr : Bool) (n0 s0 : Region) (h : n0.Within s0) :
    (needTail epf gab ycbcr n0).Within (colorTail epf gab ycbcr s0) ∧
    (epf ≠ 0 → (colorTail epf gab ycbcr s0).left % 8 = 0 ∧ (colorTail epf gab ycbcr s0).top % 8 = 0) := by
  have h1 : epf = 0 ∨ epf = 1 ∨ epf = 2 ∨ epf = 3 := by omega
  unfold Within at h
  rcases h1 with rfl | rfl | rfl | rfl <;> cases gab <;> cases ycbcr <;>
  (simp [needTail, colorTail, epfRadius, downsample, pad, upsample, containerAligned, alignAx, downAx, Within]
   try omega)

set_option maxHeartbeats 4000000 in
theorem padUp_aligned (k m : Nat) (hkm : k ≤ m) (hm : m ≤ 6) (F : Region) :
    (padUp m F).left % (2 ^ k : Nat) = 0 ∧ (padUp m F).top % (2 ^ k : Nat) = 0 ∧
    (padUp m F).width % 2 ^ k = 0 ∧ (padUp m F).height % 2 ^ k = 0 := by
  have h1 : m = 0 ∨ m = 1 ∨ m = 2 ∨ m = 3 ∨ m = 4 ∨ m = 5 ∨ m = 6 := by omega
  have h2 : k = 0 ∨ k = 1 ∨ k = 2 ∨ k = 3 ∨ k = 4 ∨ k = 5 ∨ k = 6 := by omega
  rcases h1 with rfl | rfl | rfl | rfl | rfl | rfl | rfl <;>
  rcases h2 with rfl | rfl | rfl | rfl | rfl | rfl | rfl <;>
  first
  | (exfalso; omega)
  | (simp [padUp, downsample, pad, upsample, downAx]
     try omega)

set_option maxHeartbeats 4000000 in
theorem within_padUp (m : Nat) (hm : m ≤ 6) (F : Region) : F.Within (padUp m F) := by
  have h1 : m = 0 ∨ m = 1 ∨ m = 2 ∨ m = 3 ∨ m = 4 ∨ m = 5 ∨ m = 6 := by omega
  rcases h1 with rfl | rfl | rfl | rfl | rfl | rfl | rfl <;>
  (simp [padUp, downsample, pad, upsample, downAx, Within]
   try omega)

set_option maxHeartbeats 4000000 in
/-- clipping to the frame commutes with downsampling for a region whose edges are multiples of
the factor: a coarse cell that is in the downsampled region and in the downsampled frame is in the
downsampled clipped region -/
theorem stageL (k : Nat) (hk : k ≤ 6) (P : Region) (fw fh : Nat)
    (h1 : P.left % (2 ^ k : Nat) = 0) (h2 : P.top % (2 ^ k : Nat) = 0)
    (h3 : P.width % 2 ^ k = 0) (h4 : P.height % 2 ^ k = 0) (x y : Int)
    (hm : Mem x y (P.downsample k))
    (hf : Mem x y (Region.withSize ((fw + 2 ^ k - 1) / 2 ^ k) ((fh + 2 ^ k - 1) / 2 ^ k))) :
    Mem x y ((P.intersection (Region.withSize fw fh)).downsample k) := by
  have hk' : k = 0 ∨ k = 1 ∨ k = 2 ∨ k = 3 ∨ k = 4 ∨ k = 5 ∨ k = 6 := by omega
  rw [inter_norm]
  rcases hk' with rfl | rfl | rfl | rfl | rfl | rfl | rfl <;>
  (simp [downsample, downAx, Mem, withSize, right, bottom, Region.empty] at *
   split <;> (try simp) <;> omega)

theorem foldl_max_bounds (l : List (Nat × Nat)) :
    ∀ (init b : Nat), init ≤ b → (∀ e ∈ l, e.1 + e.2 ≤ b) →
      init ≤ l.foldl (fun m e => max m (e.1 + e.2)) init ∧
      l.foldl (fun m e => max m (e.1 + e.2)) init ≤ b ∧
      ∀ e ∈ l, e.1 + e.2 ≤ l.foldl (fun m e => max m (e.1 + e.2)) init := by
  induction l with
  | nil => intro init b h _; simp [h]
  | cons a l ih =>
    intro init b h hl
    simp only [List.foldl_cons]
    have ha : a.1 + a.2 ≤ b := hl a (by simp)
    obtain ⟨i1, i2, i3⟩ := ih (max init (a.1 + a.2)) b (by omega) (fun e he => hl e (by simp [he]))
    refine ⟨by omega, i2, ?_⟩
    intro e he
    simp only [List.mem_cons] at he
    rcases he with rfl | he
    · omega
    · exact i3 e he

theorem valid_unpack (c : Cfg) (hv : c.valid = true) :
    c.upsampling ≤ 3 ∧ c.epfIters ≤ 3 ∧ 1 ≤ c.fw ∧ 1 ≤ c.fh ∧
    (∀ e ∈ c.ec, c.upsampling ≤ e.1 + e.2 ∧ e.1 + e.2 ≤ 6) := by
  simp only [Cfg.valid, Bool.and_eq_true, decide_eq_true_eq, List.all_eq_true] at hv
  refine ⟨by omega, by omega, by omega, by omega, ?_⟩
  intro e he
  have := hv.1.1.1.2 e he
  omega

theorem maxUp_bounds (c : Cfg) (hv : c.valid = true) :
    c.upsampling ≤ c.maxUpsampleFactor ∧ c.maxUpsampleFactor ≤ 6 ∧
    ∀ e ∈ c.ec, e.1 + e.2 ≤ c.maxUpsampleFactor := by
  obtain ⟨h1, _, _, _, h5⟩ := valid_unpack c hv
  unfold Cfg.maxUpsampleFactor
  cases hec : c.ec with
  | nil => simp; omega
  | cons e es =>
    rw [hec] at h5
    simp only []
    have he := h5 e (by simp)
    obtain ⟨i1, i2, i3⟩ := foldl_max_bounds es (e.1 + e.2) 6 he.2 (fun e' h' => (h5 e' (by simp [h'])).2)
    refine ⟨by omega, i2, ?_⟩
    intro e' h'
    simp only [List.mem_cons] at h'
    rcases h' with rfl | h'
    · exact i1
    · exact i3 e' h'

theorem colorSample_eq (c : Cfg) (hv : c.valid = true) :
    c.colorSampleWidth = (c.sampleWidth 1 + 2 ^ c.upsampling - 1) / 2 ^ c.upsampling ∧
    c.colorSampleHeight = (c.sampleHeight 1 + 2 ^ c.upsampling - 1) / 2 ^ c.upsampling := by
  have hk : c.upsampling ≤ 3 := (valid_unpack c hv).1
  have hl : c.lfLevel = 0 ∨ c.upsampling = 0 := by
    simp only [Cfg.valid, Bool.and_eq_true, Bool.or_eq_true, beq_iff_eq] at hv
    rcases hv.2 with h | h
    · exact Or.inl h
    · exact Or.inr h.1
  unfold Cfg.colorSampleWidth Cfg.colorSampleHeight Cfg.sampleWidth Cfg.sampleHeight Cfg.sampleDim
  rcases hl with hl | hl
  · have h : c.upsampling = 0 ∨ c.upsampling = 1 ∨ c.upsampling = 2 ∨ c.upsampling = 3 := by omega
    rcases h with h | h | h | h <;> simp [h, hl]
  · simp [hl]

theorem within_inter {a b c : Region} (hne : a.isEmpty = false) (h1 : a.Within b) (h2 : a.Within c) :
    a.Within (b.intersection c) := by
  rw [inter_norm]
  unfold Within at *
  simp only [isEmpty, Bool.or_eq_false_iff, beq_eq_false_iff_ne] at hne
  unfold right bottom
  split
  · omega
  · simp only []; omega

theorem inter_within_left (a b : Region) (h : (a.intersection b).isEmpty = false) :
    (a.intersection b).Within a ∧ (a.intersection b).Within b := by
  have := inter_pos a b (by simp only [isEmpty, Bool.or_eq_false_iff, beq_eq_false_iff_ne] at h; omega)
  unfold Within; omega

theorem inter_withSize_aligned (P : Region) (w h : Nat) (hl : P.left % 8 = 0) (ht : P.top % 8 = 0) :
    (P.intersection (Region.withSize w h)).left % 8 = 0 ∧ (P.intersection (Region.withSize w h)).top % 8 = 0 := by
  rw [inter_norm]
  unfold withSize right bottom
  split
  · simp [Region.empty]
  · simp only []; omega

/-- `F` is the frame region the stages are asked for (after `pad_lf_region`), at the frame's own
scale; `upFull` the frame at that scale, `fullC` the frame at colour-sample scale. -/
theorem padded_region_sufficient (c : Cfg) (hv : c.valid = true) (F : Region) :
    let upFull := Region.withSize (c.sampleWidth 1) (c.sampleHeight 1)
    let U := (padUpsampling c F).intersection upFull
    let fullC := Region.withSize c.colorSampleWidth c.colorSampleHeight
    let C := (padColorRegion c F).intersection fullC
    (∀ x y, Mem x y F → Mem x y upFull → Mem x y U) ∧
    (∀ x y, Mem x y (upNeed F c.upsampling) → Mem x y fullC → Mem x y (U.downsample c.upsampling)) ∧
    (∀ x y, Mem x y (stageNeed c F) → Mem x y fullC → Mem x y C) ∧
    (c.epfIters ≠ 0 → C.left % 8 = 0 ∧ C.top % 8 = 0) ∧
    (∀ e ∈ c.ec, ∀ x y, Mem x y (upNeed F (e.1 + e.2)) →
        Mem x y (Region.withSize ((c.sampleWidth 1 + 2 ^ (e.1 + e.2) - 1) / 2 ^ (e.1 + e.2))
                                 ((c.sampleHeight 1 + 2 ^ (e.1 + e.2) - 1) / 2 ^ (e.1 + e.2))) →
        Mem x y (U.downsample (e.1 + e.2))) := by
  intro upFull U fullC C
  obtain ⟨hk3, hepf, _, _, hec⟩ := valid_unpack c hv
  obtain ⟨hkm, hm6, hem⟩ := maxUp_bounds c hv
  obtain ⟨cw, chh⟩ := colorSample_eq c hv
  have hA := stageA c.upsampling c.maxUpsampleFactor hkm hm6 F
  have hB := stageB c.epfIters hepf c.gab c.ycbcr _ _ hA
  refine ⟨?_, ?_, ?_, ?_, ?_⟩
  · intro x y hx hf
    simp only [U, mem_intersection]
    exact ⟨Within.subset (within_padUp _ hm6 F) x y hx, hf⟩
  · intro x y hx hf
    obtain ⟨a1, a2, a3, a4⟩ := padUp_aligned c.upsampling c.maxUpsampleFactor hkm hm6 F
    simp only [fullC, cw, chh] at hf
    exact stageL c.upsampling (by omega) _ _ _ a1 a2 a3 a4 x y (Within.subset hA x y hx) hf
  · intro x y hx hf
    simp only [C, mem_intersection]
    refine ⟨?_, hf⟩
    rw [padColorRegion_eq]
    rw [stageNeed_eq] at hx
    exact Within.subset hB.1 x y hx
  · intro he
    simp only [C, fullC]
    rw [padColorRegion_eq]
    obtain ⟨b1, b2⟩ := hB.2 he
    exact inter_withSize_aligned _ _ _ b1 b2
  · intro e he x y hx hf
    have hke := hem e he
    obtain ⟨a1, a2, a3, a4⟩ := padUp_aligned (e.1 + e.2) c.maxUpsampleFactor hke hm6 F
    exact stageL (e.1 + e.2) (by omega) _ _ _ a1 a2 a3 a4 x y
      (Within.subset (stageA (e.1 + e.2) c.maxUpsampleFactor hke hm6 F) x y hx) hf

/-! ## container_aligned -/

theorem aligned_contains (r : Region) (g : Nat) (hg : 0 < g) :
    r.Within (r.containerAligned g) ∧
    (r.containerAligned g).left % (g : Int) = 0 ∧ (r.containerAligned g).top % (g : Int) = 0 ∧
    (r.containerAligned g).width % g = 0 ∧ (r.containerAligned g).height % g = 0 := by
  unfold containerAligned
  simp only [alignAx_eq, upAx]
  have hD : (0 : Int) < (g : Int) := by omega
  have hx1 := downAx_lo r.left r.width g
  have hx2 := downAx_hi r.left r.width g hg
  have hy1 := downAx_lo r.top r.height g
  have hy2 := downAx_hi r.top r.height g hg
  have ax : r.left / (g:Int) * (g:Int) ≤ r.left := Int.ediv_mul_le _ (by omega)
  have ay : r.top / (g:Int) * (g:Int) ≤ r.top := Int.ediv_mul_le _ (by omega)
  have bx := Int.lt_ediv_add_one_mul_self (r.left + r.width + g - 1) hD
  have by_ := Int.lt_ediv_add_one_mul_self (r.top + r.height + g - 1) hD
  refine ⟨?_, Int.mul_emod_left _ _, Int.mul_emod_left _ _, Nat.mul_mod_left _ _, Nat.mul_mod_left _ _⟩
  unfold Within
  simp only []
  rw [hx1, hy1]
  have ex : ((downAx r.left r.width g).1 + ((downAx r.left r.width g).2 : Int)) * (g:Int) =
      (downAx r.left r.width g).1 * (g:Int) + (((downAx r.left r.width g).2 * g : Nat) : Int) := by
    rw [Int.add_mul]; push_cast; rfl
  have ey : ((downAx r.top r.height g).1 + ((downAx r.top r.height g).2 : Int)) * (g:Int) =
      (downAx r.top r.height g).1 * (g:Int) + (((downAx r.top r.height g).2 * g : Nat) : Int) := by
    rw [Int.add_mul]; push_cast; rfl
  rw [hx2] at ex
  rw [hy2] at ey
  rw [hx1] at ex
  rw [hy1] at ey
  have ex2 : ((r.left + ↑r.width + ↑g - 1) / (g:Int) + 1) * (g:Int) = (r.left + ↑r.width + ↑g - 1) / (g:Int) * (g:Int) + g := by
    rw [Int.add_mul, Int.one_mul]
  have ey2 : ((r.top + ↑r.height + ↑g - 1) / (g:Int) + 1) * (g:Int) = (r.top + ↑r.height + ↑g - 1) / (g:Int) * (g:Int) + g := by
    rw [Int.add_mul, Int.one_mul]
  omega

end Jxl.Region
