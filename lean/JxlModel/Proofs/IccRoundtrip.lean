import JxlModel.Proofs.IccTags
namespace Jxl.Icc

theorem length_encTagCmds_ge (profile : List Nat) : ∀ (cs : List TagCmd) (pos : Nat),
    cs.length ≤ (encTagCmds profile pos cs).1.length := by
  intro cs
  induction cs with
  | nil => intro pos; simp
  | cons c cs ih =>
    intro pos
    have := ih (pos + tagCmdLen c)
    simp only [encTagCmds, encTagCmd, List.length_cons, List.length_append]
    omega

theorem tagLoop_nil (size fuel : Nat) (s : TagSt) (h : s.cmds = []) :
    tagLoop size (fuel + 1) s = .ok s := by
  rw [tagLoop, h]

theorem tagLoop_term (size fuel : Nat) (s : TagSt) (cmds : List Nat) (h : s.cmds = 0 :: cmds) :
    tagLoop size (fuel + 1) s = .ok { s with cmds := cmds } := by
  rw [tagLoop, h]
  simp

/-- everything after the header -/
theorem decodeBody_enc (profile : List Nat) (hb : IsBytes profile) (hl : profile.length ≤ 268435456)
    (h128 : 128 < profile.length) (plan : Plan) (pos : Nat)
    (htags : tagsCover profile plan.tags = some pos)
    (hterm : (match plan.tags with
       | some t => t.terminator || plan.main.isEmpty
       | none => true) = true)
    (hmain : mainCovers profile plan.main pos = true) :
    decodeBody profile.length
      ((encTags profile plan.tags).1 ++ (encMain profile (encTags profile plan.tags).2.2 plan.main).1)
      ((encTags profile plan.tags).2.1 ++ (encMain profile (encTags profile plan.tags).2.2 plan.main).2)
      (profile.take 128).toArray = .ok profile := by
  have hl63 : profile.length < 2 ^ 63 := Nat.lt_of_le_of_lt hl (by decide)
  cases hpt : plan.tags with
  | none =>
    rw [hpt] at htags hterm
    simp only [tagsCover, Option.some.injEq] at htags
    subst htags
    simp only [encTags, decodeBody, decodeTags, decodeMain]
    rw [readVarint_encVarint 0 _ (by decide)]
    simp only [if_true, List.nil_append]
    have := mainLoop_encMain profile hb hl63 plan.main 128
      ((encMain profile 128 plan.main).1.length + 1) [] hmain (by omega)
    rw [List.append_nil] at this
    rw [this]
    simp
  | some t =>
    rw [hpt] at htags hterm
    have hterm : (t.terminator || plan.main.isEmpty) = true := hterm
    simp only [tagsCover] at htags
    split at htags
    · rename_i hc
      simp only [Bool.and_eq_true, decide_eq_true_eq, beq_iff_eq] at hc
      obtain ⟨⟨h132, hnt⟩, h4⟩ := hc
      simp only [encTags, decodeBody, decodeTags, decodeMain, List.append_assoc]
      rw [readVarint_encVarint (t.numTags + 1) _ (by omega)]
      simp only [Nat.add_one_ne_zero, if_false, Nat.add_sub_cancel]
      rw [if_neg (by omega)]
      have hout : (profile.take 128).toArray ++ (be32 t.numTags).toArray = (profile.take 132).toArray := by
        rw [← h4, List.append_toArray, ← take_add_slice]
      rw [hout]
      generalize hmc : (encMain profile (encTagCmds profile 132 t.cmds).2.2 plan.main) = mcd
      -- the loop over the tag commands
      have hlen := length_encTagCmds_ge profile t.cmds 132
      cases hterm' : t.terminator with
      | true =>
        simp only [if_true]
        obtain ⟨ps', pz', hloop, hpos⟩ := tagLoop_encTagCmds profile hb t.cmds 132
          (t.numTags * 12 + 128) 0
          (((encTagCmds profile 132 t.cmds).1 ++ ([0] ++ mcd.1)).length + 1 - t.cmds.length) pos
          ([0] ++ mcd.1) (mcd.2 ++ []) htags
        rw [List.append_nil] at hloop
        have hfuel : ((encTagCmds profile 132 t.cmds).1 ++ ([0] ++ mcd.1)).length + 1 - t.cmds.length
            + t.cmds.length = ((encTagCmds profile 132 t.cmds).1 ++ ([0] ++ mcd.1)).length + 1 := by
          simp only [List.length_append]; omega
        rw [hfuel] at hloop
        rw [hloop]
        have hf2 : ((encTagCmds profile 132 t.cmds).1 ++ ([0] ++ mcd.1)).length + 1 - t.cmds.length
            = (((encTagCmds profile 132 t.cmds).1 ++ ([0] ++ mcd.1)).length - t.cmds.length) + 1 := by
          simp only [List.length_append]; omega
        rw [hf2, tagLoop_term _ _ _ mcd.1 (by simp)]
        simp only
        rw [hpos] at hmc
        have := mainLoop_encMain profile hb hl63 plan.main pos
          ((encMain profile pos plan.main).1.length + 1) [] hmain (by omega)
        rw [List.append_nil, hmc] at this
        rw [this]
        simp
      | false =>
        rw [hterm'] at hterm
        have hme : plan.main = [] := by simpa using hterm
        simp only [Bool.false_eq_true, if_false, List.nil_append]
        obtain ⟨ps', pz', hloop, hpos⟩ := tagLoop_encTagCmds profile hb t.cmds 132
          (t.numTags * 12 + 128) 0
          (((encTagCmds profile 132 t.cmds).1 ++ mcd.1).length + 1 - t.cmds.length) pos
          mcd.1 (mcd.2 ++ []) htags
        rw [List.append_nil] at hloop
        have hfuel : ((encTagCmds profile 132 t.cmds).1 ++ mcd.1).length + 1 - t.cmds.length
            + t.cmds.length = ((encTagCmds profile 132 t.cmds).1 ++ mcd.1).length + 1 := by
          simp only [List.length_append]; omega
        rw [hfuel] at hloop
        rw [hloop]
        have hf2 : ((encTagCmds profile 132 t.cmds).1 ++ mcd.1).length + 1 - t.cmds.length
            = (((encTagCmds profile 132 t.cmds).1 ++ mcd.1).length - t.cmds.length) + 1 := by
          simp only [List.length_append]; omega
        have hm1 : mcd.1 = [] := by rw [← hmc, hme]; simp [encMain]
        rw [hf2, tagLoop_nil _ _ _ (by simp [hm1])]
        simp only
        rw [hpos] at hmc
        have := mainLoop_encMain profile hb hl63 plan.main pos
          ((encMain profile pos plan.main).1.length + 1) [] hmain (by omega)
        rw [List.append_nil, hmc] at this
        rw [this]
        simp
    · exact absurd htags (by simp)


theorem isBytes_of_all {l : List Nat} (h : l.all (· < 256) = true) : IsBytes l := by
  intro b hb
  simpa using (List.all_eq_true.mp h) b hb

theorem length_encVarintAux (more : Nat) : ∀ n, (encVarintAux more n).length ≤ more + 1 := by
  induction more with
  | zero => intro n; simp [encVarintAux]
  | succ m ih =>
    intro n
    simp only [encVarintAux]
    split
    · simp
    · have := ih (n / 128); simp; omega

theorem length_encVarint (n : Nat) : (encVarint n).length ≤ 9 := length_encVarintAux 8 n

theorem length_encSeg_le (profile : List Nat) (pos : Nat) (seg : Seg) :
    (encSeg profile pos seg).1.length ≤ 20 := by
  cases seg with
  | raw n => have := length_encVarint n; simp [encSeg]; omega
  | shuf2 n => have := length_encVarint n; simp [encSeg]; omega
  | shuf4 n => have := length_encVarint n; simp [encSeg]; omega
  | pred w o st hi n =>
    have := length_encVarint n
    cases st with
    | none => simp [encSeg, encStride]; omega
    | some s => have := length_encVarint s; simp [encSeg, encStride]; omega
  | xyz => simp [encSeg]
  | common k => simp [encSeg]

theorem length_encMain_le (profile : List Nat) : ∀ (segs : List Seg) (pos : Nat),
    (encMain profile pos segs).1.length ≤ 20 * segs.length := by
  intro segs
  induction segs with
  | nil => intro pos; simp [encMain]
  | cons s ss ih =>
    intro pos
    have h1 := length_encSeg_le profile pos s
    have h2 := ih (pos + segLen s)
    simp only [encMain, List.length_append, List.length_cons]
    omega

theorem length_two_opt (x y : Bool) (a b : List Nat) (h3 : a.length ≤ 9) (h4 : b.length ≤ 9) :
    ((if x then a else []) ++ (if y then b else [])).length ≤ 18 := by
  cases x <;> cases y <;> simp <;> omega

theorem length_encTagArgs_le (profile : List Nat) (pos : Nat) (c : TagCmd) :
    (encTagArgs profile pos c).length ≤ 18 :=
  length_two_opt _ _ _ _ (length_encVarint _) (length_encVarint _)

theorem length_encTagCmds_le (profile : List Nat) : ∀ (cs : List TagCmd) (pos : Nat),
    (encTagCmds profile pos cs).1.length ≤ 19 * cs.length := by
  intro cs
  induction cs with
  | nil => intro pos; simp [encTagCmds]
  | cons c cs ih =>
    intro pos
    have h2 := ih (pos + tagCmdLen c)
    have h3 := length_encTagArgs_le profile pos c
    simp only [encTagCmds, encTagCmd, List.length_append, List.length_cons]
    omega

theorem length_encTags_le (profile : List Nat) (t : Option TagPlan) :
    (encTags profile t).1.length ≤ 10 + 19 * tagCmdCount t := by
  cases t with
  | none => have := length_encVarint 0; simp [encTags, tagCmdCount]; omega
  | some t =>
    have h1 := length_encVarint (t.numTags + 1)
    have h2 := length_encTagCmds_le profile t.cmds 132
    simp only [encTags, tagCmdCount, List.length_append]
    split <;> simp <;> omega

theorem decodeIcc_frame (size : Nat) (cmds hdr data : List Nat) (hs : size ≤ 268435456)
    (hc : cmds.length < 2 ^ 63) (hh : hdr.length = min size 128) :
    decodeIcc (encVarint size ++ (encVarint cmds.length ++ (cmds ++ (hdr ++ data)))) =
      if size ≤ 128 then .ok (decodeHeader size hdr)
      else decodeBody size cmds data (decodeHeader size hdr).toArray := by
  unfold decodeIcc
  rw [readVarint_encVarint _ _ (Nat.lt_of_le_of_lt hs (by decide))]
  simp only
  rw [readVarint_encVarint _ _ hc]
  simp only
  rw [if_neg (by simp), if_neg (by omega), List.drop_left, List.take_left]
  unfold decodeFramed
  rw [if_neg (by simp [hh]), ← hh, List.take_left, List.drop_left]

/-- **Round trip.** The decoder model applied to the encoder's output returns the profile. -/
theorem decodeIcc_encodeIcc (plan : Plan) (profile : List Nat) (h : PlanCovers plan profile) :
    decodeIcc (encodeIcc plan profile) = .ok profile := by
  unfold PlanCovers planCovers at h
  simp only [Bool.and_eq_true, decide_eq_true_eq] at h
  obtain ⟨⟨⟨⟨hall, hl⟩, hml⟩, htl⟩, hrest⟩ := h
  have hb := isBytes_of_all hall
  have hhdr := length_encodeHeader profile
  by_cases h128 : profile.length ≤ 128
  · -- header only
    simp only [encodeIcc, h128, if_true]
    have := decodeIcc_frame profile.length [] (encodeHeader profile) [] hl (by decide) hhdr
    simp only [List.nil_append, List.append_nil, List.length_nil] at this
    rw [List.append_assoc, this, if_pos h128, decodeHeader_encodeHeader profile hb,
      List.take_of_length_le (by omega)]
  · simp only [h128, if_false] at hrest
    split at hrest
    · exact absurd hrest (by simp)
    · rename_i pos htags
      simp only [Bool.and_eq_true] at hrest
      obtain ⟨hterm, hmain⟩ := hrest
      have hbody := decodeBody_enc profile hb hl (by omega) plan pos htags hterm hmain
      simp only [encodeIcc, h128, if_false, List.append_assoc]
      have h1 := length_encTags_le profile plan.tags
      have h2 := length_encMain_le profile plan.main (encTags profile plan.tags).2.2
      have hframe := decodeIcc_frame profile.length
        ((encTags profile plan.tags).1 ++ (encMain profile (encTags profile plan.tags).2.2 plan.main).1)
        (encodeHeader profile)
        ((encTags profile plan.tags).2.1 ++ (encMain profile (encTags profile plan.tags).2.2 plan.main).2)
        hl (by simp only [List.length_append]; omega) hhdr
      simp only [List.append_assoc] at hframe
      rw [hframe, if_neg h128, decodeHeader_encodeHeader profile hb]
      exact hbody

end Jxl.Icc
