import JxlModel.Model.JpegBits
/-! Helper lemmas for C17 (bit writer refinement, `has_ff_byte`, Huffman build, status). -/
namespace Jxl.JpegBits

/-! ## bytes from bits -/

theorem byte_of_bools (b0 b1 b2 b3 b4 b5 b6 b7 : Bool) :
    ∀ j, j < 8 → (BitVec.ofNat 8 (2 * (2 * (2 * (2 * (2 * (2 * (2 * (2 * 0 + b0.toNat) + b1.toNat)
      + b2.toNat) + b3.toNat) + b4.toNat) + b5.toNat) + b6.toNat) + b7.toNat)).getMsbD j
      = [b0,b1,b2,b3,b4,b5,b6,b7].getD j false := by
  revert b0 b1 b2 b3 b4 b5 b6 b7
  decide

theorem bitsToByte_getMsbD (f : Nat → Bool) (j : Nat) (hj : j < 8) :
    (bitsToByte f).getMsbD j = f j := by
  have h := byte_of_bools (f 0) (f 1) (f 2) (f 3) (f 4) (f 5) (f 6) (f 7) j hj
  have e : bitsToByte f = BitVec.ofNat 8 (2 * (2 * (2 * (2 * (2 * (2 * (2 * (2 * 0 + (f 0).toNat)
      + (f 1).toNat) + (f 2).toNat) + (f 3).toNat) + (f 4).toNat) + (f 5).toNat) + (f 6).toNat)
      + (f 7).toNat) := by
    simp [bitsToByte, List.range, List.range.loop]
  rw [e, h]
  match j, hj with
  | 0, _ | 1, _ | 2, _ | 3, _ | 4, _ | 5, _ | 6, _ | 7, _ => rfl

theorem bitsToByte_congr (f g : Nat → Bool) (h : ∀ j, j < 8 → f j = g j) :
    bitsToByte f = bitsToByte g := by
  apply BitVec.eq_of_getMsbD_eq
  intro j hj
  rw [bitsToByte_getMsbD f j hj, bitsToByte_getMsbD g j hj, h j hj]

theorem byteOf_getMsbD (v : BitVec 64) (k j : Nat) (hk : k < 8) (hj : j < 8) :
    (byteOf v k).getMsbD j = v.getMsbD (8 * k + j) := by
  simp only [byteOf, BitVec.getMsbD_eq_getLsbD, BitVec.getLsbD_setWidth, BitVec.getLsbD_ushiftRight]
  have h1 : decide (j < 8) = true := by simp [hj]
  have h2 : decide (8 * k + j < 64) = true := by simp; omega
  have h3 : decide (8 - 1 - j < 8) = true := by simp; omega
  simp only [h1, h2, h3, Bool.true_and]
  congr 1
  omega

/-! ## packing and stuffing -/

theorem packBE_length (l : List Bool) : (packBE l).length = l.length / 8 := by
  simp [packBE]

theorem packBE_append (a b : List Bool) (h : a.length % 8 = 0) :
    packBE (a ++ b) = packBE a ++ packBE b := by
  unfold packBE
  have hl : (a ++ b).length / 8 = a.length / 8 + b.length / 8 := by
    simp only [List.length_append]; omega
  rw [hl, List.range_add, List.map_append, List.map_map]
  congr 1
  · apply List.map_congr_left
    intro k hk
    simp only [List.mem_range] at hk
    apply bitsToByte_congr
    intro j hj
    have : 8 * k + j < a.length := by omega
    simp [List.getD_eq_getElem?_getD, List.getElem?_append_left this]
  · apply List.map_congr_left
    intro k hk
    simp only [List.mem_range] at hk
    apply bitsToByte_congr
    intro j hj
    have h1 : a.length ≤ 8 * (a.length / 8 + k) + j := by omega
    have h2 : 8 * (a.length / 8 + k) + j - a.length = 8 * k + j := by omega
    simp [List.getD_eq_getElem?_getD, List.getElem?_append_right h1, h2]

theorem stuff_append (a b : List Byte) : stuff (a ++ b) = stuff a ++ stuff b := by
  simp [stuff, List.flatMap_append]

theorem foldl_emitByte (bs : List Byte) (out : List Byte) :
    bs.foldl emitByte out = out ++ stuff bs := by
  induction bs generalizing out with
  | nil => simp [stuff]
  | cons b bs ih =>
    simp only [List.foldl_cons, ih, emitByte, stuff, List.flatMap_cons]
    split <;> simp

theorem stuff_eq_self (bs : List Byte) (h : ∀ b ∈ bs, b ≠ 0xFF#8) : stuff bs = bs := by
  induction bs with
  | nil => simp [stuff]
  | cons b bs ih =>
    have hb : b ≠ 0xFF#8 := h b (by simp)
    have := ih (fun x hx => h x (by simp [hx]))
    simp only [stuff, List.flatMap_cons] at *
    simp [hb, this]

/-! ## `has_ff_byte` -/

/-- byte `i` counted from the least significant end -/
def byteLsb (v : BitVec 64) (i : Nat) : BitVec 8 := BitVec.extractLsb' (8 * i) 8 v

theorem byteOf_eq_byteLsb (v : BitVec 64) (k : Nat) (_hk : k < 8) : byteOf v k = byteLsb v (7 - k) := by
  apply BitVec.eq_of_getLsbD_eq
  intro i hi
  simp only [byteOf, byteLsb, BitVec.getLsbD_setWidth, BitVec.getLsbD_ushiftRight,
    BitVec.getLsbD_extractLsb']
  congr 2
  omega

theorem eq_zero_of_bytes (r : BitVec 64) (h : ∀ i, i < 8 → byteLsb r i = 0#8) : r = 0#64 := by
  apply BitVec.eq_of_getLsbD_eq
  intro j hj
  have := congrArg (fun b => b.getLsbD (j % 8)) (h (j / 8) (by omega))
  simp only [byteLsb, BitVec.getLsbD_extractLsb'] at this
  have e : 8 * (j / 8) + j % 8 = j := by omega
  have hlt : decide (j % 8 < 8) = true := by simp; omega
  rw [e, hlt] at this
  simpa using this

theorem byteLsb_toNat (v : BitVec 64) (i : Nat) : (byteLsb v i).toNat = v.toNat / 2 ^ (8 * i) % 256 := by
  simp [byteLsb, BitVec.extractLsb'_toNat, Nat.shiftRight_eq_div_pow]

theorem byteLsb_and (a b : BitVec 64) (i : Nat) : byteLsb (a &&& b) i = byteLsb a i &&& byteLsb b i := by
  simp [byteLsb, BitVec.extractLsb'_and]

theorem byteLsb_H : ∀ i, i < 8 → byteLsb 0x8080808080808080#64 i = 0x80#8 := by decide

theorem byte_no_ff : ∀ m, m < 255 → BitVec.ofNat 8 (254 - m) &&& BitVec.ofNat 8 m &&& 0x80#8 = 0#8 := by
  decide +kernel


theorem digits_no_ff (m a : Nat) (hm : m < 18446744073709551616)
    (ha : a = (18446744073709551616 - 72340172838076673 + (18446744073709551616 - 1 - m)) % 18446744073709551616)
    (h0 : m % 256 < 255) (h1 : m / 256 % 256 < 255) (h2 : m / 65536 % 256 < 255)
    (h3 : m / 16777216 % 256 < 255) (h4 : m / 4294967296 % 256 < 255)
    (h5 : m / 1099511627776 % 256 < 255) (h6 : m / 281474976710656 % 256 < 255)
    (h7 : m / 72057594037927936 % 256 < 255) :
    a % 256 = 254 - m % 256 ∧ a / 256 % 256 = 254 - m / 256 % 256
    ∧ a / 65536 % 256 = 254 - m / 65536 % 256
    ∧ a / 16777216 % 256 = 254 - m / 16777216 % 256
    ∧ a / 4294967296 % 256 = 254 - m / 4294967296 % 256
    ∧ a / 1099511627776 % 256 = 254 - m / 1099511627776 % 256
    ∧ a / 281474976710656 % 256 = 254 - m / 281474976710656 % 256
    ∧ a / 72057594037927936 % 256 = 254 - m / 72057594037927936 % 256 := by
  omega


theorem digits_ff_0 (m a : Nat) (hm : m < 18446744073709551616)
    (ha : a = (18446744073709551616 - 72340172838076673 + (18446744073709551616 - 1 - m)) % 18446744073709551616)
     (hk : m % 256 = 255) : a % 256 = 255 := by
  omega

theorem digits_ff_1 (m a : Nat) (hm : m < 18446744073709551616)
    (ha : a = (18446744073709551616 - 72340172838076673 + (18446744073709551616 - 1 - m)) % 18446744073709551616)
    (h0 : m % 256 < 255) (hk : m / 256 % 256 = 255) : a / 256 % 256 = 255 := by
  omega

theorem digits_ff_2 (m a : Nat) (hm : m < 18446744073709551616)
    (ha : a = (18446744073709551616 - 72340172838076673 + (18446744073709551616 - 1 - m)) % 18446744073709551616)
    (h0 : m % 256 < 255) (h1 : m / 256 % 256 < 255) (hk : m / 65536 % 256 = 255) : a / 65536 % 256 = 255 := by
  omega

theorem digits_ff_3 (m a : Nat) (hm : m < 18446744073709551616)
    (ha : a = (18446744073709551616 - 72340172838076673 + (18446744073709551616 - 1 - m)) % 18446744073709551616)
    (h0 : m % 256 < 255) (h1 : m / 256 % 256 < 255) (h2 : m / 65536 % 256 < 255) (hk : m / 16777216 % 256 = 255) : a / 16777216 % 256 = 255 := by
  omega

theorem digits_ff_4 (m a : Nat) (hm : m < 18446744073709551616)
    (ha : a = (18446744073709551616 - 72340172838076673 + (18446744073709551616 - 1 - m)) % 18446744073709551616)
    (h0 : m % 256 < 255) (h1 : m / 256 % 256 < 255) (h2 : m / 65536 % 256 < 255) (h3 : m / 16777216 % 256 < 255) (hk : m / 4294967296 % 256 = 255) : a / 4294967296 % 256 = 255 := by
  omega

theorem digits_ff_5 (m a : Nat) (hm : m < 18446744073709551616)
    (ha : a = (18446744073709551616 - 72340172838076673 + (18446744073709551616 - 1 - m)) % 18446744073709551616)
    (h0 : m % 256 < 255) (h1 : m / 256 % 256 < 255) (h2 : m / 65536 % 256 < 255) (h3 : m / 16777216 % 256 < 255) (h4 : m / 4294967296 % 256 < 255) (hk : m / 1099511627776 % 256 = 255) : a / 1099511627776 % 256 = 255 := by
  omega

theorem digits_ff_6 (m a : Nat) (hm : m < 18446744073709551616)
    (ha : a = (18446744073709551616 - 72340172838076673 + (18446744073709551616 - 1 - m)) % 18446744073709551616)
    (h0 : m % 256 < 255) (h1 : m / 256 % 256 < 255) (h2 : m / 65536 % 256 < 255) (h3 : m / 16777216 % 256 < 255) (h4 : m / 4294967296 % 256 < 255) (h5 : m / 1099511627776 % 256 < 255) (hk : m / 281474976710656 % 256 = 255) : a / 281474976710656 % 256 = 255 := by
  omega

theorem digits_ff_7 (m a : Nat) (hm : m < 18446744073709551616)
    (ha : a = (18446744073709551616 - 72340172838076673 + (18446744073709551616 - 1 - m)) % 18446744073709551616)
    (h0 : m % 256 < 255) (h1 : m / 256 % 256 < 255) (h2 : m / 65536 % 256 < 255) (h3 : m / 16777216 % 256 < 255) (h4 : m / 4294967296 % 256 < 255) (h5 : m / 1099511627776 % 256 < 255) (h6 : m / 281474976710656 % 256 < 255) (hk : m / 72057594037927936 % 256 = 255) : a / 72057594037927936 % 256 = 255 := by
  omega

theorem byte_and_zero (x y : BitVec 8) (h : x.toNat = 254 - y.toNat) (hy : y.toNat < 255) :
    x &&& y &&& 0x80#8 = 0#8 := by
  have := byte_no_ff y.toNat hy
  rw [← h] at this
  simpa [BitVec.ofNat_toNat] using this

theorem byte_and_ff (x y : BitVec 8) (hx : x.toNat = 255) (hy : y.toNat = 255) :
    x &&& y &&& 0x80#8 = 0x80#8 := by
  have ex : x = 0xFF#8 := BitVec.eq_of_toNat_eq (by simpa using hx)
  have ey : y = 0xFF#8 := BitVec.eq_of_toNat_eq (by simpa using hy)
  subst ex ey
  decide

theorem byteLsb_ne_ff_iff (v : BitVec 64) (i : Nat) :
    byteLsb v i ≠ 0xFF#8 ↔ (byteLsb v i).toNat < 255 := by
  constructor
  · intro h
    have := (byteLsb v i).isLt
    by_cases e : (byteLsb v i).toNat = 255
    · exact absurd (BitVec.eq_of_toNat_eq (by simpa using e)) h
    · omega
  · intro h e
    rw [e] at h
    simp at h

theorem hasFFByte_A_toNat (v : BitVec 64) :
    (~~~v - 0x0101010101010101#64).toNat
      = (18446744073709551616 - 72340172838076673 + (18446744073709551616 - 1 - v.toNat)) % 18446744073709551616 := by
  simp [BitVec.toNat_sub, BitVec.toNat_not]

theorem hasFFByte_false_of_no_ff (v : BitVec 64) (h : ∀ i, i < 8 → byteLsb v i ≠ 0xFF#8) :
    hasFFByte v = false := by
  have hA := hasFFByte_A_toNat v
  have hb : ∀ i, i < 8 → (byteLsb v i).toNat < 255 := fun i hi => (byteLsb_ne_ff_iff v i).1 (h i hi)
  have h0 := hb 0 (by omega)
  have h1 := hb 1 (by omega)
  have h2 := hb 2 (by omega)
  have h3 := hb 3 (by omega)
  have h4 := hb 4 (by omega)
  have h5 := hb 5 (by omega)
  have h6 := hb 6 (by omega)
  have h7 := hb 7 (by omega)
  simp only [byteLsb_toNat] at h0 h1 h2 h3 h4 h5 h6 h7
  simp only [Nat.reduceMul, Nat.reducePow, Nat.div_one] at h0 h1 h2 h3 h4 h5 h6 h7
  have hd := digits_no_ff v.toNat _ v.isLt hA h0 h1 h2 h3 h4 h5 h6 h7
  obtain ⟨d0, d1, d2, d3, d4, d5, d6, d7⟩ := hd
  have hz : (~~~v - 0x0101010101010101#64) &&& v &&& 0x8080808080808080#64 = 0#64 := by
    apply eq_zero_of_bytes
    intro i hi
    rw [byteLsb_and, byteLsb_and, byteLsb_H i hi]
    apply byte_and_zero
    · rw [byteLsb_toNat, byteLsb_toNat]
      match i, hi with
      | 0, _ => simpa using d0
      | 1, _ => simpa using d1
      | 2, _ => simpa using d2
      | 3, _ => simpa using d3
      | 4, _ => simpa using d4
      | 5, _ => simpa using d5
      | 6, _ => simpa using d6
      | 7, _ => simpa using d7
    · exact hb i hi
  simp [hasFFByte, hz]

theorem byteLsb_zero (i : Nat) : byteLsb 0#64 i = 0#8 := by
  simp [byteLsb]

theorem no_ff_of_hasFFByte_false (v : BitVec 64) (h : hasFFByte v = false) :
    ∀ i, i < 8 → byteLsb v i ≠ 0xFF#8 := by
  have hA := hasFFByte_A_toNat v
  have hz : (~~~v - 0x0101010101010101#64) &&& v &&& 0x8080808080808080#64 = 0#64 := by
    simpa [hasFFByte] using h
  -- a 0xFF byte at position k with none below makes byte k of the masked word 0x80
  have key : ∀ k, k < 8 → (byteLsb (~~~v - 0x0101010101010101#64) k).toNat = 255 →
      (byteLsb v k).toNat = 255 → False := by
    intro k hk ha hv
    have := congrArg (fun r => byteLsb r k) hz
    simp only [byteLsb_and, byteLsb_H k hk, byteLsb_zero] at this
    rw [byte_and_ff _ _ ha hv] at this
    exact absurd this (by decide)
  have lt_of_ne : ∀ k, (byteLsb v k).toNat ≠ 255 → (byteLsb v k).toNat < 255 := by
    intro k hne
    have := (byteLsb v k).isLt
    omega
  have b0 : v.toNat % 256 < 255 := by
    have hk := lt_of_ne 0
    simp only [byteLsb_toNat, Nat.reduceMul, Nat.reducePow, Nat.div_one] at hk
    apply hk
    intro e
    have ak := digits_ff_0 v.toNat _ v.isLt hA  e
    apply key 0 (by omega)
    · simpa [byteLsb_toNat] using ak
    · simpa [byteLsb_toNat] using e
  have b1 : v.toNat / 256 % 256 < 255 := by
    have hk := lt_of_ne 1
    simp only [byteLsb_toNat, Nat.reduceMul, Nat.reducePow] at hk
    apply hk
    intro e
    have ak := digits_ff_1 v.toNat _ v.isLt hA b0 e
    apply key 1 (by omega)
    · simpa [byteLsb_toNat] using ak
    · simpa [byteLsb_toNat] using e
  have b2 : v.toNat / 65536 % 256 < 255 := by
    have hk := lt_of_ne 2
    simp only [byteLsb_toNat, Nat.reduceMul, Nat.reducePow] at hk
    apply hk
    intro e
    have ak := digits_ff_2 v.toNat _ v.isLt hA b0 b1 e
    apply key 2 (by omega)
    · simpa [byteLsb_toNat] using ak
    · simpa [byteLsb_toNat] using e
  have b3 : v.toNat / 16777216 % 256 < 255 := by
    have hk := lt_of_ne 3
    simp only [byteLsb_toNat, Nat.reduceMul, Nat.reducePow] at hk
    apply hk
    intro e
    have ak := digits_ff_3 v.toNat _ v.isLt hA b0 b1 b2 e
    apply key 3 (by omega)
    · simpa [byteLsb_toNat] using ak
    · simpa [byteLsb_toNat] using e
  have b4 : v.toNat / 4294967296 % 256 < 255 := by
    have hk := lt_of_ne 4
    simp only [byteLsb_toNat, Nat.reduceMul, Nat.reducePow] at hk
    apply hk
    intro e
    have ak := digits_ff_4 v.toNat _ v.isLt hA b0 b1 b2 b3 e
    apply key 4 (by omega)
    · simpa [byteLsb_toNat] using ak
    · simpa [byteLsb_toNat] using e
  have b5 : v.toNat / 1099511627776 % 256 < 255 := by
    have hk := lt_of_ne 5
    simp only [byteLsb_toNat, Nat.reduceMul, Nat.reducePow] at hk
    apply hk
    intro e
    have ak := digits_ff_5 v.toNat _ v.isLt hA b0 b1 b2 b3 b4 e
    apply key 5 (by omega)
    · simpa [byteLsb_toNat] using ak
    · simpa [byteLsb_toNat] using e
  have b6 : v.toNat / 281474976710656 % 256 < 255 := by
    have hk := lt_of_ne 6
    simp only [byteLsb_toNat, Nat.reduceMul, Nat.reducePow] at hk
    apply hk
    intro e
    have ak := digits_ff_6 v.toNat _ v.isLt hA b0 b1 b2 b3 b4 b5 e
    apply key 6 (by omega)
    · simpa [byteLsb_toNat] using ak
    · simpa [byteLsb_toNat] using e
  have b7 : v.toNat / 72057594037927936 % 256 < 255 := by
    have hk := lt_of_ne 7
    simp only [byteLsb_toNat, Nat.reduceMul, Nat.reducePow] at hk
    apply hk
    intro e
    have ak := digits_ff_7 v.toNat _ v.isLt hA b0 b1 b2 b3 b4 b5 b6 e
    apply key 7 (by omega)
    · simpa [byteLsb_toNat] using ak
    · simpa [byteLsb_toNat] using e
  intro i hi
  rw [byteLsb_ne_ff_iff, byteLsb_toNat]
  match i, hi with
  | 0, _ => simpa using b0
  | 1, _ => simpa using b1
  | 2, _ => simpa using b2
  | 3, _ => simpa using b3
  | 4, _ => simpa using b4
  | 5, _ => simpa using b5
  | 6, _ => simpa using b6
  | 7, _ => simpa using b7

theorem hasFFByte_iff (v : BitVec 64) :
    hasFFByte v = true ↔ ∃ k, k < 8 ∧ byteOf v k = 0xFF#8 := by
  constructor
  · intro h
    apply Classical.byContradiction
    intro hne
    have : hasFFByte v = false := by
      apply hasFFByte_false_of_no_ff
      intro i hi e
      apply hne
      refine ⟨7 - i, by omega, ?_⟩
      rw [byteOf_eq_byteLsb v (7 - i) (by omega)]
      have : 7 - (7 - i) = i := by omega
      rw [this, e]
    rw [this] at h
    exact absurd h (by decide)
  · intro ⟨k, hk, e⟩
    cases hf : hasFFByte v with
    | true => rfl
    | false =>
      have := no_ff_of_hasFFByte_false v hf (7 - k) (by omega)
      rw [← byteOf_eq_byteLsb v k hk] at this
      exact absurd e this

/-! ## the writer's invariant -/

/-- `buf`, read from its most significant bit, spells `tail` followed by zeros -/
def Agree (buf : BitVec 64) (tail : List Bool) : Prop :=
  ∀ i, i < 64 → buf.getMsbD i = tail.getD i false

/-- `bits` = everything written so far: the part before the accumulator has been emitted
(packed and stuffed), the rest is in the accumulator. -/
def Inv (s : BW) (bits : List Bool) : Prop :=
  s.valid < 64 ∧ ∃ full tail, bits = full ++ tail ∧ full.length % 8 = 0 ∧ tail.length = s.valid ∧
    s.output = stuff (packBE full) ∧ Agree s.buf tail

theorem inv_new : Inv BW.new [] := by
  refine ⟨by simp [BW.new], [], [], rfl, rfl, rfl, ?_, ?_⟩
  · simp [BW.new, stuff, packBE]
  · intro i _; simp [BW.new]

theorem no_ff_beBytes (v : BitVec 64) (h : hasFFByte v = false) : ∀ b ∈ beBytes v, b ≠ 0xFF#8 := by
  intro b hb e
  simp only [beBytes, List.mem_map, List.mem_range] at hb
  obtain ⟨k, hk, rfl⟩ := hb
  have : hasFFByte v = true := (hasFFByte_iff v).2 ⟨k, hk, e⟩
  rw [h] at this
  exact absurd this (by decide)

theorem flushBuf_output (s : BW) (next : BitVec 64) :
    (flushBuf s next).output = s.output ++ stuff (beBytes s.buf) := by
  simp only [flushBuf]
  cases h : hasFFByte s.buf with
  | false => simp [stuff_eq_self _ (no_ff_beBytes _ h)]
  | true => simp [foldl_emitByte]

theorem packBE_of_word (out : BitVec 64) (l : List Bool) (n : Nat) (hn : n ≤ 8)
    (hlen : l.length = 8 * n) (hag : Agree out l) :
    packBE l = (List.range n).map (byteOf out) := by
  unfold packBE
  have : l.length / 8 = n := by omega
  rw [this]
  apply List.map_congr_left
  intro k hk
  simp only [List.mem_range] at hk
  apply BitVec.eq_of_getMsbD_eq
  intro j hj
  rw [bitsToByte_getMsbD _ j hj, byteOf_getMsbD out k j (by omega) hj, hag _ (by omega)]

theorem beBytes_take (v : BitVec 64) (n : Nat) (hn : n ≤ 8) :
    (beBytes v).take n = (List.range n).map (byteOf v) := by
  simp only [beBytes, ← List.map_take, List.take_range]
  congr 2
  omega

theorem opBits_huff_length (w : BitVec 64) (len : Nat) : (opBits (.huff w len)).length = len := by
  simp [opBits]

theorem opBits_huff_getD (w : BitVec 64) (len i : Nat) (hwf : ∀ i, len ≤ i → w.getMsbD i = false) :
    (opBits (.huff w len)).getD i false = w.getMsbD i := by
  simp only [opBits, List.getD_eq_getElem?_getD]
  by_cases h : i < len
  · simp [h]
  · simp [h, hwf i (by omega)]

/-- the accumulator after `buf |= bits >> valid` spells `tail ++ code` (its first 64 bits) -/
theorem agree_or (buf w : BitVec 64) (tail : List Bool) (len : Nat) (_hv : tail.length < 64)
    (hag : Agree buf tail) (hwf : ∀ i, len ≤ i → w.getMsbD i = false) :
    Agree (buf ||| (w >>> tail.length)) (tail ++ opBits (.huff w len)) := by
  intro i hi
  rw [BitVec.getMsbD_or, BitVec.getMsbD_ushiftRight, hag i hi]
  by_cases h : i < tail.length
  · simp [List.getD_eq_getElem?_getD, List.getElem?_append_left h, h]
  · have h' : tail.length ≤ i := by omega
    have e := opBits_huff_getD w len (i - tail.length) hwf
    simp only [List.getD_eq_getElem?_getD] at e ⊢
    rw [List.getElem?_append_right h', e]
    simp [h, hi]

theorem writeHuffman_inv (s s' : BW) (bits : List Bool) (w : BitVec 64) (len : Nat)
    (hinv : Inv s bits) (hlen : len ≤ 64) (hwf : ∀ i, len ≤ i → w.getMsbD i = false)
    (h : writeHuffman s w len = some s') : Inv s' (bits ++ opBits (.huff w len)) := by
  obtain ⟨hv, full, tail, hbits, hfull, htail, hout, hag⟩ := hinv
  have hag' := agree_or s.buf w tail len (by omega) hag hwf
  rw [htail] at hag'
  unfold writeHuffman at h
  have hv' : ¬ s.valid ≥ 64 := by omega
  simp only [hv', if_false] at h
  by_cases hge : s.valid + len ≥ 64
  · simp only [hge, if_true] at h
    have h1 : ¬ (s.valid + len - 64 > len) := by omega
    simp only [h1, if_false] at h
    by_cases hsh : len - (s.valid + len - 64) ≥ 64
    · simp [hsh] at h
    · simp only [hsh, if_false, Option.some.injEq] at h
      subst h
      have hshv : len - (s.valid + len - 64) = 64 - s.valid := by omega
      let all := tail ++ opBits (.huff w len)
      have hall : all.length = s.valid + len := by simp [all, htail, opBits_huff_length]
      refine ⟨by simp [flushBuf]; omega, full ++ all.take 64, all.drop 64, ?_, ?_, ?_, ?_, ?_⟩
      · rw [hbits, List.append_assoc, List.append_assoc, List.take_append_drop]
      · simp [List.length_take, hall]; omega
      · simp [flushBuf, List.length_drop, hall]
      · rw [flushBuf_output, packBE_append _ _ hfull, stuff_append, ← hout]
        congr 2
        rw [packBE_of_word (s.buf ||| w >>> s.valid) (all.take 64) 8 (by omega)
          (by simp [List.length_take, hall]; omega)]
        · rfl
        · intro i hi
          rw [hag' i hi]
          simp [List.getD_eq_getElem?_getD, hi, all]
      · intro i hi
        simp only [flushBuf, hshv]
        rw [BitVec.getMsbD_shiftLeft]
        have e := opBits_huff_getD w len (i + (64 - s.valid)) hwf
        simp only [List.getD_eq_getElem?_getD, List.getElem?_drop, all] at e ⊢
        have h' : tail.length ≤ 64 + i := by omega
        rw [List.getElem?_append_right h', ← e]
        congr 2
        omega
  · simp only [hge, if_false, Option.some.injEq] at h
    subst h
    refine ⟨by simp; omega, full, tail ++ opBits (.huff w len), ?_, hfull, ?_, hout, hag'⟩
    · rw [hbits, List.append_assoc]
    · simp [htail, opBits_huff_length]

theorem raw_as_huff (b : BitVec 64) (len : Nat) (_h0 : len ≠ 0) (hlen : len ≤ 64) :
    opBits (.huff (b <<< (64 - len)) len) = opBits (.raw b len)
    ∧ ∀ i, len ≤ i → (b <<< (64 - len)).getMsbD i = false := by
  constructor
  · simp only [opBits]
    apply List.map_congr_left
    intro i hi
    simp only [List.mem_range] at hi
    rw [BitVec.getMsbD_shiftLeft, BitVec.getMsbD_eq_getLsbD]
    have : decide (i + (64 - len) < 64) = true := by simp; omega
    rw [this, Bool.true_and]
    congr 1
    omega
  · intro i hi
    rw [BitVec.getMsbD_shiftLeft, BitVec.getMsbD_eq_getLsbD]
    have : decide (i + (64 - len) < 64) = false := by simp; omega
    rw [this, Bool.false_and]

theorem step_inv (s s' : BW) (bits : List Bool) (op : Op) (hinv : Inv s bits) (hwf : op.WF)
    (h : step s op = some s') : Inv s' (bits ++ opBits op) := by
  cases op with
  | huff w len => exact writeHuffman_inv s s' bits w len hinv hwf.1 hwf.2 h
  | raw b len =>
    simp only [step, writeRaw] at h
    by_cases h0 : len = 0
    · simp only [h0, if_true, Option.some.injEq] at h
      subst h
      simpa [h0, opBits] using hinv
    · simp only [h0, if_false] at h
      by_cases h64 : len > 64
      · simp [h64] at h
      · simp only [h64, if_false] at h
        have ⟨e, hz⟩ := raw_as_huff b len h0 (by omega)
        rw [← e]
        exact writeHuffman_inv s s' bits _ len hinv (by omega) hz h

theorem runFrom_inv (ops : List Op) : ∀ (s s' : BW) (bits : List Bool), Inv s bits →
    (∀ op ∈ ops, op.WF) → runFrom s ops = some s' → Inv s' (bits ++ specBits ops) := by
  induction ops with
  | nil =>
    intro s s' bits hinv _ h
    simp only [runFrom, Option.some.injEq] at h
    subst h
    simpa [specBits] using hinv
  | cons op ops ih =>
    intro s s' bits hinv hwf h
    simp only [runFrom] at h
    cases hs : step s op with
    | none => simp [hs] at h
    | some s1 =>
      simp only [hs] at h
      have := ih s1 s' (bits ++ opBits op) (step_inv s s1 bits op hinv (hwf op (by simp)) hs)
        (fun o ho => hwf o (by simp [ho])) h
      simpa [specBits, List.flatMap_cons, List.append_assoc] using this

theorem getD_append_replicate_false (l : List Bool) (n i : Nat) :
    (l ++ List.replicate n false).getD i false = l.getD i false := by
  simp only [List.getD_eq_getElem?_getD]
  by_cases h : i < l.length
  · rw [List.getElem?_append_left h]
  · have h' : l.length ≤ i := by omega
    rw [List.getElem?_append_right h', List.getElem?_eq_none h']
    by_cases h2 : i - l.length < n
    · simp [h2]
    · simp [h2]

theorem finalize_inv (s : BW) (bits : List Bool) (hinv : Inv s bits) :
    finalize s = stuff (packBE (padZero bits)) := by
  obtain ⟨hv, full, tail, hbits, hfull, htail, hout, hag⟩ := hinv
  have hblen : bits.length % 8 = s.valid % 8 := by
    rw [hbits, List.length_append, htail]; omega
  let z := (8 - s.valid % 8) % 8
  have hpad : padZero bits = full ++ (tail ++ List.replicate z false) := by
    simp only [padZero, hblen, z]
    rw [hbits, List.append_assoc]
  have hlen : (tail ++ List.replicate z false).length = 8 * ((s.valid + 7) / 8) := by
    simp only [List.length_append, List.length_replicate, htail, z]; omega
  have hag' : Agree s.buf (tail ++ List.replicate z false) := by
    intro i hi
    rw [getD_append_replicate_false, hag i hi]
  have hpk := packBE_of_word s.buf _ ((s.valid + 7) / 8) (by omega) hlen hag'
  rw [hpad, packBE_append _ _ hfull, stuff_append, ← hout, hpk]
  unfold finalize
  by_cases h0 : (s.valid + 7) / 8 = 0
  · simp [h0, stuff]
  · simp only [h0, if_false]
    cases hf : hasFFByte s.buf with
    | false =>
      simp only [Bool.not_false, if_true]
      rw [beBytes_take _ _ (by omega)]
      congr 1
      symm
      apply stuff_eq_self
      intro b hb
      apply no_ff_beBytes _ hf
      simp only [List.mem_map, List.mem_range] at hb
      obtain ⟨k, hk, rfl⟩ := hb
      simp only [beBytes, List.mem_map, List.mem_range]
      exact ⟨k, by omega, rfl⟩
    | true => simp [foldl_emitByte]


theorem writeHuffman_some (s : BW) (w : BitVec 64) (len : Nat) (hv : s.valid < 64) (hl : len ≤ 63) :
    ∃ s', writeHuffman s w len = some s' := by
  unfold writeHuffman
  have hv' : ¬ s.valid ≥ 64 := by omega
  simp only [hv', if_false]
  by_cases hge : s.valid + len ≥ 64
  · have h1 : ¬ (s.valid + len - 64 > len) := by omega
    have h2 : ¬ (len - (s.valid + len - 64) ≥ 64) := by omega
    simp only [hge, if_true, h1, if_false, h2]
    exact ⟨_, rfl⟩
  · simp only [hge, if_false]
    exact ⟨_, rfl⟩

theorem step_some (s : BW) (op : Op) (hv : s.valid < 64) (hl : op.len ≤ 63) :
    ∃ s', step s op = some s' := by
  cases op with
  | huff w len => exact writeHuffman_some s w len hv hl
  | raw b len =>
    simp only [step, writeRaw]
    by_cases h0 : len = 0
    · simp [h0]
    · have h64 : ¬ len > 64 := by simp only [Op.len] at hl; omega
      simp only [h0, if_false, h64]
      exact writeHuffman_some s _ len hv hl

theorem runFrom_some (ops : List Op) : ∀ (s : BW) (bits : List Bool), Inv s bits →
    (∀ op ∈ ops, op.WF) → (∀ op ∈ ops, op.len ≤ 63) → ∃ s', runFrom s ops = some s' := by
  induction ops with
  | nil => intro s _ _ _ _; exact ⟨s, rfl⟩
  | cons op ops ih =>
    intro s bits hinv hwf hl
    obtain ⟨s1, hs⟩ := step_some s op hinv.1 (hl op (by simp))
    have hinv1 := step_inv s s1 bits op hinv (hwf op (by simp)) hs
    obtain ⟨s', h'⟩ := ih s1 _ hinv1 (fun o ho => hwf o (by simp [ho])) (fun o ho => hl o (by simp [ho]))
    exact ⟨s', by simp [runFrom, hs, h']⟩

theorem inv_length_mod (s : BW) (bits : List Bool) (hinv : Inv s bits) :
    bits.length % 8 = s.valid % 8 := by
  obtain ⟨_, full, tail, hbits, hfull, htail, _, _⟩ := hinv
  rw [hbits, List.length_append, htail]; omega


/-- executable form of `Op.WF` -/
def Op.wfBool : Op → Bool
  | .huff w len => decide (len ≤ 64) && (List.range 64).all (fun i => !decide (len ≤ i) || !w.getMsbD i)
  | .raw _ _ => true

theorem wf_of_wfBool (op : Op) (h : op.wfBool = true) : op.WF := by
  cases op with
  | raw _ _ => trivial
  | huff w len =>
    simp only [Op.wfBool, Bool.and_eq_true, decide_eq_true_eq, List.all_eq_true, List.mem_range,
      Bool.or_eq_true, Bool.not_eq_true'] at h
    refine ⟨h.1, fun i hi => ?_⟩
    by_cases h64 : i < 64
    · rcases h.2 i h64 with h' | h'
      · simp at h'; omega
      · exact h'
    · simp [BitVec.getMsbD, h64]

theorem wf_of_all_wfBool (ops : List Op) (h : ops.all Op.wfBool = true) : ∀ op ∈ ops, op.WF := by
  intro op hop
  exact wf_of_wfBool op (List.all_eq_true.1 h op hop)

/-! ## expected lengths and the status decision -/

theorem expectedIccLen_total (app : List AppMarker) (h : ∀ am ∈ app, appMarkerOk am = true) :
    ∃ n, expectedIccLen app = some n := by
  induction app with
  | nil => exact ⟨0, rfl⟩
  | cons am rest ih =>
    obtain ⟨n, hn⟩ := ih (fun a ha => h a (by simp [ha]))
    simp only [expectedIccLen]
    by_cases ht : am.ty = 1
    · have hok := h am (by simp)
      simp only [appMarkerOk, ht, decide_eq_true_eq] at hok
      simp [ht, subChk, hok, hn]
    · simp [ht, hn]

theorem expectedFirstLen_total (ty hdr : Nat) (app : List AppMarker)
    (h : ∀ am ∈ app, am.ty = ty → 3 + hdr ≤ am.length) :
    ∃ n, expectedFirstLen ty hdr app = some n := by
  simp only [expectedFirstLen]
  cases hf : app.find? (fun am => decide (am.ty = ty)) with
  | none => exact ⟨0, rfl⟩
  | some am =>
    have hm := List.mem_of_find?_eq_some hf
    have ht := List.find?_some hf
    simp only [decide_eq_true_eq] at ht
    have := h am hm ht
    simp [subChk, this]

theorem status_available_iff (f : Facts) :
    status f = .available ↔
      f.jbrd = .data ∧ f.exifErr = false ∧
      (∃ icc exif xmp, expectedIccLen f.app = some icc ∧ expectedExifLen f.app = some exif ∧
        expectedXmpLen f.app = some xmp ∧
        (icc > 0 → f.wantIcc = true ∧ f.hasIcc = true) ∧
        (exif > 0 → f.exif = .data) ∧ (xmp > 0 → f.xml = .data)) ∧
      f.loadedFrames = 1 ∧ f.frame0 = some (true, true) := by
  constructor
  · intro h
    unfold status frameStatus at h
    repeat' split at h
    all_goals simp_all
    rename_i hfs hl0
    refine ⟨⟨fun h => ?_, fun h => ?_⟩, ?_⟩
    · cases hx : f.exif <;> simp_all
    · cases hm : f.xml <;> simp_all
    · by_cases h2 : 2 ≤ f.loadedFrames
      · simp [h2] at hfs
      · simp only [h2, if_false] at hfs
        refine ⟨by omega, ?_⟩
        cases hf0 : f.frame0 with
        | none => simp [hf0] at hfs
        | some p =>
          obtain ⟨a, b⟩ := p
          cases a <;> cases b <;> simp_all
  · intro ⟨h1, h2, ⟨icc, ex, xmp, e1, e2, e3, c1, c2, c3⟩, h4, h5⟩
    unfold status frameStatus
    simp only [h1, h2, e1, e2, e3, h4, h5]
    by_cases i0 : icc > 0 <;> by_cases x0 : ex > 0 <;> by_cases m0 : xmp > 0 <;> simp_all
theorem appMarkerOk_first (ty hdr : Nat) (app : List AppMarker)
    (h : ∀ am ∈ app, appMarkerOk am = true)
    (hc : (ty = 2 ∧ hdr = headerExifLen) ∨ (ty = 3 ∧ hdr = headerXmpLen)) :
    ∀ am ∈ app, am.ty = ty → 3 + hdr ≤ am.length := by
  intro am ham ht
  have hok := h am ham
  rcases hc with ⟨rfl, rfl⟩ | ⟨rfl, rfl⟩ <;> simpa [appMarkerOk, ht] using hok

theorem status_ne_panic (f : Facts) (h : ∀ am ∈ f.app, appMarkerOk am = true) :
    status f ≠ .panic := by
  obtain ⟨icc, e1⟩ := expectedIccLen_total f.app h
  obtain ⟨ex, e2⟩ := expectedFirstLen_total 2 headerExifLen f.app
    (appMarkerOk_first 2 _ f.app h (Or.inl ⟨rfl, rfl⟩))
  obtain ⟨xmp, e3⟩ := expectedFirstLen_total 3 headerXmpLen f.app
    (appMarkerOk_first 3 _ f.app h (Or.inr ⟨rfl, rfl⟩))
  have e2' : expectedExifLen f.app = some ex := e2
  have e3' : expectedXmpLen f.app = some xmp := e3
  unfold status frameStatus
  rw [e1, e2', e3']
  repeat' split
  all_goals simp_all


end Jxl.JpegBits
