import JxlModel.Model.Bundle
/-!
# F16 → f32: the converted pattern denotes the same number (C14)

`f16Scaled b` is the binary16 pattern `b` as a multiple of 2^-24, `f32Scaled x` the binary32
pattern `x` as a multiple of 2^-149 (both by the IEEE-754 field definition). The conversion
`f16ToF32Bits` (integer transcription of `Bitstream::read_f16_as_f32`) satisfies
`f32Scaled (f16ToF32Bits b) = f16Scaled b * 2^125` for every finite pattern. Core tactics only.
-/
namespace Jxl.Bundle

/-- the three fields of a binary16 pattern -/
theorem f16_fields (b : Nat) (hb : b < 65536) :
    ∃ s e m, s < 2 ∧ e < 32 ∧ m < 1024 ∧ b = s * 32768 + e * 1024 + m ∧
      b / 0x8000 % 2 = s ∧ b / 1024 % 32 = e ∧ b % 1024 = m :=
  ⟨b / 0x8000 % 2, b / 1024 % 32, b % 1024, by omega, by omega, by omega, by omega, rfl, rfl, rfl⟩

/-- a binary32 pattern assembled from its fields, read by `f32Scaled` -/
theorem f32Scaled_mk (s e m : Nat) (hs : s < 2) (he : e < 256) (hm : m < 8388608) :
    f32Scaled (s * 2147483648 + e * 8388608 + m) =
      (if s = 1 then -1 else 1) *
        (if e = 0 then (m : Int) else (((8388608 + m) * 2 ^ (e - 1) : Nat) : Int)) := by
  have h1 : (s * 2147483648 + e * 8388608 + m) / 0x80000000 % 2 = s := by omega
  have h2 : (s * 2147483648 + e * 8388608 + m) / 0x800000 % 256 = e := by omega
  have h3 : (s * 2147483648 + e * 8388608 + m) % 0x800000 = m := by omega
  simp only [f32Scaled, h1, h2, h3, beq_iff_eq, Int.ofNat_eq_natCast]
  by_cases hs1 : s = 1 <;> by_cases he0 : e = 0 <;> simp [hs1, he0]

/-- a binary16 pattern assembled from its fields, read by `f16Scaled` -/
theorem f16Scaled_mk (s e m : Nat) (hs : s < 2) (he : e < 32) (hm : m < 1024) :
    f16Scaled (s * 32768 + e * 1024 + m) =
      (if s = 1 then -1 else 1) *
        (if e = 0 then (m : Int) else (((1024 + m) * 2 ^ (e - 1) : Nat) : Int)) := by
  have h1 : (s * 32768 + e * 1024 + m) / 0x8000 % 2 = s := by omega
  have h2 : (s * 32768 + e * 1024 + m) / 1024 % 32 = e := by omega
  have h3 : (s * 32768 + e * 1024 + m) % 1024 = m := by omega
  simp only [f16Scaled, h1, h2, h3, beq_iff_eq, Int.ofNat_eq_natCast]
  by_cases hs1 : s = 1 <;> by_cases he0 : e = 0 <;> simp [hs1, he0]

/-- the conversion, on fields -/
theorem f16ToF32Bits_mk (s e m : Nat) (hs : s < 2) (he : e < 32) (hm : m < 1024) :
    f16ToF32Bits (s * 32768 + e * 1024 + m) =
      if e = 0 ∧ m = 0 then s * 2147483648
      else if e = 0 then
        s * 2147483648 + (Nat.log2 m + 103) * 8388608 + (m * 2 ^ (23 - Nat.log2 m)) % 8388608
      else s * 2147483648 + (e + 112) * 8388608 + m * 8192 := by
  have h1 : (s * 32768 + e * 1024 + m) / 0x8000 % 2 = s := by omega
  have h2 : (s * 32768 + e * 1024 + m) / 1024 % 32 = e := by omega
  have h3 : (s * 32768 + e * 1024 + m) % 1024 = m := by omega
  simp only [f16ToF32Bits, h1, h2, h3, Bool.and_eq_true, beq_iff_eq]

/-- a subnormal mantissa shifted so that its leading bit becomes the implicit one -/
theorem subnormal_shift (m : Nat) (h0 : m ≠ 0) (hm : m < 1024) :
    Nat.log2 m ≤ 9 ∧ 8388608 ≤ m * 2 ^ (23 - Nat.log2 m) ∧ m * 2 ^ (23 - Nat.log2 m) < 16777216 := by
  have hlo : 2 ^ Nat.log2 m ≤ m := Nat.log2_self_le h0
  have hhi : m < 2 ^ (Nat.log2 m + 1) := Nat.lt_log2_self
  have h9 : Nat.log2 m ≤ 9 := by
    have : Nat.log2 m < 10 := (Nat.log2_lt h0).mpr (by omega)
    omega
  refine ⟨h9, ?_, ?_⟩
  · calc 8388608 = 2 ^ Nat.log2 m * 2 ^ (23 - Nat.log2 m) := by
          rw [← Nat.pow_add, show Nat.log2 m + (23 - Nat.log2 m) = 23 by omega]
      _ ≤ m * 2 ^ (23 - Nat.log2 m) := Nat.mul_le_mul_right _ hlo
  · calc m * 2 ^ (23 - Nat.log2 m) < 2 ^ (Nat.log2 m + 1) * 2 ^ (23 - Nat.log2 m) :=
          Nat.mul_lt_mul_of_pos_right hhi (Nat.two_pow_pos _)
      _ = 16777216 := by
          rw [← Nat.pow_add, show Nat.log2 m + 1 + (23 - Nat.log2 m) = 24 by omega]

/-- value, finiteness and range of the converted pattern, on fields -/
theorem f16_value_mk (s e m : Nat) (hs : s < 2) (he : e < 31) (hm : m < 1024) :
    f32Scaled (f16ToF32Bits (s * 32768 + e * 1024 + m)) =
        f16Scaled (s * 32768 + e * 1024 + m) * 2 ^ 125 ∧
      f16ToF32Bits (s * 32768 + e * 1024 + m) / 0x800000 % 256 ≠ 255 ∧
      f16ToF32Bits (s * 32768 + e * 1024 + m) < 2 ^ 32 := by
  rw [f16ToF32Bits_mk s e m hs (by omega) hm, f16Scaled_mk s e m hs (by omega) hm]
  by_cases he0 : e = 0
  · by_cases hm0 : m = 0
    · -- signed zero
      subst he0; subst hm0
      have := f32Scaled_mk s 0 0 hs (by omega) (by omega)
      simp only [Nat.zero_mul, Nat.add_zero] at this
      simp only [and_self, if_true, this]
      refine ⟨by simp, by omega, by omega⟩
    · -- subnormal: m·2^-24 = (2^23 + frac)·2^(h+103-1)·2^-149
      subst he0
      obtain ⟨h9, hlo, hhi⟩ := subnormal_shift m hm0 hm
      have hmod : m * 2 ^ (23 - Nat.log2 m) % 8388608 = m * 2 ^ (23 - Nat.log2 m) - 8388608 := by
        omega
      simp only [hm0, and_false, if_false, if_true]
      rw [f32Scaled_mk s (Nat.log2 m + 103) _ hs (by omega) (by omega)]
      refine ⟨?_, by omega, by omega⟩
      have hne : Nat.log2 m + 103 ≠ 0 := by omega
      simp only [hne, if_false]
      have hk : 8388608 + m * 2 ^ (23 - Nat.log2 m) % 8388608 = m * 2 ^ (23 - Nat.log2 m) := by
        omega
      have hp : 2 ^ (23 - Nat.log2 m) * 2 ^ (Nat.log2 m + 103 - 1) = 2 ^ 125 := by
        rw [← Nat.pow_add, show 23 - Nat.log2 m + (Nat.log2 m + 103 - 1) = 125 by omega]
      rw [hk, Nat.mul_assoc, hp, Int.mul_assoc]
      congr 1
  · -- normal: (1024 + m)·2^(e-1)·2^-24 = (2^23 + m·2^13)·2^(e+112-1)·2^-149
    simp only [he0, false_and, if_false]
    rw [f32Scaled_mk s (e + 112) (m * 8192) hs (by omega) (by omega)]
    refine ⟨?_, by omega, by omega⟩
    have hne : e + 112 ≠ 0 := by omega
    simp only [hne, if_false]
    have hp : (8388608 + m * 8192) * 2 ^ (e + 112 - 1) = (1024 + m) * 2 ^ (e - 1) * 2 ^ 125 := by
      have e1 : e + 112 - 1 = (e - 1) + 112 := by omega
      have e2 : 8388608 + m * 8192 = (1024 + m) * 8192 := by omega
      rw [e1, e2, Nat.pow_add, Nat.mul_assoc, Nat.mul_assoc]
      congr 1
      rw [Nat.mul_left_comm]
    rw [hp, Int.mul_assoc]
    congr 1

/-- `f32Scaled (f16ToF32Bits b) = f16Scaled b · 2^125`, the result is a finite pattern below 2^32 -/
theorem f16_value_exact (b : Nat) (h : f16Valid b = true) :
    f32Scaled (f16ToF32Bits b) = f16Scaled b * 2 ^ 125 ∧
      f16ToF32Bits b / 0x800000 % 256 ≠ 255 ∧ f16ToF32Bits b < 2 ^ 32 := by
  simp only [f16Valid, Bool.and_eq_true, decide_eq_true_eq, bne_iff_ne, ne_eq] at h
  obtain ⟨s, e, m, hs, he, hm, hb, _, he', _⟩ := f16_fields b h.1
  have he31 : e < 31 := by have := h.2; omega
  rw [hb]
  exact f16_value_mk s e m hs he31 hm

/-- the conversion is injective on finite patterns (the two zeros stay distinct: `0x0000 ↦
0x00000000`, `0x8000 ↦ 0x80000000`) -/
theorem f16ToF32Bits_injective (a b : Nat) (ha : f16Valid a = true) (hb : f16Valid b = true)
    (hab : f16ToF32Bits a = f16ToF32Bits b) : a = b := by
  simp only [f16Valid, Bool.and_eq_true, decide_eq_true_eq, bne_iff_ne, ne_eq] at ha hb
  obtain ⟨s, e, m, hs, he, hm, hae, _, he', _⟩ := f16_fields a ha.1
  obtain ⟨s', e', m', hs', he'', hm', hbe, _, he''', _⟩ := f16_fields b hb.1
  have he31 : e < 31 := by have := ha.2; omega
  have he31' : e' < 31 := by have := hb.2; omega
  rw [hae, hbe] at hab ⊢
  rw [f16ToF32Bits_mk s e m hs he hm, f16ToF32Bits_mk s' e' m' hs' he'' hm'] at hab
  -- shifted subnormal mantissas, as opaque numbers with their ranges
  have sub : ∀ x, x ≠ 0 → x < 1024 → Nat.log2 x ≤ 9 ∧ 8388608 ≤ x * 2 ^ (23 - Nat.log2 x) ∧
      x * 2 ^ (23 - Nat.log2 x) < 16777216 := subnormal_shift
  -- (omega is asked for the fields, not for the reassembled patterns)
  suffices hf : s = s' ∧ e = e' ∧ m = m' by rw [hf.1, hf.2.1, hf.2.2]
  by_cases z : e = 0 ∧ m = 0 <;> by_cases z' : e' = 0 ∧ m' = 0
  · simp only [z, z', and_self, if_true] at hab; omega
  · simp only [z, z', and_self, if_true, if_false] at hab
    by_cases h0 : e' = 0
    · have hm0 : m' ≠ 0 := fun h => z' ⟨h0, h⟩
      obtain ⟨h9, hlo, hhi⟩ := sub m' hm0 hm'
      simp only [h0, if_true] at hab; omega
    · simp only [h0, if_false] at hab; omega
  · simp only [z, z', and_self, if_true, if_false] at hab
    by_cases h0 : e = 0
    · have hm0 : m ≠ 0 := fun h => z ⟨h0, h⟩
      obtain ⟨h9, hlo, hhi⟩ := sub m hm0 hm
      simp only [h0, if_true] at hab; omega
    · simp only [h0, if_false] at hab; omega
  · simp only [z, z', if_false] at hab
    by_cases h0 : e = 0 <;> by_cases h0' : e' = 0
    · -- both subnormal: same leading-bit position, same shifted mantissa
      have hm0 : m ≠ 0 := fun h => z ⟨h0, h⟩
      have hm0' : m' ≠ 0 := fun h => z' ⟨h0', h⟩
      obtain ⟨h9, hlo, hhi⟩ := sub m hm0 hm
      obtain ⟨h9', hlo', hhi'⟩ := sub m' hm0' hm'
      simp only [h0, h0', if_true] at hab
      have hl : Nat.log2 m = Nat.log2 m' := by omega
      have hss : s = s' := by omega
      rw [← hl] at hab hlo' hhi'
      have hmm : m * 2 ^ (23 - Nat.log2 m) = m' * 2 ^ (23 - Nat.log2 m) := by omega
      have : m = m' := Nat.eq_of_mul_eq_mul_right (Nat.two_pow_pos _) hmm
      omega
    · have hm0 : m ≠ 0 := fun h => z ⟨h0, h⟩
      obtain ⟨h9, hlo, hhi⟩ := sub m hm0 hm
      simp only [h0, h0', if_true, if_false] at hab; omega
    · have hm0' : m' ≠ 0 := fun h => z' ⟨h0', h⟩
      obtain ⟨h9', hlo', hhi'⟩ := sub m' hm0' hm'
      simp only [h0, h0', if_true, if_false] at hab; omega
    · simp only [h0, h0', if_false] at hab; omega

/-! ## the value determines the pattern, up to the sign of zero -/

/-- magnitude of a finite binary16 pattern in units of 2^-24 -/
def f16Mag (e m : Nat) : Nat := if e = 0 then m else (1024 + m) * 2 ^ (e - 1)

theorem f16Mag_bounds (e m : Nat) (hm : m < 1024) (he : e ≠ 0) :
    2 ^ (e + 9) ≤ f16Mag e m ∧ f16Mag e m < 2 ^ (e + 10) := by
  have e1 : 2 ^ (e + 9) = 1024 * 2 ^ (e - 1) := by
    rw [show e + 9 = 10 + (e - 1) by omega, Nat.pow_add]
  have e2 : 2 ^ (e + 10) = 2048 * 2 ^ (e - 1) := by
    rw [show e + 10 = 11 + (e - 1) by omega, Nat.pow_add]
  simp only [f16Mag, he, if_false, e1, e2]
  exact ⟨Nat.mul_le_mul_right _ (by omega),
    Nat.mul_lt_mul_of_pos_right (by omega) (Nat.two_pow_pos _)⟩

theorem f16Mag_inj (e m e' m' : Nat) (hm : m < 1024) (hm' : m' < 1024)
    (h : f16Mag e m = f16Mag e' m') : e = e' ∧ m = m' := by
  have key : ∀ a x b y, x < 1024 → y < 1024 → a < b → f16Mag a x ≠ f16Mag b y := by
    intro a x b y hx hy hab heq
    have hb := f16Mag_bounds b y hy (by omega)
    have hmono : 2 ^ (a + 10) ≤ 2 ^ (b + 9) := Nat.pow_le_pow_right (by decide) (by omega)
    by_cases ha : a = 0
    · have h10 : 2 ^ 10 ≤ 2 ^ (b + 9) := Nat.pow_le_pow_right (by decide) (by omega)
      subst ha
      have hx0 : f16Mag 0 x = x := by simp [f16Mag]
      rw [hx0] at heq
      have : (2 : Nat) ^ 10 = 1024 := by decide
      omega
    · have := f16Mag_bounds a x hx ha
      omega
  rcases Nat.lt_trichotomy e e' with hlt | heq | hgt
  · exact absurd h (key e m e' m' hm hm' hlt)
  · subst heq
    refine ⟨rfl, ?_⟩
    by_cases he : e = 0
    · simpa [f16Mag, he] using h
    · simp only [f16Mag, he, if_false] at h
      have := Nat.eq_of_mul_eq_mul_right (Nat.two_pow_pos _) h
      omega
  · exact absurd h.symm (key e' m' e m hm' hm hgt)

/-- equal values ⇒ equal patterns, except for the two zeros -/
theorem f16Scaled_injective_up_to_zero (a b : Nat) (ha : f16Valid a = true) (hb : f16Valid b = true)
    (hab : f16Scaled a = f16Scaled b) : a = b ∨ (a % 32768 = 0 ∧ b % 32768 = 0) := by
  simp only [f16Valid, Bool.and_eq_true, decide_eq_true_eq, bne_iff_ne, ne_eq] at ha hb
  obtain ⟨s, e, m, hs, he, hm, hae, _, _, _⟩ := f16_fields a ha.1
  obtain ⟨s', e', m', hs', he', hm', hbe, _, _, _⟩ := f16_fields b hb.1
  rw [hae, hbe] at hab
  rw [f16Scaled_mk s e m hs he hm, f16Scaled_mk s' e' m' hs' he' hm'] at hab
  have hA : (if e = 0 then (m : Int) else (((1024 + m) * 2 ^ (e - 1) : Nat) : Int)) = ((f16Mag e m : Nat) : Int) := by
    unfold f16Mag; split <;> rfl
  have hB : (if e' = 0 then (m' : Int) else (((1024 + m') * 2 ^ (e' - 1) : Nat) : Int)) = ((f16Mag e' m' : Nat) : Int) := by
    unfold f16Mag; split <;> rfl
  rw [hA, hB] at hab
  have hz : ∀ e m, f16Mag e m = 0 → m < 1024 → e = 0 ∧ m = 0 := by
    intro e m h0 hm
    by_cases he : e = 0
    · simp only [f16Mag, he, if_true] at h0; exact ⟨he, h0⟩
    · have := (f16Mag_bounds e m hm he).1
      have := Nat.two_pow_pos (e + 9)
      omega
  by_cases hmag : f16Mag e m = f16Mag e' m'
  · obtain ⟨h1, h2⟩ := f16Mag_inj e m e' m' hm hm' hmag
    by_cases hss : s = s'
    · left; rw [hae, hbe, hss, h1, h2]
    · -- opposite signs and equal magnitudes: both are zero
      right
      have h0 : f16Mag e m = 0 := by
        rw [← hmag] at hab
        rcases (by omega : (s = 0 ∧ s' = 1) ∨ (s = 1 ∧ s' = 0)) with ⟨p, q⟩ | ⟨p, q⟩ <;>
          simp [p, q] at hab <;> omega
      obtain ⟨z1, z2⟩ := hz e m h0 hm
      obtain ⟨z3, z4⟩ := hz e' m' (hmag ▸ h0) hm'
      omega
  · exfalso
    apply hmag
    rcases (by omega : s = 0 ∨ s = 1) with p | p <;> rcases (by omega : s' = 0 ∨ s' = 1) with q | q <;>
      simp [p, q] at hab <;> omega

/-- equal reported values ⇒ equal patterns, except for the two zeros -/
theorem f16_value_injective_up_to_zero (a b : Nat) (ha : f16Valid a = true) (hb : f16Valid b = true)
    (hab : f32Scaled (f16ToF32Bits a) = f32Scaled (f16ToF32Bits b)) :
    a = b ∨ (a % 32768 = 0 ∧ b % 32768 = 0) := by
  rw [(f16_value_exact a ha).1, (f16_value_exact b hb).1] at hab
  exact f16Scaled_injective_up_to_zero a b ha hb
    (Int.eq_of_mul_eq_mul_right (by decide) hab)

end Jxl.Bundle
