import JxlModel.Model.Feed
import JxlModel.Proofs.Container
/-!
# Lemmas about the feeding state machine (`Model/Feed.lean`)
-/
namespace Jxl.Feed
open Jxl.Container (Bytes)

/-! ## prefix stability -/

/-- third form of prefix stability: `needMore` on a buffer means `needMore` on every prefix -/
theorem PrefixStable.needMore_of_append {α : Type} {p : Bytes → Res α} (h : PrefixStable p)
    (a b : Bytes) (hn : p (a ++ b) = .needMore) : p a = .needMore := by
  cases ha : p a with
  | ok v n => rw [h.ok_ext a b v n ha] at hn; cases hn
  | needMore => rfl
  | err => rw [h.err_ext a b ha] at hn; cases hn

/-! ## `fill` (`Frame::feed_bytes`) -/

theorem fill_nil_pending (filled : List Bytes) (cur buf : Bytes) :
    fill filled cur [] buf = ⟨filled, cur, [], buf⟩ := by simp [fill]

theorem fill_cons_lt (filled : List Bytes) (cur buf : Bytes) (sz : Nat) (more : List Nat)
    (h : buf.length < sz - cur.length) :
    fill filled cur (sz :: more) buf = ⟨filled, cur ++ buf, sz :: more, []⟩ := by
  rw [fill, if_pos h]

theorem fill_cons_ge (filled : List Bytes) (cur buf : Bytes) (sz : Nat) (more : List Nat)
    (h : ¬ buf.length < sz - cur.length) :
    fill filled cur (sz :: more) buf =
      fill (filled ++ [cur ++ buf.take (sz - cur.length)]) [] more (buf.drop (sz - cur.length)) := by
  rw [fill, if_neg h]

/-- feeding `a ++ b` = feeding `a`, then what `a` left over followed by `b` -/
theorem fill_append (b : Bytes) : ∀ (pending : List Nat) (filled : List Bytes) (cur a : Bytes),
    fill filled cur pending (a ++ b) =
      fill (fill filled cur pending a).filled (fill filled cur pending a).cur
        (fill filled cur pending a).pending ((fill filled cur pending a).rest ++ b) := by
  intro pending
  induction pending with
  | nil => intro filled cur a; simp [fill]
  | cons sz more ih =>
    intro filled cur a
    by_cases h1 : a.length < sz - cur.length
    · -- `a` alone does not complete the section
      rw [fill_cons_lt _ _ _ _ _ h1]
      simp only [List.nil_append]
      by_cases h2 : (a ++ b).length < sz - cur.length
      · have h3 : b.length < sz - (cur ++ a).length := by
          simp only [List.length_append] at h2 ⊢; omega
        rw [fill_cons_lt _ _ _ _ _ h2, fill_cons_lt _ _ _ _ _ h3, List.append_assoc]
      · have h3 : ¬ b.length < sz - (cur ++ a).length := by
          simp only [List.length_append] at h2 ⊢; omega
        have hl : sz - (cur ++ a).length = sz - cur.length - a.length := by
          simp only [List.length_append]; omega
        have ht : (a ++ b).take (sz - cur.length) = a ++ b.take (sz - cur.length - a.length) := by
          rw [List.take_append]
          rw [List.take_of_length_le (by omega)]
        have hd : (a ++ b).drop (sz - cur.length) = b.drop (sz - cur.length - a.length) := by
          rw [List.drop_append]
          rw [List.drop_of_length_le (by omega)]; simp
        rw [fill_cons_ge _ _ _ _ _ h2, fill_cons_ge _ _ _ _ _ h3, ht, hd, hl, List.append_assoc]
    · have h2 : ¬ (a ++ b).length < sz - cur.length := by
        simp only [List.length_append]; omega
      have ht : (a ++ b).take (sz - cur.length) = a.take (sz - cur.length) := by
        rw [List.take_append]
        have : sz - cur.length - a.length = 0 := by omega
        simp [this]
      have hd : (a ++ b).drop (sz - cur.length) = a.drop (sz - cur.length) ++ b := by
        rw [List.drop_append]
        have : sz - cur.length - a.length = 0 := by omega
        simp [this]
      rw [fill_cons_ge _ _ _ _ _ h1, fill_cons_ge _ _ _ _ _ h2, ht, hd]
      exact ih _ _ _

/-- what is left over is a suffix; a frame that is not done took everything -/
theorem fill_rest (pending : List Nat) : ∀ (filled : List Bytes) (cur buf : Bytes),
    (fill filled cur pending buf).rest.length ≤ buf.length ∧
    ((fill filled cur pending buf).pending ≠ [] → (fill filled cur pending buf).rest = []) := by
  induction pending with
  | nil => intro filled cur buf; simp [fill]
  | cons sz more ih =>
    intro filled cur buf
    by_cases h1 : buf.length < sz - cur.length
    · rw [fill_cons_lt _ _ _ _ _ h1]; simp
    · rw [fill_cons_ge _ _ _ _ _ h1]
      have := ih (filled ++ [cur ++ buf.take (sz - cur.length)]) [] (buf.drop (sz - cur.length))
      refine ⟨?_, this.2⟩
      have h := this.1
      simp only [List.length_drop] at h
      omega

/-- a completed frame passes everything through -/
theorem fill_done (filled : List Bytes) (cur buf : Bytes) :
    fill filled cur [] buf = ⟨filled, cur, [], buf⟩ := fill_nil_pending filled cur buf

theorem FrameSt.feed_append (f : FrameSt) (a b : Bytes) :
    f.feed (a ++ b) = (f.feed a).1.feed ((f.feed a).2 ++ b) := by
  simp only [FrameSt.feed]
  rw [fill_append b f.pending f.filled f.cur a]

theorem FrameSt.feed_rest_le (f : FrameSt) (buf : Bytes) : (f.feed buf).2.length ≤ buf.length :=
  (fill_rest f.pending f.filled f.cur buf).1

theorem FrameSt.feed_not_done (f : FrameSt) (buf : Bytes) (h : (f.feed buf).1.done = false) :
    (f.feed buf).2 = [] := by
  apply (fill_rest f.pending f.filled f.cur buf).2
  simpa [FrameSt.feed, FrameSt.done] using h

theorem FrameSt.feed_of_done (f : FrameSt) (buf : Bytes) (h : f.done = true) :
    f.feed buf = (f, buf) := by
  cases f with
  | mk info filled cur pending =>
    simp only [FrameSt.done, List.isEmpty_iff] at h
    subst h
    simp [FrameSt.feed, fill]

theorem FrameSt.feed_info (f : FrameSt) (buf : Bytes) : (f.feed buf).1.info = f.info := rfl

variable {Hdr : Type}

/-! ## the `while` loop of `feed_bytes_inner` -/

/-- equal up to the carry-over buffer -/
def Inner.sameBut (a b : Inner Hdr) : Prop :=
  a.hdr = b.hdr ∧ a.frames = b.frames ∧ a.loading = b.loading ∧ a.bufferOffset = b.bufferOffset ∧
    a.frameOffsets = b.frameOffsets ∧ a.endOfImage = b.endOfImage

/-- the loop never reads `st.buffer` (every exit overwrites it) -/
theorem loopN_sameBut (P : Parsers Hdr) : ∀ (f : Nat) (st st' : Inner Hdr) (x : Bytes),
    st.sameBut st' → loopN P f st x = loopN P f st' x := by
  intro f
  induction f with
  | zero => intro st st' x _; rfl
  | succ f ih =>
    intro st st' x h
    obtain ⟨h1, h2, h3, h4, h5, h6⟩ := h
    simp only [loopN, Inner.infos, h1, h2, h3, h4, h5, h6]
    split
    · rfl
    · split
      · rfl
      · rfl
      · split
        · split
          · rfl
          · apply ih
            simp [Inner.sameBut, h1, h2, h3, h4, h5, h6]
        · rfl



theorem drop_length_lt (x : Bytes) (n : Nat) (hx : x.isEmpty = false) (hn : 0 < n) :
    (x.drop n).length < x.length := by
  have : 0 < x.length := by
    cases x with
    | nil => simp at hx
    | cons a t => simp
  simp only [List.length_drop]; omega

/-- the fuel `buf.length + 1` is never exhausted: any larger amount gives the same result -/
theorem loopN_fuel (P : Parsers Hdr) (hP : P.Stable) : ∀ (f1 f2 : Nat) (st : Inner Hdr) (x : Bytes),
    x.length < f1 → x.length < f2 → loopN P f1 st x = loopN P f2 st x := by
  intro f1
  induction f1 with
  | zero => intro f2 st x h; omega
  | succ f1 ih =>
    intro f2 st x h1 h2
    cases f2 with
    | zero => omega
    | succ f2 =>
      simp only [loopN]
      split
      · rfl
      · rename_i hx
        split
        · rfl
        · rfl
        · rename_i fi n hp
          have hn := hP.frame_pos _ _ _ _ _ hp
          have hl := drop_length_lt x n (by simpa using hx) hn
          have hr := FrameSt.feed_rest_le (FrameSt.new fi) (x.drop n)
          split
          · split
            · rfl
            · apply ih <;> omega
          · rfl

theorem feedInner_nil (P : Parsers Hdr) (st : Inner Hdr) : feedInner P st [] = some st := by
  simp [feedInner]

theorem isEmpty_append_right (x b : Bytes) (hb : b.isEmpty = false) : (x ++ b).isEmpty = false := by
  cases x <;> simp_all

theorem loopN_nil (P : Parsers Hdr) (f : Nat) (st : Inner Hdr) :
    loopN P (f + 1) st [] = some { st with buffer := [] } := by simp [loopN]

theorem loopN_cons (P : Parsers Hdr) (f : Nat) (st : Inner Hdr) (x : Bytes) (hx : x.isEmpty = false) :
    loopN P (f + 1) st x =
      match P.frame st.hdr st.infos x with
      | .needMore => some { st with buffer := x }
      | .err => none
      | .ok fi n =>
        let offs := st.frameOffsets ++ [st.bufferOffset]
        let r := (FrameSt.new fi).feed (x.drop n)
        let off := st.bufferOffset + (n + ((x.drop n).length - r.2.length))
        if r.1.done then
          let st' : Inner Hdr :=
            { st with frames := st.frames ++ [r.1], loading := none, frameOffsets := offs,
                      bufferOffset := off }
          if fi.isLast then some { st' with endOfImage := true, buffer := r.2 }
          else loopN P f st' r.2
        else if r.2.isEmpty then
          some { st with loading := some r.1, frameOffsets := offs, bufferOffset := off,
                         buffer := [] }
        else none := by
  rw [loopN]; simp only [hx, Bool.false_eq_true, if_false]; rfl

/-- `feedInner` on a state with no loading frame, not at the end, non-empty input -/
theorem feedInner_idle (P : Parsers Hdr) (st : Inner Hdr) (b : Bytes) (hb : b.isEmpty = false)
    (hl : st.loading = none) (he : st.endOfImage = false) :
    feedInner P st b = loop P st (st.buffer ++ b) := by
  simp [feedInner, hb, hl, he]

theorem feedInner_end (P : Parsers Hdr) (st : Inner Hdr) (b : Bytes) (hb : b.isEmpty = false)
    (he : st.endOfImage = true) :
    feedInner P st b = some { st with buffer := st.buffer ++ b } := by
  simp [feedInner, hb, he]

theorem feedInner_loading (P : Parsers Hdr) (st : Inner Hdr) (lf : FrameSt) (b : Bytes)
    (hb : b.isEmpty = false) (hl : st.loading = some lf) (he : st.endOfImage = false) :
    feedInner P st b =
      (let r := lf.feed b
       let off := st.bufferOffset + (b.length - r.2.length)
       if r.1.done then
         let st' : Inner Hdr :=
           { st with frames := st.frames ++ [r.1], loading := none, bufferOffset := off }
         if r.1.info.isLast then some { st' with endOfImage := true, buffer := r.2 }
         else if r.2.isEmpty then some st'
         else loop P st' (st'.buffer ++ r.2)
       else if r.2.isEmpty then some { st with loading := some r.1, bufferOffset := off }
       else none) := by
  rw [feedInner]; simp only [hb, he, hl, Bool.false_eq_true, if_false]

theorem drop_append_le (x b : Bytes) (n : Nat) (h : n ≤ x.length) : (x ++ b).drop n = x.drop n ++ b := by
  rw [List.drop_append]
  have : n - x.length = 0 := by omega
  simp [this]

theorem loop_append (P : Parsers Hdr) (hP : P.Stable) (b : Bytes) (hb : b.isEmpty = false) :
    ∀ (f : Nat) (st : Inner Hdr) (x : Bytes), x.length < f → st.loading = none →
      st.endOfImage = false →
      (loopN P f st x).bind (fun s => feedInner P s b) = loop P st (x ++ b) := by
  intro f
  induction f with
  | zero => intro st x h; omega
  | succ f ih =>
    intro st x hf hl he
    by_cases hx : x.isEmpty = true
    · have : x = [] := by simpa using hx
      subst this
      rw [loopN_nil]
      show feedInner P _ b = _
      rw [feedInner_idle P _ b hb (by simpa using hl) (by simpa using he)]
      simp only [List.nil_append]
      unfold loop
      apply loopN_sameBut
      simp [Inner.sameBut]
    · have hx' : x.isEmpty = false := by simpa using hx
      have hxb := isEmpty_append_right x b hb
      rw [loopN_cons P f st x hx']
      cases hp : P.frame st.hdr st.infos x with
      | needMore =>
        show feedInner P _ b = _
        rw [feedInner_idle P _ b hb (by simpa using hl) (by simpa using he)]
        unfold loop
        apply loopN_sameBut
        simp [Inner.sameBut]
      | err =>
        unfold loop
        rw [loopN_cons P _ st (x ++ b) hxb, (hP.frame _ _).err_ext x b hp]
        rfl
      | ok fi n =>
        have hn := hP.frame_pos _ _ _ _ _ hp
        have hle := (hP.frame _ _).ok_le _ _ _ hp
        have hdl := drop_length_lt x n hx' hn
        unfold loop
        rw [loopN_cons P _ st (x ++ b) hxb, (hP.frame _ _).ok_ext x b fi n hp]
        simp only [drop_append_le x b n hle]
        rw [FrameSt.feed_append (FrameSt.new fi) (x.drop n) b]
        have hr := FrameSt.feed_rest_le (FrameSt.new fi) (x.drop n)
        generalize hR : (FrameSt.new fi).feed (x.drop n) = r at hr ⊢
        have hinfo : r.1.info = fi := by rw [← hR]; rfl
        by_cases hd : r.1.done = true
        · rw [FrameSt.feed_of_done r.1 _ hd]
          simp only [hd, if_true]
          have hlen : (x.drop n ++ b).length - (r.2 ++ b).length = (x.drop n).length - r.2.length := by
            simp only [List.length_append]; omega
          rw [hlen]
          by_cases hlast : fi.isLast = true
          · simp only [hlast, if_true]
            show feedInner P _ b = _
            rw [feedInner_end P _ b hb rfl]
          · have hlast' : fi.isLast = false := by simpa using hlast
            simp only [hlast', Bool.false_eq_true, if_false]
            rw [ih _ r.2 (by omega) rfl (by simpa using he)]
            unfold loop
            apply loopN_fuel P hP
            · omega
            · simp only [List.length_append]; omega
        · have hd' : r.1.done = false := by simpa using hd
          have hr2 : r.2 = [] := by rw [← hR] at hd' ⊢; exact FrameSt.feed_not_done _ _ hd'
          simp only [hd', Bool.false_eq_true, if_false, hr2, List.isEmpty_nil, if_true, List.nil_append,
            List.length_nil, Nat.sub_zero]
          show feedInner P _ b = _
          rw [feedInner_loading P _ r.1 b hb rfl (by simpa using he)]
          have hr' := FrameSt.feed_rest_le r.1 b
          generalize hR' : r.1.feed b = r' at hr' ⊢
          have hinfo' : r'.1.info = fi := by rw [← hR', ← hinfo]; rfl
          simp only [hinfo']
          have hoff : st.bufferOffset + (n + (x.drop n).length) + (b.length - r'.2.length) =
              st.bufferOffset + (n + ((x.drop n ++ b).length - r'.2.length)) := by
            simp only [List.length_append]; omega
          by_cases hd2 : r'.1.done = true
          · simp only [hd2, if_true, hoff]
            by_cases hlast : fi.isLast = true
            · simp only [hlast, if_true]
            · have hlast' : fi.isLast = false := by simpa using hlast
              simp only [hlast', Bool.false_eq_true, if_false]
              by_cases he2 : r'.2.isEmpty = true
              · have : r'.2 = [] := by simpa using he2
                simp only [he2, if_true, this]
                have hk : (x ++ b).length = ((x ++ b).length - 1) + 1 := by
                  have : 0 < (x ++ b).length := by
                    cases h : x ++ b with
                    | nil => simp [h] at hxb
                    | cons a t => simp
                  omega
                rw [hk, loopN_nil]
                simp
              · simp only [he2, if_false, List.nil_append]
                unfold loop
                rw [loopN_fuel P hP (r'.2.length + 1) ((x ++ b).length) _ r'.2 (by omega)
                  (by simp only [List.length_append]; omega)]
                apply loopN_sameBut
                simp [Inner.sameBut]
          · have hd2' : r'.1.done = false := by simpa using hd2
            simp only [hd2', Bool.false_eq_true, if_false, hoff]

theorem bind_feedInner_nil (P : Parsers Hdr) (r : Option (Inner Hdr)) :
    r.bind (fun s => feedInner P s []) = r := by
  cases r <;> simp [feedInner_nil]

/-- **2-way chunking lemma for `feed_bytes_inner`**: from any state, feeding `a` and then `b` is
feeding `a ++ b` (same final state, or an error in both). -/
theorem feedInner_append (P : Parsers Hdr) (hP : P.Stable) (st : Inner Hdr) (a b : Bytes) :
    (feedInner P st a).bind (fun s => feedInner P s b) = feedInner P st (a ++ b) := by
  by_cases ha : a.isEmpty = true
  · have : a = [] := by simpa using ha
    subst this
    rw [feedInner_nil]; rfl
  by_cases hb : b.isEmpty = true
  · have : b = [] := by simpa using hb
    subst this
    rw [bind_feedInner_nil, List.append_nil]
  have ha' : a.isEmpty = false := by simpa using ha
  have hb' : b.isEmpty = false := by simpa using hb
  have hab := isEmpty_append_right a b hb'
  by_cases he : st.endOfImage = true
  · rw [feedInner_end P st a ha' he, feedInner_end P st (a ++ b) hab he]
    show feedInner P _ b = _
    rw [feedInner_end P _ b hb' (by simpa using he)]
    simp
  have he' : st.endOfImage = false := by simpa using he
  cases hl : st.loading with
  | none =>
    rw [feedInner_idle P st a ha' hl he', feedInner_idle P st (a ++ b) hab hl he']
    unfold loop
    rw [loop_append P hP b hb' _ st (st.buffer ++ a) (by omega) hl he', List.append_assoc]
    rfl
  | some lf =>
    rw [feedInner_loading P st lf a ha' hl he', feedInner_loading P st lf (a ++ b) hab hl he']
    rw [FrameSt.feed_append lf a b]
    have hr := FrameSt.feed_rest_le lf a
    generalize hR : lf.feed a = r at hr ⊢
    by_cases hd : r.1.done = true
    · rw [FrameSt.feed_of_done r.1 _ hd]
      simp only [hd, if_true]
      have hlen : (a ++ b).length - (r.2 ++ b).length = a.length - r.2.length := by
        simp only [List.length_append]; omega
      rw [hlen]
      by_cases hlast : r.1.info.isLast = true
      · simp only [hlast, if_true]
        show feedInner P _ b = _
        rw [feedInner_end P _ b hb' rfl]
      · have hlast' : r.1.info.isLast = false := by simpa using hlast
        simp only [hlast', Bool.false_eq_true, if_false]
        have hrb : (r.2 ++ b).isEmpty = false := isEmpty_append_right r.2 b hb'
        simp only [hrb, Bool.false_eq_true, if_false]
        by_cases he2 : r.2.isEmpty = true
        · have : r.2 = [] := by simpa using he2
          simp only [he2, if_true, this, List.nil_append]
          show feedInner P _ b = _
          rw [feedInner_idle P _ b hb' rfl (by simpa using he')]
        · have he2' : r.2.isEmpty = false := by simpa using he2
          simp only [he2', Bool.false_eq_true, if_false]
          unfold loop
          rw [loop_append P hP b hb' _ _ _ (by omega) rfl (by simpa using he'), List.append_assoc]
          rfl
    · have hd' : r.1.done = false := by simpa using hd
      have hr2 : r.2 = [] := by rw [← hR] at hd' ⊢; exact FrameSt.feed_not_done _ _ hd'
      simp only [hd', Bool.false_eq_true, if_false, hr2, List.isEmpty_nil, if_true, List.nil_append,
        List.length_nil, Nat.sub_zero]
      show feedInner P _ b = _
      rw [feedInner_loading P _ r.1 b hb' rfl (by simpa using he')]
      have hr' := FrameSt.feed_rest_le r.1 b
      generalize hR' : r.1.feed b = r' at hr' ⊢
      have hoff : st.bufferOffset + a.length + (b.length - r'.2.length) =
          st.bufferOffset + ((a ++ b).length - r'.2.length) := by
        simp only [List.length_append]; omega
      simp only [hoff]

theorem feedInnerAll_flatten (P : Parsers Hdr) (hP : P.Stable) : ∀ (chunks : List Bytes) (st : Inner Hdr),
    feedInnerAll P st chunks = feedInner P st chunks.flatten := by
  intro chunks
  induction chunks with
  | nil => intro st; simp [feedInnerAll, feedInner_nil]
  | cons c cs ih =>
    intro st
    rw [List.flatten_cons, ← feedInner_append P hP st c cs.flatten]
    cases h : feedInner P st c with
    | none => simp [feedInnerAll, h]
    | some s => simp [feedInnerAll, h, ih]

/-! ## `try_init` -/

theorem initParse_stable (P : Parsers Hdr) (hP : P.Stable) : PrefixStable (initParse P) := by
  constructor
  · intro a b v n h
    unfold initParse at h ⊢
    cases hh : P.head a with
    | needMore => simp [hh] at h
    | err => simp [hh] at h
    | ok hd k =>
      have hk := hP.head.ok_le _ _ _ hh
      rw [hP.head.ok_ext a b hd k hh]
      simp only [hh] at h ⊢
      by_cases hp : P.hasPreview hd = true
      · simp only [hp, if_true] at h ⊢
        rw [drop_append_le a b k hk]
        cases hq : P.preview hd (a.drop k) with
        | needMore => simp [hq] at h
        | err => simp [hq] at h
        | ok fi m =>
          rw [(hP.preview hd).ok_ext _ b fi m hq]
          simp only [hq] at h ⊢
          by_cases hlen : a.length < k + m + fi.sizes.sum
          · simp [hlen] at h
          · simp only [hlen, if_false] at h
            have : ¬ (a ++ b).length < k + m + fi.sizes.sum := by
              simp only [List.length_append]; omega
            simp only [this, if_false]
            exact h
      · have hp' : P.hasPreview hd = false := by simpa using hp
        simp only [hp', Bool.false_eq_true, if_false] at h ⊢
        exact h
  · intro a v n h
    unfold initParse at h
    cases hh : P.head a with
    | needMore => simp [hh] at h
    | err => simp [hh] at h
    | ok hd k =>
      have hk := hP.head.ok_le _ _ _ hh
      simp only [hh] at h
      by_cases hp : P.hasPreview hd = true
      · simp only [hp, if_true] at h
        cases hq : P.preview hd (a.drop k) with
        | needMore => simp [hq] at h
        | err => simp [hq] at h
        | ok fi m =>
          simp only [hq] at h
          by_cases hlen : a.length < k + m + fi.sizes.sum
          · simp [hlen] at h
          · simp only [hlen, if_false, Res.ok.injEq] at h
            omega
      · have hp' : P.hasPreview hd = false := by simpa using hp
        simp only [hp', Bool.false_eq_true, if_false, Res.ok.injEq] at h
        omega
  · intro a b h
    unfold initParse at h ⊢
    cases hh : P.head a with
    | needMore => simp [hh] at h
    | err => rw [hP.head.err_ext a b hh]
    | ok hd k =>
      have hk := hP.head.ok_le _ _ _ hh
      rw [hP.head.ok_ext a b hd k hh]
      simp only [hh] at h ⊢
      by_cases hp : P.hasPreview hd = true
      · simp only [hp, if_true] at h ⊢
        rw [drop_append_le a b k hk]
        cases hq : P.preview hd (a.drop k) with
        | needMore => simp [hq] at h
        | err => rw [(hP.preview hd).err_ext _ b hq]
        | ok fi m =>
          simp only [hq] at h
          by_cases hlen : a.length < k + m + fi.sizes.sum
          · simp [hlen] at h
          · simp [hlen] at h
      · have hp' : P.hasPreview hd = false := by simpa using hp
        simp [hp'] at h

theorem addCs_nil (P : Parsers Hdr) (d : Dec Hdr) : addCs P d [] = d := by
  cases d <;> simp [addCs, feedInner_nil]

/-- codestream events may be split and merged freely -/
theorem addCs_append (P : Parsers Hdr) (hP : P.Stable) (d : Dec Hdr) (a b : Bytes) :
    addCs P (addCs P d a) b = addCs P d (a ++ b) := by
  cases d with
  | uninit u => simp [addCs]
  | dead => simp [addCs]
  | ready i =>
    simp only [addCs]
    rw [← feedInner_append P hP i a b]
    cases h : feedInner P i a with
    | none => simp
    | some s => simp

theorem tryInit_idem (P : Parsers Hdr) (d : Dec Hdr) : tryInit P (tryInit P d) = tryInit P d := by
  cases d with
  | uninit u =>
    simp only [tryInit]
    cases h : initParse P u with
    | needMore => simp [tryInit, h]
    | err => simp [tryInit]
    | ok hd off =>
      simp only []
      cases feedInner P (Inner.init hd off) (u.drop off) <;> simp [tryInit]
  | ready i => rfl
  | dead => rfl

/-- `try_init` before and after more codestream bytes arrive: trying early changes nothing -/
theorem tryInit_addCs (P : Parsers Hdr) (hP : P.Stable) (d : Dec Hdr) (x : Bytes) :
    tryInit P (addCs P (tryInit P d) x) = tryInit P (addCs P d x) := by
  cases d with
  | ready i => rfl
  | dead => rfl
  | uninit u =>
    have hS := initParse_stable P hP
    cases h : initParse P u with
    | needMore => simp [tryInit, h]
    | err =>
      simp only [tryInit, h, addCs, hS.err_ext u x h]
    | ok hd off =>
      have hle := hS.ok_le _ _ _ h
      simp only [tryInit, h, addCs, hS.ok_ext u x hd off h]
      rw [drop_append_le u x off hle,
        ← feedInner_append P hP (Inner.init hd off) (u.drop off) x]
      cases h2 : feedInner P (Inner.init hd off) (u.drop off) with
      | none => simp [addCs, tryInit]
      | some s =>
        simp only [addCs, Option.bind]
        cases feedInner P s x <;> simp [tryInit]

/-! ## events and their byte-granular normal form -/

theorem applyToks_append (P : Parsers Hdr) : ∀ (t1 t2 : List Container.Tok) (d : Dec Hdr),
    applyToks P d (t1 ++ t2) = applyToks P (applyToks P d t1) t2 := by
  intro t1
  induction t1 with
  | nil => intro t2 d; rfl
  | cons t ts ih =>
    intro t2 d
    cases t <;> simp only [List.cons_append, applyToks] <;> exact ih _ _

theorem applyToks_cs (P : Parsers Hdr) (hP : P.Stable) : ∀ (b : Bytes) (ts : List Container.Tok) (d : Dec Hdr),
    applyToks P d (b.map .cs ++ ts) = applyToks P (addCs P d b) ts := by
  intro b
  induction b with
  | nil => intro ts d; simp [addCs_nil]
  | cons x b ih =>
    intro ts d
    simp only [List.map_cons, List.cons_append, applyToks]
    rw [ih, addCs_append P hP d [x] b]
    rfl

theorem applyToks_aux (P : Parsers Hdr) (ty : Bytes) : ∀ (b : Bytes) (ts : List Container.Tok) (d : Dec Hdr),
    applyToks P d (b.map (.aux ty) ++ ts) = applyToks P d ts := by
  intro b
  induction b with
  | nil => intro ts d; rfl
  | cons x b ih => intro ts d; simp only [List.map_cons, List.cons_append, applyToks]; exact ih _ _

/-- the `for event in ..` loop depends on the events only through their flattening -/
theorem applyEvents_toks (P : Parsers Hdr) (hP : P.Stable) : ∀ (evs : List Container.Event) (d : Dec Hdr),
    applyEvents P d evs = applyToks P d (Container.toks evs) := by
  intro evs
  induction evs with
  | nil => intro d; rfl
  | cons e evs ih =>
    intro d
    have ht : Container.toks (e :: evs) = e.toks ++ Container.toks evs := by
      simp [Container.toks]
    rw [ht]
    cases e with
    | codestream b =>
      simp only [applyEvents, Container.Event.toks]
      rw [applyToks_cs P hP, ih]
    | auxData ty b =>
      simp only [applyEvents, Container.Event.toks]
      rw [applyToks_aux, ih]
    | kind k => simp only [applyEvents, Container.Event.toks, List.cons_append, List.nil_append, applyToks]; exact ih _
    | noMoreAux => simp only [applyEvents, Container.Event.toks, List.cons_append, List.nil_append, applyToks]; exact ih _
    | auxStart ty br l => simp only [applyEvents, Container.Event.toks, List.cons_append, List.nil_append, applyToks]; exact ih _
    | auxEnd ty => simp only [applyEvents, Container.Event.toks, List.cons_append, List.nil_append, applyToks]; exact ih _

theorem applyToks_dead (P : Parsers Hdr) : ∀ (ts : List Container.Tok), applyToks P (.dead : Dec Hdr) ts = .dead := by
  intro ts
  induction ts with
  | nil => rfl
  | cons t ts ih => cases t <;> simp only [applyToks, addCs] <;> exact ih

/-- trying to initialise early (after some of the tokens) changes nothing -/
theorem tryInit_applyToks (P : Parsers Hdr) (hP : P.Stable) : ∀ (ts : List Container.Tok) (d : Dec Hdr),
    tryInit P (applyToks P (tryInit P d) ts) = tryInit P (applyToks P d ts) := by
  intro ts
  induction ts with
  | nil => intro d; exact tryInit_idem P d
  | cons t ts ih =>
    intro d
    cases t with
    | cs b =>
      simp only [applyToks]
      rw [← ih (addCs P (tryInit P d) [b]), ← ih (addCs P d [b]), tryInit_addCs P hP d [b]]
    | kind k => simp only [applyToks]; exact ih d
    | noMoreAux => simp only [applyToks]; exact ih d
    | auxStart ty br l => simp only [applyToks]; exact ih d
    | aux ty b => simp only [applyToks]; exact ih d
    | auxEnd ty => simp only [applyToks]; exact ih d

/-- what the events do to the decoder depends only on the codestream bytes they carry -/
theorem applyToks_codestreamOf (P : Parsers Hdr) (hP : P.Stable) : ∀ (ts : List Container.Tok) (d : Dec Hdr),
    applyToks P d ts = addCs P d (Container.codestreamOf ts) := by
  intro ts
  induction ts with
  | nil => intro d; simp [applyToks, Container.codestreamOf, addCs_nil]
  | cons t ts ih =>
    intro d
    cases t with
    | cs b =>
      simp only [applyToks, Container.codestreamOf]
      rw [ih, addCs_append P hP d [b]]; rfl
    | kind k => simp only [applyToks, Container.codestreamOf]; exact ih d
    | noMoreAux => simp only [applyToks, Container.codestreamOf]; exact ih d
    | auxStart ty br l => simp only [applyToks, Container.codestreamOf]; exact ih d
    | aux ty b => simp only [applyToks, Container.codestreamOf]; exact ih d
    | auxEnd ty => simp only [applyToks, Container.codestreamOf]; exact ih d

/-! ## sessions -/

/-- two sessions a caller cannot tell apart: both dead, or identical -/
def Sess.equiv (A B : Sess Hdr) : Prop := (A.dec = .dead ∧ B.dec = .dead) ∨ A = B

theorem Sess.equiv_refl (A : Sess Hdr) : A.equiv A := Or.inr rfl

theorem Sess.equiv_trans {A B C : Sess Hdr} (h1 : A.equiv B) (h2 : B.equiv C) : A.equiv C := by
  rcases h1 with ⟨a, b⟩ | rfl
  · rcases h2 with ⟨_, c⟩ | rfl
    · exact Or.inl ⟨a, c⟩
    · exact Or.inl ⟨a, b⟩
  · exact h2

theorem Sess.obs_of_equiv {A B : Sess Hdr} (h : A.equiv B) : A.obs = B.obs := by
  rcases h with ⟨a, b⟩ | rfl
  · simp [Sess.obs, a, b]
  · rfl

theorem Sess.push_dead (P : Parsers Hdr) (S : Sess Hdr) (c : Bytes) (h : S.dec = .dead) :
    S.push P c = S := by
  simp [Sess.push, h]

theorem Sess.push_live (P : Parsers Hdr) (S : Sess Hdr) (c : Bytes) (h : S.dec ≠ .dead) :
    S.push P c =
      ⟨(Container.feed S.cp (S.pending ++ c)).state,
       if (Container.feed S.cp (S.pending ++ c)).error.isSome then [] else (Container.feed S.cp (S.pending ++ c)).rest,
       if (Container.feed S.cp (S.pending ++ c)).error.isSome then .dead
       else tryInit P (applyEvents P S.dec (Container.feed S.cp (S.pending ++ c)).events),
       S.aux ++ Container.toks (Container.feed S.cp (S.pending ++ c)).events⟩ := by
  unfold Sess.push
  cases hd : S.dec with
  | dead => exact absurd hd h
  | uninit u => rfl
  | ready i => rfl

theorem Sess.push_equiv (P : Parsers Hdr) {A B : Sess Hdr} (c : Bytes) (h : A.equiv B) :
    (A.push P c).equiv (B.push P c) := by
  rcases h with ⟨a, b⟩ | rfl
  · rw [Sess.push_dead P A c a, Sess.push_dead P B c b]; exact Or.inl ⟨a, b⟩
  · exact Or.inr rfl

/-- **2-way chunking lemma for the feeding API** (container layer included, via C10's
`feed_append`): pushing `a` and then `b` is indistinguishable from pushing `a ++ b`. -/
theorem Sess.push_append (P : Parsers Hdr) (hP : P.Stable) (S : Sess Hdr) (a b : Bytes) :
    ((S.push P a).push P b).equiv (S.push P (a ++ b)) := by
  by_cases hdead : S.dec = .dead
  · rw [Sess.push_dead P S a hdead, Sess.push_dead P S b hdead, Sess.push_dead P S _ hdead]
    exact Or.inr rfl
  have hfa := Container.feed_append b S.cp (S.pending ++ a)
  rw [List.append_assoc] at hfa
  obtain ⟨ht, hs, hr, he⟩ := hfa
  rw [Sess.push_live P S (a ++ b) hdead, Sess.push_live P S a hdead]
  generalize hw : Container.feed S.cp (S.pending ++ (a ++ b)) = w at ht hs hr he ⊢
  generalize hrr : Container.feed S.cp (S.pending ++ a) = r at ht hs hr he ⊢
  cases hre : r.error with
  | some e =>
    -- the container parser failed inside `a`
    have hwe : w.error = some e := by rw [he]; simp [Container.thenFeed, hre]
    simp only [hre, hwe, Option.isSome_some, if_true]
    rw [Sess.push_dead P _ b rfl]
    exact Or.inl ⟨rfl, rfl⟩
  | none =>
    simp only [hre, Option.isSome_none, Bool.false_eq_true, if_false]
    simp only [Container.thenFeed, hre] at ht hs hr he
    rw [Container.toks_append] at ht
    by_cases hd1 : tryInit P (applyEvents P S.dec r.events) = .dead
    · -- the codestream layer failed inside `a`: it fails on `a ++ b` as well
      rw [Sess.push_dead P _ b hd1]
      refine Or.inl ⟨hd1, ?_⟩
      show (if w.error.isSome then Dec.dead else tryInit P (applyEvents P S.dec w.events)) = .dead
      split
      · rfl
      · have hd1' : tryInit P (applyToks P S.dec (Container.toks r.events)) = .dead := by
          rw [← applyEvents_toks P hP]; exact hd1
        rw [applyEvents_toks P hP, ht, applyToks_append, ← tryInit_applyToks P hP, hd1', applyToks_dead]
        rfl
    · rw [Sess.push_live P _ b hd1]
      refine Or.inr ?_
      simp only [Sess.mk.injEq]
      refine ⟨hs.symm, ?_, ?_, ?_⟩
      · rw [he, hr]
      · rw [he]
        split
        · rfl
        · have e1 : applyEvents P S.dec w.events =
              applyToks P (applyToks P S.dec (Container.toks r.events))
                (Container.toks (Container.feed r.state (r.rest ++ b)).events) := by
            rw [applyEvents_toks P hP, ht, applyToks_append]
          have e2 : applyEvents P (tryInit P (applyEvents P S.dec r.events))
                (Container.feed r.state (r.rest ++ b)).events =
              applyToks P (tryInit P (applyToks P S.dec (Container.toks r.events)))
                (Container.toks (Container.feed r.state (r.rest ++ b)).events) := by
            rw [applyEvents_toks P hP, applyEvents_toks P hP]
          rw [e1, e2, tryInit_applyToks P hP]
      · rw [ht, List.append_assoc]

theorem Sess.pushAll_cons (P : Parsers Hdr) (S : Sess Hdr) (c : Bytes) (cs : List Bytes) :
    S.pushAll P (c :: cs) = (S.push P c).pushAll P cs := rfl

theorem Sess.pushAll_equiv (P : Parsers Hdr) : ∀ (cs : List Bytes) {A B : Sess Hdr}, A.equiv B →
    (A.pushAll P cs).equiv (B.pushAll P cs) := by
  intro cs
  induction cs with
  | nil => intro A B h; exact h
  | cons c cs ih => intro A B h; exact ih (Sess.push_equiv P c h)

/-- any chunking = one push of everything -/
theorem Sess.pushAll_flatten (P : Parsers Hdr) (hP : P.Stable) : ∀ (cs : List Bytes) (S : Sess Hdr) (c : Bytes),
    (S.pushAll P (c :: cs)).equiv (S.push P (c :: cs).flatten) := by
  intro cs
  induction cs with
  | nil => intro S c; simp only [List.flatten_cons, List.flatten_nil, List.append_nil]; exact Or.inr rfl
  | cons c' cs ih =>
    intro S c
    rw [Sess.pushAll_cons]
    refine Sess.equiv_trans (ih (S.push P c) c') ?_
    rw [List.flatten_cons (l := c)]
    exact Sess.push_append P hP S c _

/-! ## `read()` is a chunked feed -/

theorem Sess.pushAll_append (P : Parsers Hdr) (S : Sess Hdr) (xs ys : List Bytes) :
    S.pushAll P (xs ++ ys) = (S.pushAll P xs).pushAll P ys := by
  simp [Sess.pushAll, List.foldl_append]

/-- `read()` pushes a chunking of a prefix of the stream and leaves the rest unread -/
theorem readN_trace (P : Parsers Hdr) (cap : Nat) : ∀ (fuel : Nat) (S0 S : Sess Hdr) (acc : List Bytes) (stream : Bytes),
    S = S0.pushAll P acc →
    (readN P cap fuel S acc stream).sess = S0.pushAll P (readN P cap fuel S acc stream).chunks ∧
    (readN P cap fuel S acc stream).chunks.flatten ++ (readN P cap fuel S acc stream).rest =
      acc.flatten ++ stream := by
  intro fuel
  induction fuel with
  | zero => intro S0 S acc stream h; simp [readN, h]
  | succ fuel ih =>
    intro S0 S acc stream h
    have step : ∀ count : Nat, S.push P (stream.take count) = S0.pushAll P (acc ++ [stream.take count]) := by
      intro count; rw [Sess.pushAll_append, ← h]; rfl
    have fl : ∀ count : Nat, (acc ++ [stream.take count]).flatten ++ stream.drop count = acc.flatten ++ stream := by
      intro count; simp
    unfold readN
    cases hd : S.dec with
    | dead => simp [h]
    | uninit u =>
      simp only []
      split
      · simp [h]
      · have := ih S0 _ _ (stream.drop (min (cap - S.pending.length) stream.length))
          (step (min (cap - S.pending.length) stream.length))
        rw [fl] at this
        exact this
    | ready i =>
      simp only []
      split
      · simp [h]
      · split
        · simp [h]
        · have := ih S0 _ _ (stream.drop (min (cap - S.pending.length) stream.length))
            (step (min (cap - S.pending.length) stream.length))
          rw [fl] at this
          exact this

/-! ## sections are filled exactly -/

/-- the sections a TOC cuts out of the bytes following the frame header -/
def splitSizes : List Nat → Bytes → List Bytes
  | [], _ => []
  | sz :: more, buf => buf.take sz :: splitSizes more (buf.drop sz)

theorem fill_exact : ∀ (sizes : List Nat) (filled : List Bytes) (buf : Bytes), sizes.sum ≤ buf.length →
    fill filled [] sizes buf = ⟨filled ++ splitSizes sizes buf, [], [], buf.drop sizes.sum⟩ := by
  intro sizes
  induction sizes with
  | nil => intro filled buf _; simp [fill, splitSizes]
  | cons sz more ih =>
    intro filled buf h
    simp only [List.sum_cons] at h
    have h1 : ¬ buf.length < sz - ([] : Bytes).length := by simp; omega
    rw [fill_cons_ge _ _ _ _ _ h1]
    simp only [List.length_nil, Nat.sub_zero, List.nil_append]
    rw [ih _ _ (by simp only [List.length_drop]; omega)]
    simp [splitSizes, List.drop_drop, Nat.add_comm]

theorem splitSizes_lengths : ∀ (sizes : List Nat) (buf : Bytes), sizes.sum ≤ buf.length →
    (splitSizes sizes buf).map List.length = sizes ∧ (splitSizes sizes buf).flatten = buf.take sizes.sum := by
  intro sizes
  induction sizes with
  | nil => intro buf _; simp [splitSizes]
  | cons sz more ih =>
    intro buf h
    simp only [List.sum_cons] at h
    have := ih (buf.drop sz) (by simp only [List.length_drop]; omega)
    simp only [splitSizes, List.map_cons, List.flatten_cons, List.sum_cons, this.1, this.2]
    refine ⟨by simp; omega, ?_⟩
    rw [List.take_add]

/-- bytes are neither lost nor reordered: what the sections hold plus what was not taken is what
was offered -/
theorem fill_conserves : ∀ (pending : List Nat) (filled : List Bytes) (cur buf : Bytes),
    (fill filled cur pending buf).filled.flatten ++ (fill filled cur pending buf).cur ++
      (fill filled cur pending buf).rest = filled.flatten ++ cur ++ buf := by
  intro pending
  induction pending with
  | nil => intro filled cur buf; simp [fill]
  | cons sz more ih =>
    intro filled cur buf
    by_cases h1 : buf.length < sz - cur.length
    · rw [fill_cons_lt _ _ _ _ _ h1]; simp
    · rw [fill_cons_ge _ _ _ _ _ h1, ih]
      simp only [List.flatten_append, List.flatten_cons, List.flatten_nil, List.append_nil,
        List.append_assoc, List.take_append_drop]

/-- fewer bytes than the TOC declares: the frame is not done -/
theorem fill_short : ∀ (pending : List Nat) (filled : List Bytes) (cur buf : Bytes),
    cur.length + buf.length < pending.sum → (fill filled cur pending buf).pending ≠ [] := by
  intro pending
  induction pending with
  | nil => intro filled cur buf h; simp at h
  | cons sz more ih =>
    intro filled cur buf h
    simp only [List.sum_cons] at h
    by_cases h1 : buf.length < sz - cur.length
    · rw [fill_cons_lt _ _ _ _ _ h1]; simp
    · rw [fill_cons_ge _ _ _ _ _ h1]
      apply ih
      simp only [List.length_nil, List.length_drop]
      omega

/-! ## C11: prefixes -/

theorem initParse_prefix (P : Parsers Hdr) (hP : P.Stable) (cs : Bytes) (k : Nat) (hd : Hdr) (off : Nat)
    (h : initParse P cs = .ok hd off) :
    initParse P (cs.take k) = .needMore ∨ initParse P (cs.take k) = .ok hd off := by
  have hS := initParse_stable P hP
  have hc : cs.take k ++ cs.drop k = cs := List.take_append_drop k cs
  cases hk : initParse P (cs.take k) with
  | needMore => exact Or.inl rfl
  | err => have := hS.err_ext _ (cs.drop k) hk; rw [hc, h] at this; cases this
  | ok v n => have := hS.ok_ext _ (cs.drop k) v n hk; rw [hc, h] at this; exact Or.inr this.symm

theorem tryInit_prefix_not_dead (P : Parsers Hdr) (hP : P.Stable) (a b : Bytes)
    (h : tryInit P (.uninit (a ++ b)) ≠ .dead) : tryInit P (.uninit a) ≠ .dead := by
  intro hd
  have := tryInit_addCs P hP (.uninit a) b
  rw [hd] at this
  simp only [addCs] at this
  exact h (by rw [← this]; rfl)

theorem Sess.pushAll_dead (P : Parsers Hdr) : ∀ (cs : List Bytes) (S : Sess Hdr), S.dec = .dead →
    (S.pushAll P cs).dec = .dead := by
  intro cs
  induction cs with
  | nil => intro S h; exact h
  | cons c cs ih => intro S h; rw [Sess.pushAll_cons, Sess.push_dead P S c h]; exact ih S h

theorem Sess.equiv_dead_iff {A B : Sess Hdr} (h : A.equiv B) : A.dec = .dead ↔ B.dec = .dead := by
  rcases h with ⟨a, b⟩ | rfl
  · simp [a, b]
  · rfl

/-- no prefix of an accepted stream, fed in any chunks, kills the session -/
theorem pushAll_prefix_not_dead (P : Parsers Hdr) (hP : P.Stable) (S : Sess Hdr) (chunks : List Bytes)
    (rest : Bytes) (hv : (S.push P (chunks.flatten ++ rest)).dec ≠ .dead) :
    (S.pushAll P chunks).dec ≠ .dead := by
  intro hd
  cases chunks with
  | nil =>
    simp only [Sess.pushAll, List.foldl_nil] at hd
    exact hv (by rw [Sess.push_dead P S _ hd]; exact hd)
  | cons c cs =>
    -- chunks followed by the rest is a chunking of the whole
    have h1 := Sess.pushAll_flatten P hP (cs ++ [rest]) S c
    have h2 : S.pushAll P (c :: (cs ++ [rest])) = (S.pushAll P (c :: cs)).push P rest := by
      rw [← List.cons_append, Sess.pushAll_append]; rfl
    rw [h2, Sess.push_dead P _ rest hd] at h1
    have := (Sess.equiv_dead_iff h1).mp hd
    apply hv
    simpa [List.flatten_append] using this

/-! ## C11: render attempts -/

theorem finalRender_clean (n : Nat) : finalRender n Residue.clean = .good := by
  simp [finalRender, Residue.clean]

theorem lfGlobalSingle_clean (o : SecOut) (h : o ≠ .hard) :
    (lfGlobalSingle 0 false o).2 = 0 ∧ ∃ p, (lfGlobalSingle 0 false o).1 = .ok p := by
  cases o with
  | complete => simp [lfGlobalSingle, modularDecode]
  | eof => simp [lfGlobalSingle, modularDecode]
  | hard => exact absurd rfl h

/-- an attempt on a truncated section that behaves (no hard error, no kept cache) leaves nothing -/
theorem attemptOn_clean (Q : SecParsers) (f : FrameSt) (got : Bytes)
    (h1 : Q.lfGlobal f.info got ≠ .hard) (h2 : Q.keepsCache f.info got = false) :
    attemptOn Q f got Residue.clean = Residue.clean := by
  unfold attemptOn
  by_cases hs : (f.info.sizes.length == 1) = true
  · obtain ⟨e1, p, e2⟩ := lfGlobalSingle_clean _ h1
    simp only [hs, if_true, Residue.clean, h2, e1, e2]
    rfl
  · have hs' : (f.info.sizes.length == 1) = false := by simpa using hs
    simp only [hs', Bool.false_eq_true, if_false, Residue.clean, h2]
    cases lfGlobalMulti got.length (f.info.sizes.headD 0) (Q.lfGlobal f.info got) <;> rfl

/-- a hard error on a truncated single-section frame sets the flag, and the flag decides the
final render -/
theorem attemptOn_hard (Q : SecParsers) (f : FrameSt) (got : Bytes) (r : Residue)
    (hs : f.info.sizes.length = 1) (h1 : Q.lfGlobal f.info got = .hard) (n : Nat) :
    finalRender n (attemptOn Q f got r) = .hadError := by
  unfold attemptOn finalRender
  simp only [hs, beq_self_eq_true, if_true, h1]
  by_cases h0 : r.hasError = 0
  · simp [lfGlobalSingle, modularDecode, h0]
  · simp [lfGlobalSingle, h0]

/-- the obligation pushed to the concrete section parsers, for one stream: at every cut position
the truncated first section of the frame being loaded does not produce a non-EOF error, and no
attempt keeps a render cache holding an `LfGlobal` parsed from truncated data -/
def CutClean (P : Parsers Hdr) (Q : SecParsers) (stream : Bytes) : Prop :=
  ∀ k, k ≤ stream.length → ∀ f got, loadingFirst (Sess.init.push P (stream.take k)) = some (f, got) →
    Q.lfGlobal f.info got ≠ .hard ∧ Q.keepsCache f.info got = false

theorem loadingFirst_dead (S : Sess Hdr) (h : S.dec = .dead) : loadingFirst S = none := by
  simp [loadingFirst, h]

theorem loadingFirst_init : loadingFirst (Sess.init : Sess Hdr) = none := rfl

theorem prefix_take {a stream : Bytes} (h : a <+: stream) : stream.take a.length = a ∧ a.length ≤ stream.length := by
  obtain ⟨t, rfl⟩ := h
  simp

/-- invariant of a progressive run: render attempts never touch the feeding state, and under
`CutClean` they leave no residue -/
theorem Prog.run_inv (P : Parsers Hdr) (hP : P.Stable) (Q : SecParsers) (stream : Bytes)
    (hc : CutClean P Q stream) : ∀ (ops : List Op) (p : Prog Hdr) (done : List Bytes),
    p.sess = Sess.init.pushAll P done → p.res = Residue.clean → p.poisoned = false →
    (done ++ Op.chunks ops).flatten <+: stream →
    (Prog.run P Q p ops).sess = Sess.init.pushAll P (done ++ Op.chunks ops) ∧
    (Prog.run P Q p ops).res = Residue.clean ∧ (Prog.run P Q p ops).poisoned = false := by
  intro ops
  induction ops with
  | nil => intro p done h1 h2 h3 _; simp [Prog.run, Op.chunks, h1, h2, h3]
  | cons op ops ih =>
    intro p done h1 h2 h3 hpre
    cases op with
    | push c =>
      have hs : (p.sess.push P c) = Sess.init.pushAll P (done ++ [c]) := by
        rw [Sess.pushAll_append, ← h1]; rfl
      have hch : done ++ Op.chunks (Op.push c :: ops) = (done ++ [c]) ++ Op.chunks ops := by
        simp [Op.chunks]
      rw [hch] at hpre ⊢
      have : Prog.run P Q p (Op.push c :: ops) = Prog.run P Q (Prog.step P Q p (.push c)) ops := rfl
      rw [this]
      apply ih _ (done ++ [c]) _ _ _ hpre
      · simp only [Prog.step]; split <;> exact hs
      · simp only [Prog.step]; split
        · rfl
        · exact h2
      · simp only [Prog.step]; split
        · simp [h3, h2, finalRender_clean]
        · exact h3
    | render =>
      have : Prog.run P Q p (Op.render :: ops) = Prog.run P Q (Prog.step P Q p .render) ops := rfl
      rw [this]
      have hch : done ++ Op.chunks (Op.render :: ops) = done ++ Op.chunks ops := by simp [Op.chunks]
      rw [hch] at hpre ⊢
      have hstep : Prog.step P Q p .render = p := by
        simp only [Prog.step]
        cases hlf : loadingFirst p.sess with
        | none => rfl
        | some fg =>
          obtain ⟨f, got⟩ := fg
          simp only []
          -- the state at this attempt is the whole-buffer state of the prefix pushed so far
          have hdone : (done.flatten) <+: stream := by
            obtain ⟨t, ht⟩ := hpre
            exact ⟨(Op.chunks ops).flatten ++ t, by rw [← ht]; simp [List.flatten_append]⟩
          obtain ⟨htake, hle⟩ := prefix_take hdone
          cases done with
          | nil =>
            simp only [Sess.pushAll, List.foldl_nil] at h1
            rw [h1, loadingFirst_init] at hlf; cases hlf
          | cons c cs =>
            have heq := Sess.pushAll_flatten P hP cs Sess.init c
            rw [← h1] at heq
            rcases heq with ⟨d1, _⟩ | heq
            · rw [loadingFirst_dead _ d1] at hlf; cases hlf
            · have hcc := hc _ hle f got (by rw [htake, ← heq]; exact hlf)
              rw [h2, attemptOn_clean Q f got hcc.1 hcc.2, ← h2]
      rw [hstep]
      exact ih p done h1 h2 h3 hpre

/-! ## C11: `render_loading_frame` -/

theorem renderLoading_cases (v : LoadingView) (h1 : v.render ≠ .error .other)
    (h2 : v.compose ≠ .error .other) (h3 : v.inProgress ≠ some (.error .other))
    (h4 : v.postprocess ≠ .error .other) :
    renderLoading v = .image ∨ renderLoading v = .needMore := by
  obtain ⟨hp, lg, fl, r, c, ip, pp⟩ := v
  simp only at h1 h2 h3 h4
  cases hp <;> cases lg <;> cases fl <;>
    (rcases r with (_ | _) | ⟨⟨⟩⟩) <;> (rcases c with (_ | _) | ⟨⟨⟩⟩) <;>
    (rcases ip with _ | (_ | _) | ⟨⟨⟩⟩) <;> (rcases pp with (_ | _) | ⟨⟨⟩⟩) <;>
    simp_all [renderLoading, renderLoadingFrame, doRender, ofRErr]

/-! ## the concrete parsers are prefix stable -/

theorem needs_stable {α : Type} (len : Nat) (v : α) : PrefixStable (needs len v) := by
  constructor
  · intro a b w n h
    unfold needs at h ⊢
    by_cases hl : a.length < len
    · simp [hl] at h
    · have : ¬ (a ++ b).length < len := by simp only [List.length_append]; omega
      simp only [hl, if_false] at h
      simp only [this, if_false]; exact h
  · intro a w n h
    unfold needs at h
    by_cases hl : a.length < len
    · simp [hl] at h
    · simp only [hl, if_false, Res.ok.injEq] at h; omega
  · intro a b h
    unfold needs at h
    by_cases hl : a.length < len <;> simp [hl] at h

theorem err_stable {α : Type} : PrefixStable (fun (_ : Bytes) => (Res.err : Res α)) :=
  ⟨fun _ _ _ _ h => (by cases h), fun _ _ _ h => (by cases h), fun _ _ _ => rfl⟩

theorem Layout.stable (L : Layout) : L.parsers.Stable := by
  constructor
  · exact needs_stable _ _
  · intro h
    simp only [Layout.parsers]
    cases L.preview with
    | none => exact err_stable
    | some p => exact needs_stable _ _
  · intro h fs
    simp only [Layout.parsers]
    cases L.frames[fs.length]? with
    | none => exact err_stable
    | some f =>
      simp only []
      by_cases h0 : f.hdrLen = 0
      · simp only [h0, if_true]; exact err_stable
      · simp only [h0, if_false]; exact needs_stable _ _
  · intro h fs a v n hp
    simp only [Layout.parsers] at hp
    cases hf : L.frames[fs.length]? with
    | none => simp [hf] at hp
    | some f =>
      simp only [hf] at hp
      by_cases h0 : f.hdrLen = 0
      · simp [h0] at hp
      · simp only [h0, if_false, needs] at hp
        by_cases hl : a.length < f.hdrLen
        · simp [hl] at hp
        · simp only [hl, if_false, Res.ok.injEq] at hp; omega

namespace Toy

theorem head_stable : PrefixStable head := by
  constructor
  · intro a b v n h
    match a, h with
    | x :: y :: z :: r, h => simpa [head] using h
  · intro a v n h
    match a, h with
    | x :: y :: z :: r, h =>
      simp only [head] at h
      by_cases hx : x = 0xFF ∧ y = 0x0A
      · simp only [hx, and_self, if_true, Res.ok.injEq] at h; simp; omega
      · simp [hx] at h
  · intro a b h
    match a, h with
    | x :: y :: z :: r, h => simpa [head] using h

theorem frame_stable : PrefixStable frame := by
  constructor
  · intro a b v n h
    match a, h with
    | f :: k :: r, h =>
      simp only [frame, List.cons_append] at h ⊢
      by_cases hf : f = 0xFF
      · simp [hf] at h
      · simp only [hf, if_false] at h ⊢
        by_cases hl : r.length < k.toNat
        · simp [hl] at h
        · have : ¬ (r ++ b).length < k.toNat := by simp only [List.length_append]; omega
          simp only [hl, if_false] at h
          simp only [this, if_false]
          rw [List.take_append_of_le_length (by omega)]
          exact h
  · intro a v n h
    match a, h with
    | f :: k :: r, h =>
      simp only [frame] at h
      by_cases hf : f = 0xFF
      · simp [hf] at h
      · simp only [hf, if_false] at h
        by_cases hl : r.length < k.toNat
        · simp [hl] at h
        · simp only [hl, if_false, Res.ok.injEq] at h
          simp only [List.length_cons]; omega
  · intro a b h
    match a, h with
    | f :: k :: r, h =>
      simp only [frame, List.cons_append] at h ⊢
      by_cases hf : f = 0xFF
      · simp [hf]
      · simp only [hf, if_false] at h
        by_cases hl : r.length < k.toNat <;> simp [hl] at h

theorem frame_pos (a : Bytes) (v : FrameInfo) (n : Nat) (h : frame a = .ok v n) : 0 < n := by
  match a, h with
  | f :: k :: r, h =>
    simp only [frame] at h
    by_cases hf : f = 0xFF
    · simp [hf] at h
    · simp only [hf, if_false] at h
      by_cases hl : r.length < k.toNat
      · simp [hl] at h
      · simp only [hl, if_false, Res.ok.injEq] at h; omega

theorem stable : parsers.Stable :=
  ⟨head_stable, fun _ => frame_stable, fun _ _ => frame_stable, fun _ _ a v n h => frame_pos a v n h⟩

end Toy

end Jxl.Feed
