import JxlModel.Proofs.Bundle
import JxlModel.Model.Feed
/-!
# Prefix stability of the generic bundle parser

C09 / C11 treat the header-level parsers as abstract functions constrained by `Feed.PrefixStable`
(an `Ok` on a buffer is the same `Ok` on every extension, a hard error stays that hard error; only
`unexpected_eof` may change). Here that hypothesis is *proved* for the generic parser of
`Model/Bundle.lean`, for every description (so for all the regenerated `Gen/Headers.lean`
descriptions, whatever the source says): by mutual induction over field types and field lists.
Core tactics only.
-/
namespace Jxl.Bundle

/-- `r'` (a result on `s ++ t`) continues `r` (the result on `s`): an `ok` is the same `ok` with `t`
still unread (and the parser did not un-read anything), any error other than end-of-data is the
same error. -/
def Ext {α : Type} (s t : Bits) (r r' : Except Err (α × Bits)) : Prop :=
  match r with
  | .ok (v, rest) => rest.length ≤ s.length ∧ r' = .ok (v, rest ++ t)
  | .error .eof => True
  | .error e => r' = .error e

theorem Ext.ok_iff {α : Type} {s t : Bits} {v : α} {rest : Bits} {r' : Except Err (α × Bits)} :
    Ext s t (.ok (v, rest)) r' ↔ rest.length ≤ s.length ∧ r' = .ok (v, rest ++ t) := Iff.rfl

theorem Ext.error {α : Type} (s t : Bits) (e : Err) : Ext (α := α) s t (.error e) (.error e) := by
  cases e <;> simp [Ext]

theorem Ext.mono {α : Type} {s s' t : Bits} {r r' : Except Err (α × Bits)} (h : Ext s' t r r')
    (hl : s'.length ≤ s.length) : Ext s t r r' := by
  match r, h with
  | .ok (v, rest), h => exact ⟨Nat.le_trans h.1 hl, h.2⟩
  | .error .eof, _ => trivial
  | .error (.invalid k), h => exact h
  | .error (.stuck k), h => exact h

theorem takeBits_ext : ∀ (n : Nat) (s t : Bits) (a r : Bits), takeBits n s = some (a, r) →
    takeBits n (s ++ t) = some (a, r ++ t) ∧ r.length ≤ s.length
  | 0, s, t, a, r, h => by
    simp [takeBits] at h
    obtain ⟨h1, h2⟩ := h
    subst h1 h2
    simp [takeBits]
  | n+1, [], t, a, r, h => by simp [takeBits] at h
  | n+1, b :: s, t, a, r, h => by
    simp only [takeBits] at h
    cases hh : takeBits n s with
    | none => simp [hh] at h
    | some p =>
      obtain ⟨a', r'⟩ := p
      simp only [hh, Option.some.injEq, Prod.mk.injEq] at h
      obtain ⟨h1, h2⟩ := h
      subst h1 h2
      have ih := takeBits_ext n s t a' r' hh
      have := ih.2
      simp only [List.cons_append, takeBits, ih.1, List.length_cons]
      exact ⟨trivial, by omega⟩

theorem rd_ext (n : Nat) (s t : Bits) : Ext s t (rd n s) (rd n (s ++ t)) := by
  unfold rd
  cases h : takeBits n s with
  | none => simp [Ext]
  | some p =>
    obtain ⟨a, r⟩ := p
    have := takeBits_ext n s t a r h
    simp [this.1, Ext, this.2]

/-- the shape every composite reader has: run `p`, continue with `f` -/
theorem ext_bind {α β : Type} {s t : Bits} {r r' : Except Err (α × Bits)}
    (f f' : α → Bits → Except Err (β × Bits)) (h : Ext s t r r')
    (hf : ∀ v rest, r = .ok (v, rest) → Ext rest t (f v rest) (f' v (rest ++ t))) :
    Ext s t (match (generalizing := false) r with | .ok (v, rest) => f v rest | .error e => .error e)
      (match (generalizing := false) r' with | .ok (v, rest) => f' v rest | .error e => .error e) := by
  match r, h, hf with
  | .ok (v, rest), h, hf =>
    obtain ⟨hl, h2⟩ := h
    subst h2
    exact (hf v rest rfl).mono hl
  | .error .eof, _, _ => trivial
  | .error (.invalid k), h, _ => subst h; rfl
  | .error (.stuck k), h, _ => subst h; rfl

theorem Dist.read_ext (d : Dist) (s t : Bits) : Ext s t (d.read s) (d.read (s ++ t)) := by
  cases d with
  | const c => simp [Dist.read, Ext]
  | bits off n =>
    simp only [Dist.read]
    have h := rd_ext n s t
    cases h1 : rd n s with
    | error e =>
      rw [h1] at h
      cases e with
      | eof => trivial
      | invalid k => simp only [Ext] at h; simp [h, Ext]
      | stuck k => simp only [Ext] at h; simp [h, Ext]
    | ok p =>
      obtain ⟨v, r⟩ := p
      rw [h1] at h
      obtain ⟨hl, h2⟩ := h
      simp [h2, Ext, hl]

theorem readU32_ext (d0 d1 d2 d3 : Dist) (s t : Bits) :
    Ext s t (readU32 d0 d1 d2 d3 s) (readU32 d0 d1 d2 d3 (s ++ t)) := by
  simp only [readU32]
  have h := rd_ext 2 s t
  cases h1 : rd 2 s with
  | error e =>
    rw [h1] at h
    cases e with
    | eof => trivial
    | invalid k => simp only [Ext] at h; simp [h, Ext]
    | stuck k => simp only [Ext] at h; simp [h, Ext]
  | ok p =>
    obtain ⟨k, r⟩ := p
    rw [h1] at h
    obtain ⟨hl, h2⟩ := h
    simp only [h2]
    exact (Dist.read_ext _ r t).mono hl

theorem readU64Loop_ext : ∀ (fuel shift value : Nat) (s t : Bits),
    Ext s t (readU64Loop fuel shift value s) (readU64Loop fuel shift value (s ++ t))
  | 0, shift, value, s, t => by simp [readU64Loop, Ext]
  | fuel+1, shift, value, s, t => by
    simp only [readU64Loop]
    have h := rd_ext 1 s t
    cases h1 : rd 1 s with
    | error e =>
      rw [h1] at h
      cases e with
      | eof => trivial
      | invalid k => simp only [Ext] at h; simp [h, Ext]
      | stuck k => simp only [Ext] at h; simp [h, Ext]
    | ok p =>
      obtain ⟨b, r⟩ := p
      rw [h1] at h
      obtain ⟨hl, h2⟩ := h
      simp only [h2]
      cases b with
      | zero => simp [Ext, hl]
      | succ b' =>
        simp only
        by_cases hs : (shift == 60) = true
        · simp only [hs, if_true]
          have h4 := rd_ext 4 r t
          cases h5 : rd 4 r with
          | error e =>
            rw [h5] at h4
            cases e with
            | eof => trivial
            | invalid k => simp only [Ext] at h4; simp [h4, Ext]
            | stuck k => simp only [Ext] at h4; simp [h4, Ext]
          | ok p =>
            obtain ⟨x, r'⟩ := p
            rw [h5] at h4
            obtain ⟨hl', h6⟩ := h4
            simp only [h6, Ext, and_true]
            omega
        · simp only [hs]
          have h8 := rd_ext 8 r t
          cases h9 : rd 8 r with
          | error e =>
            rw [h9] at h8
            cases e with
            | eof => trivial
            | invalid k => simp only [Ext] at h8; simp [h8, Ext]
            | stuck k => simp only [Ext] at h8; simp [h8, Ext]
          | ok p =>
            obtain ⟨x, r'⟩ := p
            rw [h9] at h8
            obtain ⟨hl', h6⟩ := h8
            simp only [h6]
            exact (readU64Loop_ext fuel (shift + 8) (value + x * 2 ^ shift) r' t).mono (by omega)

theorem rd_map_ext (n : Nat) (s t : Bits) (g : Nat → Nat) :
    Ext s t (match rd n s with | .ok (v, r') => .ok (g v, r') | .error e => .error e)
      (match rd n (s ++ t) with | .ok (v, r') => (.ok (g v, r') : Except Err (Nat × Bits)) | .error e => .error e) := by
  have h := rd_ext n s t
  cases h1 : rd n s with
  | error e =>
    rw [h1] at h
    cases e with
    | eof => trivial
    | invalid k => simp only [Ext] at h; simp [h, Ext]
    | stuck k => simp only [Ext] at h; simp [h, Ext]
  | ok p =>
    obtain ⟨v, r⟩ := p
    rw [h1] at h
    obtain ⟨hl, h2⟩ := h
    simp [h2, Ext, hl]

theorem readU64_ext (s t : Bits) : Ext s t (readU64 s) (readU64 (s ++ t)) := by
  unfold readU64
  have h := rd_ext 2 s t
  cases h1 : rd 2 s with
  | error e =>
    rw [h1] at h
    cases e with
    | eof => trivial
    | invalid k => simp only [Ext] at h; simp [h, Ext]
    | stuck k => simp only [Ext] at h; simp [h, Ext]
  | ok p =>
    obtain ⟨k, r⟩ := p
    rw [h1] at h
    obtain ⟨hl, h2⟩ := h
    simp only [h2]
    match k with
    | 0 => simp [Ext, hl]
    | 1 => exact (rd_map_ext 4 r t (· + 1)).mono hl
    | 2 => exact (rd_map_ext 8 r t (· + 17)).mono hl
    | k+3 =>
      simp only
      have h12 := rd_ext 12 r t
      cases h3 : rd 12 r with
      | error e =>
        rw [h3] at h12
        cases e with
        | eof => trivial
        | invalid k => simp only [Ext] at h12; simp [h12, Ext]
        | stuck k => simp only [Ext] at h12; simp [h12, Ext]
      | ok p =>
        obtain ⟨v, r'⟩ := p
        rw [h3] at h12
        obtain ⟨hl', h4⟩ := h12
        simp only [h4]
        exact (readU64Loop_ext 7 12 v r' t).mono (by omega)

theorem parseN_ext (p p' : Bits → Except Err (Val × Bits)) (t : Bits) (bound : Nat)
    (h : ∀ s, s.length ≤ bound → Ext s t (p s) (p' (s ++ t))) :
    ∀ (n : Nat) (s : Bits), s.length ≤ bound → Ext s t (parseN p n s) (parseN p' n (s ++ t))
  | 0, s, _ => by simp [parseN, Ext]
  | n+1, s, hb => by
    simp only [parseN]
    have h0 := h s hb
    cases h1 : p s with
    | error e =>
      rw [h1] at h0
      cases e with
      | eof => trivial
      | invalid k => simp only [Ext] at h0; simp [h0, Ext]
      | stuck k => simp only [Ext] at h0; simp [h0, Ext]
    | ok q =>
      obtain ⟨v, r⟩ := q
      rw [h1] at h0
      obtain ⟨hl, h2⟩ := h0
      simp only [h2]
      have ih := parseN_ext p p' t bound h n r (by omega)
      cases h3 : parseN p n r with
      | error e =>
        rw [h3] at ih
        cases e with
        | eof => trivial
        | invalid k => simp only [Ext] at ih; simp [ih, Ext]
        | stuck k => simp only [Ext] at ih; simp [ih, Ext]
      | ok q =>
        obtain ⟨vs, r'⟩ := q
        rw [h3] at ih
        obtain ⟨hl', h4⟩ := ih
        simp only [h4, Ext, and_true]
        omega

/-- a reader of a `Nat` wrapped into a value -/
theorem wrap_ext {s t : Bits} {r r' : Except Err (Nat × Bits)} (g : Nat → Val) (h : Ext s t r r') :
    Ext s t (match (generalizing := false) r with | .ok (v, rest) => .ok (g v, rest) | .error e => .error e)
      (match (generalizing := false) r' with | .ok (v, rest) => (.ok (g v, rest) : Except Err (Val × Bits)) | .error e => .error e) := by
  match r, h with
  | .ok (v, rest), h =>
    obtain ⟨hl, h2⟩ := h
    subst h2
    exact ⟨hl, rfl⟩
  | .error .eof, _ => trivial
  | .error (.invalid k), h => subst h; rfl
  | .error (.stuck k), h => subst h; rfl

mutual
/-- one field type, read at the same absolute position on a longer buffer -/
theorem parseTy_ext : ∀ (ty : FieldTy) (total : Nat) (sc : Env) (s t : Bits), s.length ≤ total →
    Ext s t (parseTy total sc ty s) (parseTy (total + t.length) sc ty (s ++ t))
  | .const c, total, sc, s, t, _ => by simp [parseTy, Ext]
  | .u n, total, sc, s, t, _ => by
    simp only [parseTy]; exact wrap_ext (fun v => .nat v) (rd_ext n s t)
  | .cu c n, total, sc, s, t, _ => by
    simp only [parseTy]; exact wrap_ext (fun v => .nat ((v + c) % W32)) (rd_ext n s t)
  | .u32 d0 d1 d2 d3, total, sc, s, t, _ => by
    simp only [parseTy]; exact wrap_ext (fun v => .nat v) (readU32_ext d0 d1 d2 d3 s t)
  | .u64, total, sc, s, t, _ => by
    simp only [parseTy]; exact wrap_ext (fun v => .nat v) (readU64_ext s t)
  | .f16, total, sc, s, t, _ => by
    simp only [parseTy]
    have h := rd_ext 16 s t
    cases h1 : rd 16 s with
    | error e =>
      rw [h1] at h
      cases e with
      | eof => trivial
      | invalid k => simp only [Ext] at h; simp [h, Ext]
      | stuck k => simp only [Ext] at h; simp [h, Ext]
    | ok p =>
      obtain ⟨v, r⟩ := p
      rw [h1] at h
      obtain ⟨hl, h2⟩ := h
      simp only [h2]
      cases f16Valid v <;> simp [Ext, hl]
  | .bool, total, sc, s, t, _ => by
    simp only [parseTy]; exact wrap_ext (fun v => .bool (v != 0)) (rd_ext 1 s t)
  | .enumOf ty valid, total, sc, s, t, hb => by
    simp only [parseTy]
    have h := parseTy_ext ty total sc s t hb
    cases h1 : parseTy total sc ty s with
    | error e =>
      rw [h1] at h
      cases e with
      | eof => trivial
      | invalid k => simp only [Ext] at h; simp [h, Ext]
      | stuck k => simp only [Ext] at h; simp [h, Ext]
    | ok p =>
      obtain ⟨v, r⟩ := p
      rw [h1] at h
      obtain ⟨hl, h2⟩ := h
      simp only [h2]
      cases v with
      | nat x => by_cases hx : x ∈ valid <;> simp [Ext, hl, hx]
      | _ => exact Ext.error _ _ _
  | .signed ty, total, sc, s, t, hb => by
    simp only [parseTy]
    have h := parseTy_ext ty total sc s t hb
    cases h1 : parseTy total sc ty s with
    | error e =>
      rw [h1] at h
      cases e with
      | eof => trivial
      | invalid k => simp only [Ext] at h; simp [h, Ext]
      | stuck k => simp only [Ext] at h; simp [h, Ext]
    | ok p =>
      obtain ⟨v, r⟩ := p
      rw [h1] at h
      obtain ⟨hl, h2⟩ := h
      simp only [h2]
      cases v with
      | nat x => simp [Ext, hl]
      | _ => exact Ext.error _ _ _
  | .signed64 ty, total, sc, s, t, hb => by
    simp only [parseTy]
    have h := parseTy_ext ty total sc s t hb
    cases h1 : parseTy total sc ty s with
    | error e =>
      rw [h1] at h
      cases e with
      | eof => trivial
      | invalid k => simp only [Ext] at h; simp [h, Ext]
      | stuck k => simp only [Ext] at h; simp [h, Ext]
    | ok p =>
      obtain ⟨v, r⟩ := p
      rw [h1] at h
      obtain ⟨hl, h2⟩ := h
      simp only [h2]
      cases v with
      | nat x => simp [Ext, hl]
      | _ => exact Ext.error _ _ _
  | .bundle ctx fs, total, sc, s, t, hb => by
    simp only [parseTy]
    cases evalEnv sc ctx with
    | none => simp [Ext]
    | some c =>
      simp only
      have h := parseFields_ext fs total c [] s t hb
      cases h1 : parseFields total c fs [] s with
      | error e =>
        rw [h1] at h
        cases e with
        | eof => trivial
        | invalid k => simp only [Ext] at h; simp [h, Ext]
        | stuck k => simp only [Ext] at h; simp [h, Ext]
      | ok p =>
        obtain ⟨v, r⟩ := p
        rw [h1] at h
        obtain ⟨hl, h2⟩ := h
        simp [h2, Ext, hl]
  | .vec ty len, total, sc, s, t, hb => by
    simp only [parseTy]
    cases evalNat sc len with
    | none => simp [Ext]
    | some n =>
      simp only
      have h := parseN_ext (parseTy total sc ty) (parseTy (total + t.length) sc ty) t total
        (fun s hs => parseTy_ext ty total sc s t hs) n s hb
      cases h1 : parseN (parseTy total sc ty) n s with
      | error e =>
        rw [h1] at h
        cases e with
        | eof => trivial
        | invalid k => simp only [Ext] at h; simp [h, Ext]
        | stuck k => simp only [Ext] at h; simp [h, Ext]
      | ok p =>
        obtain ⟨v, r⟩ := p
        rw [h1] at h
        obtain ⟨hl, h2⟩ := h
        simp [h2, Ext, hl]
  | .arr ty n, total, sc, s, t, hb => by
    simp only [parseTy]
    have h := parseN_ext (parseTy total sc ty) (parseTy (total + t.length) sc ty) t total
      (fun s hs => parseTy_ext ty total sc s t hs) n s hb
    cases h1 : parseN (parseTy total sc ty) n s with
    | error e =>
      rw [h1] at h
      cases e with
      | eof => trivial
      | invalid k => simp only [Ext] at h; simp [h, Ext]
      | stuck k => simp only [Ext] at h; simp [h, Ext]
    | ok p =>
      obtain ⟨v, r⟩ := p
      rw [h1] at h
      obtain ⟨hl, h2⟩ := h
      simp [h2, Ext, hl]
  | .zeroPad, total, sc, s, t, hb => by
    simp only [parseTy]
    have hp : total + t.length - (s ++ t).length = total - s.length := by
      simp only [List.length_append]; omega
    rw [hp]
    have h := rd_ext (padLen (total - s.length)) s t
    cases h1 : rd (padLen (total - s.length)) s with
    | error e =>
      rw [h1] at h
      cases e with
      | eof => trivial
      | invalid k => simp only [Ext] at h; simp [h, Ext]
      | stuck k => simp only [Ext] at h; simp [h, Ext]
    | ok p =>
      obtain ⟨v, r⟩ := p
      rw [h1] at h
      obtain ⟨hl, h2⟩ := h
      simp only [h2]
      cases (v == 0) <;> simp [Ext, hl]
  | .assert e kind, total, sc, s, t, _ => by
    simp only [parseTy]
    cases evalBool sc e with
    | none => simp [Ext]
    | some b => cases b <;> simp [Ext]
  | .skip n, total, sc, s, t, _ => by
    simp only [parseTy]
    cases evalNat sc n with
    | none => simp [Ext]
    | some n =>
      simp only
      by_cases hn : n ≤ s.length
      · have : n ≤ (s ++ t).length := by simp only [List.length_append]; omega
        simp only [hn, this, if_true, Ext, List.length_drop]
        refine ⟨by omega, ?_⟩
        rw [List.drop_append_of_le_length hn]
      · simp [hn, Ext]
  | .ext name, total, sc, s, t, _ => by simp [parseTy, Ext]
/-- a field list -/
theorem parseFields_ext : ∀ (fs : List Field) (total : Nat) (ctx acc : Env) (s t : Bits),
    s.length ≤ total →
    Ext s t (parseFields total ctx fs acc s) (parseFields (total + t.length) ctx fs acc (s ++ t))
  | [], total, ctx, acc, s, t, _ => by simp [parseFields, Ext]
  | .mk name ty cond dflt :: fs, total, ctx, acc, s, t, hb => by
    simp only [parseFields]
    cases evalBool (acc ++ ctx) cond with
    | none => simp [Ext]
    | some b =>
      cases b with
      | true =>
        simp only
        have h := parseTy_ext ty total (acc ++ ctx) s t hb
        cases h1 : parseTy total (acc ++ ctx) ty s with
        | error e =>
          rw [h1] at h
          cases e with
          | eof => trivial
          | invalid k => simp only [Ext] at h; simp [h, Ext]
          | stuck k => simp only [Ext] at h; simp [h, Ext]
        | ok p =>
          obtain ⟨v, r⟩ := p
          rw [h1] at h
          obtain ⟨hl, h2⟩ := h
          simp only [h2]
          exact (parseFields_ext fs total ctx (acc ++ [(name, v)]) r t (by omega)).mono hl
      | false =>
        simp only
        cases defaultOf (acc ++ ctx) ty dflt with
        | none => simp [Ext]
        | some v =>
          simp only
          exact parseFields_ext fs total ctx (acc ++ [(name, v)]) s t hb
end

/-- the whole-bundle form: a bundle parsed at absolute bit position `pos` -/
theorem parseAt_ext (b : Bundle) (ctx : Env) (pos : Nat) (s t : Bits) :
    Ext s t (parseAt b ctx pos s) (parseAt b ctx pos (s ++ t)) := by
  unfold parseAt
  have h := parseFields_ext b (pos + s.length) ctx [] s t (by omega)
  have e : pos + s.length + t.length = pos + (s ++ t).length := by
    simp only [List.length_append]; omega
  rw [e] at h
  exact h

/-! ## as a parser of the feeding model -/

open Jxl.Feed (Res PrefixStable)
open Jxl.Container (Bytes)

/-- the bits of a byte buffer, LSB first within each byte (as `Bitstream` reads them) -/
def bitsOfBytes (a : Bytes) : Bits := a.flatMap fun b => toBits 8 b.toNat

theorem bitsOfBytes_append (a b : Bytes) : bitsOfBytes (a ++ b) = bitsOfBytes a ++ bitsOfBytes b := by
  simp [bitsOfBytes]

theorem bitsOfBytes_length : ∀ (a : Bytes), (bitsOfBytes a).length = 8 * a.length
  | [] => rfl
  | b :: a => by
    have ih := bitsOfBytes_length a
    simp only [bitsOfBytes] at ih
    simp only [bitsOfBytes, List.flatMap_cons, List.length_append, toBits_length, ih, List.length_cons]
    omega

/-- A header-level parser in the sense of `Model/Feed.lean`, made of a bundle description: parse
`b` at the start of the buffer (the description ends with its `ZeroPadToByte` where the format has
one); `used` = whole bytes consumed; `unexpected_eof` ↦ `needMore`; anything else ↦ `err`. -/
def bundleRes (b : Bundle) (ctx : Env) (a : Bytes) : Res Env :=
  match parse b ctx (bitsOfBytes a) with
  | .ok (e, r) => .ok e (a.length - r.length / 8)
  | .error .eof => .needMore
  | .error _ => .err

theorem bundleRes_stable (b : Bundle) (ctx : Env) : PrefixStable (bundleRes b ctx) := by
  refine ⟨?_, ?_, ?_⟩
  · intro a c v n h
    have hx := parseAt_ext b ctx 0 (bitsOfBytes a) (bitsOfBytes c)
    unfold bundleRes parse at h ⊢
    rw [bitsOfBytes_append]
    cases h1 : parseAt b ctx 0 (bitsOfBytes a) with
    | error e => rw [h1] at h; cases e <;> simp at h
    | ok p =>
      obtain ⟨e, r⟩ := p
      rw [h1] at h hx
      obtain ⟨hl, h2⟩ := hx
      simp only [Res.ok.injEq] at h
      obtain ⟨hv, hn⟩ := h
      simp only [h2, Res.ok.injEq, hv, true_and, List.length_append, bitsOfBytes_length]
      rw [bitsOfBytes_length] at hl
      omega
  · intro a v n h
    unfold bundleRes at h
    cases h1 : parse b ctx (bitsOfBytes a) with
    | error e => rw [h1] at h; cases e <;> simp at h
    | ok p =>
      obtain ⟨e, r⟩ := p
      rw [h1] at h
      simp only [Res.ok.injEq] at h
      omega
  · intro a c h
    have hx := parseAt_ext b ctx 0 (bitsOfBytes a) (bitsOfBytes c)
    unfold bundleRes parse at h ⊢
    rw [bitsOfBytes_append]
    cases h1 : parseAt b ctx 0 (bitsOfBytes a) with
    | ok p => obtain ⟨e, r⟩ := p; rw [h1] at h; simp at h
    | error e =>
      rw [h1] at h hx
      cases e with
      | eof => simp at h
      | invalid k => simp only [Ext] at hx; simp [hx]
      | stuck k => simp only [Ext] at hx; simp [hx]

end Jxl.Bundle
