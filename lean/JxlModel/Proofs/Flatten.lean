import JxlModel.Model.Modular.Tree
/-!
# Flattened MA tree = the tree (for trees that do not compile to lookup tables)

`getLeaf (flatten …)` walks exactly to the leaf `Tree.evalFor` selects. The proof follows the
breadth-first construction with a ghost list `assigned` (the tree promised to every index).
-/
namespace Jxl.Modular

variable (c s pc : Nat)

/-- the property function the Spec evaluation uses: static properties substituted -/
def specProps (props : Nat → Int) (k : Nat) : Int :=
  if k == 0 then c else if k == 1 then s
  else if k ≥ 16 ∧ (k - 16) / 4 ≥ pc then 0 else props k

theorem evalFor_eq (props : Nat → Int) (t : Tree) :
    t.evalFor c s pc props = t.eval (specProps c s pc props) := rfl

/-- a decision that `next` resolves statically -/
def isStatic (p : Nat) : Bool := p == 0 || p == 1 || (decide (p ≥ 16) && decide ((p - 16) / 4 ≥ pc))

theorem specProps_nonstatic (props : Nat → Int) (p : Nat) (h : isStatic pc p = false) :
    specProps c s pc props p = props p := by
  unfold isStatic at h
  simp only [Bool.or_eq_false_iff, Bool.and_eq_false_iff, beq_eq_false_iff_ne, decide_eq_false_iff_not] at h
  obtain ⟨⟨h0, h1⟩, h2⟩ := h
  unfold specProps
  simp only [beq_iff_eq, h0, h1, if_false]
  have : ¬ (p ≥ 16 ∧ (p - 16) / 4 ≥ pc) := by
    intro ⟨a, b⟩; rcases h2 with h2 | h2 <;> contradiction
  simp [this]

theorem next_eval (props : Nat → Int) (t : Tree) :
    (t.next c s pc).eval (specProps c s pc props) = t.eval (specProps c s pc props) := by
  induction t with
  | leaf l => rfl
  | dec p v l r ihl ihr =>
    unfold Tree.next
    by_cases h0 : p = 0
    · subst h0
      simp only [beq_self_eq_true, if_true, Tree.eval, specProps]
      by_cases hc : (c : Int) > v <;> simp [hc, ihl, ihr]
    · by_cases h1 : p = 1
      · subst h1
        simp only [Tree.eval, specProps]
        by_cases hc : (s : Int) > v <;> simp [hc, ihl, ihr]
      · have e0 : (p == 0) = false := by simp [h0]
        have e1 : (p == 1) = false := by simp [h1]
        simp only [e0, e1]
        by_cases h2 : p ≥ 16 ∧ (p - 16) / 4 ≥ pc
        · simp only [h2, and_self, if_true, Tree.eval, specProps, e0, e1]
          by_cases hv : v < 0
          · simp [hv, ihl]
          · have : ¬ ((0 : Int) > v) := by omega
            simp [hv, ihr, this]
        · simp [h2]

/-- `next` never returns a statically decidable decision -/
theorem next_nonstatic (t : Tree) (p : Nat) (v : Int) (l r : Tree)
    (h : t.next c s pc = .dec p v l r) : isStatic pc p = false := by
  induction t with
  | leaf l0 => simp [Tree.next] at h
  | dec p0 v0 l0 r0 ihl ihr =>
    unfold Tree.next at h
    by_cases h0 : p0 = 0
    · subst h0
      simp only [beq_self_eq_true, if_true] at h
      by_cases hc : (c : Int) > v0
      · simp [hc] at h; exact ihl h
      · simp [hc] at h; exact ihr h
    · by_cases h1 : p0 = 1
      · subst h1
        simp at h
        by_cases hc : (s : Int) > v0
        · simp [hc] at h; exact ihl h
        · simp [hc] at h; exact ihr h
      · have e0 : (p0 == 0) = false := by simp [h0]
        have e1 : (p0 == 1) = false := by simp [h1]
        simp only [e0, e1] at h
        by_cases h2 : p0 ≥ 16 ∧ (p0 - 16) / 4 ≥ pc
        · simp only [h2, and_self, if_true] at h
          by_cases hv : v0 < 0
          · simp [hv] at h; exact ihl h
          · simp [hv] at h; exact ihr h
        · simp [h2] at h
          obtain ⟨rfl, _, _, _⟩ := h
          unfold isStatic
          simp only [e0, e1, Bool.false_or, Bool.and_eq_false_iff, decide_eq_false_iff_not]
          by_cases h16 : p0 ≥ 16
          · right; intro hh; exact h2 ⟨h16, hh⟩
          · left; exact h16

/-! ## invariant of the breadth-first construction -/

def E (props : Nat → Int) (t : Tree) : Leaf := t.eval (specProps c s pc props)

def fusedTarget (props : Nat → Int) (p0 : Nat) (v0 : Int) (pl pr : Nat) (vl vr : Int) (base : Nat) : Nat :=
  base + (if props p0 ≤ v0 then 2 + (if props pr ≤ vr then 1 else 0) else (if props pl ≤ vl then 1 else 0))

/-- node `i` of the flat array does what the tree assigned to index `i` does -/
def Good (props : Nat → Int) (assigned : List Tree) (i : Nat) : FlatNode → Prop
  | .leaf l => E c s pc props (assigned.getD i default) = l
  | .fused p0 v0 pl pr vl vr base =>
    let k := fusedTarget props p0 v0 pl pr vl vr base
    i < k ∧ k < assigned.length ∧
      E c s pc props (assigned.getD k default) = E c s pc props (assigned.getD i default)
  | .table _ _ _ => False

theorem getD_append_left {α} (a b : List α) (d : α) (i : Nat) (h : i < a.length) :
    (a ++ b).getD i d = a.getD i d := by
  simp [List.getD, List.getElem?_append_left h]

theorem Good_mono (props : Nat → Int) (a a' : List Tree) (ext : List Tree) (ha : a' = a ++ ext)
    (i : Nat) (hi : i < a.length) (n : FlatNode) (h : Good c s pc props a i n) :
    Good c s pc props a' i n := by
  subst ha
  cases n with
  | leaf l =>
    simp only [Good] at *
    rw [getD_append_left _ _ _ _ hi]; exact h
  | fused p0 v0 pl pr vl vr base =>
    simp only [Good] at *
    obtain ⟨h1, h2, h3⟩ := h
    refine ⟨h1, by simp; omega, ?_⟩
    rw [getD_append_left _ _ _ _ hi, getD_append_left _ _ _ _ h2]; exact h3
  | table _ _ _ => exact h

/-- the walker reaches the Spec leaf from every index of a completed array -/
theorem walk_correct (props : Nat → Int) (nodes : Array FlatNode) (assigned : List Tree)
    (hlen : nodes.size = assigned.length)
    (hgood : ∀ i (h : i < nodes.size), Good c s pc props assigned i nodes[i]) :
    ∀ n i, nodes.size - i ≤ n → i < nodes.size →
      getLeafLoop nodes props (n + 1) i = some (E c s pc props (assigned.getD i default)) := by
  intro n
  induction n with
  | zero => intro i h1 h2; omega
  | succ n ih =>
    intro i h1 h2
    have hg := hgood i h2
    unfold getLeafLoop
    have hget : nodes[i]? = some nodes[i] := by simp [h2]
    rw [hget]
    generalize nodes[i] = node at hg
    cases node with
    | leaf l => simp only [Good] at hg; rw [hg]
    | table _ _ _ => exact absurd hg (by simp [Good])
    | fused p0 v0 pl pr vl vr base =>
      simp only [Good] at hg
      obtain ⟨g1, g2, g3⟩ := hg
      have key := ih (fusedTarget props p0 v0 pl pr vl vr base) (by omega) (by omega)
      rw [g3] at key
      show getLeafLoop nodes props (n + 1) (base + (if props p0 ≤ v0 then 2 + (if props pr ≤ vr then 1 else 0)
          else (if props pl ≤ vl then 1 else 0))) = _
      exact key

/-! ## the construction loop -/

def AllSub (P : Tree → Prop) : Tree → Prop
  | .leaf l => P (.leaf l)
  | .dec p v l r => P (.dec p v l r) ∧ AllSub P l ∧ AllSub P r

theorem AllSub_self (P : Tree → Prop) (t : Tree) (h : AllSub P t) : P t := by
  cases t with
  | leaf l => exact h
  | dec p v l r => exact h.1

theorem AllSub_next (P : Tree → Prop) (t : Tree) (h : AllSub P t) : AllSub P (t.next c s pc) := by
  induction t with
  | leaf l => exact h
  | dec p v l r ihl ihr =>
    obtain ⟨h0, hl, hr⟩ := h
    unfold Tree.next
    split
    · split
      · exact ihl hl
      · exact ihr hr
    · split
      · split
        · exact ihl hl
        · exact ihr hr
      · split
        · split
          · exact ihl hl
          · exact ihr hr
        · exact ⟨h0, hl, hr⟩

/-- the node never compiles to a lookup table -/
def NoTab (t : Tree) : Prop := ∀ nb, tryCompile c s pc t nb = none

def wt (t : Tree) : Nat := 2 * t.size - 1
def wts (q : List Tree) : Nat := (q.map wt).sum

theorem size_pos (t : Tree) : 1 ≤ t.size := by cases t <;> simp [Tree.size] <;> omega

theorem next_size_le (t : Tree) : (t.next c s pc).size ≤ t.size := by
  induction t with
  | leaf l => simp [Tree.next]
  | dec p v l r ihl ihr =>
    unfold Tree.next
    simp only [Tree.size]
    split
    · split <;> omega
    · split
      · split <;> omega
      · split
        · split <;> omega
        · simp [Tree.size]

/-- children of a (non-static) subtree root, as the flattener enqueues them -/
def kids (t : Tree) : Nat × Int × Tree × Tree :=
  match t with
  | .dec p v a b => (p, v, a, b)
  | n => (0, 0, n, n)

theorem kids_wt (t : Tree) : wt (kids t).2.2.1 + wt (kids t).2.2.2 ≤ 2 * t.size := by
  cases t with
  | leaf l => simp [kids, wt, Tree.size]
  | dec p v a b =>
    have := size_pos a; have := size_pos b
    simp [kids, wt, Tree.size]; omega

theorem wt_pos (t : Tree) : 1 ≤ wt t := by have := size_pos t; unfold wt; omega

theorem wts_cons (t : Tree) (q : List Tree) : wts (t :: q) = wt t + wts q := by simp [wts]
theorem wts_append (a b : List Tree) : wts (a ++ b) = wts a + wts b := by simp [wts]

theorem drop_cons_of_eq {α} (l : List α) (n : Nat) (x : α) (xs : List α) (h : x :: xs = l.drop n) :
    n < l.length ∧ l.getD n x = x ∧ xs = l.drop (n + 1) := by
  have hlt : n < l.length := by
    by_cases hh : n < l.length
    · exact hh
    · have : l.drop n = [] := List.drop_eq_nil_of_le (by omega)
      rw [this] at h; simp at h
  refine ⟨hlt, ?_, ?_⟩
  · have : l.drop n = l[n] :: l.drop (n + 1) := (List.drop_eq_getElem_cons hlt)
    rw [this] at h
    have := (List.cons.inj h).1
    simp [List.getD, hlt, this]
  · have : l.drop n = l[n] :: l.drop (n + 1) := (List.drop_eq_getElem_cons hlt)
    rw [this] at h
    exact (List.cons.inj h).2

/-- evaluation at a non-static decision root, in terms of the enqueued children -/
theorem E_kids (props : Nat → Int) (u : Tree) (hns : ∀ p v a b, u = .dec p v a b → isStatic pc p = false) :
    E c s pc props u =
      (if props (kids u).1 ≤ (kids u).2.1 then E c s pc props (kids u).2.2.2 else E c s pc props (kids u).2.2.1) := by
  cases u with
  | leaf l => simp only [kids, E]; exact (ite_self _).symm
  | dec p v a b =>
    have hp := hns p v a b rfl
    simp only [kids, E, Tree.eval, specProps_nonstatic c s pc props p hp]
    by_cases h : props p > v
    · have : ¬ (props p ≤ v) := by omega
      simp [h, this]
    · have : props p ≤ v := by omega
      simp [h, this]

/-- one fused emission, with the children written through `kids` -/
theorem flattenLoop_dec (fuel : Nat) (t : Tree) (q : List Tree) (out : Array FlatNode) (nb : Nat)
    (p : Nat) (v : Int) (l r : Tree) (ht : t.next c s pc = .dec p v l r)
    (hnt : tryCompile c s pc (.dec p v l r) nb = none) :
    flattenLoop c s pc (fuel + 1) (t :: q) out nb =
      flattenLoop c s pc fuel
        (q ++ [(kids (l.next c s pc)).2.2.1, (kids (l.next c s pc)).2.2.2,
               (kids (r.next c s pc)).2.2.1, (kids (r.next c s pc)).2.2.2])
        (out.push (.fused p v (kids (l.next c s pc)).1 (kids (r.next c s pc)).1
                    (kids (l.next c s pc)).2.1 (kids (r.next c s pc)).2.1 nb)) (nb + 4) := by
  rw [flattenLoop]
  simp only [ht, hnt]
  cases hl : l.next c s pc <;> cases hr : r.next c s pc <;> simp [kids]

theorem flattenLoop_leaf (fuel : Nat) (t : Tree) (q : List Tree) (out : Array FlatNode) (nb : Nat)
    (l : Leaf) (ht : t.next c s pc = .leaf l) :
    flattenLoop c s pc (fuel + 1) (t :: q) out nb = flattenLoop c s pc fuel q (out.push (.leaf l)) nb := by
  rw [flattenLoop]
  simp only [ht, tryCompile]

theorem AllSub_kids (P : Tree → Prop) (u : Tree) (h : AllSub P u) :
    AllSub P (kids u).2.2.1 ∧ AllSub P (kids u).2.2.2 := by
  cases u with
  | leaf l => exact ⟨h, h⟩
  | dec p v a b => exact ⟨h.2.1, h.2.2⟩

theorem flattenLoop_inv (props : Nat → Int) :
    ∀ (fuel : Nat) (q : List Tree) (out : Array FlatNode) (assigned : List Tree),
      q = assigned.drop out.size → out.size ≤ assigned.length →
      (∀ i (h : i < out.size), Good c s pc props assigned i out[i]) →
      wts q ≤ fuel → (∀ t ∈ q, AllSub (NoTab c s pc) t) →
      ∃ ext, (flattenLoop c s pc fuel q out assigned.length).size = (assigned ++ ext).length ∧
        ∀ i (h : i < (flattenLoop c s pc fuel q out assigned.length).size),
          Good c s pc props (assigned ++ ext) i (flattenLoop c s pc fuel q out assigned.length)[i] := by
  intro fuel
  induction fuel with
  | zero =>
    intro q out assigned hq hle hgood hw _
    have hqe : q = [] := by
      cases q with
      | nil => rfl
      | cons t q' => rw [wts_cons] at hw; have := wt_pos t; omega
    subst hqe
    have hlen : assigned.length ≤ out.size := by
      have := congrArg List.length hq; simp at this; omega
    refine ⟨[], ?_, ?_⟩
    · simp [flattenLoop]; omega
    · intro i h; simp only [flattenLoop] at h ⊢; simpa using hgood i h
  | succ fuel ih =>
    intro q out assigned hq hle hgood hw hnt
    cases q with
    | nil =>
      have hlen : assigned.length ≤ out.size := by
        have := congrArg List.length hq; simp at this; omega
      refine ⟨[], ?_, ?_⟩
      · simp [flattenLoop]; omega
      · intro i h; simp only [flattenLoop] at h ⊢; simpa using hgood i h
    | cons t q' =>
      obtain ⟨hlt, hget, hq'⟩ := drop_cons_of_eq assigned out.size t q' hq
      have hsub := hnt t (by simp)
      have hsubn := AllSub_next c s pc _ t hsub
      have hEt : E c s pc props (t.next c s pc) = E c s pc props t := next_eval c s pc props t
      rw [wts_cons] at hw
      cases hn : t.next c s pc with
      | leaf l =>
        rw [flattenLoop_leaf c s pc fuel t q' out assigned.length l hn]
        have := ih q' (out.push (.leaf l)) assigned (by simpa using hq') (by simp; omega)
          (by
            intro i h
            simp only [Array.size_push] at h
            by_cases hi : i < out.size
            · simpa [Array.getElem_push_lt hi] using hgood i hi
            · have : i = out.size := by omega
              subst this
              simp only [Array.getElem_push_eq, Good]
              have hd : assigned.getD out.size default = t := by
                simp only [List.getD] at hget ⊢
                simp [List.getElem?_eq_getElem hlt] at hget ⊢
                exact hget
              rw [hd, ← hEt, hn]; rfl)
          (by have := wt_pos t; omega) (fun u hu => hnt u (by simp [hu]))
        exact this
      | dec p v l r =>
        rw [hn] at hsubn hEt
        have hno : tryCompile c s pc (.dec p v l r) assigned.length = none :=
          (AllSub_self _ _ hsubn) assigned.length
        rw [flattenLoop_dec c s pc fuel t q' out assigned.length p v l r hn hno]
        have hp : isStatic pc p = false := next_nonstatic c s pc t p v l r hn
        let ln := l.next c s pc
        let rn := r.next c s pc
        let ch : List Tree := [(kids ln).2.2.1, (kids ln).2.2.2, (kids rn).2.2.1, (kids rn).2.2.2]
        have hln : AllSub (NoTab c s pc) ln := AllSub_next c s pc _ l hsubn.2.1
        have hrn : AllSub (NoTab c s pc) rn := AllSub_next c s pc _ r hsubn.2.2
        have hlk := AllSub_kids _ ln hln
        have hrk := AllSub_kids _ rn hrn
        have hd : assigned.getD out.size default = t := by
          simp only [List.getD] at hget ⊢
          simp [List.getElem?_eq_getElem hlt] at hget ⊢
          exact hget
        have hwt : wts ch + 1 ≤ wt t := by
          have h1 := kids_wt ln
          have h2 := kids_wt rn
          have h3 : ln.size ≤ l.size := next_size_le c s pc l
          have h4 : rn.size ≤ r.size := next_size_le c s pc r
          have h5 := next_size_le c s pc t
          rw [hn] at h5
          simp only [Tree.size] at h5
          have e : wts ch = wt (kids ln).2.2.1 + wt (kids ln).2.2.2 + (wt (kids rn).2.2.1 + wt (kids rn).2.2.2) := by
            simp [wts, ch]; omega
          have hs := size_pos t
          simp only [wt] at *
          omega
        have hres := ih (q' ++ ch) (out.push (.fused p v (kids ln).1 (kids rn).1 (kids ln).2.1 (kids rn).2.1 assigned.length))
          (assigned ++ ch)
          (by simp [hq', List.drop_append_of_le_length (show out.size + 1 ≤ assigned.length by omega)])
          (by simp; omega)
          (by
            intro i h
            simp only [Array.size_push] at h
            by_cases hi : i < out.size
            · rw [Array.getElem_push_lt hi]
              exact Good_mono c s pc props assigned _ ch rfl i (by omega) _ (hgood i hi)
            · have : i = out.size := by omega
              subst this
              simp only [Array.getElem_push_eq, Good]
              have hEi : E c s pc props ((assigned ++ ch).getD out.size default) = E c s pc props (.dec p v l r) := by
                rw [getD_append_left _ _ _ _ hlt, hd, ← hEt]
              rw [hEi]
              have hdec : E c s pc props (.dec p v l r) =
                  (if props p ≤ v then E c s pc props rn else E c s pc props ln) := by
                have := E_kids c s pc props (.dec p v l r) (by
                  intro p' v' a b he; cases he; exact hp)
                simp only [kids] at this
                rw [this]
                have e1 : E c s pc props rn = E c s pc props r := next_eval c s pc props r
                have e2 : E c s pc props ln = E c s pc props l := next_eval c s pc props l
                by_cases hpv : props p ≤ v <;> simp [hpv, e1, e2]
              have hkl := E_kids c s pc props ln (fun p' v' a b he => next_nonstatic c s pc l p' v' a b he)
              have hkr := E_kids c s pc props rn (fun p' v' a b he => next_nonstatic c s pc r p' v' a b he)
              have getk : ∀ j (hj : j < 4), (assigned ++ ch).getD (assigned.length + j) default = ch.getD j default := by
                intro j hj
                simp only [List.getD]
                rw [List.getElem?_append_right (by omega)]
                simp
              unfold fusedTarget
              by_cases h0 : props p ≤ v
              · by_cases h1 : props (kids rn).1 ≤ (kids rn).2.1
                · simp only [h0, h1, if_true]
                  refine ⟨by omega, by simp [ch], ?_⟩
                  rw [show assigned.length + (2 + 1) = assigned.length + 3 from rfl, getk 3 (by omega), hdec, hkr]
                  simp [h0, h1, ch]
                · simp only [h0, h1, if_true, if_false]
                  refine ⟨by omega, by simp [ch], ?_⟩
                  rw [show assigned.length + (2 + 0) = assigned.length + 2 from rfl, getk 2 (by omega), hdec, hkr]
                  simp [h0, h1, ch]
              · by_cases h1 : props (kids ln).1 ≤ (kids ln).2.1
                · simp only [h0, h1, if_true, if_false]
                  refine ⟨by omega, by simp [ch], ?_⟩
                  rw [getk 1 (by omega), hdec, hkl]
                  simp [h0, h1, ch]
                · simp only [h0, h1, if_false]
                  refine ⟨by omega, by simp [ch], ?_⟩
                  rw [show assigned.length + 0 = assigned.length + 0 from rfl, getk 0 (by omega), hdec, hkl]
                  simp [h0, h1, ch])
          (by rw [wts_append]; omega)
          (by
            intro u hu
            rcases List.mem_append.mp hu with h | h
            · exact hnt u (by simp [h])
            · simp only [ch, List.mem_cons, List.mem_nil_iff, or_false] at h
              rcases h with rfl | rfl | rfl | rfl
              · exact hlk.1
              · exact hlk.2
              · exact hrk.1
              · exact hrk.2)
        obtain ⟨ext, he1, he2⟩ := hres
        have hlen4 : (assigned ++ ch).length = assigned.length + 4 := by simp [ch]
        rw [hlen4] at he1 he2
        refine ⟨ch ++ ext, ?_, ?_⟩
        · rw [← List.append_assoc]; exact he1
        · intro i h; rw [← List.append_assoc]; exact he2 i h

/-- **Flattened tree = tree**, for every tree none of whose subtrees compiles to a lookup table,
every channel / stream / number of previous channels and every property vector. -/
theorem flatten_getLeaf_eq_evalFor (t : Tree) (props : Nat → Int)
    (hnt : AllSub (NoTab c s pc) t) :
    getLeaf (flatten c s pc t) props = some (t.evalFor c s pc props) := by
  have hsub := AllSub_next c s pc _ t hnt
  obtain ⟨ext, h1, h2⟩ := flattenLoop_inv c s pc props (4 * t.size + 4) [t.next c s pc] #[] [t.next c s pc]
    (by simp) (by simp) (by intro i h; simp at h)
    (by
      have := next_size_le c s pc t
      have := size_pos (t.next c s pc)
      simp [wts, wt]; omega)
    (by intro u hu; simp at hu; subst hu; exact hsub)
  simp only [List.length_singleton] at h1 h2
  have hflat : flatten c s pc t = flattenLoop c s pc (4 * t.size + 4) [t.next c s pc] #[] 1 := rfl
  rw [hflat]
  generalize flattenLoop c s pc (4 * t.size + 4) [t.next c s pc] #[] 1 = res at h1 h2
  have hpos : 0 < res.size := by rw [h1]; simp
  have := walk_correct c s pc props res ([t.next c s pc] ++ ext) h1 h2 res.size 0 (by omega) hpos
  unfold getLeaf
  rw [this]
  simp only [List.singleton_append, List.getD_cons_zero]
  congr 1
  exact next_eval c s pc props t

/-- whether a node compiles to a table does not depend on the index base -/
theorem tryCompile_isNone_indep (t : Tree) (nb : Nat) :
    (tryCompile c s pc t nb).isNone = (tryCompile c s pc t 0).isNone := by
  cases t with
  | leaf l => rfl
  | dec prop value l r =>
    simp only [tryCompile]
    generalize compileLoop c s pc prop _ _ value value [] = cl
    obtain ⟨lb, ub, rn⟩ := cl
    by_cases h : rn.length < 4 <;> simp [h]

/-- decidable form of "no subtree compiles to a lookup table" -/
def noTabB : Tree → Bool
  | .leaf _ => true
  | .dec p v l r => (tryCompile c s pc (.dec p v l r) 0).isNone && noTabB l && noTabB r

theorem noTabB_sound (t : Tree) (h : noTabB c s pc t = true) : AllSub (NoTab c s pc) t := by
  induction t with
  | leaf l => intro nb; rfl
  | dec p v l r ihl ihr =>
    simp only [noTabB, Bool.and_eq_true] at h
    refine ⟨?_, ihl h.1.2, ihr h.2⟩
    intro nb
    have := tryCompile_isNone_indep c s pc (.dec p v l r) nb
    rw [h.1.1] at this
    exact Option.isNone_iff_eq_none.mp this

end Jxl.Modular
