import JxlModel.Proofs.TableCompile
/-!
# Flattened MA tree = the tree

`getLeaf (flatten …)` walks exactly to the leaf `Tree.evalFor` selects, including sub-trees compiled
to lookup tables (`tryCompile_correct` in `Proofs/TableCompile.lean`). The proof follows the
breadth-first construction with a ghost list `assigned` (the tree promised to every index).
-/
namespace Jxl.Modular

variable (c s pc : Nat)

/-! ## invariant of the breadth-first construction -/

def fusedTarget (props : Nat → Int) (p0 : Nat) (v0 : Int) (pl pr : Nat) (vl vr : Int) (base : Nat) : Nat :=
  base + (if props p0 ≤ v0 then 2 + (if props pr ≤ vr then 1 else 0) else (if props pl ≤ vl then 1 else 0))


/-- node `i` of the flat array does what the tree assigned to index `i` does -/
def Good (props : Nat → Int) (assigned : List Tree) (i : Nat) : FlatNode → Prop
  | .leaf l => E c s pc props (assigned.getD i default) = l
  | .fused p0 v0 pl pr vl vr base =>
    let k := fusedTarget props p0 v0 pl pr vl vr base
    i < k ∧ k < assigned.length ∧
      E c s pc props (assigned.getD k default) = E c s pc props (assigned.getD i default)
  | .table prop vb ind =>
    let k := ind.getD (tblIdx (props prop) vb ind.size) 0
    i < k ∧ k < assigned.length ∧
      E c s pc props (assigned.getD k default) = E c s pc props (assigned.getD i default)

theorem Good_mono (props : Nat → Int) (a a' : List Tree) (ext : List Tree) (ha : a' = a ++ ext)
    (i : Nat) (hi : i < a.length) (n : FlatNode) (h : Good c s pc props a i n) :
    Good c s pc props a' i n := by
  subst ha
  cases n with
  | leaf l =>
    simp only [Good] at *
    rw [getD_append_left _ _ _ _ hi]; exact h
  | fused p0 v0 pl pr vl vr base =>
    simp only [Good] at *
    obtain ⟨h1, h2, h3⟩ := h
    refine ⟨h1, by simp; omega, ?_⟩
    rw [getD_append_left _ _ _ _ hi, getD_append_left _ _ _ _ h2]; exact h3
  | table prop vb ind =>
    simp only [Good] at *
    obtain ⟨h1, h2, h3⟩ := h
    refine ⟨h1, by rw [List.length_append]; omega, ?_⟩
    rw [getD_append_left _ _ _ _ hi, getD_append_left _ _ _ _ h2]; exact h3

/-- the walker reaches the Spec leaf from every index of a completed array -/
theorem walk_correct (props : Nat → Int) (nodes : Array FlatNode) (assigned : List Tree)
    (hlen : nodes.size = assigned.length)
    (hgood : ∀ i (h : i < nodes.size), Good c s pc props assigned i nodes[i]) :
    ∀ n i, nodes.size - i ≤ n → i < nodes.size →
      getLeafLoop nodes props (n + 1) i = some (E c s pc props (assigned.getD i default)) := by
  intro n
  induction n with
  | zero => intro i h1 h2; omega
  | succ n ih =>
    intro i h1 h2
    have hg := hgood i h2
    unfold getLeafLoop
    have hget : nodes[i]? = some nodes[i] := by simp [h2]
    rw [hget]
    generalize nodes[i] = node at hg
    cases node with
    | leaf l => simp only [Good] at hg; rw [hg]
    | table prop vb ind =>
      simp only [Good] at hg
      obtain ⟨g1, g2, g3⟩ := hg
      have key := ih (ind.getD (tblIdx (props prop) vb ind.size) 0) (by omega) (by omega)
      rw [g3] at key
      exact key
    | fused p0 v0 pl pr vl vr base =>
      simp only [Good] at hg
      obtain ⟨g1, g2, g3⟩ := hg
      have key := ih (fusedTarget props p0 v0 pl pr vl vr base) (by omega) (by omega)
      rw [g3] at key
      show getLeafLoop nodes props (n + 1) (base + (if props p0 ≤ v0 then 2 + (if props pr ≤ vr then 1 else 0)
          else (if props pl ≤ vl then 1 else 0))) = _
      exact key


/-! ## the construction loop -/

/-- the node never compiles to a lookup table -/
def NoTab (t : Tree) : Prop := ∀ nb, tryCompile c s pc t nb = none

/-- the decision value at the root fits `i32` -/
def RootOK : Tree → Prop
  | .dec _ v _ _ => i32Min ≤ v ∧ v ≤ i32Max
  | .leaf _ => True

/-- what the flattening needs of a (sub-)tree: if it compiles to a lookup table then its root value
and the property values are in the `i32` range -/
def TabSafe (props : Nat → Int) (t : Tree) : Prop :=
  NoTab c s pc t ∨ (RootOK t ∧ ∀ p, i32Min ≤ props p ∧ props p ≤ i32Max)

/-- one fused emission, with the children written through `kids` -/
theorem flattenLoop_dec (fuel : Nat) (t : Tree) (q : List Tree) (out : Array FlatNode) (nb : Nat)
    (p : Nat) (v : Int) (l r : Tree) (ht : t.next c s pc = .dec p v l r)
    (hnt : tryCompile c s pc (.dec p v l r) nb = none) :
    flattenLoop c s pc (fuel + 1) (t :: q) out nb =
      flattenLoop c s pc fuel
        (q ++ [(kids (l.next c s pc)).2.2.1, (kids (l.next c s pc)).2.2.2,
               (kids (r.next c s pc)).2.2.1, (kids (r.next c s pc)).2.2.2])
        (out.push (.fused p v (kids (l.next c s pc)).1 (kids (r.next c s pc)).1
                    (kids (l.next c s pc)).2.1 (kids (r.next c s pc)).2.1 nb)) (nb + 4) := by
  rw [flattenLoop]
  simp only [ht, hnt]
  cases hl : l.next c s pc <;> cases hr : r.next c s pc <;> simp [kids]

theorem flattenLoop_leaf (fuel : Nat) (t : Tree) (q : List Tree) (out : Array FlatNode) (nb : Nat)
    (l : Leaf) (ht : t.next c s pc = .leaf l) :
    flattenLoop c s pc (fuel + 1) (t :: q) out nb = flattenLoop c s pc fuel q (out.push (.leaf l)) nb := by
  rw [flattenLoop]
  simp only [ht, tryCompile]


theorem flattenLoop_table (fuel : Nat) (t : Tree) (q : List Tree) (out : Array FlatNode) (nb : Nat)
    (t' : Tree) (node : FlatNode) (nodes : List Tree) (ht : t.next c s pc = t')
    (hc : tryCompile c s pc t' nb = some (node, nodes)) :
    flattenLoop c s pc (fuel + 1) (t :: q) out nb =
      flattenLoop c s pc fuel (q ++ nodes) (out.push node) (nb + nodes.length) := by
  rw [flattenLoop]
  simp only [ht, hc]

theorem getD_append_right' {α} (a b : List α) (d : α) (i : Nat) :
    (a ++ b).getD (a.length + i) d = b.getD i d := by
  simp [List.getD, List.getElem?_append_right]

theorem flattenLoop_inv (props : Nat → Int) :
    ∀ (fuel : Nat) (q : List Tree) (out : Array FlatNode) (assigned : List Tree),
      q = assigned.drop out.size → out.size ≤ assigned.length →
      (∀ i (h : i < out.size), Good c s pc props assigned i out[i]) →
      wts q ≤ fuel → (∀ t ∈ q, AllSub (TabSafe c s pc props) t) →
      ∃ ext, (flattenLoop c s pc fuel q out assigned.length).size = (assigned ++ ext).length ∧
        ∀ i (h : i < (flattenLoop c s pc fuel q out assigned.length).size),
          Good c s pc props (assigned ++ ext) i (flattenLoop c s pc fuel q out assigned.length)[i] := by
  intro fuel
  induction fuel with
  | zero =>
    intro q out assigned hq hle hgood hw _
    have hqe : q = [] := by
      cases q with
      | nil => rfl
      | cons t q' => rw [wts_cons] at hw; have := wt_pos t; omega
    subst hqe
    have hlen : assigned.length ≤ out.size := by
      have := congrArg List.length hq; simp at this; omega
    refine ⟨[], ?_, ?_⟩
    · simp [flattenLoop]; omega
    · intro i h; simp only [flattenLoop] at h ⊢; simpa using hgood i h
  | succ fuel ih =>
    intro q out assigned hq hle hgood hw hnt
    cases q with
    | nil =>
      have hlen : assigned.length ≤ out.size := by
        have := congrArg List.length hq; simp at this; omega
      refine ⟨[], ?_, ?_⟩
      · simp [flattenLoop]; omega
      · intro i h; simp only [flattenLoop] at h ⊢; simpa using hgood i h
    | cons t q' =>
      obtain ⟨hlt, hget, hq'⟩ := drop_cons_of_eq assigned out.size t q' hq
      have hsub := hnt t (by simp)
      have hsubn := AllSub_next c s pc _ t hsub
      have hEt : E c s pc props (t.next c s pc) = E c s pc props t := next_eval c s pc props t
      rw [wts_cons] at hw
      cases hn : t.next c s pc with
      | leaf l =>
        rw [flattenLoop_leaf c s pc fuel t q' out assigned.length l hn]
        have := ih q' (out.push (.leaf l)) assigned (by simpa using hq') (by simp; omega)
          (by
            intro i h
            simp only [Array.size_push] at h
            by_cases hi : i < out.size
            · simpa [Array.getElem_push_lt hi] using hgood i hi
            · have : i = out.size := by omega
              subst this
              simp only [Array.getElem_push_eq, Good]
              have hd : assigned.getD out.size default = t := by
                simp only [List.getD] at hget ⊢
                simp [List.getElem?_eq_getElem hlt] at hget ⊢
                exact hget
              rw [hd, ← hEt, hn]; rfl)
          (by have := wt_pos t; omega) (fun u hu => hnt u (by simp [hu]))
        exact this
      | dec p v l r =>
        rw [hn] at hsubn hEt
        have hp : isStatic pc p = false := next_nonstatic c s pc t p v l r hn
        have hd : assigned.getD out.size default = t := by
          simp only [List.getD] at hget ⊢
          simp [List.getElem?_eq_getElem hlt] at hget ⊢
          exact hget
        cases hc : tryCompile c s pc (.dec p v l r) assigned.length with
        | some pr =>
          obtain ⟨node, nodes⟩ := pr
          have hok : RootOK (.dec p v l r) ∧ ∀ q, i32Min ≤ props q ∧ props q ≤ i32Max := by
            rcases AllSub_self _ _ hsubn with hnt | hok
            · rw [hnt assigned.length] at hc; exact absurd hc (by simp)
            · exact hok
          obtain ⟨vb, ind, k, e1, e2, e3, e4, e5, e6⟩ :=
            tryCompile_correct c s pc props (TabSafe c s pc props) p v l r assigned.length node nodes
              hp hok.1.1 hok.1.2 (hok.2 p).1 (hok.2 p).2 hsubn hc
          rw [flattenLoop_table c s pc fuel t q' out assigned.length _ node nodes hn hc]
          have hwt := wt_next_le c s pc t
          rw [hn] at hwt
          have hres := ih (q' ++ nodes) (out.push node) (assigned ++ nodes)
            (by simp [hq', List.drop_append_of_le_length (show out.size + 1 ≤ assigned.length by omega)])
            (by simp; omega)
            (by
              intro i h
              simp only [Array.size_push] at h
              by_cases hi : i < out.size
              · rw [Array.getElem_push_lt hi]
                exact Good_mono c s pc props assigned _ nodes rfl i (by omega) _ (hgood i hi)
              · have : i = out.size := by omega
                subst this
                simp only [Array.getElem_push_eq]
                subst e1
                simp only [Good]
                rw [e2]
                refine ⟨by omega, by rw [List.length_append]; omega, ?_⟩
                rw [getD_append_right', getD_append_left _ _ _ _ hlt, hd, e4, ← hEt])
            (by rw [wts_append]; omega)
            (by
              intro u hu
              rcases List.mem_append.mp hu with h | h
              · exact hnt u (by simp [h])
              · exact e5 u h)
          obtain ⟨ext, he1, he2⟩ := hres
          rw [List.length_append] at he1 he2
          refine ⟨nodes ++ ext, ?_, ?_⟩
          · rw [← List.append_assoc]; exact he1
          · intro i h; rw [← List.append_assoc]; exact he2 i h
        | none =>
          have hno := hc
          rw [flattenLoop_dec c s pc fuel t q' out assigned.length p v l r hn hno]
          have hp : isStatic pc p = false := next_nonstatic c s pc t p v l r hn
          let ln := l.next c s pc
          let rn := r.next c s pc
          let ch : List Tree := [(kids ln).2.2.1, (kids ln).2.2.2, (kids rn).2.2.1, (kids rn).2.2.2]
          have hln : AllSub (TabSafe c s pc props) ln := AllSub_next c s pc _ l hsubn.2.1
          have hrn : AllSub (TabSafe c s pc props) rn := AllSub_next c s pc _ r hsubn.2.2
          have hlk := AllSub_kids _ ln hln
          have hrk := AllSub_kids _ rn hrn
          have hd : assigned.getD out.size default = t := by
            simp only [List.getD] at hget ⊢
            simp [List.getElem?_eq_getElem hlt] at hget ⊢
            exact hget
          have hwt : wts ch + 1 ≤ wt t := by
            have h1 := kids_wt ln
            have h2 := kids_wt rn
            have h3 : ln.size ≤ l.size := next_size_le c s pc l
            have h4 : rn.size ≤ r.size := next_size_le c s pc r
            have h5 := next_size_le c s pc t
            rw [hn] at h5
            simp only [Tree.size] at h5
            have e : wts ch = wt (kids ln).2.2.1 + wt (kids ln).2.2.2 + (wt (kids rn).2.2.1 + wt (kids rn).2.2.2) := by
              simp [wts, ch]; omega
            have hs := size_pos t
            simp only [wt] at *
            omega
          have hres := ih (q' ++ ch) (out.push (.fused p v (kids ln).1 (kids rn).1 (kids ln).2.1 (kids rn).2.1 assigned.length))
            (assigned ++ ch)
            (by simp [hq', List.drop_append_of_le_length (show out.size + 1 ≤ assigned.length by omega)])
            (by simp; omega)
            (by
              intro i h
              simp only [Array.size_push] at h
              by_cases hi : i < out.size
              · rw [Array.getElem_push_lt hi]
                exact Good_mono c s pc props assigned _ ch rfl i (by omega) _ (hgood i hi)
              · have : i = out.size := by omega
                subst this
                simp only [Array.getElem_push_eq, Good]
                have hEi : E c s pc props ((assigned ++ ch).getD out.size default) = E c s pc props (.dec p v l r) := by
                  rw [getD_append_left _ _ _ _ hlt, hd, ← hEt]
                rw [hEi]
                have hdec : E c s pc props (.dec p v l r) =
                    (if props p ≤ v then E c s pc props rn else E c s pc props ln) := by
                  have := E_kids c s pc props (.dec p v l r) (by
                    intro p' v' a b he; cases he; exact hp)
                  simp only [kids] at this
                  rw [this]
                  have e1 : E c s pc props rn = E c s pc props r := next_eval c s pc props r
                  have e2 : E c s pc props ln = E c s pc props l := next_eval c s pc props l
                  by_cases hpv : props p ≤ v <;> simp [hpv, e1, e2]
                have hkl := E_kids c s pc props ln (fun p' v' a b he => next_nonstatic c s pc l p' v' a b he)
                have hkr := E_kids c s pc props rn (fun p' v' a b he => next_nonstatic c s pc r p' v' a b he)
                have getk : ∀ j (hj : j < 4), (assigned ++ ch).getD (assigned.length + j) default = ch.getD j default := by
                  intro j hj
                  simp only [List.getD]
                  rw [List.getElem?_append_right (by omega)]
                  simp
                unfold fusedTarget
                by_cases h0 : props p ≤ v
                · by_cases h1 : props (kids rn).1 ≤ (kids rn).2.1
                  · simp only [h0, h1, if_true]
                    refine ⟨by omega, by simp [ch], ?_⟩
                    rw [show assigned.length + (2 + 1) = assigned.length + 3 from rfl, getk 3 (by omega), hdec, hkr]
                    simp [h0, h1, ch]
                  · simp only [h0, h1, if_true, if_false]
                    refine ⟨by omega, by simp [ch], ?_⟩
                    rw [show assigned.length + (2 + 0) = assigned.length + 2 from rfl, getk 2 (by omega), hdec, hkr]
                    simp [h0, h1, ch]
                · by_cases h1 : props (kids ln).1 ≤ (kids ln).2.1
                  · simp only [h0, h1, if_true, if_false]
                    refine ⟨by omega, by simp [ch], ?_⟩
                    rw [getk 1 (by omega), hdec, hkl]
                    simp [h0, h1, ch]
                  · simp only [h0, h1, if_false]
                    refine ⟨by omega, by simp [ch], ?_⟩
                    rw [show assigned.length + 0 = assigned.length + 0 from rfl, getk 0 (by omega), hdec, hkl]
                    simp [h0, h1, ch])
            (by rw [wts_append]; omega)
            (by
              intro u hu
              rcases List.mem_append.mp hu with h | h
              · exact hnt u (by simp [h])
              · simp only [ch, List.mem_cons, List.mem_nil_iff, or_false] at h
                rcases h with rfl | rfl | rfl | rfl
                · exact hlk.1
                · exact hlk.2
                · exact hrk.1
                · exact hrk.2)
          obtain ⟨ext, he1, he2⟩ := hres
          have hlen4 : (assigned ++ ch).length = assigned.length + 4 := by simp [ch]
          rw [hlen4] at he1 he2
          refine ⟨ch ++ ext, ?_, ?_⟩
          · rw [← List.append_assoc]; exact he1
          · intro i h; rw [← List.append_assoc]; exact he2 i h


/-- **Flattened tree = tree**, for every tree all of whose subtrees are `TabSafe` (compile to no
lookup table, or have a root value in `[i32Min, i32Max]` while the property values fit `i32`),
every channel / stream / number of previous channels. -/
theorem flatten_getLeaf_eq_evalFor (t : Tree) (props : Nat → Int)
    (hnt : AllSub (TabSafe c s pc props) t) :
    getLeaf (flatten c s pc t) props = some (t.evalFor c s pc props) := by
  have hsub := AllSub_next c s pc _ t hnt
  obtain ⟨ext, h1, h2⟩ := flattenLoop_inv c s pc props (4 * t.size + 4) [t.next c s pc] #[] [t.next c s pc]
    (by simp) (by simp) (by intro i h; simp at h)
    (by
      have := next_size_le c s pc t
      have := size_pos (t.next c s pc)
      simp [wts, wt]; omega)
    (by intro u hu; simp at hu; subst hu; exact hsub)
  simp only [List.length_singleton] at h1 h2
  have hflat : flatten c s pc t = flattenLoop c s pc (4 * t.size + 4) [t.next c s pc] #[] 1 := rfl
  rw [hflat]
  generalize flattenLoop c s pc (4 * t.size + 4) [t.next c s pc] #[] 1 = res at h1 h2
  have hpos : 0 < res.size := by rw [h1]; simp
  have := walk_correct c s pc props res ([t.next c s pc] ++ ext) h1 h2 res.size 0 (by omega) hpos
  unfold getLeaf
  rw [this]
  simp only [List.singleton_append, List.getD_cons_zero]
  congr 1
  exact next_eval c s pc props t

/-- whether a node compiles to a table does not depend on the index base -/
theorem tryCompile_isNone_indep (t : Tree) (nb : Nat) :
    (tryCompile c s pc t nb).isNone = (tryCompile c s pc t 0).isNone := by
  cases t with
  | leaf l => rfl
  | dec prop value l r =>
    simp only [tryCompile]
    generalize compileLoop c s pc prop _ _ value value [] = cl
    obtain ⟨lb, ub, rn⟩ := cl
    by_cases h : rn.length < 4 <;> simp [h]

/-- decidable form of "no subtree compiles to a lookup table" -/
def noTabB : Tree → Bool
  | .leaf _ => true
  | .dec p v l r => (tryCompile c s pc (.dec p v l r) 0).isNone && noTabB l && noTabB r

theorem noTabB_sound (t : Tree) (h : noTabB c s pc t = true) : AllSub (NoTab c s pc) t := by
  induction t with
  | leaf l => intro nb; rfl
  | dec p v l r ihl ihr =>
    simp only [noTabB, Bool.and_eq_true] at h
    refine ⟨?_, ihl h.1.2, ihr h.2⟩
    intro nb
    have := tryCompile_isNone_indep c s pc (.dec p v l r) nb
    rw [h.1.1] at this
    exact Option.isNone_iff_eq_none.mp this
theorem AllSub_imp (P Q : Tree → Prop) (hPQ : ∀ t, P t → Q t) (t : Tree) (h : AllSub P t) : AllSub Q t := by
  induction t with
  | leaf l => exact hPQ _ h
  | dec p v l r ihl ihr => exact ⟨hPQ _ h.1, ihl h.2.1, ihr h.2.2⟩

/-- every decision value of the tree fits `i32` (what the Rust type of `value` guarantees) -/
def Tree.valuesInI32 : Tree → Bool
  | .leaf _ => true
  | .dec _ v l r => decide (i32Min ≤ v) && decide (v ≤ i32Max) && l.valuesInI32 && r.valuesInI32

theorem valuesInI32_sound (t : Tree) (h : t.valuesInI32 = true) : AllSub RootOK t := by
  induction t with
  | leaf l => exact True.intro
  | dec p v l r ihl ihr =>
    simp only [Tree.valuesInI32, Bool.and_eq_true, decide_eq_true_eq] at h
    exact ⟨⟨h.1.1.1, h.1.1.2⟩, ihl h.1.2, ihr h.2⟩

/-- **Flattened tree = tree, lookup tables included**: property values and decision values in the
`i32` range. -/
theorem flatten_getLeaf_eq_evalFor_full (t : Tree) (props : Nat → Int)
    (hp : ∀ p, i32Min ≤ props p ∧ props p ≤ i32Max) (hv : t.valuesInI32 = true) :
    getLeaf (flatten c s pc t) props = some (t.evalFor c s pc props) :=
  flatten_getLeaf_eq_evalFor c s pc t props
    (AllSub_imp _ _ (fun _ h => Or.inr ⟨h, hp⟩) t (valuesInI32_sound t hv))

end Jxl.Modular
