import JxlModel.Proofs.Icc
namespace Jxl.Icc

theorem take_append_len (a b : List Nat) (n : Nat) (h : a.length = n) : (a ++ b).take n = a := by
  subst h; simp

theorem drop_append_len (a b : List Nat) (n : Nat) (h : a.length = n) : (a ++ b).drop n = b := by
  subst h; simp

theorem size_take_toArray (l : List Nat) (pos : Nat) (h : pos ≤ l.length) :
    (l.take pos).toArray.size = pos := by simp; omega

theorem cmdCopy_raw (profile : List Nat) (pos n : Nat) (hn : pos + n ≤ profile.length)
    (hl : profile.length < 2 ^ 63) (restC restD : List Nat) :
    cmdCopy 1 (encVarint n ++ restC) (slice profile pos n ++ restD) (profile.take pos).toArray
      = .ok (restC, restD, (profile.take (pos + n)).toArray) := by
  have hs := length_slice profile pos n hn
  unfold cmdCopy
  rw [readVarint_encVarint n restC (by omega)]
  simp only [List.length_append, hs]
  rw [if_neg (by omega), take_append_len _ _ _ hs, drop_append_len _ _ _ hs]
  simp [take_add_slice]

theorem cmdCopy_shuf2 (profile : List Nat) (pos n : Nat) (hn : pos + n ≤ profile.length)
    (hl : profile.length < 2 ^ 63) (restC restD : List Nat) :
    cmdCopy 2 (encVarint n ++ restC) (unshuffle2 (slice profile pos n) ++ restD) (profile.take pos).toArray
      = .ok (restC, restD, (profile.take (pos + n)).toArray) := by
  have hs : (unshuffle2 (slice profile pos n)).length = n := by
    rw [length_unshuffle2]; exact length_slice profile pos n hn
  unfold cmdCopy
  rw [readVarint_encVarint n restC (by omega)]
  simp only [List.length_append, hs]
  rw [if_neg (by omega), take_append_len _ _ _ hs, drop_append_len _ _ _ hs]
  simp [take_add_slice, shuffle2_unshuffle2]

theorem cmdCopy_shuf4 (profile : List Nat) (pos n : Nat) (hn : pos + n ≤ profile.length)
    (hl : profile.length < 2 ^ 63) (restC restD : List Nat) :
    cmdCopy 3 (encVarint n ++ restC) (unshuffle4 (slice profile pos n) ++ restD) (profile.take pos).toArray
      = .ok (restC, restD, (profile.take (pos + n)).toArray) := by
  have hs : (unshuffle4 (slice profile pos n)).length = n := by
    rw [length_unshuffle4]; exact length_slice profile pos n hn
  unfold cmdCopy
  rw [readVarint_encVarint n restC (by omega)]
  simp only [List.length_append, hs]
  rw [if_neg (by omega), take_append_len _ _ _ hs, drop_append_len _ _ _ hs]
  simp [take_add_slice, shuffle4_unshuffle4]

theorem length_residLoopL (profile : List Nat) (width order stride : Nat) (h0 : 0 < width) :
    ∀ (fuel pos n : Nat), n ≤ fuel → pos + n ≤ profile.length →
    (residLoopL profile width order stride fuel pos n).length = n := by
  intro fuel
  induction fuel with
  | zero => intro pos n h _; have : n = 0 := by omega
            subst this; simp [residLoopL]
  | succ fuel ih =>
    intro pos n h hl
    by_cases hz : n = 0
    · subst hz; simp [residLoopL]
    · simp only [residLoopL, hz, if_false, List.length_append, length_residChunk]
      rw [length_slice _ _ _ (by omega), ih _ _ (by omega) (by omega)]
      omega

theorem length_residLoop (profile : List Nat) (width order stride : Nat) (h0 : 0 < width)
    (fuel pos n : Nat) (hn : n ≤ fuel) (hl : pos + n ≤ profile.length) :
    (residLoop profile.toArray width order stride fuel pos n).length = n := by
  rw [residLoop_toArray]
  exact length_residLoopL profile width order stride h0 fuel pos n hn hl

theorem shuffleBy_unshuffleBy (width : Nat) (x : List Nat) : shuffleBy width (unshuffleBy width x) = x := by
  unfold shuffleBy unshuffleBy
  split
  · exact shuffle2_unshuffle2 x
  · split
    · exact shuffle4_unshuffle4 x
    · rfl

theorem length_unshuffleBy (width : Nat) (x : List Nat) : (unshuffleBy width x).length = x.length := by
  unfold unshuffleBy
  split
  · exact length_unshuffle2 x
  · split
    · exact length_unshuffle4 x
    · rfl

theorem cmdPred_enc (profile : List Nat) (hb : IsBytes profile) (pos width order hi n : Nat)
    (stride : Option Nat)
    (hw : width = 1 ∨ width = 2 ∨ width = 4) (ho : order ≤ 2)
    (hsw : width ≤ strideOf width stride) (hs4 : strideOf width stride * 4 < pos)
    (hn : pos + n ≤ profile.length) (hl : profile.length < 2 ^ 63) (restC restD : List Nat) :
    cmdPred
      (((width - 1) + 4 * order + (if stride.isSome then 16 else 0) + 32 * hi) ::
        (encStride stride ++ (encVarint n ++ restC)))
      (unshuffleBy width (residLoop profile.toArray width order (strideOf width stride) n pos n) ++ restD)
      (profile.take pos).toArray
      = .ok (restC, restD, (profile.take (pos + n)).toArray) := by
  have h0 : 0 < width := by omega
  have hres := length_residLoop profile width order (strideOf width stride) h0 n pos n (Nat.le_refl _) hn
  have hs : (unshuffleBy width (residLoop profile.toArray width order (strideOf width stride) n pos n)).length = n := by
    rw [length_unshuffleBy, hres]
  generalize hf : (width - 1) + 4 * order + (if stride.isSome then 16 else 0) + 32 * hi = flags
  have hfw : flags % 4 + 1 = width := by
    subst hf; split <;> omega
  have hfo : (flags / 4) % 4 = order := by
    subst hf; split <;> omega
  have hstride : readStride flags width
      (encStride stride ++ (encVarint n ++ restC))
      = .ok (strideOf width stride, encVarint n ++ restC) := by
    unfold readStride
    cases stride with
    | none =>
      have : (flags / 16) % 2 = 0 := by subst hf; simp; omega
      simp [this, strideOf, encStride]
    | some s =>
      have : ¬ (flags / 16) % 2 = 0 := by subst hf; simp; omega
      simp only [strideOf] at hsw hs4
      rw [if_neg this]
      simp only [encStride]
      rw [readVarint_encVarint s _ (by omega)]
      simp only [strideOf]
      rw [if_neg (by omega)]
  simp only [cmdPred]
  rw [hfw, hfo, if_neg (by omega), hstride]
  simp only [cmdPredRun]
  rw [size_take_toArray _ _ (by omega), if_neg (by omega), readVarint_encVarint n restC (by omega)]
  simp only [List.length_append, hs]
  rw [if_neg (by omega), take_append_len _ _ _ hs, drop_append_len _ _ _ hs, shuffleBy_unshuffleBy,
    predLoop_residLoop profile hb width order _ h0 hsw n pos n (Nat.le_refl _) hn (by omega)]


theorem beq_list_true {a b : List Nat} (h : (a == b) = true) : a = b := by simpa using h

/-- one main command: the decoder's step on the encoder's bytes advances the output by exactly
the profile bytes the command covers -/
theorem mainStep_encSeg (profile : List Nat) (hb : IsBytes profile) (hl : profile.length < 2 ^ 63)
    (pos : Nat) (seg : Seg) (hc : segCovers profile pos seg = true) (restC restD : List Nat) :
    ∃ cb ct, (encSeg profile pos seg).1 = cb :: ct ∧
      mainStep cb (ct ++ restC) ((encSeg profile pos seg).2 ++ restD) (profile.take pos).toArray
        = .ok (restC, restD, (profile.take (pos + segLen seg)).toArray) := by
  cases seg with
  | raw n =>
    have hn : pos + n ≤ profile.length := by simpa [segCovers] using hc
    refine ⟨1, encVarint n, by simp [encSeg], ?_⟩
    simp only [encSeg, segLen, mainStep]
    rw [if_pos (by simp)]
    exact cmdCopy_raw profile pos n hn hl restC restD
  | shuf2 n =>
    have hn : pos + n ≤ profile.length := by simpa [segCovers] using hc
    refine ⟨2, encVarint n, by simp [encSeg], ?_⟩
    simp only [encSeg, segLen, mainStep]
    rw [if_pos (by simp)]
    exact cmdCopy_shuf2 profile pos n hn hl restC restD
  | shuf4 n =>
    have hn : pos + n ≤ profile.length := by simpa [segCovers] using hc
    refine ⟨3, encVarint n, by simp [encSeg], ?_⟩
    simp only [encSeg, segLen, mainStep]
    rw [if_pos (by simp)]
    exact cmdCopy_shuf4 profile pos n hn hl restC restD
  | pred width order stride hi n =>
    simp only [segCovers, Bool.and_eq_true, Bool.or_eq_true, beq_iff_eq, decide_eq_true_eq] at hc
    obtain ⟨⟨⟨⟨⟨hw, ho⟩, _⟩, hsw⟩, hs4⟩, hn⟩ := hc
    refine ⟨4, _, by simp [encSeg]; rfl, ?_⟩
    simp only [encSeg, segLen, mainStep]
    rw [if_neg (by simp), if_pos trivial]
    simp only [List.append_assoc, List.cons_append]
    exact cmdPred_enc profile hb pos width order hi n stride
      (by rcases hw with (h | h) | h <;> simp [h]) ho hsw hs4 hn hl restC restD
  | xyz =>
    simp only [segCovers, Bool.and_eq_true, decide_eq_true_eq] at hc
    obtain ⟨hn, h8⟩ := hc
    have h8 := beq_list_true h8
    refine ⟨10, [], by simp [encSeg], ?_⟩
    have hs := length_slice profile (pos + 8) 12 (by omega)
    simp only [encSeg, segLen, mainStep]
    rw [if_neg (by simp), if_neg (by simp), if_pos trivial]
    simp only [List.length_append, hs]
    rw [if_neg (by omega), take_append_len _ _ _ hs, drop_append_len _ _ _ hs]
    have : profile.take (pos + 20) = profile.take pos ++ (slice profile pos 8 ++ slice profile (pos + 8) 12) := by
      rw [show pos + 20 = (pos + 8) + 12 by omega, take_add_slice, take_add_slice, List.append_assoc]
    rw [this, h8]
    simp
  | common k =>
    simp only [segCovers, Bool.and_eq_true, decide_eq_true_eq] at hc
    obtain ⟨⟨hk, hn⟩, h8⟩ := hc
    have h8 := beq_list_true h8
    refine ⟨16 + k, [], by simp [encSeg], ?_⟩
    simp only [encSeg, segLen, mainStep]
    rw [if_neg (by omega), if_neg (by omega), if_neg (by omega), if_pos (by omega)]
    rw [take_add_slice, h8]
    simp

theorem length_encSeg_pos (profile : List Nat) (pos : Nat) (seg : Seg) :
    0 < (encSeg profile pos seg).1.length := by
  cases seg <;> simp [encSeg]

/-- the main loop on the encoder's main section rebuilds the rest of the profile -/
theorem mainLoop_encMain (profile : List Nat) (hb : IsBytes profile) (hl : profile.length < 2 ^ 63) :
    ∀ (segs : List Seg) (pos fuel : Nat) (restD : List Nat),
      mainCovers profile segs pos = true →
      (encMain profile pos segs).1.length < fuel →
      mainLoop fuel (encMain profile pos segs).1 ((encMain profile pos segs).2 ++ restD)
        (profile.take pos).toArray = .ok profile.toArray := by
  intro segs
  induction segs with
  | nil =>
    intro pos fuel restD hc hf
    have hp : pos = profile.length := by simpa [mainCovers] using hc
    cases fuel with
    | zero => omega
    | succ f => simp [encMain, mainLoop, hp]
  | cons seg segs ih =>
    intro pos fuel restD hc hf
    simp only [mainCovers, Bool.and_eq_true] at hc
    obtain ⟨hseg, hrest⟩ := hc
    obtain ⟨cb, ct, hcs, hstep⟩ := mainStep_encSeg profile hb hl pos seg hseg
      (encMain profile (pos + segLen seg) segs).1 ((encMain profile (pos + segLen seg) segs).2 ++ restD)
    cases fuel with
    | zero => omega
    | succ f =>
      simp only [encMain] at hf ⊢
      rw [hcs] at hf ⊢
      simp only [List.cons_append, mainLoop, List.append_assoc]
      rw [hstep]
      simp only
      apply ih (pos + segLen seg) f restD hrest
      simp only [List.length_append, List.length_cons] at hf
      omega

end Jxl.Icc
