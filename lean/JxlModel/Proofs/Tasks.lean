import JxlModel.Model.Tasks
/-!
# Confluence of independent jobs: helper lemmas

Generic part: a left action `act : σ → α → σ` and a symmetric relation `R` on `α` such that
`R`-related elements commute. Then any two `R`-pairwise lists that are permutations of each other
fold to the same state (adjacent transpositions + induction over `List.Perm`), and so does every
order-preserving interleaving of lists whose elements are `R`-related across lists.
-/
namespace Jxl.Tasks

section generic
variable {σ α : Type} (act : σ → α → σ) (R : α → α → Prop)

theorem foldl_perm_of_comm
    (hsymm : ∀ a b, R a b → R b a)
    (hcomm : ∀ a b, R a b → ∀ s, act (act s a) b = act (act s b) a)
    {l₁ l₂ : List α} (hp : l₁.Perm l₂) (hpw : l₁.Pairwise R) (s : σ) :
    l₁.foldl act s = l₂.foldl act s := by
  induction hp generalizing s with
  | nil => rfl
  | cons a _ ih =>
    simp only [List.foldl_cons]
    exact ih (List.pairwise_cons.1 hpw).2 _
  | swap a b l =>
    simp only [List.foldl_cons]
    have hba : R b a := (List.pairwise_cons.1 hpw).1 a (by simp)
    rw [hcomm b a hba]
  | trans p₁ _ ih₁ ih₂ =>
    rw [ih₁ hpw, ih₂ ((p₁.pairwise_iff (fun h => hsymm _ _ h)).1 hpw)]

/-- an element that commutes with everything in `l` can be moved in front of `l` -/
theorem foldl_move_front
    (hcomm : ∀ a b, R a b → ∀ s, act (act s a) b = act (act s b) a)
    (a : α) (l m : List α) (h : ∀ b ∈ l, R b a) (s : σ) :
    (l ++ a :: m).foldl act s = (a :: l ++ m).foldl act s := by
  induction l generalizing s with
  | nil => rfl
  | cons b l ih =>
    simp only [List.cons_append, List.foldl_cons]
    rw [ih (fun c hc => h c (by simp [hc]))]
    simp only [List.cons_append, List.foldl_cons]
    rw [hcomm b a (h b (by simp))]

/-- elements of different lists are related -/
def Cross (ls : List (List α)) : Prop :=
  ls.Pairwise fun l m => ∀ a ∈ l, ∀ b ∈ m, R a b

theorem cross_shrink {pre post : List (List α)} {a : α} {rest : List α}
    (h : Cross R (pre ++ (a :: rest) :: post)) : Cross R (pre ++ rest :: post) := by
  unfold Cross at *
  rw [List.pairwise_append] at *
  obtain ⟨h1, h2, h3⟩ := h
  refine ⟨h1, ?_, ?_⟩
  · rw [List.pairwise_cons] at *
    exact ⟨fun m hm x hx y hy => h2.1 m hm x (by simp [hx]) y hy, h2.2⟩
  · intro l hl m hm
    rcases List.mem_cons.1 hm with rfl | hm
    · exact fun x hx y hy => h3 l hl (a :: m) List.mem_cons_self x hx y (List.mem_cons_of_mem _ hy)
    · exact h3 l hl m (List.mem_cons_of_mem _ hm)

theorem foldl_interleaving
    (hcomm : ∀ a b, R a b → ∀ s, act (act s a) b = act (act s b) a)
    {ls : List (List α)} {out : List α} (hi : Interleaving ls out) (hc : Cross R ls) (s : σ) :
    out.foldl act s = ls.flatten.foldl act s := by
  induction hi generalizing s with
  | done ls hall =>
    have : ls.flatten = [] := by
      rw [List.flatten_eq_nil_iff]; exact hall
    rw [this]
  | next pre post a rest out _ ih =>
    have hcr := cross_shrink R hc
    simp only [List.foldl_cons]
    rw [ih hcr]
    have hfront : ∀ b ∈ pre.flatten, R b a := by
      intro b hb
      obtain ⟨l, hl, hbl⟩ := List.mem_flatten.1 hb
      unfold Cross at hc
      rw [List.pairwise_append] at hc
      exact hc.2.2 l hl (a :: rest) List.mem_cons_self b hbl a List.mem_cons_self
    have := foldl_move_front act R hcomm a pre.flatten (rest ++ post.flatten) hfront s
    simp only [List.flatten_append, List.flatten_cons, List.cons_append,
      List.foldl_cons] at this ⊢
    rw [this]

/-- the in-place loop is one of the interleavings -/
theorem interleaving_nil_cons {ls : List (List α)} {out : List α} (h : Interleaving ls out) :
    Interleaving ([] :: ls) out := by
  induction h with
  | done ls hall => exact .done _ (by simpa using hall)
  | next pre post a rest out _ ih => exact .next ([] :: pre) post a rest out ih

theorem interleaving_flatten (ls : List (List α)) : Interleaving ls ls.flatten := by
  induction ls with
  | nil => exact .done _ (by simp)
  | cons l ls ih =>
    induction l with
    | nil => simpa using interleaving_nil_cons ih
    | cons a l ihl =>
      have := Interleaving.next [] ls a l (l ++ ls.flatten) (by simpa using ihl)
      simpa using this

end generic

/-! ## enumerators are sound -/

theorem insertEverywhere_perm {α : Type} (a : α) (l p : List α) (h : p ∈ insertEverywhere a l) :
    p.Perm (a :: l) := by
  induction l generalizing p with
  | nil => simp [insertEverywhere] at h; subst h; exact .refl _
  | cons b l ih =>
    simp only [insertEverywhere, List.mem_cons, List.mem_map] at h
    rcases h with rfl | ⟨q, hq, rfl⟩
    · exact .refl _
    · exact ((ih q hq).cons b).trans (.swap a b l)

theorem perms_perm {α : Type} (l p : List α) (h : p ∈ perms l) : p.Perm l := by
  induction l generalizing p with
  | nil => simp [perms] at h; subst h; exact .refl _
  | cons a l ih =>
    simp only [perms, List.mem_flatMap] at h
    obtain ⟨q, hq, hp⟩ := h
    exact (insertEverywhere_perm a q p hp).trans ((ih q hq).cons a)

theorem picks_spec {α : Type} (ls : List (List α)) :
    ∀ x ∈ picks ls, ls = x.1 ++ (x.2.1 :: x.2.2.1) :: x.2.2.2 := by
  induction ls with
  | nil => simp [picks]
  | cons l ls ih =>
    cases l with
    | nil =>
      intro x hx
      simp only [picks, List.mem_map] at hx
      obtain ⟨⟨pre, a, r, post⟩, hy, rfl⟩ := hx
      simp [ih _ hy]
    | cons a r =>
      intro x hx
      simp only [picks, List.mem_cons, List.mem_map] at hx
      rcases hx with rfl | ⟨⟨pre, b, r', post⟩, hy, rfl⟩
      · simp
      · have := ih _ hy
        simp at this
        simp [this]

theorem picks_nil {α : Type} (ls : List (List α)) (h : picks ls = []) : ∀ l ∈ ls, l = [] := by
  induction ls with
  | nil => simp
  | cons l ls ih =>
    cases l with
    | nil =>
      simp only [picks, List.map_eq_nil_iff] at h
      intro m hm
      rcases List.mem_cons.1 hm with rfl | hm
      · rfl
      · exact ih h m hm
    | cons a r => simp [picks] at h

theorem interleavings_sound {α : Type} (fuel : Nat) (ls : List (List α)) (out : List α)
    (hf : ls.flatten.length ≤ fuel) (h : out ∈ interleavings fuel ls) : Interleaving ls out := by
  induction fuel generalizing ls out with
  | zero =>
    simp [interleavings] at h
    subst h
    refine .done _ fun l hl => ?_
    have : ls.flatten = [] := List.eq_nil_of_length_eq_zero (by omega)
    exact (List.flatten_eq_nil_iff.1 this) l hl
  | succ fuel ih =>
    unfold interleavings at h
    split at h
    · rename_i hp
      simp at h; subst h
      exact .done _ (picks_nil ls hp)
    · rename_i hne
      simp only [List.mem_flatMap, List.mem_map] at h
      obtain ⟨⟨pre, a, r, post⟩, hx, q, hq, rfl⟩ := h
      have hls := picks_spec ls _ hx
      simp only at hls
      subst hls
      refine .next pre post a r q (ih _ _ ?_ hq)
      simp [List.flatten_append] at hf ⊢
      omega

/-! ## steps and tasks -/

section steps
variable {V : Type} [Inhabited V]

theorem restrict_congr {R : List Cell} {s s' : Store V} (h : ∀ c ∈ R, s c = s' c) :
    restrict R s = restrict R s' := by
  funext c
  unfold restrict
  split
  · exact h c ‹_›
  · rfl

theorem Step.run_frame (a : Step V) (s : Store V) {c : Cell} (h : c ∉ a.writes) :
    a.run s c = s c := by
  simp [Step.run, h]

omit [Inhabited V] in
theorem Step.Indep.symm {a b : Step V} (h : a.Indep b) : b.Indep a := ⟨h.2, h.1⟩

theorem Step.restrict_run_of_indep {a b : Step V} (h : a.Indep b) (s : Store V) :
    restrict b.reads (a.run s) = restrict b.reads s := by
  apply restrict_congr
  intro c hc
  apply Step.run_frame
  intro hw
  exact (h.1 c hw).1 hc

/-- two independent steps commute (adjacent transposition) -/
theorem Step.run_comm {a b : Step V} (h : a.Indep b) (s : Store V) :
    b.run (a.run s) = a.run (b.run s) := by
  funext c
  by_cases ha : c ∈ a.writes <;> by_cases hb : c ∈ b.writes
  · exact absurd hb (h.1 c ha).2
  · simp [Step.run, ha, hb, Step.restrict_run_of_indep h.symm]
  · simp [Step.run, ha, hb, Step.restrict_run_of_indep h]
  · simp [Step.run, ha, hb]

theorem Step.execB_comm {a b : Step V} (h : a.Indep b) (st : Store V × Bool) :
    b.execB (a.execB st) = a.execB (b.execB st) := by
  obtain ⟨s, f⟩ := st
  simp only [Step.execB, Step.run_comm h, Step.restrict_run_of_indep h,
    Step.restrict_run_of_indep h.symm, Prod.mk.injEq, true_and]
  cases f <;> cases (a.fail (restrict a.reads s)).isSome <;>
    cases (b.fail (restrict b.reads s)).isSome <;> rfl

theorem runSteps_append (l m : List (Step V)) (s : Store V) :
    runSteps (l ++ m) s = runSteps m (runSteps l s) := by
  simp [runSteps]

theorem runSteps_frame (l : List (Step V)) (s : Store V) {c : Cell}
    (h : c ∉ l.flatMap Step.writes) : runSteps l s c = s c := by
  induction l generalizing s with
  | nil => rfl
  | cons a l ih =>
    simp only [List.flatMap_cons, List.mem_append, not_or] at h
    show runSteps l (a.run s) c = s c
    rw [ih _ h.2, Step.run_frame a s h.1]

theorem runTasks_eq_noneOrder (ts : List (Task V)) (s : Store V) :
    runTasks ts s = runSteps (noneOrder ts) s := by
  induction ts generalizing s with
  | nil => rfl
  | cons t ts ih =>
    show runTasks ts (t.run s) = _
    rw [ih]
    simp [noneOrder, runSteps_append, Task.run]

omit [Inhabited V] in
theorem Task.Indep.symm {t u : Task V} (h : t.Indep u) : u.Indep t := ⟨h.2, h.1⟩

omit [Inhabited V] in
/-- independence of jobs gives independence of their steps -/
theorem Task.Indep.steps {t u : Task V} (h : t.Indep u) :
    ∀ a ∈ t.steps, ∀ b ∈ u.steps, a.Indep b := by
  intro a ha b hb
  have mw : ∀ {x : Task V} {y : Step V} {c : Cell}, y ∈ x.steps → c ∈ y.writes → c ∈ x.writes :=
    fun hy hc => List.mem_flatMap.2 ⟨_, hy, hc⟩
  have mr : ∀ {x : Task V} {y : Step V} {c : Cell}, y ∈ x.steps → c ∈ y.reads → c ∈ x.reads :=
    fun hy hc => List.mem_flatMap.2 ⟨_, hy, hc⟩
  refine ⟨fun c hc => ⟨fun hr => (h.1 c (mw ha hc)).1 (mr hb hr), fun hw => (h.1 c (mw ha hc)).2 (mw hb hw)⟩,
    fun c hc => ⟨fun hr => (h.2 c (mw hb hc)).1 (mr ha hr), fun hw => (h.2 c (mw hb hc)).2 (mw ha hw)⟩⟩

omit [Inhabited V] in
theorem cross_of_pairwise_indep {ts : List (Task V)} (h : ts.Pairwise Task.Indep) :
    Cross Step.Indep (ts.map Task.steps) := by
  unfold Cross
  rw [List.pairwise_map]
  exact h.imp fun hi => hi.steps

/-- step-granularity confluence for the sample store -/
theorem runSteps_interleaving {ts : List (Task V)} (hd : ts.Pairwise Task.Indep)
    {steps : List (Step V)} (hi : Interleaving (ts.map Task.steps) steps) (s : Store V) :
    runSteps steps s = runSteps (noneOrder ts) s :=
  foldl_interleaving (fun s a => Step.run a s) Step.Indep
    (fun _ _ h s => Step.run_comm h s) hi (cross_of_pairwise_indep hd) s

/-- a whole job commutes with a whole independent job -/
theorem Task.run_comm {t u : Task V} (h : t.Indep u) (s : Store V) :
    u.run (t.run s) = t.run (u.run s) := by
  have hp : [t, u].Pairwise Task.Indep := by simp [h]
  have h1 := runSteps_interleaving hp (steps := noneOrder [u, t]) (s := s) (by
    have := interleaving_flatten [u.steps, t.steps]
    -- [u.steps, t.steps] interleaves to u ++ t; as an interleaving of [t.steps, u.steps]:
    -- emit u's steps first (pre = [t.steps]), then t's
    clear this
    show Interleaving [t.steps, u.steps] (noneOrder [u, t])
    simp only [noneOrder, List.map_cons, List.map_nil, List.flatten_cons, List.flatten_nil,
      List.append_nil]
    generalize u.steps = us
    induction us with
    | nil => simpa using interleaving_flatten [t.steps, ([] : List (Step V))]
    | cons a us ih => exact .next [t.steps] [] a us _ ih)
  simp only [noneOrder, List.map_cons, List.map_nil, List.flatten_cons, List.flatten_nil,
    List.append_nil, runSteps_append] at h1
  show runSteps u.steps (runSteps t.steps s) = runSteps t.steps (runSteps u.steps s)
  exact h1.symm

/-- task-granularity confluence -/
theorem runTasks_perm {ts order : List (Task V)} (hd : ts.Pairwise Task.Indep)
    (hp : order.Perm ts) (s : Store V) : runTasks order s = runTasks ts s := by
  have hpo : order.Pairwise Task.Indep := (hp.pairwise_iff (fun h => Task.Indep.symm h)).2 hd
  exact foldl_perm_of_comm (fun s (t : Task V) => t.run s) Task.Indep
    (fun _ _ h => h.symm) (fun _ _ h s => Task.run_comm h s) hp hpo s

/-! ## error slot -/

theorem execSteps_store_flag (l : List (Step V)) (st : St V) :
    (execSteps l st).store = (execStepsB l (st.store, st.slot.isSome)).1 ∧
    (execSteps l st).slot.isSome = (execStepsB l (st.store, st.slot.isSome)).2 := by
  induction l generalizing st with
  | nil => exact ⟨rfl, rfl⟩
  | cons a l ih =>
    have := ih (a.exec st)
    simp only [execSteps, execStepsB, List.foldl_cons] at this ⊢
    have hflag : (a.exec st).slot.isSome = (a.execB (st.store, st.slot.isSome)).2 := by
      simp only [Step.exec, Step.execB]
      cases a.fail (restrict a.reads st.store) <;> simp
    have hstore : (a.exec st).store = (a.execB (st.store, st.slot.isSome)).1 := rfl
    rw [hflag, hstore] at this
    exact this

theorem execStepsB_fst (l : List (Step V)) (st : Store V × Bool) :
    (execStepsB l st).1 = runSteps l st.1 := by
  induction l generalizing st with
  | nil => rfl
  | cons a l ih => exact ih (a.execB st)

theorem execStepsB_append (l m : List (Step V)) (st : Store V × Bool) :
    execStepsB (l ++ m) st = execStepsB m (execStepsB l st) := by
  simp [execStepsB]

/-- the flag only goes up, and the part added by `l` does not depend on the incoming flag -/
theorem execStepsB_flag (l : List (Step V)) (s : Store V) (b : Bool) :
    (execStepsB l (s, b)).2 = (b || (execStepsB l (s, false)).2) := by
  induction l generalizing s b with
  | nil => simp [execStepsB]
  | cons a l ih =>
    show (execStepsB l (a.execB (s, b))).2 = (b || (execStepsB l (a.execB (s, false))).2)
    simp only [Step.execB]
    rw [ih, ih (b := false || _)]
    simp [Bool.or_assoc]

/-- a job's own failure flag depends only on the cells it reads -/
theorem execStepsB_flag_congr (l : List (Step V)) (s s' : Store V) (b : Bool)
    (h : ∀ c ∈ l.flatMap Step.reads, s c = s' c) :
    (execStepsB l (s, b)).2 = (execStepsB l (s', b)).2 := by
  induction l generalizing s s' b with
  | nil => rfl
  | cons a l ih =>
    have hr : restrict a.reads s = restrict a.reads s' :=
      restrict_congr fun c hc => h c (by simp [hc])
    show (execStepsB l (a.execB (s, b))).2 = (execStepsB l (a.execB (s', b))).2
    simp only [Step.execB, hr]
    apply ih
    intro c hc
    by_cases hw : c ∈ a.writes
    · simp [Step.run, hw, hr]
    · simp only [Step.run, hw, if_false]
      exact h c (by simp [hc])

theorem execStepsB_interleaving {ts : List (Task V)} (hd : ts.Pairwise Task.Indep)
    {steps : List (Step V)} (hi : Interleaving (ts.map Task.steps) steps) (st : Store V × Bool) :
    execStepsB steps st = execStepsB (noneOrder ts) st :=
  foldl_interleaving (fun st a => Step.execB a st) Step.Indep
    (fun _ _ h s => Step.execB_comm h s) hi (cross_of_pairwise_indep hd) st

omit [Inhabited V] in
theorem any_congr_mem {β : Type} {l : List β} {p q : β → Bool} (h : ∀ x ∈ l, p x = q x) :
    l.any p = l.any q := by
  induction l with
  | nil => rfl
  | cons a l ih =>
    simp only [List.any_cons]
    rw [h a (by simp), ih fun x hx => h x (by simp [hx])]

/-- in the sequential order the flag is the disjunction of the jobs' failures on the *initial*
store -/
theorem execStepsB_noneOrder_flag {ts : List (Task V)} (hd : ts.Pairwise Task.Indep)
    (s : Store V) (b : Bool) :
    (execStepsB (noneOrder ts) (s, b)).2 = (b || ts.any fun t => t.failsAlone s) := by
  induction ts generalizing s b with
  | nil => simp [noneOrder, execStepsB]
  | cons t ts ih =>
    obtain ⟨ht, hts⟩ := List.pairwise_cons.1 hd
    have hsplit : noneOrder (t :: ts) = t.steps ++ noneOrder ts := by simp [noneOrder]
    rw [hsplit, execStepsB_append]
    have h1 : execStepsB t.steps (s, b) = (t.run s, (execStepsB t.steps (s, b)).2) :=
      Prod.ext (execStepsB_fst _ _) rfl
    rw [h1, ih hts, execStepsB_flag t.steps s b]
    have hany : (ts.any fun u => u.failsAlone (t.run s)) = ts.any fun u => u.failsAlone s := by
      apply any_congr_mem
      intro u hu
      unfold Task.failsAlone
      apply execStepsB_flag_congr
      intro c hc
      apply runSteps_frame
      intro hw
      exact ((ht u hu).1 c hw).1 hc
    rw [hany]
    simp [Task.failsAlone, Bool.or_assoc]

end steps

end Jxl.Tasks
