import JxlModel.Model.Icc
/-!
Helper lemmas for C18 (ICC decompression): varint round trip, header prediction, shuffles,
the predicted-run loop, per-command decode/encode steps, the loops, size consistency.
Core tactics only.
-/
namespace Jxl.Icc

/-! ## varint -/


theorem readVarintAux_cons (it shift acc b : Nat) (rest : List Nat) :
    readVarintAux (it + 1) shift acc (b :: rest) =
      if b < 128 then .ok (acc + (b % 128) * 2 ^ shift, rest)
      else readVarintAux it (shift + 7) (acc + (b % 128) * 2 ^ shift) rest := rfl

theorem readVarintAux_enc (more : Nat) : ∀ (shift acc n : Nat) (rest : List Nat),
    n < 128 ^ (more + 1) →
    readVarintAux (more + 1) shift acc (encVarintAux more n ++ rest) = .ok (acc + n * 2 ^ shift, rest) := by
  induction more with
  | zero =>
    intro shift acc n rest h
    have h' : n < 128 := by simpa using h
    simp [encVarintAux, readVarintAux, Nat.mod_eq_of_lt h', h']
  | succ m ih =>
    intro shift acc n rest h
    by_cases hn : n < 128
    · simp [encVarintAux, readVarintAux, hn, Nat.mod_eq_of_lt hn]
    · have hlt : n / 128 < 128 ^ (m + 1) := by
        rw [Nat.div_lt_iff_lt_mul (by decide)]
        rw [Nat.pow_succ] at h; exact h
      have hb : ¬ (n % 128 + 128 < 128) := by omega
      have hm : (n % 128 + 128) % 128 = n % 128 := by omega
      simp only [encVarintAux, hn, if_false, List.cons_append]
      rw [readVarintAux_cons, if_neg hb, hm]
      rw [ih _ _ _ _ hlt]
      congr 2
      have := Nat.div_add_mod n 128
      rw [Nat.pow_add, Nat.add_assoc]
      congr 1
      calc n % 128 * 2 ^ shift + n / 128 * (2 ^ shift * 2 ^ 7)
          = (128 * (n / 128) + n % 128) * 2 ^ shift := by
            rw [Nat.add_mul, Nat.add_comm]; congr 1
            rw [Nat.mul_comm (2 ^ shift), ← Nat.mul_assoc, Nat.mul_comm (n / 128)]
        _ = n * 2 ^ shift := by rw [this]

theorem readVarint_encVarint (n : Nat) (rest : List Nat) (h : n < 2 ^ 63) :
    readVarint (encVarint n ++ rest) = .ok (n, rest) := by
  have := readVarintAux_enc 8 0 0 n rest (by simpa using h)
  simpa [readVarint, encVarint] using this




theorem readVarintAux_length (it : Nat) : ∀ (shift acc : Nat) (s : List Nat) (v : Nat) (r : List Nat),
    readVarintAux it shift acc s = .ok (v, r) → r.length ≤ s.length := by
  induction it with
  | zero => intro shift acc s v r h; simp [readVarintAux] at h; simp [h.2]
  | succ it ih =>
    intro shift acc s v r h
    cases s with
    | nil => simp [readVarintAux] at h
    | cons b rest =>
      rw [readVarintAux_cons] at h
      split at h
      · simp at h; simp [h.2]
      · have := ih _ _ _ _ _ h; simp; omega

theorem readVarint_length {s : List Nat} {v : Nat} {r : List Nat}
    (h : readVarint s = .ok (v, r)) : r.length ≤ s.length :=
  readVarintAux_length 9 0 0 s v r h

/-! header -/

theorem length_encodeHeader (p : List Nat) : (encodeHeader p).length = min p.length 128 := by
  simp [encodeHeader]

theorem getD_encodeHeader (p : List Nat) (i : Nat) (hi : i < min p.length 128) :
    (encodeHeader p).getD i 0 = (p.getD i 0 + 256 - predictHeader i p.length p) % 256 := by
  simp [encodeHeader, List.getD_eq_getElem?_getD, hi]

theorem getD_encodeHeader_ge (p : List Nat) (i : Nat) (hi : min p.length 128 ≤ i) :
    (encodeHeader p).getD i 0 = 0 := by
  simp [encodeHeader, List.getD_eq_getElem?_getD, hi]

def IsBytes (l : List Nat) : Prop := ∀ b ∈ l, b < 256

theorem IsBytes.getD_lt {l : List Nat} (h : IsBytes l) (i : Nat) : l.getD i 0 < 256 := by
  rw [List.getD_eq_getElem?_getD]
  cases hg : l[i]? with
  | none => simp
  | some b => simp; exact h b (List.mem_of_getElem? hg)

/-- header bytes whose prediction is 0 are stored verbatim -/
theorem getD_encodeHeader_of_pred_zero (p : List Nat) (hb : IsBytes p) (i : Nat) (hi : i < 128)
    (hz : predictHeader i p.length p = 0) : (encodeHeader p).getD i 0 = p.getD i 0 := by
  by_cases h : i < min p.length 128
  · rw [getD_encodeHeader p i h, hz]
    have := hb.getD_lt i
    omega
  · rw [getD_encodeHeader_ge p i (by omega)]
    have : p.length ≤ i := by omega
    simp [List.getD_eq_getElem?_getD, this]

theorem predictHeader_zero (idx size : Nat) (p : List Nat)
    (h : idx = 4 ∨ idx = 5 ∨ idx = 6 ∨ idx = 7 ∨ idx = 40) : predictHeader idx size p = 0 := by
  rcases h with h | h | h | h | h <;> subst h <;> simp [predictHeader, predictHeaderV]

theorem predictHeader_41 (size : Nat) (p : List Nat) (h : p.getD 40 0 = 83) :
    predictHeader 41 size p = 0 := by
  simp [predictHeader, predictHeaderV, -List.getD_eq_getElem?_getD, h]

theorem predictHeaderV_h41 (idx size a b b' c : Nat) (h : a ≠ 83) :
    predictHeaderV idx size a b c = predictHeaderV idx size a b' c := by
  simp [predictHeaderV, h]

theorem header_lookback (p : List Nat) (hb : IsBytes p) (idx size : Nat) :
    predictHeader idx size (encodeHeader p) = predictHeader idx size p := by
  have h40 : (encodeHeader p).getD 40 0 = p.getD 40 0 :=
    getD_encodeHeader_of_pred_zero p hb 40 (by decide) (predictHeader_zero _ _ _ (by simp))
  have h4 : (encodeHeader p).getD (4 + idx - 80) 0 = p.getD (4 + idx - 80) 0 ∨
      ¬ (80 ≤ idx ∧ idx ≤ 83) := by
    by_cases h : 80 ≤ idx ∧ idx ≤ 83
    · left
      have : 4 + idx - 80 = 4 ∨ 4 + idx - 80 = 5 ∨ 4 + idx - 80 = 6 ∨ 4 + idx - 80 = 7 := by omega
      rcases this with h | h | h | h <;> rw [h] <;>
        exact getD_encodeHeader_of_pred_zero p hb _ (by decide) (predictHeader_zero _ _ _ (by simp))
    · right; exact h
  have h4' : predictHeaderV idx size (p.getD 40 0) ((encodeHeader p).getD 41 0)
        ((encodeHeader p).getD (4 + idx - 80) 0) =
      predictHeaderV idx size (p.getD 40 0) ((encodeHeader p).getD 41 0) (p.getD (4 + idx - 80) 0) := by
    rcases h4 with h | h
    · rw [h]
    · simp [predictHeaderV, h]
  unfold predictHeader
  rw [h40, h4']
  by_cases hS : p.getD 40 0 = 83
  · rw [getD_encodeHeader_of_pred_zero p hb 41 (by decide) (predictHeader_41 _ _ hS)]
  · exact predictHeaderV_h41 _ _ _ _ _ _ hS



theorem isBytes_be32 (v : Nat) : IsBytes (be32 v) := by
  intro b hb
  simp [be32] at hb
  omega

theorem ite_lt (c : Prop) [Decidable c] (a b n : Nat) (ha : a < n) (hb : b < n) :
    (if c then a else b) < n := by split <;> assumption

theorem predictHeader_lt (idx size : Nat) (p : List Nat) (hb : IsBytes p) :
    predictHeader idx size p < 256 := by
  have h1 := (isBytes_be32 (size % 4294967296)).getD_lt idx
  have h2 : IsBytes mntrRgbXyz := by intro b hb; simp [mntrRgbXyz] at hb; omega
  have h3 : IsBytes acsp := by intro b hb; simp [acsp] at hb; omega
  have h2 := h2.getD_lt (idx - 12)
  have h3 := h3.getD_lt (idx - 36)
  have h4 := hb.getD_lt (4 + idx - 80)
  unfold predictHeader predictHeaderV
  repeat' apply ite_lt
  all_goals omega

theorem getD_toArray' (l : List Nat) (i : Nat) : l.toArray.getD i 0 = l.getD i 0 := by simp

/-! shuffle -/
theorem length_shuffleW (w : Nat) (b : List Nat) : (shuffleW w b).length = b.length := by
  simp [shuffleW]

theorem length_unshuffleRow (w r : Nat) (x : List Nat) :
    (unshuffleRow w r x).length = (x.length + w - 1 - r) / w := by
  simp [unshuffleRow]

theorem getD_unshuffleRow (w r : Nat) (x : List Nat) (c : Nat)
    (hc : c < (x.length + w - 1 - r) / w) :
    (unshuffleRow w r x).getD c 0 = x.getD (c * w + r) 0 := by
  simp [unshuffleRow, List.getD_eq_getElem?_getD, hc]

theorem length_unshuffle2 (x : List Nat) : (unshuffle2 x).length = x.length := by
  simp [unshuffle2, length_unshuffleRow]; omega

theorem length_unshuffle4 (x : List Nat) : (unshuffle4 x).length = x.length := by
  simp [unshuffle4, length_unshuffleRow]; omega

theorem getD_append_left' (a b : List Nat) (i : Nat) (h : i < a.length) :
    (a ++ b).getD i 0 = a.getD i 0 := by
  simp [List.getD_eq_getElem?_getD, List.getElem?_append_left h]

theorem getD_append_right' (a b : List Nat) (i : Nat) (h : a.length ≤ i) :
    (a ++ b).getD i 0 = b.getD (i - a.length) 0 := by
  simp [List.getD_eq_getElem?_getD, List.getElem?_append_right h]

theorem shuffle2_unshuffle2 (x : List Nat) : shuffle2 (unshuffle2 x) = x := by
  apply List.ext_getElem
  · simp [shuffle2, length_shuffleW, length_unshuffle2]
  · intro k h1 h2
    simp only [shuffle2, shuffleW, List.getElem_map, List.getElem_range, length_unshuffle2,
      getD_toArray', List.size_toArray]
    have hk : k < x.length := h2
    have hx : x[k] = x.getD k 0 := by simp [List.getD_eq_getElem?_getD, hk]
    rw [hx]
    have hl0 := length_unshuffleRow 2 0 x
    have hl1 := length_unshuffleRow 2 1 x
    rcases Nat.mod_two_eq_zero_or_one k with hr | hr
    · rw [hr]
      simp only [unshuffle2, Nat.zero_mul, Nat.add_zero, Nat.zero_min]
      rw [getD_append_left' _ _ _ (by omega), getD_unshuffleRow _ _ _ _ (by omega)]
      congr 1; omega
    · rw [hr]
      simp only [unshuffle2]
      rw [getD_append_right' _ _ _ (by omega), getD_unshuffleRow _ _ _ _ (by omega)]
      congr 1; omega

theorem idx4_0 (len k : Nat) (hk : k < len) (hr : k % 4 = 0) :
    k / 4 < (len + 4 - 1 - 0) / 4 ∧ k / 4 * 4 + 0 = k := by omega

theorem idx4_1 (len k : Nat) (hk : k < len) (hr : k % 4 = 1) :
    (len + 4 - 1 - 0) / 4 ≤ k / 4 + 1 * (len / 4) + min 1 (len % 4) ∧
    k / 4 + 1 * (len / 4) + min 1 (len % 4) - (len + 4 - 1 - 0) / 4 < (len + 4 - 1 - 1) / 4 ∧
    (k / 4 + 1 * (len / 4) + min 1 (len % 4) - (len + 4 - 1 - 0) / 4) * 4 + 1 = k := by
  have : len % 4 = 0 ∨ len % 4 = 1 ∨ len % 4 = 2 ∨ len % 4 = 3 := by omega
  rcases this with h | h | h | h <;> omega

theorem idx4_2 (len k : Nat) (hk : k < len) (hr : k % 4 = 2) :
    (len + 4 - 1 - 0) / 4 ≤ k / 4 + 2 * (len / 4) + min 2 (len % 4) ∧
    (len + 4 - 1 - 1) / 4 ≤ k / 4 + 2 * (len / 4) + min 2 (len % 4) - (len + 4 - 1 - 0) / 4 ∧
    k / 4 + 2 * (len / 4) + min 2 (len % 4) - (len + 4 - 1 - 0) / 4 - (len + 4 - 1 - 1) / 4
      < (len + 4 - 1 - 2) / 4 ∧
    (k / 4 + 2 * (len / 4) + min 2 (len % 4) - (len + 4 - 1 - 0) / 4 - (len + 4 - 1 - 1) / 4) * 4 + 2 = k := by
  have : len % 4 = 0 ∨ len % 4 = 1 ∨ len % 4 = 2 ∨ len % 4 = 3 := by omega
  rcases this with h | h | h | h <;> omega

theorem idx4_3 (len k : Nat) (hk : k < len) (hr : k % 4 = 3) :
    (len + 4 - 1 - 0) / 4 ≤ k / 4 + 3 * (len / 4) + min 3 (len % 4) ∧
    (len + 4 - 1 - 1) / 4 ≤ k / 4 + 3 * (len / 4) + min 3 (len % 4) - (len + 4 - 1 - 0) / 4 ∧
    (len + 4 - 1 - 2) / 4 ≤ k / 4 + 3 * (len / 4) + min 3 (len % 4) - (len + 4 - 1 - 0) / 4 - (len + 4 - 1 - 1) / 4 ∧
    k / 4 + 3 * (len / 4) + min 3 (len % 4) - (len + 4 - 1 - 0) / 4 - (len + 4 - 1 - 1) / 4 - (len + 4 - 1 - 2) / 4
      < (len + 4 - 1 - 3) / 4 ∧
    (k / 4 + 3 * (len / 4) + min 3 (len % 4) - (len + 4 - 1 - 0) / 4 - (len + 4 - 1 - 1) / 4 - (len + 4 - 1 - 2) / 4) * 4 + 3 = k := by
  have : len % 4 = 0 ∨ len % 4 = 1 ∨ len % 4 = 2 ∨ len % 4 = 3 := by omega
  rcases this with h | h | h | h <;> omega

theorem getD_append_left'' (a b : List Nat) (i n : Nat) (hn : a.length = n) (h : i < n) :
    (a ++ b).getD i 0 = a.getD i 0 := getD_append_left' a b i (by omega)

theorem getD_append_right'' (a b : List Nat) (i n : Nat) (hn : a.length = n) (h : n ≤ i) :
    (a ++ b).getD i 0 = b.getD (i - n) 0 := by
  subst hn; exact getD_append_right' a b i h

theorem shuffle4_unshuffle4 (x : List Nat) : shuffle4 (unshuffle4 x) = x := by
  apply List.ext_getElem
  · simp [shuffle4, length_shuffleW, length_unshuffle4]
  · intro k h1 h2
    simp only [shuffle4, shuffleW, List.getElem_map, List.getElem_range, length_unshuffle4,
      getD_toArray', List.size_toArray]
    have hk : k < x.length := h2
    have hx : x[k] = x.getD k 0 := by simp [List.getD_eq_getElem?_getD, hk]
    rw [hx]
    clear hx h1 h2
    have hl0 := length_unshuffleRow 4 0 x
    have hl1 := length_unshuffleRow 4 1 x
    have hl2 := length_unshuffleRow 4 2 x
    have hl3 := length_unshuffleRow 4 3 x
    have hr : k % 4 = 0 ∨ k % 4 = 1 ∨ k % 4 = 2 ∨ k % 4 = 3 := by omega
    simp only [unshuffle4, List.append_assoc]
    rcases hr with hr | hr | hr | hr <;> rw [hr]
    · have h := idx4_0 x.length k hk hr
      simp only [Nat.zero_mul, Nat.add_zero, Nat.zero_min]
      rw [getD_append_left'' _ _ _ _ hl0 h.1, getD_unshuffleRow _ _ _ _ h.1, h.2]
    · have h := idx4_1 x.length k hk hr
      rw [getD_append_right'' _ _ _ _ hl0 h.1, getD_append_left'' _ _ _ _ hl1 h.2.1,
        getD_unshuffleRow _ _ _ _ h.2.1, h.2.2]
    · have h := idx4_2 x.length k hk hr
      rw [getD_append_right'' _ _ _ _ hl0 h.1, getD_append_right'' _ _ _ _ hl1 h.2.1,
        getD_append_left'' _ _ _ _ hl2 h.2.2.1, getD_unshuffleRow _ _ _ _ h.2.2.1, h.2.2.2]
    · have h := idx4_3 x.length k hk hr
      rw [getD_append_right'' _ _ _ _ hl0 h.1, getD_append_right'' _ _ _ _ hl1 h.2.1,
        getD_append_right'' _ _ _ _ hl2 h.2.2.1, getD_unshuffleRow _ _ _ _ h.2.2.2.1, h.2.2.2.2]




theorem decodeHeader_encodeHeader (p : List Nat) (hb : IsBytes p) :
    decodeHeader p.length (encodeHeader p) = p.take 128 := by
  apply List.ext_getElem
  · simp [decodeHeader, length_encodeHeader, Nat.min_comm]
  · intro i h1 h2
    have hi : i < min p.length 128 := by simpa [decodeHeader, length_encodeHeader] using h1
    simp only [decodeHeader, List.getElem_map, List.getElem_range]
    rw [header_lookback p hb, getD_encodeHeader p i hi]
    have hq := predictHeader_lt i p.length p hb
    have hx := hb.getD_lt i
    have : (p.take 128)[i] = p.getD i 0 := by
      simp [List.getD_eq_getElem?_getD]
      have : i < p.length := by omega
      simp [this]
    rw [this]
    omega

/-! ## predicted runs -/

theorem beRead_congr (g g' : Nat → Nat) (w : Nat) : ∀ (off : Nat),
    (∀ i, off ≤ i → i < off + w → g i = g' i) → beRead g off w = beRead g' off w := by
  induction w with
  | zero => intro off _; rfl
  | succ w ih =>
    intro off h
    simp only [beRead]
    rw [h off (by omega) (by omega), ih (off + 1) (fun i h1 h2 => h i (by omega) (by omega))]

theorem predictVal_congr (g g' : Nat → Nat) (len stride width order : Nat)
    (h : ∀ i, i < len → g i = g' i) (hw : width ≤ stride) (hs : stride * 3 ≤ len) :
    predictVal g len stride width order = predictVal g' len stride width order := by
  have e0 : beRead g (len - stride * (0 + 1)) width = beRead g' (len - stride * (0 + 1)) width :=
    beRead_congr g g' width _ (fun i h1 h2 => h i (by omega))
  have e1 : beRead g (len - stride * (1 + 1)) width = beRead g' (len - stride * (1 + 1)) width :=
    beRead_congr g g' width _ (fun i h1 h2 => h i (by omega))
  have e2 : beRead g (len - stride * (2 + 1)) width = beRead g' (len - stride * (2 + 1)) width :=
    beRead_congr g g' width _ (fun i h1 h2 => h i (by omega))
  simp only [predictVal, e0, e1, e2]

/-- list form of `pushChunk` -/
def chunkList (p width : Nat) : Nat → List Nat → List Nat
  | _, [] => []
  | j, b :: bs => ((b + p / 2 ^ (8 * (width - 1 - j))) % 256) :: chunkList p width (j + 1) bs

theorem pushChunk_eq (p width : Nat) (bs : List Nat) : ∀ (j : Nat) (l : List Nat),
    pushChunk p width j bs l.toArray = (l ++ chunkList p width j bs).toArray := by
  induction bs with
  | nil => intro j l; simp [pushChunk, chunkList]
  | cons b bs ih =>
    intro j l
    simp only [pushChunk, chunkList, List.push_toArray]
    rw [ih]
    simp

theorem chunkList_residChunk (p width : Nat) (xs : List Nat) (hb : IsBytes xs) : ∀ (j : Nat),
    chunkList p width j (residChunk p width j xs) = xs := by
  induction xs with
  | nil => intro j; rfl
  | cons x xs ih =>
    intro j
    have hx : x < 256 := hb x (by simp)
    simp only [residChunk, chunkList]
    rw [ih (fun b h => hb b (by simp [h]))]
    congr 1
    omega

theorem length_residChunk (p width : Nat) (xs : List Nat) : ∀ (j : Nat),
    (residChunk p width j xs).length = xs.length := by
  induction xs with
  | nil => intro j; rfl
  | cons x xs ih => intro j; simp [residChunk, ih]

theorem length_slice (l : List Nat) (off n : Nat) (h : off + n ≤ l.length) :
    (slice l off n).length = n := by
  simp [slice]; omega

theorem IsBytes.slice {l : List Nat} (h : IsBytes l) (off n : Nat) : IsBytes (slice l off n) := by
  intro b hb
  exact h b (List.mem_of_mem_drop (List.mem_of_mem_take hb))

theorem take_add_slice (l : List Nat) (pos k : Nat) : l.take (pos + k) = l.take pos ++ slice l pos k := by
  simp [slice, List.take_add]

/-- list-level reading of `residLoop` (which walks an `Array` for speed) -/
def residLoopL (profile : List Nat) (width order stride : Nat) : Nat → Nat → Nat → List Nat
  | 0, _, _ => []
  | fuel + 1, pos, n =>
    if n = 0 then []
    else
      let p := predictVal (fun i => profile.getD i 0) pos stride width order
      let k := min width n
      residChunk p width 0 (slice profile pos k)
        ++ residLoopL profile width order stride fuel (pos + k) (n - k)

theorem residLoop_toArray (profile : List Nat) (width order stride : Nat) : ∀ (fuel pos n : Nat),
    residLoop profile.toArray width order stride fuel pos n
      = residLoopL profile width order stride fuel pos n := by
  intro fuel
  induction fuel with
  | zero => intro pos n; rfl
  | succ fuel ih =>
    intro pos n
    simp only [residLoop, residLoopL, ih, slice, getD_toArray']
    split
    · rfl
    · congr 2
      simp

theorem predLoop_residLoopL (profile : List Nat) (hb : IsBytes profile) (width order stride : Nat)
    (h0 : 0 < width) (hw : width ≤ stride) : ∀ (fuel pos n : Nat),
    n ≤ fuel → pos + n ≤ profile.length → stride * 3 ≤ pos →
    predLoop width order stride fuel (residLoopL profile width order stride fuel pos n)
      (profile.take pos).toArray = (profile.take (pos + n)).toArray := by
  intro fuel
  induction fuel with
  | zero => intro pos n hn _ _; have : n = 0 := by omega
            subst this; simp [predLoop]
  | succ fuel ih =>
    intro pos n hn hlen hs
    by_cases hz : n = 0
    · subst hz; simp [predLoop, residLoopL]
    · have hk1 : 0 < min width n := by omega
      have hsl : (slice profile pos (min width n)).length = min width n :=
        length_slice _ _ _ (by omega)
      simp only [residLoopL, hz, if_false, predLoop]
      generalize hp : predictVal (fun i => profile.getD i 0) pos stride width order = p
      have hne : (residChunk p width 0 (slice profile pos (min width n)) ++
          residLoopL profile width order stride fuel (pos + min width n) (n - min width n)).isEmpty = false := by
        cases hc : residChunk p width 0 (slice profile pos (min width n)) with
        | nil =>
          have := length_residChunk p width (slice profile pos (min width n)) 0
          rw [hc, hsl] at this; simp at this; omega
        | cons a as => simp
      rw [hne]
      simp only [Bool.false_eq_true, if_false]
      have hp' : predictVal (fun i => (profile.take pos).toArray.getD i 0) (profile.take pos).toArray.size
          stride width order = p := by
        rw [← hp]
        have hsz : (profile.take pos).toArray.size = pos := by simp; omega
        rw [hsz]
        apply predictVal_congr _ _ _ _ _ _ _ hw hs
        intro i hi
        simp [List.getD_eq_getElem?_getD, hi]
      rw [hp']
      have hA : (residChunk p width 0 (slice profile pos (min width n))).length = min width n := by
        rw [length_residChunk, hsl]
      have htake : (residChunk p width 0 (slice profile pos (min width n)) ++
          residLoopL profile width order stride fuel (pos + min width n) (n - min width n)).take width
          = residChunk p width 0 (slice profile pos (min width n)) := by
        by_cases hc : width ≤ n
        · have : min width n = width := by omega
          rw [List.take_append_of_le_length (by omega)]
          exact List.take_of_length_le (by omega)
        · have : n - min width n = 0 := by omega
          rw [this]
          have : residLoopL profile width order stride fuel (pos + min width n) 0 = [] := by
            cases fuel <;> simp [residLoopL]
          rw [this, List.append_nil]
          exact List.take_of_length_le (by omega)
      have hdrop : (residChunk p width 0 (slice profile pos (min width n)) ++
          residLoopL profile width order stride fuel (pos + min width n) (n - min width n)).drop width
          = residLoopL profile width order stride fuel (pos + min width n) (n - min width n) := by
        by_cases hc : width ≤ n
        · have : min width n = width := by omega
          rw [List.drop_append_of_le_length (by omega), List.drop_of_length_le (by omega)]
          simp
        · have : n - min width n = 0 := by omega
          rw [this]
          have : residLoopL profile width order stride fuel (pos + min width n) 0 = [] := by
            cases fuel <;> simp [residLoopL]
          rw [this, List.append_nil]
          exact List.drop_of_length_le (by omega)
      rw [htake, hdrop, pushChunk_eq, chunkList_residChunk _ _ _ (hb.slice _ _), ← take_add_slice]
      rw [ih (pos + min width n) (n - min width n) (by omega) (by omega) (by omega)]
      congr 2
      omega



theorem predLoop_residLoop (profile : List Nat) (hb : IsBytes profile) (width order stride : Nat)
    (h0 : 0 < width) (hw : width ≤ stride) (fuel pos n : Nat)
    (hn : n ≤ fuel) (hl : pos + n ≤ profile.length) (hs : stride * 3 ≤ pos) :
    predLoop width order stride fuel (residLoop profile.toArray width order stride fuel pos n)
      (profile.take pos).toArray = (profile.take (pos + n)).toArray := by
  rw [residLoop_toArray]
  exact predLoop_residLoopL profile hb width order stride h0 hw fuel pos n hn hl hs

end Jxl.Icc
