import JxlModel.Model.Modular.Narrow
namespace Jxl.Modular

theorem two_pow_pos (n : Nat) : (0 : Int) < (2 : Int) ^ n := Int.pow_pos (by omega)

/-- `wrap n v` is congruent to `v` modulo `2^n` -/
theorem wrap_emod (n : Nat) (v : Int) : wrap n v % (2 : Int) ^ n = v % (2 : Int) ^ n := by
  have hp := two_pow_pos n
  unfold wrap
  simp only []
  split
  · rw [Int.sub_emod, Int.emod_self, Int.sub_zero, Int.emod_emod, Int.emod_emod]
  · rw [Int.emod_emod]

/-- `wrap n` depends only on the residue modulo `2^n` -/
theorem wrap_congr (n : Nat) (a b : Int) (h : a % (2 : Int) ^ n = b % (2 : Int) ^ n) :
    wrap n a = wrap n b := by
  unfold wrap
  simp only [h]

theorem wrap_idem (n : Nat) (v : Int) : wrap n (wrap n v) = wrap n v :=
  wrap_congr n _ _ (wrap_emod n v)

theorem wrap_add_left (n : Nat) (a b : Int) : wrap n (wrap n a + b) = wrap n (a + b) := by
  apply wrap_congr
  rw [Int.add_emod, wrap_emod, ← Int.add_emod]

theorem wrap_add_right (n : Nat) (a b : Int) : wrap n (a + wrap n b) = wrap n (a + b) := by
  apply wrap_congr
  rw [Int.add_emod, wrap_emod, ← Int.add_emod]

theorem wrap_sub_left (n : Nat) (a b : Int) : wrap n (wrap n a - b) = wrap n (a - b) := by
  apply wrap_congr
  rw [Int.sub_emod, wrap_emod, ← Int.sub_emod]

theorem wrap_sub_right (n : Nat) (a b : Int) : wrap n (a - wrap n b) = wrap n (a - b) := by
  apply wrap_congr
  rw [Int.sub_emod, wrap_emod, ← Int.sub_emod]

theorem wrap_mul_left (n : Nat) (a b : Int) : wrap n (wrap n a * b) = wrap n (a * b) := by
  apply wrap_congr
  rw [Int.mul_emod, wrap_emod, ← Int.mul_emod]

theorem wrap_mul_right (n : Nat) (a b : Int) : wrap n (a * wrap n b) = wrap n (a * b) := by
  apply wrap_congr
  rw [Int.mul_emod, wrap_emod, ← Int.mul_emod]

/-- ring homomorphism: addition -/
theorem wrap_add (n : Nat) (a b : Int) : wrap n (a + b) = wrap n (wrap n a + wrap n b) := by
  rw [wrap_add_left, wrap_add_right]

theorem wrap_sub (n : Nat) (a b : Int) : wrap n (a - b) = wrap n (wrap n a - wrap n b) := by
  rw [wrap_sub_left, wrap_sub_right]

theorem wrap_mul (n : Nat) (a b : Int) : wrap n (a * b) = wrap n (wrap n a * wrap n b) := by
  rw [wrap_mul_left, wrap_mul_right]

/-- truncating twice = truncating once to the narrower width -/
theorem wrap_wrap_of_le (m n : Nat) (h : m ≤ n) (v : Int) : wrap m (wrap n v) = wrap m v := by
  apply wrap_congr
  have hd : (2 : Int) ^ m ∣ (2 : Int) ^ n := by
    obtain ⟨k, rfl⟩ := Nat.exists_eq_add_of_le h
    exact ⟨(2 : Int) ^ k, by rw [Int.pow_add]⟩
  rw [← Int.emod_emod_of_dvd (wrap n v) hd, wrap_emod, Int.emod_emod_of_dvd v hd]

theorem wrap16_of_I16 (v : Int) (h : I16 v) : wrap 16 v = v := by
  unfold I16 at h
  unfold wrap
  simp only []
  split <;> omega

theorem wrap32_of_I32 (v : Int) (h : I32 v) : wrap 32 v = v := by
  unfold I32 at h
  unfold wrap
  simp only []
  split <;> omega

theorem I16_wrap16 (v : Int) : I16 (wrap 16 v) := by
  unfold I16 wrap
  simp only []
  split <;> omega

theorem I32_wrap32 (v : Int) : I32 (wrap 32 v) := by
  unfold I32 wrap
  simp only []
  split <;> omega

theorem I32_of_I16 {v : Int} (h : I16 v) : I32 v := by
  unfold I16 at h; unfold I32; omega

/-- the narrow value is the truncation of the wide value; equal when the wide value fits -/
theorem narrow_of_wide_fits (x : Int) (h : I16 (wrap 32 x)) : wrap 16 x = wrap 32 x := by
  rw [← wrap_wrap_of_le 16 32 (by omega) x]
  exact wrap16_of_I16 _ h

/-! ## tendency -/

theorem tdiv_bounds_nonneg (N k : Int) (hk : 0 < k) (h : 0 ≤ N) :
    0 ≤ Int.tdiv N k ∧ k * Int.tdiv N k ≤ N ∧ N < k * Int.tdiv N k + k := by
  have h1 := Int.tdiv_nonneg h (Int.le_of_lt hk)
  have h2 := Int.mul_tdiv_add_tmod N k
  have h3 := Int.tmod_nonneg k h
  have h4 := Int.tmod_lt_of_pos N hk
  omega

theorem tdiv_bounds_nonpos (N k : Int) (hk : 0 < k) (h : N ≤ 0) :
    Int.tdiv N k ≤ 0 ∧ N ≤ k * Int.tdiv N k ∧ k * Int.tdiv N k - k < N := by
  have := tdiv_bounds_nonneg (-N) k hk (by omega)
  rw [Int.neg_tdiv] at this
  have e : k * -N.tdiv k = -(k * N.tdiv k) := by rw [Int.mul_neg]
  rw [e] at this
  omega

theorem tendency_eq_G (sb : SBits) (a b c : Int) : tendency sb a b c = tendencyG (wrap sb) a b c := rfl

/-- exact-integer tendency -/
theorem tendencyG_exact (wr : Int → Int) (a b c : Int)
    (hring : ∀ x y, wr (wr x - y) = wr (x - y))
    (hring2 : ∀ x y, wr (x - wr y) = wr (x - y))
    (hadd : ∀ x y, wr (wr x + y) = wr (x + y))
    (hmul : ∀ x y, wr (x * wr y) = wr (x * y))
    (hfit : ∀ x, I16 x → wr x = x)
    (h : I16 (tendencyNum a b c)) : tendencyG wr a b c = tendencyG id a b c := by
  unfold tendencyG
  unfold tendencyNum at h
  by_cases h1 : a ≥ b ∧ b ≥ c
  · simp only [h1, and_self, if_true] at h ⊢
    simp only [hring, hring2, hadd, hmul, id]
    have hN : wr (4 * a - 3 * c - b + 6) = 4 * a - 3 * c - b + 6 := hfit _ h
    rw [hN]
    unfold I16 at h
    unfold tdiv
    generalize hx : Int.tdiv (4 * a - 3 * c - b + 6) 12 = x
    have hx1 : 0 ≤ x ∧ 12 * x ≤ 4 * a - 3 * c - b + 6 := by
      subst hx
      have := Int.tdiv_nonneg (a := 4 * a - 3 * c - b + 6) (b := 12) (by omega) (by omega)
      have h2 := Int.mul_tdiv_add_tmod (4 * a - 3 * c - b + 6) 12
      have h3 := Int.tmod_nonneg (12 : Int) (a := 4 * a - 3 * c - b + 6) (by omega)
      omega
    have e1 : wr (x - x % 2) = x - x % 2 := hfit _ (by unfold I16; omega)
    have e2 : wr (x + x % 2) = x + x % 2 := hfit _ (by unfold I16; omega)
    have e3 : wr (2 * (a - b)) = 2 * (a - b) := hfit _ (by unfold I16; omega)
    have e4 : wr (2 * (b - c)) = 2 * (b - c) := hfit _ (by unfold I16; omega)
    have e5 : wr (2 * (a - b) + 1) = 2 * (a - b) + 1 := hfit _ (by unfold I16; omega)
    rw [e1, e3, e5]
    split
    · rw [e4]
      have e6 : wr (2 * (a - b) + 1 + (2 * (a - b) + 1) % 2) = 2 * (a - b) + 1 + (2 * (a - b) + 1) % 2 :=
        hfit _ (by unfold I16; omega)
      rw [e6]
    · rw [e2, e4]
  · by_cases h2 : a ≤ b ∧ b ≤ c
    · simp only [h1, h2, and_self, if_true, if_false] at h ⊢
      simp only [hring, hring2, hmul, id]
      have hN : wr (4 * a - 3 * c - b - 6) = 4 * a - 3 * c - b - 6 := hfit _ h
      rw [hN]
      unfold I16 at h
      unfold tdiv
      generalize hx : Int.tdiv (4 * a - 3 * c - b - 6) 12 = x
      have hx1 : x ≤ 0 ∧ 4 * a - 3 * c - b - 6 ≤ 12 * x := by
        subst hx
        have := tdiv_bounds_nonpos (4 * a - 3 * c - b - 6) 12 (by omega) (by omega)
        omega
      have e1 : wr (x - x % 2) = x - x % 2 := hfit _ (by unfold I16; omega)
      have e2 : wr (x + x % 2) = x + x % 2 := hfit _ (by unfold I16; omega)
      have e3 : wr (2 * (a - b)) = 2 * (a - b) := hfit _ (by unfold I16; omega)
      have e4 : wr (2 * (b - c)) = 2 * (b - c) := hfit _ (by unfold I16; omega)
      have e5 : wr (2 * (a - b) - 1) = 2 * (a - b) - 1 := hfit _ (by unfold I16; omega)
      rw [e2, e3, e5]
      split
      · rw [e4]
        have e6 : wr (2 * (a - b) - 1 - (2 * (a - b) - 1) % 2) = 2 * (a - b) - 1 - (2 * (a - b) - 1) % 2 :=
          hfit _ (by unfold I16; omega)
        rw [e6]
      · rw [e1, e4]
    · simp only [h1, h2, if_false]

theorem tendency_narrow_eq_wide (a b c : Int) (h : I16 (tendencyNum a b c)) :
    tendency 16 a b c = tendency 32 a b c := by
  rw [tendency_eq_G, tendency_eq_G]
  rw [tendencyG_exact (wrap 16) a b c (wrap_sub_left 16) (wrap_sub_right 16) (wrap_add_left 16)
        (wrap_mul_right 16) wrap16_of_I16 h,
      tendencyG_exact (wrap 32) a b c (wrap_sub_left 32) (wrap_sub_right 32) (wrap_add_left 32)
        (wrap_mul_right 32) (fun x hx => wrap32_of_I32 x (I32_of_I16 hx)) h]

theorem unsqueezeGo_narrow_eq_wide (avg res : List Int) (left : Int)
    (h : ∀ v ∈ unsqueezeTrace avg res left, I16 v) :
    unsqueezeGo (wrap 16) (tendency 16) avg res left = unsqueezeGo (wrap 32) (tendency 32) avg res left := by
  induction avg generalizing res left with
  | nil => simp [unsqueezeGo]
  | cons a as ih =>
    cases res with
    | nil => simp [unsqueezeGo]
    | cons r rs =>
      simp only [unsqueezeTrace, unsqueezeStepTrace, List.mem_append, List.mem_cons, List.not_mem_nil, or_false] at h
      have hN := h (tendencyNum left a (as.headD a)) (Or.inl (Or.inl rfl))
      have hT := tendency_narrow_eq_wide left a (as.headD a) hN
      have hd := h _ (Or.inl (Or.inr (Or.inl rfl)))
      have hf := h _ (Or.inl (Or.inr (Or.inr (Or.inl rfl))))
      have hs := h _ (Or.inl (Or.inr (Or.inr (Or.inr (Or.inl rfl)))))
      have ed := narrow_of_wide_fits _ hd
      have ef := narrow_of_wide_fits _ hf
      have es := narrow_of_wide_fits _ hs
      simp only [unsqueezeGo]
      rw [hT, ed, ef, es]
      rw [ih rs _ (fun v hv => h v (Or.inr hv))]

/-! ## RCT -/

theorem rct_narrow_eq_wide (ty : Nat) (a b c : Int) (h : ∀ v ∈ rctTrace ty a b c, I16 v) :
    rctInvSample 16 ty a b c = rctInvSample 32 ty a b c := by
  unfold rctTrace rctInvSample rctInvSampleG at h
  unfold rctInvSample rctInvSampleG
  by_cases h6 : ty = 6
  · subst h6
    simp only [beq_self_eq_true, if_true, bne_self_eq_false, Bool.false_eq_true, false_and, if_false,
      List.nil_append, List.mem_cons, List.not_mem_nil, or_false, forall_eq_or_imp, forall_eq,
      wrap_add_left, wrap_add_right, wrap_sub_left] at h ⊢
    obtain ⟨hd, he, hf⟩ := h
    rw [narrow_of_wide_fits _ hd, narrow_of_wide_fits _ he, narrow_of_wide_fits _ hf]
  · have h6' : (ty == 6) = false := by simp [h6]
    have h6'' : (ty != 6) = true := by simp [h6]
    simp only [h6', h6'', Bool.false_eq_true, if_false, true_and] at h ⊢
    by_cases hp : (ty % 2 == 1) = true <;> by_cases h1 : (ty / 2 == 1) = true <;>
      by_cases h2 : (ty / 2 == 2) = true <;>
      simp only [hp, h1, h2, if_true, if_false, Bool.false_eq_true, List.nil_append, List.cons_append,
        List.mem_cons, List.not_mem_nil, or_false, forall_eq_or_imp, forall_eq,
        wrap_add_right] at h ⊢
    all_goals simp only [narrow_of_wide_fits, h]

/-- types whose inverse is a ring operation on the inputs: narrow = truncation of wide, no range
hypothesis on any computed value -/
theorem rct_narrow_trunc_of_ring (ty : Nat) (a b c : Int) (hty : ty = 6 ∨ ty / 2 ≠ 2)
    (ha : I16 a) (hb : I16 b) (hc : I16 c) :
    rctInvSample 16 ty a b c =
      (wrap 16 (rctInvSample 32 ty a b c).1, wrap 16 (rctInvSample 32 ty a b c).2.1,
       wrap 16 (rctInvSample 32 ty a b c).2.2) := by
  unfold rctInvSample rctInvSampleG
  by_cases h6 : ty = 6
  · subst h6
    simp only [beq_self_eq_true, if_true, wrap_add_left, wrap_add_right, wrap_sub_left,
      wrap_wrap_of_le 16 32 (by omega)]
  · have h6' : (ty == 6) = false := by simp [h6]
    have h2 : (ty / 2 == 2) = false := by
      cases hty with
      | inl h => exact absurd h h6
      | inr h => simp [h]
    simp only [h6', h2, Bool.false_eq_true, if_false]
    by_cases hp : (ty % 2 == 1) = true <;> by_cases h1 : (ty / 2 == 1) = true <;>
      simp only [hp, h1, if_true, if_false, Bool.false_eq_true, wrap_wrap_of_le 16 32 (by omega),
        wrap16_of_I16 _ ha, wrap16_of_I16 _ hb, wrap16_of_I16 _ hc]

/-! ## sample operations -/

theorem sUnpack_trunc (tok : Nat) : sUnpack 16 tok = wrap 16 (sUnpack 32 tok) := by
  unfold sUnpack; rw [wrap_wrap_of_le 16 32 (by omega)]

theorem sAdd_trunc (a b : Int) : sAdd 16 a b = wrap 16 (sAdd 32 a b) := by
  unfold sAdd; rw [wrap_wrap_of_le 16 32 (by omega)]

theorem sMulAdd_trunc (a m o : Int) : sMulAdd 16 a m o = wrap 16 (sMulAdd 32 a m o) := by
  unfold sMulAdd; rw [wrap_wrap_of_le 16 32 (by omega)]

theorem sFromI32_trunc (v : Int) : sFromI32 16 v = wrap 16 (sFromI32 32 v) := by
  unfold sFromI32; rw [wrap_wrap_of_le 16 32 (by omega)]

/-- the Rust `i16` mul-add truncates `mul` and `add` first (`mul as i16`, `add as i16`); the
model's `sMulAdd 16` does not need to -/
theorem sMulAdd16_truncated_operands (a m o : Int) :
    wrap 16 (wrap 16 (a * wrap 16 m) + wrap 16 o) = sMulAdd 16 a m o := by
  unfold sMulAdd
  rw [wrap_add_left, wrap_add_right]
  apply wrap_congr
  rw [Int.add_emod, Int.mul_emod, wrap_emod, ← Int.mul_emod, ← Int.add_emod]

/-- narrow operations applied to truncated operands = truncation of the wide result -/
theorem sAdd_trunc_operands (a b : Int) : sAdd 16 (wrap 16 a) (wrap 16 b) = wrap 16 (sAdd 32 a b) := by
  unfold sAdd; rw [wrap_wrap_of_le 16 32 (by omega), wrap_add_left, wrap_add_right]

theorem sMulAdd_trunc_operands (a m o : Int) :
    sMulAdd 16 (wrap 16 a) m o = wrap 16 (sMulAdd 32 a m o) := by
  unfold sMulAdd
  rw [wrap_wrap_of_le 16 32 (by omega)]
  apply wrap_congr
  rw [Int.add_emod, Int.mul_emod, wrap_emod, ← Int.mul_emod, ← Int.add_emod]

/-- one decoded sample: the narrow result is always the truncation of the wide one -/
theorem sampleOf_trunc (leaf : Leaf) (pred : Int) (tok : Nat) :
    sampleOf 16 leaf pred tok = wrap 16 (sampleOf 32 leaf pred tok) := by
  unfold sampleOf
  rw [sUnpack_trunc, sMulAdd_trunc_operands, sFromI32_trunc, sAdd_trunc_operands]

theorem sampleOf_narrow_eq_wide (leaf : Leaf) (pred : Int) (tok : Nat)
    (h : I16 (sampleOf 32 leaf pred tok)) : sampleOf 16 leaf pred tok = sampleOf 32 leaf pred tok := by
  rw [sampleOf_trunc, wrap16_of_I16 _ h]

theorem decode_narrow_eq_wide (leafOf : LeafOf) (prev : List Chan) (n : Nat) (ps : PState)
    (toks : List Nat) (h : ∀ v ∈ wideSamples leafOf prev n ps toks, I16 v) :
    decodeSamples 16 leafOf prev n ps toks = decodeSamples 32 leafOf prev n ps toks := by
  induction n generalizing ps toks with
  | zero => simp [decodeSamples]
  | succ n ih =>
    unfold decodeSamples
    unfold wideSamples at h
    simp only [] at h ⊢
    split
    · rename_i leaf tok rest hl
      rw [hl] at h
      simp only [List.mem_cons, forall_eq_or_imp] at h
      rw [sampleOf_narrow_eq_wide _ _ _ h.1, ih _ _ h.2]
    · rfl

theorem gradClamped_I16 (n w nw : Int) (hn : I16 n) (hw : I16 w) : I16 (gradClamped n w nw) := by
  unfold gradClamped clamp
  unfold I16 at *
  split
  · omega
  · split <;> omega

theorem wideSamples_of_decode (leafOf : LeafOf) (prev : List Chan) (n : Nat) (ps : PState)
    (toks : List Nat) (vs : List Int) (rest : List Nat) (ps' : PState)
    (h : decodeSamples 32 leafOf prev n ps toks = some (vs, rest, ps')) :
    wideSamples leafOf prev n ps toks = vs := by
  induction n generalizing ps toks vs rest ps' with
  | zero => simp [decodeSamples] at h; simp [wideSamples, h.1]
  | succ n ih =>
    unfold decodeSamples at h
    unfold wideSamples
    simp only [] at h ⊢
    split at h
    · rename_i leaf tok rest' hl
      rw [hl]
      simp only []
      split at h
      · rename_i vs' toks' ps'' hd
        simp only [Option.some.injEq, Prod.mk.injEq] at h
        rw [ih _ _ _ _ _ hd, ← h.1]
      · simp at h
    · simp at h

theorem wideSamples_subset_trace (leafOf : LeafOf) (prev : List Chan) (n : Nat) (ps : PState)
    (toks : List Nat) : ∀ v ∈ wideSamples leafOf prev n ps toks, v ∈ decodeTrace leafOf prev n ps toks := by
  induction n generalizing ps toks with
  | zero => simp [wideSamples]
  | succ n ih =>
    unfold wideSamples decodeTrace
    simp only []
    split
    · intro v hv
      simp only [List.mem_cons] at hv
      simp only [List.mem_append]
      cases hv with
      | inl h => left; subst h; simp [sampleTrace, sampleOf]
      | inr h => right; exact ih _ _ v h
    · simp

theorem paletteValue_narrow_eq_wide (pal : Chan) (nbColours bitDepth : Nat) (index : Int) (c : Nat)
    (h : I16 (paletteValue 32 pal nbColours bitDepth index c)) :
    paletteValue 16 pal nbColours bitDepth index c = paletteValue 32 pal nbColours bitDepth index c := by
  unfold paletteValue at h ⊢
  simp only [] at h ⊢
  split
  · rfl
  · rename_i h1
    simp only [h1, if_false] at h
    split
    · rename_i h2
      simp only [h2, if_true] at h
      split
      · rename_i h3
        simp only [h3, if_true] at h
        exact narrow_of_wide_fits _ h
      · rename_i h3
        simp only [h3, if_false] at h
        exact narrow_of_wide_fits _ h
    · rename_i h2
      simp only [h2, if_false] at h
      split
      · rfl
      · rename_i h3
        simp only [h3, if_false] at h
        exact narrow_of_wide_fits _ h

/-! ## channel level -/

theorem rctInverse_narrow_eq_wide (rctType : Nat) (a b c : Chan)
    (h : ∀ v ∈ rctChanTrace rctType a b c, I16 v) :
    rctInverse 16 rctType a b c = rctInverse 32 rctType a b c := by
  unfold rctInverse
  simp only []
  have hm : ((List.range a.data.size).map fun i =>
      rctInvPermute (rctType / 7) (rctInvSample 16 (rctType % 7) (a.data.getD i 0) (b.data.getD i 0) (c.data.getD i 0)))
    = ((List.range a.data.size).map fun i =>
      rctInvPermute (rctType / 7) (rctInvSample 32 (rctType % 7) (a.data.getD i 0) (b.data.getD i 0) (c.data.getD i 0))) := by
    apply List.map_congr_left
    intro i hi
    rw [rct_narrow_eq_wide]
    intro v hv
    apply h
    unfold rctChanTrace
    exact List.mem_flatMap.mpr ⟨i, hi, hv⟩
  rw [hm]

theorem unsqueezeLine_narrow_eq_wide (avg res : List Int)
    (h : ∀ v ∈ unsqueezeLineTrace avg res, I16 v) :
    unsqueezeLine 16 avg res = unsqueezeLine 32 avg res := by
  unfold unsqueezeLine unsqueezeLineG
  exact unsqueezeGo_narrow_eq_wide avg res _ h

theorem unsqueezeChan_narrow_eq_wide (horizontal : Bool) (avg res : Chan)
    (h : ∀ v ∈ unsqueezeChanTrace horizontal avg res, I16 v) :
    unsqueezeChan 16 horizontal avg res = unsqueezeChan 32 horizontal avg res := by
  unfold unsqueezeChan
  unfold unsqueezeChanTrace at h
  cases horizontal with
  | true =>
    simp only [if_true] at h ⊢
    congr 1
    apply List.map_congr_left
    intro y hy
    apply unsqueezeLine_narrow_eq_wide
    intro v hv
    exact h v (List.mem_flatMap.mpr ⟨y, hy, hv⟩)
  | false =>
    simp only [Bool.false_eq_true, if_false] at h ⊢
    congr 1
    apply List.map_congr_left
    intro x hx
    apply unsqueezeLine_narrow_eq_wide
    intro v hv
    exact h v (List.mem_flatMap.mpr ⟨x, hx, hv⟩)

/-! ## folds -/

theorem foldl_congr_of_trace {σ α : Type} (f g : σ → α → σ) (tr : σ → α → List Int)
    (hstep : ∀ s x, (∀ v ∈ tr s x, I16 v) → f s x = g s x) (l : List α) (s : σ)
    (h : ∀ v ∈ foldTrace g tr l s, I16 v) : l.foldl f s = l.foldl g s := by
  induction l generalizing s with
  | nil => rfl
  | cons x xs ih =>
    simp only [foldTrace, List.mem_append] at h
    simp only [List.foldl_cons]
    rw [hstep s x (fun v hv => h v (Or.inl hv))]
    exact ih _ (fun v hv => h v (Or.inr hv))

theorem squeezeInvStep_narrow_eq_wide (chans : List Chan) (sp : SqueezeParam)
    (h : ∀ v ∈ squeezeInvStepTrace chans sp, I16 v) :
    squeezeInvStep 16 chans sp = squeezeInvStep 32 chans sp := by
  unfold squeezeInvStep
  unfold squeezeInvStepTrace at h
  simp only [] at h ⊢
  congr 2
  apply List.map_congr_left
  intro i hi
  apply unsqueezeChan_narrow_eq_wide
  intro v hv
  exact h v (List.mem_flatMap.mpr ⟨i, hi, hv⟩)

/-! ## palette delta pass -/

theorem paletteDeltaPass_eq_fold (sb : SBits) (dPred : Nat) (wp : Wp) (isDelta : Nat → Nat → Bool) (c : Chan) :
    paletteDeltaPass sb dPred wp isDelta c =
      ((List.range (c.w * c.h)).foldl (paletteDeltaStep sb dPred isDelta c.w)
        (PState.reset c.w (if dPred == 6 then some wp else none), c)).2 := rfl

theorem paletteDeltaStep_narrow_eq_wide (dPred : Nat) (isDelta : Nat → Nat → Bool) (w : Nat)
    (st : PState × Chan) (i : Nat) (h : ∀ v ∈ paletteDeltaStepTrace dPred isDelta w st i, I16 v) :
    paletteDeltaStep 16 dPred isDelta w st i = paletteDeltaStep 32 dPred isDelta w st i := by
  obtain ⟨ps, ch⟩ := st
  unfold paletteDeltaStep
  unfold paletteDeltaStepTrace at h
  simp only [] at h ⊢
  by_cases hd : isDelta (i % w) (i / w) = true
  · simp only [hd, if_true, List.mem_cons, List.not_mem_nil, or_false, forall_eq] at h ⊢
    unfold sFromI32
    unfold wrap32 at h ⊢
    rw [wrap16_of_I16 _ h, wrap_idem]
  · simp only [hd, Bool.false_eq_true, if_false]

theorem paletteDeltaPass_narrow_eq_wide (dPred : Nat) (wp : Wp) (isDelta : Nat → Nat → Bool) (c : Chan)
    (h : ∀ v ∈ paletteDeltaTrace dPred wp isDelta c, I16 v) :
    paletteDeltaPass 16 dPred wp isDelta c = paletteDeltaPass 32 dPred wp isDelta c := by
  rw [paletteDeltaPass_eq_fold, paletteDeltaPass_eq_fold]
  rw [foldl_congr_of_trace _ _ _ (paletteDeltaStep_narrow_eq_wide dPred isDelta c.w) _ _ h]

theorem Chan.ofFn_congr (w h : Nat) (f g : Nat → Nat → Int)
    (hfg : ∀ i, i < w * h → f (i % w) (i / w) = g (i % w) (i / w)) : Chan.ofFn w h f = Chan.ofFn w h g := by
  unfold Chan.ofFn
  congr 1
  apply Array.ext
  · simp
  · intro i h1 h2
    simp only [Array.getElem_ofFn]
    apply hfg
    simpa using h1

/-! ## transform chain -/

theorem inverseOne_squeeze_eq_fold (sb : SBits) (bitDepth : Nat) (wp : Wp) (chans : List Chan)
    (ps : List SqueezeParam) :
    inverseOne sb bitDepth wp chans (.squeeze ps) = ps.reverse.foldl (squeezeInvStep sb) chans := rfl

theorem inverseOne_narrow_eq_wide (bitDepth : Nat) (wp : Wp) (chans : List Chan) (t : Transform)
    (h : ∀ v ∈ inverseOneTrace bitDepth wp chans t, I16 v) :
    inverseOne 16 bitDepth wp chans t = inverseOne 32 bitDepth wp chans t := by
  cases t with
  | rct b ty =>
    simp only [inverseOne]
    simp only [inverseOneTrace] at h
    split
    · rename_i a bb c h1 h2 h3
      rw [h1, h2, h3] at h
      simp only [] at h
      rw [rctInverse_narrow_eq_wide ty a bb c h]
    · rfl
  | squeeze ps =>
    rw [inverseOne_squeeze_eq_fold, inverseOne_squeeze_eq_fold]
    exact foldl_congr_of_trace _ _ _ squeezeInvStep_narrow_eq_wide _ _ h
  | palette b n nbc nbd dp =>
    simp only [inverseOne]
    simp only [inverseOneTrace] at h
    cases chans with
    | nil => rfl
    | cons pal rest =>
      simp only [] at h ⊢
      cases hidx : rest[b]? with
      | none => rfl
      | some idx =>
        rw [hidx] at h
        simp only [List.mem_append] at h ⊢
        refine congrArg (fun o => List.take b rest ++ o ++ List.drop (b + 1) rest) ?_
        apply List.map_congr_left
        intro c hc
        have hbase : (Chan.ofFn idx.w idx.h fun x y => paletteValue 16 pal nbc bitDepth (idx.get x y) c)
            = (Chan.ofFn idx.w idx.h fun x y => paletteValue 32 pal nbc bitDepth (idx.get x y) c) := by
          apply Chan.ofFn_congr
          intro i hi
          apply paletteValue_narrow_eq_wide
          apply h _ (Or.inl _)
          unfold paletteBaseTrace
          exact List.mem_flatMap.mpr ⟨c, hc, List.mem_map.mpr ⟨i, List.mem_range.mpr hi, rfl⟩⟩
        rw [hbase]
        split
        · rename_i hany
          apply paletteDeltaPass_narrow_eq_wide
          intro v hv
          apply h v (Or.inr _)
          rw [if_pos hany]
          exact List.mem_flatMap.mpr ⟨c, hc, hv⟩
        · rfl

theorem inverseAll_narrow_eq_wide (bitDepth : Nat) (wp : Wp) (ts : List Transform) (chans : List Chan)
    (h : ∀ v ∈ inverseAllTrace bitDepth wp ts chans, I16 v) :
    inverseAll 16 bitDepth wp ts chans = inverseAll 32 bitDepth wp ts chans := by
  unfold inverseAll
  unfold inverseAllTrace at h
  apply foldl_congr_of_trace (inverseOne 16 bitDepth wp) (inverseOne 32 bitDepth wp)
    (fun chans t => inverseOneTrace bitDepth wp chans t ++ chansValues (inverseOne 32 bitDepth wp chans t))
  · intro s x hx
    exact inverseOne_narrow_eq_wide bitDepth wp s x (fun v hv => hx v (List.mem_append.mpr (Or.inl hv)))
  · intro v hv
    exact h v (List.mem_append.mpr (Or.inr hv))

/-! ## all channels of a sub-image -/

theorem decodeChannel_narrow_eq_wide (tree : Tree) (wp : Wp) (chanIdx stream : Nat)
    (info : ChanInfo) (prevSame : List Chan) (tokens : List Nat)
    (h : ∀ v ∈ decodeChannelWide tree wp chanIdx stream info prevSame tokens, I16 v) :
    decodeChannel 16 tree wp chanIdx stream info prevSame tokens =
      decodeChannel 32 tree wp chanIdx stream info prevSame tokens := by
  unfold decodeChannel
  unfold decodeChannelWide at h
  simp only [] at h ⊢
  rw [decode_narrow_eq_wide _ _ _ _ _ h]

theorem decodeChannels_narrow_eq_wide (tree : Tree) (wp : Wp) (stream : Nat)
    (infos : List ChanInfo) (idx : Nat) (done : List (ChanInfo × Chan)) (tokens : List Nat)
    (h : ∀ v ∈ decodeChannelsWide tree wp stream infos idx done tokens, I16 v) :
    decodeChannels 16 tree wp stream infos idx done tokens =
      decodeChannels 32 tree wp stream infos idx done tokens := by
  induction infos generalizing idx done tokens with
  | nil => simp [decodeChannels]
  | cons info rest ih =>
    unfold decodeChannels
    unfold decodeChannelsWide at h
    split
    · rename_i hz
      rw [if_pos hz] at h
      exact ih _ _ _ h
    · rename_i hz
      rw [if_neg hz] at h
      simp only [List.mem_append] at h
      simp only []
      rw [decodeChannel_narrow_eq_wide _ _ _ _ _ _ _ (fun v hv => h v (Or.inl hv))]
      split
      · rfl
      · rename_i c tokens' hd
        rw [hd] at h
        exact ih _ _ _ (fun v hv => h v (Or.inr hv))

/-! ## lane semantics of the vector kernels -/

theorem wrap16_of_bounds (x : Int) (h1 : -32768 ≤ x) (h2 : x ≤ 32767) : wrap 16 x = x :=
  wrap16_of_I16 x ⟨h1, h2⟩

theorem mulhi3 (p : Int) (h0 : 0 ≤ p) (h1 : p ≤ 32767) : p * 21846 / 65536 = p / 3 := by omega

theorem quot12 (p q t : Int) (h1 : 12 * t ≤ p + 3 * q + 6) (h2 : p + 3 * q + 6 < 12 * t + 12) :
    (p / 3 + (q + 2)) / 4 = t := by omega

/-- the magnitude computed by a vector lane from `p = |a-b|`, `q = |a-c|`, `r = |b-c|` in the
monotone case (`q = p + r`), is the clamped quotient of the scalar code -/
theorem tendencyVecCore_eq (p q r t : Int) (hp : 0 ≤ p) (hr : 0 ≤ r) (hq : q = p + r)
    (hN : p + 3 * q + 6 ≤ 32768) (h1 : 12 * t ≤ p + 3 * q + 6) (h2 : p + 3 * q + 6 < 12 * t + 12) :
    tendencyVecCore p q r =
      (let x := t
       let x := if x - x % 2 > 2 * p then 2 * p + 1 else x
       let x := if x + x % 2 > 2 * r then 2 * r else x
       x) := by
  have ht : 0 ≤ t := by omega
  unfold tendencyVecCore
  simp only []
  rw [mulhi3 p hp (by omega), wrap16_of_bounds (q + 2) (by omega) (by omega),
    wrap16_of_bounds (p / 3 + (q + 2)) (by omega) (by omega), quot12 p q t h1 h2,
    wrap16_of_bounds (2 * p) (by omega) (by omega), wrap16_of_bounds (2 * p + t % 2) (by omega) (by omega),
    wrap16_of_bounds (2 * p + 1) (by omega) (by omega), wrap16_of_bounds (2 * r) (by omega) (by omega)]
  by_cases c1 : t > 2 * p + t % 2
  · have c1' : t - t % 2 > 2 * p := by omega
    simp only [c1, c1', if_true]
    rw [wrap16_of_bounds _ (by omega) (by omega)]
  · have c1' : ¬ (t - t % 2 > 2 * p) := by omega
    simp only [c1, c1', if_false]
    rw [wrap16_of_bounds _ (by omega) (by omega)]

theorem tendencyVec_eq_wide (a b c : Int) (ha : I16 a) (hc : I16 c)
    (hab : I16 (a - b)) (hbc : I16 (b - c))
    (h : I16 (tendencyNum a b c)) : tendencyVec a b c = tendency 32 a b c := by
  rw [tendency_eq_G, tendencyG_exact (wrap 32) a b c (wrap_sub_left 32) (wrap_sub_right 32) (wrap_add_left 32)
        (wrap_mul_right 32) (fun x hx => wrap32_of_I32 x (I32_of_I16 hx)) h]
  unfold tendencyNum at h
  unfold I16 at ha hc h hab hbc
  unfold tendencyVec tendencyG tdiv
  simp only [wrap16_of_bounds (a - b) hab.1 hab.2, wrap16_of_bounds (b - c) hbc.1 hbc.2, id]
  by_cases h1 : a ≥ b ∧ b ≥ c
  · simp only [h1, and_self, if_true] at h ⊢
    have tb := tdiv_bounds_nonneg (4 * a - 3 * c - b + 6) 12 (by omega) (by omega)
    generalize Int.tdiv (4 * a - 3 * c - b + 6) 12 = t at tb ⊢
    have e1 : ¬ (a - b < 0) := by omega
    have e2 : ¬ (b - c < 0) := by omega
    have e4 : ¬ (c > a) := by omega
    rw [wrap16_of_bounds (a - c) (by omega) (by omega)]
    have e3 : ¬ (a - c < 0) := by omega
    simp only [e1, e2, e3, e4, if_false, decide_false, bne_self_eq_false, Bool.false_and, Bool.false_eq_true]
    rw [wrap16_of_bounds (a - b) hab.1 hab.2, wrap16_of_bounds (b - c) hbc.1 hbc.2,
      wrap16_of_bounds (a - c) (by omega) (by omega)]
    rw [tendencyVecCore_eq (a - b) (a - c) (b - c) t (by omega) (by omega) (by omega) (by omega) (by omega) (by omega)]
  · by_cases h2 : a ≤ b ∧ b ≤ c
    · simp only [h1, h2, and_self, if_true, if_false] at h ⊢
      have tb := tdiv_bounds_nonpos (4 * a - 3 * c - b - 6) 12 (by omega) (by omega)
      generalize Int.tdiv (4 * a - 3 * c - b - 6) 12 = t at tb ⊢
      have e4 : c > a := by omega
      rw [wrap16_of_bounds (a - c) (by omega) (by omega)]
      have ea : (if a - b < 0 then -(a - b) else a - b) = b - a := by split <;> omega
      have eb : (if b - c < 0 then -(b - c) else b - c) = c - b := by split <;> omega
      have ec : (if a - c < 0 then -(a - c) else a - c) = c - a := by split <;> omega
      rw [ea, eb, ec]
      have hskip : (decide (a - b < 0) != decide (b - c < 0) && decide (a - b ≠ 0) && decide (b - c ≠ 0)) = false := by
        by_cases x1 : a - b < 0 <;> by_cases x2 : b - c < 0 <;> simp [x1, x2] <;> omega
      simp only [hskip, Bool.false_eq_true, if_false, e4, decide_true, if_true]
      rw [wrap16_of_bounds (b - a) (by omega) (by omega), wrap16_of_bounds (c - b) (by omega) (by omega),
        wrap16_of_bounds (c - a) (by omega) (by omega)]
      rw [tendencyVecCore_eq (b - a) (c - a) (c - b) (-t) (by omega) (by omega) (by omega) (by omega) (by omega) (by omega)]
      simp only []
      by_cases c1 : -t - -t % 2 > 2 * (b - a)
      · have c1' : t + t % 2 < 2 * (a - b) := by omega
        simp only [c1, c1', if_true]
        by_cases c2 : 2 * (b - a) + 1 + (2 * (b - a) + 1) % 2 > 2 * (c - b)
        · have c2' : 2 * (a - b) - 1 - (2 * (a - b) - 1) % 2 < 2 * (b - c) := by omega
          simp only [c2, c2', if_true]
          rw [wrap16_of_bounds _ (by omega) (by omega)]; omega
        · have c2' : ¬ (2 * (a - b) - 1 - (2 * (a - b) - 1) % 2 < 2 * (b - c)) := by omega
          simp only [c2, c2', if_false]
          rw [wrap16_of_bounds _ (by omega) (by omega)]; omega
      · have c1' : ¬ (t + t % 2 < 2 * (a - b)) := by omega
        simp only [c1, c1', if_false]
        by_cases c2 : -t + -t % 2 > 2 * (c - b)
        · have c2' : t - t % 2 < 2 * (b - c) := by omega
          simp only [c2, c2', if_true]
          rw [wrap16_of_bounds _ (by omega) (by omega)]; omega
        · have c2' : ¬ (t - t % 2 < 2 * (b - c)) := by omega
          simp only [c2, c2', if_false]
          rw [wrap16_of_bounds _ (by omega) (by omega)]; omega
    · simp only [h1, h2, if_false]
      have hskip : (decide (a - b < 0) != decide (b - c < 0) && decide (a - b ≠ 0) && decide (b - c ≠ 0)) = true := by
        by_cases x1 : a - b < 0 <;> by_cases x2 : b - c < 0 <;> simp [x1, x2] <;> omega
      simp only [hskip, if_true]

theorem halveVec_eq_tdiv (d : Int) (h : I16 d) : halveVec d = tdiv d 2 := by
  unfold halveVec tdiv
  unfold I16 at h
  by_cases hd : d < 0
  · simp only [hd, if_true]
    rw [wrap16_of_bounds _ (by omega) (by omega)]
    have := tdiv_bounds_nonpos d 2 (by omega) (by omega)
    omega
  · simp only [hd, if_false]
    rw [wrap16_of_bounds _ (by omega) (by omega)]
    have := tdiv_bounds_nonneg d 2 (by omega) (by omega)
    omega

/-- the lane operations of the vector kernels reproduce the wide line, given `i16` inputs and
the hypothesis of C12 -/
theorem unsqueezeGoVec_eq_wide (avg res : List Int) (left : Int)
    (havg : ∀ v ∈ avg, I16 v) (hleft : I16 left)
    (h : ∀ v ∈ unsqueezeTrace avg res left, I16 v) :
    unsqueezeGoVec avg res left = unsqueezeGo (wrap 32) (tendency 32) avg res left := by
  induction avg generalizing res left with
  | nil => simp [unsqueezeGo, unsqueezeGoVec]
  | cons a as ih =>
    cases res with
    | nil => simp [unsqueezeGo, unsqueezeGoVec]
    | cons r rs =>
      simp only [unsqueezeTrace, unsqueezeStepTrace, List.mem_append, List.mem_cons, List.not_mem_nil, or_false] at h
      have ha : I16 a := havg a (List.mem_cons_self)
      have hnext : I16 (as.headD a) := by
        cases as with
        | nil => exact ha
        | cons a2 as2 => exact havg a2 (List.mem_cons_of_mem _ List.mem_cons_self)
      have hN := h (tendencyNum left a (as.headD a)) (Or.inl (Or.inl rfl))
      have hd := h _ (Or.inl (Or.inr (Or.inl rfl)))
      have hf := h _ (Or.inl (Or.inr (Or.inr (Or.inl rfl))))
      have hs := h _ (Or.inl (Or.inr (Or.inr (Or.inr (Or.inl rfl)))))
      have h1 := h _ (Or.inl (Or.inr (Or.inr (Or.inr (Or.inr (Or.inl rfl))))))
      have h2 := h _ (Or.inl (Or.inr (Or.inr (Or.inr (Or.inr (Or.inr rfl))))))
      have hT := tendencyVec_eq_wide left a (as.headD a) hleft hnext h1 h2 hN
      have ed := narrow_of_wide_fits _ hd
      have ef := narrow_of_wide_fits _ hf
      have es := narrow_of_wide_fits _ hs
      simp only [unsqueezeGo, unsqueezeGoVec]
      rw [hT, ed, halveVec_eq_tdiv _ hd, ef, es]
      rw [ih rs _ (fun v hv => havg v (List.mem_cons_of_mem _ hv)) hs (fun v hv => h v (Or.inr hv))]


end Jxl.Modular
