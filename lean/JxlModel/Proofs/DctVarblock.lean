import JxlModel.Proofs.Dct2dFull
/-!
# LF injection and whole DCT-family varblocks over ℝ
-/
open Finset Real

namespace Jxl.Dct

theorem D2_congr (dir : Dir) (g g' : Grid ℝ) (hw : g.w = g'.w) (hh : g.h = g'.h)
    (h : ∀ u < g.w, ∀ v < g.h, g.rd u v = g'.rd u v) (x y : ℕ) : D2 dir g x y = D2 dir g' x y := by
  unfold D2
  rw [← hw, ← hh]
  apply D1_congr
  intro v hv
  apply D1_congr
  intro u hu
  exact h u hu v hv

theorem idct2dDef_eq_D2 (g : Grid ℝ) (x y : ℕ) (hx : x < g.w) (hy : y < g.h) :
    (idct2dDef g).rd x y = D2 .inverse g x y := by
  have hwp : 0 < g.w := by omega
  have hhp : 0 < g.h := by omega
  unfold idct2dDef D2 D1
  simp only
  rw [Grid.rd_tab _ _ _ _ _ hx hy, idctDef_eq_S _ hhp]
  apply S_congr
  intro v hv
  rw [Grid.rd_tab _ _ _ _ _ hx hv, idctDef_eq_S _ hwp]

theorem fdct2dDef_eq_D2 (g : Grid ℝ) (x y : ℕ) (hx : x < g.w) (hy : y < g.h) :
    (fdct2dDef g).rd x y = D2 .forward g x y := by
  unfold fdct2dDef D2 D1
  simp only
  rw [Grid.rd_tab _ _ _ _ _ hx hy, fdctDef_eq_F]
  apply F_congr
  intro v hv
  rw [Grid.rd_tab _ _ _ _ _ hx hv, fdctDef_eq_F]

theorem scaleF_zero (N : ℕ) : (scaleF 0 N : ℝ) = 1 := by
  unfold scaleF
  simp

/-- LF injection: the model's LLF block (forward recursive 2-D DCT, scaled) is the definition. -/
theorem llfFromLf_eq_def (lf : Grid ℝ) (a b : ℕ) (hw : lf.w = 2 ^ a) (hh : lf.h = 2 ^ b)
    (x y : ℕ) (hx : x < lf.w) (hy : y < lf.h) :
    (llfFromLf lf).rd x y = (llfDef lf).rd x y := by
  unfold llfFromLf llfDef
  simp only
  rw [Grid.rd_tab _ _ _ _ _ hx hy, fdct2dDef_eq_D2 _ _ _ hx hy]
  by_cases h1 : lf.w * lf.h = 1
  · rw [if_pos h1]
    have hw1 : lf.w = 1 := Nat.eq_one_of_mul_eq_one_right h1
    have hh1 : lf.h = 1 := Nat.eq_one_of_mul_eq_one_left h1
    obtain rfl : x = 0 := by omega
    obtain rfl : y = 0 := by omega
    unfold D2
    rw [hw1, hh1, D1_one, D1_one, scaleF_zero]
    simp
  · rw [if_neg h1, Grid.rd_tab _ _ _ _ _ hx hy, dct2d_def .forward lf a b hw hh x y hx hy]

/-- **A whole DCT-family varblock**: LF injection followed by the recursive 2-D inverse equals
the definition, for every power-of-two LF shape and coefficient shape. -/
theorem varblockDct_eq_def (lf coeff : Grid ℝ) (a b a' b' : ℕ)
    (hlw : lf.w = 2 ^ a') (hlh : lf.h = 2 ^ b') (hw : coeff.w = 2 ^ a) (hh : coeff.h = 2 ^ b)
    (x y : ℕ) (hx : x < coeff.w) (hy : y < coeff.h) :
    (varblockDct lf coeff).rd x y = (varblockDef lf coeff).rd x y := by
  have hiw : (injectLf lf coeff).w = coeff.w := rfl
  have hih : (injectLf lf coeff).h = coeff.h := rfl
  have hdw : (injectDef lf coeff).w = coeff.w := rfl
  have hdh : (injectDef lf coeff).h = coeff.h := rfl
  have e1 : varblockDct lf coeff = dct2d .inverse (injectLf lf coeff) := rfl
  have e2 : varblockDef lf coeff = idct2dDef (injectDef lf coeff) := rfl
  rw [e1, e2, dct2d_def .inverse (injectLf lf coeff) a b (hiw.trans hw) (hih.trans hh) x y
      (by rw [hiw]; exact hx) (by rw [hih]; exact hy),
    idct2dDef_eq_D2 (injectDef lf coeff) x y (by rw [hdw]; exact hx) (by rw [hdh]; exact hy)]
  apply D2_congr _ _ _ (hiw.trans hdw.symm) (hih.trans hdh.symm)
  intro u hu v hv
  have hu' : u < coeff.w := by rw [hiw] at hu; exact hu
  have hv' : v < coeff.h := by rw [hih] at hv; exact hv
  have l1 : (injectLf lf coeff).rd u v =
      if u < lf.w ∧ v < lf.h then (llfFromLf lf).rd u v else coeff.rd u v := by
    unfold injectLf
    exact Grid.rd_tab _ _ _ _ _ hu' hv'
  have l2 : (injectDef lf coeff).rd u v =
      if u < lf.w ∧ v < lf.h then (llfDef lf).rd u v else coeff.rd u v := by
    unfold injectDef
    exact Grid.rd_tab _ _ _ _ _ hu' hv'
  rw [l1, l2]
  by_cases hc : u < lf.w ∧ v < lf.h
  · rw [if_pos hc, if_pos hc, llfFromLf_eq_def lf a' b' hlw hlh u v hc.1 hc.2]
  · rw [if_neg hc, if_neg hc]

end Jxl.Dct
