import JxlModel.Model.Modular.Tree
/-!
# Flattened MA tree: basic lemmas shared by the table-compilation and the flattening proofs

static-property substitution (`specProps`), `Tree.next` preserves evaluation and removes static
decisions, the sub-tree predicate `AllSub`, the fuel weights `wt`/`wts`.
-/
namespace Jxl.Modular

variable (c s pc : Nat)

/-- the property function the Spec evaluation uses: static properties substituted -/
def specProps (props : Nat → Int) (k : Nat) : Int :=
  if k == 0 then c else if k == 1 then s
  else if k ≥ 16 ∧ (k - 16) / 4 ≥ pc then 0 else props k

theorem evalFor_eq (props : Nat → Int) (t : Tree) :
    t.evalFor c s pc props = t.eval (specProps c s pc props) := rfl

/-- a decision that `next` resolves statically -/
def isStatic (p : Nat) : Bool := p == 0 || p == 1 || (decide (p ≥ 16) && decide ((p - 16) / 4 ≥ pc))

theorem specProps_nonstatic (props : Nat → Int) (p : Nat) (h : isStatic pc p = false) :
    specProps c s pc props p = props p := by
  unfold isStatic at h
  simp only [Bool.or_eq_false_iff, Bool.and_eq_false_iff, beq_eq_false_iff_ne, decide_eq_false_iff_not] at h
  obtain ⟨⟨h0, h1⟩, h2⟩ := h
  unfold specProps
  simp only [beq_iff_eq, h0, h1, if_false]
  have : ¬ (p ≥ 16 ∧ (p - 16) / 4 ≥ pc) := by
    intro ⟨a, b⟩; rcases h2 with h2 | h2 <;> contradiction
  simp [this]

theorem next_eval (props : Nat → Int) (t : Tree) :
    (t.next c s pc).eval (specProps c s pc props) = t.eval (specProps c s pc props) := by
  induction t with
  | leaf l => rfl
  | dec p v l r ihl ihr =>
    unfold Tree.next
    by_cases h0 : p = 0
    · subst h0
      simp only [beq_self_eq_true, if_true, Tree.eval, specProps]
      by_cases hc : (c : Int) > v <;> simp [hc, ihl, ihr]
    · by_cases h1 : p = 1
      · subst h1
        simp only [Tree.eval, specProps]
        by_cases hc : (s : Int) > v <;> simp [hc, ihl, ihr]
      · have e0 : (p == 0) = false := by simp [h0]
        have e1 : (p == 1) = false := by simp [h1]
        simp only [e0, e1]
        by_cases h2 : p ≥ 16 ∧ (p - 16) / 4 ≥ pc
        · simp only [h2, and_self, if_true, Tree.eval, specProps, e0, e1]
          by_cases hv : v < 0
          · simp [hv, ihl]
          · have : ¬ ((0 : Int) > v) := by omega
            simp [hv, ihr, this]
        · simp [h2]

/-- `next` never returns a statically decidable decision -/
theorem next_nonstatic (t : Tree) (p : Nat) (v : Int) (l r : Tree)
    (h : t.next c s pc = .dec p v l r) : isStatic pc p = false := by
  induction t with
  | leaf l0 => simp [Tree.next] at h
  | dec p0 v0 l0 r0 ihl ihr =>
    unfold Tree.next at h
    by_cases h0 : p0 = 0
    · subst h0
      simp only [beq_self_eq_true, if_true] at h
      by_cases hc : (c : Int) > v0
      · simp [hc] at h; exact ihl h
      · simp [hc] at h; exact ihr h
    · by_cases h1 : p0 = 1
      · subst h1
        simp at h
        by_cases hc : (s : Int) > v0
        · simp [hc] at h; exact ihl h
        · simp [hc] at h; exact ihr h
      · have e0 : (p0 == 0) = false := by simp [h0]
        have e1 : (p0 == 1) = false := by simp [h1]
        simp only [e0, e1] at h
        by_cases h2 : p0 ≥ 16 ∧ (p0 - 16) / 4 ≥ pc
        · simp only [h2, and_self, if_true] at h
          by_cases hv : v0 < 0
          · simp [hv] at h; exact ihl h
          · simp [hv] at h; exact ihr h
        · simp [h2] at h
          obtain ⟨rfl, _, _, _⟩ := h
          unfold isStatic
          simp only [e0, e1, Bool.false_or, Bool.and_eq_false_iff, decide_eq_false_iff_not]
          by_cases h16 : p0 ≥ 16
          · right; intro hh; exact h2 ⟨h16, hh⟩
          · left; exact h16

def E (props : Nat → Int) (t : Tree) : Leaf := t.eval (specProps c s pc props)

theorem getD_append_left {α} (a b : List α) (d : α) (i : Nat) (h : i < a.length) :
    (a ++ b).getD i d = a.getD i d := by
  simp [List.getD, List.getElem?_append_left h]


def AllSub (P : Tree → Prop) : Tree → Prop
  | .leaf l => P (.leaf l)
  | .dec p v l r => P (.dec p v l r) ∧ AllSub P l ∧ AllSub P r

theorem AllSub_self (P : Tree → Prop) (t : Tree) (h : AllSub P t) : P t := by
  cases t with
  | leaf l => exact h
  | dec p v l r => exact h.1

theorem AllSub_next (P : Tree → Prop) (t : Tree) (h : AllSub P t) : AllSub P (t.next c s pc) := by
  induction t with
  | leaf l => exact h
  | dec p v l r ihl ihr =>
    obtain ⟨h0, hl, hr⟩ := h
    unfold Tree.next
    split
    · split
      · exact ihl hl
      · exact ihr hr
    · split
      · split
        · exact ihl hl
        · exact ihr hr
      · split
        · split
          · exact ihl hl
          · exact ihr hr
        · exact ⟨h0, hl, hr⟩

/-- the node never compiles to a lookup table -/
def wt (t : Tree) : Nat := 2 * t.size - 1
def wts (q : List Tree) : Nat := (q.map wt).sum

theorem size_pos (t : Tree) : 1 ≤ t.size := by cases t <;> simp [Tree.size] <;> omega

theorem next_size_le (t : Tree) : (t.next c s pc).size ≤ t.size := by
  induction t with
  | leaf l => simp [Tree.next]
  | dec p v l r ihl ihr =>
    unfold Tree.next
    simp only [Tree.size]
    split
    · split <;> omega
    · split
      · split <;> omega
      · split
        · split <;> omega
        · simp [Tree.size]

/-- children of a (non-static) subtree root, as the flattener enqueues them -/
def kids (t : Tree) : Nat × Int × Tree × Tree :=
  match t with
  | .dec p v a b => (p, v, a, b)
  | n => (0, 0, n, n)

theorem kids_wt (t : Tree) : wt (kids t).2.2.1 + wt (kids t).2.2.2 ≤ 2 * t.size := by
  cases t with
  | leaf l => simp [kids, wt, Tree.size]
  | dec p v a b =>
    have := size_pos a; have := size_pos b
    simp [kids, wt, Tree.size]; omega

theorem wt_pos (t : Tree) : 1 ≤ wt t := by have := size_pos t; unfold wt; omega

theorem wts_cons (t : Tree) (q : List Tree) : wts (t :: q) = wt t + wts q := by simp [wts]
theorem wts_append (a b : List Tree) : wts (a ++ b) = wts a + wts b := by simp [wts]

theorem drop_cons_of_eq {α} (l : List α) (n : Nat) (x : α) (xs : List α) (h : x :: xs = l.drop n) :
    n < l.length ∧ l.getD n x = x ∧ xs = l.drop (n + 1) := by
  have hlt : n < l.length := by
    by_cases hh : n < l.length
    · exact hh
    · have : l.drop n = [] := List.drop_eq_nil_of_le (by omega)
      rw [this] at h; simp at h
  refine ⟨hlt, ?_, ?_⟩
  · have : l.drop n = l[n] :: l.drop (n + 1) := (List.drop_eq_getElem_cons hlt)
    rw [this] at h
    have := (List.cons.inj h).1
    simp [List.getD, hlt, this]
  · have : l.drop n = l[n] :: l.drop (n + 1) := (List.drop_eq_getElem_cons hlt)
    rw [this] at h
    exact (List.cons.inj h).2

/-- evaluation at a non-static decision root, in terms of the enqueued children -/
theorem E_kids (props : Nat → Int) (u : Tree) (hns : ∀ p v a b, u = .dec p v a b → isStatic pc p = false) :
    E c s pc props u =
      (if props (kids u).1 ≤ (kids u).2.1 then E c s pc props (kids u).2.2.2 else E c s pc props (kids u).2.2.1) := by
  cases u with
  | leaf l => simp only [kids, E]; exact (ite_self _).symm
  | dec p v a b =>
    have hp := hns p v a b rfl
    simp only [kids, E, Tree.eval, specProps_nonstatic c s pc props p hp]
    by_cases h : props p > v
    · have : ¬ (props p ≤ v) := by omega
      simp [h, this]
    · have : props p ≤ v := by omega
      simp [h, this]

/-- one fused emission, with the children written through `kids` -/
theorem AllSub_kids (P : Tree → Prop) (u : Tree) (h : AllSub P u) :
    AllSub P (kids u).2.2.1 ∧ AllSub P (kids u).2.2.2 := by
  cases u with
  | leaf l => exact ⟨h, h⟩
  | dec p v a b => exact ⟨h.2.1, h.2.2⟩

end Jxl.Modular
