import JxlModel.Proofs.Dct
/-!
# Literal secant constants vs their definition (n = 4 only)
`sec_half(4) = [0.541196100146197, 1.3065629648763764]` (`dct_common.rs`), and the copies
`0.5411961`, `1.306563` used by `dct4` and the SSE kernels.
-/
open Real

namespace Jxl.Dct

theorem sqrt2_bounds : (1.41421356237 : ℝ) < √2 ∧ √2 < (1.41421356238 : ℝ) := by
  constructor
  · rw [Real.lt_sqrt (by norm_num)]; norm_num
  · rw [Real.sqrt_lt' (by norm_num)]; norm_num

theorem secHalf_4_0 : (secHalf 4 0 : ℝ) = 1 / √(2 + √2) := by
  have h : theta 4 0 = π / 8 := by unfold theta; push_cast; ring
  rw [secHalf_real, h, Real.cos_pi_div_eight]
  field_simp

theorem secHalf_4_1 : (secHalf 4 1 : ℝ) = 1 / √(2 - √2) := by
  have h : theta 4 1 = π / 2 - π / 8 := by unfold theta; push_cast; ring
  rw [secHalf_real, h, Real.cos_pi_div_two_sub, Real.sin_pi_div_eight]
  field_simp

theorem sec4_0_bounds : (0.5411961001 : ℝ) < secHalf 4 0 ∧ (secHalf 4 0 : ℝ) < 0.5411961002 := by
  obtain ⟨h1, h2⟩ := sqrt2_bounds
  have hL : (1.8477590650 : ℝ) < √(2 + √2) := by
    rw [Real.lt_sqrt (by norm_num)]; nlinarith
  have hU : √(2 + √2) < (1.8477590651 : ℝ) := by
    rw [Real.sqrt_lt' (by norm_num)]; nlinarith
  rw [secHalf_4_0]
  constructor
  · rw [lt_div_iff₀ (by linarith)]; nlinarith
  · rw [div_lt_iff₀ (by linarith)]; nlinarith

theorem sec4_1_bounds : (1.3065629647 : ℝ) < secHalf 4 1 ∧ (secHalf 4 1 : ℝ) < 1.3065629650 := by
  obtain ⟨h1, h2⟩ := sqrt2_bounds
  have hL : (0.7653668647 : ℝ) < √(2 - √2) := by
    rw [Real.lt_sqrt (by norm_num)]; nlinarith
  have hU : √(2 - √2) < (0.7653668648 : ℝ) := by
    rw [Real.sqrt_lt' (by norm_num)]; nlinarith
  rw [secHalf_4_1]
  constructor
  · rw [lt_div_iff₀ (by linarith)]; nlinarith
  · rw [div_lt_iff₀ (by linarith)]; nlinarith

end Jxl.Dct
