import JxlModel.Proofs.TocEntropy
/-!
# C14 ∘ C04 — the permuted table of contents through the real entropy decoder model

`Props/C14.lean` states `C14_toc_permuted_roundtrip` for an abstract `PermDecoder` under the
hypothesis that it reads the permutation bits back. Here that hypothesis is discharged for
`entropyPermDecoder` (`Model/TocEntropy.lean`): exactly what `Toc::parse` does with `jxl_coding` —
`Decoder::parse(bitstream, 8)`, `begin`, `read_permutation(.., entry_count, 0)`, `finalize` — on the
entropy decoder model of C04, against the reference entropy encoder (`Model/Enc/EntropyEnc.lean`).

Side conditions that remain, all executable (`decide`-able for concrete data):
* `p.numDist = 8` — the plan has the 8 distributions `Toc::parse` asks for;
* `lehmerValid sizes.length lehmer` — the Lehmer code is one `read_permutation` accepts
  (`lehmer[i] < entry_count - i`; implies `lehmer.length ≤ entry_count`);
* `p.check (permItems sizes.length lehmer)` — the reference encoder's own Boolean acceptance test
  of the plan for these items (values < 2^32, configs valid, codes complete and covering the
  tokens, …), the ONLY hypothesis about the coder;
* `writeToc … = some bits` — the TOC is writable (`entry_count ≤ 65536`, sizes in range).
-/
namespace Jxl.Headers
open Jxl Jxl.Bundle Jxl.Entropy Jxl.Enc

/-- **The coder hypothesis of `C14_toc_permuted_roundtrip`, proved.** For every entropy plan with
8 distributions, every `size` and every Lehmer code `read_permutation` accepts for it, whenever the
reference encoder accepts the plan for the items `permItems size lehmer` (`end` in context
`get_context(size)`, then each entry in the context of its predecessor): `Toc::parse`'s decoder
sequence on `histogram header ++ coded items ++ r` returns exactly `lehmer` and leaves exactly
`r`, for every continuation `r`. -/
theorem C14_toc_entropy_perm_decoder (p : EntropyPlan) (size : Nat) (lehmer : List Nat)
    (h8 : p.numDist = 8) (hv : lehmerValid size lehmer = true)
    (hc : p.check (permItems size lehmer) = true) (r : Bits) :
    entropyPermDecoder size (encodeHeader p ++ encodeItems p (permItems size lehmer) ++ r)
      = .ok (lehmer, r) :=
  entropyPermDecoder_roundtrip p size lehmer h8 hv hc r

/-- **Permuted table of contents, end to end, no coder hypothesis.** `writeToc` with the permutation
coded by the reference entropy encoder under plan `p`, read by `parseToc` with the real decoder
sequence of `Toc::parse`: for every selector choice, bit position, group counts and continuation
`rest`, the parser reports the sizes as written, the permutation of the Lehmer code, the byte offset
of the first section, and stops at the writer's last bit. (Statement of
`C14_toc_permuted_roundtrip` at `dec := entropyPermDecoder`,
`enc := encodeHeader p ++ encodeItems p (permItems sizes.length lehmer)`; its hypothesis `hdec` is
replaced by the three executable conditions `h8`, `hv`, `hc`.) -/
theorem C14_toc_permuted_entropy_roundtrip (p : EntropyPlan) (choice : Nat → Nat)
    (pos numGroups numLfGroups : Nat) (sizes lehmer : List Nat) (bits rest : Bits)
    (h8 : p.numDist = 8) (hv : lehmerValid sizes.length lehmer = true)
    (hc : p.check (permItems sizes.length lehmer) = true)
    (hw : writeToc choice pos sizes
      (some (encodeHeader p ++ encodeItems p (permItems sizes.length lehmer))) = some bits) :
    parseToc entropyPermDecoder (pos + (bits ++ rest).length) numGroups numLfGroups sizes.length
        (bits ++ rest) =
      .ok ({ entryCount := sizes.length, numLfGroups := numLfGroups, numGroups := numGroups,
             permuted := true, perm := lehmerToPerm sizes.length lehmer, sizes := sizes,
             base := (pos + bits.length) / 8 }, rest) :=
  parseToc_writeToc_permuted entropyPermDecoder choice pos numGroups numLfGroups sizes lehmer _
    bits rest (entropyPermDecoder_roundtrip p sizes.length lehmer h8 hv hc) hw

/-- and the reported order is a permutation of the sections with `bitstream_to_original` its
inverse (`C14_toc_permuted_order` at the real decoder) -/
theorem C14_toc_permuted_entropy_order (p : EntropyPlan) (choice : Nat → Nat)
    (pos numGroups numLfGroups : Nat) (sizes lehmer : List Nat) (bits rest : Bits)
    (h8 : p.numDist = 8) (hv : lehmerValid sizes.length lehmer = true)
    (hc : p.check (permItems sizes.length lehmer) = true)
    (hw : writeToc choice pos sizes
      (some (encodeHeader p ++ encodeItems p (permItems sizes.length lehmer))) = some bits) :
    ∃ t, parseToc entropyPermDecoder (pos + (bits ++ rest).length) numGroups numLfGroups
          sizes.length (bits ++ rest) = .ok (t, rest) ∧
      t.sizes = sizes ∧ t.perm.Perm (List.range sizes.length) ∧
      ∀ j (hj : j < t.perm.length), t.bitstreamToOriginal[t.perm[j]]? = some j := by
  refine ⟨_, C14_toc_permuted_entropy_roundtrip p choice pos numGroups numLfGroups sizes lehmer bits
    rest h8 hv hc hw, rfl, lehmerToPerm_perm _ _ hv, fun j hj => ?_⟩
  have hp := lehmerToPerm_perm sizes.length lehmer hv
  have hlen : (lehmerToPerm sizes.length lehmer).length = sizes.length := by
    simpa using hp.length_eq
  exact invPerm_spec _ (hp.nodup_iff.mpr List.nodup_range)
    (fun x hx => by rw [hlen]; exact List.mem_range.mp (hp.mem_iff.mp hx)) j hj

/-- the permutation `parseToc` reports is the one `jxl_coding::read_permutation` returns: the
decoder sequence above followed by `lehmerToPerm` is C04's `readPermutation` with `skip = 0` -/
theorem C14_toc_read_permutation_eq (d : Decoder) (st : DState) (size : Nat) (s : Bits) :
    readPermutation d st size 0 s =
      match readLehmerCode d st size s with
      | .error e => .error e
      | .ok ((lehmer, st2), s2) => .ok ((lehmerToPerm size lehmer, st2), s2) :=
  readPermutation_eq d st size s

/-! ## non-vacuity: a concrete prefix-coded plan -/

/-- 5 sections, Lehmer code `[3, 0, 2]` (permutation `[3, 0, 4, 1, 2]`): the items are `end = 3`
in context `get_context(5) = 3`, then `3` (context 0), `0` (context `get_context(3) = 2`),
`2` (context 0) -/
example : permItems 5 [3, 0, 2] = [.lit 3 3, .lit 0 3, .lit 2 0, .lit 0 2] ∧
    permCtxs 5 [3, 0, 2] = [3, 0, 2, 0] := by decide

/-- a plan for these items, of the shape `prefixPlan 8 (permItems 5 [3, 0, 2])` resolves to (written
out: the kernel evaluates `check` on the literal): 8 contexts,
one cluster each (simple cluster map, 3 bits per entry), hybrid-integer config `(4, 1, 1)`, prefix
codes: tokens 2 and 3 with one bit each in cluster 0, the zero-bit code of token 3 in cluster 3
(`end`), the zero-bit code of token 0 elsewhere -/
def demoTocPlan : EntropyPlan :=
  { numDist := 8, clusterMap := [0, 1, 2, 3, 4, 5, 6, 7], clusterNbits := 3,
    configs := List.replicate 8 ⟨4, 1, 1⟩,
    codes := [.lengths 4 [0, 0, 1, 1] .auto, .lengths 1 [0] .auto, .lengths 1 [0] .auto,
              .lengths 4 [0, 0, 0, 1] .auto, .lengths 1 [0] .auto, .lengths 1 [0] .auto,
              .lengths 1 [0] .auto, .lengths 1 [0] .auto] }

/-- all executable side conditions hold for it -/
example : demoTocPlan.numDist = 8 ∧ lehmerValid 5 [3, 0, 2] = true ∧
    demoTocPlan.check (permItems 5 [3, 0, 2]) = true := by
  refine ⟨by decide +kernel, by decide, by decide +kernel⟩

/-- … the TOC is writable (sizes from all four selectors, TOC starting at bit 3) … -/
example : (writeToc (fun p => p) 3 [10, 2000, 0, 5000000, 70000]
    (some (encodeTocPerm demoTocPlan 5 [3, 0, 2]))).isSome = true := by decide +kernel

/-- … and it reads back, by the theorem … -/
example (bits rest : Bits)
    (hw : writeToc (fun p => p) 3 [10, 2000, 0, 5000000, 70000]
      (some (encodeTocPerm demoTocPlan 5 [3, 0, 2])) = some bits) :
    parseToc entropyPermDecoder (3 + (bits ++ rest).length) 2 1 5 (bits ++ rest) =
      .ok ({ entryCount := 5, numLfGroups := 1, numGroups := 2, permuted := true,
             perm := [3, 0, 4, 1, 2], sizes := [10, 2000, 0, 5000000, 70000],
             base := (3 + bits.length) / 8 }, rest) :=
  C14_toc_permuted_entropy_roundtrip demoTocPlan _ 3 2 1 [10, 2000, 0, 5000000, 70000] [3, 0, 2]
    bits rest (by decide +kernel) (by decide) (by decide +kernel) hw

/-- the writer's side by plain evaluation: the coded permutation is 135 bits (histogram header and
4 coded values), the whole TOC 237 bits -/
example : (encodeTocPerm demoTocPlan 5 [3, 0, 2]).length = 135 ∧
    (writeToc (fun p => p) 3 [10, 2000, 0, 5000000, 70000]
      (some (encodeTocPerm demoTocPlan 5 [3, 0, 2]))).map List.length = some 237 := by
  refine ⟨by decide +kernel, by decide +kernel⟩

/-- error mapping: a truncated stream is `eof` -/
example : entropyPermDecoder 5 [] = .error .eof := by
  simp [entropyPermDecoder, Decoder.parse, parseFuel, parseDecoder, parseLzField, parseLz77, rbool,
    entropyErr]

end Jxl.Headers
