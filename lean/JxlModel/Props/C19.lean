import JxlModel.Proofs.Color
/-!
# C19 — colour descriptions round-trip through the synthesised ICC profile; transfer curves
invert and are monotone; converting to the encoding an image already has is a no-op

Model: `Model/Color.lean` (mirrors `icc/synthesize.rs`, `icc/parse.rs`, `convert.rs`, `tf*.rs`).

What is proved here and what is not
* **ICC structure** (all inputs): `C19_synth_structurally_valid`, `C19_parse_synth_enum_fields`
  (symbolic: every RGB/grey encoding incl. custom chromaticities and gamma, any quantised
  numbers, any float predicates), `C19_parse_synth_named_enums` (all 432 named combinations end
  to end with the parser's float part replaced by exact integer arithmetic on the numbers the
  implementation really writes), `C19_gamma_field_roundtrip` (every gamma a validated header can
  carry comes back within 1e-4 relative — in fact 2e-5), `C19_s15_quantisation_bound`,
  `C19_fixed_point_bytes_roundtrip`, `C19_same_encoding_is_noop`.
* **Transfer curves over ℝ** (the curves the f32 kernels approximate): inverse and monotone for
  the power-law family at full strength where true, the exact sliver where it is false is
  proved false (`C19_tf_srgb_encode_not_monotone`, `C19_tf_bt709_decode_not_monotone`), PQ inverse
  and encode-monotone in full; HLG decided at its breakpoints: the round trip is the identity
  exactly off a 9.8e-9 wide sliver above 1/12 (`C19_tf_inverse_hlg_iff`, proved false on the sliver,
  within 2e-8 everywhere), the encoder is proved *not* monotone (`C19_tf_hlg_encode_not_monotone`),
  the decoder monotone.
* **Not proved** (measured by the correspondence run, see `tools/props/c19.py`): anything about
  the `f32` kernels and the `f32` chromaticity arithmetic (Bradford adaptation, matrix inverse,
  `1e-4` matching on floats). The claim "custom xy within 1e-4" is *false* on the full field
  range (known finding `xy-precision:*`), so no theorem states it.
-/
namespace Jxl.Color
open Jxl.Color.Tf

/-! ## ICC synthesis: structure -/

/-- For every enum encoding naming a real colour space (RGB or grey; any white point, primaries,
intent; any transfer function except `Unknown` and the undefined inverted gamma 0), whatever the
quantised numbers: synthesis succeeds, the profile is `size ‖ header[4..128] ‖ tag table ‖ data`,
its size field equals its length (when below 4 GiB), every tag has a 4-byte signature and lies
4-aligned inside the file, the required tags of the colour space are present, and the three RGB
TRC tags share one copy of the curve. -/
theorem C19_synth_structurally_valid (e : Enc) (q : Quant) (hcs : e.cs = .rgb ∨ e.cs = .grey)
    (htf : e.tf ≠ .unknown) (hg : e.tf ≠ .gamma 0 true) :
    ∃ trc tags data bytes, trcData q e.tf = .ok trc ∧
      tags = layoutTags 0 (pieces e q trc) ∧ data = layoutData (pieces e q trc) ∧
      synth e q = .ok bytes ∧
      bytes = be32 (132 + 12 * tags.length + data.length) ++ (header e.cs e.ri).drop 4
        ++ tagTable tags ++ data ∧
      bytes.length = 132 + 12 * tags.length + data.length ∧
      (bytes.length < 4294967296 → u32At bytes 0 = bytes.length) ∧
      (∀ t ∈ tags, t.sig.length = 4 ∧ (t.off + (132 + 12 * tags.length)) % 4 = 0 ∧
        t.off + (132 + 12 * tags.length) + t.len ≤ bytes.length) ∧
      (∀ s ∈ requiredSigs e.cs, ∃ t ∈ tags, t.sig = s) ∧
      (e.cs = .rgb → ∃ o, ∀ s ∈ [ascii "rTRC", ascii "gTRC", ascii "bTRC"],
        ({ sig := s, off := o, len := trc.length } : Tag) ∈ tags) :=
  synth_structure e q hcs htf hg

/-- The four inputs `colour_encoding_to_icc` cannot synthesise (finding F5) are exactly the
model's panics: nothing else fails. -/
theorem C19_synth_panics_iff (e : Enc) (q : Quant) :
    (∃ p, synth e q = .error p) ↔
      (e.cs = .xyb ∨ e.cs = .unknown ∨ e.tf = .unknown ∨ e.tf = .gamma 0 true) := by
  constructor
  · rintro ⟨p, hp⟩
    by_contra hc
    have h1 : e.cs = .rgb ∨ e.cs = .grey := by
      cases h : e.cs <;> simp_all
    obtain ⟨_, _, _, bytes, _, _, _, hs, _⟩ :=
      synth_structure e q h1 (fun h => hc (by simp [h])) (fun h => hc (by simp [h]))
    rw [hs] at hp; cases hp
  · intro h
    unfold synth synthTags
    by_cases hx : e.cs = .xyb
    · exact ⟨.xyb, by simp [hx]⟩
    · rw [if_neg hx]
      cases htr : trcData q e.tf with
      | error p => exact ⟨p, rfl⟩
      | ok trc =>
        rcases h with h | h | h | h
        · exact absurd h hx
        · exact ⟨.csUnknown, by simp [h]⟩
        · rw [h] at htr; cases htr
        · rw [h] at htr; simp [trcData, gammaParam] at htr

/-! ## synthesis followed by recognition -/

/-- `parse_icc ∘ colour_encoding_to_icc`, every RGB / grey encoding (custom chromaticities and
gamma included), every choice of quantised numbers `q` (well-formed: nine `chad` entries, XYZ
triples, all `i32`), every instance of the float predicates `f` that accepts the numbers written:
the parser reads back exactly the colour space, the intent, the quantised `chad` / `wtpt` /
colorants (handed unchanged to the float part) and the transfer function of the curve that the
TRC decision logic recognises (`t`, see `C19_trc_named_roundtrip`, `C19_gamma_field_roundtrip`). -/
theorem C19_parse_synth_enum_fields (f : FloatOps) (e : Enc) (q : Quant) (trc : List Nat) (t : Trc)
    (hcs : e.cs = .rgb ∨ e.cs = .grey) (wf : q.WF)
    (htrc : trcData q e.tf = .ok trc) (hd : 4 ≤ trc.length)
    (ht : trcOfData q.pqLut q.hlgLut trc = some (.ok t))
    (hd50 : f.validXyz d50Xyz = true) (hchad : f.validChad q.chad = true)
    (hw : f.validXyz q.wtpt = true) (hr : f.validXyz q.rXYZ = true)
    (hg : f.validXyz q.gXYZ = true) (hb : f.validXyz q.bXYZ = true)
    (hL : 132 + 12 * (layoutTags 0 (pieces e q trc)).length + (layoutData (pieces e q trc)).length
      < 4294967296) :
    ∃ bytes, synth e q = .ok bytes ∧
      parseIcc f q.pqLut q.hlgLut bytes = .ok
        { cs := e.cs,
          wp := if e.cs = .rgb then f.whitePoint q.chad d50Xyz else f.whitePoint identityChad q.wtpt,
          prim := if e.cs = .rgb then f.primaries q.chad q.rXYZ q.gXYZ q.bXYZ else .srgb,
          tf := (recognisedTrc e t).toTf,
          ri := e.ri } :=
  parse_synth f e q trc t hcs wf htrc hd ht hd50 hchad hw hr hg hb hL

/-- The curve written for a named transfer function (BT.709, linear, sRGB, DCI, PQ, HLG) is
recognised as that transfer function (PQ/HLG: 4096-entry tables with different contents). -/
theorem C19_trc_named_roundtrip (e : Enc) (q : Quant) (htf : isNamedTf e.tf = true)
    (hpq : q.pqLut.length = 4096) (hhlg : q.hlgLut.length = 4096)
    (hne : q.hlgLut.flatMap be16 ≠ q.pqLut.flatMap be16) :
    ∃ trc t, trcData q e.tf = .ok trc ∧ 4 ≤ trc.length ∧
      trcOfData q.pqLut q.hlgLut trc = some (.ok t) ∧ (recognisedTrc e t).toTf = e.tf :=
  trc_named e q htf hpq hhlg hne

/-- All named enum combinations (RGB/grey × D65/E/DCI × sRGB/BT.2100/P3 × six named transfer
functions × four intents), end to end, on the quantised numbers the implementation writes for
them (`namedQuant`; tied to the code by the correspondence run) and with the parser's float part
in exact integer arithmetic (`ratOps`): the profile parses back to the same encoding (a grey
profile carries no primaries: sRGB is reported). -/
theorem C19_parse_synth_named_enums (e : Enc) (pqLut hlgLut : List Nat)
    (hcs : e.cs = .rgb ∨ e.cs = .grey) (hwp : isNamedWp e.wp = true)
    (hprim : isNamedPrim e.prim = true) (htf : isNamedTf e.tf = true)
    (hpq : pqLut.length = 4096) (hhlg : hlgLut.length = 4096)
    (hne : hlgLut.flatMap be16 ≠ pqLut.flatMap be16)
    (hL : ∀ trc, 132 + 12 * (layoutTags 0 (pieces e (namedQuant e pqLut hlgLut) trc)).length
      + (layoutData (pieces e (namedQuant e pqLut hlgLut) trc)).length < 4294967296) :
    ∃ bytes, synth e (namedQuant e pqLut hlgLut) = .ok bytes ∧
      parseIcc ratOps pqLut hlgLut bytes =
        .ok (if e.cs = .rgb then e else { e with prim := .srgb }) :=
  parse_synth_named e pqLut hlgLut hcs hwp hprim htf hpq hhlg hne hL

/-- Every gamma field a validated header can carry (`1e7/8192 ≤ g ≤ 1e7`, i.e. 1221…10⁷):
the s15Fixed16 parameter fits, is accepted by `from_gamma`, and the transfer function that
comes back has a decode exponent within 1e-4 relative of `1e7/g` (`closeToInvGamma`: linear,
DCI, plain gamma `g'` with `|g'·g − 1e14| ≤ 1e10`, or — for exponents above 429.4967 — the same
inverted `g` exactly). -/
theorem C19_gamma_field_roundtrip (g : Nat) (h1 : 1221 ≤ g) (h2 : g ≤ 10000000) :
    ∃ G, gammaParam g true = .ok G ∧ 65536 ≤ G ∧ G < 2147483648 ∧
      trcOfData [] [] (para 0 [G]) = (Trc.fromGamma (G : Int)).map .ok ∧
      ∃ t, Trc.fromGamma (G : Int) = some t ∧ closeToInvGamma g t.toTf := by
  obtain ⟨G, k1, k2, k3, k4⟩ := gamma_inverted_roundtrip g h1 h2
  exact ⟨G, k1, k2, k3, trc_gamma [] [] G k3, k4⟩

/-! ## fixed point -/

/-- s15Fixed16 rounding of a non-negative ratio `num/den` as used for every integer-derived
parameter: the stored integer `v` satisfies `|v/65536 − num/den| ≤ 2⁻¹⁷` (stated without
division: `|2·v·den − 2·65536·num| ≤ den`, strict on one side). -/
theorem C19_s15_quantisation_bound (num den : Nat) (hd : 0 < den) :
    2 * (s15OfRatio num den * den) ≤ 2 * (num * 65536) + den ∧
    2 * (num * 65536) < 2 * (s15OfRatio num den * den) + den + 2 :=
  s15OfRatio_bound num den hd

/-- Big-endian `u32` / `i32` byte encodings decode to the value written. -/
theorem C19_fixed_point_bytes_roundtrip :
    (∀ n : Nat, n < 4294967296 → ofBe (be32 n) = n) ∧
    (∀ v : Int, -2147483648 ≤ v → v < 2147483648 →
      ∀ pre rest : List Nat, i32At (pre ++ beI32 v ++ rest) pre.length = v) :=
  ⟨ofBe_be32, fun v h1 h2 pre rest => i32At_beI32 pre rest v pre.length rfl ⟨h1, h2⟩⟩

/-! ## no-op detection -/

/-- Converting to the encoding an image already has builds an empty op list (`is_noop`) and
running it returns every channel unchanged, for every described encoding (enum values of any
kind, XYB and unknown included, or an ICC profile) and every sample buffer. -/
theorem C19_same_encoding_is_noop {α : Type} (d : Described) (channels : List (List α)) :
    transformOps d d = some [] ∧
      ∀ ops, transformOps d d = some ops → runOps ops channels = channels := by
  have h : transformOps d d = some [] := by simp [transformOps, isEquivalent_refl]
  refine ⟨h, ?_⟩
  intro ops hops
  rw [h] at hops
  cases hops
  rfl

/-! ## transfer curves over ℝ

`gammaApply` mirrors `tf::apply_gamma`: samples `≤ 1e-7` (negative ones included) become 0. -/

/-- pure gamma (`γ = g/1e7 ∈ (0,1]`), encode then decode, on `x > 1e-7` -/
theorem C19_tf_inverse_gamma (γ x : ℝ) (hγ : 0 < γ) (hγ1 : γ ≤ 1) (hx : 1e-7 < x) :
    gammaDecode γ (gammaEncode γ x) = x :=
  gamma_inverse γ x hγ hγ1 hx

/-- … and below the flush threshold the result is 0, i.e. off by at most `1e-7` for `0 ≤ x`
(negative samples are clamped: known finding `tf-domain:gamma-negative-clamped`). -/
theorem C19_tf_gamma_flushed (γ x : ℝ) (hx : x ≤ 1e-7) : gammaDecode γ (gammaEncode γ x) = 0 :=
  gamma_clamped γ x hx

theorem C19_tf_monotone_gamma (γ : ℝ) (hγ : 0 < γ) :
    Monotone (gammaEncode γ) ∧ Monotone (gammaDecode γ) := by
  constructor
  · exact gammaApply_monotone γ hγ.le
  · unfold gammaDecode
    apply gammaApply_monotone
    rw [one_real]; positivity

theorem C19_tf_inverse_dci (x : ℝ) (hx : 1e-7 < x) : dciDecode (dciEncode x) = x :=
  dci_inverse x hx

theorem C19_tf_monotone_dci :
    Monotone (dciEncode : ℝ → ℝ) ∧ Monotone (dciDecode : ℝ → ℝ) :=
  ⟨dciEncode_monotone, dciDecode_monotone⟩

/-- BT.709, every real sample (negative ones take the linear piece both ways). The two pieces
with the rounded constants 1.099 / 0.099 / 0.018 / 4.5 do not meet — the encoder jumps *up* from
0.081 to 0.08124… at 0.018 — and the inverse still holds because
`0.018^0.45 > 0.18/1.099` (checked as `0.018^9 > (0.18/1.099)^20`). -/
theorem C19_tf_inverse_bt709 (x : ℝ) : bt709Decode (bt709Encode x) = x := bt709_inverse x

theorem C19_tf_monotone_bt709_encode : Monotone (bt709Encode : ℝ → ℝ) := bt709Encode_monotone

/-- `bt709_to_linear` is **not** monotone: `0.081 ↦ 0.018` but `0.0811 ↦` less than `0.018`
(the decoder's power piece starts below the end of its linear piece). Replayed on the real
kernel by the correspondence run (known finding `monotone:bt709-dec-breakpoint`). -/
theorem C19_tf_bt709_decode_not_monotone : ¬ Monotone (bt709Decode : ℝ → ℝ) :=
  bt709Decode_not_monotone

/-- Full statement (false, see above): `Monotone bt709Decode`. Proved: monotone on each piece. -/
theorem C19_tf_monotone_bt709_decode_partial :
    MonotoneOn (bt709Decode : ℝ → ℝ) (Set.Iic 0.081) ∧
    MonotoneOn (bt709Decode : ℝ → ℝ) (Set.Ioi 0.081) :=
  ⟨bt709Decode_monotoneOn_linear, bt709Decode_monotoneOn_power⟩

/-- sRGB, encode then decode, odd extension included. Full statement: for all `x`.
Missing: the sliver `0.0031308 < |x| < 0.00313081`. There the statement is *false* as an exact
identity: the encoder already uses its power piece but the result is still `≤ 0.04045`, so the
decoder answers with its linear piece (`((0.04045+0.055)/1.055)^2.4 ∈ (0.0031308, 0.00313081)`,
`srgb_gap_hi`); the error there is below 1e-8 but no bound is proved. -/
theorem C19_tf_inverse_srgb_partial (x : ℝ) (hx : |x| ≤ 0.0031308 ∨ 0.00313081 ≤ |x|) :
    srgbDecode (srgbEncode x) = x :=
  srgb_inverse_odd x hx

/-- the sRGB decoder is monotone on the whole line of non-negative arguments (and below 0 by its
linear piece): its power piece starts above the end of its linear piece -/
theorem C19_tf_monotone_srgb_decode : Monotone (srgbDecodePos : ℝ → ℝ) := srgbDecodePos_monotone

/-- The sRGB encoder with the constants of the standard is **not** monotone: just above the
breakpoint the power piece lies below `12.92 · 0.0031308` (by about 3e-8):
`f(0.003130801) < f(0.0031308)`. -/
theorem C19_tf_srgb_encode_not_monotone : ¬ Monotone (srgbEncodePos : ℝ → ℝ) :=
  srgbEncodePos_not_monotone

/-- Full statement (false, see above): `Monotone srgbEncodePos`. Proved: strictly monotone on
each piece. -/
theorem C19_tf_monotone_srgb_encode_partial :
    StrictMonoOn (srgbEncodePos : ℝ → ℝ) (Set.Iic 0.0031308) ∧
    StrictMonoOn (srgbEncodePos : ℝ → ℝ) (Set.Ioi 0.0031308) :=
  ⟨srgbEncodePos_strictMonoOn_linear, srgbEncodePos_strictMonoOn_power⟩

/-- PQ (ST 2084 with the exact rational constants): EOTF ∘ inverse EOTF on every positive
luminance. -/
theorem C19_tf_inverse_pq (y : ℝ) (hy : 0 < y) : pqDecodePos (pqEncodePos y) = y := pq_inverse y hy

/-- PQ inverse EOTF is monotone on the whole line. (Monotonicity of the EOTF `pqDecodePos` is
not proved; the real kernel is a rational approximation that is *not* monotone near black,
known finding `monotone:pq-dec-near-black`.) -/
theorem C19_tf_monotone_pq_encode : Monotone (pqEncodePos : ℝ → ℝ) := pqEncodePos_monotone

/-- HLG OETF / inverse OETF. Full statement: `hlgDecodePos (hlgEncodePos x) = x` for `x ≥ 0`.
Proved: the square-root piece `[0, 1/12]` unconditionally; the logarithmic piece under the
hypothesis that the encoded value exceeds the decoder's breakpoint 0.5. Missing: that hypothesis
for `x` just above `1/12` needs a numeric bound on `ln(1 − 0.28466892)` (the constants make the
pieces meet only up to ≈1e-8). Decided since: the hypothesis is *false* on a sliver above `1/12`,
see `C19_tf_hlg_log_piece_gt_half_iff`, `C19_tf_inverse_hlg_iff` and the section below. -/
theorem C19_tf_inverse_hlg_partial (x : ℝ) :
    (0 ≤ x → x ≤ 1 / 12 → hlgDecodePos (hlgEncodePos x) = x) ∧
    (1 / 12 < x → 0.5 < 0.17883277 * Real.log (12 * x - 0.28466892) + 0.5599107 →
      hlgDecodePos (hlgEncodePos x) = x) :=
  ⟨hlg_inverse_sqrt x, hlg_inverse_log x⟩

/-- Full statement: both HLG directions monotone on `[0, ∞)`. Proved: on each piece; the
direction of the (≈1e-8) jump at the breakpoints is missing (same numeric bound as above).
Decided since: the encoder jumps down (`C19_tf_hlg_encode_not_monotone`), the decoder up
(`C19_tf_monotone_hlg_decode`). -/
theorem C19_tf_monotone_hlg_partial :
    MonotoneOn (hlgEncodePos : ℝ → ℝ) (Set.Iic (1 / 12)) ∧
    MonotoneOn (hlgEncodePos : ℝ → ℝ) (Set.Ioi (1 / 12)) ∧
    MonotoneOn (hlgDecodePos : ℝ → ℝ) (Set.Icc 0 0.5) ∧
    MonotoneOn (hlgDecodePos : ℝ → ℝ) (Set.Ioi 0.5) :=
  ⟨hlgEncodePos_monotoneOn_sqrt, hlgEncodePos_monotoneOn_log, hlgDecodePos_monotoneOn_sq,
    hlgDecodePos_monotoneOn_exp⟩

/-! ### HLG: what the constants of `tf.rs` really do at the breakpoints

Decided numerically first (50-digit decimals), then proved. With `A = 0.17883277`,
`B = 0.28466892`, `C = 0.5599107`:
* the encoder's logarithmic piece just above `1/12` is `A·ln(1 − B) + C = 0.49999997047…`,
  **below** 0.5 — the encoder jumps *down* by 2.95e-8 at `1/12`, so the hypothesis of
  `C19_tf_inverse_hlg_partial` is **false** for `1/12 < x ≤ hlgGapEnd = (exp((0.5 − C)/A) + B)/12
  = 0.0833333431765…` (a sliver 9.8e-9 wide) and true beyond;
* the decoder's exponential piece just above 0.5 is `hlgGapEnd > 1/12` — the decoder jumps *up*.
Hence: the full statements "`hlgDecodePos (hlgEncodePos x) = x` for `x ≥ 0`" and "the encoder is
monotone on `[0, ∞)`" are both false and their negations are proved below with explicit
witnesses; the strongest true statements are proved instead (exact characterisation of where the
round trip is the identity, a `2e-8` bound everywhere, encoder monotone off the sliver, decoder
monotone on all of `[0, ∞)`). The numeric bounds are Taylor polynomials of `exp` of degree 11 at
rational points (`Real.exp_bound`), evaluated by `norm_num`.

These are statements about the real-valued curves with the decimal constants as written in the
source; the `f32` kernels (constants rounded to `f32`, `ln`/`exp` of libm) are measured by the
correspondence run, not proved. -/

/-- `exp((0.5 − 0.5599107)/0.17883277)` and the end of the sliver to ten digits. -/
theorem C19_tf_hlg_breakpoint_numerics :
    (0.71533119804 : ℝ) < Real.exp (-5991070 / 17883277) ∧
    Real.exp (-5991070 / 17883277) < (0.71533119816 : ℝ) ∧
    hlgGapEnd = (Real.exp ((0.5 - 0.5599107) / 0.17883277) + 0.28466892) / 12 ∧
    (1 / 12 : ℝ) < 0.08333334317 ∧ 0.08333334317 < hlgGapEnd ∧ hlgGapEnd < 0.08333334318 := by
  refine ⟨hlg_exp_enclosure.1, hlg_exp_enclosure.2, ?_, by norm_num, hlgGapEnd_bounds.1,
    hlgGapEnd_bounds.2⟩
  unfold hlgGapEnd
  norm_num

/-- The hypothesis left open in `C19_tf_inverse_hlg_partial`, decided: for `x > 1/12` the
logarithmic piece exceeds the decoder's breakpoint exactly when `x > hlgGapEnd`. In particular it
fails on `(1/12, 0.08333334317]` and holds on `[0.08333334318, ∞)`. -/
theorem C19_tf_hlg_log_piece_gt_half_iff (x : ℝ) (hx : 1 / 12 < x) :
    0.5 < 0.17883277 * Real.log (12 * x - 0.28466892) + 0.5599107 ↔ hlgGapEnd < x :=
  hlg_log_gt_iff x hx

/-- HLG OETF then inverse OETF on `x ≥ 0` is the identity **exactly** off the sliver
`(1/12, hlgGapEnd]`. -/
theorem C19_tf_inverse_hlg_iff (x : ℝ) (hx : 0 ≤ x) :
    hlgDecodePos (hlgEncodePos x) = x ↔ (x ≤ 1 / 12 ∨ hlgGapEnd < x) :=
  hlg_inverse_iff x hx

/-- the same with an explicit rational threshold: inverse for `0 ≤ x ≤ 1/12` and for
`x ≥ 0.08333334318` (`= 1/12 + 9.85e-9`) -/
theorem C19_tf_inverse_hlg_off_sliver (x : ℝ) (h0 : 0 ≤ x)
    (hx : x ≤ 1 / 12 ∨ 0.08333334318 ≤ x) : hlgDecodePos (hlgEncodePos x) = x :=
  hlg_inverse_of_ge x h0 hx

/-- Negation of the full statement `∀ x ≥ 0, hlgDecodePos (hlgEncodePos x) = x`, with a witness
interval: on all of `(1/12, 0.08333334317]` the encoder already uses its logarithmic piece but the
result is still `≤ 0.5`, so the decoder answers with its square piece. -/
theorem C19_tf_inverse_hlg_false_on_sliver (x : ℝ) (h1 : 1 / 12 < x) (h2 : x ≤ 0.08333334317) :
    hlgDecodePos (hlgEncodePos x) ≠ x :=
  hlg_inverse_false_on_gap x h1 h2

theorem C19_tf_inverse_hlg_not_exact :
    ¬ ∀ x : ℝ, 0 ≤ x → hlgDecodePos (hlgEncodePos x) = x := fun h =>
  hlg_inverse_false_on_gap 0.08333334 (by norm_num) (by norm_num) (h _ (by norm_num))

/-- … but the round trip is within `2e-8` of the identity for every `x ≥ 0` (sliver included),
and never above. -/
theorem C19_tf_inverse_hlg_within_2e8 (x : ℝ) (hx : 0 ≤ x) :
    hlgDecodePos (hlgEncodePos x) ≤ x ∧ x - 2e-8 ≤ hlgDecodePos (hlgEncodePos x) :=
  hlg_inverse_approx x hx

/-- the sign-symmetric kernels `linear_to_hlg` / `hlg_to_linear` (`copysign (f |x|) x`) on the
whole line, off the two slivers -/
theorem C19_tf_inverse_hlg_odd (x : ℝ) (hx : |x| ≤ 1 / 12 ∨ 0.08333334318 ≤ |x|) :
    hlgDecode (hlgEncode x) = x :=
  hlg_inverse_odd x hx

/-- `linear_to_hlg` with the constants of the code is **not** monotone on `[0, ∞)`:
`1/12 ↦ 0.5` but `0.08333334 ↦` less than `0.5` (the logarithmic piece starts 2.95e-8 below the
end of the square-root piece). -/
theorem C19_tf_hlg_encode_not_monotone : ¬ MonotoneOn (hlgEncodePos : ℝ → ℝ) (Set.Ici 0) :=
  hlgEncodePos_not_monotoneOn

/-- Full statement (false, see above): `MonotoneOn hlgEncodePos (Set.Ici 0)`. Proved: monotone
on the union of the two pieces once the sliver `(1/12, hlgGapEnd]` is left out (and with
`hlgGapEnd < 0.08333334318`, on `(-∞, 1/12] ∪ [0.08333334318, ∞)`). -/
theorem C19_tf_monotone_hlg_encode_off_sliver :
    MonotoneOn (hlgEncodePos : ℝ → ℝ) (Set.Iic (1 / 12) ∪ Set.Ioi hlgGapEnd) ∧
    MonotoneOn (hlgEncodePos : ℝ → ℝ) (Set.Iic (1 / 12) ∪ Set.Ici 0.08333334318) := by
  refine ⟨hlgEncodePos_monotoneOn_off_gap, hlgEncodePos_monotoneOn_off_gap.mono ?_⟩
  apply Set.union_subset_union_right
  intro y hy
  exact lt_of_lt_of_le hlgGapEnd_bounds.2 hy

/-- `hlg_to_linear` is monotone on all of `[0, ∞)`: its exponential piece starts above the end of
its square piece (`hlgGapEnd > 1/12`). -/
theorem C19_tf_monotone_hlg_decode : MonotoneOn (hlgDecodePos : ℝ → ℝ) (Set.Ici 0) :=
  hlgDecodePos_monotoneOn

/-- Where the sliver lies on the `f32` grid (spacing `2⁻²⁷` in `[1/16, 1/8)`): it contains exactly
one `f32` value, `11184811·2⁻²⁷ = 0x3DAAAAAB`, which is the rounded `1.0 / 12.0` the code compares
with — so the kernel sends it to the square-root piece (unlike the real curve with the exact
`1/12`) — and the next `f32`, `11184812·2⁻²⁷`, is already beyond `hlgGapEnd` (by 9e-11). This is
why the correspondence run sees no HLG inversion on the real kernels. (A fact about the real
curve at these two rationals; nothing here is a statement about `f32` arithmetic.) -/
theorem C19_tf_hlg_sliver_on_f32_grid :
    (11184810 : ℝ) / 2 ^ 27 < 1 / 12 ∧ (1 / 12 : ℝ) < 11184811 / 2 ^ 27 ∧
    (11184811 : ℝ) / 2 ^ 27 < hlgGapEnd ∧ hlgGapEnd < 11184812 / 2 ^ 27 := by
  refine ⟨by norm_num, by norm_num, lt_trans (by norm_num) hlgGapEnd_bounds.1,
    lt_trans hlgGapEnd_bounds.2 (by norm_num)⟩

/-! ## non-vacuity -/

/-- a concrete encoding (Display-P3-like custom primaries would do as well; this one is sRGB)
and the numbers really written for it meet every hypothesis of the structural theorems, the
synthesised profile is 572 bytes long as in the real crate, and it parses back. -/
def exEnc : Enc := { cs := .rgb, wp := .d65, prim := .srgb, tf := .srgb, ri := .relative }

example : (namedQuant exEnc [] []).WF := namedQuant_wf exEnc [] []

/-- the bytes the model synthesises for `exEnc` -/
def exBytes : List Nat := (synth exEnc (namedQuant exEnc [] [])).toOption.getD []

example : synth exEnc (namedQuant exEnc [] []) = .ok exBytes ∧ exBytes.length = 572 ∧
    parseIcc ratOps [] [] exBytes = .ok exEnc := by decide +kernel

example : 132 + 12 * (layoutTags 0 (pieces exEnc (namedQuant exEnc [] []) (para 3 srgbParams))).length
    + (layoutData (pieces exEnc (namedQuant exEnc [] []) (para 3 srgbParams))).length < 4294967296 := by
  decide +kernel

/-- a custom grey encoding with gamma: the symbolic parts of the theorems instantiated -/
def exGrey : Enc :=
  { cs := .grey, wp := (.custom ⟨345700, 358500⟩), prim := .srgb, tf := (.gamma 4545455 true),
    ri := .perceptual }

def exGreyQuant : Quant :=
  { chad := [], wtpt := [63190, 65536, 54061], rXYZ := [], gXYZ := [], bXYZ := [], pqLut := [],
    hlgLut := [] }

def exGreyBytes : List Nat := (synth exGrey exGreyQuant).toOption.getD []

example : synth exGrey exGreyQuant = .ok exGreyBytes ∧ u32At exGreyBytes 0 = exGreyBytes.length ∧
    exGreyBytes.length % 4 = 0 ∧ 128 < exGreyBytes.length := by decide +kernel

example : closeToInvGamma 4545455 (.gamma 21999969 false) := by unfold closeToInvGamma; decide
example : gammaParam 4545455 true = .ok 144179 := by decide
example : (1e-7 : ℝ) < 0.5 ∧ (0 : ℝ) < 0.4545455 ∧ (0.4545455 : ℝ) ≤ 1 := by norm_num
example : |(-0.5 : ℝ)| ≤ 0.0031308 ∨ 0.00313081 ≤ |(-0.5 : ℝ)| := by
  right; rw [abs_of_neg (by norm_num)]; norm_num
/-- HLG: points on each side of the sliver and inside it meet the hypotheses -/
example : (0 : ℝ) ≤ 0.05 ∧ ((0.05 : ℝ) ≤ 1 / 12 ∨ (0.08333334318 : ℝ) ≤ 0.05) := by
  refine ⟨by norm_num, Or.inl (by norm_num)⟩
example : (0 : ℝ) ≤ 0.5 ∧ ((0.5 : ℝ) ≤ 1 / 12 ∨ (0.08333334318 : ℝ) ≤ 0.5) := by
  refine ⟨by norm_num, Or.inr (by norm_num)⟩
example : (1 / 12 : ℝ) < 0.08333334 ∧ (0.08333334 : ℝ) ≤ 0.08333334317 := by
  constructor <;> norm_num
example : |(-0.5 : ℝ)| ≤ 1 / 12 ∨ 0.08333334318 ≤ |(-0.5 : ℝ)| := by
  right; rw [abs_of_neg (by norm_num)]; norm_num
example : transformOps (.enum exEnc) (.enum exEnc) = some [] := by decide
example : isEquivalent (.enum exEnc) (.enum { exEnc with tf := .linear }) = false := by decide

end Jxl.Color
