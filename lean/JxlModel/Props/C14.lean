import JxlModel.Proofs.Bundle
import JxlModel.Proofs.Headers
import JxlModel.Proofs.F16
import JxlModel.Model.Headers
import JxlModel.Gen.Headers
/-!
# C14 — image header, frame header and table of contents are reported exactly as encoded,
and parsing stops at exactly the bit the writer stopped at

* `C14_bundle_roundtrip` is ONE theorem over every header description (`Bundle`), every context,
  every canonical value, every selector choice of the writer and every continuation of the stream.
  It is instantiated below at the pinned descriptions of all `define_bundle!` structs, at the
  hand-modelled parsers and at the image header / frame header / TOC.
* `C14_generated_matches_pinned` ties the descriptions to the current Rust source:
  `tools/translate.py` regenerates `Gen/Headers.lean` on every run and the kernel re-checks that it
  equals the pinned descriptions the executable model (and the differential run) is built from.
-/
namespace Jxl.Headers
open Jxl Jxl.Bundle

/-! ## the tie to the source -/

/-- every `define_bundle!` description regenerated from the current source equals the pinned one -/
theorem C14_generated_matches_pinned : Gen.allBundles = Pinned.allBundles := rfl

/-- enum discriminants, `TryFrom<u32>` domains, float tables, the primitive reads (incl. every
`U32` distribution) and the source hashes of all hand-modelled functions are the pinned ones -/
theorem C14_generated_tables_match_pinned :
    Gen.enums = Pinned.enums ∧ Gen.tryFrom = Pinned.tryFrom ∧ Gen.floatConsts = Pinned.floatConsts ∧
    Gen.handPrims = Pinned.handPrims ∧ Gen.handHashes = Pinned.handHashes ∧
    Gen.helperHashes = Pinned.helperHashes := ⟨rfl, rfl, rfl, rfl, rfl, rfl⟩

/-- what the hand-written model assumes about the hand-written Rust parsers is what the
translator extracts: the primitive reads in source order, the enum domains, the float tables,
and `Customxy` (needed before the generated file) -/
theorem C14_hand_model_matches_source :
    (Parts.expectedPrims.all fun kp => Gen.handPrims.contains kp) = true ∧
    Gen.tryFrom = Parts.expectedTryFrom ∧ Gen.floatConsts = Parts.expectedFloatConsts ∧
    Gen.Customxy = Parts.customxyFields := by
  refine ⟨?_, rfl, rfl, rfl⟩
  decide

/-! ## primitives -/

/-- `U32(d0, d1, d2, d3)`: whichever of the four selectors the writer picks (any that can
represent the value), the reader returns the value and the untouched rest -/
theorem C14_u32_all_selectors (d0 d1 d2 d3 : Dist) (k v : Nat) (rest : Bits) (hk : k < 4)
    (hw : (selDist d0 d1 d2 d3 k).canWrite v = true) :
    readU32 d0 d1 d2 d3 (writeU32With d0 d1 d2 d3 k v ++ rest) = .ok (v, rest) :=
  readU32_writeU32With d0 d1 d2 d3 k v rest hk hw

example : (selDist (.const 0) (.bits 1 4) (.bits 9 6) (.bits 41 8) 3).canWrite 41 = true := by decide
example : (selDist (.bits 1 9) (.bits 1 13) (.bits 1 18) (.bits 1 30) 3).canWrite (2 ^ 30) = true := by decide

/-- `U64`: all forms — selector 0, 1, 2, selector 3 with 0..6 continuation groups (form `3+g`) and
the longest form with the 4-bit tail (form 10, reaches 2^64 − 1) -/
theorem C14_u64_all_forms (form v : Nat) (rest : Bits) (h : u64CanWrite form v = true) :
    readU64 (writeU64With form v ++ rest) = .ok (v, rest) :=
  readU64_writeU64With form v rest h

example : u64CanWrite 10 (2 ^ 64 - 1) = true := by decide
example : (writeU64With 10 (2 ^ 64 - 1)).length = 73 := by decide
example : u64CanWrite 9 0 = true ∧ u64CanWrite 3 4095 = true ∧ u64CanWrite 5 (2 ^ 28 - 1) = true := by decide

/-- `F16`: every 16-bit pattern that is not NaN/Infinity is read back as the same pattern
(the value of the reported `f32`: `C14_f16_value_exact`) -/
theorem C14_f16_bits_roundtrip (b : Nat) (rest : Bits) (sc : Env) (total : Nat) (h : f16Valid b = true) :
    parseTy total sc .f16 (toBits 16 b ++ rest) = .ok (.f16 b, rest) := by
  have hlt : b < 2 ^ 16 := by simp [f16Valid] at h; exact h.1
  simp [parseTy, rd_toBits 16 b rest hlt, h]

/-- NaN and Infinity patterns are rejected (`InvalidFloat`) -/
theorem C14_f16_rejects_nonfinite (b : Nat) (rest : Bits) (sc : Env) (total : Nat) (hb : b < 2 ^ 16)
    (h : f16Valid b = false) :
    parseTy total sc .f16 (toBits 16 b ++ rest) = .error (.invalid "float") := by
  simp [parseTy, rd_toBits 16 b rest hb, h]

example : f16Valid 0x0001 = true ∧ f16Valid 0x83ff = true ∧ f16Valid 0x7bff = true ∧
    f16Valid 0x7c00 = false ∧ f16Valid 0xfe01 = false := by decide

/-- `F16` → `f32`, the value: for every finite binary16 pattern `b`, the binary32 pattern the
decoder reports (`f16ToF32Bits`, the integer transcription of `read_f16_as_f32`) denotes the same
real number. Both sides are read by the IEEE-754 field definition as integer multiples of a power
of two — `f16Scaled b · 2^-24` and `f32Scaled x · 2^-149` — so equality of the numbers is
`f32Scaled x = f16Scaled b · 2^125`. The result is a finite pattern (biased exponent ≠ 255) and
fits 32 bits. Zero keeps its sign, subnormals (`m·2^-24`) become normal binary32 numbers. -/
theorem C14_f16_value_exact (b : Nat) (h : f16Valid b = true) :
    f32Scaled (f16ToF32Bits b) = f16Scaled b * 2 ^ 125 ∧
      f16ToF32Bits b / 0x800000 % 256 ≠ 255 ∧ f16ToF32Bits b < 2 ^ 32 :=
  f16_value_exact b h

-- smallest subnormal 2^-24, largest negative subnormal, 1.0, −0, most negative finite value
example : f16ToF32Bits 0x0001 = 0x33800000 ∧ f32Scaled 0x33800000 = 2 ^ 125 ∧ f16Scaled 0x0001 = 1 := by decide
example : f16ToF32Bits 0x83ff = 0xb87fc000 ∧ f16Scaled 0x83ff = -1023 ∧
    f16ToF32Bits 0x3c00 = 0x3f800000 ∧ f16Scaled 0x3c00 = 2 ^ 24 ∧
    f16ToF32Bits 0x8000 = 0x80000000 ∧ f16ToF32Bits 0xfbff = 0xc77fe000 ∧
    f16Scaled 0xfbff = -(65504 * 2 ^ 24) := by decide

/-- the conversion loses nothing: two finite binary16 patterns with the same reported binary32
pattern are the same pattern (in particular `+0 = 0x0000 ↦ 0x00000000` and
`−0 = 0x8000 ↦ 0x80000000` stay apart, the only two patterns with equal value) -/
theorem C14_f16_conversion_injective_up_to_zero (a b : Nat) (ha : f16Valid a = true)
    (hb : f16Valid b = true) (hab : f16ToF32Bits a = f16ToF32Bits b) : a = b :=
  f16ToF32Bits_injective a b ha hb hab

example : f16Valid 0x0000 = true ∧ f16Valid 0x8000 = true ∧ f16ToF32Bits 0x0000 ≠ f16ToF32Bits 0x8000 ∧
    f16Scaled 0x0000 = f16Scaled 0x8000 := by decide

/-- … and on *values*: two finite binary16 patterns whose reported binary32 patterns denote the
same real number are the same pattern, or are the two zeros (`0x0000`, `0x8000`) -/
theorem C14_f16_value_injective_up_to_zero (a b : Nat) (ha : f16Valid a = true)
    (hb : f16Valid b = true) (hab : f32Scaled (f16ToF32Bits a) = f32Scaled (f16ToF32Bits b)) :
    a = b ∨ (a % 32768 = 0 ∧ b % 32768 = 0) :=
  f16_value_injective_up_to_zero a b ha hb hab

example : f32Scaled (f16ToF32Bits 0x0000) = f32Scaled (f16ToF32Bits 0x8000) ∧ 0x8000 % 32768 = 0 := by decide

/-- `read_enum`: a discriminant of the enum's domain is read back whichever selector wrote it;
anything outside the domain is `InvalidEnum` -/
theorem C14_enum_roundtrip (valid : List Nat) (k v : Nat) (rest : Bits) (sc : Env) (total : Nat)
    (hk : k < 4) (hw : (selDist enumD0 enumD1 enumD2 enumD3 k).canWrite v = true) :
    parseTy total sc (.enum valid) (writeU32With enumD0 enumD1 enumD2 enumD3 k v ++ rest) =
      if valid.contains v then .ok (.nat v, rest) else .error (.invalid "enum") := by
  simp only [FieldTy.enum, parseTy, readU32_writeU32With _ _ _ _ k v rest hk hw]

/-- `unpack_signed` and the packing used by the writer are mutually inverse -/
theorem C14_unpack_signed_inv : (∀ i : Int, unpackSigned (packSigned i) = i) ∧
    (∀ x : Nat, packSigned (unpackSigned x) = x) := ⟨unpack_pack, pack_unpack⟩

example : unpackSigned 0 = 0 ∧ unpackSigned 1 = -1 ∧ unpackSigned 2 = 1 ∧
    unpackSigned (2 ^ 32 - 1) = -(2 ^ 31) := by decide

/-! ## the generic round trip -/

/-- **One theorem over all descriptions.** For every bundle description `desc`, context, value
`env` that is canonical for it (lists exactly its fields; fields whose condition is false hold
their default; nested values likewise), every selector-choice function and every continuation
`rest` of the stream: if the writer produces `bits` (i.e. every present field is a value of its
type), then parsing `bits ++ rest` from the same position yields exactly `env` and leaves exactly
`rest`. -/
theorem C14_bundle_roundtrip (desc : Bundle) (ctx env : Env) (choice : Nat → Nat) (pos : Nat)
    (bits rest : Bits) (hc : Canonical desc ctx env) (hw : writeAt desc choice ctx pos env = some bits) :
    parseAt desc ctx pos (bits ++ rest) = .ok (env, rest) := by
  have := parseFields_writeFields choice desc ctx [] pos env bits rest
    (pos + (bits ++ rest).length) hc hw (by simp [List.length_append]; omega)
  simpa [parseAt] using this

/-- Parsing stops at exactly the bit the writer stopped at: the number of bits consumed is the
number of bits written, whatever follows in the stream. -/
theorem C14_parse_stops_at_writer_bit (desc : Bundle) (ctx env : Env) (choice : Nat → Nat) (pos : Nat)
    (bits rest : Bits) (hc : Canonical desc ctx env) (hw : writeAt desc choice ctx pos env = some bits) :
    ∃ env' rest', parseAt desc ctx pos (bits ++ rest) = .ok (env', rest') ∧ rest' = rest ∧
      (bits ++ rest).length - rest'.length = bits.length :=
  ⟨env, rest, C14_bundle_roundtrip desc ctx env choice pos bits rest hc hw, rfl, by simp⟩

/-- the round trip for a single field type (used for the hand-written leaf parsers) -/
theorem C14_type_roundtrip (t : FieldTy) (sc : Env) (v : Val) (choice : Nat → Nat) (pos : Nat)
    (bits rest : Bits) (hc : canonicalTy sc t v = true) (hw : writeTy choice sc t pos v = some bits) :
    parseTy (pos + (bits ++ rest).length) sc t (bits ++ rest) = .ok (v, rest) :=
  parseTy_writeTy choice t sc pos v bits rest _ hc hw (by simp [List.length_append]; omega)

/-- image header: what `writeImageHeader` wrote, `parseImageHeader` reports, and it stops there -/
theorem C14_image_header_roundtrip (img : Env) (choice : Nat → Nat) (bits rest : Bits)
    (hc : Canonical imageHeaderDesc [] img) (hw : writeImageHeader choice img = some bits) :
    parseImageHeader (bits ++ rest) = .ok (img, rest) :=
  C14_bundle_roundtrip imageHeaderDesc [] img choice 0 bits rest hc hw

/-- frame header, for every image header it is parsed against -/
theorem C14_frame_header_roundtrip (img fh : Env) (choice : Nat → Nat) (bits rest : Bits)
    (hc : Canonical Pinned.FrameHeader (frameCtx img) fh) (hw : writeFrameHeader choice img fh = some bits) :
    parseFrameHeader img (bits ++ rest) = .ok (fh, rest) :=
  C14_bundle_roundtrip Pinned.FrameHeader (frameCtx img) fh choice 0 bits rest hc hw

/-- table of contents without permutation (flag, padding, sizes, padding), at any bit position -/
theorem C14_toc_plain_roundtrip (n : Nat) (t : Env) (choice : Nat → Nat) (pos : Nat) (bits rest : Bits)
    (hc : Canonical tocPlain [("entry_count", .nat n)] t)
    (hw : writeAt tocPlain choice [("entry_count", .nat n)] pos t = some bits) :
    parseAt tocPlain [("entry_count", .nat n)] pos (bits ++ rest) = .ok (t, rest) :=
  C14_bundle_roundtrip tocPlain _ t choice pos bits rest hc hw

/-- table of contents **with** permutation, end to end through `writeToc` / `parseToc` (`Toc::parse`):
flag, entropy-coded Lehmer code, padding, sizes, padding. The entropy coder is a parameter: `enc` is
any bit string that the decoder `dec` (for `entry_count = sizes.length`) reads back as `lehmer`
leaving what follows it untouched — that hypothesis is exactly C04's round-trip theorem for the
stream written by `encodePermutation`. Then for every selector choice, bit position and
continuation `rest`, the parser reports the sizes as written, the permutation of that Lehmer code,
the byte offset of the first section, and stops at the writer's last bit. (`writeToc` succeeds only
if `entry_count ≤ 65536` and every size is a value of the size distribution.) -/
theorem C14_toc_permuted_roundtrip (dec : PermDecoder) (choice : Nat → Nat)
    (pos numGroups numLfGroups : Nat) (sizes lehmer : List Nat) (enc bits rest : Bits)
    (hdec : ∀ r, dec sizes.length (enc ++ r) = .ok (lehmer, r))
    (hw : writeToc choice pos sizes (some enc) = some bits) :
    parseToc dec (pos + (bits ++ rest).length) numGroups numLfGroups sizes.length (bits ++ rest) =
      .ok ({ entryCount := sizes.length, numLfGroups := numLfGroups, numGroups := numGroups,
             permuted := true, perm := lehmerToPerm sizes.length lehmer, sizes := sizes,
             base := (pos + bits.length) / 8 }, rest) :=
  parseToc_writeToc_permuted dec choice pos numGroups numLfGroups sizes lehmer enc bits rest hdec hw

-- the coder hypothesis is satisfiable: the hand-made trivial code (`trivialPermDecoder`, the one the
-- differential run uses) on the stream `trivialPermWrite 5 [0, 1, 2, 3] [3, 0, 2]`, 5 sections with
-- sizes from all four selectors, TOC starting at bit 3
example : trivialPermWrite 5 [0, 1, 2, 3] [3, 0, 2] = some demoPermBits ∧
    (∀ r, trivialPermDecoder 5 (demoPermBits ++ r) = .ok ([3, 0, 2], r)) ∧
    lehmerValid 5 [3, 0, 2] = true :=
  ⟨demoPermBits_eq, trivialPermDecoder_demo, by decide⟩

example : (writeToc (fun p => p) 3 [10, 2000, 0, 5000000, 70000] (some demoPermBits)).isSome = true := by
  decide +kernel

example (bits rest : Bits)
    (hw : writeToc (fun p => p) 3 [10, 2000, 0, 5000000, 70000] (some demoPermBits) = some bits) :
    parseToc trivialPermDecoder (3 + (bits ++ rest).length) 2 1 5 (bits ++ rest) =
      .ok ({ entryCount := 5, numLfGroups := 1, numGroups := 2, permuted := true,
             perm := [3, 0, 4, 1, 2], sizes := [10, 2000, 0, 5000000, 70000],
             base := (3 + bits.length) / 8 }, rest) :=
  C14_toc_permuted_roundtrip trivialPermDecoder _ 3 2 1 [10, 2000, 0, 5000000, 70000] [3, 0, 2]
    demoPermBits bits rest trivialPermDecoder_demo hw

/-! ## derived values -/

/-- `SizeHeader` (and `PreviewHeader`, which shares `compute_default_width`): which size fields
are coded, and what the others decode to — `height = 8·h_div8` in the div8 form,
`width = 8·w_div8` for ratio 0 and the format's ratio table (1:1, 12:10, 4:3, 3:2, 16:9, 5:4, 2:1,
integer division) of the height otherwise, for every height up to 2^30 -/
theorem C14_size_header_dims (d : Bool) (a h r b : Nat) (hr : r < 8) (hh : h ≤ 2 ^ 30) (hb : b ≤ 2 ^ 20) :
    -- conditions: h_div8 iff div8; height iff ¬div8; w_div8 iff div8 ∧ ratio = 0; width iff ¬div8 ∧ ratio = 0
    (evalBool [("div8", .bool d)] (fieldCond Pinned.SizeHeader 1) = some d ∧
     evalBool [("div8", .bool d), ("h_div8", .nat a)] (fieldCond Pinned.SizeHeader 2) = some (!d) ∧
     evalBool (sizeScope d a h r b) (fieldCond Pinned.SizeHeader 4) = some (d && r == 0) ∧
     evalBool (sizeScope d a h r b) (fieldCond Pinned.SizeHeader 5) = some (!d && r == 0)) ∧
    -- values of the fields that are not coded
    eval [("div8", .bool d), ("h_div8", .nat a)] (fieldDefault Pinned.SizeHeader 2) = some (.nat (8 * a)) ∧
    eval (sizeScope d a h r b) (fieldDefault Pinned.SizeHeader 5) = some (.nat (specDefaultWidth r b h)) ∧
    -- the preview size uses the very same expressions
    fieldDefault Pinned.PreviewHeader 5 = fieldDefault Pinned.SizeHeader 5 ∧
    fieldDefault Pinned.PreviewHeader 2 = fieldDefault Pinned.SizeHeader 2 :=
  ⟨sizeHeader_conds d a h r b, sizeHeader_height_default d a, sizeHeader_width_default d a h r b hr hh hb, rfl, rfl⟩

example : specDefaultWidth 5 0 1080 = 1920 ∧ specDefaultWidth 3 0 768 = 1024 ∧ specDefaultWidth 0 32 7 = 256 ∧
    specDefaultWidth 7 0 (2 ^ 30) = 2 ^ 31 := by decide

/-- end to end through writer and parser, exhaustively for the div8 forms: every `h_div8`,
every ratio (with `w_div8` where it is coded): the parsed size is (8·w_div8 or the ratio of the
height, 8·h_div8) -/
example : (List.range 32).all (fun a => (List.range 8).all fun r => [1, 17, 32].all fun b =>
    match canon Pinned.SizeHeader [] [("div8", .bool true), ("h_div8", .nat (a + 1)), ("ratio", .nat r), ("w_div8", .nat b)] with
    | some e =>
      match write Pinned.SizeHeader (fun p => p) [] e with
      | some bits =>
        match parse Pinned.SizeHeader [] (bits ++ [true, false]) with
        | .ok (e', rest) => rest == [true, false] &&
            (Val.record e').get "height" == .nat (8 * (a + 1)) &&
            (Val.record e').get "width" == .nat (specDefaultWidth r b (8 * (a + 1)))
        | .error _ => false
      | none => false
    | none => false) = true := by decide +kernel

/-- `width()/height()`: the sides are swapped exactly for orientations 5..8 -/
theorem C14_oriented_dims (o w h : Nat) :
    (5 ≤ o → orientedDims o w h = (h, w)) ∧ (o < 5 → orientedDims o w h = (w, h)) :=
  orientedDims_swap o w h

/-- TOC: section offsets (bitstream order) are the prefix sums of the sizes, starting at the end
of the TOC -/
theorem C14_toc_offsets (t : TocVal) :
    t.offsets.length = t.sizes.length ∧
    ∀ i, i < t.sizes.length → t.offsets.getD i 0 = t.base + (t.sizes.take i).sum :=
  ⟨prefixSums_length _ _, fun i hi => prefixSums_getD t.sizes t.base i hi⟩

/-- TOC: a Lehmer code accepted by `read_permutation` decodes to a permutation `perm` of the
sections, and `bitstream_to_original` is its inverse: the section with original index `j` sits in
bitstream slot `perm[j]` (`group_index_bitstream_order`), and slot `perm[j]` maps back to `j` -/
theorem C14_toc_permutation_inverse (size : Nat) (lehmer : List Nat) (hv : lehmerValid size lehmer = true) :
    let perm := lehmerToPerm size lehmer
    perm.Perm (List.range size) ∧
    ∀ j (hj : j < perm.length), (invPerm perm)[perm[j]]? = some j := by
  intro perm
  have hp : perm.Perm (List.range size) := lehmerToPerm_perm size lehmer hv
  refine ⟨hp, fun j hj => ?_⟩
  have hlen : perm.length = size := by simpa using hp.length_eq
  exact invPerm_spec perm (hp.nodup_iff.mpr List.nodup_range)
    (fun x hx => by rw [hlen]; exact List.mem_range.mp (hp.mem_iff.mp hx)) j hj

example : lehmerValid 5 [3, 0, 2] = true ∧ lehmerToPerm 5 [3, 0, 2] = [3, 0, 4, 1, 2] ∧
    invPerm [3, 0, 4, 1, 2] = [1, 3, 4, 0, 2] := by decide

/-- `C14_toc_permuted_roundtrip` and `C14_toc_permutation_inverse` together: when the Lehmer code
is one `read_permutation` accepts, the order the parser reports for the written TOC is a
permutation of the sections and `bitstream_to_original` is its inverse -/
theorem C14_toc_permuted_order (dec : PermDecoder) (choice : Nat → Nat)
    (pos numGroups numLfGroups : Nat) (sizes lehmer : List Nat) (enc bits rest : Bits)
    (hdec : ∀ r, dec sizes.length (enc ++ r) = .ok (lehmer, r))
    (hw : writeToc choice pos sizes (some enc) = some bits)
    (hv : lehmerValid sizes.length lehmer = true) :
    ∃ t, parseToc dec (pos + (bits ++ rest).length) numGroups numLfGroups sizes.length (bits ++ rest) =
        .ok (t, rest) ∧ t.sizes = sizes ∧ t.perm.Perm (List.range sizes.length) ∧
      ∀ j (hj : j < t.perm.length), t.bitstreamToOriginal[t.perm[j]]? = some j :=
  ⟨_, C14_toc_permuted_roundtrip dec choice pos numGroups numLfGroups sizes lehmer enc bits rest hdec hw,
    rfl, (C14_toc_permutation_inverse sizes.length lehmer hv).1,
    (C14_toc_permutation_inverse sizes.length lehmer hv).2⟩

/-! ## a deviation of the code's description from the format

Everything above is about the descriptions extracted from the code. Whether a description is the
one the *format* defines is a matter of reading the standard; one such reading fails: -/

/-- `PreviewHeader` as the format defines it (`Spec.previewHeader`: `w_div8`/`width` only when
`ratio == 0`, the shape of `SizeHeader`) **is** the description extracted from the code — since the
repair of finding `c14:preview-ratio` (before it, the code read a `width` that a conformant writer
never wrote for `ratio != 0`: the 14-bit string "not div8, height 100, ratio 1:1" ran into EOF). -/
theorem C14_preview_header_matches_format : Spec.previewHeader = Pinned.PreviewHeader := by
  rfl

/-- the former witness now parses as the format says: preview 100×100, nothing left over -/
theorem C14_preview_header_ratio_witness :
    let bits : Bits := [false] ++ toBits 2 1 ++ toBits 8 35 ++ toBits 3 1
    (match parse Pinned.PreviewHeader [] bits with
      | .ok (e, r) => r.isEmpty && (Val.record e).get "height" == .nat 100 && (Val.record e).get "width" == .nat 100
      | .error _ => false) = true := by
  decide +kernel

/-! ## what is not proved here (partial scope)

* **F16 → f32.** Proved on the model: `C14_f16_value_exact` (the binary32 pattern `f16ToF32Bits b`
  denotes the same real number as the binary16 pattern `b`, is finite and fits 32 bits) and
  `C14_f16_conversion_injective_up_to_zero` / `C14_f16_value_injective_up_to_zero`.
  Not proved: that `f16ToF32Bits` *is* `read_f16_as_f32`. The normal and zero branches of the Rust are integer bit operations
  transcribed one to one; the subnormal branch is `f32` arithmetic
  (`(1.0 / 16384.0) * (mantissa as f32 / 1024.0)`), argued exact on paper in the doc comment of
  `f16ToF32Bits` (no formal model of binary32 rounding here). Tie: all 2^16 patterns are run
  through the real conversion and the model on every check.
* **Permuted TOC.** `C14_toc_permuted_roundtrip` / `C14_toc_permuted_order` cover `permuted = true`
  end to end through `writeToc` / `parseToc` *relative to* the entropy coder: the hypothesis
  `∀ r, dec n (enc ++ r) = ok (lehmer, r)` is C04's round-trip theorem and is not discharged here
  for the real ANS / prefix decoder (only for the hand-made trivial code on a concrete stream, see
  the `example`s). `parseToc` is parameterised by the decoder for that reason. The differential
  run covers permuted TOCs written with the trivial code.
* **Hand-written parsers** are hand-modelled descriptions; their tie to the source is the
  extracted primitive-read sequences / distributions / domains / hashes
  (`C14_hand_model_matches_source`) and the differential run, not a translation.
* **Derived frame quantities** (`frameDerived`: sample sizes, group counts, keyframe flags) and the
  report lines are definitions compared with the accessors of the real structs by execution. -/

/-! ## non-vacuity: every description has canonical, writable values with its optional parts present

`witness desc ctx raw k`: the canonical completion of `raw` is `Canonical`, the writer succeeds on
it, and `k` of the top-level fields are present (condition true). Evaluated by the kernel. -/

section Witnesses
set_option maxRecDepth 100000

def rawMeta : Env := [
  ("all_default", .bool false), ("extra_fields", .bool true), ("orientation", .nat 8),
  ("have_intr_size", .bool true),
  ("intrinsic_size", .record [("div8", .bool false), ("height", .nat 100), ("ratio", .nat 3)]),
  ("have_preview", .bool true),
  ("preview", .record [("div8", .bool true), ("h_div8", .nat 16), ("ratio", .nat 1), ("w_div8", .nat 32)]),
  ("have_animation", .bool true),
  ("animation", .record [("tps_numerator", .nat 1000), ("tps_denominator", .nat 1001), ("num_loops", .nat 7),
    ("have_timecodes", .bool true)]),
  ("bit_depth", .record [("float_sample", .bool true), ("fbits", .nat 32), ("exp_bits", .nat 8)]),
  ("modular_16bit_buffers", .bool false),
  ("num_extra", .nat 3),
  ("ec_info", .list [.record [("default_alpha_channel", .bool true)],
    .record [("default_alpha_channel", .bool false), ("ty", .nat 2),
      ("bit_depth", .record [("float_sample", .bool false), ("ibits", .nat 16)]), ("dim_shift", .nat 3),
      ("name", .record [("len", .nat 2), ("data", .list [.nat 0xc3, .nat 0xa9])]),
      ("spot", .list [.f16 0x3c00, .f16 0x0001, .f16 0x8000, .f16 0x7bff])],
    .record [("default_alpha_channel", .bool false), ("ty", .nat 5),
      ("bit_depth", .record [("float_sample", .bool false), ("ibits", .nat 8)]), ("dim_shift", .nat 0),
      ("name", .record [("len", .nat 0)]), ("cfa_channel", .nat 274)]]),
  ("xyb_encoded", .bool true),
  ("colour_encoding", .record [("all_default", .bool false), ("want_icc", .bool false), ("colour_space", .nat 0),
    ("white_point", .record [("disc", .nat 2), ("custom", .record [("x", .int (-5)), ("y", .int 2097151)])]),
    ("primaries", .record [("disc", .nat 2), ("red", .record [("x", .int 1), ("y", .int 2)]),
      ("green", .record [("x", .int 3), ("y", .int (-4))]), ("blue", .record [("x", .int 524288), ("y", .int 0)])]),
    ("tf", .record [("has_gamma", .bool true), ("gamma", .nat 4545455)]), ("rendering_intent", .nat 3)]),
  ("tone_mapping", .record [("all_default", .bool false), ("intensity_target", .f16 0x5bd0), ("min_nits", .f16 0x0001),
    ("relative_to_max_display", .bool true), ("linear_below", .f16 0x3c00)]),
  ("extensions", .record [("extension_bits", .nat 5), ("lens", .list [.nat 3, .nat 17])]),
  ("default_m", .bool false),
  ("opsin_inverse_matrix", .record [("all_default", .bool false), ("inv_mat", .list [.list [.f16 1, .f16 2, .f16 3]]),
    ("opsin_bias", .list [.f16 4]), ("quant_bias", .list [.f16 5]), ("quant_bias_numerator", .f16 6)]),
  ("cw_mask", .nat 7),
  ("up2_weight", .list [.f16 0x3c00, .f16 0x8001]), ("up4_weight", .list [.f16 0x1234]),
  ("up8_weight", .list [.f16 0x0400, .f16 0xfbff])]

def rawImage (xyb : Bool) (cs : Nat) : Env :=
  [("size", .record [("div8", .bool false), ("height", .nat 600), ("ratio", .nat 5)]),
   ("metadata", .record (rawMeta.map fun kv =>
      if kv.1 == "xyb_encoded" then (kv.1, .bool xyb)
      else if kv.1 == "colour_encoding" && cs != 0 then
        (kv.1, .record [("all_default", .bool false), ("want_icc", .bool false), ("colour_space", .nat cs),
          ("white_point", .record [("disc", .nat 10)]), ("tf", .record [("has_gamma", .bool false), ("tf", .nat 8)]),
          ("rendering_intent", .nat 0)])
      else kv))]

-- all 6 SizeHeader fields exist; each variant reads 4 of them
example : witness Pinned.SizeHeader [] [("div8", .bool true), ("h_div8", .nat 32), ("ratio", .nat 0), ("w_div8", .nat 1)] 4 = true := by decide +kernel
example : witness Pinned.SizeHeader [] [("div8", .bool false), ("height", .nat 1073741824), ("ratio", .nat 0), ("width", .nat 300)] 4 = true := by decide +kernel
example : witness Pinned.SizeHeader [] [("div8", .bool false), ("height", .nat 262145), ("ratio", .nat 7)] 3 = true := by decide +kernel
example : witness Pinned.PreviewHeader [] [("div8", .bool true), ("h_div8", .nat 541), ("ratio", .nat 2)] 3 = true := by decide +kernel
example : witness Pinned.PreviewHeader [] [("div8", .bool true), ("h_div8", .nat 541), ("ratio", .nat 0), ("w_div8", .nat 33)] 4 = true := by decide +kernel
example : witness Pinned.PreviewHeader [] [("div8", .bool false), ("height", .nat 5440), ("ratio", .nat 0), ("width", .nat 65)] 4 = true := by decide +kernel
example : witness Pinned.AnimationHeader [] [("tps_numerator", .nat 1073741824), ("tps_denominator", .nat 1024), ("num_loops", .nat 4294967295), ("have_timecodes", .bool true)] 4 = true := by decide +kernel
example : witness Pinned.Customxy [] [("x", .int (-1048576)), ("y", .int 2097151)] 2 = true := by decide +kernel
example : witness Pinned.ToneMapping [] [("all_default", .bool false), ("intensity_target", .f16 0x7bff), ("min_nits", .f16 0x8001), ("relative_to_max_display", .bool true), ("linear_below", .f16 0x03ff)] 5 = true := by decide +kernel
example : witness Pinned.OpsinInverseMatrix [] [("all_default", .bool false), ("inv_mat", .list [.list [.f16 1, .f16 0x8002, .f16 3]]), ("opsin_bias", .list [.f16 4]), ("quant_bias", .list [.f16 5]), ("quant_bias_numerator", .f16 6)] 5 = true := by decide +kernel
-- ImageMetadata with every one of its 23 fields present (intrinsic size, preview, animation, float
-- samples, three extra channels, custom colour encoding, tone mapping, extensions, opsin matrix,
-- all three upsampling weight tables)
example : witness Pinned.ImageMetadata [] rawMeta 23 = true := by decide +kernel
example : witness imageHeaderDesc [] (("signature", .nat 0xaff) :: rawImage true 0) 8 = true := by decide +kernel
example : witness Pinned.Passes [] [("num_passes", .nat 11), ("num_ds", .nat 4), ("shift", .list [.nat 3, .nat 0, .nat 1]), ("downsample", .list [.nat 8, .nat 4, .nat 2]), ("last_pass", .list [.nat 0, .nat 7])] 5 = true := by decide +kernel
example : witness Pinned.RestorationFilter [("encoding", .nat 0)] [("all_default", .bool false),
    ("gab", .record [("enabled", .bool true), ("custom", .bool true), ("w0", .list [.f16 0x3000, .f16 0x2000]), ("w1", .list [.f16 0xb400, .f16 1]), ("w2", .list [.f16 0, .f16 0])]),
    ("epf", .record [("iters", .nat 3), ("sharp_custom", .bool true), ("sharp_lut", .list [.f16 1, .f16 2]), ("weight_custom", .bool true), ("channel_scale", .list [.f16 3]), ("_ignored", .nat 4294967295), ("sigma_custom", .bool true), ("quant_mul", .f16 5), ("pass0_sigma_scale", .f16 6), ("pass2_sigma_scale", .f16 7), ("border_sad_mul", .f16 8)]),
    ("extensions", .record [("extension_bits", .nat 9223372036854775808), ("lens", .list [.nat 2])])] 4 = true := by decide +kernel
example : witness Pinned.RestorationFilter [("encoding", .nat 1)] [("all_default", .bool false),
    ("gab", .record [("enabled", .bool false)]),
    ("epf", .record [("iters", .nat 1), ("weight_custom", .bool false), ("sigma_custom", .bool true), ("pass0_sigma_scale", .f16 6), ("pass2_sigma_scale", .f16 7), ("border_sad_mul", .f16 8), ("sigma_for_modular", .f16 0x0001)]),
    ("extensions", .record [("extension_bits", .nat 0)])] 4 = true := by decide +kernel
-- BlendingInfo in the context of a cropped frame with extra channels: all four fields present
example : witness Pinned.BlendingInfo [("context", .list [.bool true, .none, .record [("have_crop", .bool true), ("x0", .int 5), ("y0", .int 0), ("width", .nat 10), ("height", .nat 10), ("size", .record [("width", .nat 100), ("height", .nat 100)])]])]
    [("mode", .nat 3), ("alpha_channel", .nat 10), ("clamp", .bool true), ("source", .nat 3)] 4 = true := by decide +kernel

/-- raw frame header: regular frame, Modular, crop, two passes, blend, named, custom filter -/
def rawFrameA : Env := [
  ("all_default", .bool false), ("frame_type", .nat 0), ("encoding", .nat 1), ("flags", .nat 1099511627776),
  ("do_ycbcr", .bool false), ("upsampling", .nat 4), ("ec_upsampling", .list [.nat 1, .nat 8, .nat 2]),
  ("group_size_shift", .nat 3),
  ("passes", .record [("num_passes", .nat 3), ("num_ds", .nat 1), ("shift", .list [.nat 2]), ("downsample", .list [.nat 4]), ("last_pass", .list [.nat 1])]),
  ("have_crop", .bool true), ("x0", .int (-1152)), ("y0", .int 9344), ("width", .nat 18688), ("height", .nat 255),
  ("blending_info", .record [("mode", .nat 2), ("alpha_channel", .nat 1), ("clamp", .bool true), ("source", .nat 2)]),
  ("ec_blending_info", .list [.record [("mode", .nat 4), ("clamp", .bool false), ("source", .nat 1)],
     .record [("mode", .nat 0), ("source", .nat 3)]]),
  ("duration", .nat 4294967295), ("timecode", .nat 305419896), ("is_last", .bool false),
  ("save_as_reference", .nat 3),
  ("name", .record [("len", .nat 3), ("data", .list [.nat 0xe4, .nat 0xb8, .nat 0xad])]),
  ("restoration_filter", .record [("all_default", .bool false), ("gab", .record [("enabled", .bool true), ("custom", .bool false)]),
     ("epf", .record [("iters", .nat 0)]), ("extensions", .record [("extension_bits", .nat 0)])]),
  ("extensions", .record [("extension_bits", .nat 2), ("lens", .list [.nat 9])])]

def witnessFrame (img fh : Env) (k : Nat) : Bool :=
  match mkImageHeader img with
  | some i => witness Pinned.FrameHeader (frameCtx i) fh k
  | none => false

-- regular Modular frame (not XYB image): 23 of the 31 fields are read
example : witnessFrame (rawImage false 1) rawFrameA 23 = true := by decide +kernel
-- LF frame of an XYB VarDCT image: lf_level, x_qm_scale, b_qm_scale present
example : witnessFrame (rawImage true 0) [("all_default", .bool false), ("frame_type", .nat 1), ("encoding", .nat 0),
    ("flags", .nat 128), ("upsampling", .nat 1), ("ec_upsampling", .list [.nat 1]), ("x_qm_scale", .nat 7), ("b_qm_scale", .nat 0),
    ("passes", .record [("num_passes", .nat 1)]), ("lf_level", .nat 4),
    ("name", .record [("len", .nat 0)]), ("restoration_filter", .record [("all_default", .bool true)]),
    ("extensions", .record [("extension_bits", .nat 0)])] 13 = true := by decide +kernel
-- reference-only YCbCr frame: do_ycbcr, jpeg_upsampling, have_crop, save_as_reference, save_before_ct present
example : witnessFrame (rawImage false 0) [("all_default", .bool false), ("frame_type", .nat 2), ("encoding", .nat 0),
    ("flags", .nat 0), ("do_ycbcr", .bool true), ("jpeg_upsampling", .list [.nat 1, .nat 2, .nat 3]), ("upsampling", .nat 2),
    ("ec_upsampling", .list [.nat 4]), ("have_crop", .bool true), ("width", .nat 1), ("height", .nat 1073760511),
    ("save_as_reference", .nat 1), ("save_before_ct", .bool false),
    ("name", .record [("len", .nat 0)]), ("restoration_filter", .record [("all_default", .bool true)]),
    ("extensions", .record [("extension_bits", .nat 0)])] 16 = true := by decide +kernel
-- the all-default frame header: one bit
example : witnessFrame (rawImage true 0) [("all_default", .bool true)] 1 = true := by decide +kernel

-- Modular / VarDCT side bundles that use the same macro (descriptions are generated for the
-- components that model those layers; `TransformInfo` and `HfBlockContext` are external parsers)
example : witness Pinned.WpHeader [] [("default_wp", .bool false), ("wp_p1", .nat 31), ("wp_w3", .nat 15)] 12 = true := by decide +kernel
example : witness Pinned.ModularHeader [] [("use_global_tree", .bool true), ("wp_params", .record [("default_wp", .bool true)]), ("nb_transforms", .nat 0)] 4 = true := by decide +kernel
example : witness Pinned.Rct [] [("begin_c", .nat 9287), ("rct_type", .nat 41)] 2 = true := by decide +kernel
example : witness Pinned.Squeeze [] [("num_sq", .nat 2), ("sp", .list [.record [("horizontal", .bool true), ("in_place", .bool false), ("begin_c", .nat 7), ("num_c", .nat 19)]])] 2 = true := by decide +kernel
example : witness Pinned.SqueezeParams [] [("horizontal", .bool true), ("in_place", .bool true), ("begin_c", .nat 72), ("num_c", .nat 3)] 4 = true := by decide +kernel
example : witness Pinned.Quantizer [] [("global_scale", .nat 73728), ("quant_lf", .nat 16)] 2 = true := by decide +kernel
example : witness Pinned.LfChannelDequantization [] [("all_default", .bool false), ("m_x_lf", .f16 1), ("m_y_lf", .f16 2), ("m_b_lf", .f16 3)] 4 = true := by decide +kernel
example : witness Pinned.LfChannelCorrelation [] [("all_default", .bool false), ("colour_factor", .nat 65793), ("base_correlation_x", .f16 0x8000), ("base_correlation_b", .f16 0x3c00), ("x_factor_lf", .nat 255), ("b_factor_lf", .nat 0)] 6 = true := by decide +kernel
-- LfGlobalVarDct contains `Bundle(HfBlockContext)`, a parser outside this component: the writer
-- has no value for it, so the round-trip theorem holds for it only vacuously (stated openly).
example : witness Pinned.LfGlobalVarDct [] [] 3 = false := by decide +kernel

-- a table of contents with 5 sections (sizes from all four selectors of the size distribution)
example : witness tocPlain [("entry_count", .nat 5)]
    [("permuted", .bool false), ("sizes", .list [.nat 0, .nat 1023, .nat 17407, .nat 4211711, .nat 1077953535])] 6 = true := by decide +kernel

end Witnesses

end Jxl.Headers
