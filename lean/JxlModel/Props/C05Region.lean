import JxlModel.Proofs.RegionMore
/-!
# C05 (geometry) — the region arithmetic of `blend()` / `patch()`

For the owner of C05: `import JxlModel.Props.C05Region`; everything is in namespace `Jxl.Region`.
The model (`blendGeom`, `patchGeom` in `Model/Region.lean`) mirrors `blend.rs:190..403` and
`blend.rs:433..464`; it is tied to the real `blend::blend` / `blend::patch` by the probes of hook
H2 (`verif_region::blend_probe`, `patch_probe`: grids whose cells encode their own coordinates) in
`tools/props/c06.py`.

Coordinates: everything is in the new frame's coordinates (`x0, y0` is its signed crop offset on
the canvas). `newGrid` is the region of the new frame's channel, `output` the
`output_frame_region` computed by `image::composite` (`compositeRegion`), which for a normal frame
is clipped to the canvas `[0, imgW) × [0, imgH)` translated by `(-x0, -y0)`.

`BlendWrite newGrid g fw fh output dx dy` says, for the loop index `(dx, dy)` of `blend_single`:
the target cell and the source cell denote the same frame coordinate; both indices are inside their
buffers (target sub-grid inside the target grid); the coordinate lies in the new frame's grid, in
the frame rectangle and in the output rectangle.
-/
namespace Jxl.Region
open Region

/-- The clipped rectangle `blend()` iterates over is exactly the intersection the format
defines: new frame's grid ∩ frame rectangle ∩ output rectangle — for all signed crop offsets. -/
theorem C05_blend_clip_is_spec (x0 y0 : Int) (fw fh : Nat) (newGrid output : Region)
    (base : Option (Int × Int × Region)) (x y : Int) :
    Mem x y (blendGeom x0 y0 fw fh newGrid output base).clipped ↔ BlendSpec fw fh newGrid output x y :=
  blend_clipped_mem x0 y0 fw fh newGrid output base x y

/--
**Blend region soundness.** For every signed crop offset, every output rectangle and either kind of
canvas — fresh (`base = none` or an empty base grid) or taken from the frame in the source slot
(`base = some (bx0, by0, grid)`, `grid` the region of its blended channel in its own coordinates,
containing the output rectangle as `blend()`'s `subgrid()` call requires) — provided the new
frame's grid is a non-empty part of the frame rectangle:

* every cell written (`dx < w`, `dy < h`) is inside the target buffer, inside the new frame's
  buffer, and target and source cell are the same frame coordinate, which lies in the new frame's
  grid, the frame rectangle and the output rectangle (`BlendWrite`); in particular all buffer
  offsets `base_topleft`, `new_topleft` are the true non-negative differences;
* every cell of the specified intersection is written, by exactly one loop index.
-/
theorem C05_blend_region_sound (x0 y0 : Int) (fw fh : Nat) (newGrid output : Region)
    (base : Option (Int × Int × Region))
    (hin : newGrid.Within (Region.withSize fw fh)) (hne : newGrid.isEmpty = false)
    (hbase : ∀ bx0 by0 grid, base = some (bx0, by0, grid) → grid.isEmpty = false →
      ((output.translate x0 y0).translate (-bx0) (-by0)).Within grid) :
    let g := blendGeom x0 y0 fw fh newGrid output base
    (∀ dx dy : Nat, dx < g.w → dy < g.h → BlendWrite newGrid g fw fh output dx dy) ∧
    (∀ x y, BlendSpec fw fh newGrid output x y →
      ∃ dx dy : Nat, dx < g.w ∧ dy < g.h ∧
        x = newGrid.left + ((g.newX + dx : Nat) : Int) ∧ y = newGrid.top + ((g.newY + dy : Nat) : Int) ∧
        ∀ dx' dy' : Nat, x = newGrid.left + ((g.newX + dx' : Nat) : Int) →
          y = newGrid.top + ((g.newY + dy' : Nat) : Int) → dx' = dx ∧ dy' = dy) := by
  intro g
  refine ⟨?_, fun x y h => blend_complete x0 y0 fw fh newGrid output base hin hne x y h⟩
  intro dx dy hdx hdy
  cases hb : base with
  | none =>
    simp only [g, hb] at hdx hdy ⊢
    exact blend_sound_fresh x0 y0 fw fh newGrid output hin hne dx dy hdx hdy
  | some b =>
    obtain ⟨bx0, by0, grid⟩ := b
    by_cases hg : grid.isEmpty = true
    · -- an empty base grid: the fresh-canvas path (`clone_empty`)
      have e : blendGeom x0 y0 fw fh newGrid output (some (bx0, by0, grid)) =
          blendGeom x0 y0 fw fh newGrid output none := by
        unfold blendGeom; simp [hg]
      simp only [g, hb, e] at hdx hdy ⊢
      exact blend_sound_fresh x0 y0 fw fh newGrid output hin hne dx dy hdx hdy
    · have hg' : grid.isEmpty = false := by simpa using hg
      simp only [g, hb] at hdx hdy ⊢
      exact blend_sound_base x0 y0 fw fh newGrid output bx0 by0 grid hin hne hg'
        (hbase bx0 by0 grid hb hg') dx dy hdx hdy

/-- a frame at crop offset (-3, 2) on an 8×8 canvas, partly outside -/
example : (blendGeom (-3) 2 6 5 ⟨0, 0, 6, 5⟩ ⟨3, -2, 8, 8⟩ none).clipped = ⟨3, 0, 3, 5⟩ := by decide
example : (blendGeom (-3) 2 6 5 ⟨0, 0, 6, 5⟩ ⟨3, -2, 8, 8⟩ none).baseY = 2 := by decide
/-- with a base frame at offset (1, 1) whose grid covers the whole 8×8 canvas -/
example : (blendGeom (-3) 2 6 5 ⟨0, 0, 6, 5⟩ ⟨3, -2, 8, 8⟩ (some (1, 1, ⟨-1, -1, 8, 8⟩))).target = ⟨3, -2, 8, 8⟩ := by decide

/-- A frame (or the part of it that was rendered) wholly outside the output rectangle writes
nothing, and conversely an empty write set means the rectangles do not meet. -/
theorem C05_blend_outside_writes_nothing (x0 y0 : Int) (fw fh : Nat) (newGrid output : Region)
    (base : Option (Int × Int × Region)) :
    let g := blendGeom x0 y0 fw fh newGrid output base
    (g.w = 0 ∨ g.h = 0) ↔ ∀ x y, ¬ BlendSpec fw fh newGrid output x y := by
  intro g
  have key : ∀ x y, Mem x y g.clipped ↔ BlendSpec fw fh newGrid output x y :=
    blend_clipped_mem x0 y0 fw fh newGrid output base
  have hw : g.w = g.clipped.width := by simp only [g, blendGeom]
  have hh : g.h = g.clipped.height := by simp only [g, blendGeom]
  constructor
  · intro h x y hs
    have := (key x y).2 hs
    unfold Mem at this
    omega
  · intro h
    by_cases hz : g.w = 0 ∨ g.h = 0
    · exact hz
    · exfalso
      apply h g.clipped.left g.clipped.top
      apply (key _ _).1
      unfold Mem
      omega

/-- frame 6×5 at crop offset (20, 20) of an 8×8 canvas: wholly outside -/
example : (blendGeom 20 20 6 5 ⟨0, 0, 6, 5⟩ (compositeRegion
    { imgW := 8, imgH := 8, orientation := 1, x0 := 20, y0 := 20, fw := 6, fh := 5, refOnly := false,
      normal := true, lfLevel := 0, upsampling := 0, ec := [], epfIters := 0, gab := false,
      ycbcr := false, groupSizeShift := 1 } ⟨0, 0, 8, 8⟩) none).w = 0 := by decide

/-- The output rectangle `composite` hands to `blend()` for a normal frame lies on the canvas:
every cell of it, moved by the signed crop offset, is a canvas cell. -/
theorem C05_output_region_on_canvas (c : Cfg) (hn : c.normal = true) (oriented : Region) (x y : Int)
    (h : Mem x y (compositeRegion c oriented)) :
    Mem (x + c.x0) (y + c.y0) (Region.withSize c.imgW c.imgH) := by
  unfold compositeRegion at h
  simp only [hn, if_true] at h
  have := ((mem_intersection _ _ x y).1 h).2
  rw [mem_translate] at this
  have e1 : x - -c.x0 = x + c.x0 := by omega
  have e2 : y - -c.y0 = y + c.y0 := by omega
  rw [e1, e2] at this
  exact this

/--
**Patch region soundness** (`blend::patch`, one target position). If the patch source rectangle
`[px0, px0+pw) × [py0, py0+ph)` lies inside the reference grid (the format requires it to lie
inside the reference frame, which is rendered in full), then every cell written is inside the
canvas channel, inside the reference channel and inside the target rectangle
`[tx, tx+pw) × [ty, ty+ph)`, source and target have the same offset inside the patch, and the
rectangle written is the whole part of the target rectangle that lies on the canvas channel.
(Without the hypothesis the copy is mis-aligned: `ref_patch_region` is clipped on the left/top but
`base_topleft` is not moved — see the note in `tools/props/c06.py`; the parser does not reject such
patches.)
-/
theorem C05_patch_region_sound (baseGrid refGrid : Region) (px0 py0 pw ph : Nat) (tx ty : Int)
    (hsrc : Region.Within ⟨px0, py0, pw, ph⟩ refGrid) (dx dy : Nat)
    (hdx : dx < (patchGeom baseGrid refGrid px0 py0 pw ph tx ty).w)
    (hdy : dy < (patchGeom baseGrid refGrid px0 py0 pw ph tx ty).h) :
    PatchWrite baseGrid refGrid px0 py0 pw ph tx ty (patchGeom baseGrid refGrid px0 py0 pw ph tx ty) dx dy ∧
    (patchGeom baseGrid refGrid px0 py0 pw ph tx ty).w = (baseGrid.intersection ⟨tx, ty, pw, ph⟩).width ∧
    (patchGeom baseGrid refGrid px0 py0 pw ph tx ty).h = (baseGrid.intersection ⟨tx, ty, pw, ph⟩).height :=
  patch_sound baseGrid refGrid px0 py0 pw ph tx ty hsrc dx dy hdx hdy

example : (patchGeom ⟨0, 0, 6, 6⟩ ⟨0, 0, 8, 8⟩ 1 1 3 3 (-1) 4).targetPatch = ⟨0, 4, 2, 2⟩ := by decide
example : (patchGeom ⟨0, 0, 6, 6⟩ ⟨0, 0, 8, 8⟩ 1 1 3 3 (-1) 4).newX = 2 := by decide

/-- **Witness of the defect repaired in `blend::patch` (upsampled frames).** While features are
rendered the buffers of a 2x upsampled 12x12 frame are 6x6 but its region is already labelled
12x12. Clipping the target against the label (the unrepaired code) keeps a 3x3 target at (8, 8)
whole — outside the 6x6 buffer; clipping against the region in buffer coordinates (`downsample` by
the channel shift, the repaired code and the premise `baseGrid` = buffer of the theorem above) drops it. -/
theorem C05_unrepaired_patch_on_upsampled_frame_leaves_buffer :
    (patchGeom ⟨0, 0, 12, 12⟩ ⟨0, 0, 6, 6⟩ 0 0 3 3 8 8).targetPatch = ⟨8, 8, 3, 3⟩ ∧
    (patchGeom ((⟨0, 0, 12, 12⟩ : Region).downsample 1) ⟨0, 0, 6, 6⟩ 0 0 3 3 8 8).w = 0 := by decide


/-- `composite` as it was before the repair (commit a89eeeb): the request is padded for filters and
upsampling before it is handed to `blend()` — and through it to the blending source. -/
def compositeRegionPadded (c : Cfg) (oriented : Region) : Region :=
  let fr := (oriented.translate (-c.x0) (-c.y0)).downsample (c.lfLevel * 3)
  let fr := padLfRegion c fr
  let fr := padColorRegion c fr
  let fr := fr.upsample c.upsampling
  if c.normal then fr.intersection ((Region.withSize c.imgW c.imgH).translate (-c.x0) (-c.y0)) else fr

/--
**A blend chain never asks its source for more than the source covers.** For two normal frames
`c` (blended) and `b` (its blending source) of one image and one requested region: every cell of
the region `composite` hands to `blend()` for `c`, expressed in `b`'s frame coordinates (this is
`base_frame_region`), lies in the region `composite` covers for `b` under the same request —
whatever filters, upsampling or crop offsets either frame has, hence for chains of any depth.
-/
theorem C05_blend_chain_request_covered (c b : Cfg) (hc : c.normal = true) (hb : b.normal = true)
    (hcl : c.lfLevel = 0) (hbl : b.lfLevel = 0) (hw : c.imgW = b.imgW) (hh : c.imgH = b.imgH)
    (oriented : Region) (x y : Int) (h : Mem x y (compositeRegion c oriented)) :
    Mem (x + c.x0 - b.x0) (y + c.y0 - b.y0) (compositeRegion b oriented) := by
  unfold compositeRegion at h ⊢
  simp only [hc, hb, hcl, hbl, if_true, Nat.zero_mul, Region.downsample] at h ⊢
  rw [mem_intersection, mem_translate, mem_translate] at h ⊢
  obtain ⟨h1, h2⟩ := h
  have e1 : x + c.x0 - b.x0 - -b.x0 = x - -c.x0 := by omega
  have e2 : y + c.y0 - b.y0 - -b.y0 = y - -c.y0 := by omega
  rw [e1, e2, ← hw, ← hh]
  exact ⟨h1, h2⟩

/-- The unrepaired region computation does not have that property from the third layer on: three
full-size layers with Gabor on a 64×64 image, request `(10, 10, 8, 8)`. The top layer pads the
request once and hands that to the middle layer as ITS request, which pads it again: the bottom
layer is asked for `(8, 8, 12, 12)` but was rendered for the request padded once,
`(9, 9, 10, 10)` — cell `(8, 8)` is outside its grid (the assertion / error of `blend()`). -/
theorem C05_padded_chain_request_not_covered :
    let c : Cfg := { imgW := 64, imgH := 64, orientation := 1, x0 := 0, y0 := 0, fw := 64, fh := 64, refOnly := false, normal := true, lfLevel := 0, upsampling := 0, ec := [], epfIters := 0, gab := true, ycbcr := false, groupSizeShift := 1 }
    let r : Region := ⟨10, 10, 8, 8⟩
    Mem 8 8 (compositeRegionPadded c (compositeRegionPadded c r)) ∧
    ¬ Mem 8 8 (plumb c false r).colorPadded ∧
    (∀ x y, Mem x y (compositeRegion c (compositeRegion c r)) → Mem x y (plumb c false r).colorPadded) := by
  refine ⟨by decide, by decide, ?_⟩
  intro x y h
  have e : compositeRegion { imgW := 64, imgH := 64, orientation := 1, x0 := 0, y0 := 0, fw := 64, fh := 64, refOnly := false, normal := true, lfLevel := 0, upsampling := 0, ec := [], epfIters := 0, gab := true, ycbcr := false, groupSizeShift := 1 } (compositeRegion { imgW := 64, imgH := 64, orientation := 1, x0 := 0, y0 := 0, fw := 64, fh := 64, refOnly := false, normal := true, lfLevel := 0, upsampling := 0, ec := [], epfIters := 0, gab := true, ycbcr := false, groupSizeShift := 1 } ⟨10, 10, 8, 8⟩) = ⟨10, 10, 8, 8⟩ := by decide
  have e2 : (plumb { imgW := 64, imgH := 64, orientation := 1, x0 := 0, y0 := 0, fw := 64, fh := 64, refOnly := false, normal := true, lfLevel := 0, upsampling := 0, ec := [], epfIters := 0, gab := true, ycbcr := false, groupSizeShift := 1 } false ⟨10, 10, 8, 8⟩).colorPadded = ⟨9, 9, 10, 10⟩ := by decide
  simp only [e, e2] at h ⊢
  unfold Mem at h ⊢
  simp only [Region.right, Region.bottom] at h ⊢
  omega

end Jxl.Region
