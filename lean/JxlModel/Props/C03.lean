import JxlModel.Proofs.Modular
import JxlModel.Proofs.Flatten
import JxlModel.Proofs.PredictorState
import JxlModel.Proofs.TableOld
import JxlModel.Proofs.TransformChain
import JxlModel.Proofs.GroupPartition
/-!
# C03 — lossless Modular images decode to exactly the encoded samples

Layers (DESIGN.md §4 C03):

* token level: for **every** way of finding leaves (`leafOf`: any tree, any flattening, any
  property vector), every predictor state (incl. any weighted-predictor parameters), every
  previous-channel set and every sample sequence the reference encoder accepts, the decoder
  reproduces the samples exactly and consumes exactly the encoder's tokens
  (`C03_token_roundtrip`);
* transforms in exact integer arithmetic: all 7 RCT types × 6 permutations, and squeeze for
  **every** tendency function (`C03_rct_inv_fwd`, `C03_squeeze_line_inv_fwd`); `C03_wrap_exact`
  is the bridge to the wrapping arithmetic the code runs (identity on in-range values);
* zig-zag sign packing (`C03_unpack_pack`).

* flattened tree = tree, lookup tables included (`C03_flatten_eq_eval`): for property values and
  decision values in the `i32` range (what the Rust types guarantee) the walk over the flattened
  array (`get_leaf`: fused two-level nodes and `try_compile_to_table` lookup tables) selects the
  leaf the tree selects. `C03_flatten_eq_eval_partial` is the table-free corollary (no range
  hypotheses). The model is the repaired code (/repo f9ead7c): the range ending at `i32::MAX` fills
  the whole tail of the table. `C03_unrepaired_table_wrong_at_i32max` is the witness of finding F14
  on the old fill (`Proofs/TableOld.lean`): a tree with a decision value `i32::MAX` whose old table
  sent the property value `i32::MAX` back to node 0 (the old `get_leaf` did not terminate on it;
  replay: `corpus/c03/f14_*`);
* incremental predictor state = neighbours read from the grid (Impl refines Spec): the invariant
  `PState.Tracks` holds for `PState.reset` and is preserved by `PState.record` along the raster
  order, for every width ≥ 1, every height and all `Int` samples, with and without the weighted
  predictor (`C03_pstate_tracks_grid`, `C03_tracks_neighbors`); under it the 16 properties and all
  predictors computed from the state equal `propsSpec` / `predictSpec` on `neighbors`
  (`C03_props_impl_eq_spec`); the unchecked accessors of the fast path and the direct indexings of
  `Properties::record` stay in range (`C03_fast_path_in_range`, `C03_record_reads_in_range`).
  Hence the decoder model and the reference encoder, which carry the Impl state, equal the grid
  decoder / encoder that read everything from the samples (`C03_decoder_impl_eq_grid`,
  `C03_decode_samples_impl_eq_grid`, `C03_encoder_impl_eq_grid`), and the grid pair round-trips
  (`C03_grid_roundtrip`).
  The weighted predictor itself has no independent Spec (property 15 and predictor 6 take its
  output as a parameter on both sides); what is proved is that it is fed the Spec neighbours.

* the whole transform chain (Impl decoder inverts the reference encoder): for **every** channel
  list, **every** list of resolved transforms (RCT: 7 types × 6 permutations; palette with any
  `nbColours`, `nbDeltas`, predictor; squeeze: any parameter list, horizontal / vertical, in place
  or not, incl. the defaults `transformInfo` fills in) and every palette table the reference
  encoder accepts (`forwardAll sb ts pals chans = some coded`), the decoder's
  `inverseAll sb bitDepth wp ts coded` — wrapping arithmetic at the sample width, the channel-list
  rewriting, the palette expansion with its delta pass — gives back `chans`
  (`C03_transform_chain_inv_fwd`), under the executable hypothesis `chainOk`
  (`Model/Modular/ChainOk.lean`): per transform, on the channel list it is applied to, the touched
  channels exist and their buffers have `w * h` samples, and the values the inverse wraps are
  representable (`rctTripleOk`: the three samples, and `d + f` for RCT types 4/5 — the decoder
  halves that sum after wrapping it; `sqLineOk`: both samples of a pair and their difference;
  palette: nothing). One level down: one RCT on three channels (`C03_rct_chan_inv_fwd`), one
  squeeze of a channel / a step on the list (`C03_squeeze_chan_inv_fwd`,
  `C03_squeeze_step_inv_fwd`), one palette (`C03_palette_chosen_index_value`: the entry the
  encoder chose is explicit, not a delta entry, and its value is the pixel's colour;
  `C03_palette_inv_fwd`: no value hypothesis at all), one transform (`C03_transform_inv_fwd`),
  RCT-only chains (`C03_rct_chain_inv_fwd`).
  Channel bookkeeping: the forward transforms' output has exactly the dimensions
  `transformInfoAll` computes for the decoder (default squeeze parameters included) and
  well-formed buffers (`C03_forward_matches_transform_info`; `encodeFrame` checks the dimensions
  at run time, this shows the check cannot fail), and for channel lists that match
  `transformInfoAll`'s input the structural half of `chainOk` follows, leaving only the value
  conditions `chainRangeOk` (`C03_pipeline_roundtrip`). `C03_headroom_suffices`: samples with one
  bit of headroom satisfy the value conditions of RCT and squeeze.
  The encoder uses explicit palette entries only (implicit entries `index ≥ nbColours` and delta
  entries `index < nbDeltas` are exercised on the decoder side by coded-domain plans of the
  differential run, not by `forwardOne`).
  **Finding (reference encoder, repaired in `forwardOne`):** the palette search ignored
  `nbDeltas`; with `nbDeltas > 0` it could pick a delta entry, to which the decoder (as the Rust
  `Palette::inverse_inner`) adds a prediction — accepted, but not decoded to the original
  (`C03_palette_forward_needs_nondelta`, replayed on the real decoder). The check's oracle compares
  with `inverseAll` of the coded channels, so the differential run could not see it.
  Both sides use the same sample width `sb`; `encodeFrame` runs the forward transforms at 32 bits
  and the decoder possibly at 16: that step is C12 (`C12_inverseAll_narrow_eq_wide`).

* the group partition: `encodeFrame` cuts every non-global channel into one rectangle per group
  (`groupPieceChans`: group dimension divided by the channel's shifts, clipped at the right and
  bottom edge, empty rectangles dropped, so a group's sub-image lists only its non-empty channels)
  and the decoded pieces are pasted back (`pasteGroups`: pixel `(x, y)` of channel `ci` is read
  from group `(y / gh) * gcols + x / gw`, at the channel's position among that group's non-empty
  channels). `C03_group_partition_reassembles`: pasting the pieces gives back every channel, for
  every list of channels, sizes (also smaller than one group cell, 0 included), group dimension,
  shifts and number of group columns satisfying `groupLayoutOk` (buffers well-formed with the
  info's dimensions, group cells non-empty, the group columns cover the channel's width);
  `C03_group_columns_cover`: channels of the natural shape `⌈cw / 2^s⌉` with `2^s ∣ groupDim` and
  `⌈cw / groupDim⌉` columns satisfy the last two.

Not proved here (tied by the differential run only, see evidence): the composition of these
layers inside `encodeFrame` into one statement `modelDecoded = some chans` (token round trip per
sub-image → group pieces → pasted channels → transform chain); each layer is proved above.
-/
namespace Jxl.Modular

/-- Token-level round trip, for every leaf-selection function, state, and sample list. -/
theorem C03_token_roundtrip (sb : SBits) (leafOf : LeafOf) (prev : List Chan)
    (vs : List Int) (ps : PState) (out : List (Nat × Nat)) (rest : List Nat)
    (h : encodeSamples sb leafOf prev vs ps = some out) :
    ∃ ps', decodeSamples sb leafOf prev vs.length ps (out.map (·.2) ++ rest) = some (vs, rest, ps') :=
  decode_encode_samples sb leafOf prev vs ps out rest h

/-- Flattened tree = tree (Impl refines Spec), **lookup tables included**: walking the flattened
array (`flatten`: static pruning on channel / stream / absent previous channels, fused two-level
decisions, same-property decision chains compiled to index tables by `try_compile_to_table` with its
range bookkeeping, 1022 span rule, sort and index fill, breadth-first index assignment; `get_leaf`:
saturating subtraction and clamping for tables) reaches exactly the leaf the tree itself selects —
for every tree whose decision values fit `i32`, every channel, stream index, number of previous
channels and every property vector with values in the `i32` range: exactly what the Rust types
guarantee. -/
theorem C03_flatten_eq_eval (c s pc : Nat) (t : Tree) (props : Nat → Int)
    (hp : ∀ p, i32Min ≤ props p ∧ props p ≤ i32Max) (hv : t.valuesInI32 = true) :
    getLeaf (flatten c s pc t) props = some (t.evalFor c s pc props) :=
  flatten_getLeaf_eq_evalFor_full c s pc t props hp hv

/-- Corollary for trees none of whose subtrees compiles to a lookup table: no range hypotheses. -/
theorem C03_flatten_eq_eval_partial (c s pc : Nat) (t : Tree) (props : Nat → Int)
    (hnt : noTabB c s pc t = true) :
    getLeaf (flatten c s pc t) props = some (t.evalFor c s pc props) :=
  flatten_getLeaf_eq_evalFor c s pc t props
    (AllSub_imp _ _ (fun _ h => Or.inl h) t (noTabB_sound c s pc t hnt))

/-- a chain on property 9 whose root compares with `i32::MAX` (always false: the right child is
taken); all decision values are legal `i32` values -/
def exMaxTree : Tree :=
  .dec 9 i32Max (.leaf { ctx := 0, pred := 0, offset := 0, mul := 1 })
    (.dec 9 (i32Max - 1) (.leaf { ctx := 1, pred := 0, offset := 0, mul := 1 })
      (.dec 9 (i32Max - 2) (.leaf { ctx := 2, pred := 0, offset := 0, mul := 1 })
        (.dec 9 (i32Max - 3) (.leaf { ctx := 3, pred := 0, offset := 0, mul := 1 })
          (.leaf { ctx := 4, pred := 0, offset := 0, mul := 1 }))))

/-- **Finding F14, about the UNREPAIRED code** (`tryCompileOld` / `flattenOld` in
`Proofs/TableOld.lean`: the index fill before /repo f9ead7c; not the current model). For `exMaxTree`
the old fill produced the table `[1, 2, 3, 0, 4]` with base `i32Max - 3`: the range ending at
`i32::MAX` was written to the last entry only (position `ub - lb + 1`), but with `ub = i32::MAX` the
value `i32::MAX` reads position `ub - lb = 3`, which still held the initial 0 — the walk returns to
node 0, the table itself. The model walk runs out of fuel (`none`); the old `FlatMaTree::get_leaf`
had the same table and looped forever (replayed on the real decoder, `corpus/c03/f14_*`). The tree
selects leaf 1. -/
theorem C03_unrepaired_table_wrong_at_i32max :
    ((flattenOld 0 0 0 exMaxTree)[0]?.map FlatNode.tableIndices) = some [1, 2, 3, 0, 4] ∧
      tblIdx i32Max (i32Max - 3) 5 = 3 ∧
      getLeaf (flattenOld 0 0 0 exMaxTree) (fun _ => i32Max) = none ∧
      exMaxTree.evalFor 0 0 0 (fun _ => i32Max) = { ctx := 1, pred := 0, offset := 0, mul := 1 } := by
  decide +kernel

/-- The incremental predictor state tracks the grid. For every channel `c` of width ≥ 1 (any
height, any `Int` samples — `record` never wraps a sample, so no range hypothesis is needed) and
with or without the weighted predictor (`wp`, and whatever self-correcting prediction `scp` each
`record` is given): (a) the invariant `PState.Tracks` holds for the reset state at `(0, 0)`;
(b) `PState.record` with the sample `c.get x y` carries it from `(x, y)` to the raster successor
(`(x + 1, y)`, or `(0, y + 1)` at the last column, where the row buffers are swapped);
(c) hence every state reached by recording the first `k` samples of `c` in raster order tracks
position `(k % c.w, k / c.w)` — in particular the state `PState.run c wp k` the token decoder and
encoder are in (they pass `ps.scPredict`). -/
theorem C03_pstate_tracks_grid (c : Chan) (wp : Option Wp) (hw : 1 ≤ c.w) :
    (PState.reset c.w wp).Tracks c 0 0 ∧
    (∀ (ps : PState) (x y : Nat) (scp : Option ScPred), ps.Tracks c x y →
      (ps.record scp (c.get x y)).Tracks c (nextX c.w x) (nextY c.w x y)) ∧
    (∀ (ps : PState) (k : Nat), PState.ReachedBy c wp ps k → ps.Tracks c (k % c.w) (k / c.w)) ∧
    (∀ k : Nat, (PState.run c wp k).Tracks c (k % c.w) (k / c.w)) :=
  ⟨PState.Tracks.init c wp hw, fun _ _ _ scp h => h.record scp, fun _ _ h => h.tracks hw,
   fun k => (PState.run_reachedBy c wp k).tracks hw⟩

/-- What the invariant says about the observable state: position, the seven neighbours
(`w`, `n`, `nw` cached; `nn`, `ne`, `nee`, `ww` through the checked accessors that read the two row
buffers) and the previous gradient equal the Spec's values read from the grid. -/
theorem C03_tracks_neighbors (ps : PState) (c : Chan) (x y : Nat) (h : ps.Tracks c x y) :
    ps.width = c.w ∧ ps.x = x ∧ ps.y = y ∧
    ps.w = (neighbors c x y).w ∧ ps.n = (neighbors c x y).n ∧ ps.nw = (neighbors c x y).nw ∧
    ps.nn = (neighbors c x y).nn ∧ ps.ne = (neighbors c x y).ne ∧
    ps.nee = (neighbors c x y).nee ∧ ps.ww = (neighbors c x y).ww ∧
    ps.prevGrad = (if x > 0 then gradProp c (x - 1) y else 0) :=
  ⟨h.hwidth, h.hx, h.hy, h.hw, h.hn, h.hnw, h.nn_eq, h.ne_eq, h.nee_eq, h.ww_eq, h.hgrad⟩

/-- Under the invariant the Impl property vector is the Spec one (all 16 entries: 0..14 from the
grid; entry 15 is the weighted predictor's `max_error`, which the Spec takes as a parameter — the
weighted predictor has no second, independent definition), every predictor (0..13, and any other
number, which both sides treat as 13) gives the Spec prediction, and the weighted predictor is run
on the Spec neighbours `N, NW, NE, W, NN`. -/
theorem C03_props_impl_eq_spec (ps : PState) (c : Chan) (x y : Nat) (h : ps.Tracks c x y)
    (scp : Option ScPred) :
    ps.props scp = propsSpec c x y ((scp.map (·.maxError)).getD 0) ∧
    (∀ pred : Nat, predictImpl pred ps scp
      = predictSpec pred (neighbors c x y) ((scp.map (·.prediction)).getD 0)) ∧
    ps.scPredict = ps.sc.map (fun sc =>
      sc.predict (neighbors c x y).n (neighbors c x y).nw (neighbors c x y).ne
        (neighbors c x y).w (neighbors c x y).nn) :=
  ⟨h.props_eq scp, fun pred => h.predict_eq pred scp, h.scPredict_eq⟩

/-- The fast path never reads out of range: for `2 ≤ x`, `x + 2 < width`, `y ≥ 2` — the positions
at which `image.rs` uses `properties::<false>` / `decode_one::<_, false>` — the unchecked
accessors `nn/ne/nee/ww::<false>` index inside the row buffers and return the Spec neighbours. -/
theorem C03_fast_path_in_range (ps : PState) (c : Chan) (x y : Nat) (h : ps.Tracks c x y)
    (hx2 : 2 ≤ x) (hxr : x + 2 < c.w) (hy2 : 2 ≤ y) :
    ps.nnF = some (neighbors c x y).nn ∧ ps.neF = some (neighbors c x y).ne ∧
    ps.neeF = some (neighbors c x y).nee ∧ ps.wwF = some (neighbors c x y).ww :=
  h.fast_eq hx2 hxr hy2

/-- The direct indexings of the Rust that the model writes with `getD` are in range under the
invariant: `curr_row[x - 2]` in `ww::<true>`, `prev_row[x + 1]` in `Properties::record` (not at
the last column, `prev_row` non-empty) and `prev_row[0]` after the swap at a row end. -/
theorem C03_record_reads_in_range (ps : PState) (c : Chan) (x y : Nat) (h : ps.Tracks c x y) :
    (2 ≤ ps.x → ps.x - 2 < ps.currRow.size) ∧
    (ps.x + 1 < ps.width → ps.prevRow.isEmpty = false → ps.x + 1 < ps.prevRow.size) ∧
    (∀ v : Int, 0 < (if ps.x < ps.currRow.size then ps.currRow.setIfInBounds ps.x v
                else ps.currRow.push v).size) :=
  h.record_reads_in_range

/-- The decoder model (Impl predictor state) is the grid decoder (Spec): decoding a channel of
width ≥ 1 with the incremental `PState` gives, for every tree, token list, previous channels and
weighted-predictor parameters, exactly the result of `decodeChannelGrid`, which keeps no predictor
state except the weighted predictor's and at each sample reads position, neighbours, properties
and prediction (`neighbors`, `propsSpec`, `predictSpec`) from the samples decoded so far.
(`decodeChannels` calls `decodeChannel` only for `info.w ≠ 0`.) -/
theorem C03_decoder_impl_eq_grid (sb : SBits) (tree : Tree) (wp : Wp) (chanIdx stream : Nat)
    (info : ChanInfo) (prevSame : List Chan) (tokens : List Nat) (hw : 1 ≤ info.w) :
    decodeChannel sb tree wp chanIdx stream info prevSame tokens
      = decodeChannelGrid sb tree wp chanIdx stream info prevSame tokens :=
  decodeChannel_eq_decodeChannelGrid sb tree wp chanIdx stream info prevSame tokens hw

/-- The same at the level of sample runs, for every leaf-selection function and starting anywhere:
from a state that tracks the `acc.size` samples decoded so far, `decodeSamples` and `decodeGrid`
produce the same samples, the same unread tokens and the same weighted-predictor state. -/
theorem C03_decode_samples_impl_eq_grid (sb : SBits) (leafOf : LeafOf) (prev : List Chan)
    (w h : Nat) (hw : 1 ≤ w) (n : Nat) (acc : Array Int) (ps : PState) (toks : List Nat)
    (ht : ps.Tracks (partialChan w h acc) (acc.size % w) (acc.size / w)) :
    (decodeSamples sb leafOf prev n ps toks).map (fun r => (acc ++ r.1.toArray, r.2.1, r.2.2.sc))
      = decodeGrid sb leafOf prev w h n acc ps.sc toks :=
  decodeSamples_eq_decodeGrid sb leafOf prev w h hw n acc ps toks ht

/-- The reference encoder with the Impl predictor state is the grid encoder (Spec) on every
well-formed channel of width ≥ 1. -/
theorem C03_encoder_impl_eq_grid (sb : SBits) (tree : Tree) (wp : Wp) (chanIdx stream : Nat)
    (c : Chan) (prevSame : List Chan) (hw : 1 ≤ c.w) (hsz : c.data.size = c.w * c.h) :
    encodeChannel sb tree wp chanIdx stream c prevSame
      = encodeGrid sb (specLeafOf tree chanIdx stream prevSame.length) prevSame c (c.w * c.h) 0
          ((if tree.usesProp 15 || tree.usesPred 6 then some wp else none).map
            (ScState.new c.w)) :=
  encodeChannel_eq_encodeGrid sb tree wp chanIdx stream c prevSame hw hsz

/-- Round trip stated on the Spec side only: whatever the grid encoder emits for a well-formed
channel, the grid decoder turns back into exactly the channel's samples, consuming exactly those
tokens — for every leaf-selection function, previous channels, weighted-predictor parameters. -/
theorem C03_grid_roundtrip (sb : SBits) (leafOf : LeafOf) (prev : List Chan) (c : Chan)
    (wpo : Option Wp) (out : List (Nat × Nat)) (rest : List Nat)
    (hw : 1 ≤ c.w) (hsz : c.data.size = c.w * c.h)
    (h : encodeGrid sb leafOf prev c (c.w * c.h) 0 (wpo.map (ScState.new c.w)) = some out) :
    ∃ sc', decodeGrid sb leafOf prev c.w c.h (c.w * c.h) #[] (wpo.map (ScState.new c.w))
      (out.map (·.2) ++ rest) = some (c.data, rest, sc') :=
  grid_roundtrip sb leafOf prev c wpo out rest hw hsz h

/-- A token the encoder chose reproduces the sample at that leaf, whatever the prediction. -/
theorem C03_residual_sound (sb : SBits) (leaf : Leaf) (pred v : Int) (tok : Nat)
    (h : encodeResidual sb leaf pred v = some tok) : sampleOf sb leaf pred tok = v :=
  encodeResidual_sound sb leaf pred v tok h

theorem C03_unpack_pack (v : Int) : unpackSigned (packSigned v) = v := unpack_pack v

/-- All RCT types (0..6, and anything else behaves as in the code) and permutations:
inverse ∘ forward = identity in exact integer arithmetic. -/
theorem C03_rct_inv_fwd (ty perm : Nat) (t : Int × Int × Int) :
    rctInvPermute perm (rctInvT id ty (rctFwdT ty (rctFwdPermute perm t))) = t := by
  rw [rct_sample_inv]
  exact rct_permute_inv perm t

/-- Squeeze of one line is inverted exactly, for every tendency function `T`. -/
theorem C03_squeeze_line_inv_fwd (T : Int → Int → Int → Int) (line : List Int) :
    unsqueezeLineG id T (squeezeLineG T line).1 (squeezeLineG T line).2 = line := by
  unfold unsqueezeLineG squeezeLineG
  exact unsqueeze_squeeze_go T line _

/-- The wrapping arithmetic of the sample types is the identity on in-range values. -/
theorem C03_wrap_exact (b : Nat) (v : Int) (hb : 0 < b)
    (h1 : -(2 : Int) ^ (b - 1) ≤ v) (h2 : v < (2 : Int) ^ (b - 1)) : wrap b v = v :=
  wrap_eq_self b v hb h1 h2

/-! Non-vacuity: a concrete channel with a two-level tree, the gradient and the weighted
predictor, encodes; decoding the tokens gives the samples back. -/
def exTree : Tree :=
  .dec 9 3 (.leaf { ctx := 0, pred := 5, offset := 0, mul := 1 })
    (.dec 3 1 (.leaf { ctx := 1, pred := 6, offset := 1, mul := 1 })
              (.leaf { ctx := 2, pred := 13, offset := 0, mul := 1 }))

def exChan : Chan := { w := 4, h := 3, data := #[5, 9, 200, 7, 0, 255, 13, 13, 90, 91, 92, 1] }

/-! Non-vacuity of the predictor-state theorems on the 4x3 channel: the hypotheses are
satisfiable (a state at the fast-path-free interior `(2, 1)`, one at the last column, one on the
third row, with and without the weighted predictor), and the conclusions are checked by
evaluation on the same states. -/
example : (PState.run exChan (some {}) 6).Tracks exChan 2 1 :=
  (C03_pstate_tracks_grid exChan (some {}) (by decide)).2.2.2 6
example : (PState.run exChan none 11).Tracks exChan 3 2 :=
  (C03_pstate_tracks_grid exChan none (by decide)).2.2.2 11
example : PState.ReachedBy exChan none
    (((PState.reset 4 none).record none 5).record (some default) 9) 2 :=
  (PState.ReachedBy.init.step none).step (some default)
/-- what the checks below look at: position, the seven neighbours, the previous gradient -/
def PState.obs (ps : PState) : Nat × Nat × List Int :=
  (ps.x, ps.y, [ps.w, ps.n, ps.nw, ps.nn, ps.ne, ps.nee, ps.ww, ps.prevGrad])
def Nb.obs (nb : Nb) : List Int := [nb.w, nb.n, nb.nw, nb.nn, nb.ne, nb.nee, nb.ww]
def PState.obsF (ps : PState) : List (Option Int) := [ps.nnF, ps.neF, ps.neeF, ps.wwF]
example : (PState.run exChan none 6).obs = (2, 1, [255, 200, 9, 200, 7, 7, 0, 4]) := by
  decide +kernel
example : (neighbors exChan 2 1).obs = [255, 200, 9, 200, 7, 7, 0] := by decide +kernel
example : (PState.run exChan (some {}) 10).props (PState.run exChan (some {}) 10).scPredict
    = [0, 0, 2, 2, 13, 91, 13, 91, -254, -151, -164, 242, 0, -187, 1, 1514] := by decide +kernel
example : propsSpec exChan 2 2 1514
    = [0, 0, 2, 2, 13, 91, 13, 91, -254, -151, -164, 242, 0, -187, 1, 1514] := by decide +kernel
/-- the fast path needs width ≥ 5: a 5x3 channel, position `(2, 2)` -/
def exChan5 : Chan :=
  { w := 5, h := 3, data := #[5, 9, 200, 7, 1, 0, 255, 13, 13, 2, 90, 91, 92, 1, 3] }
example : (PState.run exChan5 none 12).Tracks exChan5 2 2 ∧ 2 ≤ 2 ∧ 2 + 2 < exChan5.w ∧ 2 ≤ 2 :=
  ⟨(C03_pstate_tracks_grid exChan5 none (by decide)).2.2.2 12, by decide, by decide, by decide⟩
example : (PState.run exChan5 none 12).obsF = [some 200, some 13, some 2, some 90] := by
  decide +kernel
example : (neighbors exChan5 2 2).obs = [91, 13, 255, 200, 13, 2, 90] := by decide +kernel

/-! Non-vacuity of the grid encoder / decoder theorems: the 4x3 channel with the two-level tree
(gradient, weighted and predictor 13 leaves) is well-formed, the grid encoder accepts it, and the
grid decoder returns its samples. -/
example : 1 ≤ exChan.w ∧ exChan.data.size = exChan.w * exChan.h := by decide
example : (encodeGrid 32 (specLeafOf exTree 0 0 0) [] exChan 12 0
    ((some ({} : Wp)).map (ScState.new 4))).isSome = true := by decide +kernel
example :
    (match encodeGrid 32 (specLeafOf exTree 0 0 0) [] exChan 12 0 ((some ({} : Wp)).map (ScState.new 4)) with
     | some toks => (decodeChannelGrid 32 exTree {} 0 0 { w := 4, h := 3, hshift := 0, vshift := 0 } []
          (toks.map (·.2))).map (·.1.data.toList)
     | none => none) = some exChan.data.toList := by decide +kernel
example : (PState.run exChan (some {}) 5).Tracks
    (partialChan 4 3 #[5, 9, 200, 7, 0]) ((#[5, 9, 200, 7, 0] : Array Int).size % 4)
    ((#[5, 9, 200, 7, 0] : Array Int).size / 4) :=
  ((C03_pstate_tracks_grid exChan (some {}) (by decide)).2.2.2 5).congr rfl (by
    intro i j hi hb
    have hi' : i < 4 := hi
    have hb' : j < 1 ∨ (j = 1 ∧ i < 1) := hb
    have : (i = 0 ∨ i = 1 ∨ i = 2 ∨ i = 3) ∧ (j = 0 ∨ j = 1) := by omega
    rcases this with ⟨rfl | rfl | rfl | rfl, rfl | rfl⟩ <;> first | rfl | omega)

example : noTabB 0 0 0 exTree = true := by decide +kernel

/-! Non-vacuity of `C03_flatten_eq_eval`: a chain of five decisions on property 9 (and a nested
decision on property 3) compiles to a lookup table; the hypotheses hold and the walk over the
flattened array is evaluated. -/
def exTabTree : Tree :=
  .dec 9 10 (.leaf { ctx := 0, pred := 5, offset := 0, mul := 1 })
    (.dec 9 5 (.leaf { ctx := 1, pred := 5, offset := 0, mul := 1 })
      (.dec 9 0 (.dec 3 2 (.leaf { ctx := 2, pred := 5, offset := 0, mul := 1 })
                          (.leaf { ctx := 6, pred := 4, offset := 0, mul := 1 }))
        (.dec 9 (-5) (.leaf { ctx := 3, pred := 5, offset := 0, mul := 1 })
          (.dec 9 (-10) (.leaf { ctx := 4, pred := 5, offset := 0, mul := 1 })
                        (.leaf { ctx := 5, pred := 5, offset := 0, mul := 1 })))))

def isTableNode : FlatNode → Bool
  | .table _ _ _ => true
  | _ => false

example : exTabTree.valuesInI32 = true := by decide +kernel
example : noTabB 0 0 0 exTabTree = false := by decide +kernel
example : (flatten 0 0 0 exTabTree)[0]?.map isTableNode = some true := by decide +kernel
example : getLeaf (flatten 0 0 0 exTabTree) (fun k => if k = 9 then 3 else 7)
    = some { ctx := 2, pred := 5, offset := 0, mul := 1 } := by decide +kernel
example : getLeaf (flatten 0 0 0 exTabTree) (fun k => if k = 9 then 3 else 1)
    = some { ctx := 6, pred := 4, offset := 0, mul := 1 } := by decide +kernel
example : getLeaf (flatten 0 0 0 exTabTree) (fun k => if k = 9 then -2 else 1)
    = some { ctx := 3, pred := 5, offset := 0, mul := 1 } := by decide +kernel
example : getLeaf (flatten 0 0 0 exTabTree) (fun _ => i32Min)
    = some { ctx := 5, pred := 5, offset := 0, mul := 1 } := by decide +kernel
example : getLeaf (flatten 0 0 0 exTabTree) (fun _ => i32Max)
    = some { ctx := 0, pred := 5, offset := 0, mul := 1 } := by decide +kernel
/-! The repaired table for a root value `i32::MAX` (the F14 witness tree): `[1, 2, 3, 4, 4]`; the
hypotheses of `C03_flatten_eq_eval` hold and the walk gives the tree's leaf. -/
example : exMaxTree.valuesInI32 = true := by decide +kernel
example : ((flatten 0 0 0 exMaxTree)[0]?.map FlatNode.tableIndices) = some [1, 2, 3, 4, 4] := by
  decide +kernel
example : getLeaf (flatten 0 0 0 exMaxTree) (fun _ => i32Max)
    = some (exMaxTree.evalFor 0 0 0 (fun _ => i32Max)) := by decide +kernel
example : getLeaf (flatten 0 0 0 exMaxTree) (fun _ => i32Max)
    = some { ctx := 1, pred := 0, offset := 0, mul := 1 } := by decide +kernel
example : getLeaf (flatten 0 0 0 exMaxTree) (fun _ => i32Max - 1)
    = some { ctx := 2, pred := 0, offset := 0, mul := 1 } := by decide +kernel
example : getLeaf (flatten 0 0 0 exMaxTree) (fun _ => i32Min)
    = some { ctx := 4, pred := 0, offset := 0, mul := 1 } := by decide +kernel
/-- the old and the repaired flattening agree away from `i32::MAX` root values -/
example : getLeaf (flattenOld 0 0 0 exTabTree) (fun k => if k = 9 then 3 else 1)
    = getLeaf (flatten 0 0 0 exTabTree) (fun k => if k = 9 then 3 else 1) := by decide +kernel

example : (encodeChannel 32 exTree {} 0 0 exChan []).isSome = true := by decide +kernel

example :
    (match encodeChannel 32 exTree {} 0 0 exChan [] with
     | some toks => (decodeChannel 32 exTree {} 0 0 { w := 4, h := 3, hshift := 0, vshift := 0 } []
          (toks.map (·.2))).map (·.1.data.toList)
     | none => none) = some exChan.data.toList := by decide +kernel

example : (squeezeLineG (tendency 32) [10, 3, 7, 7, 250, 0, 4]).1 = [7, 7, 125, 4] := by decide +kernel
example : unsqueezeLine 32 (squeezeLine 32 [10, 3, 7, 7, 250, 0, 4]).1 (squeezeLine 32 [10, 3, 7, 7, 250, 0, 4]).2
    = [10, 3, 7, 7, 250, 0, 4] := by decide +kernel

/-! ## The whole transform chain: the decoder's inverse undoes the reference encoder's forward -/

/-- One RCT on three whole channels: all 42 `rct_type`s, wrapping arithmetic at the sample width.
Hypothesis `rctChanOk`: equally many samples, every (permuted) triple `rctTripleOk`. -/
theorem C03_rct_chan_inv_fwd (sb : SBits) (t : Nat) (x y z : Chan)
    (h : rctChanOk sb t x y z = true) :
    rctInverse sb t (rctForward t x y z).1 (rctForward t x y z).2.1 (rctForward t x y z).2.2
      = (x, y, z) :=
  rctInverse_rctForward sb t x y z h

/-- One squeeze of a whole channel, horizontal or vertical, any size (odd, 1, 0 included):
averages and residuals are merged back to the channel. Hypothesis `sqChanOk`: buffer of `w * h`
samples, every row / column `sqLineOk`. -/
theorem C03_squeeze_chan_inv_fwd (sb : SBits) (hz : Bool) (c : Chan) (h : sqChanOk sb hz c = true) :
    unsqueezeChan sb hz (squeezeChan sb hz c).1 (squeezeChan sb hz c).2 = c :=
  unsqueezeChan_squeezeChan sb hz c h

/-- One squeeze step on the channel list (`squeezeFwdStep` is the body of `forwardOne`'s fold,
`squeezeInvStep` that of `inverseOne`'s): the residual channels are found again — after the
averages (in place) or at the end of the list — and every pair is merged into its channel. -/
theorem C03_squeeze_step_inv_fwd (sb : SBits) (chans : List Chan) (sp : SqueezeParam)
    (h : sqStepOk sb chans sp = true) :
    squeezeInvStep sb (squeezeFwdStep sb chans sp) sp = chans :=
  squeezeInvStep_squeezeFwdStep sb chans sp h

/-- Palette, one pixel: the index `k` the encoder's search returns is an explicit entry that is
not a delta entry (`nbDeltas ≤ k < nbColours`), and the decoder's `paletteValue` of it is the
pixel's sample in every one of the `n` channels — at every sample width and bit depth. -/
theorem C03_palette_chosen_index_value (sb : SBits) (pal : Chan) (srcs : List Chan)
    (n nbc nbd bitDepth x y k : Nat) (h : palFind pal srcs n nbc nbd x y = some k) :
    nbd ≤ k ∧ k < nbc ∧
      ∀ c, c < n → paletteValue sb pal nbc bitDepth (k : Int) c = (srcs.getD c default).get x y := by
  obtain ⟨h1, h2, h3⟩ := palFind_some h
  exact ⟨h1, h2, fun c hc => by rw [paletteValue_explicit sb pal nbc bitDepth k c h2, h3 c hc]⟩

/-- One palette transform in the pipeline: if `transformInfo` accepts it on a channel list whose
dimensions the channels have, and the buffers are well-formed, then whatever the encoder produces
is decoded to the original channels. No hypothesis on sample values. -/
theorem C03_palette_inv_fwd (sb : SBits) (bitDepth : Nat) (wp : Wp) (cl cl' : ChanList)
    (b n nbc nbd dp : Nat) (t' : Transform) (chans coded : List Chan) (pal : Option Chan)
    (hti : transformInfo cl (.palette b n nbc nbd dp) = .ok (cl', t'))
    (hd : dimsMatch chans cl.info = true) (hwf : allWf chans = true)
    (h : forwardOne sb chans pal t' = some coded) :
    inverseOne sb bitDepth wp coded t' = chans := by
  obtain ⟨rfl, _⟩ := transformInfo_palette_ok hti
  exact inverseOne_forwardOne sb bitDepth wp chans coded pal _ (palette_stepOk_of_info sb hti hd hwf) h

/-- One transform of any kind. -/
theorem C03_transform_inv_fwd (sb : SBits) (bitDepth : Nat) (wp : Wp) (chans coded : List Chan)
    (pal : Option Chan) (t : Transform) (hok : stepOk sb chans t = true)
    (h : forwardOne sb chans pal t = some coded) :
    inverseOne sb bitDepth wp coded t = chans :=
  inverseOne_forwardOne sb bitDepth wp chans coded pal t hok h

/-- **The whole chain.** For every sample width, bit depth, weighted-predictor header, every list
of resolved transforms, palette tables and channels: if the reference encoder accepts
(`forwardAll … = some coded`) and `chainOk` holds, the decoder's inverse chain returns exactly the
original channels. -/
theorem C03_transform_chain_inv_fwd (sb : SBits) (bitDepth : Nat) (wp : Wp) (ts : List Transform)
    (pals chans coded : List Chan) (hok : chainOk sb ts pals chans = true)
    (h : forwardAll sb ts pals chans = some coded) :
    inverseAll sb bitDepth wp ts coded = chans :=
  inverseAll_forwardAll sb bitDepth wp ts pals chans coded hok h

/-- Chains of RCTs only (any number, overlapping channel ranges allowed): the instance of
`C03_transform_chain_inv_fwd` for `ts = [rct b₁ t₁, rct b₂ t₂, …]`; no palette table is consumed. -/
theorem C03_rct_chain_inv_fwd (sb : SBits) (bitDepth : Nat) (wp : Wp) (bts : List (Nat × Nat))
    (pals chans coded : List Chan)
    (hok : chainOk sb (bts.map fun p => Transform.rct p.1 p.2) pals chans = true)
    (h : forwardAll sb (bts.map fun p => Transform.rct p.1 p.2) pals chans = some coded) :
    inverseAll sb bitDepth wp (bts.map fun p => Transform.rct p.1 p.2) coded = chans :=
  inverseAll_forwardAll sb bitDepth wp _ pals chans coded hok h

/-- Channel bookkeeping. If `transformInfoAll` accepts the transform list on a channel list whose
dimensions the channels have (it returns the list `cl'` the decoder decodes channels for, and the
resolved transforms `ts'` — default squeeze parameters filled in), the buffers are well-formed and
every palette table is a well-formed `nbColours × numC` grid, then the channels the forward
transforms produce have exactly the dimensions of `cl'` (as many, same order: the palette meta
channel in front, squeeze residuals after their averages or at the end) and well-formed buffers. -/
theorem C03_forward_matches_transform_info (sb : SBits) (ts : List Transform) (cl cl' : ChanList)
    (ts' : List Transform) (pals chans coded : List Chan)
    (hti : transformInfoAll cl ts = .ok (cl', ts'))
    (hd : dimsMatch chans cl.info = true) (hwf : allWf chans = true)
    (hpals : palTablesOk ts' pals = true)
    (hf : forwardAll sb ts' pals chans = some coded) :
    dimsMatch coded cl'.info = true ∧ allWf coded = true :=
  forwardAll_bookkeeping sb ts cl cl' ts' pals chans coded hti hd hwf hpals hf

/-- **The chain in the pipeline.** As `encodeFrame` and the decoder use it: `transformInfoAll`
accepts `ts` on the channel list `cl` and resolves it to `ts'`; the original channels have the
dimensions of `cl` and well-formed buffers; the palette tables are well-formed; the reference
encoder accepts. Then under the value conditions `chainRangeOk` alone the coded channels are what
the decoder expects (`dimsMatch coded cl'.info`, well-formed) and its inverse chain returns the
original channels. -/
theorem C03_pipeline_roundtrip (sb : SBits) (bitDepth : Nat) (wp : Wp) (ts : List Transform)
    (cl cl' : ChanList) (ts' : List Transform) (pals chans coded : List Chan)
    (hti : transformInfoAll cl ts = .ok (cl', ts'))
    (hd : dimsMatch chans cl.info = true) (hwf : allWf chans = true)
    (hpals : palTablesOk ts' pals = true)
    (hr : chainRangeOk sb ts' pals chans = true)
    (hf : forwardAll sb ts' pals chans = some coded) :
    dimsMatch coded cl'.info = true ∧ allWf coded = true ∧
      inverseAll sb bitDepth wp ts' coded = chans :=
  have hb := forwardAll_bookkeeping sb ts cl cl' ts' pals chans coded hti hd hwf hpals hf
  ⟨hb.1, hb.2, inverseAll_forwardAll sb bitDepth wp ts' pals chans coded
    (chainOk_of_range sb ts cl cl' ts' pals chans hti hd hwf hpals hr) hf⟩

/-- One bit of headroom is enough for the value conditions: three samples in
`[-2^(sb-2), 2^(sb-2))` are `rctTripleOk` for every RCT type, and a line of such samples is
`sqLineOk`. (8-bit images in `i16` buffers, 16-bit and up to 30-bit images in `i32` buffers have
it at the first transform; later transforms see the previous ones' output.) -/
theorem C03_headroom_suffices (sb : SBits) :
    (∀ (ty : Nat) (t : Int × Int × Int), inHeadroom sb t.1 = true → inHeadroom sb t.2.1 = true →
      inHeadroom sb t.2.2 = true → rctTripleOk sb ty t = true) ∧
    (∀ line : List Int, line.all (inHeadroom sb) = true → sqLineOk sb line = true) :=
  ⟨fun ty t h1 h2 h3 => rctTripleOk_of_headroom sb ty t h1 h2 h3,
   fun line h => sqLineOk_of_headroom sb line h⟩

/-- **Finding (reference encoder), about the UNREPAIRED forward palette** (`forwardPaletteOld` in
`Proofs/TransformChain.lean`, not the current `forwardOne`). The image `[5, 7]` with the table
`[7, 5]`, `nbDeltas = 1`, delta predictor 1 (West): the old search, which ignored `nbDeltas`,
accepted and coded the indices `[1, 0]`; index 0 is a delta entry, so the decoder (the model, and
the real `Palette::inverse_inner`: replayed, it returns `5 12`) adds the prediction `W = 5` to the
second pixel: `[5, 12]`. The repaired `forwardOne` searches the non-delta entries only and
rejects this plan (pixel 7 has no non-delta entry). -/
theorem C03_palette_forward_needs_nondelta :
    (forwardPaletteOld [{ w := 2, h := 1, data := #[5, 7] }] (some { w := 2, h := 1, data := #[7, 5] }) 0 1 2).map
        (fun cs => cs.map (·.data.toList)) = some [[7, 5], [1, 0]] ∧
      (inverseOne 32 8 {} [{ w := 2, h := 1, data := #[7, 5] }, { w := 2, h := 1, data := #[1, 0] }]
        (.palette 0 1 2 1 1)).map (·.data.toList) = [[5, 12]] ∧
      (forwardOne 32 [{ w := 2, h := 1, data := #[5, 7] }] (some { w := 2, h := 1, data := #[7, 5] })
        (.palette 0 1 2 1 1)).isNone = true := by
  decide +kernel

/-! Non-vacuity of the chain theorems: a 3-channel 5x4 image through
`[palette (1 channel, 6 entries of which 2 are delta entries), rct 10 on the index channel and the
two others, squeeze (horizontal in place on three channels, then vertical not in place on two)]`:
`chainOk` holds, the encoder accepts, and decoding gives the image back (by evaluation, not through
the theorem). -/
def exRgb3 : List Chan :=
  [{ w := 5, h := 4, data := #[0, 3, 2, 1, 0, 2, 0, 3, 2, 2, 1, 0, 3, 3, 1, 0, 2, 1, 3, 0] },
   { w := 5, h := 4, data := #[0, 10, 20, 0, 10, 20, 255, 20, 0, 0, 10, 0, 7, 200, 100, 0, 0, 99, 98, 97] },
   { w := 5, h := 4, data := #[0, 0, 0, 0, 0, 100, 100, 0, 0, 100, 0, 250, 251, 252, 3, 2, 1, 0, 128, 127] }]
/-- palette table for channel 0: 6 entries; the first two are delta entries and are never chosen -/
def exPal6 : Chan := { w := 6, h := 1, data := #[3, 0, 0, 1, 2, 3] }
def exChain3 : List Transform :=
  [.palette 0 1 6 2 5, .rct 1 10,
   .squeeze [{ horizontal := true, inPlace := true, beginC := 1, numC := 3 },
             { horizontal := false, inPlace := false, beginC := 2, numC := 2 }]]
def chanObs (cs : List Chan) : List (Nat × Nat × List Int) := cs.map fun c => (c.w, c.h, c.data.toList)

example : chainOk 32 exChain3 [exPal6] exRgb3 = true := by decide +kernel
example : chainOk 16 exChain3 [exPal6] exRgb3 = true := by decide +kernel
example : ((forwardAll 32 exChain3 [exPal6] exRgb3).map fun cs => cs.map (·.data.size))
    = some [6, 12, 6, 6, 8, 8, 8, 6, 6] := by decide +kernel
example : ((forwardAll 32 exChain3 [exPal6] exRgb3).map fun coded =>
    chanObs (inverseAll 32 8 {} exChain3 coded)) = some (chanObs exRgb3) := by decide +kernel
/-- the index channel uses the non-delta entries 2..5 only -/
example : ((forwardOne 32 exRgb3 (some exPal6) (.palette 0 1 6 2 5)).map fun cs =>
    (cs.getD 1 default).data.toList)
    = some [2, 5, 4, 3, 2, 4, 2, 5, 4, 4, 3, 2, 5, 5, 3, 2, 4, 3, 5, 2] := by decide +kernel
example : palFind exPal6 (exRgb3.take 1) 1 6 2 1 0 = some 5 := by decide +kernel
example : rctChanOk 32 10 (exRgb3.getD 0 default) (exRgb3.getD 1 default) (exRgb3.getD 2 default) = true := by
  decide +kernel
example : sqChanOk 32 true (exRgb3.getD 1 default) = true ∧ sqChanOk 32 false (exRgb3.getD 2 default) = true := by
  decide +kernel
example : sqStepOk 32 exRgb3 { horizontal := false, inPlace := false, beginC := 1, numC := 2 } = true := by
  decide +kernel
/-- an RCT-only chain (two RCTs on the same three channels) -/
example : chainOk 32 ([(0, 41), (0, 6)].map fun p => Transform.rct p.1 p.2) [] exRgb3 = true ∧
    (forwardAll 32 ([(0, 41), (0, 6)].map fun p => Transform.rct p.1 p.2) [] exRgb3).isSome = true := by
  decide +kernel

/-- all hypotheses of `C03_pipeline_roundtrip` (and of `C03_forward_matches_transform_info`,
`C03_palette_inv_fwd`) for a plan, as one Boolean -/
def pipelineHyps (sb : SBits) (cl : ChanList) (ts : List Transform) (pals chans : List Chan) : Bool :=
  match transformInfoAll cl ts with
  | .ok (_, ts') =>
    dimsMatch chans cl.info && allWf chans && palTablesOk ts' pals && chainRangeOk sb ts' pals chans &&
      (forwardAll sb ts' pals chans).isSome
  | .error _ => false

def exInfo3 : ChanList :=
  { info := List.replicate 3 { w := 5, h := 4, hshift := 0, vshift := 0 }, nbMeta := 0 }
example : pipelineHyps 32 exInfo3 exChain3 [exPal6] exRgb3 = true := by decide +kernel
/-- default squeeze parameters: a 12x10 channel; `transformInfo` resolves `squeeze []` to
`[horizontal, vertical]` (both in place) and the round trip holds -/
def exWide : List Chan :=
  [Chan.ofFn 12 10 fun x y => ((x * 37 + y * 91 + x * y * 5) % 256 : Nat)]
def exInfoWide : ChanList := { info := [{ w := 12, h := 10, hshift := 0, vshift := 0 }], nbMeta := 0 }
example : pipelineHyps 16 exInfoWide [.squeeze []] [] exWide = true := by decide +kernel
def sqParamsObs : Transform → List (Bool × Bool × Nat × Nat)
  | .squeeze ps => ps.map fun sp => (sp.horizontal, sp.inPlace, sp.beginC, sp.numC)
  | _ => []
def exWideObs : Option (List (List (Bool × Bool × Nat × Nat)) × List (Nat × Nat) × List (Nat × Nat) × Bool) :=
  match transformInfoAll exInfoWide [.squeeze []] with
  | .ok (cl', ts') =>
    (forwardAll 16 ts' [] exWide).map fun coded =>
      (ts'.map sqParamsObs, cl'.info.map ChanInfo.dims, coded.map Chan.dims,
        chanObs (inverseAll 16 8 {} ts' coded) == chanObs exWide)
  | .error _ => none
example : exWideObs.map (·.1) = some [[(true, true, 0, 1), (false, true, 0, 1)]] := by decide +kernel
example : exWideObs.map (·.2.1) = some [(6, 5), (6, 5), (6, 10)] := by decide +kernel
example : exWideObs.map (·.2.2.1) = some [(6, 5), (6, 5), (6, 10)] := by decide +kernel
example : exWideObs.map (·.2.2.2) = some true := by decide +kernel
/-- headroom: 8-bit samples in `i16` buffers -/
example : [0, 255, 128, 7].all (inHeadroom 16) = true ∧ inHeadroom 32 (2 ^ 30 - 1) = true ∧
    inHeadroom 32 (2 ^ 30) = false := by decide +kernel
/-- the value conditions are needed: RCT type 4 on `d = f = 2·10⁹` (`d + f` is not an `i32`) is
accepted by the encoder and not inverted; the triple is not `rctTripleOk` -/
example : rctTripleOk 32 4 (2000000000, -2000000000, 2000000000) = false ∧
    rctInvT (wrap 32) 4 (rctFwdT 4 (2000000000, -2000000000, 2000000000))
      = (2000000000, 147483648, 2000000000) := by decide +kernel

end Jxl.Modular

namespace Jxl.Enc
open Jxl.Modular

/-- **Group partition.** For every group dimension, number of group columns and list of
non-global channels with their infos (any sizes and shifts) satisfying `groupLayoutOk`: cutting
the channels into the per-group pieces (`groupPieceChans`, what `encodeFrame` codes as the groups'
sub-images) and pasting the pieces back (`pasteGroups`, what it does with the decoded sub-images)
returns exactly the channels. -/
theorem C03_group_partition_reassembles (groupDim gcols : Nat) (restCh : List (ChanInfo × Chan))
    (hok : groupLayoutOk groupDim gcols restCh = true) :
    pasteGroups groupDim gcols (restCh.map (·.1))
      (fun g => some ((groupPieceChans groupDim gcols restCh g).map (·.2))) = restCh.map (·.2) :=
  pasteGroups_groupPieces groupDim gcols restCh hok

/-- The geometric half of `groupLayoutOk` for channels of the natural shape: width
`⌈cw / 2^s⌉` for a frame of width `cw` and shift `s` with `2^s` dividing the group dimension
(`128 · 2^group_shift`, `s ≤ 7 + group_shift`), and `⌈cw / groupDim⌉` group columns. -/
theorem C03_group_columns_cover (cw groupDim s : Nat) (hdvd : 2 ^ s ∣ groupDim) (hg : 0 < groupDim) :
    0 < groupDim / 2 ^ s ∧ ceilDiv cw (2 ^ s) ≤ ceilDiv cw groupDim * (groupDim / 2 ^ s) :=
  group_columns_cover cw groupDim s hdvd hg

/-! Non-vacuity: group dimension 2, three group columns (a 5-wide frame), channels `A` 1x1 (empty
in every group but the first), `B` 5x3, `C` 3x3 with `hshift = 1` (group cell 1x2). -/
def exRest : List (ChanInfo × Chan) :=
  [({ w := 1, h := 1, hshift := 0, vshift := 0 }, { w := 1, h := 1, data := #[42] }),
   ({ w := 5, h := 3, hshift := 0, vshift := 0 },
    { w := 5, h := 3, data := #[1, 2, 3, 4, 5, 6, 7, 8, 9, 10, 11, 12, 13, 14, 15] }),
   ({ w := 3, h := 3, hshift := 1, vshift := 0 },
    { w := 3, h := 3, data := #[-1, -2, -3, -4, -5, -6, -7, -8, -9] })]
example : groupLayoutOk 2 3 exRest = true := by decide +kernel
/-- group 1 (column 1, row 0) has no piece of `A`; its sub-image is `[B-piece 2x2, C-piece 1x2]` -/
example : (groupPieceChans 2 3 exRest 1).map (fun p => (p.2.w, p.2.h, p.2.data.toList))
    = [(2, 2, [3, 4, 8, 9]), (1, 2, [-2, -5])] := by decide +kernel
example : (groupPieceChans 2 3 exRest 5).map (fun p => (p.2.w, p.2.h, p.2.data.toList))
    = [(1, 1, [15]), (1, 1, [-9])] := by decide +kernel
example : chanObs (pasteGroups 2 3 (exRest.map (·.1))
      (fun g => some ((groupPieceChans 2 3 exRest g).map (·.2))))
    = chanObs (exRest.map (·.2)) := by decide +kernel
example : 2 ^ 3 ∣ 128 * 2 ^ 1 ∧ 0 < 128 * 2 ^ 1 := by decide

end Jxl.Enc
