import JxlModel.Proofs.Modular
import JxlModel.Proofs.Flatten
/-!
# C03 — lossless Modular images decode to exactly the encoded samples

Layers (DESIGN.md §4 C03):

* token level: for **every** way of finding leaves (`leafOf`: any tree, any flattening, any
  property vector), every predictor state (incl. any weighted-predictor parameters), every
  previous-channel set and every sample sequence the reference encoder accepts, the decoder
  reproduces the samples exactly and consumes exactly the encoder's tokens
  (`C03_token_roundtrip`);
* transforms in exact integer arithmetic: all 7 RCT types × 6 permutations, and squeeze for
  **every** tendency function (`C03_rct_inv_fwd`, `C03_squeeze_line_inv_fwd`); `C03_wrap_exact`
  is the bridge to the wrapping arithmetic the code runs (identity on in-range values);
* zig-zag sign packing (`C03_unpack_pack`).

* flattened tree = tree for trees without lookup tables (`C03_flatten_eq_eval_partial`).

Not proved here (tied by the differential run only, see evidence): lookup-table compilation;
that the incremental predictor state equals the neighbours read from the grid;
palette; the group partition. The statements are kept below as comments where not yet proved.
-/
namespace Jxl.Modular

/-- Token-level round trip, for every leaf-selection function, state, and sample list. -/
theorem C03_token_roundtrip (sb : SBits) (leafOf : LeafOf) (prev : List Chan)
    (vs : List Int) (ps : PState) (out : List (Nat × Nat)) (rest : List Nat)
    (h : encodeSamples sb leafOf prev vs ps = some out) :
    ∃ ps', decodeSamples sb leafOf prev vs.length ps (out.map (·.2) ++ rest) = some (vs, rest, ps') :=
  decode_encode_samples sb leafOf prev vs ps out rest h

/-- Flattened tree = tree (Impl refines Spec): walking the flattened array (`flatten`, fused
two-level decisions, static pruning on channel / stream / absent previous channels, breadth-first
index assignment) reaches exactly the leaf the tree itself selects — for every tree none of whose
subtrees compiles to a lookup table, every channel, stream index, number of previous channels and
property vector.
Full statement (not yet proved): the same without the `noTabB` hypothesis, i.e. including
`try_compile_to_table` (range bookkeeping, 1022 span rule, index fill), for property values in the
`i32` range. The table path is tied to the code by the differential run (kinds simple-table,
gradient-table, mixed-table, redundant, wide-span, prevchan-table). -/
theorem C03_flatten_eq_eval_partial (c s pc : Nat) (t : Tree) (props : Nat → Int)
    (hnt : noTabB c s pc t = true) :
    getLeaf (flatten c s pc t) props = some (t.evalFor c s pc props) :=
  flatten_getLeaf_eq_evalFor c s pc t props (noTabB_sound c s pc t hnt)

/-- A token the encoder chose reproduces the sample at that leaf, whatever the prediction. -/
theorem C03_residual_sound (sb : SBits) (leaf : Leaf) (pred v : Int) (tok : Nat)
    (h : encodeResidual sb leaf pred v = some tok) : sampleOf sb leaf pred tok = v :=
  encodeResidual_sound sb leaf pred v tok h

theorem C03_unpack_pack (v : Int) : unpackSigned (packSigned v) = v := unpack_pack v

/-- All RCT types (0..6, and anything else behaves as in the code) and permutations:
inverse ∘ forward = identity in exact integer arithmetic. -/
theorem C03_rct_inv_fwd (ty perm : Nat) (t : Int × Int × Int) :
    rctInvPermute perm (rctInvT id ty (rctFwdT ty (rctFwdPermute perm t))) = t := by
  rw [rct_sample_inv]
  exact rct_permute_inv perm t

/-- Squeeze of one line is inverted exactly, for every tendency function `T`. -/
theorem C03_squeeze_line_inv_fwd (T : Int → Int → Int → Int) (line : List Int) :
    unsqueezeLineG id T (squeezeLineG T line).1 (squeezeLineG T line).2 = line := by
  unfold unsqueezeLineG squeezeLineG
  exact unsqueeze_squeeze_go T line _

/-- The wrapping arithmetic of the sample types is the identity on in-range values. -/
theorem C03_wrap_exact (b : Nat) (v : Int) (hb : 0 < b)
    (h1 : -(2 : Int) ^ (b - 1) ≤ v) (h2 : v < (2 : Int) ^ (b - 1)) : wrap b v = v :=
  wrap_eq_self b v hb h1 h2

/-! Non-vacuity: a concrete channel with a two-level tree, the gradient and the weighted
predictor, encodes; decoding the tokens gives the samples back. -/
def exTree : Tree :=
  .dec 9 3 (.leaf { ctx := 0, pred := 5, offset := 0, mul := 1 })
    (.dec 3 1 (.leaf { ctx := 1, pred := 6, offset := 1, mul := 1 })
              (.leaf { ctx := 2, pred := 13, offset := 0, mul := 1 }))

def exChan : Chan := { w := 4, h := 3, data := #[5, 9, 200, 7, 0, 255, 13, 13, 90, 91, 92, 1] }

example : noTabB 0 0 0 exTree = true := by decide +kernel

example : (encodeChannel 32 exTree {} 0 0 exChan []).isSome = true := by decide +kernel

example :
    (match encodeChannel 32 exTree {} 0 0 exChan [] with
     | some toks => (decodeChannel 32 exTree {} 0 0 { w := 4, h := 3, hshift := 0, vshift := 0 } []
          (toks.map (·.2))).map (·.1.data.toList)
     | none => none) = some exChan.data.toList := by decide +kernel

example : (squeezeLineG (tendency 32) [10, 3, 7, 7, 250, 0, 4]).1 = [7, 7, 125, 4] := by decide +kernel
example : unsqueezeLine 32 (squeezeLine 32 [10, 3, 7, 7, 250, 0, 4]).1 (squeezeLine 32 [10, 3, 7, 7, 250, 0, 4]).2
    = [10, 3, 7, 7, 250, 0, 4] := by decide +kernel

end Jxl.Modular
