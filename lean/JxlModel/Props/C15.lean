import JxlModel.Proofs.Output
/-!
# C15 — output buffers agree with each other and honour orientation

`fromGridsMap`, `fromGridsDims`, `toOriginalCoord`, `streamSwapsDims`, `applyOrientationPt`,
`applyOrientationDims` are GENERATED from the `match` arms of the working tree
(`tools/translate_c15.py` → `JxlModel/Gen/Orientation.lean`) before every build, so each theorem
below is re-checked against the code as it is now: every proof splits into the eight orientations,
unfolds the generated `if` chain with `simp` and closes the arithmetic with `omega`.
`specOrient`/`specDims` (Model/Output.lean) are the hand-written meaning of the orientations.

Not covered by theorem (measured by the correspondence run, tools/props/c15.py): the IEEE f32
arithmetic of `parse_integer_sample` and of the `u8`/`u16` conversions (modelled bit-exactly with
`Float32`, compared on every sample; exhaustively for depths 1..16 against `idealRound`), that the
Rust loops are the cursor machine `writeToBuffer`, and that `Render` feeds the maps the regions
and channel lists modelled here.
-/
namespace Jxl.Props.C15
open Jxl.Output Jxl.Gen.Orientation

/-- Stream and buffer use mutually inverse maps: for every orientation, going from an unoriented
pixel to its place in the oriented buffer (`FrameBuffer::from_grids`) and back through
`ImageStream::to_original_coord` (which is given the oriented dimensions) is the identity, and so
is the other composition on the oriented grid. -/
theorem C15_stream_inv_buffer (o w h : Nat) (ho : 1 ≤ o ∧ o ≤ 8) :
    (∀ x y, x < w → y < h →
      toOriginalCoord o (fromGridsDims o w h).1 (fromGridsDims o w h).2
        (fromGridsMap o w h x y).1 (fromGridsMap o w h x y).2 = (x, y)) ∧
    (∀ x' y', x' < (fromGridsDims o w h).1 → y' < (fromGridsDims o w h).2 →
      fromGridsMap o w h
        (toOriginalCoord o (fromGridsDims o w h).1 (fromGridsDims o w h).2 x' y').1
        (toOriginalCoord o (fromGridsDims o w h).1 (fromGridsDims o w h).2 x' y').2 = (x', y')) := by
  rcases orient_cases ho with rfl | rfl | rfl | rfl | rfl | rfl | rfl | rfl <;>
    (constructor <;> intro a b ha hb <;>
      simp [fromGridsDims, fromGridsMap, toOriginalCoord] at ha hb ⊢ <;> omega)

example : toOriginalCoord 6 2 3 (fromGridsMap 6 3 2 2 0).1 (fromGridsMap 6 3 2 2 0).2 = (2, 0) := by decide

/-- Dimensions: all three places that compute output dimensions (buffer copy, stream, header)
agree, swap width and height exactly for orientations 5..8, and equal the displayed size of the
specification; `width_with_orientation`/`height_with_orientation` are
`apply_orientation(w, h, 0, 0, false).0/.1` (pinned by the translator). -/
theorem C15_oriented_dims (o w h : Nat) (ho : 1 ≤ o ∧ o ≤ 8) :
    fromGridsDims o w h = (if o ≥ 5 then (h, w) else (w, h)) ∧
    fromGridsDims o w h = applyOrientationDims o w h ∧
    fromGridsDims o w h = (if streamSwapsDims o then (h, w) else (w, h)) ∧
    fromGridsDims o w h = specDims o w h := by
  rcases orient_cases ho with rfl | rfl | rfl | rfl | rfl | rfl | rfl | rfl <;>
    simp [fromGridsDims, applyOrientationDims, streamSwapsDims, specDims]

example : fromGridsDims 7 640 480 = (480, 640) := by decide

/-- `ImageMetadata::apply_orientation` with `inverse = true` on the oriented dimensions undoes
`inverse = false` on the unoriented dimensions, and vice versa, at every integer coordinate
(also outside the image: the maps are affine). -/
theorem C15_apply_orientation_inverse (o w h : Nat) (l t : Int) (ho : 1 ≤ o ∧ o ≤ 8) :
    (applyOrientationPt o (applyOrientationDims o w h).1 (applyOrientationDims o w h).2
        (applyOrientationPt o w h l t false).1 (applyOrientationPt o w h l t false).2 true = (l, t)) ∧
    (applyOrientationPt o w h
        (applyOrientationPt o (applyOrientationDims o w h).1 (applyOrientationDims o w h).2 l t true).1
        (applyOrientationPt o (applyOrientationDims o w h).1 (applyOrientationDims o w h).2 l t true).2
        false = (l, t)) := by
  rcases orient_cases ho with rfl | rfl | rfl | rfl | rfl | rfl | rfl | rfl <;>
    (constructor <;> simp [applyOrientationPt, applyOrientationDims] <;> omega)

example : applyOrientationPt 8 2 3 (applyOrientationPt 8 3 2 2 0 false).1 (applyOrientationPt 8 3 2 2 0 false).2 true
    = (2, 0) := by decide

/-- The header-level map and the two buffer-level maps are the same function: forward
`apply_orientation` is `from_grids`' map, inverse `apply_orientation` is `to_original_coord`. -/
theorem C15_apply_orientation_matches_buffer_maps (o w h x y : Nat) (ho : 1 ≤ o ∧ o ≤ 8) :
    (x < w → y < h →
      applyOrientationPt o w h (x : Int) (y : Int) false =
        (((fromGridsMap o w h x y).1 : Int), ((fromGridsMap o w h x y).2 : Int))) ∧
    (x < w → y < h →
      applyOrientationPt o w h (x : Int) (y : Int) true =
        (((toOriginalCoord o w h x y).1 : Int), ((toOriginalCoord o w h x y).2 : Int))) := by
  rcases orient_cases ho with rfl | rfl | rfl | rfl | rfl | rfl | rfl | rfl <;>
    (constructor <;> intro hx hy <;>
      simp [applyOrientationPt, fromGridsMap, toOriginalCoord] <;> omega)

/-- The copy map is a bijection from the unoriented `w × h` grid onto the oriented grid:
it lands inside, it is injective, and every oriented pixel is hit. -/
theorem C15_orientation_maps_are_bijections (o w h : Nat) (ho : 1 ≤ o ∧ o ≤ 8) :
    (∀ x y, x < w → y < h →
      (fromGridsMap o w h x y).1 < (fromGridsDims o w h).1 ∧
      (fromGridsMap o w h x y).2 < (fromGridsDims o w h).2) ∧
    (∀ x1 y1 x2 y2, x1 < w → y1 < h → x2 < w → y2 < h →
      fromGridsMap o w h x1 y1 = fromGridsMap o w h x2 y2 → (x1, y1) = (x2, y2)) ∧
    (∀ x' y', x' < (fromGridsDims o w h).1 → y' < (fromGridsDims o w h).2 →
      ∃ x y, x < w ∧ y < h ∧ fromGridsMap o w h x y = (x', y')) := by
  refine ⟨?_, ?_, ?_⟩
  · rcases orient_cases ho with rfl | rfl | rfl | rfl | rfl | rfl | rfl | rfl <;>
      (intro x y hx hy; simp [fromGridsMap, fromGridsDims] <;> omega)
  · rcases orient_cases ho with rfl | rfl | rfl | rfl | rfl | rfl | rfl | rfl <;>
      (intro x1 y1 x2 y2 h1 h2 h3 h4; simp [fromGridsMap] <;> omega)
  · intro x' y' hx' hy'
    refine ⟨(toOriginalCoord o (fromGridsDims o w h).1 (fromGridsDims o w h).2 x' y').1,
            (toOriginalCoord o (fromGridsDims o w h).1 (fromGridsDims o w h).2 x' y').2, ?_, ?_,
            (C15_stream_inv_buffer o w h ho).2 x' y' hx' hy'⟩
    · rcases orient_cases ho with rfl | rfl | rfl | rfl | rfl | rfl | rfl | rfl <;>
        (simp [toOriginalCoord, fromGridsDims] at hx' hy' ⊢ <;> omega)
    · rcases orient_cases ho with rfl | rfl | rfl | rfl | rfl | rfl | rfl | rfl <;>
        (simp [toOriginalCoord, fromGridsDims] at hx' hy' ⊢ <;> omega)

/-- The generated copy map is the orientation of the specification. -/
theorem C15_maps_match_spec (o w h x y : Nat) (ho : 1 ≤ o ∧ o ≤ 8) (hx : x < w) (hy : y < h) :
    fromGridsMap o w h x y = specOrient o w h (x, y) := by
  rcases orient_cases ho with rfl | rfl | rfl | rfl | rfl | rfl | rfl | rfl <;>
    (simp [fromGridsMap, specOrient, flipH, flipV, transpose] <;> omega)

example : specOrient 6 3 2 (0, 0) = (1, 0) ∧ specOrient 6 3 2 (2, 1) = (0, 2) := by decide

/-- the unoriented region `Region::apply_orientation` computes for the oriented request `r` on an
image whose oriented size is `W' × H'` -/
def unorientedRegion (o W' H' : Nat) (r : Region) : Region :=
  regionApplyOrientation (fun l t => applyOrientationPt o W' H' l t true) (applyOrientationDims o) r

/-- Region consistency. Any oriented request `r` (anywhere in the plane, empty or not) on an image
of unoriented size `w × h` is turned by `Region::apply_orientation` into an unoriented region `u`
such that (1) `u`'s size is `r`'s, swapped exactly for orientations 5..8 — so the buffer and the
stream, which re-derive their size from `u` (`from_grids`, `from_render`), have the requested
size; (2) pixel `(i, j)` of the output, which the stream reads at
`u.left/top + to_original_coord(i, j)` (dimensions: the request's) — and the buffer copy writes
from the inverse of that — is the pixel the header-level inverse map assigns to the requested
image coordinate `(r.left + i, r.top + j)`; hence (3) `u` maps back onto exactly `r`. -/
theorem C15_region_orientation_consistent (o w h : Nat) (r : Region) (ho : 1 ≤ o ∧ o ≤ 8) :
    let W' := (applyOrientationDims o w h).1
    let H' := (applyOrientationDims o w h).2
    let u := unorientedRegion o W' H' r
    (fromGridsDims o u.width u.height = (r.width, r.height)) ∧
    (∀ i j : Nat, i < r.width → j < r.height →
      (u.left + ((toOriginalCoord o r.width r.height i j).1 : Nat),
       u.top + ((toOriginalCoord o r.width r.height i j).2 : Nat))
        = applyOrientationPt o W' H' (r.left + i) (r.top + j) true) ∧
    (∀ X Y : Int, r.contains X Y ↔
      u.contains (applyOrientationPt o W' H' X Y true).1 (applyOrientationPt o W' H' X Y true).2) := by
  obtain ⟨rl, rt, rw, rh⟩ := r
  by_cases he : rw = 0 ∨ rh = 0
  · -- empty request
    rcases orient_cases ho with rfl | rfl | rfl | rfl | rfl | rfl | rfl | rfl <;>
      (refine ⟨?_, ?_, ?_⟩
       · simp [unorientedRegion, regionApplyOrientation, he, applyOrientationDims, fromGridsDims]
       · intro i j hi hj
         simp only at hi hj
         omega
       · intro X Y
         simp [unorientedRegion, regionApplyOrientation, he, applyOrientationDims, Region.contains]
         omega)
  · have hw : 1 ≤ rw := by omega
    have hh : 1 ≤ rh := by omega
    rcases orient_cases ho with rfl | rfl | rfl | rfl | rfl | rfl | rfl | rfl <;>
      (refine ⟨?_, ?_, ?_⟩
       · simp [unorientedRegion, regionApplyOrientation, regionApplyOrientationOld, he,
           applyOrientationPt, applyOrientationDims, fromGridsDims]
         split <;> split <;> simp <;> omega
       · intro i j hi hj
         simp only at hi hj
         simp [unorientedRegion, regionApplyOrientation, regionApplyOrientationOld, he,
           applyOrientationPt, applyOrientationDims, toOriginalCoord]
         split <;> split <;> simp <;> omega
       · intro X Y
         simp [unorientedRegion, regionApplyOrientation, regionApplyOrientationOld, he,
           applyOrientationPt, applyOrientationDims, Region.contains]
         split <;> split <;> simp <;> omega)

example : unorientedRegion 6 2 3 ⟨0, 1, 2, 1⟩ = ⟨1, 0, 1, 2⟩ := by decide
example : unorientedRegion 6 2 3 ⟨1, 1, 0, 4⟩ = ⟨0, 0, 4, 0⟩ := by decide

/-- Why the repair `fix-C15-empty-crop` was needed: the corner arithmetic alone (the code before
the repair) turns an EMPTY request into a region two pixels wide and high that starts one pixel
before the origin, so part (1) above failed for it (replayed on the unrepaired code by
corpus/c15/empty-crop.json: a 0×0 request produced a 2×2 picture). -/
theorem C15_region_orientation_empty_request_witness :
    regionApplyOrientationOld (fun l t => applyOrientationPt 1 8 8 l t true) ⟨0, 0, 0, 0⟩ = ⟨-1, -1, 2, 2⟩ := by
  decide

/-- Interleaved and planar buffers hold the same samples at corresponding places: sample `c` of
pixel `(x, y)` sits at `planarIdx · C + c` of the interleaved buffer; an interleaved index
determines `(x, y, c)` uniquely (`c = idx % C`, planar index `= idx / C`, `x = · % w`, `y = · / w`);
both indices are in range. -/
theorem C15_interleaved_planar_same_samples (w h C x y c : Nat) (hx : x < w) (hy : y < h) (hc : c < C) :
    interleavedIdx w C x y c = planarIdx w x y * C + c ∧
    interleavedIdx w C x y c % C = c ∧
    interleavedIdx w C x y c / C = planarIdx w x y ∧
    planarIdx w x y % w = x ∧ planarIdx w x y / w = y ∧
    planarIdx w x y < w * h ∧ interleavedIdx w C x y c < w * h * C := by
  refine ⟨by simp [interleavedIdx, planarIdx]; omega, (interleaved_decode w C x y c hc).1,
    (interleaved_decode w C x y c hc).2, (planar_decode w x y hx).1, (planar_decode w x y hx).2,
    planar_lt w h x y hx hy, interleaved_lt w h C x y c hx hy hc⟩

example : interleavedIdx 5 4 3 2 1 = 53 ∧ planarIdx 5 3 2 = 13 := by decide

/-- Chunking invariance of `write_to_buffer`: whatever sequence of destination sizes is used
(zero-length buffers included), the concatenated samples and the final cursor are those of one
call with a buffer of the total size; and a sufficiently large total yields exactly the row-major
enumeration of all `(y, x, c)`, i.e. `W·H·C` samples, each once, in order. -/
theorem C15_write_to_buffer_chunking (W H C : Nat) (sizes : List Nat) (s : Cursor) :
    flatCalls W H C sizes s = (writeToBuffer W H C sizes.sum s).1 ∧
    (writeCalls W H C sizes s).2 = (writeToBuffer W H C sizes.sum s).2 ∧
    (W * H * C ≤ sizes.sum → flatCalls W H C sizes ⟨0, 0, 0⟩ = rowMajor W H C) := by
  refine ⟨(writeCalls_eq_sum W H C sizes s).1, (writeCalls_eq_sum W H C sizes s).2, ?_⟩
  intro hn
  rw [(writeCalls_eq_sum W H C sizes ⟨0, 0, 0⟩).1]
  exact writeToBuffer_full W H C sizes.sum hn

example : flatCalls 2 1 2 [1, 0, 2, 5] ⟨0, 0, 0⟩ = [(0, 0, 0), (0, 0, 1), (0, 1, 0), (0, 1, 1)] := by decide
example : (writeCalls 2 2 3 [4, 3] ⟨0, 0, 0⟩).2 = ⟨1, 0, 1⟩ := by decide

/-- Buffer and stream agree sample for sample: the slot `k` into which `from_grids` copies
channel `c` of the unoriented pixel `(x, y)` is in range, the `k`-th sample a stream over the same
channels emits is the cursor position `(oy, ox, c)` of that slot, and `to_original_coord` sends
that position back to `(x, y)` — so the stream reads slot `k`'s sample from exactly the pixel and
channel the buffer copied there. -/
theorem C15_buffer_slot_is_stream_sample (o w h C x y c : Nat) (ho : 1 ≤ o ∧ o ≤ 8)
    (hx : x < w) (hy : y < h) (hc : c < C) :
    let W' := (fromGridsDims o w h).1
    let H' := (fromGridsDims o w h).2
    let p := fromGridsMap o w h x y
    let k := interleavedIdx W' C p.1 p.2 c
    k < W' * H' * C ∧ (rowMajor W' H' C)[k]? = some (p.2, p.1, c) ∧
      toOriginalCoord o W' H' p.1 p.2 = (x, y) := by
  intro W' H' p k
  have hin := (C15_orientation_maps_are_bijections o w h ho).1 x y hx hy
  have hk : k < W' * H' * C := interleaved_lt W' H' C p.1 p.2 c hin.1 hin.2 hc
  refine ⟨hk, ?_, (C15_stream_inv_buffer o w h ho).1 x y hx hy⟩
  have hd := decodeLin_lin W' C ⟨p.2, p.1, c⟩ hin.1 hc
  have hl : lin W' C ⟨p.2, p.1, c⟩ = k := by
    simp only [lin, k, interleavedIdx]
    rw [Nat.add_comm (p.2 * W') p.1, Nat.add_comm]
  rw [hl] at hd
  simp only [rowMajor, List.getElem?_map, List.getElem?_range hk, Option.map_some]
  simpa [decodeLin] using hd

example : (rowMajor 2 3 4)[interleavedIdx 2 4 (fromGridsMap 6 3 2 2 0).1 (fromGridsMap 6 3 2 2 0).2 3]? =
    some ((fromGridsMap 6 3 2 2 0).2, (fromGridsMap 6 3 2 2 0).1, 3) := by decide

/-- Channel order of the streams: the colour channels in order, then the first black channel iff
the encoding is CMYK and a black channel exists, then the first alpha channel iff alpha is not
skipped and one exists; `stream_no_alpha` is `stream` without that last entry; with a black
channel present whenever the encoding is CMYK, the number of channels is `PixelFormat::channels`. -/
theorem C15_channel_order (nColor : Nat) (ecTypes : List Nat) (isCmyk : Bool) :
    (∀ skip, (streamChannels nColor ecTypes isCmyk skip).take nColor = List.range nColor) ∧
    (∀ skip, (streamChannels nColor ecTypes isCmyk skip).drop nColor =
      (if isCmyk then ((firstOfType tyBlack ecTypes).map (nColor + ·)).toList else []) ++
      (if skip then [] else ((firstOfType tyAlpha ecTypes).map (nColor + ·)).toList)) ∧
    (streamChannels nColor ecTypes isCmyk false =
      streamChannels nColor ecTypes isCmyk true ++ ((firstOfType tyAlpha ecTypes).map (nColor + ·)).toList) ∧
    (∀ i, firstOfType tyBlack ecTypes = some i →
      ecTypes[i]? = some tyBlack ∧ ∀ j, j < i → ecTypes[j]? ≠ some tyBlack) ∧
    (∀ i, firstOfType tyAlpha ecTypes = some i →
      ecTypes[i]? = some tyAlpha ∧ ∀ j, j < i → ecTypes[j]? ≠ some tyAlpha) ∧
    (∀ gray, nColor = (if gray then 1 else 3) → (isCmyk = true → gray = false ∧ tyBlack ∈ ecTypes) →
      (streamChannels nColor ecTypes isCmyk false).length =
        pixelFormatChannels gray isCmyk (decide (tyAlpha ∈ ecTypes))) := by
  refine ⟨?_, ?_, ?_, ?_, ?_, ?_⟩
  · intro skip; simp [streamChannels, List.append_assoc]
  · intro skip; simp [streamChannels, List.append_assoc]
  · simp [streamChannels]
  · intro i hi
    have := firstOfType_spec tyBlack ecTypes
    rw [hi] at this; exact ⟨this.2.1, this.2.2⟩
  · intro i hi
    have := firstOfType_spec tyAlpha ecTypes
    rw [hi] at this; exact ⟨this.2.1, this.2.2⟩
  · intro gray hn hk
    have hB := firstOfType_spec tyBlack ecTypes
    have hA := firstOfType_spec tyAlpha ecTypes
    cases hfa : firstOfType tyAlpha ecTypes with
    | none =>
      rw [hfa] at hA
      have na : ¬ tyAlpha ∈ ecTypes := fun hm => hA _ hm rfl
      cases isCmyk with
      | false => cases gray <;> simp [streamChannels, hfa, na, pixelFormatChannels, hn]
      | true =>
        obtain ⟨hg, hb⟩ := hk rfl
        cases hfb : firstOfType tyBlack ecTypes with
        | none => rw [hfb] at hB; exact absurd rfl (hB _ hb)
        | some i => subst hg; simp [streamChannels, hfa, hfb, na, pixelFormatChannels, hn]
    | some a =>
      rw [hfa] at hA
      have ha : tyAlpha ∈ ecTypes := List.mem_of_getElem? hA.2.1
      cases isCmyk with
      | false => cases gray <;> simp [streamChannels, hfa, ha, pixelFormatChannels, hn]
      | true =>
        obtain ⟨hg, hb⟩ := hk rfl
        cases hfb : firstOfType tyBlack ecTypes with
        | none => rw [hfb] at hB; exact absurd rfl (hB _ hb)
        | some i => subst hg; simp [streamChannels, hfa, hfb, ha, pixelFormatChannels, hn]

example : streamChannels 3 [1, 0, 4, 0, 4] true false = [0, 1, 2, 5, 4] := by decide
example : streamChannels 3 [1, 0, 4, 0, 4] true true = [0, 1, 2, 5] := by decide
example : streamChannels 1 [0] false false = [0, 1] := by decide

/-- The direct integer paths (8-bit image → `u8`, 16-bit image → `u16`: a clamp, no float
arithmetic) are the correctly rounded and clamped value. -/
theorem C15_direct_integer_path_is_ideal (s : Int) :
    (clampInt s 0 255).toNat = idealRound 8 255 s ∧ (clampInt s 0 65535).toNat = idealRound 16 65535 s := by
  constructor <;> (simp only [idealRound, clampInt]; split <;> split <;> simp at * <;> omega)

example : idealRound 8 255 300 = 255 ∧ idealRound 8 255 (-3) = 0 ∧ idealRound 16 255 32896 = 128 := by decide

end Jxl.Props.C15
