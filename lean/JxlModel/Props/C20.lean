import JxlModel.Proofs.RenderConc
/-!
# C20 — concurrent renders run once at a time, agree, and never deadlock

Interleaving semantics of the render-handle protocol (`Model/RenderState.lean`: `Sys`, `sysStep`,
`sysWake`, `Reachable`): any number `N` of threads on a freshly loaded image, each either a caller
of `render_keyframe` or a background `run` spawned by `do_render` (`Prog`), any number of frames
(`Config.wf`: references point backwards), any schedule, any injected failure (`Choice.fail`),
spurious wake-ups allowed (`Label.wake`). One atomic step = one critical section of one handle's
mutex (`Condvar::wait` = atomic release-and-sleep, `notify_all` wakes every sleeper). The ghost
owner of a handle is the thread whose stack holds the activation that marked it `Rendering`
(`Thread.owned`). All theorems are proved by induction over transition sequences.

Scope. `Variant.fixed` is the code with two repairs: finding F2 (`RenderedImage::blend` stores a
final state and notifies before returning a composite error) and the `reset` guard
(`FrameRenderHandle::reset` leaves a handle alone while it is `Rendering`). `Variant.old` is the
code without them. `C20_unrepaired_blend_deadlocks` and `C20_reset_can_clobber` show, on concrete
schedules, what each repair removes (a sleeper nobody wakes; two executions of one frame at
once). `C20_spurious_error` shows a defect that remains in the repaired code: `reset` of a shared
reference between another caller's `run_with_image` and `blend` makes that caller fail with
`IncompleteFrame` although nothing failed (known finding). `std::sync` and rayon are trusted
(DESIGN.md §2).
-/
namespace Jxl.RenderState

/-- `Rendering` ⇒ exactly one owner, and the owner is not waiting on that handle. -/
theorem C20_rendering_has_owner (cfg : Config) (cd : Codec) (hwf : cfg.wf = true)
    (progs : List Prog) (hp : ProgsOK cfg progs) (σ : Sys)
    (hr : Reachable cfg cd .fixed (initSys cfg progs) σ)
    (i : Nat) (hi : getH σ.hs i = .rendering) :
    ∃ (t : Nat) (th : Thread), σ.ths[t]? = some th ∧ i ∈ th.owned ∧ th.asleep ≠ some i ∧
      ∀ (t' : Nat) (th' : Thread), σ.ths[t']? = some th' → i ∈ th'.owned → t' = t := by
  have hinv := reach_inv' cfg cd hwf progs hp σ hr
  obtain ⟨t, th, hth, hio⟩ := hinv.hasOwner i hi
  refine ⟨t, th, hth, hio, ?_, fun t' th' hth' hio' => hinv.uniq t' t th' th i hth' hth hio' hio⟩
  intro hsl
  have hlt := (hinv.sleepers t th i hth hsl).2
  have hge := owned_ge_ctx _ th.acts (hinv.ok t th hth) i hio
  simp only [innerBound] at hlt
  omega

/-- Each frame is being rendered (decoded or composited) by at most one thread at a time, and no
thread holds the same frame twice. -/
theorem C20_at_most_one_execution_at_a_time (cfg : Config) (cd : Codec) (hwf : cfg.wf = true)
    (progs : List Prog) (hp : ProgsOK cfg progs) (σ : Sys)
    (hr : Reachable cfg cd .fixed (initSys cfg progs) σ) :
    (∀ (t₁ t₂ : Nat) (th₁ th₂ : Thread) (i : Nat), σ.ths[t₁]? = some th₁ → σ.ths[t₂]? = some th₂ →
        i ∈ th₁.owned → i ∈ th₂.owned → t₁ = t₂) ∧
    (∀ (t : Nat) (th : Thread), σ.ths[t]? = some th → th.owned.Nodup) ∧
    (∀ (t : Nat) (th : Thread), σ.ths[t]? = some th → ∀ i ∈ th.owned, getH σ.hs i = .rendering) := by
  have hinv := reach_inv' cfg cd hwf progs hp σ hr
  refine ⟨hinv.uniq, ?_, hinv.own⟩
  intro t th hth
  have := owned_sorted _ th.acts (hinv.ok t th hth)
  rw [← owned_def] at this
  exact this.imp (fun h => Nat.ne_of_lt h)

/-- A thread sleeps in `Condvar::wait` only on a handle that is `Rendering`, which some *other*
thread owns. -/
theorem C20_waiters_only_on_rendering (cfg : Config) (cd : Codec) (hwf : cfg.wf = true)
    (progs : List Prog) (hp : ProgsOK cfg progs) (σ : Sys)
    (hr : Reachable cfg cd .fixed (initSys cfg progs) σ)
    (t : Nat) (th : Thread) (i : Nat) (hth : σ.ths[t]? = some th) (hsl : th.asleep = some i) :
    getH σ.hs i = .rendering ∧
    ∃ (t' : Nat) (th' : Thread), t' ≠ t ∧ σ.ths[t']? = some th' ∧ i ∈ th'.owned := by
  have hinv := reach_inv' cfg cd hwf progs hp σ hr
  obtain ⟨hri, hlt⟩ := hinv.sleepers t th i hth hsl
  obtain ⟨t', th', hth', hio⟩ := hinv.hasOwner i hri
  refine ⟨hri, t', th', ?_, hth', hio⟩
  intro htt
  subst htt
  rw [hth] at hth'; cases hth'
  have hge := owned_ge_ctx _ th.acts (hinv.ok _ th hth) i hio
  simp only [innerBound] at hlt
  omega

/-- No lost wake-up: whenever a step takes a handle out of `Rendering`, no thread is left
sleeping on it (every such state change is followed by `notify_all` under the lock). -/
theorem C20_no_lost_wakeup (cfg : Config) (cd : Codec) (hwf : cfg.wf = true)
    (progs : List Prog) (hp : ProgsOK cfg progs) (σ σ' : Sys)
    (hr : Reachable cfg cd .fixed (initSys cfg progs) σ) (l : Label)
    (hstep : sysNext cfg cd .fixed σ l = some σ')
    (i : Nat) (_hbefore : getH σ.hs i = .rendering) (hafter : getH σ'.hs i ≠ .rendering) :
    ∀ (t : Nat) (th : Thread), σ'.ths[t]? = some th → th.asleep ≠ some i := by
  have hinv := reach_inv' cfg cd hwf progs hp σ' (.step l hr hstep)
  intro t th hth hsl
  exact hafter (hinv.sleepers t th i hth hsl).1

/-- Deadlock freedom: in no reachable state is every thread that has not returned blocked. Some
unfinished thread is awake, and an awake thread can always take its next step, whatever the
adversary chooses. (The wait-for relation follows the frame order: an owner only ever waits on a
strictly earlier frame.) -/
theorem C20_deadlock_free (cfg : Config) (cd : Codec) (hwf : cfg.wf = true)
    (progs : List Prog) (hp : ProgsOK cfg progs) (σ : Sys)
    (hr : Reachable cfg cd .fixed (initSys cfg progs) σ)
    (hex : ∃ (t : Nat) (th : Thread), σ.ths[t]? = some th ∧ th.acts ≠ []) :
    ∃ (t : Nat) (th : Thread), σ.ths[t]? = some th ∧ th.acts ≠ [] ∧ th.asleep = none ∧
      ∀ ch, ∃ σ', sysStep cfg cd .fixed t ch σ = some σ' := by
  have hinv := reach_inv' cfg cd hwf progs hp σ hr
  obtain ⟨t, th, hth, hne, hsl⟩ := deadlock_free _ σ hinv hex
  exact ⟨t, th, hth, hne, hsl, awake_can_step cfg cd .fixed σ t th hth hne hsl⟩

/-- All callers agree: whatever the schedule and whatever failed, two callers of the same
keyframe that both obtain an image obtain the same one, the image of a never-failed render; and
every image stored in a handle is the clean one. (Holds for either variant and also after a
clobbering `reset`.) -/
theorem C20_all_callers_agree (cfg : Config) (cd : Codec) (var : Variant) (hwf : cfg.wf = true)
    (progs : List Prog) (hp : ProgsOK cfg progs) (σ : Sys)
    (hr : Reachable cfg cd var (initSys cfg progs) σ) :
    (∀ (t₁ t₂ k : Nat) (th₁ th₂ : Thread) (v₁ v₂ : Val),
      progs[t₁]? = some (.keyframe k) → progs[t₂]? = some (.keyframe k) →
      σ.ths[t₁]? = some th₁ → σ.ths[t₂]? = some th₂ →
      th₁.result = some (.ok v₁) → th₂.result = some (.ok v₂) →
      v₁ = v₂ ∧ ∃ idx, cfg.keyframes[k]? = some idx ∧ v₁ = cleanBlended cfg cd idx) ∧
    (∀ i, (∀ v, getH σ.hs i = .done v → v = cleanDone cfg cd i) ∧
          (∀ v, getH σ.hs i = .blended v → v = cleanBlended cfg cd i)) := by
  have hinv := reach_val cfg cd var hwf progs hp σ hr
  refine ⟨?_, hinv.hv⟩
  intro t₁ t₂ k th₁ th₂ v₁ v₂ hp₁ hp₂ hth₁ hth₂ hr₁ hr₂
  obtain ⟨p₁, hp₁', htv₁⟩ := hinv.tv t₁ th₁ hth₁
  obtain ⟨p₂, hp₂', htv₂⟩ := hinv.tv t₂ th₂ hth₂
  rw [hp₁] at hp₁'; cases hp₁'
  rw [hp₂] at hp₂'; cases hp₂'
  obtain ⟨idx₁, hk₁, hv₁⟩ := htv₁.res v₁ hr₁
  obtain ⟨idx₂, hk₂, hv₂⟩ := htv₂.res v₂ hr₂
  rw [hk₁] at hk₂; cases hk₂
  exact ⟨by rw [hv₁, hv₂], idx₁, hk₁, hv₁⟩

/-- With the repaired `reset` the ghost flag is never raised: no `reset` ever overwrites a handle
that somebody is rendering. -/
theorem C20_reset_never_clobbers (cfg : Config) (cd : Codec) (progs : List Prog) (σ : Sys)
    (hr : Reachable cfg cd .fixed (initSys cfg progs) σ) : σ.clobbered = false :=
  reach_noClobber cfg cd progs σ hr

/- Not proved:

   `C20_all_callers_agree`, error half — "if one caller of a keyframe fails, every caller fails
   with the same error class". It is false in the model and, by the same schedule, in the code:
   see `C20_spurious_error` below (one caller gets `IncompleteFrame` although nothing failed; the
   other caller succeeds).

   Liveness under fairness ("every caller eventually returns") is stated as its safety core,
   `C20_deadlock_free`; together with `C08_later_calls_return` (each thread's own steps are bounded
   when it never has to sleep) it gives termination under any fair schedule, but the fair-schedule
   theorem itself is not formalised. -/

/-! ## Witnesses (all by `decide` on concrete schedules) and non-vacuity -/

def c20Codec : Codec :=
  { dec := fun i ws => 100 * (i + 1) + ws.foldl (· + ·) 0,
    pre := fun _ v => v + 1,
    comp := fun i v ws => 1000 * (i + 1) + v + ws.foldl (· + ·) 0 }

def run (t : Nat) : Label := .run t {}
def runFail (t : Nat) : Label := .run t { fail := some .oom }

/-- two layers, one keyframe; two callers of that keyframe -/
def twoCfg : Config :=
  { frames := [{ skip := true },
               { spawn := [0], pre := [0], chans := [(some 0, true), (some 0, false)] }],
    keyframes := [1] }

/-- caller 0 runs up to the composite of frame 1, caller 1 goes to sleep on frame 1, then an
allocation inside caller 0's composite fails and caller 0 returns the error -/
def failSched : List Label :=
  List.replicate 10 (run 0) ++ [run 1, run 1] ++ [run 0, runFail 0, run 0, run 0]

/-- **F2 in the interleaving model.** With the unrepaired exit the schedule ends in a deadlock:
caller 0 has returned `Err`, caller 1 sleeps on a handle that stays `Rendering` and that nobody
owns. With the repair caller 1 has been woken up and returns an error (its `wait_until_render`
replaces `ErrTaken` by `None`, as in the code). -/
theorem C20_unrepaired_blend_deadlocks :
    let σ := sysRun twoCfg c20Codec .old (initSys twoCfg [.keyframe 0, .keyframe 0]) failSched
    let σ' := sysRun twoCfg c20Codec .fixed (initSys twoCfg [.keyframe 0, .keyframe 0])
      (failSched ++ [run 1, run 1, run 1])
    σ.hs = [.blended 101, .rendering] ∧
    σ.ths.map (fun th => (th.acts.length, th.asleep, th.result, th.owned)) =
      [(0, none, some (.err .oom), []), (1, some 1, none, [])] ∧
    σ'.hs = [.blended 101, .none] ∧
    σ'.ths.map (fun th => (th.acts.length, th.asleep, th.result)) =
      [(0, none, some (.err .oom)), (0, none, some (.err .failedRef))] := by
  decide

/-- frame 1 overwrites the slot of frame 0 without blending over it; a background `run` of
frame 0 (spawned by `do_render`, rayon pool) is in flight -/
def clobCfg : Config :=
  { frames := [{ }, { spawn := [0], reset := some 0 }], keyframes := [1], inline := false }

/-- **`reset` can clobber (unrepaired `reset`).** Background render 1 starts decoding frame 0; the
caller's composite of frame 1 resets frame 0 (`None`, no notify) while it is `Rendering`; a second
background render then starts decoding frame 0 as well: two executions of frame 0 at once. With
the guard the handle stays `Rendering` and the second background render does not start. -/
theorem C20_reset_can_clobber :
    let sched := [run 1, run 0, run 0, run 0, run 0, run 2]
    let σ := sysRun clobCfg c20Codec .old
      (initSys clobCfg [.keyframe 0, .background 0, .background 0]) sched
    let σ' := sysRun clobCfg c20Codec .fixed
      (initSys clobCfg [.keyframe 0, .background 0, .background 0]) sched
    σ.clobbered = true ∧ σ.ths.map (·.owned) = [[1], [0], [0]] ∧ σ.hs = [.rendering, .rendering] ∧
    σ'.clobbered = false ∧ σ'.ths.map (·.owned) = [[1], [0], []] := by
  decide

/-- frames 1 and 2 are keyframes that blend over the non-keyframe 0; frame 2 also overwrites its
slot (and therefore resets it after compositing) -/
def spCfg : Config :=
  { frames := [{ skip := true }, { pre := [0], chans := [(some 0, false)] },
               { pre := [0], chans := [(some 0, false)], reset := some 0 }],
    keyframes := [1, 2] }

def spSched : List Label :=
  List.replicate 8 (run 0) ++ List.replicate 12 (run 1) ++ List.replicate 3 (run 0)

/-- **Spurious error.** Nothing fails. Caller 0 (keyframe 0 = frame 1) has passed
`run_with_image` of frame 0 and is about to `blend` it; caller 1 (keyframe 1 = frame 2) finishes
its composite and resets frame 0; caller 0 then finds `None`, fails with `IncompleteFrame`, and
frame 1 is left `ErrTaken` (every later render of keyframe 0 fails with `FailedReference`). -/
theorem C20_spurious_error :
    let σ := sysRun spCfg c20Codec .fixed (initSys spCfg [.keyframe 0, .keyframe 1]) spSched
    σ.clobbered = false ∧ σ.hs = [.none, .errTaken, .rendering] ∧
    (σ.ths.map (·.result))[0]? = some (some (.err .incomplete)) := by
  decide

/-- non-vacuity: the example structures are well formed and their programs admissible; a
reachable unclobbered state with a sleeper, an owner and a `Rendering` handle exists -/
example : twoCfg.wf = true ∧ clobCfg.wf = true ∧ spCfg.wf = true ∧
    (let σ := sysRun twoCfg c20Codec .fixed (initSys twoCfg [.keyframe 0, .keyframe 0])
        (List.replicate 10 (run 0) ++ [run 1, run 1])
     σ.clobbered = false ∧ σ.hs = [.blended 101, .rendering] ∧
     σ.ths.map (fun th => (th.asleep, th.owned)) = [(none, [1]), (some 1, [])]) := by
  decide

theorem sysRun_reachable (cfg : Config) (cd : Codec) (var : Variant) (σ₀ : Sys) :
    ∀ (ls : List Label) (σ : Sys), Reachable cfg cd var σ₀ σ →
      Reachable cfg cd var σ₀ (sysRun cfg cd var σ ls)
  | [], σ, h => h
  | l :: ls, σ, h => by
    simp only [sysRun]
    split
    · rename_i σ' hn
      exact sysRun_reachable cfg cd var σ₀ ls σ' (.step l h hn)
    · exact h

end Jxl.RenderState
