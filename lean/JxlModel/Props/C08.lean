import JxlModel.Proofs.RenderState
/-!
# C08 — a failed render never wedges or corrupts the image

Single-caller histories of `render_keyframe`, `render_loading_keyframe` and
`request_image_region` on the render-handle protocol of `jxl-render` (model:
`Model/RenderState.lean`, sequential semantics `runHist`), with an adversarial oracle that may
fail any fallible step of any call (`Choice.fail`), for every well-formed frame structure
(`Config.wf`: references point to earlier frames) and every deterministic pixel function
(`Codec`). `Variant.fixed` is the code with the repair of finding F2 in `RenderedImage::blend`
(and the `reset` guard, which single-caller histories never reach); the last theorem shows that
the unrepaired exit (`Variant.old`, `composite(..)?`) violates the property.

`Quiescent n hs`: `n` handles, none `Rendering` (e.g. a freshly loaded image).
`HsVal cfg cd hs`: every `Done`/`Blended` image held by a handle is the image of a never-failed
render (`cleanDone`/`cleanBlended`); the other states hold nothing, a cache, or an error.
-/
namespace Jxl.RenderState

/-- After every completed call of every history with arbitrary injected failures no handle is
left in the in-progress marker state. -/
theorem C08_op_exit_not_rendering (cfg : Config) (cd : Codec) (hwf : cfg.wf = true) (fuel : Nat)
    (hs₀ : List HState) (h₀ : Quiescent cfg.frames.length hs₀)
    (hist : List (Op × (Nat → Choice))) (hs : List HState) (rs : List (Option Res))
    (h : runHist cfg cd .fixed fuel hs₀ hist = some (hs, rs)) :
    ∀ i, getH hs i ≠ .rendering :=
  (quiescent_runHist cfg cd hwf fuel hist hs₀ h₀ hs rs h).2

/-- Every later call returns: from any state reachable by a history of completed calls with
arbitrary failures, every call with every oracle terminates within `opFuel cfg op` atomic steps
(an explicit function of the frame structure) — it never waits on a handle nobody renders
(`Outcome.hang`) and never runs out of fuel. -/
theorem C08_later_calls_return (cfg : Config) (cd : Codec) (hwf : cfg.wf = true) (fuel : Nat)
    (hs₀ : List HState) (h₀ : Quiescent cfg.frames.length hs₀)
    (hist : List (Op × (Nat → Choice))) (hs : List HState) (rs : List (Option Res))
    (h : runHist cfg cd .fixed fuel hs₀ hist = some (hs, rs))
    (op : Op) (orc : Nat → Choice) (fuel' : Nat) (hf : opFuel cfg op ≤ fuel') :
    ∃ hs' r, runOp cfg cd .fixed orc fuel' hs op = .finished hs' r :=
  runOp_finishes cfg cd orc hwf hs (quiescent_runHist cfg cd hwf fuel hist hs₀ h₀ hs rs h) op
    fuel' hf

/-- Consequently whole histories complete: with fuel for its longest call no call of a history
hangs or is cut off, whatever fails. -/
theorem C08_history_completes (cfg : Config) (cd : Codec) (hwf : cfg.wf = true) (fuel : Nat)
    (hs₀ : List HState) (h₀ : Quiescent cfg.frames.length hs₀)
    (hist : List (Op × (Nat → Choice))) (hf : ∀ p ∈ hist, opFuel cfg p.1 ≤ fuel) :
    ∃ hs rs, runHist cfg cd .fixed fuel hs₀ hist = some (hs, rs) :=
  runHist_completes cfg cd hwf fuel hist hs₀ h₀ hf

/-- States reachable after failures hold nothing, a cache, an error, or the correct image;
hence every later call that succeeds returns the image of a never-failed render
(`OpClean`: `cleanBlended` of the keyframe for `render_keyframe`; the loading frame's clean image
or the in-progress keyframe's for `render_loading_keyframe`). -/
theorem C08_success_after_failure_eq_clean (cfg : Config) (cd : Codec) (hwf : cfg.wf = true)
    (fuel : Nat) (hs₀ : List HState) (h₀ : Quiescent cfg.frames.length hs₀)
    (hv₀ : HsVal cfg cd hs₀) (hist : List (Op × (Nat → Choice))) (hs : List HState)
    (rs : List (Option Res)) (h : runHist cfg cd .fixed fuel hs₀ hist = some (hs, rs)) :
    (∀ i, (∀ v, getH hs i = .done v → v = cleanDone cfg cd i) ∧
          (∀ v, getH hs i = .blended v → v = cleanBlended cfg cd i) ∧
          getH hs i ≠ .rendering) ∧
    ∀ (j : Nat) (op : Op) (orc : Nat → Choice) (r : Option Res),
      hist[j]? = some (op, orc) → rs[j]? = some r →
      ∀ v, r = some (Res.ok v) → OpClean cfg cd op v := by
  have hv := val_runHist cfg cd hwf fuel hist hs₀ h₀ hv₀ hs rs h
  have hq := quiescent_runHist cfg cd hwf fuel hist hs₀ h₀ hs rs h
  exact ⟨fun i => ⟨(hv.1 i).1, (hv.1 i).2, hq.2 i⟩, hv.2⟩

/-! ## Finding F2 inside the model, and non-vacuity -/

/-- two layers: frame 0 is a reference (skips composition), frame 1 (the keyframe) blends over it -/
def exCfg : Config :=
  { frames := [{ skip := true },
               { spawn := [0], pre := [0], chans := [(some 0, true), (some 0, false)], reset := none }],
    keyframes := [1] }

def exCodec : Codec :=
  { dec := fun i ws => 100 * (i + 1) + ws.foldl (· + ·) 0,
    pre := fun _ v => v + 1,
    comp := fun i v ws => 1000 * (i + 1) + v + ws.foldl (· + ·) 0 }

/-- the oracle that fails exactly step `k` with an allocation failure -/
def failAt (k : Nat) : Nat → Choice := fun n => if n = k then { fail := some .oom } else {}

def noFail : Nat → Choice := fun _ => {}

/-- `blendStepOld`: the handler of `RenderedImage::blend` as it is in the unrepaired code. -/
def blendStepOld (cfg : Config) (cd : Codec) (ch : Choice) (hs : List HState) (th : Thread)
    (a : Act) : StepOut := stepDone cfg cd .old ch hs th a

/-- **F2.** With the unrepaired exit, a composite that fails after the handle was marked
`Rendering` returns with the marker still set (step 11 is a tracked allocation inside the
composite of frame 1; step 2 makes the reference frame fail instead), and the next
`render_keyframe` sleeps on that handle forever. -/
theorem C08_unrepaired_blend_violates_op_exit :
    runOp exCfg exCodec .old (failAt 11) 100 [.none, .none] (.renderKeyframe 0)
        = .finished [.blended 101, .rendering] (some (.err .oom)) ∧
    runOp exCfg exCodec .old (failAt 2) 100 [.none, .none] (.renderKeyframe 0)
        = .finished [.errTaken, .rendering] (some (.err .oom)) ∧
    runOp exCfg exCodec .old noFail 100 [.blended 101, .rendering] (.renderKeyframe 0)
        = .hang [.blended 101, .rendering] 1 := by
  refine ⟨?_, ?_, ?_⟩ <;> decide

/-- the same failure with the repair: the marker is cleared, the next call returns an error,
and after `request_image_region` the call succeeds with the clean image -/
example :
    runHist exCfg exCodec .fixed 100 [.none, .none]
      [(.renderKeyframe 0, failAt 11), (.renderKeyframe 0, noFail), (.requestRegion, noFail),
       (.renderKeyframe 0, noFail)] =
    some ([.blended 101, .blended 2403],
      [some (.err .oom), some (.err .failedRef), none, some (.ok 2403)]) := by decide

/-- non-vacuity: the example structure is well formed, a fresh image is quiescent and clean, the
fuel bound of the theorems is a concrete number, and a never-failed render yields the clean value -/
example : exCfg.wf = true ∧ Quiescent exCfg.frames.length [.none, .none] ∧
    HsVal exCfg exCodec [.none, .none] ∧ opFuel exCfg (.renderKeyframe 0) = 30 ∧
    cleanBlended exCfg exCodec 1 = 2403 ∧
    runOp exCfg exCodec .fixed noFail 30 [.none, .none] (.renderKeyframe 0) =
      .finished [.blended 101, .blended 2403] (some (.ok 2403)) := by
  refine ⟨by decide, ⟨rfl, ?_⟩, ?_, by decide, by decide, by decide⟩
  · intro i
    match i with
    | 0 => decide
    | 1 => decide
    | i + 2 => simp [getH]
  · intro i
    match i with
    | 0 => simp [getH]
    | 1 => simp [getH]
    | i + 2 => simp [getH]

end Jxl.RenderState
