import JxlModel.Proofs.Feed
import JxlModel.Props.C10
/-!
# C09 — feeding the stream in any chunks gives the same image as one buffer

Theorems about the model of the incremental feeding path (`Model/Feed.lean`):
`UninitializedJxlImage::{feed_bytes, try_init}`, `JxlImage::feed_bytes`,
`JxlImageInner::feed_bytes_inner`, `Frame::feed_bytes`, `JxlImageBuilder::read`, on top of C10's
model of `ContainerParser`.

They quantify over **every byte string** (valid or not), **every chunking** of it (the caller
re-offers what a call did not consume, as the API demands, and calls `try_init` after every call
while uninitialised), and **every family of header parsers** `P : Parsers Hdr` that is *prefix
stable* (`P.Stable`): image header (+ ICC), preview frame header, frame header + TOC are abstract
functions `Bytes → Res _` of the bytes available.  That `ImageHeader::parse`, `read_icc`,
`Frame::parse` *are* prefix stable is the obligation this property pushes to the bit-level
parsers; it is exercised (not proved) by the differential run of `tools/props/c09.py`, which
also ties the state machine itself to the real API (consumed counts, states, frame offsets).

The observable (`Sess.obs`) is: dead after any error; otherwise container kind, bytes still to be
re-offered, auxiliary boxes delivered (type, compression flag, raw payload), image header, number
of loaded frames and keyframes, frame offsets, the bytes every section of every loaded frame and
of the loading frame has received, the completion flag and the bytes left over after the last
frame.

`C09_read_eq_feed_whole_partial` is partial, see there.

## Defects found by this property
*(fixed in /repo, `fix: a short read in the extra bits of a hybrid integer is end of data`)*
The hypothesis `P.Stable` was false for the real image-header parser: `read_uint_prefilled` ignored a
short read (`consume_bits(n).ok()`), so `read_icc` answered `Ok` with a garbage tail on an ICC stream
truncated inside its last values, and `try_init` succeeded two bytes *before* the end of the header
of `cmyk_layers.jxl` with a short `bytes_read` — `ok` on a prefix, a different `ok` on the extension.
Feeding that file as `[0, 376573) ++ rest` (or byte by byte) ended in `ValidationFailed`
(`corpus/c09/icc_short_read_split.json`).

*(fixed in /repo, `fix: read() keeps reading a container after the last frame`)*
`read()` stopped at `end_of_image`, so auxiliary boxes *after* the codestream were delivered only
as far as they happened to lie in the current 4096-byte buffer: a 5000-byte `Exif` box after
`jxlc` came back as 3833 bytes, marked complete (`corpus/c09/read_trailing_exif.json`).
`readNOld` keeps the old loop condition; `C09_read_old_drops_trailing_box` is the witness.
-/
namespace Jxl.Feed
open Jxl.Container (Bytes)
variable {Hdr : Type}

/-! ## (a) chunking invariance -/

/-- The carry-over / `buffer_offset` / section-filling machine below the container:
from any state, feeding the codestream bytes in any pieces gives the state (or the error) of
feeding them in one piece. -/
theorem C09_inner_feed_chunking_invariant (P : Parsers Hdr) (hP : P.Stable) (st : Inner Hdr)
    (chunks : List Bytes) :
    feedInnerAll P st chunks = feedInner P st chunks.flatten :=
  feedInnerAll_flatten P hP chunks st

/-- `try_init` re-parses from the start of the buffered codestream every time; trying after some
of the bytes and again after the rest is the same as trying once after all of them (same image
header, same `bytes_read`, same state handed to `feed_bytes_inner`, or dead in both). -/
theorem C09_init_retry_invariant (P : Parsers Hdr) (hP : P.Stable) (d : Dec Hdr) (x : Bytes) :
    tryInit P (addCs P (tryInit P d) x) = tryInit P (addCs P d x) :=
  tryInit_addCs P hP d x

/-- 2-way split of the whole API, container layer included (composition with C10's
`feed_append`): from any session, pushing `a` then `b` cannot be told from pushing `a ++ b`. -/
theorem C09_feed_chunking_invariant_2way (P : Parsers Hdr) (hP : P.Stable) (S : Sess Hdr)
    (a b : Bytes) :
    ((S.push P a).push P b).obs = (S.push P (a ++ b)).obs :=
  Sess.obs_of_equiv (Sess.push_append P hP S a b)

/-- **Main theorem.** For every byte string and every way of cutting it into successive feed calls
(unconsumed bytes re-offered), from any session state, the observable after the last call is the
observable of feeding everything in one call. -/
theorem C09_feed_chunking_invariant (P : Parsers Hdr) (hP : P.Stable) (S : Sess Hdr)
    (chunks : List Bytes) (hne : chunks ≠ []) :
    (S.pushAll P chunks).obs = (S.pushAll P [chunks.flatten]).obs := by
  cases chunks with
  | nil => exact absurd rfl hne
  | cons c cs => exact Sess.obs_of_equiv (Sess.pushAll_flatten P hP cs S c)

/-- The same for two chunkings of the same bytes. -/
theorem C09_any_two_chunkings_agree (P : Parsers Hdr) (hP : P.Stable) (S : Sess Hdr)
    (c1 c2 : List Bytes) (h1 : c1 ≠ []) (h2 : c2 ≠ []) (h : c1.flatten = c2.flatten) :
    (S.pushAll P c1).obs = (S.pushAll P c2).obs := by
  rw [C09_feed_chunking_invariant P hP S c1 h1, C09_feed_chunking_invariant P hP S c2 h2, h]

/-! ## (b) composition with C10: a well-formed container file -/

/-- For every well-formed container file (C10's `Spec`) and every chunking of its bytes: the
decoder ends in exactly the state of a decoder that was given the file's codestream
(`jxlc` / `jxlp` payloads in order) in one piece, every auxiliary box has been delivered with its
exact payload, and nothing is left to re-offer. -/
theorem C09_container_delivers_codestream (P : Parsers Hdr) (hP : P.Stable)
    (bs : List Container.Spec.Box) (hwf : Container.Spec.wf bs = true) (chunks : List Bytes)
    (hc : chunks.flatten = Container.Spec.serFile bs) :
    ((Sess.init.pushAll P chunks).dec = .dead ∧
        tryInit P (.uninit (Container.Spec.codestream bs)) = (.dead : Dec Hdr)) ∨
    ((Sess.init.pushAll P chunks).dec = tryInit P (.uninit (Container.Spec.codestream bs)) ∧
      Container.auxOf (Sess.init.pushAll P chunks).aux = Container.Spec.aux bs ∧
      (Sess.init.pushAll P chunks).pending = []) := by
  have hne : chunks ≠ [] := by
    intro h; subst h
    have : (Container.Spec.serFile bs).length = 0 := by rw [← hc]; rfl
    simp [Container.Spec.serFile, Container.contSig] at this
  obtain ⟨c, cs, rfl⟩ := List.exists_cons_of_ne_nil hne
  have heq := Sess.pushAll_flatten P hP cs (Sess.init : Sess Hdr) c
  rw [hc] at heq
  -- the whole file in one call (`feed_file` is what C10_wellformed_events_exact rests on)
  have hw : (Container.feed Container.init (Container.Spec.serFile bs)).error = none ∧
      (Container.feed Container.init (Container.Spec.serFile bs)).rest = [] ∧
      Container.toks (Container.feed Container.init (Container.Spec.serFile bs)).events =
        Container.Tok.kind .container :: Container.Spec.expected bs := by
    simp only [Container.Spec.wf, Bool.and_eq_true] at hwf
    have hf := Container.feed_file bs hwf.1
    cases hq : Container.Spec.seqFrom .initial bs with
    | none => rw [hq] at hwf; simp at hwf
    | some jx => simpa [hq] using hf
  obtain ⟨he, hrest, htoks⟩ := hw
  have hdec : (Sess.init.push P (Container.Spec.serFile bs)).dec =
      tryInit P (.uninit (Container.Spec.codestream bs)) ∧
      Container.auxOf (Sess.init.push P (Container.Spec.serFile bs) : Sess Hdr).aux = Container.Spec.aux bs ∧
      (Sess.init.push P (Container.Spec.serFile bs) : Sess Hdr).pending = [] := by
    rw [Sess.push_live P Sess.init _ (by simp [Sess.init])]
    simp only [Sess.init, List.nil_append, he, Option.isSome_none, Bool.false_eq_true, if_false]
    refine ⟨?_, ?_, hrest⟩
    · rw [applyEvents_toks P hP, htoks, applyToks_codestreamOf P hP]
      simp [Container.codestreamOf, Container.Spec.expected, Container.codestreamOf_expectedM, addCs]
    · rw [htoks]
      simp [Container.auxOf, Container.Spec.expected, Container.auxOf_expectedM]
  rcases heq with ⟨d1, d2⟩ | heq
  · exact Or.inl ⟨d1, by rw [← hdec.1]; exact d2⟩
  · exact Or.inr (by rw [heq]; exact hdec)

/-! ## (c) sections are filled exactly -/

/-- Each section of a frame receives exactly its TOC-declared bytes, in bitstream order, whatever
the chunking: feeding a fresh frame chunk by chunk is feeding it the concatenation; once the
declared total has arrived the sections are the consecutive slices of the declared sizes, the
frame is done and everything after is handed back; before that the frame is not done, hands
nothing back, and what its sections hold is exactly what arrived, in order. -/
theorem C09_frame_sections_exact (fi : FrameInfo) (chunks : List Bytes) :
    let r := chunks.foldl (fun (f : FrameSt × Bytes) c => f.1.feed (f.2 ++ c))
      ((FrameSt.new fi).feed [])
    r = (FrameSt.new fi).feed chunks.flatten ∧
    (fi.sizes.sum ≤ chunks.flatten.length →
      r.1.filled = splitSizes fi.sizes chunks.flatten ∧ r.1.filled.map List.length = fi.sizes ∧
      r.1.done = true ∧ r.2 = chunks.flatten.drop fi.sizes.sum) ∧
    (chunks.flatten.length < fi.sizes.sum →
      r.1.done = false ∧ r.2 = [] ∧ r.1.filled.flatten ++ r.1.cur = chunks.flatten) := by
  -- chunk by chunk = all at once
  have hfold : ∀ (cs : List Bytes) (f : FrameSt) (pre : Bytes),
      cs.foldl (fun (f : FrameSt × Bytes) c => f.1.feed (f.2 ++ c)) (f.feed pre) =
        f.feed (pre ++ cs.flatten) := by
    intro cs
    induction cs with
    | nil => intro f pre; simp
    | cons c cs ih =>
      intro f pre
      simp only [List.foldl_cons, List.flatten_cons]
      rw [← FrameSt.feed_append f pre c, ih, List.append_assoc]
  have hr := hfold chunks (FrameSt.new fi) []
  simp only [List.nil_append] at hr
  simp only [hr]
  refine ⟨trivial, ?_, ?_⟩
  · intro hle
    have := fill_exact fi.sizes [] chunks.flatten hle
    have hl := splitSizes_lengths fi.sizes chunks.flatten hle
    simp only [FrameSt.feed, FrameSt.new, FrameSt.done, this, List.nil_append, List.isEmpty_nil]
    exact ⟨trivial, hl.1, trivial, trivial⟩
  · intro hlt
    have hp := fill_short fi.sizes [] [] chunks.flatten (by simpa using hlt)
    have hrest := (fill_rest fi.sizes [] [] chunks.flatten).2 hp
    have hcons := fill_conserves fi.sizes [] [] chunks.flatten
    simp only [FrameSt.feed, FrameSt.new, FrameSt.done]
    refine ⟨by simpa using hp, hrest, ?_⟩
    rw [hrest] at hcons
    simpa using hcons

/-! ## (d) `read()` -/

/-- `read()` is a chunked feed: the session it returns is the session after pushing the chunks it
took from the reader (each at most `4096 - buf_valid` bytes), and those chunks followed by what it
left unread are the stream. -/
theorem C09_read_is_chunked_feed (P : Parsers Hdr) (stream : Bytes) :
    (readAll P stream).sess = Sess.init.pushAll P (readAll P stream).chunks ∧
    (readAll P stream).chunks.flatten ++ (readAll P stream).rest = stream := by
  have := readN_trace P 4096 (stream.length + 2) Sess.init Sess.init [] stream rfl
  simpa [readAll] using this

/-- Partial. Whenever `read()` took the whole stream from the reader, its result cannot be told from
feeding the whole stream in one call.

Full statement (not proved): for every stream whose one-call feed ends initialised,
`(readAll P stream).rest = []` unless the stream is a bare codestream with bytes after its last
frame (which `read()` leaves unread on purpose), and `eofBeforeInit = false`.
Missing: progress of the refill loop — that a call on a full 4096-byte buffer consumes at least
one byte.  For the container layer this is `C10_no_livelock` (a call that consumes nothing had
fewer than 16 bytes); it has to be threaded through `Sess.push` and the fuel of `readN`. The
differential run compares `read` with the one-call feed on every generated stream. -/
theorem C09_read_eq_feed_whole_partial (P : Parsers Hdr) (hP : P.Stable) (stream : Bytes)
    (hne : stream ≠ []) (hall : (readAll P stream).rest = []) :
    (readAll P stream).sess.obs = (Sess.init.pushAll P [stream]).obs := by
  obtain ⟨h1, h2⟩ := C09_read_is_chunked_feed P stream
  rw [hall, List.append_nil] at h2
  have hc : (readAll P stream).chunks ≠ [] := by
    intro h; rw [h] at h2; exact hne h2.symm
  rw [h1, C09_feed_chunking_invariant P hP _ _ hc, h2]

/-! ## Non-vacuity: the toy length-prefixed format -/

/-- the hypotheses of every theorem above hold for the toy parsers (and for every `Layout`) -/
example : Toy.parsers.Stable := Toy.stable
example (L : Layout) : L.parsers.Stable := Layout.stable L

/-- image header (no preview); frame 1: keyframe, two sections of 1 and 2 bytes; frame 2: last,
one section of 2 bytes; one trailing byte -/
def toyCs : Bytes :=
  [0xff, 0x0a, 0x00,  0x02, 0x02, 0x01, 0x02,  0xa1, 0xb1, 0xb2,  0x03, 0x01, 0x02,  0xc1, 0xc2]

def toyObs : Obs Nat :=
  .ready .bare [] [] 0 2 2 [3, 10] [[[0xa1], [0xb1, 0xb2]], [[0xc1, 0xc2]]] none true [0xee]

/-- one call -/
example : (Sess.init.pushAll Toy.parsers [toyCs ++ [0xee]]).obs = toyObs := by decide +kernel

/-- one byte at a time (computed, not by the theorem) -/
example : (Sess.init.pushAll Toy.parsers ((toyCs ++ [0xee]).map fun b => [b])).obs = toyObs := by
  decide +kernel

/-- cut inside the second frame's TOC: the loading state in between, the same end -/
example :
    (Sess.init.pushAll Toy.parsers [toyCs.take 12]).obs =
      .ready .bare [] [] 0 1 1 [3] [[[0xa1], [0xb1, 0xb2]]] none false [0x03, 0x01] ∧
    (Sess.init.pushAll Toy.parsers [toyCs.take 14]).obs =
      .ready .bare [] [] 0 1 1 [3, 10] [[[0xa1], [0xb1, 0xb2]]] (some [[0xc1]]) false [] ∧
    (Sess.init.pushAll Toy.parsers [toyCs.take 12, toyCs.drop 12 ++ [0xee]]).obs = toyObs := by
  decide +kernel

/-- an invalid frame header (`FF`) kills the session under every chunking tried -/
example :
    (Sess.init.pushAll Toy.parsers [[0xff, 0x0a, 0x00, 0xff, 0x00]]).obs = .dead ∧
    (Sess.init.pushAll Toy.parsers [[0xff, 0x0a], [0x00, 0xff], [0x00]]).obs = .dead := by
  decide +kernel

/-- a container: `ftyp`, the codestream in two `jxlp` boxes cut inside frame 1's TOC (the first
with a 64-bit size), an `Exif` box in between, an `xml ` box to the end of the file -/
def toyFile : List Container.Spec.Box :=
  [.aux [0x66, 0x74, 0x79, 0x70] [1, 2] .short,
   .jxlp 0 false (toyCs.take 5) .long,
   .aux [0x45, 0x78, 0x69, 0x66] [0, 0, 0, 0, 9] .short,
   .jxlp 1 true (toyCs.drop 5) .short,
   .aux [0x78, 0x6d, 0x6c, 0x20] [5, 6] .toEof]

example : Container.Spec.wf toyFile = true ∧ Container.Spec.codestream toyFile = toyCs := by
  decide +kernel

/-- fed in three pieces (the first cut inside the 64-bit box header): same decoder state as the
bare codestream, all three auxiliary boxes delivered -/
example :
    let f := Container.Spec.serFile toyFile
    (Sess.init.pushAll Toy.parsers [f.take 30, (f.drop 30).take 20, f.drop 50]).obs =
      .ready .container [] [⟨[0x66, 0x74, 0x79, 0x70], false, [1, 2]⟩,
          ⟨[0x45, 0x78, 0x69, 0x66], false, [0, 0, 0, 0, 9]⟩, ⟨[0x78, 0x6d, 0x6c, 0x20], false, [5, 6]⟩]
        0 2 2 [3, 10] [[[0xa1], [0xb1, 0xb2]], [[0xc1, 0xc2]]] none true [] := by
  decide +kernel

/-- a preview (header byte `01`): `try_init` waits until all of the preview's sections are buffered
and skips them; frame offsets count from the start of the codestream -/
example :
    (Sess.init.pushAll Toy.parsers [[0xff, 0x0a, 0x01, 0x00, 0x01, 0x02, 0x77]]).obs =
      .uninit .bare [] [] [0xff, 0x0a, 0x01, 0x00, 0x01, 0x02, 0x77] ∧
    (Sess.init.pushAll Toy.parsers [[0xff, 0x0a, 0x01, 0x00, 0x01, 0x02, 0x77], [0x78, 0x03, 0x00]]).obs =
      .ready .bare [] [] 1 1 1 [8] [[]] none true [] := by
  decide +kernel

/-! ## The `read()` defect on the model (code before the repair: `readNOld`) -/

/-- With a 16-byte refill buffer (4096 in the code; the model's `cap`) and a 24-byte box after the
codestream: the old loop stops at the end of the image and delivers 1 of the 24 payload bytes,
the repaired loop delivers all of them, as feeding the whole file does. -/
theorem C09_read_old_drops_trailing_box :
    let file := Container.Spec.serFile
      [.jxlc toyCs .short, .aux [0x45, 0x78, 0x69, 0x66] (List.replicate 24 7) .short]
    (Container.auxOf (readNOld Toy.parsers 16 (file.length + 2) Sess.init [] file).sess.aux).map
        (·.payload.length) = [1] ∧
    (Container.auxOf (readN Toy.parsers 16 (file.length + 2) Sess.init [] file).sess.aux).map
        (·.payload.length) = [24] ∧
    (Container.auxOf (Sess.init.pushAll Toy.parsers [file]).aux).map (·.payload.length) = [24] := by
  decide +kernel

end Jxl.Feed
