import JxlModel.Proofs.Entropy.Reader
import JxlModel.Proofs.Entropy.Hybrid
import JxlModel.Proofs.Entropy.Cluster
import JxlModel.Proofs.Entropy.Prefix
import JxlModel.Proofs.Entropy.AnsStep
import JxlModel.Proofs.Entropy.Alias
import JxlModel.Proofs.Entropy.Seq
import JxlModel.Proofs.Entropy.Lz
import JxlModel.Proofs.Entropy.Top
import JxlModel.Proofs.Entropy.Rle
import JxlModel.Proofs.Entropy.Header
import JxlModel.Proofs.Entropy.Check
import JxlModel.Proofs.Entropy.HeaderComp
import JxlModel.Proofs.Entropy.HeaderNested
import JxlModel.Proofs.Entropy.Final
/-!
# C04 — entropy decoding inverts the specified coding

Decoder model: `Model/Entropy/*.lean` (mirrors `jxl_coding`); reference encoder:
`Model/Enc/*.lean`. All theorems quantify over every value / configuration / code / sequence
named in their hypotheses; nothing is enumerated.

Layers. `Decoder.parse` (header) and `begin → readSeq → finalize` (stream) are treated
separately: the stream theorems are stated for `planDecoder p`, the decoder a resolved plan
denotes (`C04_entropy_roundtrip_checked`: from the encoder's own Boolean `check`). Every histogram
header the encoder writes reads back as the code it denotes: `C04_prefix_histogram_roundtrip`
(simple forms with 1–4 symbols and the complex form: code-length code, repeat codes 16/17 with
chaining, early exit when the code space is used up) and `C04_ans_histogram_roundtrip` (single,
two-symbol, flat and the general form: log-count code, omitted position, RLE runs, mantissa
bits). With these the header composition `C04_header_roundtrip` (nested cluster maps included) and
the whole pipeline `C04_entropy_roundtrip` hold with the encoder's `check` as the ONLY hypothesis
about the plan. The older `C04_header_roundtrip_partial` / `C04_entropy_roundtrip_partial` (same
conclusions under the hypotheses `HeaderOKD`, `HistRTD`) are kept; both hypotheses are now derived
from `check` (`headerOKD_of_check`, `histRTD_of_check` in `Proofs/Entropy/Final.lean`).

Points where the implementation and my reading of the format differ (decided against the Spec
layer; none is reachable by a stream of the reference encoder, so none is a finding):
* ANS general histograms with two *adjacent* RLE runs are rejected by `ans.rs` (the second run's
  marker is processed as a log-count of 13); libjxl accepts them. The encoder never emits adjacent
  runs (one run covers up to 259 ≥ 256 entries).
* `IntegerConfig::parse` accepts `split_exponent > log_alphabet_size` when the field width allows
  (e.g. 6 or 7 for `log_alphabet_size = 5`); libjxl rejects. `IntegerConfig.valid` (what the encoder
  uses) requires `split_exponent ≤ log_alphabet_size`.
* On the RLE fast path (jxl-modular `decode_fast_lossless`) `finalize` is not called, so an ANS
  stream's final state is unchecked there, and a `Repeat` before any value repeats 0 instead of
  failing with `UnexpectedLz77Repeat`. Valid streams are unaffected (`C04_rle_eq_lz77`).
* `read_uint_prefilled` masks the bit count with 31, truncates to `u32` and ignores a failed
  `consume_bits`; all three only matter for tokens no valid stream contains. Modelled as coded.
-/
namespace Jxl.Entropy
open Jxl Jxl.Enc List

/-! ## Hybrid integers -/

/-- For every config of the shape `IntegerConfig::parse` accepts and every `v < 2^32`: reading the
token and extra bits the encoder emits returns `v` and consumes exactly those bits. -/
theorem C04_uint_roundtrip (c : IntegerConfig) (hc : c.msbInToken + c.lsbInToken ≤ c.splitExponent)
    (v : Nat) (hv : v < 2 ^ 32) (rest : Bits) :
    readUint c (tokenOf c v) (uintBits c v ++ rest) = .ok (v, rest) :=
  readUint_splitUint c hc v hv rest

example : readUint ⟨4, 1, 2⟩ (tokenOf ⟨4, 1, 2⟩ 0xDEADBEEF) (uintBits ⟨4, 1, 2⟩ 0xDEADBEEF ++ [true])
    = .ok (0xDEADBEEF, [true]) := by decide

/-- `IntegerConfig::parse(log_alphabet_size)` reads back every valid config. -/
theorem C04_integer_config_roundtrip (la : Nat) (hla : la < 2 ^ 32) (c : IntegerConfig)
    (hv : c.valid la = true) (rest : Bits) :
    IntegerConfig.parse la (writeConfig la c ++ rest) = .ok (c, rest) :=
  integerConfig_roundtrip la hla c hv rest

example : IntegerConfig.valid ⟨7, 3, 2⟩ 15 = true := by decide

/-! ## Clusters and permutations -/

/-- Inverse move-to-front undoes move-to-front on cluster ids. -/
theorem C04_mtf_inv (l : List Nat) (h : ∀ x ∈ l, x < 256) :
    mtfDecode (mtfEncode l) = l ∧ ∀ i ∈ mtfEncode l, i < 256 := by
  refine ⟨mtf_decode_encode l h, ?_⟩
  have := mtf_encode_lt_from (List.range 256) l (fun x hx => List.mem_range.2 (h x hx))
  unfold mtfEncode
  simpa using this

example : mtfEncode [3, 3, 0, 3, 7] = [3, 0, 1, 1, 7] := by decide

/-- The hole check accepts exactly the maps whose image is `[0, max+1)`; otherwise `ClusterHole`. -/
theorem C04_clusters_hole_check (cl : List Nat) :
    (checkClusters cl = .ok (listMax cl + 1, cl) ↔ ∀ k, k < listMax cl + 1 → k ∈ cl) ∧
    (checkClusters cl = .error .clusterHole ↔ ∃ k, k < listMax cl + 1 ∧ k ∉ cl) :=
  ⟨checkClusters_ok_iff cl, checkClusters_err_iff cl⟩

example : checkClusters [0, 2, 2] = .error .clusterHole := by decide

/-- The simple cluster-map form reads back. -/
theorem C04_clusters_simple_roundtrip (nbits : Nat) (cl : List Nat) (h : ∀ x ∈ cl, x < 2 ^ nbits)
    (rest : Bits) :
    readMany (rbits nbits) cl.length (cl.flatMap (toBits nbits) ++ rest) = .ok (cl, rest) :=
  readMany_rbits nbits cl h rest

/-- Lehmer coding: decoding the (zero-trimmed) code of a permutation of `[0,size)` that fixes
`[0,skip)` returns the permutation. -/
theorem C04_lehmer_roundtrip (size skip : Nat) (perm : List Nat)
    (hfix : perm.take skip = List.range skip)
    (hperm : perm.drop skip ~ (List.range (size - skip)).map (· + skip)) :
    lehmerDecode size skip (lehmerEncode size skip perm) = perm :=
  lehmer_roundtrip size skip perm hfix hperm

example : lehmerDecode 5 1 (lehmerEncode 5 1 [0, 3, 1, 2, 4]) = [0, 3, 1, 2, 4] := by decide

/-- Whatever Lehmer code passes the decoder's range checks (`lehmer[i] < size - skip - i`), the
result of `read_permutation` is a permutation of `[0,size)`. -/
theorem C04_read_permutation_is_perm (size skip : Nat) (hs : skip ≤ size) (lehmer : List Nat)
    (h : ∀ j, (hj : j < lehmer.length) → lehmer[j] < size - skip - j) :
    lehmerDecode size skip lehmer ~ List.range size := by
  unfold lehmerDecode
  have h1 := lehmerApply_perm lehmer ((List.range (size - skip)).map (· + skip))
    (by intro j hj; have := h j hj; simpa using this)
  have h2 : List.range skip ++ (List.range (size - skip)).map (· + skip) = List.range size := by
    have := @List.range_add skip (size - skip)
    rw [show skip + (size - skip) = size by omega] at this
    rw [this]
    congr 1
    apply List.map_congr_left
    intro a _
    omega
  rw [← h2]
  exact Perm.append_left _ h1

/-! ## Prefix codes -/

/-- For every length vector with lengths ≤ 15 and Kraft sum ≤ 1 (so in particular exactly 1, the
only ones `with_code_lengths` accepts), and every sequence of used symbols: decoding the
concatenated codewords returns the sequence, consumes exactly those bits, and the bit count is the
sum of the code lengths. (Spec-level decoder: the interval that contains the 15-bit MSB-first
look-ahead, i.e. what the bit-reversed tables index.) -/
theorem C04_prefix_canonical_roundtrip (lens : List Nat) (hle : ∀ l ∈ lens, l ≤ 15)
    (hk : kraft lens ≤ 2 ^ 15) (syms : List Nat) (hused : ∀ s ∈ syms, lens.getD s 0 ≠ 0)
    (rest : Bits) :
    let c := PrefixCode.table (sortedSyms lens)
    readMany c.read syms.length (syms.flatMap c.encode ++ rest) = .ok (syms, rest) ∧
    (syms.flatMap c.encode).length = (syms.map fun s => lens.getD s 0).sum := by
  intro c
  induction syms with
  | nil => exact ⟨rfl, rfl⟩
  | cons s r ih =>
    obtain ⟨ih1, ih2⟩ := ih (fun s' hs' => hused s' (by simp [hs']))
    obtain ⟨h1, h2⟩ := prefix_read_encode lens hle hk s (hused s (by simp)) (r.flatMap c.encode ++ rest)
    refine ⟨?_, ?_⟩
    · simp only [List.length_cons, readMany, List.flatMap_cons, List.append_assoc]
      rw [h1]
      simp only
      rw [ih1]
    · simp only [List.flatMap_cons, List.length_append, List.map_cons, List.sum_cons]
      rw [h2, ih2]

/-- the zero-bit single-symbol code -/
theorem C04_prefix_single_roundtrip (sym n : Nat) (rest : Bits) :
    readMany (PrefixCode.single sym).read n rest = .ok (List.replicate n sym, rest) := by
  induction n with
  | zero => rfl
  | succ n ih => simp only [readMany, PrefixCode.read, ih, List.replicate_succ]

example : kraft [1, 0, 3, 3, 2] = 2 ^ 15 := by decide
example : (PrefixCode.table (sortedSyms [1, 0, 3, 3, 2])).encode 3 = [true, true, true] := by decide

/- `C04_prefix_table_eq_canonical` (NOT proved; full statement):
   for every `lens` with lengths ≤ 15 and `kraft lens = 2^15`, the two-level bit-reversed tables
   built by `Histogram::with_code_lengths` decode every 15-bit look-ahead to the same
   `(symbol, length)` as `walk (msbVal 15 s) 0 (sortedSyms lens)`, and `with_code_lengths` fails
   for every other length vector its callers can pass.
   Missing: a model of the table construction (top level ≤ 10 bits, second-level chunks with
   replication of shorter codes) and the refinement proof. The tie is the correspondence run
   (alphabets up to 2^15, lengths up to 15, explicit length vectors). -/

/-- Header fields of a prefix histogram: alphabet-size field, code-length-code length field,
and the one-symbol simple form round-trip. -/
theorem C04_prefix_header_roundtrip_partial :
    (∀ count rest, 1 ≤ count → count ≤ 2 ^ 15 →
      readPrefixCount (writePrefixCount count ++ rest) = .ok (count, rest)) ∧
    (∀ l rest, l ≤ 5 → readClcLen (writeClcLen l ++ rest) = .ok (l, rest)) ∧
    (∀ n sym rest, 2 ≤ n → n ≤ 2 ^ 15 → sym < n →
      parsePrefix n (writeSimple n [sym] none ++ rest) = .ok (.single sym, rest)) :=
  ⟨fun c r h1 h2 => readPrefixCount_write c h1 h2 r, fun l r h => readClcLen_write l h r,
   fun n s r h1 h2 h3 => parsePrefix_simple1 n s h1 h2 h3 r⟩

/-- **Complex prefix histogram.** For every alphabet size `2 ≤ count ≤ 2^15` and every complete
length vector (`count` entries, lengths ≤ 15, Kraft sum exactly 1), with or without run-length
coding of the lengths and for every requested `hskip`: `Histogram::parse(count)` on what
`writeComplex` emits — `hskip`, the code-length-code lengths in `CODE_LENGTH_ORDER` until the
space of 32 is used up, then the code-length symbols (literal lengths, repeat code 16 with 2 extra
bits, zero-run code 17 with 3 extra bits, both chained by the `(old − 2)·4 / ·8 + extra + 3` rule)
— returns the canonical code of `lens` and consumes exactly those bits. The code-length code is
the one `huffLengths 5` builds from the token frequencies (proved complete for every frequency
vector, `huffLengths_spec`), a single used token giving the zero-bit code. -/
theorem C04_prefix_complex_roundtrip (count : Nat) (lens : List Nat) (rle : Bool) (req : Option Nat)
    (h2 : 2 ≤ count) (hc15 : count ≤ 2 ^ 15) (hlen : lens.length = count)
    (h15 : ∀ l ∈ lens, l ≤ 15) (hk : kraft lens = 2 ^ 15) (rest : Bits) :
    parsePrefix count (writeComplex lens rle req ++ rest) = .ok (.table (sortedSyms lens), rest) :=
  parsePrefix_complex count lens rle req h2 hc15 hlen h15 hk rest

/-- six used symbols with lengths 2,2,3,3,3,3 in an alphabet of 8: not a simple shape; the run of
four 3s is written as one literal and one repeat code 16 -/
example : kraft [2, 2, 3, 3, 3, 3, 0, 0] = 2 ^ 15 ∧ simpleShape [2, 2, 3, 3, 3, 3, 0, 0] = none ∧
    clTokens true [2, 2, 3, 3, 3, 3, 0, 0] = [(2, 0, 0), (2, 0, 0), (3, 0, 0), (16, 2, 0)] := by
  decide

/-- a zero run in the middle is written with code 17 -/
example : clTokens true [1, 2, 0, 0, 0, 0, 0, 3, 3]
    = [(1, 0, 0), (2, 0, 0), (17, 3, 2), (3, 0, 0), (3, 0, 0)] := by decide

/-- **Prefix histogram header, every form.** For every prefix `CodeSpec` that passes the
encoder's Boolean per-code check `codeOk` (alphabet size in `[1, 2^15]`, one length ≤ 15 per
symbol, and either exactly one used symbol or Kraft sum 1) and every requested form
(`.auto | .simple | .complex rle hskip`): `Histogram::parse(count)` on the header `writePrefix`
emits — nothing for `count = 1`; the simple form for 1, 2, 3 or 4 used symbols of the shapes
1 / 1,1 / 1,2,2 / 2,2,2,2 / 1,2,3,3 (tree-select bit); the complex form otherwise or on request —
returns exactly the code the spec denotes (`CodeSpec.prefixCode`) and consumes exactly the
header bits. -/
theorem C04_prefix_histogram_roundtrip (count : Nat) (lens : List Nat) (form : PrefixForm)
    (tokens : List Nat) (h : codeOk .prefix tokens (.lengths count lens form) = true) (rest : Bits) :
    parsePrefix count (writePrefix count lens form ++ rest)
      = .ok ((CodeSpec.lengths count lens form).prefixCode, rest) :=
  prefix_histogram_rt count lens form tokens h rest

example : codeOk .prefix [0, 5, 3] (.lengths 8 [2, 2, 3, 3, 3, 3, 0, 0] .auto) = true ∧
    codeOk .prefix [1, 4] (.lengths 5 [3, 2, 0, 1, 3] .simple) = true ∧
    codeOk .prefix [7] (.lengths 9 [1, 2, 0, 0, 0, 0, 0, 3, 3] (.complex true 2)) = true := by decide

/-! ## ANS -/

/-- One decode step inverts one encode step, and states stay in `[2^16, 2^32)`:
if the alias map of `h` has `inv k` as a preimage of `(s, k)` for every `k < D` (D = probability of
`s`), then from the encoder's new state the decoder returns `s`, pulls in exactly the 16-bit word
the encoder emitted (if any) and is back at the encoder's old state. -/
theorem C04_ans_step_inv (h : AnsHist) (s D : Nat) (inv : Nat → Nat) (hD : 0 < D) (hD' : D ≤ 4096)
    (hinv : ∀ k, k < D → h.lookup (inv k) = (s, k, D) ∧ inv k < 4096)
    (x : Nat) (hx1 : 2 ^ 16 ≤ x) (hx2 : x < 2 ^ 32) (rest : Bits) :
    let r := ansEncStep D inv x
    2 ^ 16 ≤ r.1 ∧ r.1 < 2 ^ 32 ∧
    h.readSymbol r.1 (stepBits r.2 ++ rest) = .ok ((s, x), rest) :=
  ans_step_inv h s D inv hD hD' hinv x hx1 hx2 rest

/-- symbols only, one histogram per cluster: decode loop used to state `C04_ans_roundtrip` -/
def ansReadSeq (hs : List AnsHist) : List Nat → Nat → Bits → R (List Nat × Nat)
  | [], x, s => .ok (([], x), s)
  | c :: cs, x, s =>
    match (hs.getD c default).readSymbol x s with
    | .error e => .error e
    | .ok ((sym, x'), s') =>
      match ansReadSeq hs cs x' s' with
      | .error e => .error e
      | .ok ((syms, xf), sf) => .ok ((sym :: syms, xf), sf)

/-- Whole sequences: for any histograms and any token sequence whose symbols the alias maps can
reach (`AnsToksOK`, provided by `C04_alias_bijection` for every table `AnsHist.build` makes from a
distribution summing to 4096), the stream the encoder produces — 32-bit initial state first, then
the renormalisation words interleaved with the tokens' extra bits, here empty — decodes to the
same symbols, ends in state `0x130000`, and all bits are consumed. -/
theorem C04_ans_roundtrip (hs : List AnsHist) (revs : List (Array (Array Nat))) (ts : List Tok)
    (hok : AnsToksOK hs ts) (hex : ∀ t ∈ ts, t.extra = []) (rest : Bits) :
    let (x, bits) := encodeToksAns hs revs ts
    ∃ s0, rbits 32 (toBits 32 x ++ bits ++ rest) = .ok (x, s0) ∧
      ansReadSeq hs (ts.map (·.cluster)) x s0 = .ok ((ts.map (·.sym), ansFinalState), rest) := by
  have hlt := (ans_state_range hs revs ts hok).2
  simp only
  refine ⟨(encodeToksAns hs revs ts).2 ++ rest, ?_, ?_⟩
  · rw [List.append_assoc, rbits_toBits 32 _ _ hlt]
  · induction ts with
    | nil => simp [encodeToksAns, ansReadSeq]
    | cons t r ih =>
      have hpop := ans_pop hs revs t r hok rest
      rw [hex t (by simp), List.nil_append] at hpop
      simp only [List.map_cons, ansReadSeq, hpop]
      rw [ih (fun t' ht' => hok t' (by simp [ht'])) (fun t' ht' => hex t' (by simp [ht']))
        (ans_state_range hs revs r (fun t' ht' => hok t' (by simp [ht']))).2]

/-- The alias table: for every distribution `d` of table size `2^la` (`5 ≤ la ≤ 8`) summing to
4096 that is not single-symbol, every 12-bit index maps into range (`offset < d[symbol]`, the
reported probability is `d[symbol]`), and every `(symbol, offset)` with `offset < d[symbol]` has a
preimage: with 4096 indices and `Σ d = 4096` targets the alias map is a bijection
`[0,4096) ≃ Σ_s [0, d s)`. Proved by an invariant over the overfull/underfull loop
(`Proofs/Entropy/Alias.lean`). -/
theorem C04_alias_bijection (la : Nat) (hla : 5 ≤ la ∧ la ≤ 8) (d : AnsDist)
    (hlen : d.dist.length = 2 ^ la) (hsum : d.dist.sum = 4096) :
    let h := AnsHist.build la d
    (∀ idx, idx < 4096 →
      (h.lookup idx).1 < 2 ^ la ∧ (h.lookup idx).2.2 = d.dist.getD (h.lookup idx).1 0 ∧
      (h.lookup idx).2.1 < d.dist.getD (h.lookup idx).1 0) ∧
    (∀ s k, k < d.dist.getD s 0 → ∃ idx, idx < 4096 ∧ h.lookup idx = (s, k, d.dist.getD s 0)) :=
  alias_bijection la hla d hlen hsum

/-- in-range half on its own (kept under the planned name) -/
theorem C04_alias_in_range (la : Nat) (hla : 5 ≤ la ∧ la ≤ 8) (d : AnsDist)
    (hlen : d.dist.length = 2 ^ la) (hsum : d.dist.sum = 4096) (idx : Nat) (hidx : idx < 4096) :
    ((AnsHist.build la d).lookup idx).2.1 < d.dist.getD ((AnsHist.build la d).lookup idx).1 0 :=
  ((C04_alias_bijection la hla d hlen hsum).1 idx hidx).2.2

/-- hence every symbol with non-zero probability is encodable (`AnsSymOK`, the hypothesis of the
stream theorems) -/
theorem C04_alias_symOK (la : Nat) (hla : 5 ≤ la ∧ la ≤ 8) (d : AnsDist)
    (hlen : d.dist.length = 2 ^ la) (hsum : d.dist.sum = 4096) (s : Nat) (hs : d.dist.getD s 0 ≠ 0) :
    AnsSymOK (AnsHist.build la d) s :=
  alias_symOK la hla d hlen hsum s hs

/-- Histogram header, three of the four forms (single, two-symbol, flat) and the fields of the
general form (8-bit varint, log-count prefix code, shift). -/
theorem C04_ans_hist_roundtrip_partial :
    (∀ la v rest, v < 2 ^ la → v < 256 →
      parseAnsDist la ([true, false] ++ writeU8 v ++ rest)
        = .ok (⟨(List.replicate (2 ^ la) 0).set v 4096, v + 1⟩, rest)) ∧
    (∀ la v0 v1 p rest, v0 < 2 ^ la → v1 < 2 ^ la → v0 ≠ v1 → v0 < 256 → v1 < 256 → p < 4096 →
      parseAnsDist la ([true, true] ++ writeU8 v0 ++ writeU8 v1 ++ toBits 12 p ++ rest)
        = .ok (⟨((List.replicate (2 ^ la) 0).set v0 p).set v1 (4096 - p), max v0 v1 + 1⟩, rest)) ∧
    (∀ la a rest, 1 ≤ a → a ≤ 2 ^ la → a ≤ 256 →
      parseAnsDist la ([false, true] ++ writeU8 (a - 1) ++ rest)
        = .ok (⟨flatDist a ++ List.replicate (2 ^ la - a) 0, a⟩, rest)) ∧
    (∀ v rest, v < 256 → readU8 (writeU8 v ++ rest) = .ok (v, rest)) ∧
    (∀ c rest, c ≤ 13 → readLogCount (writeLogCount c ++ rest) = .ok (c, rest)) ∧
    (∀ sh rest, sh ≤ 13 → readShift (writeShift sh ++ rest) = .ok (sh, rest)) :=
  ⟨fun la v r h1 h2 => parseAns_single la v h1 h2 r,
   fun la v0 v1 p r a b c d e f => parseAns_binary la v0 v1 p a b c d e f r,
   fun la a r h1 h2 h3 => parseAns_flat la a h1 h2 h3 r,
   fun v r h => readU8_writeU8 v h r, fun c r h => readLogCount_write c h r,
   fun s r h => readShift_write s h r⟩

/-- **General ANS histogram.** For `5 ≤ la ≤ 8`, every distribution `d` with at most `2^la`
entries, sum 4096 and at least two used symbols, every `shift ≤ 13` under which all entries but
the omitted one are exactly representable (`ReprOK`; automatic for `shift = 13`, and what
`quantizeForShift shift d = d` gives), with or without RLE: the general branch of
`Histogram::parse` on what `writeGeneral` emits — shift field, alphabet size, one log-count per
entry with marker 13 + length for a run (`findRuns`: runs are disjoint, non-adjacent, avoid the
omitted position and the entry after it), then the mantissa bits — returns `d` padded with zeros
to `2^la` and the alphabet size `generalAlphabet d`: the omitted position is recovered as the first
maximal log-count, run entries repeat the previous value, the omitted entry is `4096 − Σ others`. -/
theorem C04_ans_general_roundtrip (la : Nat) (hla : 5 ≤ la ∧ la ≤ 8) (d : List Nat) (shift : Nat)
    (rle : Bool) (hlen : d.length ≤ 2 ^ la) (hsum : d.sum = 4096) (hused : 2 ≤ (usedSyms d).length)
    (hshift : shift ≤ 13) (hq : ReprOK shift d) (rest : Bits) :
    parseAnsDist la (writeGeneral d shift rle ++ rest)
      = .ok (⟨d ++ List.replicate (2 ^ la - d.length) 0, generalAlphabet d⟩, rest) :=
  parseAnsDist_general la hla d shift rle hlen hsum hused hshift hq rest

/-- a distribution whose omitted position is 6 (not 0) and which has an RLE run `(start 1, length 5)` -/
example : omitPos [16, 16, 16, 16, 16, 16, 4000] = 6 ∧
    effectiveForm [16, 16, 16, 16, 16, 16, 4000] .auto = .general 13 true ∧
    findRuns 6 #[16, 16, 16, 16, 16, 16, 4000] 7 8 0 [] = [(1, 5)] := by
  refine ⟨by decide, by decide, by decide +kernel⟩

/-- **ANS histogram header, every form.** For every ANS `CodeSpec` that passes the encoder's
Boolean per-code check `codeOk` (`5 ≤ la ≤ 8`, at most `2^la` probabilities summing to 4096) and
every requested form (`.auto | .single | .binary | .flat | .general shift rle`; a form that cannot
express `d` exactly falls back to single / binary / `general 13` as `effectiveForm` says):
`Histogram::parse(la)` on the header `writeAns` emits returns exactly the table the spec denotes
(`CodeSpec.ansHist`: the distribution padded to `2^la`, the alphabet size of the form, and the
alias table built from them) and consumes exactly the header bits. -/
theorem C04_ans_histogram_roundtrip (la : Nat) (d : List Nat) (form : AnsForm) (tokens : List Nat)
    (h : codeOk (.ans la) tokens (.dist d form) = true) (rest : Bits) :
    parseAns la (writeAns d form ++ rest) = .ok ((CodeSpec.dist d form).ansHist la, rest) :=
  ans_histogram_rt la d form tokens h rest

example : codeOk (.ans 5) [0, 6] (.dist [16, 16, 16, 16, 16, 16, 4000] .auto) = true ∧
    codeOk (.ans 8) [3] (.dist (quantizeForShift 3 [1000, 1000, 1000, 1000, 90, 6]) (.general 3 true)) = true ∧
    ansFormOk (quantizeForShift 3 [1000, 1000, 1000, 1000, 90, 6]) (.general 3 true) = true := by
  decide

/-! ## LZ77 -/

/-- The special-distance table regenerated from `lib.rs` on this run equals the frozen Spec copy,
and the Spec copy is what the format describes: exactly the 120 offsets `(dx, dy)` with
`dy ∈ [0,7]`, `dx ∈ [-7,8]`, `(dy = 0 → dx ≥ 1)`, each once, in order of non-decreasing
Euclidean length. -/
theorem C04_special_distances :
    Jxl.Gen.lz77SpecialDistances = specialDistancesSpec ∧
    specialDistancesSpec.length = 120 ∧ specialDistancesSpec.Nodup ∧
    (∀ e ∈ specialDistancesSpec, 0 ≤ e.2 ∧ e.2 ≤ 7 ∧ -7 ≤ e.1 ∧ e.1 ≤ 8 ∧ (e.2 = 0 → 1 ≤ e.1)) ∧
    specialDistancesSpec.Pairwise (fun a b => a.1 * a.1 + a.2 * a.2 ≤ b.1 * b.1 + b.2 * b.2) := by
  refine ⟨by decide +kernel, by decide +kernel, by decide +kernel, by decide +kernel, by decide +kernel⟩

/-- LZ77 parameters header reads back (all four selectors of both fields). -/
theorem C04_lz77_header_roundtrip (lz : Option Lz77Params)
    (h : ∀ p, lz = some p →
      (p.minSymbol = 224 ∨ p.minSymbol = 512 ∨ p.minSymbol = 4096 ∨
        (8 ≤ p.minSymbol ∧ p.minSymbol < 8 + 2 ^ 15)) ∧
      (3 ≤ p.minLength ∧ p.minLength ≤ 264) ∧ p.lenConf.valid 8 = true) (rest : Bits) :
    parseLz77 (writeLz77 lz ++ rest) = .ok (lz, rest) := by
  cases lz with
  | none => exact parseLz77_none rest
  | some p =>
    obtain ⟨h1, h2, h3⟩ := h p rfl
    exact parseLz77_some p h1 h2 h3 rest

/-- Decoding an encoded parse yields its expansion: for any plan with LZ77 enabled, both coders,
any multiplier (special distances via the table regenerated from the source, window clamp, copies
overlapping their own output), any item list valid for the plan (`ItemsOK`: literals below
`min_symbol`, copy lengths ≥ `min_length` and < 2^32, first item not a copy) whose tokens the codes
can carry (`ToksOK`), and any context list with one context per *output* value:
`begin`, one `read_varint_with_multiplier` per context, `finalize` succeed, return exactly
`expandItems mult items`, and consume exactly the encoder's bits. -/
theorem C04_lz77_expand (p : EntropyPlan) (lz : Lz77Params) (hlz : p.lz77 = some lz) (mult : Nat)
    (items : List Item) (ctxs : List Nat) (rest : Bits)
    (hctx : CtxsFor items ctxs) (hitems : ItemsOK p items False)
    (hok : ToksOK p (p.toks items)) :
    ∃ st0 s0 st1,
      (planDecoder p).begin {} (encodeItems p items ++ rest) = .ok (st0, s0) ∧
      (planDecoder p).readSeq mult ctxs st0 s0 = .ok ((expandItems mult items, st1), rest) ∧
      (planDecoder p).finalize st1 = .ok () :=
  stream_roundtrip_lz p lz hlz mult items ctxs rest hctx hitems hok

example : expandItems 5 [.lit 0 7, .lit 0 9, .copy 0 4 (distCodeFor 5 2), .copy 0 3 1]
    = [7, 9, 7, 9, 7, 9, 9, 9, 9] := by decide

/-- RLE mode against the general path. Under the `as_rle` shape (every copy is "distance code 1",
multiplier ≠ 0, the distance token costs nothing — `DistTokFree`, shown for prefix plans in
`distTok_free_prefix`): (1) the RLE decoder returns one token per item, `Value v` for a literal and
`Repeat len` for a copy, and consumes exactly the encoder's bits; (2) expanding those tokens the way
jxl-modular's `RleState` does gives exactly what the general LZ77 path returns for the same
stream (`C04_lz77_expand`). -/
theorem C04_rle_eq_lz77 (p : EntropyPlan) (lz : Lz77Params) (hlz : p.lz77 = some lz)
    (hfree : DistTokFree p) (mult : Nat) (hm : mult ≠ 0)
    (c0 v0 : Nat) (items : List Item) (rest : Bits)
    (hitems : ItemsOK p (.lit c0 v0 :: items) False) (hd : AllDist1 items)
    (hok : ToksOK p (p.toks (.lit c0 v0 :: items))) :
    (∃ st0 s0 st1,
      (planDecoder p).begin {} (encodeItems p (.lit c0 v0 :: items) ++ rest) = .ok (st0, s0) ∧
      readRleSeq (planDecoder p) lz ((Item.lit c0 v0 :: items).map itemCtx) st0 s0
        = .ok (((Item.lit c0 v0 :: items).map rleTokOf, st1), rest) ∧
      (planDecoder p).finalize st1 = .ok ()) ∧
    rleExpand ((Item.lit c0 v0 :: items).map rleTokOf) 0 = expandItems mult (.lit c0 v0 :: items) := by
  refine ⟨?_, ?_⟩
  · obtain ⟨st0, hb, hst, _, _, _⟩ := begin_ok p _ hok rest
    have hitems' : ItemsOK p (.lit c0 v0 :: items) True := ⟨hitems.1, hitems.2⟩
    obtain ⟨x, hseq, hfin⟩ := rle_seq p lz hlz hfree _ st0 rest hitems' (by exact hd) hok hst
    exact ⟨st0, _, _, hb, hseq, finalize_ok p _ hfin⟩
  · rw [← decodeVals_eq_expand]
    simp only [List.map_cons, rleTokOf, rleExpand, decodeVals]
    rw [rleExpand_eq_decodeVals mult hm items v0 [] hd]

/-! ## Top level -/

/-- Without LZ77: for any resolved plan (prefix or ANS codes, any cluster map and per-cluster
configs) and any sequence of `(context, value)` with values `< 2^32`, configs of the accepted
shape and tokens the codes can carry: `begin`, one read per symbol, `finalize` succeed on the
encoder's stream, return the values and consume exactly the encoder's bits (`rest` is untouched).
With LZ77 this is `C04_lz77_expand`. -/
theorem C04_entropy_stream_plain (p : EntropyPlan) (hlz : p.lz77 = none) (mult : Nat)
    (syms : List (Nat × Nat)) (rest : Bits)
    (hv : ∀ cv ∈ syms, cv.2 < 2 ^ 32 ∧ CfgOK (p.config (p.clusterOf cv.1)))
    (hok : ToksOK p (p.toks (syms.map fun (c, v) => .lit c v))) :
    ∃ st0 s0 st1,
      (planDecoder p).begin {} (encodeSymbols p syms ++ rest) = .ok (st0, s0) ∧
      (planDecoder p).readSeq mult (syms.map (·.1)) st0 s0 = .ok ((syms.map (·.2), st1), rest) ∧
      (planDecoder p).finalize st1 = .ok () :=
  stream_roundtrip_plain p hlz mult syms rest hv hok

/-- The same two statements with the encoder's own Boolean validity check as the only
hypothesis about the plan (`EntropyPlan.check`, what `jxlmodel c04enc` evaluates before it emits
a stream; it is `decide`-able for concrete plans): whenever the reference encoder accepts a plan
and a parse — and, with LZ77, no copy is 2^32 values or longer — the decoder the plan denotes
returns exactly the encoded sequence from the encoder's stream, consumes exactly the encoder's
bits and passes the final-state check. -/
theorem C04_entropy_roundtrip_checked (p : EntropyPlan) (mult : Nat) (items : List Item)
    (ctxs : List Nat) (rest : Bits) (hctx : CtxsFor items ctxs) (h : p.check items = true)
    (hlen : ∀ i ∈ items, match i with | .copy _ len _ => len < 2 ^ 32 | .lit _ _ => True) :
    ∃ st0 s0 st1,
      (planDecoder p).begin {} (encodeItems p items ++ rest) = .ok (st0, s0) ∧
      (planDecoder p).readSeq mult ctxs st0 s0 = .ok ((expandItems mult items, st1), rest) ∧
      (planDecoder p).finalize st1 = .ok () := by
  cases hlz : p.lz77 with
  | some lz => exact check_roundtrip_lz p lz hlz mult items ctxs rest hctx h hlen
  | none =>
    -- without LZ77 every item is a literal
    have f := checkFacts p items h
    have hall : ∀ i ∈ items, ∃ c v, i = .lit c v := by
      intro i hi
      have := f.itemsNoLz hlz i hi
      cases i with
      | lit c v => exact ⟨c, v, rfl⟩
      | copy c len dc => exact absurd this id
    have hsyms : ∃ syms : List (Nat × Nat), items = syms.map fun (c, v) => Item.lit c v := by
      clear hctx h hlen f
      induction items with
      | nil => exact ⟨[], rfl⟩
      | cons i r ih =>
        obtain ⟨c, v, rfl⟩ := hall i (by simp)
        obtain ⟨syms, rfl⟩ := ih (fun j hj => hall j (by simp [hj]))
        exact ⟨(c, v) :: syms, rfl⟩
    obtain ⟨syms, rfl⟩ := hsyms
    have hc : ctxs = syms.map (·.1) := by
      clear h hlen f hall
      induction syms generalizing ctxs with
      | nil => simpa [CtxsFor] using hctx
      | cons cv r ih =>
        obtain ⟨c, v⟩ := cv
        obtain ⟨cs', rfl, hr⟩ := hctx
        rw [ih cs' hr]; rfl
    subst hc
    have := check_roundtrip_plain p hlz mult syms rest h
    rw [← decodeVals_eq_expand, decodeVals_lits]
    exact this

/-- Header composition, nested (entropy-coded, optionally move-to-front) cluster maps included:
if the plan and the plans nested in its cluster map are well formed (`HeaderOKD`: sizes, valid
configs and LZ77 parameters, no hole, nested plan passes `check` on the cluster ids — all implied by
`check`) and every histogram header reads back as the code it denotes (`HistRTD`; proved for the
single-symbol prefix forms in `prefix_single_rt`, open for the complex prefix form and the general
ANS form), then `Decoder::parse(num_dist)` on the encoder's header returns exactly `planDecoder p`
— LZ77 parameters, cluster map (nested decoder parsed, begun, read, finalized, inverse MTF, hole
check), `use_prefix_code`/`log_alphabet_size`, every `IntegerConfig`, every histogram — and
consumes exactly the header bits. -/
theorem C04_header_roundtrip_partial (p : EntropyPlan) (ok : HeaderOKD planDepth p)
    (hrt : HistRTD planDepth p) (rest : Bits) :
    Decoder.parse p.numDist (encodeHeader p ++ rest) = .ok (planDecoder p, rest) :=
  parse_header_nested planDepth parseFuel p true rest (by decide) ok hrt (by simp)

/-- a concrete plan that satisfies both hypotheses (non-vacuity): one context, one cluster whose
prefix code is the zero-bit code of symbol 2 in an alphabet of 4 -/
def demoPlan : EntropyPlan :=
  { numDist := 1, clusterMap := [0], configs := [⟨0, 0, 0⟩], codes := [.lengths 4 [0, 0, 1, 0] .auto] }

example : HeaderOKD planDepth demoPlan ∧ HistRTD planDepth demoPlan ∧
    demoPlan.check [.lit 0 2, .lit 0 2] = true := by
  refine ⟨⟨⟨rfl, rfl⟩, rfl, ?_, trivial, ?_, ?_, rfl⟩, ⟨?_, trivial⟩, by decide +kernel⟩
  · intro c hc
    simp only [demoPlan, List.mem_singleton] at hc
    subst hc; decide
  · intro q hq; cases hq
  · intro k hk
    have : k = 0 := by
      have : demoPlan.numClusters = 1 := rfl
      omega
    subst this; simp [demoPlan]
  · intro c hc
    simp only [demoPlan, List.mem_singleton] at hc
    subst hc
    exact ⟨4, [0, 0, 1, 0], .auto, rfl, by omega, by omega,
      fun rest => prefix_single_rt 4 [0, 0, 1, 0] .auto 1 2 (by omega) (by omega) (by omega) (by decide)
        (by omega) rest⟩

/-- **Top level**, everything composed, with one open hypothesis (`HistRTD`: each histogram header
reads back). For every plan the reference encoder accepts (`check`), well formed as above, every
parse `items` (no copy of 2^32 values or more) and every context list with one context per output
value: `Decoder::parse` on `header ++ stream ++ rest` succeeds, and `begin`, one
`read_varint_with_multiplier` per context, `finalize` return exactly the encoded sequence
(LZ77-expanded), leave exactly `rest`, and pass the final-state check. -/
theorem C04_entropy_roundtrip_partial (p : EntropyPlan) (mult : Nat) (items : List Item)
    (ctxs : List Nat) (rest : Bits) (ok : HeaderOKD planDepth p) (hrt : HistRTD planDepth p)
    (hctx : CtxsFor items ctxs) (h : p.check items = true)
    (hlen : ∀ i ∈ items, match i with | .copy _ len _ => len < 2 ^ 32 | .lit _ _ => True) :
    ∃ d s st0 s0 st1,
      Decoder.parse p.numDist (encodeHeader p ++ encodeItems p items ++ rest) = .ok (d, s) ∧
      d.begin {} s = .ok (st0, s0) ∧
      d.readSeq mult ctxs st0 s0 = .ok ((expandItems mult items, st1), rest) ∧
      d.finalize st1 = .ok () := by
  obtain ⟨st0, s0, st1, hb, hseq, hfin⟩ := C04_entropy_roundtrip_checked p mult items ctxs rest hctx h hlen
  refine ⟨planDecoder p, encodeItems p items ++ rest, st0, s0, st1, ?_, hb, hseq, hfin⟩
  rw [List.append_assoc]
  exact C04_header_roundtrip_partial p ok hrt _

/-- **Header, from the encoder's check alone.** For every plan the reference encoder accepts for
some parse (`p.check items = true`; `check` is executable): `Decoder::parse(num_dist)` on
`encodeHeader p ++ rest` succeeds, consumes exactly the header, and returns the decoder the plan
denotes — LZ77 parameters, cluster map (simple, or entropy coded by a nested decoder, optionally
move-to-front, up to the nesting depth the format allows), coder kind, every `IntegerConfig`,
every histogram. `check` only asks for *at least* one config and one code per cluster; the surplus
ones are never written, so the decoder is that of the trimmed plan `trimD planDepth p`, which is
`planDecoder p` itself when the lists have exactly one entry per cluster. -/
theorem C04_header_roundtrip (p : EntropyPlan) (items : List Item) (h : p.check items = true)
    (rest : Bits) :
    Decoder.parse p.numDist (encodeHeader p ++ rest) = .ok (planDecoder (trimD planDepth p), rest) ∧
    (p.configs.length = p.numClusters ∧ p.codes.length = p.numClusters →
      planDecoder (trimD planDepth p) = planDecoder p) :=
  ⟨header_roundtrip_of_check p items h rest, planDecoder_trimD planDepth p⟩

/-- a prefix plan whose code needs the complex form (six used symbols, a repeat code) -/
def demoComplexPlan : EntropyPlan :=
  { numDist := 1, clusterMap := [0], configs := [⟨4, 1, 1⟩],
    codes := [.lengths 8 [2, 2, 3, 3, 3, 3, 0, 0] .auto] }

/-- an ANS plan whose histogram needs the general form with an RLE run and omitted position 6 -/
def demoAnsPlan : EntropyPlan :=
  { numDist := 1, clusterMap := [0], coder := .ans 5, configs := [⟨4, 1, 1⟩],
    codes := [.dist [16, 16, 16, 16, 16, 16, 4000] .auto] }

/-- nested plan for a cluster map, with a surplus code -/
def demoInnerPlan : EntropyPlan :=
  { numDist := 1, clusterMap := [0], configs := [⟨4, 1, 1⟩],
    codes := [.lengths 2 [1, 1] .auto, .lengths 2 [1, 1] .auto] }

/-- three contexts, two clusters, the cluster map entropy coded with move-to-front by a nested plan;
a surplus config at the top level and a surplus code in the nested plan (trimmed away) -/
def demoNestedPlan : EntropyPlan :=
  { numDist := 3, clusterMap := [0, 1, 0], clusterInner := some (true, demoInnerPlan),
    configs := [⟨4, 1, 1⟩, ⟨4, 1, 1⟩, ⟨4, 1, 1⟩],
    codes := [.lengths 8 [2, 2, 3, 3, 3, 3, 0, 0] .auto,
              .lengths 8 [2, 2, 3, 3, 3, 3, 0, 0] (.complex false 2)] }

example : demoComplexPlan.check [.lit 0 0, .lit 0 5, .lit 0 3] = true ∧
    demoAnsPlan.check [.lit 0 0, .lit 0 6, .lit 0 6] = true ∧
    demoNestedPlan.check [.lit 0 0, .lit 1 5, .lit 2 3] = true := by
  refine ⟨by decide +kernel, by decide +kernel, by decide +kernel⟩

/-- **Top level, everything composed, no open hypothesis.** For every plan the reference encoder
accepts (`p.check items = true`), every parse `items` (no copy of 2^32 values or more), every
multiplier and every context list with one context per output value: `Decoder::parse(num_dist)`
on `header ++ stream ++ rest` succeeds, and with the decoder it returns `begin`, one
`read_varint_with_multiplier` per context and `finalize` return exactly the encoded sequence
(LZ77-expanded), leave exactly `rest`, and pass the ANS final-state check. (Same conclusion as
`C04_entropy_roundtrip_partial`; its hypotheses `HeaderOKD` and `HistRTD` are discharged by
`C04_prefix_histogram_roundtrip`, `C04_ans_histogram_roundtrip` and `check` itself.) -/
theorem C04_entropy_roundtrip (p : EntropyPlan) (mult : Nat) (items : List Item)
    (ctxs : List Nat) (rest : Bits) (hctx : CtxsFor items ctxs) (h : p.check items = true)
    (hlen : ∀ i ∈ items, match i with | .copy _ len _ => len < 2 ^ 32 | .lit _ _ => True) :
    ∃ d s st0 s0 st1,
      Decoder.parse p.numDist (encodeHeader p ++ encodeItems p items ++ rest) = .ok (d, s) ∧
      d.begin {} s = .ok (st0, s0) ∧
      d.readSeq mult ctxs st0 s0 = .ok ((expandItems mult items, st1), rest) ∧
      d.finalize st1 = .ok () := by
  obtain ⟨st0, s0, st1, hp, hb, hseq, hfin⟩ :=
    entropy_roundtrip_of_check p mult items ctxs rest hctx h hlen
  exact ⟨_, _, st0, s0, st1, hp, hb, hseq, hfin⟩

example : CtxsFor [Item.lit 0 0, .lit 1 5, .lit 2 3] [0, 1, 2] := ⟨_, rfl, _, rfl, _, rfl, rfl⟩

/- What is still NOT covered by C04 (see also the notes at the top):
   * `C04_prefix_table_eq_canonical` — the two-level bit-reversed lookup tables of
     `Histogram::with_code_lengths` are represented by their Spec (`PrefixCode.table`, interval
     decoding); the table construction itself is not modelled. Tie: the correspondence run.
   * The theorems are about the Lean model of `jxl_coding`; model and crate are tied by the
     differential run (`tools/props/c04.py`), which also replays the reference encoder's streams
     through the real decoder. -/

example : (prefixPlan 2 [.lit 0 5, .lit 1 300, .lit 0 5]).check [.lit 0 5, .lit 1 300, .lit 0 5] = true := by
  decide +kernel

end Jxl.Entropy
