import JxlModel.Proofs.TaskStages
import JxlModel.Props.C02
/-!
# C07 — output does not depend on threads, scheduling or repetition (partial)

**What is proved** (about the models in `Model/Tasks.lean`, `Model/TaskStages.lean`):

* `C07_disjoint_tasks_confluent` — jobs with pairwise `W_i ∩ (R_j ∪ W_j) = ∅` give the store of
  the sequential order under *every* permutation of the job list and under *every*
  order-preserving interleaving of their steps (cell / row granularity).
* `C07_partition_independent_of_pool` — the job lists of the parallel stages are functions of
  sub-grid geometry only; the RCT / squeeze bands are exactly rows `16k .. min(16k+16, h)`.
* `C07_partition_tasks_disjoint` — jobs built on an `into_groups` partition (own cells read and
  written, a shared read-only area read) satisfy the disjointness premise (C02's partition
  theorems are imported); `C07_band_jobs_confluent` puts the three together for the 16-row bands.
* `C07_error_presence_schedule_independent` — with the shared error slot, Ok/Err-ness of the
  result is `initial ∨ ⋁ job fails on the initial store` for every schedule. The error *value* is
  whatever the last failing job wrote and does depend on the schedule
  (`C07_error_value_depends_on_schedule_witness`) — the property does not ask for more.
* `C07_none_pool_eq_any_pool`, `C07_pipeline_pool_independent` — the in-place loop of
  `JxlThreadPool::none()` is one admissible schedule, every admissible schedule of any pool gives
  its outcome, stage after stage.
* `C07_rerender_idempotent`, `C07_lazy_init_idempotent`, `C07_monotone_cache_deterministic`,
  `C07_scratch_oblivious_jobs_schedule_independent`, `C07_noise_seed_independent_of_thread`.

**Partial.** Real interleavings are sampled by the differential run (`tools/props/c07.py`), not
enumerated; that the Rust jobs *have* the declared footprints (data-race freedom of the `unsafe`
sub-grid sharing) is C02's partial subject; rayon (`scope`/`for_each` run every job exactly once
and join) and `std::sync` (`Mutex`, `RwLock`, `Once`, `Condvar`, per-location coherence of
relaxed atomics) are trusted; nested fork-joins are flattened; memory limits are outside the
model (the instantaneous tracked total is schedule dependent — see the check's evidence).
-/
namespace Jxl.Tasks
open Jxl.Subgrid

section
variable {V : Type} [Inhabited V]

/-- **Confluence.** Pairwise independent jobs: every order of the jobs, and every interleaving of
their steps that keeps each job's program order, ends in the store of the sequential order. -/
theorem C07_disjoint_tasks_confluent (ts : List (Task V)) (hd : ts.Pairwise Task.Indep)
    (s : Store V) :
    (∀ order : List (Task V), order.Perm ts → runTasks order s = runTasks ts s) ∧
    (∀ steps : List (Step V), Interleaving (ts.map Task.steps) steps →
      runSteps steps s = runTasks ts s) :=
  ⟨fun _ hp => runTasks_perm hd hp s,
   fun _ hi => by rw [runTasks_eq_noneOrder]; exact runSteps_interleaving hd hi s⟩

/-- **Error presence.** Whatever the schedule (step interleaving, or whole jobs in any order),
the samples are those of the sequential order and the slot holds an error exactly when it did
before or some job fails *on the initial store*. The right-hand sides do not mention the
schedule. (The stored error value is not determined: see the witness below.) -/
theorem C07_error_presence_schedule_independent (ts : List (Task V))
    (hd : ts.Pairwise Task.Indep) (st : St V) :
    (∀ steps : List (Step V), Interleaving (ts.map Task.steps) steps →
      (execSteps steps st).slot.isSome = (st.slot.isSome || ts.any fun t => t.failsAlone st.store) ∧
      (execSteps steps st).store = runTasks ts st.store) ∧
    (∀ order : List (Task V), order.Perm ts →
      (execSteps (noneOrder order) st).slot.isSome =
        (st.slot.isSome || ts.any fun t => t.failsAlone st.store) ∧
      (execSteps (noneOrder order) st).store = runTasks ts st.store) := by
  constructor
  · intro steps hi
    obtain ⟨h1, h2⟩ := execSteps_store_flag steps st
    rw [h1, h2, execStepsB_interleaving hd hi, execStepsB_noneOrder_flag hd, execStepsB_fst,
      runTasks_eq_noneOrder]
    exact ⟨rfl, rfl⟩
  · intro order hp
    have hpo : order.Pairwise Task.Indep := (hp.pairwise_iff (fun h => Task.Indep.symm h)).2 hd
    obtain ⟨h1, h2⟩ := execSteps_store_flag (noneOrder order) st
    rw [h1, h2, execStepsB_noneOrder_flag hpo, execStepsB_fst, ← runTasks_eq_noneOrder,
      runTasks_perm hd hp, hp.any_eq]
    exact ⟨rfl, rfl⟩

/-- **`none()` = any pool.** For every pool and every step order it may produce, samples and
Ok/Err-ness are those of the in-place loop; and the in-place loop is itself one of the
interleavings a multi-threaded pool may produce. -/
theorem C07_none_pool_eq_any_pool (ts : List (Task V)) (hd : ts.Pairwise Task.Indep)
    (p : Pool) (steps : List (Step V)) (ha : Admissible p ts steps) (st : St V) :
    (execSteps steps st).store = (execSteps (noneOrder ts) st).store ∧
    (execSteps steps st).slot.isSome = (execSteps (noneOrder ts) st).slot.isSome ∧
    (∀ n, Admissible (.rayon n) ts (noneOrder ts)) := by
  have hnone : Interleaving (ts.map Task.steps) (noneOrder ts) := interleaving_flatten _
  refine ⟨?_, ?_, fun _ => hnone⟩
  · cases p with
    | none => rw [show steps = noneOrder ts from ha]
    | rayon n =>
      rw [((C07_error_presence_schedule_independent ts hd st).1 steps ha).2,
        ((C07_error_presence_schedule_independent ts hd st).1 _ hnone).2]
  · cases p with
    | none => rw [show steps = noneOrder ts from ha]
    | rayon n =>
      rw [((C07_error_presence_schedule_independent ts hd st).1 steps ha).1,
        ((C07_error_presence_schedule_independent ts hd st).1 _ hnone).1]

/-- **Stage after stage.** A render is a sequence of fork-join stages. If the job list of stage
`i` is `jobs i` (geometry, not store or pool), its jobs are pairwise independent and both runs
use admissible schedules (of possibly different pools, per stage), the final samples agree. -/
theorem C07_pipeline_pool_independent (jobs : Nat → List (Task V))
    (hd : ∀ i, (jobs i).Pairwise Task.Indep) (p q : Nat → Pool)
    (sched sched' : Nat → List (Step V))
    (h : ∀ i, Admissible (p i) (jobs i) (sched i)) (h' : ∀ i, Admissible (q i) (jobs i) (sched' i))
    (k n : Nat) (s : Store V) :
    runPipeline sched k n s = runPipeline sched' k n s := by
  have key : ∀ (pl : Pool) (i : Nat) (steps : List (Step V)), Admissible pl (jobs i) steps →
      ∀ s, runSteps steps s = runSteps (noneOrder (jobs i)) s := by
    intro pl i steps ha s
    cases pl with
    | none => rw [show steps = noneOrder (jobs i) from ha]
    | rayon m => exact runSteps_interleaving (hd i) ha s
  induction n generalizing k s with
  | zero => rfl
  | succ n ih =>
    simp only [runPipeline]
    rw [key _ k _ (h k), key _ k _ (h' k)]
    exact ih _ _

end

/-! ### non-vacuity: three jobs with real footprints

A 3×6 grid at offset 1 with stride 4 (25 cells of address space), cut into 2-row bands by
`into_groups(3, 2)`; each job rewrites its rows in place, one atomic step per row, every new
sample depending on the sample and its right neighbour in the row. -/

def exGrid : SubGrid := ⟨1, 3, 6, 4, none⟩
def exBands : List SubGrid := [⟨1, 3, 2, 4, some 1⟩, ⟨9, 3, 2, 4, some 1⟩, ⟨17, 3, 2, 4, some 1⟩]
def exRow : Store Int → Cell → Int := fun s c => 2 * s c + s (c + 1)
def exJobs : List (Task Int) := exBands.map (inPlaceRowTask exRow)
def exStore : Store Int := fun c => (c : Int) * c - 7
def dump (s : Store Int) : List Int := (List.range 25).map s

example : intoGroups .checked exGrid 3 2 = .ok exBands := by decide
example : exJobs.Pairwise Task.Indep := by decide
example : (exJobs.map fun t => (t.reads, t.writes)) =
    [([1, 2, 3, 5, 6, 7], [1, 2, 3, 5, 6, 7]), ([9, 10, 11, 13, 14, 15], [9, 10, 11, 13, 14, 15]),
     ([17, 18, 19, 21, 22, 23], [17, 18, 19, 21, 22, 23])] := by decide
/-- all 6 job orders and all 90 row-level interleavings give the same 25 samples, and they are
not the initial ones -/
example : (perms exJobs).length = 6 ∧
    ((perms exJobs).all fun o => dump (runTasks o exStore) == dump (runTasks exJobs exStore)) = true ∧
    (interleavings 6 (exJobs.map Task.steps)).length = 90 ∧
    ((interleavings 6 (exJobs.map Task.steps)).all fun o =>
      dump (runSteps o exStore) == dump (runTasks exJobs exStore)) = true ∧
    dump (runTasks exJobs exStore) ≠ dump exStore := by decide

/-- The premise matters: a job that reads a cell another job writes (bands that overlap by one
row under a filter that looks at the row above, say) — the jobs are not independent and the two
orders give different samples. -/
theorem C07_dependent_jobs_not_confluent_witness :
    let t1 : Task Int := .atomic { reads := [9], writes := [9], f := fun s _ => 2 * s 9 + 1 }
    let t2 : Task Int := .atomic { reads := [9, 13], writes := [13], f := fun s _ => s 13 + s 9 }
    ¬ [t1, t2].Pairwise Task.Indep ∧
    dump (runTasks [t1, t2] exStore) ≠ dump (runTasks [t2, t1] exStore) := by decide

/-- The stored error value is last-writer-wins: two failing independent jobs, two orders, two
different values — while Ok/Err-ness agrees. -/
theorem C07_error_value_depends_on_schedule_witness :
    let t1 : Task Int := .atomic { reads := [0], writes := [0], f := fun s _ => s 0, fail := fun _ => some 1 }
    let t2 : Task Int := .atomic { reads := [1], writes := [1], f := fun s _ => s 1, fail := fun _ => some 2 }
    [t1, t2].Pairwise Task.Indep ∧
    (execSteps (noneOrder [t1, t2]) ⟨exStore, none⟩).slot = some 2 ∧
    (execSteps (noneOrder [t2, t1]) ⟨exStore, none⟩).slot = some 1 := by decide

/-- Why "nobody ever writes `Ok` into the slot" matters (the discipline `run_with_threads` of
jxl-color violated before its repair, replayed on the real code by corpus/c07/00_*): if every job
stores its own result, one failing and one succeeding independent job give `Ok` in one order and
`Err` in the other — success/failure depends on the schedule. -/
theorem C07_overwriting_slot_schedule_dependent_witness :
    let t1 : Task Int := .atomic { reads := [0], writes := [0], f := fun s _ => s 0, fail := fun _ => some 1 }
    let t2 : Task Int := .atomic { reads := [1], writes := [1], f := fun s _ => s 1 }
    [t1, t2].Pairwise Task.Indep ∧
    (execStepsOverwriting (noneOrder [t1, t2]) ⟨exStore, none⟩).slot = none ∧
    (execStepsOverwriting (noneOrder [t2, t1]) ⟨exStore, none⟩).slot = some 1 ∧
    (execSteps (noneOrder [t1, t2]) ⟨exStore, none⟩).slot = some 1 ∧
    (execSteps (noneOrder [t2, t1]) ⟨exStore, none⟩).slot = some 1 := by decide

/-! ### partitions -/

/-- **The job list is a function of geometry only.** None of the partition functions of the
parallel stages looks at the pool, and the 16-row bands of the RCT stage are, explicitly,
rows `16k .. min(16k+16, h)` of the grid for `k < ⌈h/16⌉` (in popped, i.e. reversed, order). -/
theorem C07_partition_independent_of_pool (p q : Pool) (g : SubGrid) (groupDim fuel height len : Nat) :
    rctBands p g = rctBands q g ∧ squeezeHBands p g = squeezeHBands q g ∧
    squeezeVStrips p g = squeezeVStrips q g ∧ groupGrid p g groupDim = groupGrid q g groupDim ∧
    epfBands p fuel g = epfBands q fuel g ∧ gaborChunks p height = gaborChunks q height ∧
    colourChunks p len = colourChunks q len ∧
    (∀ gs, g.w ≠ 0 → g.h ≠ 0 → rctBands p g = .ok gs →
      gs = ((List.range (ceilDiv g.h 16)).map (band16 g g.off)).reverse) := by
  refine ⟨rfl, rfl, rfl, rfl, ?_, rfl, rfl, fun gs hw hh h => rctBands_ok h hw hh⟩
  induction fuel generalizing g with
  | zero => rfl
  | succ n ih => simp only [epfBands, ih]

example : rctBands (.rayon 8) ⟨0, 5, 40, 5, none⟩ =
    .ok [⟨160, 5, 8, 5, some 0⟩, ⟨80, 5, 16, 5, some 0⟩, ⟨0, 5, 16, 5, some 0⟩] := by decide
example : squeezeHBands .none ⟨0, 5, 40, 5, none⟩ =
    .ok [⟨0, 5, 16, 5, some 0⟩, ⟨80, 5, 16, 5, some 0⟩, ⟨160, 5, 8, 5, some 0⟩] := by decide
example : squeezeVStrips .none ⟨0, 40, 3, 40, none⟩ =
    .ok [⟨0, 16, 3, 40, some 0⟩, ⟨16, 16, 3, 40, some 0⟩, ⟨32, 8, 3, 40, some 0⟩] := by decide
example : epfBands (.rayon 3) 5 ⟨0, 4, 19, 4, none⟩ =
    .ok [⟨0, 4, 8, 4, some 0⟩, ⟨32, 4, 8, 4, some 0⟩, ⟨64, 4, 3, 4, some 0⟩] := by decide
example : gaborChunks .none 20 = [(1, 8), (9, 8), (17, 2)] ∧
    colourChunks .none 262144 = [(0, 65536), (65536, 65536), (131072, 65536), (196608, 65536)] ∧
    colourChunks .none 65537 = [(0, 65536), (65536, 1)] := by decide

section
variable {V : Type}

/-- **Partition ⇒ disjointness premise.** Jobs built on the groups of `into_groups` — each
writing only cells of its own group and reading only cells of its own group or of a read-only
area `ro` outside the grid (the input buffer of Gabor/EPF, the noise groups, the LF image) — are
pairwise independent. (C02: groups are pairwise disjoint and lie inside the parent.) -/
theorem C07_partition_tasks_disjoint (L : Nat) (g : SubGrid) (hv : Valid L g) (gw gh : Nat)
    (gs : List SubGrid) (h : intoGroups .checked g gw gh = .ok gs)
    (ro : List Cell) (hro : ∀ c ∈ ro, c ∉ cells g) (mk : SubGrid → Task V)
    (hw : ∀ sg ∈ gs, ∀ c ∈ (mk sg).writes, c ∈ cells sg)
    (hr : ∀ sg ∈ gs, ∀ c ∈ (mk sg).reads, c ∈ cells sg ∨ c ∈ ro) :
    (gs.map mk).Pairwise Task.Indep := by
  have hdis : gs.Pairwise Disjoint :=
    C02_groups_pairwise_disjoint L g hv .checked gw gh (ceilDiv g.w gw) (ceilDiv g.h gh) gs
      (Or.inl rfl) (Or.inr ⟨h, rfl, rfl⟩)
  have hin := (C02_groups_within_parent L g hv .checked gw gh 0 0 gs (Or.inr h)).1
  exact indep_of_regions cells ro mk gs hdis
    (fun sg hsg c hc hcro => hro c hcro ((hin sg hsg).2 c hc)) hw hr

/-- three channels at once (`RctJob { grids: [a, b, c] }`): job `k` owns band `k` of each of three
pairwise disjoint valid grids cut the same way -/
theorem C07_rct_jobs_disjoint (L : Nat) (a b c : SubGrid) (ha : Valid L a) (hb : Valid L b)
    (hc : Valid L c) (hab : Disjoint a b) (hac : Disjoint a c) (hbc : Disjoint b c)
    (gw gh : Nat) (as bs cs : List SubGrid)
    (h1 : intoGroups .checked a gw gh = .ok as) (h2 : intoGroups .checked b gw gh = .ok bs)
    (h3 : intoGroups .checked c gw gh = .ok cs)
    (mk : SubGrid × SubGrid × SubGrid → Task V)
    (hfoot : ∀ j ∈ as.zip (bs.zip cs), ∀ x, (x ∈ (mk j).writes ∨ x ∈ (mk j).reads) →
      x ∈ cells j.1 ∨ x ∈ cells j.2.1 ∨ x ∈ cells j.2.2) :
    ((as.zip (bs.zip cs)).map mk).Pairwise Task.Indep := by
  have da := C02_groups_pairwise_disjoint L a ha .checked gw gh _ _ as (Or.inl rfl) (Or.inr ⟨h1, rfl, rfl⟩)
  have db := C02_groups_pairwise_disjoint L b hb .checked gw gh _ _ bs (Or.inl rfl) (Or.inr ⟨h2, rfl, rfl⟩)
  have dc := C02_groups_pairwise_disjoint L c hc .checked gw gh _ _ cs (Or.inl rfl) (Or.inr ⟨h3, rfl, rfl⟩)
  have ia := (C02_groups_within_parent L a ha .checked gw gh 0 0 as (Or.inr h1)).1
  have ib := (C02_groups_within_parent L b hb .checked gw gh 0 0 bs (Or.inr h2)).1
  have ic := (C02_groups_within_parent L c hc .checked gw gh 0 0 cs (Or.inr h3)).1
  -- pairwise disjointness of the zipped triples
  have hz : (as.zip (bs.zip cs)).Pairwise fun i j =>
      Disjoint i.1 j.1 ∧ Disjoint i.2.1 j.2.1 ∧ Disjoint i.2.2 j.2.2 := by
    clear hfoot ia ib ic h1 h2 h3
    induction as generalizing bs cs with
    | nil => simp
    | cons x as ih =>
      cases bs with
      | nil => simp
      | cons y bs =>
        cases cs with
        | nil => simp
        | cons z cs =>
          simp only [List.zip_cons_cons, List.pairwise_cons] at da db dc ⊢
          refine ⟨?_, ih bs cs da.2 db.2 dc.2⟩
          intro j hj
          have hj1 := (List.of_mem_zip hj).1
          have hj2 := (List.of_mem_zip (List.of_mem_zip hj).2)
          exact ⟨da.1 _ hj1, db.1 _ hj2.1, dc.1 _ hj2.2⟩
  refine indep_of_regions (fun j : SubGrid × SubGrid × SubGrid => cells j.1 ++ cells j.2.1 ++ cells j.2.2)
    [] mk _ ?_ (by simp) ?_ ?_
  · refine List.Pairwise.imp_of_mem ?_ hz
    intro i j hi hj ⟨d1, d2, d3⟩ x hx hy
    have mi1 := (List.of_mem_zip hi).1
    have mi2 := (List.of_mem_zip (List.of_mem_zip hi).2)
    have mj1 := (List.of_mem_zip hj).1
    have mj2 := (List.of_mem_zip (List.of_mem_zip hj).2)
    simp only [List.mem_append] at hx hy
    rcases hx with (hx | hx) | hx <;> rcases hy with (hy | hy) | hy
    · exact d1 x hx hy
    · exact hab x ((ia _ mi1).2 x hx) ((ib _ mj2.1).2 x hy)
    · exact hac x ((ia _ mi1).2 x hx) ((ic _ mj2.2).2 x hy)
    · exact hab x ((ia _ mj1).2 x hy) ((ib _ mi2.1).2 x hx)
    · exact d2 x hx hy
    · exact hbc x ((ib _ mi2.1).2 x hx) ((ic _ mj2.2).2 x hy)
    · exact hac x ((ia _ mj1).2 x hy) ((ic _ mi2.2).2 x hx)
    · exact hbc x ((ib _ mj2.1).2 x hy) ((ic _ mi2.2).2 x hx)
    · exact d3 x hx hy
  · intro j hj x hx
    have := hfoot j hj x (Or.inl hx)
    simp only [List.mem_append]
    rcases this with h | h | h
    · exact Or.inl (Or.inl h)
    · exact Or.inl (Or.inr h)
    · exact Or.inr h
  · intro j hj x hx
    have := hfoot j hj x (Or.inr hx)
    simp only [List.mem_append]
    rcases this with h | h | h
    · exact Or.inl (Or.inl (Or.inl h))
    · exact Or.inl (Or.inl (Or.inr h))
    · exact Or.inl (Or.inr h)

variable [Inhabited V]

/-- **Bands end to end.** In-place row jobs on the 16-row bands of a valid grid (the RCT and
horizontal-squeeze stages): whatever pool, whatever admissible schedule, the samples are those
of `JxlThreadPool::none()`. -/
theorem C07_band_jobs_confluent (L : Nat) (g : SubGrid) (hv : Valid L g) (hw : g.w ≠ 0)
    (gs : List SubGrid) (h : intoGroups .checked g g.w 16 = .ok gs)
    (rowf : Store V → Cell → V) (p : Pool) (steps : List (Step V))
    (ha : Admissible p (gs.map (inPlaceRowTask rowf)) steps) (s : Store V) :
    runSteps steps s = runSteps (noneOrder (gs.map (inPlaceRowTask rowf))) s ∧
    gs = (List.range (ceilDiv g.h 16)).map (band16 g (splitBase g)) := by
  have hd := C07_partition_tasks_disjoint (V := V) L g hv g.w 16 gs h [] (by simp)
    (inPlaceRowTask rowf)
    (fun sg _ c hc => (inPlaceRowTask_footprint rowf sg c).2 hc)
    (fun sg _ c hc => Or.inl ((inPlaceRowTask_footprint rowf sg c).1 hc))
  constructor
  · cases p with
    | none => rw [show steps = noneOrder _ from ha]
    | rayon n => exact runSteps_interleaving hd ha s
  · obtain ⟨_, _, hgl⟩ := intoGroups_ok h
    rw [hgl, ceilDiv_self hw, groupsList_fullWidth]
    simp [band16]

end

example : Valid 25 exGrid := by decide

/-! ### per-thread scratch (`for_each_vec_with`) -/

/-- If every job overwrites what it reads from the scratch, the samples do not depend on the
scratch a thread starts with — `init`, a clone of it, or another job's leftovers. -/
theorem C07_scratch_oblivious_jobs_schedule_independent {U V : Type} (jobs : List (ScratchJob U V))
    (ho : ∀ j ∈ jobs, j.Oblivious) (u u' : U) (s : Store V) :
    (runWithScratch jobs u s).2 = (runWithScratch jobs u' s).2 := by
  induction jobs generalizing u u' s with
  | nil => rfl
  | cons j jobs ih =>
    simp only [runWithScratch, List.foldl_cons]
    have h1 := ho j (by simp) u u' s
    have := ih (fun k hk => ho k (by simp [hk])) (j.run u s).1 (j.run u' s).1 (j.run u s).2
    simp only [runWithScratch] at this
    rw [show j.run u s = ((j.run u s).1, (j.run u s).2) from rfl,
      show j.run u' s = ((j.run u' s).1, (j.run u' s).2) from rfl, ← h1]
    exact this

/-- The EPF `sigma_row` pattern (`if let Some(grid) = sigma_grid_map[idx] { *sigma = .. }`, no
`else`): a job that leaves a scratch entry untouched and then uses it. Job 0 has a sigma grid
(writes 5), job 1 has none: run on the same thread after job 0 it uses 5, run first on a fresh
clone it uses the initial 1 — the samples differ. (All entries are `None` for Modular frames and
all `Some` for completely loaded VarDCT frames, so this needs a partially loaded VarDCT frame.) -/
theorem C07_scratch_dependence_witness :
    let j0 : ScratchJob Int Int := ⟨fun _ s => (5, fun c => if c = 0 then 5 else s c)⟩
    let j1 : ScratchJob Int Int := ⟨fun u s => (u, fun c => if c = 1 then u else s c)⟩
    ¬ j1.Oblivious ∧
    (runWithScratch [j0, j1] 1 exStore).2 1 = 5 ∧
    (runWithScratch [j0] 1 (runWithScratch [j1] 1 exStore).2).2 1 = 1 := by
  refine ⟨fun h => ?_, by decide, by decide⟩
  have := congrFun (h 0 1 exStore) 1
  simp at this

/-! ### repetition, lazy tables, caches, seeds -/

/-- all calls of `render_by_index` on one handle, each with whatever render / composite closures
(pool, schedule) it brings -/
def Handle.renderMany {Img : Type} (h : Handle Img) :
    List ((Unit → Img) × (Img → Img)) → Handle Img × List (Option Img)
  | [] => (h, [])
  | (r, c) :: calls =>
    let (h1, v) := h.renderKeyframe r c
    let (h2, vs) := Handle.renderMany h1 calls
    (h2, v :: vs)

/-- **Rendering twice = rendering once.** After the first successful render of a keyframe the
handle is `Blended(v)`; every later call — with any closures — returns that same `v` and leaves
the handle as it is: the closures are not even invoked. -/
theorem C07_rerender_idempotent {Img : Type} (h : Handle Img) (r : Unit → Img) (c : Img → Img)
    (calls : List ((Unit → Img) × (Img → Img))) :
    let first := h.renderKeyframe r c
    first.2.isSome ∧ first.1 = .blended (first.2.getD (r ())) ∧
    (first.1.renderMany calls).1 = first.1 ∧ ∀ v ∈ (first.1.renderMany calls).2, v = first.2 := by
  have key : ∀ (i : Img) (calls : List ((Unit → Img) × (Img → Img))),
      ((Handle.blended i).renderMany calls).1 = .blended i ∧
      ∀ v ∈ ((Handle.blended i).renderMany calls).2, v = some i := by
    intro i calls
    induction calls with
    | nil => simp [Handle.renderMany]
    | cons rc calls ih =>
      obtain ⟨r', c'⟩ := rc
      simp only [Handle.renderMany, Handle.renderKeyframe, Handle.runWithImage, Handle.blend]
      exact ⟨ih.1, fun v hv => by
        rcases List.mem_cons.1 hv with rfl | hv
        · rfl
        · exact ih.2 v hv⟩
  cases h with
  | none => exact ⟨rfl, rfl, key _ calls⟩
  | done g => exact ⟨rfl, rfl, key _ calls⟩
  | blended i => exact ⟨rfl, rfl, key _ calls⟩

example : (Handle.none.renderKeyframe (fun _ => 3) (· + 10) : Handle Nat × Option Nat) =
      (.blended 13, some 13) ∧
    ((Handle.blended 13).renderMany [(fun _ => 99, (· + 1)), (fun _ => 7, id)] :
      Handle Nat × List (Option Nat)) = (.blended 13, [some 13, some 13]) := by decide

/-- **Lazy tables.** `call_once` / `or_insert_with` with a pure initialiser: every caller, in
any order, gets `init ()`; initialising an initialised slot changes nothing. -/
theorem C07_lazy_init_idempotent {T : Type} (init : Unit → T) (slot : Option T)
    (hs : slot = none ∨ slot = some (init ())) (n : Nat) :
    (∀ t ∈ (lazyGets slot init n).2, t = init ()) ∧
    (lazyGet (lazyGet slot init).1 init = ((lazyGet slot init).1, (lazyGet slot init).2)) ∧
    (lazyGet slot init).1 = some (init ()) := by
  have h1 : (lazyGet slot init) = (some (init ()), init ()) := by
    rcases hs with rfl | rfl <;> rfl
  refine ⟨?_, by rw [h1]; rfl, by rw [h1]⟩
  induction n generalizing slot with
  | zero => simp [lazyGets]
  | succ n ih =>
    have h1 : (lazyGet slot init) = (some (init ()), init ()) := by
      rcases hs with rfl | rfl <;> rfl
    simp only [lazyGets, h1]
    intro t ht
    rcases List.mem_cons.1 ht with rfl | ht
    · rfl
    · exact ih _ (Or.inr rfl) (by rcases hs with rfl | rfl <;> rfl) t ht

/-- **Monotone cache** (`AllGroupOffsets`). In every trace of lookups and stores by any number of
threads in which every store writes the one value `v` all threads compute, starting from
"unknown" (or from `v`): every lookup ends up using `v`; the atomic only ever holds `0` or `v`;
once it holds `v` it keeps it. -/
theorem C07_monotone_cache_deterministic (v : Nat) (evs : List CacheEv)
    (hst : ∀ x, CacheEv.store x ∈ evs → x = v) (c0 : Nat) (hc0 : c0 = 0 ∨ c0 = v) :
    (∀ o ∈ (runCache v c0 evs).2, o = v) ∧
    ((runCache v c0 evs).1 = 0 ∨ (runCache v c0 evs).1 = v) ∧
    (c0 = v → (runCache v c0 evs).1 = v) ∧
    ((∃ x, CacheEv.store x ∈ evs) → (runCache v c0 evs).1 = v) := by
  induction evs generalizing c0 with
  | nil => exact ⟨by simp [runCache], by simpa [runCache] using hc0, fun h => by simpa [runCache] using h,
      fun ⟨x, hx⟩ => by simp at hx⟩
  | cons e evs ih =>
    cases e with
    | lookup =>
      obtain ⟨i1, i2, i3, i4⟩ := ih (fun x hx => hst x (by simp [hx])) c0 hc0
      simp only [runCache]
      refine ⟨fun o ho => ?_, i2, i3, fun ⟨x, hx⟩ => i4 ⟨x, by simpa using hx⟩⟩
      rcases List.mem_cons.1 ho with rfl | ho
      · rcases hc0 with rfl | rfl
        · simp
        · split <;> simp_all
      · exact i1 o ho
    | store x =>
      have hx : x = v := hst x (by simp)
      subst hx
      obtain ⟨i1, i2, i3, _⟩ := ih (fun y hy => hst y (by simp [hy])) x (Or.inr rfl)
      simp only [runCache]
      exact ⟨i1, i2, fun _ => i3 rfl, fun _ => i3 rfl⟩

/-- two threads both miss, both store, a third hits: all use 1234 -/
example : runCache 1234 0 [.lookup, .lookup, .store 1234, .store 1234, .lookup] =
    (1234, [1234, 1234, 1234]) := by decide

/-- **Noise seeds** are a function of the frame counters and the group's corner only — the thread
that ends up convolving the group is not an input; distinct group corners (below 2³²) get
distinct seeds. A seed taken from a per-thread job counter would not have this property. -/
theorem C07_noise_seed_independent_of_thread (visible invisible width groupDim groupIdx : Nat) :
    (∀ tid tid', noiseSeed visible invisible width groupDim groupIdx tid =
      noiseSeed visible invisible width groupDim groupIdx tid') ∧
    (∀ x0 y0 x0' y0', x0 < 2 ^ 32 → y0 < 2 ^ 32 → x0' < 2 ^ 32 → y0' < 2 ^ 32 →
      rngSeed1 x0 y0 = rngSeed1 x0' y0' → x0 = x0' ∧ y0 = y0') ∧
    noiseSeedFromThreadCounter visible invisible 0 1 ≠ noiseSeedFromThreadCounter visible invisible 1 0 := by
  refine ⟨fun _ _ => rfl, ?_, ?_⟩
  · intro x0 y0 x0' y0' h1 h2 h3 h4 h
    simp only [rngSeed1, U64] at h
    omega
  · simp only [noiseSeedFromThreadCounter, rngSeed1, U64, ne_eq, Prod.mk.injEq, not_and]
    intro _
    decide

example : noiseSeed 1 0 300 128 4 7 = (4294967296, 549755813888 + 128) := by decide

end Jxl.Tasks
