import JxlModel.Proofs.Blend
import JxlModel.Proofs.BlendPatches
import Mathlib.Tactic.NormNum
import Mathlib.Algebra.Order.Field.Rat
/-!
# C05 — frames are composed onto the canvas exactly as the blend rules define

Model: `Model/Blend.lean`. Three groups of theorems.

* **Kernel laws** over any linearly ordered field `K` (exact arithmetic; `fieldScalar` is the
  `Scalar` instance): the per-sample kernels of `blend_single` compute the formulas of the format,
  written out in each statement. The same kernel text runs at `Float32` in the driver, so the
  formula and the executed arithmetic are one definition.
* **Bookkeeping and laziness**, generic in the type `V` of a composed canvas (so they hold for
  pixel canvases, for "set of frame indices composed", and for anything else): the index
  bookkeeping of `preserve_current_frame` denotes the Spec slots after every prefix of frames;
  the lazy, caching, buffer-stealing renderer returns, for every request sequence, the canvases
  of the sequential compositor; keyframes are exactly the normal frames with `is_last` or a
  non-zero duration.
* **Pixel meaning** of the Spec compositor: the sample of the composed canvas at an image position
  is the kernel applied at the frame's signed offset inside the frame rectangle and the source
  slot's sample outside.

Region soundness of the implementation's rectangle arithmetic (`target_region`, `base_topleft`,
`new_topleft`, clipped intersection) is `C05_blend_region_sound` in `Props/C05Region.lean`
(separate contributor; not imported here).

Not proved (runtime part, covered by the correspondence run of `tools/props/c05.py`): that the
Rust code is this model; IEEE rounding (the kernel laws are over exact fields — at `Float32` the
run compares bit patterns); VarDCT layers; the colour transform before saving (an opaque hook).
Format reading: `resets_canvas` and the coding of `source` follow `jxl-frame/src/header.rs`
(decided by the colour channels' mode for every channel).
-/
namespace Jxl.Blend
open Spec Impl

section Kernels
set_option linter.unusedSectionVars false
variable {K : Type} [Field K] [LinearOrder K] [IsStrictOrderedRing K]
attribute [local instance] fieldScalar

/-- Replace: the new sample. -/
theorem C05_replace (base new baseAlpha newAlpha : K) :
    Kernel.replace.apply base new baseAlpha newAlpha = new :=
  apply_replace base new baseAlpha newAlpha

/-- Add: `base + new` (no clamping: out-of-range sums are kept). -/
theorem C05_add (base new baseAlpha newAlpha : K) :
    Kernel.add.apply base new baseAlpha newAlpha = base + new :=
  apply_add base new baseAlpha newAlpha

/-- Mul: `base * new`, the new sample clamped to `[0,1]` first iff `clamp`. -/
theorem C05_mul_clamp (clamp : Bool) (base new baseAlpha newAlpha : K) :
    (Kernel.mul clamp).apply base new baseAlpha newAlpha =
      base * (if clamp then max 0 (min new 1) else new) :=
  apply_mul clamp base new baseAlpha newAlpha

/-- Blend, premultiplied alpha: `new + base * (1 - a)`, `a` the new alpha (clamped iff `clamp`). -/
theorem C05_blend_premultiplied (clamp : Bool) (base new baseAlpha newAlpha : K) :
    (Kernel.blend clamp false true).apply base new baseAlpha newAlpha =
      new + base * (1 - (if clamp then max 0 (min newAlpha 1) else newAlpha)) :=
  apply_blend_premul clamp base new baseAlpha newAlpha

/-- Blend, straight alpha: with `a` the new alpha (clamped iff `clamp`) and
`mixed = 1 - (1 - a) * (1 - baseAlpha)` the resulting alpha, the colour is
`(a * new + baseAlpha * base * (1 - a)) / mixed`, and `0` when `mixed ≤ 0`. -/
theorem C05_blend_straight (clamp : Bool) (base new baseAlpha newAlpha : K) :
    (Kernel.blend clamp false false).apply base new baseAlpha newAlpha =
      (let a := if clamp then max 0 (min newAlpha 1) else newAlpha
       let mixed := 1 - (1 - a) * (1 - baseAlpha)
       if 0 < mixed then (a * new + baseAlpha * base * (1 - a)) / mixed else 0) :=
  apply_blend_straight clamp base new baseAlpha newAlpha

/-- the `mixed alpha = 0` case: both alphas zero (fully transparent on fully transparent) gives 0,
not a division by zero -/
theorem C05_blend_straight_mixed_alpha_zero (clamp : Bool) (base new : K) :
    (Kernel.blend clamp false false).apply base new 0 0 = 0 := by
  rw [apply_blend_straight]
  have : usedAlpha clamp (0 : K) = 0 := by
    unfold usedAlpha
    split
    · rw [min_eq_left zero_le_one, max_self]
    · rfl
  simp only [this]
  norm_num

/-- MulAdd: `base + a * new`, `a` the new alpha (clamped iff `clamp`). -/
theorem C05_muladd (clamp : Bool) (base new baseAlpha newAlpha : K) :
    (Kernel.mulAdd clamp false).apply base new baseAlpha newAlpha =
      base + (if clamp then max 0 (min newAlpha 1) else newAlpha) * new :=
  apply_mulAdd clamp base new baseAlpha newAlpha

/-- The alpha channel itself (the channel a blending info names as its alpha): under `Blend` it
becomes `1 - (1 - a) * (1 - base)` (`a` the new alpha, clamped iff `clamp`), whatever the
premultiplied flag; under `MulAdd` it is left as it was. -/
theorem C05_alpha_channel_rule (hasExtra clamp : Bool) (alpha cc source : Nat) (premul : Option Bool)
    (base new baseAlpha newAlpha : K) :
    (kernelFor hasExtra { mode := .blend, alpha, clamp, source } (alpha + cc) cc premul).apply
        base new baseAlpha newAlpha
      = 1 - (1 - (if clamp then max 0 (min new 1) else new)) * (1 - base) ∧
    (kernelFor hasExtra { mode := .mulAdd, alpha, clamp, source } (alpha + cc) cc premul).apply
        base new baseAlpha newAlpha = base := by
  constructor
  · have : kernelFor hasExtra { mode := .blend, alpha, clamp, source } (alpha + cc) cc premul
        = .mixAlpha clamp false := by simp [kernelFor]
    rw [this]
    exact apply_mixAlpha clamp base new baseAlpha newAlpha
  · have : kernelFor hasExtra { mode := .mulAdd, alpha, clamp, source } (alpha + cc) cc premul = .skip := by
      simp [kernelFor]
    rw [this]
    rfl

/-- sanity: blending with alpha 1 is Replace (both alpha kinds; straight needs nothing of the base) -/
theorem C05_blend_alpha_one_is_replace (clamp premul : Bool) (base new baseAlpha : K) :
    (Kernel.blend clamp false premul).apply base new baseAlpha 1 = new := by
  have h1 : usedAlpha clamp (1 : K) = 1 := by
    unfold usedAlpha
    split
    · rw [min_self, max_eq_right zero_le_one]
    · rfl
  cases premul
  · rw [apply_blend_straight]
    simp only [h1]
    norm_num
  · rw [apply_blend_premul, h1]
    ring

/-- sanity: blending with alpha 0 keeps the base — premultiplied when the (premultiplied) new
sample is 0 as it must be, straight when the base is not fully transparent -/
theorem C05_blend_alpha_zero_keeps (clamp : Bool) (base new baseAlpha : K) :
    (Kernel.blend clamp false true).apply base 0 baseAlpha 0 = base ∧
    (0 < baseAlpha → (Kernel.blend clamp false false).apply base new baseAlpha 0 = base) := by
  have h0 : usedAlpha clamp (0 : K) = 0 := by
    unfold usedAlpha
    split
    · rw [min_eq_left zero_le_one, max_self]
    · rfl
  constructor
  · rw [apply_blend_premul, h0]
    ring
  · intro hb
    rw [apply_blend_straight]
    simp only [h0]
    have : (1 : K) - (1 - 0) * (1 - baseAlpha) = baseAlpha := by ring
    rw [this, if_pos hb]
    field_simp
    ring

/-- sanity: the blended alpha of two alphas in `[0,1]` stays in `[0,1]` -/
theorem C05_mixed_alpha_in_range (clamp : Bool) (base new : K) (hb : 0 ≤ base ∧ base ≤ 1)
    (hn : 0 ≤ new ∧ new ≤ 1) :
    0 ≤ (Kernel.mixAlpha clamp false).apply base new 0 0 ∧ (Kernel.mixAlpha clamp false).apply base new 0 0 ≤ 1 := by
  rw [apply_mixAlpha]
  have hu : usedAlpha clamp new = new := by
    unfold usedAlpha
    split
    · rw [min_eq_left hn.2, max_eq_right hn.1]
    · rfl
  rw [hu]
  have h1 : 0 ≤ (1 - new) * (1 - base) := mul_nonneg (by linarith [hn.2]) (by linarith [hb.2])
  have h2 : (1 - new) * (1 - base) ≤ 1 := by
    have : (1 - new) * (1 - base) ≤ 1 * 1 :=
      mul_le_mul (by linarith [hn.1]) (by linarith [hb.1]) (by linarith [hb.2]) (by norm_num)
    linarith
  constructor <;> linarith

/-- Patches use the same arithmetic: the "below" modes are the "above" kernels with the roles of
patch and canvas exchanged, and the plain modes are the frame kernels. -/
theorem C05_patch_same_arithmetic (clamp premul : Bool) (base new baseAlpha newAlpha : K) :
    (Kernel.blend clamp true premul).apply base new baseAlpha newAlpha =
      (Kernel.blend clamp false premul).apply new base newAlpha baseAlpha ∧
    (Kernel.mulAdd clamp true).apply base new baseAlpha newAlpha =
      (Kernel.mulAdd clamp false).apply new base newAlpha baseAlpha ∧
    (Kernel.mixAlpha clamp true).apply base new baseAlpha newAlpha =
      (Kernel.mixAlpha clamp false).apply new base newAlpha baseAlpha := by
  refine ⟨?_, ?_, ?_⟩ <;> simp [Kernel.apply]

example : (Kernel.blend true false false).apply (1/2 : ℚ) (1/4) (1/2) 2 = 1/4 := by
  rw [C05_blend_straight]; norm_num

example : (Kernel.blend false false false).apply (1 : ℚ) (1/5) (1/2) (1/2) = 7/15 := by
  rw [C05_blend_straight]; norm_num

example : (Kernel.mul true).apply (3 : ℚ) (-2) 0 0 = 0 ∧ (Kernel.mul false).apply (3 : ℚ) (-2) 0 0 = -6 := by
  rw [C05_mul_clamp, C05_mul_clamp]; norm_num

end Kernels

/-- With no extra channels there is no alpha: `Blend` is `Replace` and `MulAdd` is `Add`
(the `new: None` arms of `blend_single`). -/
theorem C05_no_extra_channels_degenerate (info : BlendInfo) (c cc : Nat) (premul : Option Bool) (hc : c < cc) :
    (info.mode = .blend → kernelFor false info c cc premul = .replace) ∧
    (info.mode = .mulAdd → kernelFor false info c cc premul = .add) := by
  have hne : (c == info.alpha + cc) = false := by
    rw [beq_eq_false_iff_ne]
    omega
  constructor <;> intro h <;> simp [kernelFor, h, hne]

section Generic
variable {V : Type}

/-- Slot contents after any prefix of frames: the index the renderer keeps in `reference[s]`
denotes exactly the canvas the Spec compositor holds in slot `s` (`n` may exceed the number of
frames: then both sides are the final state). -/
theorem C05_refs_bookkeeping_eq_spec (C : Cfg V) (n s : Nat) :
    (stateAfter C n).slots s = ((ctxAfter C n).reference s).map (valOf C) :=
  (rel_after' C n).slots s

/-- …and which frame that is: the most recent one before `n` that can be referenced and names
`s`; in particular every reference a handle captured is an earlier frame. -/
theorem C05_refs_slot_holds_last_saved (C : Cfg V) (n s : Nat) (hn : n ≤ C.hdrs.length) :
    (ctxAfter C n).reference s = slotFrame C n s ∧ ∀ j, refOf C n s = some j → j < n :=
  ⟨reference_eq_slotFrame C s n hn, fun j h => refOf_lt C n s j h⟩

/-- Keyframes are exactly the normal frames (regular or skip-progressive) with `is_last` or a
non-zero duration, in bitstream order — after every prefix. -/
theorem C05_keyframe_detection (C : Cfg V) (n : Nat) (hn : n ≤ C.hdrs.length) :
    (ctxAfter C n).keyframes =
      (List.range n).filter (fun i =>
        ((C.hdr i).ty == .regular || (C.hdr i).ty == .skipProgressive) &&
        ((C.hdr i).isLast || (C.hdr i).duration != 0)) :=
  keyframes_after C n hn

/-- The lazy renderer equals the sequential compositor: for every image, every request sequence
`ks` (any order, with repetitions, out-of-range indices included) and every behaviour of
`try_take_blended` (`steal`), the answers are the Spec canvases of the requested keyframes. -/
theorem C05_lazy_eq_sequential (C : Cfg V) (steal : Nat → Nat → Bool) (ks : List Nat) :
    (renderMany C steal ks St.init).1 = ks.map (canvasAt C) :=
  (renderMany_spec C steal ks St.init (inv_init C)).1

/-- A stolen or reset handle is re-rendered to the same value: after any request history `ks`,
dropping any set of cached compositions (`drop`) changes no later answer. -/
theorem C05_lazy_rerender_same_value (C : Cfg V) (steal steal' : Nat → Nat → Bool) (ks ks' : List Nat)
    (drop : Nat → Bool) :
    (renderMany C steal' ks'
        ⟨fun j => if drop j then .none else (renderMany C steal ks St.init).2.get j⟩).1
      = ks'.map (canvasAt C) :=
  (renderMany_spec C steal' ks' _
    (inv_drop C _ drop (renderMany_spec C steal ks St.init (inv_init C)).2)).1

end Generic

/-! ### Non-vacuity: a concrete four-frame animation whose canvases are "the frames composed" -/

/-- frame 0 saved to slot 1 (duration 0); frame 1 a keyframe (duration 2) adding onto slot 1 and
saved to slot 1 again (so it may steal frame 0's buffer and resets frame 0's handle); frame 2
reference-only into slot 3; frame 3 the last frame, multiplying onto slot 3 (may steal frame 2's
buffer). Values: the list of frame indices that went into the canvas. -/
def exampleCfg : Cfg (List Nat) where
  img := { w := 2, h := 2, colorChannels := 1, ecAlphaAssoc := [] }
  hdrs := [ { isLast := false, saveAsRef := 1, w := 2, h := 2 },
            { isLast := false, saveAsRef := 1, duration := 2, w := 2, h := 2,
              blend := { mode := .add, source := 1 } },
            { ty := .referenceOnly, isLast := false, saveAsRef := 3, w := 2, h := 2 },
            { isLast := true, w := 2, h := 2, blend := { mode := .mul, source := 3 } } ]
  compose := fun i bases => i :: (bases.filterMap id).flatten

def isEmptyHandle {V : Type} : HState V → Bool
  | .none => true
  | _ => false

example : (ctxOf exampleCfg.hdrs).keyframes = [1, 3] := by decide
example : (List.range 4).map (refOf exampleCfg 3) = [none, some 1, none, some 2] := by decide
example : (List.range 4).map (canvasAt exampleCfg) = [some [1, 0], some [3, 2], none, none] := by decide
example : (renderMany exampleCfg (fun _ _ => true) [1, 0, 1, 7, 0] St.init).1
    = [some [3, 2], some [1, 0], some [3, 2], none, some [1, 0]] := by decide
/-- after both keyframes were asked for, the handle of frame 0 is empty again (reset by frame 1,
whether or not stealing succeeds) and the handle of frame 2 is empty iff frame 3 stole its buffer -/
example : (List.range 4).map (fun j => isEmptyHandle ((renderMany exampleCfg (fun _ _ => false) [0, 1] St.init).2.get j))
    = [true, false, false, false] := by decide
example : (List.range 4).map (fun j => isEmptyHandle ((renderMany exampleCfg (fun _ _ => true) [0, 1] St.init).2.get j))
    = [true, false, true, false] := by decide

/-! ### Pixel meaning of the Spec compositor -/
section Pixels
variable {α : Type} [Scalar α]
open Px

/-- Inside the frame rectangle (signed origin) the composed sample is the channel's kernel applied
to the source slot's sample, the frame's sample and the two alpha samples of the alpha channel the
blending info names; outside it is the source slot's sample (zero for an empty slot). -/
theorem C05_spec_sample (img : ImgInfo) (ct : List (Plane α) → List (Plane α)) (f : Frame α)
    (bases : List (Option (Canvas α))) (c x y : Nat)
    (hc : c < img.colorChannels + img.ecAlphaAssoc.length) (hx : x < img.w) (hy : y < img.h)
    (hns : f.hdr.skipBlending img = false) :
    ((blendFrame img ct f bases).getD c {}).get x y =
      (let hdr := f.hdr
       let cc := img.colorChannels
       let info := hdr.infoFor cc c
       let k := kernelFor (img.ecAlphaAssoc.length != 0) info c cc (img.ecAlphaAssoc.getD info.alpha none)
       let base := bases.getD c none
       let chans := inputChans img ct f
       let fx := (x : Int) - hdr.x0
       let fy := (y : Int) - hdr.y0
       if 0 ≤ fx ∧ fx < hdr.w ∧ 0 ≤ fy ∧ fy < hdr.h then
         k.apply (chanOf base c x y) ((chans.getD c {}).getI fx fy)
           (chanOf base (cc + info.alpha) x y) ((chans.getD (cc + info.alpha) {}).getI fx fy)
       else chanOf base c x y) :=
  blendFrame_sample img ct f bases c x y hc hx hy hns

/-- A frame that resets the canvas (full-size `Replace`) or is not a normal frame is the canvas:
its own samples at its origin, nothing of any slot. -/
theorem C05_spec_sample_unblended (img : ImgInfo) (ct : List (Plane α) → List (Plane α)) (f : Frame α)
    (bases : List (Option (Canvas α))) (c x y : Nat)
    (hc : c < img.colorChannels + img.ecAlphaAssoc.length) (hx : x < img.w) (hy : y < img.h)
    (hs : f.hdr.skipBlending img = true) :
    ((blendFrame img ct f bases).getD c {}).get x y =
      ((inputChans img ct f).getD c {}).getI ((x : Int) - f.hdr.x0) ((y : Int) - f.hdr.y0) :=
  blendFrame_skip_sample img ct f bases c x y hc hx hy hs

/-! ### Patches (frames whose LfGlobal carries a patch dictionary) -/

/-- Inside a target rectangle every channel of the frame gets its component of the patch blend rule
(`patchPixel`: the eight patch modes, channel by channel, the alpha channel read as already
updated) applied to the frame's samples there and to the source frame's samples at the
corresponding position of the source rectangle; outside the rectangle the frame is untouched. -/
theorem C05_patch_target_sample (img : ImgInfo) (src : List (Plane α)) (p : PatchRef) (t : PatchTarget)
    (chans : List (Plane α)) (c x y : Nat) (hc : c < chans.length)
    (hx : x < (chans.getD c {}).w) (hy : y < (chans.getD c {}).h) :
    ((applyTarget img src p t chans).getD c {}).get x y =
      (let ix := (x : Int) - t.x
       let iy := (y : Int) - t.y
       if 0 ≤ ix ∧ ix < p.w ∧ 0 ≤ iy ∧ iy < p.h then
         (patchPixel img.colorChannels img.ecAlphaAssoc t.infos (chans.map fun q => q.get x y)
            (src.map fun q => q.get (p.x0 + ix.toNat) (p.y0 + iy.toNat))).getD c Scalar.zero
       else (chans.getD c {}).get x y) :=
  applyTarget_sample img src p t chans c x y hc hx hy

/-- patch blend mode `None` on every channel group leaves the pixel as it is -/
theorem C05_patch_mode_none_keeps (cc : Nat) (assoc : List (Option Bool)) (infos : List (PatchMode × Nat × Bool))
    (base rv : List α) (h : ∀ i, (infos.getD i (.none, 0, false)).1 = .none) :
    patchPixel cc assoc infos base rv = base :=
  patchPixel_all_none cc assoc infos base rv h

/-- On an image none of whose frames has a patch dictionary the patch-aware composition
(`keyframesP`, the specification the correspondence run uses for images with patches) IS the
sequential compositor `keyframes` of the theorems above. -/
theorem C05_patch_free_fold_is_compositor (img : ImgInfo) (fs : List (Frame α)) :
    keyframesP img (fs.map noPatch) = keyframes img fs :=
  keyframesP_noPatch img fs

end Pixels

/-! non-vacuity of the pixel statements: a frame half outside the canvas, added onto a filled slot -/
section PixelExample
open Px
/-- integers as scalars, for concrete examples only (no division) -/
@[reducible] def intScalar : Scalar Int where
  zero := 0
  one := 1
  add a b := a + b
  sub a b := a - b
  mul a b := a * b
  recip _ := 0
  isPos x := decide (0 < x)
  clamp01 x := if x < 0 then 0 else if 1 < x then 1 else x
  ofSample _ v := v
attribute [local instance] intScalar

def exImg : ImgInfo := { w := 3, h := 1, colorChannels := 1, ecAlphaAssoc := [] }
/-- a 2x1 frame at x0 = -1 (half outside the canvas) added onto slot 2 -/
def exFrame : Frame Int :=
  { hdr := { haveCrop := true, x0 := -1, y0 := 0, w := 2, h := 1, blend := { mode := .add, source := 2 } },
    chans := [{ w := 2, h := 1, data := #[100, 200] }] }
def exBase : Canvas Int := [{ w := 3, h := 1, data := #[1, 2, 3] }]

example : exFrame.hdr.skipBlending exImg = false := by decide
example : (List.range 3).map (fun x => ((blendFrame exImg id exFrame [some exBase]).getD 0 {}).get x 0) = [201, 2, 3] := by
  decide
/-- a 2x1 rectangle at (1, 0) of a 4x1 reference-only frame, added at x = 2 (half outside the frame)
and replacing at x = 0 -/
def exPatch : PatchRef :=
  { ref := 1, x0 := 1, y0 := 0, w := 2, h := 1,
    targets := [{ x := 2, y := 0, infos := [(.add, 0, false)] }, { x := 0, y := 0, infos := [(.replace, 0, false)] }] }
def exSource : List (Plane Int) := [{ w := 4, h := 1, data := #[7, 8, 9, 10] }]

example : (List.range 3).map (fun x =>
    ((applyPatches exImg (fun _ => exSource) [exPatch] [{ w := 3, h := 1, data := #[1, 2, 3] }]).getD 0 {}).get x 0)
    = [8, 9, 11] := by decide
end PixelExample

end Jxl.Blend
