import JxlModel.Proofs.Alloc
/-!
# C13 — resource accounting

Property theorems for the allocation tracker. They quantify over every initial limit, every
operation history (allocations of any size, drops in any order, limit expansion and shrinking,
failed requests in between) with one side condition, `NoWrap`: no `expand_limit` pushes the
limit past `usize::MAX` (there the real `fetch_add` wraps and the notion of "limit" is void).
-/
namespace Jxl.Alloc

/-- Conservation: after any history, bytes left + bytes handed out = current limit. -/
theorem C13_conservation (l : Nat) (hl : l < W) (ops : List Op) (hw : NoWrap (init l) ops) :
    (run (init l) ops).left + outstanding (run (init l) ops) = (run (init l) ops).limit :=
  (run_inv _ ops (init_inv l hl) hw).1

/-- The tracked total never exceeds the limit. -/
theorem C13_never_exceeds_limit (l : Nat) (hl : l < W) (ops : List Op)
    (hw : NoWrap (init l) ops) :
    outstanding (run (init l) ops) ≤ (run (init l) ops).limit := by
  have := C13_conservation l hl ops hw
  omega

/-- Reaching the limit is reported as an error by exactly the request that does not fit,
and that request changes nothing. -/
theorem C13_alloc_fails_iff (s : State) (count size : Nat) (hb : count * size < W) :
    ((step s (.alloc count size)).2 = .oom (count * size) ↔ s.left < count * size) ∧
    ((step s (.alloc count size)).2 = .ok ↔ count * size ≤ s.left) ∧
    (s.left < count * size → (step s (.alloc count size)).1 = s) := by
  have hb' : ¬ (count * size ≥ W) := by omega
  simp only [step, hb', if_false]
  by_cases h : count * size ≤ s.left
  · simp [h]; omega
  · simp [h]; omega

/-- A request whose byte count fits the machine word never panics (it is `ok` or `oom`). -/
theorem C13_alloc_total (s : State) (count size : Nat) (hb : count * size < W) :
    (step s (.alloc count size)).2 ≠ .panicMul ∧ (step s (.alloc count size)).2 ≠ .badOp := by
  have hb' : ¬ (count * size ≥ W) := by omega
  simp only [step, hb', if_false]
  by_cases h : count * size ≤ s.left <;> simp [h]

/-- After every handle is dropped the whole current limit is available again, whatever
succeeded or failed in between. -/
theorem C13_all_dropped_restores_budget (l : Nat) (hl : l < W) (ops : List Op)
    (hw : NoWrap (init l) ops) (hd : (run (init l) ops).handles = []) :
    (run (init l) ops).left = (run (init l) ops).limit := by
  have := C13_conservation l hl ops hw
  simp [outstanding, hd] at this
  exact this

/-- Without any expand/shrink the limit is the initial one: full budget restored. -/
theorem C13_budget_restored_no_resize (l : Nat) (hl : l < W) (ops : List Op)
    (hr : ∀ op ∈ ops, (∀ n, op ≠ .expand n) ∧ (∀ n, op ≠ .shrink n))
    (hd : (run (init l) ops).handles = []) :
    (run (init l) ops).left = l := by
  have key : ∀ (s : State) (ops : List Op),
      (∀ op ∈ ops, (∀ n, op ≠ .expand n) ∧ (∀ n, op ≠ .shrink n)) →
      NoWrap s ops ∧ (run s ops).limit = s.limit := by
    intro s ops
    induction ops generalizing s with
    | nil => intro _; simp [NoWrap, run]
    | cons op ops ih =>
      intro h
      have hop := h op (by simp)
      have hrest := ih (step s op).1 (fun o ho => h o (by simp [ho]))
      have hlim : (step s op).1.limit = s.limit := by
        cases op with
        | alloc c sz =>
          simp only [step]
          split
          · rfl
          · split <;> rfl
        | drop i => simp only [step]; split <;> rfl
        | expand n => exact absurd rfl (hop.1 n)
        | shrink n => exact absurd rfl (hop.2 n)
      refine ⟨⟨?_, hrest.1⟩, ?_⟩
      · cases op with
        | expand n => exact absurd rfl (hop.1 n)
        | _ => trivial
      · simp only [run, List.foldl] at *
        rw [hrest.2, hlim]
  have ⟨hw, hlim⟩ := key (init l) ops hr
  rw [C13_all_dropped_restores_budget l hl ops hw hd, hlim]; rfl

/-! Non-vacuity: a concrete history with a failed request, a resize and out-of-order drops
meets every hypothesis above. -/
def exampleOps : List Op :=
  [.alloc 10 4, .alloc 100 8, .alloc 3 2, .expand 1000, .alloc 100 8, .drop 1, .shrink 5, .drop 0,
   .drop 0]

example : NoWrap (init 100) exampleOps ∧ (run (init 100) exampleOps).handles = []
    ∧ (run (init 100) exampleOps).left = 1095 ∧ (step (init 100) (.alloc 100 8)).2 = .oom 800 := by
  refine ⟨?_, by decide, by decide, by decide⟩
  simp [NoWrap, exampleOps, step, init, W]

/-! ## Concurrent callers

The sequential state machine above describes concurrent use exactly when every tracker operation
is ONE atomic read-modify-write of `bytes_left` (then any concurrent history is a sequence of
steps). `Gen/AllocOps.lean` is regenerated from alloc_tracker.rs on every run. -/

open Jxl.Gen.AllocOps in
/-- Each operation of the real tracker is a single atomic read-modify-write. -/
theorem C13_ops_are_single_rmw :
    alloc = [.rmwCheckedSub] ∧ expandLimit = [.rmwAdd] ∧ shrinkLimit = [.rmwCheckedSub] ∧
    dropHandle = [.rmwAdd] := by decide

open Jxl.Gen.AllocOps in
/-- ... and the model's step is exactly that read-modify-write: same new `bytes_left`, and the
step reports `ok` iff the atomic operation succeeded. -/
theorem C13_step_is_its_rmw (s : State) :
    (∀ c sz, c * sz < W → ∀ m ∈ alloc,
      (step s (.alloc c sz)).1.left = (microApply s.left (c * sz) m).1 ∧
      ((step s (.alloc c sz)).2 = .ok ↔ (microApply s.left (c * sz) m).2 = true)) ∧
    (∀ n, ∀ m ∈ expandLimit, (step s (.expand n)).1.left = (microApply s.left n m).1) ∧
    (∀ n, ∀ m ∈ shrinkLimit,
      (step s (.shrink n)).1.left = (microApply s.left n m).1 ∧
      ((step s (.shrink n)).2 = .ok ↔ (microApply s.left n m).2 = true)) ∧
    (∀ i b, s.handles[i]? = some b → ∀ m ∈ dropHandle,
      (step s (.drop i)).1.left = (microApply s.left b m).1) := by
  refine ⟨?_, ?_, ?_, ?_⟩
  · intro c sz hb m hm
    simp only [alloc, List.mem_singleton] at hm; subst hm
    have hb' : ¬ (c * sz ≥ W) := by omega
    simp only [step, hb', if_false, microApply]
    by_cases h : c * sz ≤ s.left <;> simp [h]
  · intro n m hm
    simp only [expandLimit, List.mem_singleton] at hm; subst hm
    simp [step, microApply]
  · intro n m hm
    simp only [shrinkLimit, List.mem_singleton] at hm; subst hm
    simp only [step, microApply]
    by_cases h : n ≤ s.left <;> simp [h]
  · intro i b hb m hm
    simp only [dropHandle, List.mem_singleton] at hm; subst hm
    simp [step, microApply, hb]

/-! ## `set_limits` of the `image` integration

`JxlDecoder::set_limits` moves the tracker by the difference to the limit it installed last. -/

/-- After any sequence of `set_limits` calls (accepted or refused) interleaved with the decoder's
own allocations and releases, the tracker's budget is exactly the limit accepted last, and what
is handed out never exceeds it. -/
theorem C13_set_limits_budget_is_last_accepted (ops : List DecOp) (hw : ∀ op ∈ ops, op.wf) :
    (decRun Dec.init ops).tr.limit = (decRun Dec.init ops).current ∧
    (decRun Dec.init ops).tr.left + outstanding (decRun Dec.init ops).tr = (decRun Dec.init ops).current ∧
    outstanding (decRun Dec.init ops).tr ≤ (decRun Dec.init ops).current := by
  obtain ⟨⟨h1, _⟩, h2⟩ := decRun_inv Dec.init ops hw decInit_inv
  refine ⟨h2, ?_, ?_⟩ <;> omega

/-- A refused `set_limits` changes nothing; an accepted one installs the new limit. -/
theorem C13_set_limits_refused_or_installed (d : Dec) (new : Nat) :
    ((setLimits d new).2 = false → (setLimits d new).1 = d) ∧
    ((setLimits d new).2 = true → (setLimits d new).1.current = new) := by
  unfold setLimits
  by_cases hgt : new > d.current
  · simp [hgt]
  · simp only [hgt, if_false]
    by_cases hfit : d.current - new ≤ d.tr.left <;> simp [step, hfit]

/-- refused exactly when the bytes handed out do not fit the new limit -/
theorem C13_set_limits_refused_iff (d : Dec) (new : Nat) (h : DecInv d) :
    (setLimits d new).2 = false ↔ new < outstanding d.tr := by
  obtain ⟨⟨h1, _⟩, h2⟩ := h
  unfold setLimits
  by_cases hgt : new > d.current
  · simp [hgt]; omega
  · simp only [hgt, if_false]
    by_cases hfit : d.current - new ≤ d.tr.left
    · simp [step, hfit]; omega
    · simp [step, hfit]; omega

example : let ops := [DecOp.setLimits 1000, .tracker (.alloc 100 4), .setLimits 10, .setLimits 1000,
      .tracker (.alloc 500 1), .tracker (.drop 0)]
    (∀ op ∈ ops, op.wf) ∧ (decRun Dec.init ops).current = 1000 ∧
    (decRun Dec.init ops).tr.left = 500 ∧ (setLimits (decRun Dec.init ops) 10).2 = false := by
  refine ⟨?_, by decide, by decide, by decide⟩
  simp [DecOp.wf, W]

end Jxl.Alloc
