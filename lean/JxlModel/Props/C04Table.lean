import JxlModel.Proofs.Entropy.PrefixTableNested
/-!
# C04 — Impl layer of prefix decoding: the two-level bit-reversed tables (prefix.rs)

`withCodeLengths` / `TableHist.read` (Model/Entropy/PrefixTable.lean) transcribe
`Histogram::with_code_lengths` / `read_symbol` / `vec_reverse_bits`; the Spec is
`PrefixCode.ofLengths` / `PrefixCode.read` (interval search on the 15-bit MSB-first look-ahead).

Caller facts relied on (both callers of `with_code_lengths`, `parse_simple` and `parse_complex`,
establish them): every length is ≤ 15 (`MAX_PREFIX_BITS`; symbols 1..=15 of the code-length code,
lengths ≤ 5 for the code-length code itself, ≤ 3 for simple codes) and the Kraft sum is ≤ 1
(`bitacc ≤ 1 << 15`, resp. a sub-multiset of {1,2,2}/{1,2,3,3}/{2,2,2,2}/{1,1}); at most `2^15`
lengths (`alphabet_size ≤ 1 << 15`), so the `as u16` conversions are lossless.

`C04_prefix_table_eq_spec` is the full statement (every length ≤ 15): bit reversal, the
`current_bits` fill loop, `syms_for_length`, the second-level loop (`chunk`, replication by `mult`
of `remaining_entries`, nested top-level entries, the dangling-chunk error exit, no slice/index panic
under Kraft ≤ 1), both outcomes of the final test, and the nested read
`second[offset + ((peeked >> 10) & mask)]`. `C04_prefix_table_eq_spec_toplevel` is the earlier
special case (no length above `MAX_TOPLEVEL_BITS`), kept.
-/
namespace Jxl.Entropy

/-- **Top-level tables = Spec.** For every length vector without a length above
`MAX_TOPLEVEL_BITS = 10` and Kraft sum ≤ 1: the table construction succeeds exactly when the Spec
accepts the code (complete code), fails with the same error otherwise, and the table reader
returns, for every bit string, the same symbol, the same rest and the same `eof` as the Spec. -/
theorem C04_prefix_table_eq_spec_toplevel (lens : List Nat)
    (h10 : ∀ l ∈ lens, l ≤ 10) (hk : kraft lens ≤ 2 ^ 15) :
    ((∃ t, withCodeLengths lens = .ok t) ↔ ∃ c, PrefixCode.ofLengths lens = .ok c) ∧
    ((¬ ∃ t, withCodeLengths lens = .ok t) →
      withCodeLengths lens = .error .invalidPrefixHistogram ∧
      PrefixCode.ofLengths lens = .error .invalidPrefixHistogram) ∧
    ∀ t, withCodeLengths lens = .ok t →
      PrefixCode.ofLengths lens = .ok (.table (sortedSyms lens)) ∧
      ∀ s, t.read s = (PrefixCode.table (sortedSyms lens)).read s := by
  have h15 : ∀ l ∈ lens, l ≤ 15 := fun l hl => Nat.le_trans (h10 l hl) (by omega)
  have hlen : (symsForLength lens).length ≤ 10 := sfl_length 10 lens 0 [] h10 (by simp)
  have hle : ∀ e ∈ sortedSyms lens, e.2 ≤ (symsForLength lens).length := by
    rw [← entsOf_symsForLength lens h15]; intro e he; simpa using entsOf_le 0 _ e he
  rw [withCodeLengths_toplevel lens h10 hk]
  unfold PrefixCode.ofLengths
  by_cases hkk : kraft lens = 2 ^ 15
  · rw [if_pos hkk, if_pos hkk]
    refine ⟨⟨fun _ => ⟨_, rfl⟩, fun _ => ⟨_, rfl⟩⟩, fun h => absurd ⟨_, rfl⟩ h, ?_⟩
    intro t ht
    cases ht
    refine ⟨rfl, fun s => ?_⟩
    exact read_toplevel _ (by omega) _ hle (by rw [total_sortedSyms lens h15]; exact hkk) [] s
  · rw [if_neg hkk, if_neg hkk]
    refine ⟨⟨fun ⟨_, h⟩ => (by cases h), fun ⟨_, h⟩ => (by cases h)⟩, fun _ => ⟨rfl, rfl⟩, ?_⟩
    intro t ht; cases ht

/-- **Two-level tables = Spec.** For every length vector with lengths ≤ 15 (`MAX_PREFIX_BITS`) and
Kraft sum ≤ 1 — what both callers of `with_code_lengths` guarantee —: the table construction
(`syms_for_length`, top-level fill, second-level chunks with replication, `vec_reverse_bits`)
succeeds exactly when the Spec accepts the code (complete code), otherwise both fail with
`InvalidPrefixHistogram` (in particular no slice or index panic), and `read_symbol` through the
tables returns, for every bit string, the same symbol, the same rest and the same `eof` as the
interval search of the Spec. -/
theorem C04_prefix_table_eq_spec (lens : List Nat)
    (h15 : ∀ l ∈ lens, l ≤ 15) (hk : kraft lens ≤ 2 ^ 15) :
    ((∃ t, withCodeLengths lens = .ok t) ↔ ∃ c, PrefixCode.ofLengths lens = .ok c) ∧
    ((¬ ∃ t, withCodeLengths lens = .ok t) →
      withCodeLengths lens = .error .invalidPrefixHistogram ∧
      PrefixCode.ofLengths lens = .error .invalidPrefixHistogram) ∧
    ∀ t, withCodeLengths lens = .ok t →
      PrefixCode.ofLengths lens = .ok (.table (sortedSyms lens)) ∧
      ∀ s, t.read s = (PrefixCode.table (sortedSyms lens)).read s :=
  table_eq_spec lens h15 hk

/-- Impl and Spec both accept `lens` and agree on the given streams -/
def agreeOn (lens : List Nat) (streams : List Bits) : Bool :=
  match withCodeLengths lens, PrefixCode.ofLengths lens with
  | .ok t, .ok c => streams.all fun s => sameRead (t.read s) (c.read s)
  | _, _ => false

/-- non-vacuity, max length ≤ 10: hypotheses hold, the table exists (4 top-level bits), and the
reads agree on full, truncated (eof) and empty streams -/
example : (∀ l ∈ [2, 2, 3, 3, 3, 4, 4], l ≤ 10) ∧ kraft [2, 2, 3, 3, 3, 4, 4] ≤ 2 ^ 15 ∧
    (withCodeLengths [2, 2, 3, 3, 3, 4, 4]).toOption.map (·.toplevelBits) = some 4 ∧
    agreeOn [2, 2, 3, 3, 3, 4, 4]
      [[true, true, true, true, false], [true, true, true], [false, true, false, true],
       [true, false, true, true], [true], []] = true := by decide +kernel

/-- non-vacuity of `C04_prefix_table_eq_spec` with nested chunks: lengths 1,2,…,14,15,15 — ten
top-level bits, nested chunks of 2, 4, 8, 16 entries replicated up to the final 32-entry chunk;
Impl and Spec agree on long codewords, a truncated stream (eof) and the empty stream -/
example : (∀ l ∈ [1, 2, 3, 4, 5, 6, 7, 8, 9, 10, 11, 12, 13, 14, 15, 15], l ≤ 15) ∧
    kraft [1, 2, 3, 4, 5, 6, 7, 8, 9, 10, 11, 12, 13, 14, 15, 15] = 2 ^ 15 ∧
    (withCodeLengths [1, 2, 3, 4, 5, 6, 7, 8, 9, 10, 11, 12, 13, 14, 15, 15]).toOption.map
      (fun t => (t.toplevelBits, t.toplevel.length, t.second.length)) = some (10, 1024, 32) ∧
    agreeOn [1, 2, 3, 4, 5, 6, 7, 8, 9, 10, 11, 12, 13, 14, 15, 15]
      [toBitsMSB 15 0x7fff, toBitsMSB 15 0x7ffe, toBitsMSB 15 0x7ffc ++ [true],
       toBitsMSB 12 0xffe ++ [false, true], toBitsMSB 11 0x7fe, toBitsMSB 12 0xfff,
       [true, true, false], []] = true := by decide +kernel

/-- an incomplete code is rejected by both -/
example : withCodeLengths [1, 2, 3] = .error .invalidPrefixHistogram ∧
    PrefixCode.ofLengths [1, 2, 3] = .error .invalidPrefixHistogram := by decide +kernel

end Jxl.Entropy
