import JxlModel.Model.NaturalOrder
/-!
# C07 (lazy tables) — the natural coefficient order tables

The four large tables (orders 9..12) are built at first use. What a caller gets must be a function
of the order index alone: `Jxl.NaturalOrder.table idx` is that function (the correspondence run
asks the real `natural_order_lazy` for every index in seeded orders, sequentially and from threads
started together, and compares with it). The theorem below is the size fact the in-place fill
relies on (`output[idx]` stays inside the `bw * bh` vector).
-/
namespace Jxl.NaturalOrder

set_option maxRecDepth 1000000 in
/-- every one of the 13 tables has exactly `bw * bh` entries -/
theorem C07_natural_order_table_lengths :
    (List.range 13).all (fun i =>
      (table i).length == (blockSizes.getD i (0, 0)).1 * (blockSizes.getD i (0, 0)).2) = true := by
  decide +kernel

example : (table 4).take 5 = [(0, 0), (1, 0), (0, 1), (2, 0), (3, 0)] := by decide +kernel

end Jxl.NaturalOrder
