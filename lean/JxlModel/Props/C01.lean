import JxlModel.Proofs.Checked
import JxlModel.Gen.C01Pins
import JxlModel.Model.C01Pinned
import JxlModel.Props.C10
import JxlModel.Props.C17
import JxlModel.Props.C18
/-!
# C01 — decoding untrusted bytes is total (Ok or Err, never panic / hang)

What is proved here is totality of *modelled* bookkeeping code in a checked-arithmetic model
(`Outcome.panic` = what a build with overflow checks would do), for all header values the encoding
can express, plus the per-layer totality theorems of other properties re-stated under `C01_`:

* `Frame::parse` validation and the group / TOC entry arithmetic behind it;
* the `LfGlobal` area product (with the witness of the defect that was repaired, F3);
* MA-tree leaf multiplier arithmetic; hybrid-integer extra-bit count; the `value + 1` root of
  table compilation before its repair (F8);
* container parser: every error is one of the two declared kinds, no panic site reachable, and
  no livelock (C10); ICC command interpreter: fuel never exhausted (C18); jbrd status and length
  accessors total on headers the repaired parser accepts (C17); JPEG bit writer total.

Everything else — the unmodelled majority of the decoder — is covered by the differential
campaign of tools/props/c01.py (testing, not proof); see the evidence file for what it reached.
-/
namespace Jxl.Checked

/-- The Rust functions transcribed in `Model/Checked.lean` still have the text the model was
validated against (regenerated from the current tree on every run). -/
theorem C01_sources_match_pinned : Gen.pins = Pinned.pins := by decide

/-- `Frame::parse`'s validation never panics, whatever the header fields are. -/
theorem C01_frame_validate_total (h : FH) : (frameValidate h).isPanic = false :=
  frameValidate_total h

/-- For every encodable header that passes `Frame::parse`'s validation, `num_groups`,
`num_lf_groups` and the TOC entry count are computed without overflow, and the entry count is
small enough for the `> 65536` check to be meaningful. -/
theorem C01_group_counts_total (h : FH) (he : h.Encodable) (hv : frameValidate h = .ok ()) :
    (∃ n, numGroups h = .ok n ∧ n ≤ 2 ^ 26 + 2 ^ 24 + 1) ∧
    (∃ n, numLfGroups h = .ok n ∧ n ≤ 2 ^ 26 + 2 ^ 24 + 1) ∧
    (∃ n, tocEntryCount h = .ok n ∧ n < 2 ^ 31) := by
  obtain ⟨_, _, hups, hl, _, hp1, hp2, _⟩ := he
  have hu : 1 ≤ h.upsampling := by omega
  have hg := groupDim_ge h
  obtain ⟨ng, hng, hngb⟩ := numGroupsLike_ok h "header.rs num_groups" (groupDim h) hg hu hl hv
  obtain ⟨nl, hnl, hnlb⟩ := numGroupsLike_ok h "header.rs num_lf_groups" (groupDim h * 8) (by omega) hu hl hv
  have e1 : numGroups h = .ok ng := hng
  have e2 : numLfGroups h = .ok nl := hnl
  refine ⟨⟨ng, e1, hngb⟩, ⟨nl, e2, hnlb⟩, ?_⟩
  unfold tocEntryCount
  rw [e1, bind_ok]
  split
  · exact ⟨1, rfl, by omega⟩
  · rw [e2, bind_ok]
    have h1 : ng * h.numPasses ≤ (2 ^ 26 + 2 ^ 24 + 1) * 11 := Nat.mul_le_mul hngb hp2
    have l1 : ng * h.numPasses < u32Max := by simp only [u32Max]; omega
    have l2 : 1 + nl < u32Max := by simp only [u32Max]; omega
    have l3 : 1 + nl + 1 < u32Max := by simp only [u32Max]; omega
    have l4 : 1 + nl + 1 + ng * h.numPasses < u32Max := by simp only [u32Max]; omega
    refine ⟨1 + nl + 1 + ng * h.numPasses, ?_, by omega⟩
    simp only [mulU32, addU32, l1, l2, l3, l4, if_true, bind_ok]

/-- The repaired `LfGlobal` area product cannot overflow for any header `Frame::parse` accepts. -/
theorem C01_lf_global_area_total (h : FH) (hv : frameValidate h = .ok ()) :
    lfGlobalArea h = .ok (h.width * h.height) := by
  obtain ⟨_, _, ha, _, _⟩ := frameValidate_ok h hv
  unfold lfGlobalArea
  have : h.width * h.height < u64Max := by simp only [u64Max]; omega
  simp [this]

/-- F3 (before the repair): a 65536×65536 frame crop passes validation and panics in the `u32`
product. -/
theorem C01_lf_global_area_old_witness :
    let h : FH := { width := 65536, height := 65536, upsampling := 1, lfLevel := 0, groupSizeShift := 1,
                    numPasses := 1, ecs := [] }
    frameValidate h = .ok () ∧ lfGlobalAreaOld h = .panic "lf_global.rs:57" := by decide

/-- MA-tree leaf: the multiplier arithmetic never panics, and an accepted multiplier is exactly
`(mul_bits + 1) * 2^mul_log` and fits `u32` (no bits are lost in the shift). -/
theorem C01_ma_multiplier_total (mulLog mulBits : Nat) (hb : mulBits < u32Max) :
    (maMultiplier mulLog mulBits).isPanic = false ∧
    (∀ m, maMultiplier mulLog mulBits = .ok m → m = (mulBits + 1) * 2 ^ mulLog ∧ m < u32Max) := by
  unfold maMultiplier
  split
  · exact ⟨rfl, by intro m h; simp at h⟩
  · rename_i hl
    have h2 : 2 ≤ 2 ^ (31 - mulLog) := by
      have : 2 ^ 1 ≤ 2 ^ (31 - mulLog) := Nat.pow_le_pow_right (by omega) (by omega)
      simpa using this
    simp only [subU32, h2, if_true]
    split
    · exact ⟨rfl, by intro m h; simp at h⟩
    · rename_i hm
      have hlt : mulBits + 1 < u32Max := by
        have : 2 ^ (31 - mulLog) ≤ 2 ^ 31 := Nat.pow_le_pow_right (by omega) (by omega)
        simp only [u32Max]; omega
      simp only [addU32, hlt, if_true]
      refine ⟨rfl, ?_⟩
      intro m h
      simp at h
      subst h
      refine ⟨rfl, ?_⟩
      have hle : mulBits + 1 ≤ 2 ^ (31 - mulLog) - 1 := by omega
      have hpow : 2 ^ (31 - mulLog) * 2 ^ mulLog = 2 ^ 31 := by
        rw [← Nat.pow_add]; congr 1; omega
      have : (mulBits + 1) * 2 ^ mulLog ≤ (2 ^ (31 - mulLog) - 1) * 2 ^ mulLog :=
        Nat.mul_le_mul_right _ hle
      have h3 : (2 ^ (31 - mulLog) - 1) * 2 ^ mulLog ≤ 2 ^ 31 := by
        rw [← hpow]; exact Nat.mul_le_mul_right _ (by omega)
      simp only [u32Max]; omega

/-- Hybrid-integer extra-bit count: the `u32` subtraction cannot underflow once the config
passed `IntegerConfig::parse`, and at most 31 bits are read. -/
theorem C01_uint_extra_bits_total (splitExp msb lsb token : Nat) :
    (uintExtraBits splitExp msb lsb token).isPanic = false ∧
    (∀ n, uintExtraBits splitExp msb lsb token = .ok n → n ≤ 31) := by
  unfold uintExtraBits
  split
  · exact ⟨rfl, by intro n h; simp at h⟩
  · split
    · exact ⟨rfl, by intro n h; simp at h⟩
    · split
      · exact ⟨rfl, by intro n h; simp at h; omega⟩
      · rename_i h1 h2 h3
        have : msb + lsb ≤ splitExp := by omega
        simp only [subU32, this, if_true]
        refine ⟨rfl, ?_⟩
        intro n h
        simp at h
        have := Nat.mod_lt (splitExp - (msb + lsb) + (token - 2 ^ splitExp) / 2 ^ (msb + lsb)) (by omega : 0 < 32)
        omega

/-- F8 (before the repair): `value + 1` at the root of table compilation panics for
`value = i32::MAX`. -/
theorem C01_compile_root_old_witness : compileRootOld 2147483647 = .panic "ma.rs:514" := by decide

end Jxl.Checked

/-! ## totality theorems of other layers, restated -/
namespace Jxl.Container
/-- Container parser, any chunking: an error is always one of the two declared kinds — the
`unreachable!` arm and the `- 4` underflow sites are never reached. -/
theorem C01_container_no_panic (chunks : List Bytes) (e : Err)
    (h : (feedChunks init [] chunks).error = some e) : e = .invalidBox ∨ e = .validationFailed :=
  C10_no_panic chunks e h

/-- Container parser: a call that consumed nothing, emitted nothing and reported no error left the
state unchanged and was offered fewer than 16 bytes (no livelock on re-offered input). -/
theorem C01_container_no_livelock (s : PState) (buf : Bytes) (h1 : (feed s buf).error = none)
    (h2 : consumed buf (feed s buf) = 0) (h3 : (feed s buf).events = []) :
    (feed s buf).state = s ∧ buf.length < 16 :=
  C10_no_livelock s buf h1 h2 h3
end Jxl.Container

namespace Jxl.Icc
/-- ICC command interpreter terminates within its fuel on every input (bounded time). -/
theorem C01_icc_decode_terminates (s : List Nat) : decodeIcc s ≠ .error .fuel :=
  C18_fuel_never_exhausted s
end Jxl.Icc

namespace Jxl.JpegBits
/-- `jpeg_reconstruction_status()` cannot panic on headers the repaired jbrd parser accepts. -/
theorem C01_jbrd_status_total (f : Facts) (h : ∀ am ∈ f.app, appMarkerOk am = true) :
    status f ≠ .panic :=
  C17_status_total f h
end Jxl.JpegBits
