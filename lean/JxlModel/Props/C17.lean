import JxlModel.Proofs.JpegBits
import JxlModel.Proofs.JpegHuffman
/-!
# C17 — JPEG reconstruction is byte-exact (logic core)

What is proved here is the part of the property that lives in `jxl-jbr`'s bit-level machinery and in
the status decision; the end-to-end statement "reconstructed file = original JPEG" also depends on
VarDCT coefficient decoding, integer chroma-from-luma and marker replay, none of which is modelled
(see DESIGN.md §4 C17, *Partial*).
-/
namespace Jxl.JpegBits

/-! ## Bit writer -/

/-- **Main theorem.** For every sequence of `write_huffman` / `write_raw` calls that the real writer
survives (`run ops = some s`), with each Huffman code left-aligned (`Op.WF`: at most 64 bits, nothing
below them), `finalize` returns exactly: the written bit strings concatenated MSB first, padded with
zero bits to a whole byte, packed big-endian, with `0x00` stuffed after every `0xFF`. -/
theorem C17_bitwriter_refines (ops : List Op) (hwf : ∀ op ∈ ops, op.WF) (s : BW)
    (h : run ops = some s) : finalize s = spec ops := by
  have := runFrom_inv ops BW.new s [] inv_new hwf h
  simpa [spec] using finalize_inv s _ this

/-- No call panics when every length is at most 63 (the scan encoder's lengths are ≤ 16 for codes
and ≤ 63 for refinement bits). -/
theorem C17_bitwriter_no_panic (ops : List Op) (hwf : ∀ op ∈ ops, op.WF)
    (hlen : ∀ op ∈ ops, op.len ≤ 63) : ∃ s, run ops = some s :=
  runFrom_some ops BW.new [] inv_new hwf hlen

/-- `padding_bits()` is the number of bits missing to the next byte boundary of what was written,
so the explicit padding write of `flush_bit_writer` leaves nothing for `finalize` to pad. -/
theorem C17_padding_bits_correct (ops : List Op) (hwf : ∀ op ∈ ops, op.WF) (s : BW)
    (h : run ops = some s) : paddingBits s = (8 - (specBits ops).length % 8) % 8 := by
  have := inv_length_mod s _ (runFrom_inv ops BW.new s [] inv_new hwf h)
  simp only [List.nil_append] at this
  simp [paddingBits, this]

/-- `has_ff_byte` is exact for all 2^64 values: true iff one of the eight big-endian bytes is `0xFF`. -/
theorem C17_has_ff_byte_correct (v : BitVec 64) :
    hasFFByte v = true ↔ ∃ b ∈ beBytes v, b = 0xFF#8 := by
  rw [hasFFByte_iff]
  simp only [beBytes, List.mem_map, List.mem_range]
  constructor
  · intro ⟨k, hk, e⟩; exact ⟨_, ⟨k, hk, rfl⟩, e⟩
  · intro ⟨b, ⟨k, hk, e1⟩, e2⟩; exact ⟨k, hk, e1 ▸ e2⟩

/-! Non-vacuity: a write sequence crossing the 64-bit flush boundary with `0xFF` bytes, a
sign-extended raw value and explicit padding meets the hypotheses; its output is the expected one. -/
def exampleOps : List Op :=
  [.huff 0xFFFE000000000000#64 15, .raw 0xFFFFFFFFFFFFFFF5#64 4, .huff 0xFFFFFFFFFFFFFFF0#64 60,
   .raw 0#64 0, .raw 0x7F#64 7, .raw 1#64 2]

example : (∀ op ∈ exampleOps, op.WF) ∧ (∀ op ∈ exampleOps, op.len ≤ 63)
    ∧ (run exampleOps).map finalize = some (spec exampleOps)
    ∧ spec exampleOps = [0xFF, 0, 0xFE, 0xBF, 0xFF, 0, 0xFF, 0, 0xFF, 0, 0xFF, 0, 0xFF, 0, 0xFF, 0,
        0xFF, 0, 0xFD] :=
  ⟨wf_of_all_wfBool _ (by decide +kernel), by decide, by decide +kernel, by decide +kernel⟩

/-- Writing 64 bits into an empty accumulator is the one place a call within `len ≤ 64` panics. -/
example : run [.huff 0xFFFFFFFFFFFFFFFF#64 64] = none ∧ run [.raw 1#64 1, .huff 0#64 64] ≠ none := by
  decide

example : hasFFByte 0x00FF000000000000#64 = true ∧ hasFFByte 0xFEFEFEFEFEFEFEFE#64 = false
    ∧ hasFFByte 0x0100FE0100FE0100#64 = false := by decide

/-! ## Huffman table builder -/

/-- For every table the format means to describe (`ValidTable`: 17 counts, none of length 0, one
value per count with the sentinel last, Kraft's inequality, distinct byte symbols) `build` does
not panic, and `lookup` of the `k`-th symbol returns the `k`-th sorted length together with the
canonical JPEG code word `Σ_{j<k} 2^(l_k - l_j)` left-aligned in 64 bits; every other symbol
fails to look up. -/
theorem C17_huffman_build_canonical (counts values : List Nat) (hv : ValidTable counts values) :
    ∃ t, build counts values = some t ∧ (codeLengths counts).length + 1 = values.length ∧
      (∀ k, k < (codeLengths counts).length → lookup t (values.getD k 0)
        = some ((codeLengths counts).getD k 0,
            BitVec.ofNat 64 (canonCode (codeLengths counts) k) <<< (64 - (codeLengths counts).getD k 0))) ∧
      (∀ s, s ∉ values.dropLast → lookup t s = none) :=
  lookup_scatter counts values hv

/-- The canonical code of a valid table is a prefix code: every code word fits its length and is
not all ones (the sentinel keeps that word free), lengths do not decrease, and a later word cut to
the length of an earlier one is strictly larger than it — so no word is a prefix of another. -/
theorem C17_huffman_prefix_free (counts values : List Nat) (hv : ValidTable counts values) :
    (∀ k, k < (codeLengths counts).length →
      1 ≤ (codeLengths counts).getD k 0 ∧ (codeLengths counts).getD k 0 ≤ 16 ∧
      canonCode (codeLengths counts) k + 1 < 2 ^ (codeLengths counts).getD k 0) ∧
    (∀ j k, j < k → k < (codeLengths counts).length →
      (codeLengths counts).getD j 0 ≤ (codeLengths counts).getD k 0 ∧
      canonCode (codeLengths counts) j
        < canonCode (codeLengths counts) k
            / 2 ^ ((codeLengths counts).getD k 0 - (codeLengths counts).getD j 0)) := by
  obtain ⟨_, hsorted, hrange, _⟩ := valid_filled counts values hv
  have hcl : codeLengths counts
      = (filledOf (fun l => counts.getD l 0) (List.range counts.length)).dropLast := rfl
  have hs : (codeLengths counts).Pairwise (· ≤ ·) := by
    rw [hcl]; exact List.Pairwise.sublist (List.dropLast_sublist _) hsorted
  have hr : ∀ x ∈ codeLengths counts, 1 ≤ x ∧ x ≤ 16 := by
    intro x hx
    rw [hcl] at hx
    exact hrange x ((List.dropLast_sublist _).mem hx)
  refine ⟨fun k hk => ?_, fun j k hjk hk => code_prefix _ hs j k hjk hk⟩
  have hmem : (codeLengths counts).getD k 0 ∈ codeLengths counts := by
    rw [getD_eq_getElem _ k hk]; exact List.getElem_mem hk
  exact ⟨(hr _ hmem).1, (hr _ hmem).2,
    code_fits _ hs hr (kraft_codeLengths counts values hv) k hk⟩

/-- Prefix-freeness of the table `build` returns, on the words the bit writer is given: for two
different symbols that both look up, the shorter word is not the beginning of the longer one (the
first `l1` bits of word 2, as a number, differ from word 1). -/
theorem C17_huffman_built_prefix_free (counts values : List Nat) (hv : ValidTable counts values)
    (t : Table) (hb : build counts values = some t) (s1 s2 l1 l2 : Nat) (b1 b2 : BitVec 64)
    (hne : s1 ≠ s2) (h1 : lookup t s1 = some (l1, b1)) (h2 : lookup t s2 = some (l2, b2))
    (hle : l1 ≤ l2) : b2 >>> (64 - l1) ≠ b1 >>> (64 - l1) :=
  built_prefix_free counts values hv t hb s1 s2 l1 l2 b1 b2 hne h1 h2 hle

/-- What `lookup` hands to `write_huffman` satisfies the writer's precondition `Op.WF`. -/
theorem C17_huffman_lookup_wf (counts values : List Nat) (hv : ValidTable counts values)
    (t : Table) (hb : build counts values = some t) (s l : Nat) (b : BitVec 64)
    (h : lookup t s = some (l, b)) : (Op.huff b l).WF := by
  obtain ⟨k, hk, _, rfl, rfl⟩ := lookup_position counts values hv t hb s l b h
  have h16 := ((C17_huffman_prefix_free counts values hv).1 k hk).2.1
  generalize (codeLengths counts).getD k 0 = L at *
  refine ⟨by omega, fun i hi => ?_⟩
  rw [BitVec.getMsbD_shiftLeft, BitVec.getMsbD_eq_getLsbD]
  have : decide (i + (64 - L) < 64) = false := by simp; omega
  rw [this, Bool.false_and]

/-! Non-vacuity: the DC luminance table of ITU-T T.81 K.3 (plus the jbrd sentinel, which takes the
free 9-bit word) is a `ValidTable`; its first and last code words are `00` and `111111110`. -/
def k3Counts : List Nat := [0, 0, 1, 5, 1, 1, 1, 1, 1, 2, 0, 0, 0, 0, 0, 0, 0]
def k3Values : List Nat := [0, 1, 2, 3, 4, 5, 6, 7, 8, 9, 10, 11, 0]

example : ValidTable k3Counts k3Values :=
  ⟨by decide, by decide, by decide, by decide, by decide, by decide, by decide⟩

example : (build k3Counts k3Values).bind (fun t => lookup t 0) = some (2, 0#64)
    ∧ (build k3Counts k3Values).bind (fun t => lookup t 11) = some (9, 0xFF00000000000000#64)
    ∧ (build k3Counts k3Values).bind (fun t => lookup t 12) = none
    ∧ canonCode (codeLengths k3Counts) 11 = 0b111111110 := by
  decide +kernel

/-- Degenerate tables: a count for length 0 (shift by 64) and more counts than values (slice split)
make `build` panic; a table with no value besides the end marker gives the empty table. Since /repo
cbf2128 `HuffmanCode::parse` rejects the first and the empty value list, so hostile reconstruction
data no longer reaches them (before, `reconstruct_jpeg` panicked: found by mutating the synthetic
transcodes of harness/src/synth.rs). -/
example : (build (List.replicate 17 0) []).isSome = true
    ∧ (build [0, 1, 0, 0, 0, 0, 0, 0, 0, 0, 0, 0, 0, 0, 0, 0, 0] [7]).isSome = true
    ∧ build [1, 1, 0, 0, 0, 0, 0, 0, 0, 0, 0, 0, 0, 0, 0, 0, 0] [1, 2] = none
    ∧ build [0, 2, 1, 0, 0, 0, 0, 0, 0, 0, 0, 0, 0, 0, 0, 0, 0] [1, 2] = none := by
  decide +kernel

/-! ## Status decision and header length accessors -/

/-- The decision logic of `jpeg_reconstruction_status`, stated outright: the answer is `Available`
exactly when the jbrd box is there (complete, see `C17_jbrd_data_iff_complete`), the Exif box is not
malformed, none of the three length computations underflows, every piece of metadata the header
asks for (`expected_*_len > 0`) has arrived — an embedded ICC profile that the image header
announces, a finished Exif box, a finished XML box — and exactly one frame, a normal VarDCT frame,
is completely loaded. -/
theorem C17_status_available_only_if (f : Facts) :
    status f = .available ↔
      f.jbrd = .data ∧ f.exifErr = false ∧
      (∃ icc exif xmp, expectedIccLen f.app = some icc ∧ expectedExifLen f.app = some exif ∧
        expectedXmpLen f.app = some xmp ∧
        (icc > 0 → f.wantIcc = true ∧ f.hasIcc = true) ∧
        (exif > 0 → f.exif = .data) ∧ (xmp > 0 → f.xml = .data)) ∧
      f.loadedFrames = 1 ∧ f.frame0 = some (true, true) :=
  status_available_iff f

/-- `AuxBoxList::jbrd()` reports the reconstruction data only once the header has been parsed and the
box has ended with a data section of the promised length. -/
theorem C17_jbrd_data_iff_complete (a : JbrdArrival) :
    jbrdState a = .data ↔ a.headerParsed = true ∧ a.finalizedOk = true := by
  obtain ⟨hp, fo, lb, cj⟩ := a
  cases hp <;> cases fo <;> cases lb <;> cases cj <;> decide

/-- Headers accepted by the repaired `AppMarker::parse` never make a length accessor underflow … -/
theorem C17_expected_len_total (app : List AppMarker) (h : ∀ am ∈ app, appMarkerOk am = true) :
    (∃ n, expectedIccLen app = some n) ∧ (∃ n, expectedExifLen app = some n)
    ∧ (∃ n, expectedXmpLen app = some n) :=
  ⟨expectedIccLen_total app h,
   expectedFirstLen_total 2 headerExifLen app (appMarkerOk_first 2 _ app h (Or.inl ⟨rfl, rfl⟩)),
   expectedFirstLen_total 3 headerXmpLen app (appMarkerOk_first 3 _ app h (Or.inr ⟨rfl, rfl⟩))⟩

/-- … so the status query is total on them. -/
theorem C17_status_total (f : Facts) (h : ∀ am ∈ f.app, appMarkerOk am = true) :
    status f ≠ .panic :=
  status_ne_panic f h

/-! Non-vacuity, and the two defects as found: an ICC marker of length 1 (finding F4, the 85-byte
witness) makes the unrepaired query panic and is rejected by the repaired parser; the unrepaired
`jbrd()` said `Data` while the box was still arriving. -/
def exampleFacts : Facts :=
  { jbrd := .data, app := [⟨0, 10⟩, ⟨1, 600⟩, ⟨2, 40⟩], exifErr := false, exif := .data,
    xml := .notFound, wantIcc := true, hasIcc := true, loadedFrames := 1, frame0 := some (true, true) }

example : status exampleFacts = .available ∧ (∀ am ∈ exampleFacts.app, appMarkerOk am = true)
    ∧ status { exampleFacts with exif := .decoding } = .needMoreData
    ∧ status { exampleFacts with frame0 := some (false, true) } = .invalid
    ∧ status { exampleFacts with loadedFrames := 0 } = .needMoreData := by decide

example : status { exampleFacts with app := [⟨1, 1⟩] } = .panic ∧ appMarkerOk ⟨1, 1⟩ = false := by
  decide

example : jbrdStateOrig ⟨true, false, false, true⟩ = .data
    ∧ jbrdState ⟨true, false, false, true⟩ = .decoding := by decide

end Jxl.JpegBits
