import JxlModel.Proofs.DctVarblock
import JxlModel.Proofs.DctTables
/-!
# C16 — inverse block transforms match their mathematical definition

Object: the polymorphic model `Jxl.Dct` (`Model/Dct.lean`) of
`jxl-render/src/vardct/generic/dct.rs` (+ the LF injection of `transform_common.rs`), instantiated at
exact reals (`Proofs/Dct.lean`: `sqrt2 = √2`, `cosPi a b = cos(aπ/b)`, therefore
`secHalf n i = 1/(2cos((2i+1)π/(2n)))` and `scaleF c N = cos(cπ/2N)·cos(cπ/N)·cos(2cπ/N)` exactly).
Vectors are arrays read with `rd` (zero outside), so the statements need no length hypotheses on the
inputs; every statement is for all coefficient vectors / blocks.

Proved here (all FULL, over ℝ unless said otherwise):
* `C16_idct_rec_eq_def`, `C16_idct_rec_eq_cosine_sum` — for **every** `k`, the recursive inverse DCT
  (special cases n = 2, 4, the n = 8 / general `sec_half` step) equals
  `c 0 + √2 Σ_{n≥1} c n cos(n(2j+1)π/(2·2^k))` at every sample;  `C16_idct_step` is the one-level
  lemma (any even length).
* `C16_fdct_rec_eq_def`, `C16_fdct_step` — the forward counterpart
  (`(1/N)·(n=0 ? 1 : √2)·Σ_j x j cos(n(2j+1)π/(2N))`).
* `C16_dct2d_transposes_cancel` — **any scalar type** (so also `f32`/`f64` executions): on every
  `2^a × 2^b` shape with `a, b ≥ 2` the 2-D driver (row pass, block transpose, chunked/gathered second
  pass, block transpose) is exactly the row pass followed by the column pass.
* `C16_dct2d_eq_def` — both directions, every `2^a × 2^b` shape including all special-case branches
  (1×1, 2×1, 1×2, 2×2, h = 1, w = 1, h = 2, w = 2): the driver equals the separable definition.
* `C16_lf_injection_spec`, `C16_varblock_dct_eq_def` — LF injection (forward DCT of the LF samples
  divided by the `scale_f` product) and a whole DCT-family varblock equal their definitions.
* `C16_secHalf_exact` — what `secHalf` is over ℝ.

NOT covered by proof (covered only by the differential run of `tools/props/c16.py`, i.e. testing):
* floating-point rounding: the theorems are about exact real arithmetic; the run measures
  `|f32 implementation − binary64 definition| ≤ 1e-4 · max|block|`;
* that the literal tables of `dct_common.rs` (`SEC_HALF_SMALL`, `SCALE_F`, `0.5411961`, `1.306563`,
  the SIMD copies) and the `f32` run-time `sec_half` tables for n ≥ 64 are the numbers
  `secHalf` / `scaleF` (compared numerically by the ops `sec` / `scalef`;
  of the design's `sec_table_small_correct` only n = 4 is proved, `C16_sec_table_n4_correct_partial`);
* the x86_64 kernels (lane-transposed SSE2/SSE4.1 code): compared by execution only;
* the non-DCT transforms — 2×2 pyramid (Dct2), the 4×4 / 4×8 / 8×4 splits, Hornuss, AFV0–3: no
  theorems; binary64 transcriptions in `Model/DctSmall.lean`, compared by execution;
* that forward and inverse are mutually inverse (DCT orthogonality) is not proved; it follows
  numerically from both matching their definitions in the run.
-/
open Finset Real

namespace Jxl.Dct

/-- The model's `secHalf` over the reals is the exact secant value the tables approximate. -/
theorem C16_secHalf_exact (n i : ℕ) :
    (secHalf n i : ℝ) = 1 / (2 * Real.cos ((2 * i + 1) * π / (2 * n))) :=
  secHalf_real n i

/-- One recursion level: if `rec` computes the inverse DCT of length `m` (as the cosine-sum
definition) then `istep (2m) rec` — de-interleave, running sum, `√2`, two recursive calls,
`sec_half` scaling, butterfly — computes the inverse DCT of length `2m`. -/
theorem C16_idct_step (m : ℕ) (hm : 0 < m) (rec : Array ℝ → Array ℝ)
    (hrec : ∀ c : Array ℝ, ∀ j < m, rd (rec c) j = idctDef m (rd c) j) :
    ∀ c : Array ℝ, ∀ j < 2 * m, rd (istep (2 * m) rec c) j = idctDef (2 * m) (rd c) j := by
  intro c j hj
  rw [idctDef_eq_S _ (by omega)]
  refine istep_computes m hm rec ?_ c j hj
  intro c j hj
  rw [hrec c j hj, idctDef_eq_S _ hm]

/-- **Headline.** For every `k`, every coefficient vector `c` and every sample position
`j < 2^k`, the recursive inverse DCT of `generic/dct.rs` equals the definition. -/
theorem C16_idct_rec_eq_def (k : ℕ) (c : Array ℝ) (j : ℕ) (hj : j < 2 ^ k) :
    rd (idct k c) j = idctDef (2 ^ k) (rd c) j := by
  rw [idctDef_eq_S _ (by positivity)]
  exact idct_computes k c j hj

/-- The same with the definition spelled out in Mathlib terms (no model vocabulary on the right). -/
theorem C16_idct_rec_eq_cosine_sum (k : ℕ) (c : Array ℝ) (j : ℕ) (hj : j < 2 ^ k) :
    rd (idct k c) j =
      rd c 0 + √2 * ∑ n ∈ range (2 ^ k - 1),
        rd c (n + 1) * Real.cos (((n + 1 : ℕ) : ℝ) * ((2 * j + 1) * π / (2 * (2 ^ k : ℕ)))) := by
  rw [idct_computes k c j hj]
  have hpos : 0 < 2 ^ k := by positivity
  generalize 2 ^ k = N at hpos ⊢
  obtain ⟨M, rfl⟩ : ∃ M, N = M + 1 := ⟨N - 1, by omega⟩
  rw [S, Finset.sum_range_succ', Nat.add_sub_cancel, Finset.mul_sum, add_comm]
  congr 1
  · simp [wt]
  · apply Finset.sum_congr rfl
    intro n _
    have hw : wt (n + 1) = √2 := by simp [wt]
    rw [hw, theta]; ring

/-- One forward recursion level (butterfly, `sec_half` scaling, two recursive calls, `√2`, pairwise
sums, interleave). -/
theorem C16_fdct_step (m : ℕ) (hm : 0 < m) (rec : Array ℝ → Array ℝ)
    (hrec : ∀ x : Array ℝ, ∀ n < m, rd (rec x) n = fdctDef m (rd x) n) :
    ∀ x : Array ℝ, ∀ n < 2 * m, rd (fstep (2 * m) rec x) n = fdctDef (2 * m) (rd x) n := by
  intro x n hn
  rw [fdctDef_eq_F]
  refine fstep_computes m hm rec ?_ x n hn
  intro x n hn
  rw [hrec x n hn, fdctDef_eq_F]

/-- The recursive forward DCT equals its definition, for every power-of-two length. -/
theorem C16_fdct_rec_eq_def (k : ℕ) (x : Array ℝ) (n : ℕ) (hn : n < 2 ^ k) :
    rd (fdct k x) n = fdctDef (2 ^ k) (rd x) n := by
  rw [fdctDef_eq_F]
  exact fdct_computes k x n hn

/-- The transposes cancel — for **any** scalar type and both directions: on a `2^a × 2^b` block with
`a, b ≥ 2` the driver `dct_2d` is the row pass followed by the column pass. -/
theorem C16_dct2d_transposes_cancel {α : Type} [Scalar α] (dir : Dir) (g : Grid α) (a b : ℕ)
    (ha : 2 ≤ a) (hb : 2 ≤ b) (hw : g.w = 2 ^ a) (hh : g.h = 2 ^ b)
    (x y : ℕ) (hx : x < g.w) (hy : y < g.h) :
    (dct2d dir g).rd x y = (colPass dir (rowPass dir g)).rd x y :=
  dct2d_separable_pow2 dir g a b ha hb hw hh x y hx hy

/-- The 2-D driver with all its special cases equals the separable definition on every
power-of-two shape, in both directions. -/
theorem C16_dct2d_eq_def (g : Grid ℝ) (a b : ℕ) (hw : g.w = 2 ^ a) (hh : g.h = 2 ^ b)
    (x y : ℕ) (hx : x < g.w) (hy : y < g.h) :
    (dct2d .inverse g).rd x y = (idct2dDef g).rd x y ∧
    (dct2d .forward g).rd x y = (fdct2dDef g).rd x y := by
  rw [dct2d_def .inverse g a b hw hh x y hx hy, dct2d_def .forward g a b hw hh x y hx hy,
    idct2dDef_eq_D2 g x y hx hy, fdct2dDef_eq_D2 g x y hx hy]
  exact ⟨rfl, rfl⟩

/-- LF injection: the LLF coefficients the code computes (forward `dct_2d` of the LF samples,
divided by `scale_f(y)·scale_f(x)`; plain copy for a single sample) are the definition. -/
theorem C16_lf_injection_spec (lf : Grid ℝ) (a b : ℕ) (hw : lf.w = 2 ^ a) (hh : lf.h = 2 ^ b)
    (x y : ℕ) (hx : x < lf.w) (hy : y < lf.h) :
    (llfFromLf lf).rd x y = (llfDef lf).rd x y :=
  llfFromLf_eq_def lf a b hw hh x y hx hy

/-- A whole DCT-family varblock (LF injection, then inverse `dct_2d`) equals its definition
(`varblockDef`: LLF by the forward cosine sums, then the inverse cosine sums along rows and columns),
for every power-of-two LF shape and block shape — in particular for the 18 DCT types. -/
theorem C16_varblock_dct_eq_def (lf coeff : Grid ℝ) (a b a' b' : ℕ)
    (hlw : lf.w = 2 ^ a') (hlh : lf.h = 2 ^ b') (hw : coeff.w = 2 ^ a) (hh : coeff.h = 2 ^ b)
    (x y : ℕ) (hx : x < coeff.w) (hy : y < coeff.h) :
    (varblockDct lf coeff).rd x y = (varblockDef lf coeff).rd x y :=
  varblockDct_eq_def lf coeff a b a' b' hlw hlh hw hh x y hx hy

/- Full statement planned in the design (`sec_table_small_correct`): every entry of
`SEC_HALF_SMALL` for n = 4, 8, 16, 32 is within f32 rounding of `secHalf n i`. Proved: n = 4 only
(closed forms `cos(π/8) = √(2+√2)/2`, `sin(π/8) = √(2-√2)/2` and rational bounds on `√2`); n = 8..32 need
bounds on `cos(kπ/64)` that were not built. The other tables are compared numerically in the run. -/
/-- The two entries of `sec_half(4)` and their single-precision copies in `dct4` / the SSE kernels
are the exact secant values up to 2·10⁻¹⁰ resp. 10⁻⁷. -/
theorem C16_sec_table_n4_correct_partial :
    |(secHalf 4 0 : ℝ) - 0.541196100146197| < 2e-10 ∧
    |(secHalf 4 1 : ℝ) - 1.3065629648763764| < 2e-10 ∧
    |(secHalf 4 0 : ℝ) - 0.5411961| < 1e-7 ∧
    |(secHalf 4 1 : ℝ) - 1.306563| < 1e-7 := by
  obtain ⟨a1, a2⟩ := sec4_0_bounds
  obtain ⟨b1, b2⟩ := sec4_1_bounds
  refine ⟨?_, ?_, ?_, ?_⟩ <;> rw [abs_lt] <;> constructor <;> norm_num <;> linarith

/-! Non-vacuity: concrete inputs meeting the hypotheses. -/
example : (5 : ℕ) < 2 ^ 3 ∧
    rd (idct 3 (#[3, 0, 0, -1, 0, 0.3, 0.2, 0] : Array ℝ)) 5 =
      idctDef 8 (rd (#[3, 0, 0, -1, 0, 0.3, 0.2, 0] : Array ℝ)) 5 :=
  ⟨by norm_num, C16_idct_rec_eq_def 3 _ 5 (by norm_num)⟩

example (a b : ℝ) : rd (idct 1 #[a, b]) 1 = a - b := rfl

/-- a Dct16x8-shaped block (8 wide, 16 high, LF 1 × 2) satisfies the hypotheses of the varblock
theorem -/
example (lf coeff : Array ℝ) :
    (varblockDct ⟨1, 2, lf⟩ ⟨8, 16, coeff⟩).rd 7 15 = (varblockDef ⟨1, 2, lf⟩ ⟨8, 16, coeff⟩).rd 7 15 :=
  C16_varblock_dct_eq_def ⟨1, 2, lf⟩ ⟨8, 16, coeff⟩ 3 4 0 1 rfl rfl rfl rfl 7 15 (by norm_num)
    (by norm_num)

example : (dirMul Dir.forward : ℝ) = 1 / 2 := rfl

end Jxl.Dct
