import JxlModel.Proofs.Container
import JxlModel.Proofs.AuxBox
/-!
# C10 — container framing

Property theorems about the model of `ContainerBoxHeader::parse` and the `ContainerParser` state
machine (`Model/Container.lean`, which mirrors the code **with the F1 repair applied**).
They quantify over every byte string, every parser state, every split of the input into
successive `feed_bytes` calls (the caller re-offers what was not consumed, as the API demands) and
every container file of the `Spec` type.

"Concatenation-normalised event stream" = `toks events`: the events with every `Codestream` /
`AuxBoxData` payload flattened to one token per byte (`C10_normal_form_canonical`: equal flattenings
⇔ equal event lists after merging adjacent data events and dropping empty ones).

Brotli is outside the parser layer: a `brob` box is delivered as inner type + raw compressed
payload.  The second half of this file (`namespace Jxl.AuxBox`, theorems `C10_aux_*`) is about the
layer above, `AuxBoxList` as driven by `JxlImage::feed_bytes / finalize / read`
(`Model/AuxBox.lean`), where Brotli and the jbrd data enter as the parameter `Codec`.

## F1 (genuine defect of the unrepaired code, DESIGN §8)
`parseHeaderOld` is the header parser as it was: with 8..15 bytes of a 64-bit header available it
answers `invalid` instead of `needMore`, so a split of the input inside such a header turns a valid
file into `Error::InvalidBox` (`C10_F1_old_code_witness`; replayed on the real code by
`corpus/C10/00_f1_xlbox_header_split.hex`, every 2-way split at offsets 20..27 of that 31-byte
file).  The repair is one match arm in `box_header.rs` (`[0, 0, 0, 1, ..] => NeedMoreData`).
-/
namespace Jxl.Container
open Spec

/-! ## (a) box header -/

/-- Parse ∘ serialise = id for all three size forms (32-bit, 64-bit, to-end-of-file), whatever
follows the header; the reported header size is the number of bytes written. -/
theorem C10_header_roundtrip (ty : Bytes) (hty : ty.length = 4) (n : Nat) (e : Enc)
    (hfit : fits n e) (rest : Bytes) :
    parseHeader (serHeader ty n e ++ rest) =
      .done ⟨ty, if e = .toEof then none else some n⟩ (serHeader ty n e).length :=
  header_roundtrip ty hty n e hfit rest

/-- Every proper prefix of a serialised header (8- or 16-byte form) asks for more data. This is
the statement that fails for the unrepaired code (F1). -/
theorem C10_header_prefix_needs_more_data (ty : Bytes) (hty : ty.length = 4) (n : Nat) (e : Enc)
    (rest : Bytes) (k : Nat) (hk : k < (serHeader ty n e).length) :
    parseHeader ((serHeader ty n e ++ rest).take k) = .needMore :=
  header_prefix_needMore ty hty n e rest k hk

/-- Once the header parser answers (done or invalid) more bytes never change the answer. -/
theorem C10_header_answer_stable (a b : Bytes) (h : parseHeader a ≠ .needMore) :
    parseHeader (a ++ b) = parseHeader a :=
  parseHeader_append a b h

/-- Witness of F1 on the code before the repair: 9 bytes of the 16-byte header of a box "abcd"
with 64-bit size 19 — the old parser rejects, the repaired one waits; and the old parser is *not*
stable under extension (it accepts the complete header). -/
theorem C10_F1_old_code_witness :
    let hdr := serHeader [0x61, 0x62, 0x63, 0x64] 3 .long
    parseHeaderOld (hdr.take 9) = .invalid ∧ parseHeader (hdr.take 9) = .needMore ∧
    parseHeaderOld hdr = .done ⟨[0x61, 0x62, 0x63, 0x64], some 3⟩ 16 := by decide

/-! ## (b) chunking invariance -/

/-- 2-way split, from any parser state: feeding `a ++ b` in one call is indistinguishable from
feeding `a`, then (unless that failed) the unconsumed tail of `a` followed by `b` — same
normalised events, same final state, same unconsumed bytes, same error. -/
theorem C10_events_chunking_invariant_2way (s : PState) (a b : Bytes) :
    let r := feed s a
    let w := feed s (a ++ b)
    match r.error with
    | some e => toks w.events = toks r.events ∧ w.error = some e
    | none =>
      let r' := feed r.state (r.rest ++ b)
      toks w.events = toks r.events ++ toks r'.events ∧ w.state = r'.state ∧ w.rest = r'.rest ∧
        w.error = r'.error := by
  have h := feed_append b s a
  unfold thenFeed at h
  cases he : (feed s a).error with
  | some e => simp only [he] at h ⊢; exact ⟨h.1, h.2.2.2⟩
  | none => simp only [he] at h ⊢; exact ⟨by rw [h.1, toks_append], h.2.1, h.2.2.1, h.2.2.2⟩

/-- Any chunking, from any parser state: the normalised event stream, the error (if any), the
final state and (without error) the bytes still unconsumed are those of feeding the whole
buffer at once. -/
theorem C10_events_chunking_invariant (s : PState) (chunks : List Bytes) :
    let r := feedChunks s [] chunks
    let w := feed s chunks.flatten
    toks r.events = toks w.events ∧ r.error = w.error ∧ r.state = w.state ∧
      (r.error = none → r.rest = w.rest) := by
  cases chunks with
  | nil => simp [feedChunks, feed_nil]
  | cons c cs => simpa [FeedResult.same] using feedChunks_same cs s [] c

/-- The flattening is a faithful normal form: two event streams have the same flattening iff they
are equal after merging adjacent data events of the same box and dropping empty ones. -/
theorem C10_normal_form_canonical (a b : List Event) :
    toks a = toks b ↔ normalize a = normalize b :=
  toks_eq_iff_normalize_eq a b

/-- Chunking invariance stated on merged event lists: after merging adjacent `Codestream` /
`AuxBoxData` events and dropping empty ones, the events produced by any chunking are literally
those produced by one `feed_bytes` call on the whole buffer. -/
theorem C10_events_chunking_invariant_merged (s : PState) (chunks : List Bytes) :
    normalize (feedChunks s [] chunks).events = normalize (feed s chunks.flatten).events :=
  (C10_normal_form_canonical _ _).mp (C10_events_chunking_invariant s chunks).1

/-! ## (c) well-formed files are delivered exactly -/

/-- For every well-formed file and every chunking of its bytes: no error, everything consumed,
and the event stream is exactly `kind container` followed by the Spec's expected tokens. -/
theorem C10_wellformed_events_exact (bs : List Box) (hwf : wf bs = true) (chunks : List Bytes)
    (hc : chunks.flatten = serFile bs) :
    let r := feedChunks init [] chunks
    r.error = none ∧ r.rest = [] ∧ toks r.events = Tok.kind .container :: expected bs := by
  simp only [wf, Bool.and_eq_true] at hwf
  have hf := feed_file bs hwf.1
  obtain ⟨c1, c2, _, c4⟩ := C10_events_chunking_invariant init chunks
  rw [hc] at c1 c2 c4
  cases hq : seqFrom .initial bs with
  | none => rw [hq] at hwf; simp at hwf
  | some jx =>
    simp only [hq] at hf
    refine ⟨by rw [c2]; exact hf.1, ?_, by rw [c1]; exact hf.2.2⟩
    rw [c4 (by rw [c2]; exact hf.1)]; exact hf.2.1

/-- The codestream events concatenate to exactly the `jxlc`/`jxlp` payloads in file order. -/
theorem C10_codestream_exact (bs : List Box) (hwf : wf bs = true) (chunks : List Bytes)
    (hc : chunks.flatten = serFile bs) :
    codestreamOf (toks (feedChunks init [] chunks).events) = codestream bs := by
  rw [(C10_wellformed_events_exact bs hwf chunks hc).2.2]
  simp [codestreamOf, expected, codestreamOf_expectedM]

/-- Every auxiliary box is delivered with its type, its compression flag and its exact raw
payload, in file order (for `brob`: inner type and the compressed bytes). -/
theorem C10_aux_boxes_exact (bs : List Box) (hwf : wf bs = true) (chunks : List Bytes)
    (hc : chunks.flatten = serFile bs) :
    auxOf (toks (feedChunks init [] chunks).events) = aux bs := by
  rw [(C10_wellformed_events_exact bs hwf chunks hc).2.2]
  simp [auxOf, expected, auxOf_expectedM]

/-- The same holds for a well-formed box list followed by arbitrary further bytes `t` (e.g. a
truncated next box), from any sequence state: exactly the expected tokens, then the parser
continues on `t` at a box boundary. -/
theorem C10_wellformed_prefix_exact (jx jx' : JxlpState) (bs : List Box) (t : Bytes)
    (hs : shapeOk bs = true) (ht : t ≠ [] → ∀ b ∈ bs, b.enc ≠ .toEof)
    (hq : seqFrom jx bs = some jx') :
    let r := feed ⟨.waitingBoxHeader, jx⟩ (serBoxes bs ++ t)
    let r' := feed ⟨.waitingBoxHeader, jx'⟩ t
    toks r.events = expectedM (!t.isEmpty) bs ++ toks r'.events ∧ r.error = r'.error ∧
      r.rest = r'.rest := by
  have := feed_boxes t bs jx hs ht
  simp only [hq] at this
  exact this

/-! ## (d) ill-formed layouts are rejected -/

/-- Boxes that are individually representable but violate the codestream-box discipline
(duplicate `jxlc`, `jxlc` after `jxlp` or vice versa, `jxlp` index not starting at 0 / skipped /
repeated, `jxlp` after the final one): `Error::InvalidBox`, for every chunking. -/
theorem C10_ill_formed_sequence_rejected (bs : List Box) (hs : shapeOk bs = true)
    (hq : seqFrom .initial bs = none) (chunks : List Bytes) (hc : chunks.flatten = serFile bs) :
    (feedChunks init [] chunks).error = some .invalidBox := by
  have hf := feed_file bs hs
  simp only [hq] at hf
  rw [(C10_events_chunking_invariant init chunks).2.1, hc]; exact hf

/-- A well-formed run of sized boxes followed by an undersized box (32-bit size field 2..7, 64-bit
size < 16, `jxlp` payload < 4, `brob` payload < 4): `Error::InvalidBox`, for every chunking. -/
theorem C10_undersized_rejected (pre : List Box) (t : Bytes) (hs : shapeOk pre = true)
    (hsz : ∀ b ∈ pre, b.enc ≠ .toEof) (hq : (seqFrom .initial pre).isSome) (hu : Undersized t)
    (chunks : List Bytes) (hc : chunks.flatten = contSig ++ (serBoxes pre ++ t)) :
    (feedChunks init [] chunks).error = some .invalidBox := by
  rw [(C10_events_chunking_invariant init chunks).2.1, hc, feed_of_cont (step_init_container _)]
  cases hj : seqFrom .initial pre with
  | none => rw [hj] at hq; simp at hq
  | some jx' =>
    have := C10_wellformed_prefix_exact .initial jx' pre t hs (fun _ => hsz) hj
    simp only at this ⊢
    rw [this.2.1]; exact undersized_err jx' t hu

/-- A `brob` box whose inner type is reserved (`jxl?`, `brob`, `jbrd`) after a well-formed run of
sized boxes: `Error::ValidationFailed`, for every chunking. -/
theorem C10_brob_reserved_rejected (pre : List Box) (hs : shapeOk pre = true)
    (hsz : ∀ b ∈ pre, b.enc ≠ .toEof) (hq : (seqFrom .initial pre).isSome)
    (n : Nat) (e : Enc) (inner rest : Bytes) (hin : inner.length = 4)
    (hres : reservedInner inner = true) (hf : fits n e) (hn : e = .toEof ∨ 4 ≤ n)
    (chunks : List Bytes)
    (hc : chunks.flatten = contSig ++ (serBoxes pre ++ (serHeader tyBrob n e ++ (inner ++ rest)))) :
    (feedChunks init [] chunks).error = some .validationFailed := by
  rw [(C10_events_chunking_invariant init chunks).2.1, hc, feed_of_cont (step_init_container _)]
  cases hj : seqFrom .initial pre with
  | none => rw [hj] at hq; simp at hq
  | some jx' =>
    have := C10_wellformed_prefix_exact .initial jx' pre (serHeader tyBrob n e ++ (inner ++ rest)) hs
      (fun _ => hsz) hj
    simp only at this ⊢
    rw [this.2.1]; exact brob_reserved_err jx' n e inner rest hin hres hf hn

/-! ## (e) consumption and progress -/

/-- What a call leaves unconsumed is a suffix of what it was offered:
`previous_consumed_bytes ≤ input.len()` and `rest = input[consumed..]`. -/
theorem C10_consumed_le_input (s : PState) (buf : Bytes) :
    consumed buf (feed s buf) ≤ buf.length ∧
      (feed s buf).rest = buf.drop (consumed buf (feed s buf)) := by
  obtain ⟨k, hk⟩ := feed_rest_drop s buf
  refine ⟨Nat.sub_le _ _, ?_⟩
  unfold consumed
  rw [hk, List.length_drop]
  by_cases h : k ≤ buf.length
  · congr 1; omega
  · rw [List.drop_of_length_le (by omega), List.drop_of_length_le (by omega)]

/-- Progress measure: every iteration of `emit_single` that does not return `Ok(None)`/`Err`
strictly decreases `4·|buffer| + rank(state)`; hence the loop terminates, and the model's fuel is
never exhausted: a run always ends in an error or in a state where the next step is `Ok(None)`. -/
theorem C10_progress_measure (s : PState) (buf : Bytes) :
    (∀ ev s' rest, step s buf = .cont ev s' rest → measure s' rest < measure s buf) ∧
    ((feed s buf).error = none → step (feed s buf).state (feed s buf).rest = .stop) :=
  ⟨fun ev s' rest h => (step_cont s buf ev s' rest h).1, feed_final_stop s buf⟩

/-- No livelock: a call that reports no error, consumes nothing and emits nothing left the parser
untouched, and this happens only when fewer than 16 bytes were on offer (the parser is waiting
for a signature, a box header, a jxlp index or a brob inner type). -/
theorem C10_no_livelock (s : PState) (buf : Bytes) (he : (feed s buf).error = none)
    (hc : consumed buf (feed s buf) = 0) (hev : (feed s buf).events = []) :
    (feed s buf).state = s ∧ buf.length < 16 := by
  have hl := feed_rest_length_le s buf
  have hstop := feed_idle s buf he (by unfold consumed at hc; omega) hev
  exact ⟨by rw [feed_of_stop hstop], step_stop_short s buf hstop⟩

/-- The two panic sites of the parser (`unreachable!` in `WaitingJxlpIndex`, `usize` underflow of
`bytes_left -= 4` / `box_size - 4`) are unreachable from `ContainerParser::new()` whatever is
fed in whatever chunks. -/
theorem C10_no_panic (chunks : List Bytes) (e : Err)
    (h : (feedChunks init [] chunks).error = some e) :
    e = .invalidBox ∨ e = .validationFailed := by
  have := (feedChunks_inv chunks init [] inv_init).2 e h
  cases e <;> simp_all [Err.isPanic]

/-! ## Non-vacuity -/

/-- ftyp, a 64-bit-sized jxlp, a brob(Exif), the final jxlp, an xml box running to end of file -/
def exFile : List Box :=
  [.aux [0x66, 0x74, 0x79, 0x70] [1, 2] .short,
   .jxlp 0 false [0xff, 0x0a, 7] .long,
   .brob [0x45, 0x78, 0x69, 0x66] [9, 9, 9] .short,
   .jxlp 1 true [8, 9] .short,
   .aux [0x78, 0x6d, 0x6c, 0x20] [5] .toEof]

/-- hypotheses of (c) hold for `exFile`; 83 bytes; the delivered codestream is `ff 0a 07 08 09` -/
example : wf exFile = true ∧ (serFile exFile).length = 83 ∧
    codestream exFile = [0xff, 0x0a, 7, 8, 9] ∧
    aux exFile = [⟨[0x66, 0x74, 0x79, 0x70], false, [1, 2]⟩, ⟨[0x45, 0x78, 0x69, 0x66], true, [9, 9, 9]⟩,
      ⟨[0x78, 0x6d, 0x6c, 0x20], false, [5]⟩] := by decide

/-- the model run on `exFile` split inside the 64-bit header really produces that codestream -/
example :
    codestreamOf (toks (feedChunks init [] [(serFile exFile).take 30, (serFile exFile).drop 30]).events)
      = [0xff, 0x0a, 7, 8, 9] := by decide +kernel

/-- hypotheses of (d): second jxlp repeats index 0; a jxlc after a jxlp; both shape-correct -/
example : shapeOk [Box.jxlp 0 false [1] .short, .jxlp 0 true [2] .short] = true ∧
    seqFrom .initial [Box.jxlp 0 false [1] .short, .jxlp 0 true [2] .short] = none ∧
    seqFrom .initial [Box.jxlp 0 true [1] .short, .jxlc [2] .long] = none := by decide

example : Undersized (beEnc 4 7 ++ [0x61, 0x62, 0x63, 0x64] ++ [1, 2, 3]) :=
  .sizeField 7 _ _ (by decide) (by decide) rfl

example : Undersized (serHeader tyJxlp 3 .short ++ [0, 0, 0]) :=
  .jxlpSmall 3 .short _ (by decide) (by decide) (by simp [fits])

example : reservedInner tyJxlc = true ∧ reservedInner tyJbrd = true ∧
    reservedInner [0x45, 0x78, 0x69, 0x66] = false := by decide

/-- (e): a stalled call exists (7 bytes of a header) and a progressing one does -/
example : (feed ⟨.waitingBoxHeader, .initial⟩ [0, 0, 0, 1, 0x61, 0x62, 0x63]).rest.length = 7 ∧
    consumed (serFile exFile) (feed init (serFile exFile)) = 83 := by decide +kernel

end Jxl.Container

/-! # The auxiliary box list behind `JxlImage::aux_boxes()` (`Model/AuxBox.lean`)

`Sess.run c chunks` = `build_uninit()`, one `feed_bytes(leftover ++ chunk)` per chunk (stopping at
the first error), `finalize()`.  `c : Codec` = Brotli decompression and the jbrd acceptance test,
both arbitrary (every theorem holds for every `c`).  `deliverAll c St.init (aux bs)` = the
specification: the file's auxiliary boxes in file order, each with its type and its payload
(decompressed with `c.decompress` for `brob` boxes), `jbrd` boxes routed to the reconstruction
data. -/
namespace Jxl.AuxBox
open Jxl.Container Jxl.Container.Spec

/-! ## (f) complete files -/

/-- For every well-formed container file and every chunking of its bytes, feeding everything and
calling `finalize()` ends — for sized and to-end-of-file final boxes alike — with exactly the
specified list: nothing open, `last_box` set, nothing left to re-offer; and if the specification
fails (a `brob` payload that does not decompress, jbrd data that is not accepted) the session
fails with that error (never a panic), whatever the chunking. -/
theorem C10_aux_list_exact (c : Codec) (bs : List Box) (hwf : wf bs = true) (chunks : List Bytes)
    (hc : chunks.flatten = serFile bs) :
    match deliverAll c St.init (aux bs) with
    | .ok a => ∃ s, Sess.run c chunks = .ok s ∧ s.a = { a with lastBox := true } ∧ s.pending = []
    | .error e => Sess.run c chunks = .error (.aux e) ∧ e ≠ .panic := by
  have h := run_file c bs hwf chunks hc
  cases hd : deliverAll c St.init (aux bs) with
  | ok a => rw [hd] at h; exact ⟨_, h, rfl, rfl⟩
  | error e => rw [hd] at h; exact ⟨h, deliverAll_not_panic c _ _ e hd⟩

/-- What the specified list is: the non-jbrd boxes in file order with type and decoded payload,
every one of them decodable; nothing is left open. -/
theorem C10_aux_delivered_boxes (c : Codec) (l : List AuxBox) (a : St)
    (h : deliverAll c St.init l = .ok a) :
    a.boxes = (l.filter (fun b => b.ty != tyJbrd)).map
        (fun b => (b.ty, Finished.raw ((decodedPayload c b).getD []))) ∧
      (∀ b ∈ l, b.ty ≠ tyJbrd → (decodedPayload c b).isSome = true) ∧
      a.curTy = none ∧ a.cur = .init := by
  obtain ⟨h1, h2, h3, h4⟩ := deliverAll_boxes c l St.init a h
  exact ⟨by simpa [deliveredList, St.init] using h1, h4, h2, h3⟩

/-- `first_of_type` after `finalize()`: the decoded payload of the first box of that type in the
file, `NotFound` if the file has none — never `Decoding`. -/
theorem C10_aux_first_of_type_exact (c : Codec) (bs : List Box) (hwf : wf bs = true)
    (chunks : List Bytes) (hc : chunks.flatten = serFile bs) (a : St)
    (hd : deliverAll c St.init (aux bs) = .ok a) (ty : Bytes) (hty : ty ≠ tyJbrd) :
    ∃ s, Sess.run c chunks = .ok s ∧
      firstOfType s.a ty =
        match (aux bs).find? (fun b => b.ty == ty) with
        | some b => .data ((decodedPayload c b).getD [])
        | none => .notFound := by
  have h := C10_aux_list_exact c bs hwf chunks hc
  rw [hd] at h
  obtain ⟨s, h1, h2, _⟩ := h
  refine ⟨s, h1, ?_⟩
  obtain ⟨b1, b2, _, _⟩ := deliverAll_boxes c (aux bs) St.init a hd
  have hfind := find_deliveredList c ty hty (aux bs)
  simp only [firstOfType, h2, b1, St.init, List.nil_append, hfind, b2]
  cases (aux bs).find? (fun b => b.ty == ty) with
  | none => simp
  | some b => simp [Finished.data]

/-- `RawExif::new` accepts exactly the boxes with a 4-byte offset field and an offset inside the
payload, and returns that offset and the bytes after the field. -/
theorem C10_aux_exif_validation (box : Bytes) (off : Nat) (p : Bytes) :
    rawExif box = some (off, p) ↔
      4 ≤ box.length ∧ off = beNat (box.take 4) ∧ p = box.drop 4 ∧ off < p.length := by
  unfold rawExif
  constructor
  · intro h
    split at h
    · cases h
    · split at h
      · cases h
      · cases h; exact ⟨by omega, rfl, rfl, by omega⟩
  · rintro ⟨h1, h2, h3, h4⟩
    subst h2 h3
    rw [if_neg (by omega), if_neg (by omega)]

/-- `first_exif()` after `finalize()`: the first `Exif` box of the file (plain or `brob`), decoded
and validated; `NotFound` without one. -/
theorem C10_aux_first_exif_exact (c : Codec) (bs : List Box) (hwf : wf bs = true)
    (chunks : List Bytes) (hc : chunks.flatten = serFile bs) (a : St)
    (hd : deliverAll c St.init (aux bs) = .ok a) :
    ∃ s, Sess.run c chunks = .ok s ∧
      firstExif s.a =
        match (aux bs).find? (fun b => b.ty == tyExif) with
        | some b => (rawExif ((decodedPayload c b).getD [])).map .data
        | none => some .notFound := by
  obtain ⟨s, h1, h2⟩ := C10_aux_first_of_type_exact c bs hwf chunks hc a hd tyExif (by decide)
  refine ⟨s, h1, ?_⟩
  unfold firstExif
  rw [h2]
  cases (aux bs).find? (fun b => b.ty == tyExif) <;> rfl

/-- `first_xml()` after `finalize()`. -/
theorem C10_aux_first_xml_exact (c : Codec) (bs : List Box) (hwf : wf bs = true)
    (chunks : List Bytes) (hc : chunks.flatten = serFile bs) (a : St)
    (hd : deliverAll c St.init (aux bs) = .ok a) :
    ∃ s, Sess.run c chunks = .ok s ∧
      firstXml s.a =
        match (aux bs).find? (fun b => b.ty == tyXml) with
        | some b => .data ((decodedPayload c b).getD [])
        | none => .notFound :=
  C10_aux_first_of_type_exact c bs hwf chunks hc a hd tyXml (by decide)

/-! ## (g) every byte string: the chunking does not matter, `read()` is a feed -/

/-- For every byte string (well-formed or not) and every chunking, the session — list, parser
state, bytes to re-offer, or the error — is that of one `feed_bytes` call on the whole buffer. -/
theorem C10_aux_chunking_invariant (c : Codec) (chunks : List Bytes) :
    Sess.run c chunks = Sess.run c [chunks.flatten] := by
  have key : Sess.init.pushAll c chunks = Sess.init.pushAll c [chunks.flatten] := by
    cases chunks with
    | nil => simp [Sess.pushAll, Sess.push, Sess.init, feed_nil, runEvents]
    | cons c0 cs =>
      rw [pushAll_eq, pushAll_eq]
      have h1 := feedChunks_same cs Sess.init.p Sess.init.pending c0
      have h2 := feedChunks_same [] Sess.init.p Sess.init.pending (c0 :: cs).flatten
      simp only [List.flatten_cons, List.flatten_nil, List.append_nil] at h1 h2 ⊢
      exact sessOf_same c _ _ _ _ h1 h2 (feedChunks_noEmpty _ _ _) (feedChunks_noEmpty _ _ _)
  simp only [Sess.run, key]

/-- `JxlImage::builder().read(file)` (4096-byte refill loop, then `finalize()`) gives, for every
byte string, the result of feeding the whole file in one call and finalising. -/
theorem C10_aux_read_eq_whole (c : Codec) (file : Bytes) : read c file = Sess.run c [file] := by
  obtain ⟨chunks, e1, e2⟩ := read_eq_run c file
  rw [e2, C10_aux_chunking_invariant, e1]

/-- Hence `read()` of a well-formed file ends with exactly the specified list. -/
theorem C10_aux_read_exact (c : Codec) (bs : List Box) (hwf : wf bs = true) :
    match deliverAll c St.init (aux bs) with
    | .ok a => ∃ s, read c (serFile bs) = .ok s ∧ s.a = { a with lastBox := true } ∧ s.pending = []
    | .error e => read c (serFile bs) = .error (.aux e) ∧ e ≠ .panic := by
  rw [C10_aux_read_eq_whole]
  exact C10_aux_list_exact c bs hwf [serFile bs] (by simp)

/-! ## (h) before `finalize()` -/

/-- An answer `Data` never changes: whatever is fed afterwards (any bytes, any chunks) and through
`finalize()`, `first_of_type` keeps returning the same bytes. -/
theorem C10_aux_data_stable (c : Codec) (m : Sess) (post : List Bytes) (ty d : Bytes)
    (h : firstOfType m.a ty = .data d) (s : Sess) (hs : Sess.pushAll c m post = .ok s) :
    firstOfType s.a ty = .data d ∧ ∀ f, s.finalize c = .ok f → firstOfType f.a ty = .data d := by
  obtain ⟨p, hp, hpd⟩ := firstOfType_data_found m.a ty d h
  have h1 := pushAll_boxes_prefix c post m s hs
  refine ⟨by rw [firstOfType_of_prefix m.a s.a ty h1 p hp, hpd], ?_⟩
  intro f hf
  have h2 := finalize_sess_boxes_prefix c s f hf
  rw [firstOfType_of_prefix m.a f.a ty (List.IsPrefix.trans h1 h2) p hp, hpd]

/-- Well-formed file, any chunking, any point between two chunks: a definite answer given early
(`Data d` or `NotFound`) is the answer after `finalize()` — which `C10_aux_first_of_type_exact`
shows to be the right one.  So before the end a box that is still arriving, or may still come, is
reported `Decoding`: never wrong data, never a premature `NotFound`. -/
theorem C10_aux_early_answer_final (c : Codec) (bs : List Box) (hwf : wf bs = true)
    (pre post : List Bytes) (hc : (pre ++ post).flatten = serFile bs) (m f : Sess)
    (hm : Sess.init.pushAll c pre = .ok m) (hf : Sess.run c (pre ++ post) = .ok f) (ty : Bytes) :
    (∀ d, firstOfType m.a ty = .data d → firstOfType f.a ty = .data d) ∧
      (firstOfType m.a ty = .notFound → firstOfType f.a ty = .notFound) := by
  simp only [Sess.run, pushAll_append, hm] at hf
  cases hs2 : Sess.pushAll c m post with
  | error e => rw [hs2] at hf; cases hf
  | ok s2 =>
    rw [hs2] at hf
    simp only at hf
    refine ⟨fun d hd => (C10_aux_data_stable c m post ty d hd s2 hs2).2 f hf, ?_⟩
    intro hnf
    -- tokens seen so far and tokens to come
    have e1 := pushAll_eq c pre Sess.init
    rw [hm] at e1
    obtain ⟨r1e, r1ev, r1p, r1r⟩ := sessOf_ok c _ _ m e1.symm
    have e2 := pushAll_eq c post m
    rw [hs2] at e2
    obtain ⟨_, r2ev, _, _⟩ := sessOf_ok c _ _ s2 e2.symm
    have happ := feedChunks_append pre post Sess.init.p Sess.init.pending
    rw [r1e] at happ
    simp only at happ
    have hex := (C10_wellformed_events_exact bs hwf (pre ++ post) hc).2.2
    simp only [Sess.init] at happ r1ev r1p r1r
    rw [happ] at hex
    simp only [toks_append] at hex
    rw [runEvents_eq_runToks c _ _ (feedChunks_noEmpty _ _ _)] at r1ev
    rw [runEvents_eq_runToks c _ _ (feedChunks_noEmpty _ _ _), r1p, r1r] at r2ev
    have hshape : shapeOk bs = true := by
      simp only [wf, Bool.and_eq_true] at hwf; exact hwf.1
    have htail : lastTail (Tok.kind .container :: expected bs) := lastTail_expected bs hshape
    rw [← hex] at htail
    have hsafe0 : Safe St.init
        (toks (feedChunks Container.init [] pre).events ++
          toks (feedChunks (feedChunks Container.init [] pre).state
            (feedChunks Container.init [] pre).rest post).events) := by
      intro hl; cases hl
    obtain ⟨hsafe, _⟩ := safe_run c _ St.init m.a _ hsafe0 htail r1ev
    apply notFound_final c m.a f.a _ ty hsafe hnf
    rw [r2ev]
    simp only [andThen_ok]
    unfold Sess.finalize at hf
    cases he : eof c s2.a with
    | error x => rw [he] at hf; cases hf
    | ok a' => rw [he] at hf; cases hf; rfl

/-- In particular: as long as the first box of a type that the file does contain is not finished,
`first_of_type` says `Decoding`. -/
theorem C10_aux_arriving_box_decoding (c : Codec) (bs : List Box) (hwf : wf bs = true)
    (pre post : List Bytes) (hc : (pre ++ post).flatten = serFile bs) (m : Sess) (a : St)
    (hm : Sess.init.pushAll c pre = .ok m) (hd : deliverAll c St.init (aux bs) = .ok a)
    (ty : Bytes) (hty : ty ≠ tyJbrd) (b : AuxBox)
    (hb : (aux bs).find? (fun b => b.ty == ty) = some b)
    (hnone : m.a.boxes.find? (fun p => p.1 == ty) = none) :
    firstOfType m.a ty = .decoding := by
  obtain ⟨f, hf, hans⟩ := C10_aux_first_of_type_exact c bs hwf (pre ++ post) hc a hd ty hty
  rw [hb] at hans
  have := C10_aux_early_answer_final c bs hwf pre post hc m f hm hf ty
  cases hq : firstOfType m.a ty with
  | decoding => rfl
  | data d =>
    obtain ⟨p, hp, _⟩ := firstOfType_data_found m.a ty d hq
    rw [hnone] at hp; cases hp
  | notFound =>
    have := this.2 hq
    rw [hans] at this; cases this

/-! ## (i) no panic -/

/-- For every byte string, every chunking and every codec the `panic!()` in
`AuxBoxReader::ensure_raw` / `ensure_brotli` (a box starts while the reader still holds data of
another kind) is never reached: the parser announces a box only when the previous one has been
finalised, and a `jbrd` box never touches the reader.  (The parser's own panic sites:
`C10_no_panic`.) -/
theorem C10_aux_no_panic (c : Codec) (chunks : List Bytes) :
    Sess.init.pushAll c chunks ≠ .error (.aux .panic) ∧ Sess.run c chunks ≠ .error (.aux .panic) := by
  refine ⟨?_, run_no_panic c chunks⟩
  have h := pushAll_sync c chunks Sess.init rfl
  cases hp : Sess.init.pushAll c chunks with
  | error e => rw [hp] at h; intro hc; cases hc; exact h rfl
  | ok s => simp

/-! ## (j) the instance of `Codec.decompress` used by the correspondence run -/

/-- `storedBrotli` (the stored-only Brotli decoder that instantiates `Codec.decompress` in the
driver) gives back the concatenated data for every stream the campaign's generator can write: any
number of uncompressed meta-blocks of 1..65536 bytes each (none = the empty stream `06`). -/
theorem C10_aux_stored_brotli_roundtrip (parts : List Bytes)
    (hp : ∀ p ∈ parts, 1 ≤ p.length ∧ p.length ≤ 65536) :
    storedBrotli (storedEncode parts) = some parts.flatten :=
  stored_roundtrip parts hp

/-! ## Non-vacuity -/

/-- a decompressor for the examples: the one-byte stream `[n]` stands for a zero offset field
followed by `n` bytes `07`; everything else is invalid -/
def exCodec : Codec :=
  ⟨fun z => match z with | [n] => some ([0, 0, 0, 0] ++ List.replicate n.toNat 7) | _ => none, fun _ => false⟩

/-- codestream, a `brob` Exif box, an `xml ` box running to the end of the file -/
def exAuxFile : List Box :=
  [.jxlc [0xff, 0x0a] .short, .brob tyExif [2] .long, .aux tyXml [0x3c, 0x3e] .toEof]

/-- the hypotheses of (f) hold and the specification is what one expects -/
example : wf exAuxFile = true ∧
    (deliverAll exCodec St.init (aux exAuxFile)).toOption.map (·.boxes) =
      some [(tyExif, .raw [0, 0, 0, 0, 7, 7]), (tyXml, .raw [0x3c, 0x3e])] := by decide

/-- the model run, 53 bytes, split inside the 64-bit `brob` header and inside the last box: before
`finalize()` the Exif data is there and the xml box (still open) is `Decoding`; afterwards both are
data — the state that a regression returning early from `eof` would never reach. -/
example :
    let f := serFile exAuxFile
    (match Sess.init.pushAll exCodec [f.take 30, (f.drop 30).take 22, f.drop 52] with
      | .ok m => (firstExif m.a, firstXml m.a)
      | .error _ => (none, .notFound)) = (some (.data (0, [7, 7])), .decoding) ∧
    (match Sess.run exCodec [f.take 30, (f.drop 30).take 22, f.drop 52] with
      | .ok s => (firstExif s.a, firstXml s.a)
      | .error _ => (none, .notFound)) = (some (.data (0, [7, 7])), .data [0x3c, 0x3e]) := by
  decide +kernel

/-- a `brob` payload that does not decompress: the error case of `C10_aux_list_exact` -/
example : (match deliverAll exCodec St.init (aux [.brob tyExif [1, 2] .short]) with
    | .error e => some e | .ok _ => none) = some .brotli := by decide

/-- `RawExif::new`: offset 2 into a 3-byte payload is accepted, offset 3 is not, 3 bytes are not -/
example : rawExif [0, 0, 0, 2, 9, 9, 9] = some (2, [9, 9, 9]) ∧ rawExif [0, 0, 0, 3, 9, 9, 9] = none ∧
    rawExif [0, 0, 0] = none := by decide

/-- the stored-Brotli instance used by the correspondence run decodes what the generator writes:
two meta-blocks `ab`, `c`; the empty stream; and rejects a truncated stream -/
example : storedBrotli (storedEncode [[0x61, 0x62], [0x63]]) = some [0x61, 0x62, 0x63] ∧
    storedEncode [[0x61, 0x62], [0x63]] = [0x10, 0x00, 0x10, 0x61, 0x62, 0x00, 0x00, 0x08, 0x63, 0x03] ∧
    storedBrotli (storedEncode []) = some [] ∧
    storedBrotli ((storedEncode [[0x61, 0x62], [0x63]]).take 9) = none := by decide

end Jxl.AuxBox
