import JxlModel.Proofs.Container
/-!
# C10 — container framing

Property theorems about the model of `ContainerBoxHeader::parse` and the `ContainerParser` state
machine (`Model/Container.lean`, which mirrors the code **with the F1 repair applied**).
They quantify over every byte string, every parser state, every split of the input into
successive `feed_bytes` calls (the caller re-offers what was not consumed, as the API demands) and
every container file of the `Spec` type.

"Concatenation-normalised event stream" = `toks events`: the events with every `Codestream` /
`AuxBoxData` payload flattened to one token per byte (`C10_normal_form_canonical`: equal flattenings
⇔ equal event lists after merging adjacent data events and dropping empty ones).

Brotli is outside this layer: a `brob` box is delivered as inner type + raw compressed payload.

## F1 (genuine defect of the unrepaired code, DESIGN §8)
`parseHeaderOld` is the header parser as it was: with 8..15 bytes of a 64-bit header available it
answers `invalid` instead of `needMore`, so a split of the input inside such a header turns a valid
file into `Error::InvalidBox` (`C10_F1_old_code_witness`; replayed on the real code by
`corpus/C10/00_f1_xlbox_header_split.hex`, every 2-way split at offsets 20..27 of that 31-byte
file).  The repair is one match arm in `box_header.rs` (`[0, 0, 0, 1, ..] => NeedMoreData`).
-/
namespace Jxl.Container
open Spec

/-! ## (a) box header -/

/-- Parse ∘ serialise = id for all three size forms (32-bit, 64-bit, to-end-of-file), whatever
follows the header; the reported header size is the number of bytes written. -/
theorem C10_header_roundtrip (ty : Bytes) (hty : ty.length = 4) (n : Nat) (e : Enc)
    (hfit : fits n e) (rest : Bytes) :
    parseHeader (serHeader ty n e ++ rest) =
      .done ⟨ty, if e = .toEof then none else some n⟩ (serHeader ty n e).length :=
  header_roundtrip ty hty n e hfit rest

/-- Every proper prefix of a serialised header (8- or 16-byte form) asks for more data. This is
the statement that fails for the unrepaired code (F1). -/
theorem C10_header_prefix_needs_more_data (ty : Bytes) (hty : ty.length = 4) (n : Nat) (e : Enc)
    (rest : Bytes) (k : Nat) (hk : k < (serHeader ty n e).length) :
    parseHeader ((serHeader ty n e ++ rest).take k) = .needMore :=
  header_prefix_needMore ty hty n e rest k hk

/-- Once the header parser answers (done or invalid) more bytes never change the answer. -/
theorem C10_header_answer_stable (a b : Bytes) (h : parseHeader a ≠ .needMore) :
    parseHeader (a ++ b) = parseHeader a :=
  parseHeader_append a b h

/-- Witness of F1 on the code before the repair: 9 bytes of the 16-byte header of a box "abcd"
with 64-bit size 19 — the old parser rejects, the repaired one waits; and the old parser is *not*
stable under extension (it accepts the complete header). -/
theorem C10_F1_old_code_witness :
    let hdr := serHeader [0x61, 0x62, 0x63, 0x64] 3 .long
    parseHeaderOld (hdr.take 9) = .invalid ∧ parseHeader (hdr.take 9) = .needMore ∧
    parseHeaderOld hdr = .done ⟨[0x61, 0x62, 0x63, 0x64], some 3⟩ 16 := by decide

/-! ## (b) chunking invariance -/

/-- 2-way split, from any parser state: feeding `a ++ b` in one call is indistinguishable from
feeding `a`, then (unless that failed) the unconsumed tail of `a` followed by `b` — same
normalised events, same final state, same unconsumed bytes, same error. -/
theorem C10_events_chunking_invariant_2way (s : PState) (a b : Bytes) :
    let r := feed s a
    let w := feed s (a ++ b)
    match r.error with
    | some e => toks w.events = toks r.events ∧ w.error = some e
    | none =>
      let r' := feed r.state (r.rest ++ b)
      toks w.events = toks r.events ++ toks r'.events ∧ w.state = r'.state ∧ w.rest = r'.rest ∧
        w.error = r'.error := by
  have h := feed_append b s a
  unfold thenFeed at h
  cases he : (feed s a).error with
  | some e => simp only [he] at h ⊢; exact ⟨h.1, h.2.2.2⟩
  | none => simp only [he] at h ⊢; exact ⟨by rw [h.1, toks_append], h.2.1, h.2.2.1, h.2.2.2⟩

/-- Any chunking, from any parser state: the normalised event stream, the error (if any), the
final state and (without error) the bytes still unconsumed are those of feeding the whole
buffer at once. -/
theorem C10_events_chunking_invariant (s : PState) (chunks : List Bytes) :
    let r := feedChunks s [] chunks
    let w := feed s chunks.flatten
    toks r.events = toks w.events ∧ r.error = w.error ∧ r.state = w.state ∧
      (r.error = none → r.rest = w.rest) := by
  cases chunks with
  | nil => simp [feedChunks, feed_nil]
  | cons c cs => simpa [FeedResult.same] using feedChunks_same cs s [] c

/-- The flattening is a faithful normal form: two event streams have the same flattening iff they
are equal after merging adjacent data events of the same box and dropping empty ones. -/
theorem C10_normal_form_canonical (a b : List Event) :
    toks a = toks b ↔ normalize a = normalize b :=
  toks_eq_iff_normalize_eq a b

/-- Chunking invariance stated on merged event lists: after merging adjacent `Codestream` /
`AuxBoxData` events and dropping empty ones, the events produced by any chunking are literally
those produced by one `feed_bytes` call on the whole buffer. -/
theorem C10_events_chunking_invariant_merged (s : PState) (chunks : List Bytes) :
    normalize (feedChunks s [] chunks).events = normalize (feed s chunks.flatten).events :=
  (C10_normal_form_canonical _ _).mp (C10_events_chunking_invariant s chunks).1

/-! ## (c) well-formed files are delivered exactly -/

/-- For every well-formed file and every chunking of its bytes: no error, everything consumed,
and the event stream is exactly `kind container` followed by the Spec's expected tokens. -/
theorem C10_wellformed_events_exact (bs : List Box) (hwf : wf bs = true) (chunks : List Bytes)
    (hc : chunks.flatten = serFile bs) :
    let r := feedChunks init [] chunks
    r.error = none ∧ r.rest = [] ∧ toks r.events = Tok.kind .container :: expected bs := by
  simp only [wf, Bool.and_eq_true] at hwf
  have hf := feed_file bs hwf.1
  obtain ⟨c1, c2, _, c4⟩ := C10_events_chunking_invariant init chunks
  rw [hc] at c1 c2 c4
  cases hq : seqFrom .initial bs with
  | none => rw [hq] at hwf; simp at hwf
  | some jx =>
    simp only [hq] at hf
    refine ⟨by rw [c2]; exact hf.1, ?_, by rw [c1]; exact hf.2.2⟩
    rw [c4 (by rw [c2]; exact hf.1)]; exact hf.2.1

/-- The codestream events concatenate to exactly the `jxlc`/`jxlp` payloads in file order. -/
theorem C10_codestream_exact (bs : List Box) (hwf : wf bs = true) (chunks : List Bytes)
    (hc : chunks.flatten = serFile bs) :
    codestreamOf (toks (feedChunks init [] chunks).events) = codestream bs := by
  rw [(C10_wellformed_events_exact bs hwf chunks hc).2.2]
  simp [codestreamOf, expected, codestreamOf_expectedM]

/-- Every auxiliary box is delivered with its type, its compression flag and its exact raw
payload, in file order (for `brob`: inner type and the compressed bytes). -/
theorem C10_aux_boxes_exact (bs : List Box) (hwf : wf bs = true) (chunks : List Bytes)
    (hc : chunks.flatten = serFile bs) :
    auxOf (toks (feedChunks init [] chunks).events) = aux bs := by
  rw [(C10_wellformed_events_exact bs hwf chunks hc).2.2]
  simp [auxOf, expected, auxOf_expectedM]

/-- The same holds for a well-formed box list followed by arbitrary further bytes `t` (e.g. a
truncated next box), from any sequence state: exactly the expected tokens, then the parser
continues on `t` at a box boundary. -/
theorem C10_wellformed_prefix_exact (jx jx' : JxlpState) (bs : List Box) (t : Bytes)
    (hs : shapeOk bs = true) (ht : t ≠ [] → ∀ b ∈ bs, b.enc ≠ .toEof)
    (hq : seqFrom jx bs = some jx') :
    let r := feed ⟨.waitingBoxHeader, jx⟩ (serBoxes bs ++ t)
    let r' := feed ⟨.waitingBoxHeader, jx'⟩ t
    toks r.events = expectedM (!t.isEmpty) bs ++ toks r'.events ∧ r.error = r'.error ∧
      r.rest = r'.rest := by
  have := feed_boxes t bs jx hs ht
  simp only [hq] at this
  exact this

/-! ## (d) ill-formed layouts are rejected -/

/-- Boxes that are individually representable but violate the codestream-box discipline
(duplicate `jxlc`, `jxlc` after `jxlp` or vice versa, `jxlp` index not starting at 0 / skipped /
repeated, `jxlp` after the final one): `Error::InvalidBox`, for every chunking. -/
theorem C10_ill_formed_sequence_rejected (bs : List Box) (hs : shapeOk bs = true)
    (hq : seqFrom .initial bs = none) (chunks : List Bytes) (hc : chunks.flatten = serFile bs) :
    (feedChunks init [] chunks).error = some .invalidBox := by
  have hf := feed_file bs hs
  simp only [hq] at hf
  rw [(C10_events_chunking_invariant init chunks).2.1, hc]; exact hf

/-- A well-formed run of sized boxes followed by an undersized box (32-bit size field 2..7, 64-bit
size < 16, `jxlp` payload < 4, `brob` payload < 4): `Error::InvalidBox`, for every chunking. -/
theorem C10_undersized_rejected (pre : List Box) (t : Bytes) (hs : shapeOk pre = true)
    (hsz : ∀ b ∈ pre, b.enc ≠ .toEof) (hq : (seqFrom .initial pre).isSome) (hu : Undersized t)
    (chunks : List Bytes) (hc : chunks.flatten = contSig ++ (serBoxes pre ++ t)) :
    (feedChunks init [] chunks).error = some .invalidBox := by
  rw [(C10_events_chunking_invariant init chunks).2.1, hc, feed_of_cont (step_init_container _)]
  cases hj : seqFrom .initial pre with
  | none => rw [hj] at hq; simp at hq
  | some jx' =>
    have := C10_wellformed_prefix_exact .initial jx' pre t hs (fun _ => hsz) hj
    simp only at this ⊢
    rw [this.2.1]; exact undersized_err jx' t hu

/-- A `brob` box whose inner type is reserved (`jxl?`, `brob`, `jbrd`) after a well-formed run of
sized boxes: `Error::ValidationFailed`, for every chunking. -/
theorem C10_brob_reserved_rejected (pre : List Box) (hs : shapeOk pre = true)
    (hsz : ∀ b ∈ pre, b.enc ≠ .toEof) (hq : (seqFrom .initial pre).isSome)
    (n : Nat) (e : Enc) (inner rest : Bytes) (hin : inner.length = 4)
    (hres : reservedInner inner = true) (hf : fits n e) (hn : e = .toEof ∨ 4 ≤ n)
    (chunks : List Bytes)
    (hc : chunks.flatten = contSig ++ (serBoxes pre ++ (serHeader tyBrob n e ++ (inner ++ rest)))) :
    (feedChunks init [] chunks).error = some .validationFailed := by
  rw [(C10_events_chunking_invariant init chunks).2.1, hc, feed_of_cont (step_init_container _)]
  cases hj : seqFrom .initial pre with
  | none => rw [hj] at hq; simp at hq
  | some jx' =>
    have := C10_wellformed_prefix_exact .initial jx' pre (serHeader tyBrob n e ++ (inner ++ rest)) hs
      (fun _ => hsz) hj
    simp only at this ⊢
    rw [this.2.1]; exact brob_reserved_err jx' n e inner rest hin hres hf hn

/-! ## (e) consumption and progress -/

/-- What a call leaves unconsumed is a suffix of what it was offered:
`previous_consumed_bytes ≤ input.len()` and `rest = input[consumed..]`. -/
theorem C10_consumed_le_input (s : PState) (buf : Bytes) :
    consumed buf (feed s buf) ≤ buf.length ∧
      (feed s buf).rest = buf.drop (consumed buf (feed s buf)) := by
  obtain ⟨k, hk⟩ := feed_rest_drop s buf
  refine ⟨Nat.sub_le _ _, ?_⟩
  unfold consumed
  rw [hk, List.length_drop]
  by_cases h : k ≤ buf.length
  · congr 1; omega
  · rw [List.drop_of_length_le (by omega), List.drop_of_length_le (by omega)]

/-- Progress measure: every iteration of `emit_single` that does not return `Ok(None)`/`Err`
strictly decreases `4·|buffer| + rank(state)`; hence the loop terminates, and the model's fuel is
never exhausted: a run always ends in an error or in a state where the next step is `Ok(None)`. -/
theorem C10_progress_measure (s : PState) (buf : Bytes) :
    (∀ ev s' rest, step s buf = .cont ev s' rest → measure s' rest < measure s buf) ∧
    ((feed s buf).error = none → step (feed s buf).state (feed s buf).rest = .stop) :=
  ⟨fun ev s' rest h => (step_cont s buf ev s' rest h).1, feed_final_stop s buf⟩

/-- No livelock: a call that reports no error, consumes nothing and emits nothing left the parser
untouched, and this happens only when fewer than 16 bytes were on offer (the parser is waiting
for a signature, a box header, a jxlp index or a brob inner type). -/
theorem C10_no_livelock (s : PState) (buf : Bytes) (he : (feed s buf).error = none)
    (hc : consumed buf (feed s buf) = 0) (hev : (feed s buf).events = []) :
    (feed s buf).state = s ∧ buf.length < 16 := by
  have hl := feed_rest_length_le s buf
  have hstop := feed_idle s buf he (by unfold consumed at hc; omega) hev
  exact ⟨by rw [feed_of_stop hstop], step_stop_short s buf hstop⟩

/-- The two panic sites of the parser (`unreachable!` in `WaitingJxlpIndex`, `usize` underflow of
`bytes_left -= 4` / `box_size - 4`) are unreachable from `ContainerParser::new()` whatever is
fed in whatever chunks. -/
theorem C10_no_panic (chunks : List Bytes) (e : Err)
    (h : (feedChunks init [] chunks).error = some e) :
    e = .invalidBox ∨ e = .validationFailed := by
  have := (feedChunks_inv chunks init [] inv_init).2 e h
  cases e <;> simp_all [Err.isPanic]

/-! ## Non-vacuity -/

/-- ftyp, a 64-bit-sized jxlp, a brob(Exif), the final jxlp, an xml box running to end of file -/
def exFile : List Box :=
  [.aux [0x66, 0x74, 0x79, 0x70] [1, 2] .short,
   .jxlp 0 false [0xff, 0x0a, 7] .long,
   .brob [0x45, 0x78, 0x69, 0x66] [9, 9, 9] .short,
   .jxlp 1 true [8, 9] .short,
   .aux [0x78, 0x6d, 0x6c, 0x20] [5] .toEof]

/-- hypotheses of (c) hold for `exFile`; 83 bytes; the delivered codestream is `ff 0a 07 08 09` -/
example : wf exFile = true ∧ (serFile exFile).length = 83 ∧
    codestream exFile = [0xff, 0x0a, 7, 8, 9] ∧
    aux exFile = [⟨[0x66, 0x74, 0x79, 0x70], false, [1, 2]⟩, ⟨[0x45, 0x78, 0x69, 0x66], true, [9, 9, 9]⟩,
      ⟨[0x78, 0x6d, 0x6c, 0x20], false, [5]⟩] := by decide

/-- the model run on `exFile` split inside the 64-bit header really produces that codestream -/
example :
    codestreamOf (toks (feedChunks init [] [(serFile exFile).take 30, (serFile exFile).drop 30]).events)
      = [0xff, 0x0a, 7, 8, 9] := by decide +kernel

/-- hypotheses of (d): second jxlp repeats index 0; a jxlc after a jxlp; both shape-correct -/
example : shapeOk [Box.jxlp 0 false [1] .short, .jxlp 0 true [2] .short] = true ∧
    seqFrom .initial [Box.jxlp 0 false [1] .short, .jxlp 0 true [2] .short] = none ∧
    seqFrom .initial [Box.jxlp 0 true [1] .short, .jxlc [2] .long] = none := by decide

example : Undersized (beEnc 4 7 ++ [0x61, 0x62, 0x63, 0x64] ++ [1, 2, 3]) :=
  .sizeField 7 _ _ (by decide) (by decide) rfl

example : Undersized (serHeader tyJxlp 3 .short ++ [0, 0, 0]) :=
  .jxlpSmall 3 .short _ (by decide) (by decide) (by simp [fits])

example : reservedInner tyJxlc = true ∧ reservedInner tyJbrd = true ∧
    reservedInner [0x45, 0x78, 0x69, 0x66] = false := by decide

/-- (e): a stalled call exists (7 bytes of a header) and a progressing one does -/
example : (feed ⟨.waitingBoxHeader, .initial⟩ [0, 0, 0, 1, 0x61, 0x62, 0x63]).rest.length = 7 ∧
    consumed (serFile exFile) (feed init (serFile exFile)) = 83 := by decide +kernel

end Jxl.Container
