import JxlModel.Proofs.IccRoundtrip
import JxlModel.Proofs.IccSize
/-!
# C18 — the embedded ICC profile is returned byte-exactly

Property theorems for the ICC command interpreter `decode_icc` (`Jxl.Icc.decodeIcc`, model of
`crates/jxl-color/src/icc/decode.rs` with finding F6 repaired) against the reference encoder
`Jxl.Icc.encodeIcc`. They quantify over **every** byte string of at most 2^28 bytes as profile
and **every** legal command sequence (`PlanCovers plan profile`: any mix of predicted header
bytes, tag-list commands with common / explicit tags, implicit / explicit start and size, the
`rTRC→gTRC,bTRC` and `rXYZ→gXYZ,bXYZ` expansions, terminated or unterminated tag list, raw copies,
2- and 4-way shuffles, order-0/1/2 predicted runs of width 1/2/4 with implicit or explicit stride,
`XYZ ` and common-data shortcuts).

Scope (what is *not* here): the entropy-coded layer of `read_icc` (the byte stream is pulled out
of the ANS/prefix decoder with the 41 contexts of `getIccCtx`; that layer is C04's) and
`JxlImage::original_icc()` end to end (needs the codestream encoder). Non-minimal varints are
accepted by the decoder and exercised by the correspondence run; the encoder writes minimal ones.
-/
namespace Jxl.Icc

/-- Varint round trip: every value below 2^63 (the decoder's varint keeps 63 bits) is read back
exactly, whatever follows it. -/
theorem C18_varint_roundtrip (n : Nat) (rest : List Nat) (h : n < 2 ^ 63) :
    readVarint (encVarint n ++ rest) = .ok (n, rest) :=
  readVarint_encVarint n rest h

/-- Header prediction soundness. `decode_icc` predicts header byte `idx` from the *encoded*
header bytes (`header[40]`, `header[41]`, `header[4..8]`), the encoder from the profile itself;
both see the same values, for every byte string and every index. -/
theorem C18_header_pred_lookback_sound (profile : List Nat) (hb : ∀ b ∈ profile, b < 256)
    (idx size : Nat) :
    predictHeader idx size (encodeHeader profile) = predictHeader idx size profile :=
  header_lookback profile hb idx size

/-- The header loop inverts the encoder's header for every byte string (any length, including
profiles shorter than the 128-byte header). -/
theorem C18_header_roundtrip (profile : List Nat) (hb : ∀ b ∈ profile, b < 256) :
    decodeHeader profile.length (encodeHeader profile) = profile.take 128 :=
  decodeHeader_encodeHeader profile hb

/-- `shuffle2` / `shuffle4` are inverted by the encoder-side un-shuffle for every length. -/
theorem C18_shuffle_inv (x : List Nat) :
    shuffle2 (unshuffle2 x) = x ∧ shuffle4 (unshuffle4 x) = x :=
  ⟨shuffle2_unshuffle2 x, shuffle4_unshuffle4 x⟩

/-- Command 4 (order-k prediction), every width 1/2/4, order 0/1/2, explicit or implicit stride,
any ignored high flag bits, any run length: the decoder's command rebuilds exactly the profile
bytes the run covers. -/
theorem C18_pred_run_roundtrip (profile : List Nat) (hb : ∀ b ∈ profile, b < 256)
    (pos width order hi n : Nat) (stride : Option Nat)
    (hw : width = 1 ∨ width = 2 ∨ width = 4) (ho : order ≤ 2)
    (hsw : width ≤ strideOf width stride) (hs4 : strideOf width stride * 4 < pos)
    (hn : pos + n ≤ profile.length) (hl : profile.length < 2 ^ 63) (restC restD : List Nat) :
    cmdPred
      (((width - 1) + 4 * order + (if stride.isSome then 16 else 0) + 32 * hi) ::
        (encStride stride ++ (encVarint n ++ restC)))
      (unshuffleBy width (residLoop profile.toArray width order (strideOf width stride) n pos n) ++ restD)
      (profile.take pos).toArray
      = .ok (restC, restD, (profile.take (pos + n)).toArray) :=
  cmdPred_enc profile hb pos width order hi n stride hw ho hsw hs4 hn hl restC restD

/-- **Round trip.** For every profile and every legal plan, decoding the encoded stream returns
the profile byte for byte. -/
theorem C18_icc_roundtrip (profile : List Nat) (plan : Plan) (h : PlanCovers plan profile) :
    decodeIcc (encodeIcc plan profile) = .ok profile :=
  decodeIcc_encodeIcc plan profile h

/-- Size consistency (the statement finding F6 violates on the unrepaired code): whatever
`decode_icc` returns successfully has exactly the declared length. -/
theorem C18_decode_size_consistent (s out : List Nat) (h : decodeIcc s = .ok out) :
    out.length = declaredSize s :=
  decodeIcc_size s out h

/-- The loop fuel of the model (command bytes + 1) is never exhausted, for any input. -/
theorem C18_fuel_never_exhausted (s : List Nat) : decodeIcc s ≠ .error .fuel :=
  decodeIcc_ne_fuel s

/-- `get_icc_ctx` always yields one of the 41 contexts the ICC entropy code is parsed with
(`Decoder::parse(bitstream, 41)`), for every index and every pair of previous bytes. -/
theorem C18_ctx_lt_41 (idx b1 b2 : Nat) : getIccCtx idx b1 b2 < 41 := by
  unfold getIccCtx
  split
  · omega
  · simp only
    repeat' split
    all_goals omega

/-! ### Rejections -/

/-- A declared output size above 2^28 is never accepted. -/
theorem C18_rejects_oversize (s : List Nat) (h : 268435456 < declaredSize s) :
    ∃ e, decodeIcc s = .error e := by
  cases hd : decodeIcc s with
  | error e => exact ⟨e, rfl⟩
  | ok out =>
    exfalso
    unfold decodeIcc at hd
    unfold declaredSize at h
    split at hd
    · exact absurd hd (by simp)
    · rename_i n s1 hv
      rw [hv] at h
      simp only at h
      split at hd
      · exact absurd hd (by simp)
      · split at hd
        · exact absurd hd (by simp)
        · exact absurd hd (by simp)

/-- A stream whose commands produce a different number of bytes than declared is rejected
(contrapositive of size consistency, stated for the result). -/
theorem C18_rejects_wrong_total (s : List Nat) :
    (∃ e, decodeIcc s = .error e) ∨ ∃ out, decodeIcc s = .ok out ∧ out.length = declaredSize s := by
  cases hd : decodeIcc s with
  | error e => exact .inl ⟨e, rfl⟩
  | ok out => exact .inr ⟨out, rfl, decodeIcc_size s out hd⟩

/-- Unknown main-section command bytes are rejected. -/
theorem C18_rejects_unknown_command (c : Nat) (cmds data : List Nat) (out : Array Nat)
    (h : ¬(c = 1 ∨ c = 2 ∨ c = 3 ∨ c = 4 ∨ c = 10 ∨ (16 ≤ c ∧ c ≤ 23))) :
    mainStep c cmds data out = .error .command := by
  unfold mainStep
  rw [if_neg (by omega), if_neg (by omega), if_neg (by omega), if_neg (by omega)]

/-- Command 4 with width 3 or order 3 is rejected. -/
theorem C18_rejects_width3_order3 (flags : Nat) (cmds data : List Nat) (out : Array Nat)
    (h : flags % 4 = 2 ∨ (flags / 4) % 4 = 3) :
    cmdPred (flags :: cmds) data out = .error .widthorder := by
  simp only [cmdPred]
  rw [if_pos (by omega)]

/-- Command 4 whose look-back (`stride * 4`) reaches before the start of the output is
rejected, so the prediction never reads out of bounds. -/
theorem C18_rejects_lookback (width order stride : Nat) (cmds data : List Nat) (out : Array Nat)
    (h : out.size ≤ stride * 4) (hs : out.size < 2 ^ 64) :
    cmdPredRun width order stride cmds data out = .error .lookback := by
  unfold cmdPredRun
  rw [if_pos (by omega)]

/-- An explicit stride smaller than the element width is rejected. -/
theorem C18_rejects_stride_lt_width (flags width s : Nat) (rest : List Nat)
    (hf : (flags / 16) % 2 = 1) (hs : s < width) (h63 : s < 2 ^ 63) :
    readStride flags width (encVarint s ++ rest) = .error .stride := by
  unfold readStride
  rw [if_neg (by omega), readVarint_encVarint s rest h63]
  simp only
  rw [if_pos hs]

/-- Tag codes 21..63 are rejected. -/
theorem C18_rejects_bad_tagcode (size command : Nat) (s : TagSt) (h : 21 ≤ command % 64) :
    tagStep size command s = .error .tagcode := by
  unfold tagStep tagOf
  rw [if_neg (by omega), if_neg (by omega)]

/-- Every tag entry that is accepted lies inside the declared profile size. -/
theorem C18_rejects_tag_out_of_range (size command : Nat) (s s' : TagSt)
    (h : tagStep size command s = .ok s') : s'.prevStart + s'.prevSize ≤ size := by
  unfold tagStep at h
  split at h
  · exact absurd h (by simp)
  · split at h
    · exact absurd h (by simp)
    · split at h
      · exact absurd h (by simp)
      · split at h
        · exact absurd h (by simp)
        · simp only [Except.ok.injEq] at h
          subst h
          simp only
          omega

/-- A tag count that cannot fit the declared size is rejected. -/
theorem C18_rejects_num_tags (size v : Nat) (cmds data : List Nat) (out : Array Nat)
    (h : (size - 128) / 12 < v - 1) (hv : v ≠ 0) :
    decodeTags size v cmds data out = .error .numtags := by
  unfold decodeTags
  rw [if_neg hv, if_pos h]

/-- A copy / shuffle command asking for more bytes than the data stream holds is rejected. -/
theorem C18_rejects_short_data (command num : Nat) (cmds rest data : List Nat) (out : Array Nat)
    (hv : readVarint cmds = .ok (num, rest)) (h : data.length < num) :
    cmdCopy command cmds data out = .error .short := by
  unfold cmdCopy
  rw [hv]
  simp only
  rw [if_pos h]

/-- An error raised by a command stops the main loop with that error. -/
theorem C18_errors_propagate (fuel c : Nat) (cs data : List Nat) (out : Array Nat) (e : ErrKind)
    (h : mainStep c cs data out = .error e) :
    mainLoop (fuel + 1) (c :: cs) data out = .error e := by
  simp only [mainLoop, h]

/-! ### Non-vacuity and regression examples -/

/-- A 230-byte profile: real sRGB header, a three-entry `rXYZ/gXYZ/bXYZ` tag table, an `XYZ `
record, a `curv` record, a 2-byte counter sequence, and tails of 9, 3 and 6 bytes. -/
def exampleProfile : List Nat :=
  [0, 0, 0, 230, 106, 120, 108, 32, 4, 64, 0, 0, 109, 110, 116, 114, 82, 71, 66, 32, 88, 89, 90,
   32, 7, 227, 0, 12, 0, 1, 0, 0, 0, 0, 0, 0, 97, 99, 115, 112, 65, 80, 80, 76, 0, 0, 0, 0, 0, 0,
   0, 0, 0, 0, 0, 0, 0, 0, 0, 0, 0, 0, 0, 0, 0, 0, 0, 1, 0, 0, 246, 214, 0, 1, 0, 0, 0, 0, 211,
   45, 106, 120, 108, 32, 2, 185, 249, 1, 64, 115, 58, 111, 240, 255, 3, 244, 240, 247, 10, 43,
   0, 0, 0, 0, 0, 0, 0, 0, 0, 0, 0, 0, 0, 0, 0, 0, 0, 0, 0, 0, 0, 0, 0, 0, 0, 0, 0, 0, 0, 0, 0,
   3, 114, 88, 89, 90, 0, 0, 0, 168, 0, 0, 0, 20, 103, 88, 89, 90, 0, 0, 0, 188, 0, 0, 0, 20, 98,
   88, 89, 90, 0, 0, 0, 208, 0, 0, 0, 20, 88, 89, 90, 32, 0, 0, 0, 0, 0, 0, 111, 162, 0, 0, 56,
   245, 0, 0, 3, 144, 99, 117, 114, 118, 0, 0, 0, 0, 1, 0, 0, 7, 2, 51, 1, 7, 3, 102, 2, 7, 4,
   153, 3, 7, 9, 8, 7, 6, 5, 4, 3, 2, 1, 170, 187, 204, 106, 120, 108, 32, 111, 107]

/-- tag list (explicit start, implied size 20, XYZ triple expansion, terminator), then
`XYZ ` shortcut, common-data `curv`, an order-1 width-2 stride-4 predicted run with high flag
bits set, a 4-way shuffle, a 2-way shuffle and a raw copy. -/
def examplePlan : Plan :=
  { tags := some { numTags := 3, cmds := [{ code := 3, explicitStart := true, explicitSize := false }],
                   terminator := true },
    main := [.xyz, .common 5, .pred 2 1 (some 4) 5 16, .shuf4 9, .shuf2 3, .raw 6] }

example : PlanCovers examplePlan exampleProfile := by decide +kernel

example : (encodeIcc examplePlan exampleProfile).length = 194 := by decide +kernel

example : decodeIcc (encodeIcc examplePlan exampleProfile) = .ok exampleProfile :=
  C18_icc_roundtrip _ _ (by decide +kernel)

/-- the same profile as one raw copy without a tag list -/
example : PlanCovers { tags := none, main := [.raw 102] } exampleProfile := by decide +kernel

/-- a plan that does not cover (one byte short) is not `PlanCovers` -/
example : ¬ PlanCovers { tags := none, main := [.raw 101] } exampleProfile := by decide +kernel

/-- the planner's natural plan covers the example profile -/
example : PlanCovers (autoPlan 3 [] exampleProfile) exampleProfile := by decide +kernel

/-- **F6 witness** (DESIGN §8): declared size 200, command stream `[01]` ends inside the tag
list after 132 bytes. The unrepaired code returned `Ok` with 132 bytes; the repaired behaviour
modelled here is `decoded ICC profile size mismatch`. -/
def f6Witness : List Nat :=
  [200, 1, 1, 1] ++ List.replicate 128 0

example : declaredSize f6Witness = 200 := by decide +kernel

example : decodeIcc f6Witness = .error .sizemismatch := by decide +kernel

/-- every context 0..40 is reachable, e.g. the last one -/
example : getIccCtx 129 200 200 = 40 ∧ getIccCtx 128 200 200 = 0 ∧ getIccCtx 129 65 65 = 1 := by decide

/-- rejections are reachable: a width-3 command 4, an unknown command, a look-back too far -/
example : decodeIcc ([130, 1, 3, 0, 4, 2] ++ List.replicate 128 0 ++ [0, 0]) = .error .widthorder := by
  decide +kernel
example : decodeIcc ([130, 1, 3, 0, 5, 0] ++ List.replicate 128 0 ++ [0, 0]) = .error .command := by
  decide +kernel
example : decodeIcc ([130, 1, 5, 0, 4, 16, 33, 1] ++ List.replicate 128 0 ++ [0, 0]) = .error .lookback := by
  decide +kernel

end Jxl.Icc
