import JxlModel.Proofs.Subgrid
import JxlModel.Proofs.Unchecked
import JxlModel.Gen.TransformType
/-!
# C02 — no memory-unsafe access is reachable (partial: index arithmetic and ownership geometry)

**What is proved.** Lean cannot speak about Rust's aliasing model. What is proved here is the
*index arithmetic and ownership geometry* that the `unsafe` code of `jxl-grid`, `jxl-bitstream`,
`jxl-coding` and the x86-64 horizontal squeeze kernels relies on, for the models in
`Model/Subgrid.lean` and `Model/Unchecked.lean`:

* every operation on a valid sub-grid yields valid sub-grids (every reachable element offset is
  inside the allocation); splits and groups hand out pairwise disjoint cell sets that stay inside
  (and, for splits and `into_groups`, exactly cover) the parent; a merge owns exactly the union of
  its two parts, and merging the halves of a split restores the original;
* `Bitstream::refill`'s fast path always advances by fewer than 8 of at least 8 remaining bytes;
* the ANS bucket index is below the bucket-table length for every accepted histogram and state;
* the raw-pointer loads/stores of `inverse_h_i16_x86_64_{avx2,sse41}` stay inside their rows for
  every width and height, and every scratch element is written before it is read.

**How it is tied to the code.** By correspondence only (testing, not proof): `tools/props/c02.py`
runs seeded operation sequences on real `MutableSubgrid`s, writes a unique tag through every live
sub-grid and reads the whole buffer back; the model must predict the exact ownership map and every
assertion failure. `Bitstream` histories are compared state by state. The transcribed index
expressions of `ans.rs`, `bitstream.rs` and the two squeeze kernels are pinned against the source
text. The kernels themselves are run on all widths 1..130 × heights 1..20 inside canary-filled
allocations, in the checked and the optimised build, and (thorough tier) under valgrind memcheck.

**Outside the model** (reached only by those differential / canary / valgrind runs, or not at all
by this check): Rust aliasing and pointer provenance; lifetimes (the `PhantomData<&'g mut [V]>`
that makes use-after-free a borrow-checker matter); what LLVM does with UB; the *vertical* squeeze
kernels (`inverse_v_*`, run with canaries but no access plan); the NEON and wasm kernels (cannot
run here); EPF / Gabor / DCT SIMD in `jxl-render`; `jxl-oxide/src/fb.rs`; `as_vectored`
(alignment); the `transmute::<Bucket, u64>` in `read_symbol`.

**Arithmetic.** `usize` = 64 bit. Sizes supplied by a caller are modelled in both build flavours
(`Mode.checked`: overflow panics; `Mode.wrapping`: optimised build). Two *safe* API functions are
unsound in the optimised build when their arguments overflow (`C02_groups_wrap_overlap_witness`,
`C02_from_buf_wrap_witness`, replayed on the release harness); no decoder call site can supply such
arguments (group sizes derive from `group_dim ≤ 8192·8`, dimensions from `u32`s), so this is
recorded as an observation, not as a violation of C02 as stated (which quantifies over inputs).
Empty groups of `into_groups_with_fixed_count` can carry a base offset beyond one-past-the-end
of the allocation (`C02_groups_empty_base_past_end_witness`): pointer arithmetic outside the
allocation without any access.
-/
namespace Jxl.Subgrid


/-- `from_buf` (build with overflow checks; an optimised build agrees whenever
`stride * (height - 1) + width` does not overflow): the sub-grid is valid for the allocation and stays
inside the slice `[off, off+len)` it was given. -/
theorem C02_from_buf_valid (off len w h stride : Nat) (g : SubGrid)
    (hf : fromBuf .checked off len w h stride = .ok g) :
    Valid (off + len) g ∧ ∀ i ∈ cells g, off ≤ i ∧ i < off + len := by
  have := fromBuf_checked_valid hf
  exact ⟨this.1, fun i hi => ⟨this.2 i hi, this.1.2 i hi⟩⟩

/-- Every operation on a valid sub-grid yields valid sub-grids only: every element offset they can
reach is `< L` (and `new`'s width/stride assertion holds). Both build flavours. -/
theorem C02_subgrid_valid (L : Nat) (g : SubGrid) (hv : Valid L g) :
    (∀ m xs xe ys ye c, subgrid m g xs xe ys ye = .ok c → Valid L c ∧ ∀ i ∈ cells c, i ∈ cells g) ∧
    (∀ x l r, splitH g x = .ok (l, r) → Valid L l ∧ Valid L r) ∧
    (∀ x l r, splitHInPlace g x = .ok (l, r) → Valid L l ∧ Valid L r) ∧
    (∀ y t b, splitV g y = .ok (t, b) → Valid L t ∧ Valid L b) ∧
    (∀ y t b, splitVInPlace g y = .ok (t, b) → Valid L t ∧ Valid L b) ∧
    (∀ b m, Valid L b → mergeH g b = .ok m → Valid L m) ∧
    (∀ b m, Valid L b → mergeV g b = .ok m → Valid L m) ∧
    (∀ m gw gh nc nr gs, intoGroupsFixed m g gw gh nc nr = .ok gs → ∀ c ∈ gs, Valid L c) ∧
    (∀ m gw gh gs, intoGroups m g gw gh = .ok gs → ∀ c ∈ gs, Valid L c) ∧
    (∀ c, borrowMut g = .ok c → Valid L c ∧ cells c = cells g) ∧
    (Valid L (asShared g) ∧ cells (asShared g) = cells g) := by
  refine ⟨?_, ?_, ?_, ?_, ?_, ?_, ?_, ?_, ?_, ?_, ?_⟩
  · intro m xs xe ys ye c h
    obtain ⟨l, t, hr⟩ := subgrid_inRect h
    exact ⟨valid_of_inRect hv hr, subset_of_inRect hr⟩
  · intro x l r h
    obtain ⟨_, hl, hr, _⟩ := splitH_spec h
    exact ⟨valid_of_inRect hv hl, valid_of_inRect hv hr⟩
  · intro x l r h
    obtain ⟨_, hl, hr, _⟩ := splitHInPlace_spec h
    exact ⟨valid_of_inRect hv hl, valid_of_inRect hv hr⟩
  · intro x l r h
    obtain ⟨_, hl, hr, _⟩ := splitV_spec h
    exact ⟨valid_of_inRect hv hl, valid_of_inRect hv hr⟩
  · intro x l r h
    obtain ⟨_, hl, hr, _⟩ := splitVInPlace_spec h
    exact ⟨valid_of_inRect hv hl, valid_of_inRect hv hr⟩
  · intro b m hb h; exact mergeH_valid hv hb h
  · intro b m hb h; exact mergeV_valid hv hb h
  · intro m gw gh nc nr gs h c hc
    rw [intoGroupsFixed_ok h] at hc
    obtain ⟨gy, _, gx, _, rfl⟩ := mem_groupsList.1 hc
    exact valid_of_inRect hv (groupOf_inRect m g gw gh gx gy)
  · intro m gw gh gs h c hc
    rw [(intoGroups_ok h).2.2] at hc
    obtain ⟨gy, _, gx, _, rfl⟩ := mem_groupsList.1 hc
    exact valid_of_inRect hv (groupOf_inRect m g gw gh gx gy)
  · intro c h
    obtain ⟨_, rfl⟩ := new_eq_ok h
    exact ⟨hv, rfl⟩
  · exact ⟨hv, rfl⟩

/-! Non-vacuity: a 5x4 grid with stride 7 at offset 3 of a 29-element allocation is valid, and
the operations succeed on it. -/
example : Valid 29 ⟨3, 5, 4, 7, none⟩ := by decide
example : subgrid .checked ⟨3, 5, 4, 7, none⟩ (.incl 1) (.excl 4) .unb (.incl 2) = .ok ⟨4, 3, 3, 7, none⟩ := by
  decide
example : subgrid .checked ⟨3, 5, 4, 7, none⟩ (.incl 1) (.excl 6) .unb .unb = .panic .subgridRight := by
  decide

/-- All four split variants: both halves are valid, share no cell, and together own exactly the
cells of the parent. -/
theorem C02_split_disjoint_cover (L : Nat) (g : SubGrid) (hv : Valid L g) (at_ : Nat) (a b : SubGrid)
    (h : splitH g at_ = .ok (a, b) ∨ splitHInPlace g at_ = .ok (a, b) ∨
         splitV g at_ = .ok (a, b) ∨ splitVInPlace g at_ = .ok (a, b)) :
    Valid L a ∧ Valid L b ∧ Disjoint a b ∧ ∀ i, i ∈ cells g ↔ i ∈ cells a ∨ i ∈ cells b := by
  rcases h with h | h | h | h
  · obtain ⟨hx, hl, hr, h1, h2, h3, h4, _⟩ := splitH_spec h
    exact ⟨valid_of_inRect hv hl, valid_of_inRect hv hr,
      disjoint_of_inRect hv.1 hl hr (Or.inl (by omega)), cover_h hl hr h1 h2 h3 h4 hx⟩
  · obtain ⟨hx, hl, hr, h1, h2, h3, h4, _⟩ := splitHInPlace_spec h
    exact ⟨valid_of_inRect hv hl, valid_of_inRect hv hr,
      disjoint_of_inRect hv.1 hl hr (Or.inl (by omega)), cover_h hl hr h1 h2 h3 h4 hx⟩
  · obtain ⟨hx, hl, hr, h1, h2, h3, h4, _⟩ := splitV_spec h
    exact ⟨valid_of_inRect hv hl, valid_of_inRect hv hr,
      disjoint_of_inRect hv.1 hl hr (Or.inr (Or.inr (Or.inl (by omega)))),
      cover_v hl hr h1 h2 h3 h4 hx⟩
  · obtain ⟨hx, hl, hr, h1, h2, h3, h4, _⟩ := splitVInPlace_spec h
    exact ⟨valid_of_inRect hv hl, valid_of_inRect hv hr,
      disjoint_of_inRect hv.1 hl hr (Or.inr (Or.inr (Or.inl (by omega)))),
      cover_v hl hr h1 h2 h3 h4 hx⟩

/-- `into_groups_with_fixed_count` / `into_groups`: no two groups (list positions) share a cell —
under `NoOverflow` (always true with overflow checks; false without it, see
`C02_groups_wrap_overlap_witness`). -/
theorem C02_groups_pairwise_disjoint (L : Nat) (g : SubGrid) (hv : Valid L g) (m : Mode)
    (gw gh nc nr : Nat) (gs : List SubGrid) (hno : NoOverflow m gw gh nc nr)
    (h : intoGroupsFixed m g gw gh nc nr = .ok gs ∨
         (intoGroups m g gw gh = .ok gs ∧ nc = ceilDiv g.w gw ∧ nr = ceilDiv g.h gh)) :
    gs.Pairwise Disjoint := by
  have hgs : gs = groupsList m g gw gh nc nr := by
    rcases h with h | ⟨h, rfl, rfl⟩
    · exact intoGroupsFixed_ok h
    · exact (intoGroups_ok h).2.2
  rw [hgs]
  exact groupsList_pairwise_noOverflow hv.1 hno

/-- Every group is valid and owns only cells of the parent, in both build flavours and for any
counts (out-of-range rows/columns give empty groups); the fixed-count variant returns exactly
`num_cols * num_rows` groups. -/
theorem C02_groups_within_parent (L : Nat) (g : SubGrid) (hv : Valid L g) (m : Mode)
    (gw gh nc nr : Nat) (gs : List SubGrid)
    (h : intoGroupsFixed m g gw gh nc nr = .ok gs ∨ intoGroups m g gw gh = .ok gs) :
    (∀ c ∈ gs, Valid L c ∧ ∀ i ∈ cells c, i ∈ cells g) ∧
    (∀ gs', intoGroupsFixed m g gw gh nc nr = .ok gs' → gs'.length = nc * nr) := by
  constructor
  · intro c hc
    have : ∃ gy gx, c = groupOf g (axisCut m gh g.h gy) (axisCut m gw g.w gx) := by
      rcases h with h | h
      · rw [intoGroupsFixed_ok h] at hc
        obtain ⟨gy, _, gx, _, rfl⟩ := mem_groupsList.1 hc
        exact ⟨gy, gx, rfl⟩
      · rw [(intoGroups_ok h).2.2] at hc
        obtain ⟨gy, _, gx, _, rfl⟩ := mem_groupsList.1 hc
        exact ⟨gy, gx, rfl⟩
    obtain ⟨gy, gx, rfl⟩ := this
    exact ⟨valid_of_inRect hv (groupOf_inRect m g gw gh gx gy),
      subset_of_inRect (groupOf_inRect m g gw gh gx gy)⟩
  · intro gs' h'
    rw [intoGroupsFixed_ok h']
    have sum_const : ∀ (l : List Nat), (l.map (fun _ => nc)).sum = nc * l.length := by
      intro l
      induction l with
      | nil => simp
      | cons a t ih => simp [ih, Nat.mul_succ]; omega
    simp [groupsList, List.length_flatMap, sum_const]

/-- `into_groups` (no overflow): every cell of the parent lies in exactly one group — there is a
position `k` whose group holds it, and no other position does. -/
theorem C02_groups_cover (L : Nat) (g : SubGrid) (hv : Valid L g) (m : Mode) (gw gh : Nat)
    (gs : List SubGrid) (hno : NoOverflow m gw gh (ceilDiv g.w gw) (ceilDiv g.h gh))
    (h : intoGroups m g gw gh = .ok gs) :
    ∀ i ∈ cells g, ∃ k, ∃ hk : k < gs.length, i ∈ cells gs[k] ∧
      ∀ k' (hk' : k' < gs.length), i ∈ cells gs[k'] → k' = k := by
  intro i hi
  obtain ⟨hw, hh, hgs⟩ := intoGroups_ok h
  have hp : gs.Pairwise Disjoint := by
    rw [hgs]; exact groupsList_pairwise_noOverflow hv.1 hno
  obtain ⟨c, hc, hic⟩ := groupsList_cover' (g := g) hw hh hno i hi
  rw [← hgs] at hc
  exact unique_index_of_pairwise hp hc hic

example : NoOverflow .wrapping 2 3 4 3 := by
  refine Or.inr ⟨fun k hk => ?_, fun k hk => ?_⟩ <;> simp only [W] <;> omega

/-- Merging the two halves of any split gives back the original geometry (only `split_base` is now
set): none of the merge assertions fails and the result is the parent. -/
theorem C02_merge_restores (L : Nat) (g : SubGrid) (hv : Valid L g) (at_ : Nat) (a b : SubGrid) :
    ((splitH g at_ = .ok (a, b) ∨ splitHInPlace g at_ = .ok (a, b)) →
      mergeH a b = .ok { g with base := some (splitBase g) }) ∧
    ((splitV g at_ = .ok (a, b) ∨ splitVInPlace g at_ = .ok (a, b)) →
      mergeV a b = .ok { g with base := some (splitBase g) }) := by
  constructor
  · intro h
    have key : at_ ≤ g.w ∧ InRect g a 0 0 ∧ InRect g b at_ 0 ∧ a.w = at_ ∧ b.w = g.w - at_ ∧
        a.h = g.h ∧ b.h = g.h ∧ a.base = some (splitBase g) ∧ b.base = some (splitBase g) := by
      rcases h with h | h
      · exact splitH_spec h
      · exact splitHInPlace_spec h
    obtain ⟨hx, hl, hr, h1, h2, h3, h4, h5, h6⟩ := key
    rw [mergeH_of_split hv.1 hx hl hr h1 h2 h3 h4 h5 h6]
    obtain ⟨lo, ls, _, _⟩ := hl
    cases a; simp_all
  · intro h
    have key : at_ ≤ g.h ∧ InRect g a 0 0 ∧ InRect g b 0 at_ ∧ a.h = at_ ∧ b.h = g.h - at_ ∧
        a.w = g.w ∧ b.w = g.w ∧ a.base = some (splitBase g) ∧ b.base = some (splitBase g) := by
      rcases h with h | h
      · exact splitV_spec h
      · exact splitVInPlace_spec h
    obtain ⟨hx, hl, hr, h1, h2, h3, h4, h5, h6⟩ := key
    rw [mergeV_of_split hx hl hr h1 h2 h3 h4 h5 h6]
    obtain ⟨lo, ls, _, _⟩ := hl
    cases a; simp_all

example : splitVInPlace ⟨3, 5, 4, 7, none⟩ 1 = .ok (⟨3, 5, 1, 7, some 3⟩, ⟨10, 5, 3, 7, some 3⟩) ∧
    mergeV ⟨3, 5, 1, 7, some 3⟩ ⟨10, 5, 3, 7, some 3⟩ = .ok ⟨3, 5, 4, 7, some 3⟩ ∧
    mergeV ⟨3, 5, 1, 7, some 3⟩ ⟨17, 5, 2, 7, some 3⟩ = .panic .mergeAdjacent := by decide

/-- merge conserves ownership whatever the two parts were: result = union, nothing else -/
theorem C02_merge_is_union (a b m : SubGrid) (h : mergeH a b = .ok m ∨ mergeV a b = .ok m) :
    ∀ i, i ∈ cells m ↔ i ∈ cells a ∨ i ∈ cells b := by
  rcases h with h | h
  · exact mergeH_cells h
  · exact mergeV_cells h

/-- `get*`/`get_row*`: inside the reported dimensions the index formula stays below `L`; outside
them the call panics instead of touching memory; a row slice lies inside the buffer. -/
theorem C02_get_in_bounds (L : Nat) (g : SubGrid) (hv : Valid L g) (x y : Nat) :
    (x < g.w → y < g.h → get g x y = .ok (index g x y) ∧ index g x y < L) ∧
    (¬ (x < g.w ∧ y < g.h) → get g x y = .panic .coord) ∧
    (∀ s n, getRow g y = .ok (s, n) → y < g.h ∧ n = g.w ∧ ∀ k, k < n → s + k < L) := by
  refine ⟨fun hx hy => ⟨?_, hv.2 _ (mem_cells.2 ⟨y, hy, x, hx, rfl⟩)⟩, fun hn => ?_, ?_⟩
  · simp [get]; omega
  · simp [get]; omega
  · intro s n h
    unfold getRow at h
    split at h
    · cases h
    · injection h with h; injection h with h1 h2
      subst h1 h2
      refine ⟨by omega, rfl, fun k hk => hv.2 _ (mem_cells.2 ⟨y, by omega, k, hk, rfl⟩)⟩


/-- Optimised build, safe API: `into_groups_with_fixed_count(4, 2^63, 1, 3)` on a valid 4x4 grid
returns the *same* 16 cells twice (`2 * 2^63` wraps to 0): groups 0 and 2 alias. -/
theorem C02_groups_wrap_overlap_witness :
    Valid 16 ⟨0, 4, 4, 4, none⟩ ∧
    intoGroupsFixed .wrapping ⟨0, 4, 4, 4, none⟩ 4 (2 ^ 63) 1 3 =
      .ok [⟨0, 4, 4, 4, some 0⟩, ⟨16, 4, 0, 4, some 0⟩, ⟨0, 4, 4, 4, some 0⟩] ∧
    ¬ [(⟨0, 4, 4, 4, some 0⟩ : SubGrid), ⟨16, 4, 0, 4, some 0⟩, ⟨0, 4, 4, 4, some 0⟩].Pairwise Disjoint ∧
    intoGroupsFixed .checked ⟨0, 4, 4, 4, none⟩ 4 (2 ^ 63) 1 3 = .panic .arith := by
  refine ⟨by decide, by decide, ?_, by decide⟩
  intro h
  rw [List.pairwise_iff_getElem] at h
  exact h 0 2 (by decide) (by decide) (by decide) 0 (by decide) (by decide)

/-- Optimised build, safe API: `from_buf` of a 1-element slice accepts a 1x3 grid with stride
`2^63` (`stride * (height - 1)` wraps to 0); its second row lies far outside the slice. -/
theorem C02_from_buf_wrap_witness :
    fromBuf .wrapping 0 1 1 3 (2 ^ 63) = .ok ⟨0, 1, 3, 2 ^ 63, none⟩ ∧
    ¬ Valid 1 ⟨0, 1, 3, 2 ^ 63, none⟩ ∧
    fromBuf .checked 0 1 1 3 (2 ^ 63) = .panic .arith := by
  refine ⟨by decide, ?_, by decide⟩
  intro h
  have := h.2 (2 ^ 63) (mem_cells.2 ⟨1, by decide, 0, by decide, by simp⟩)
  omega

example : Valid 29 ⟨3, 5, 4, 7, none⟩ := by decide
example : splitH ⟨3, 5, 4, 7, none⟩ 2 = .ok (⟨3, 2, 4, 7, some 3⟩, ⟨5, 3, 4, 7, some 3⟩) := by decide
example : intoGroups .checked ⟨3, 5, 4, 7, none⟩ 2 3 = .ok
    [⟨3, 2, 3, 7, some 3⟩, ⟨5, 2, 3, 7, some 3⟩, ⟨7, 1, 3, 7, some 3⟩,
     ⟨24, 2, 1, 7, some 3⟩, ⟨26, 2, 1, 7, some 3⟩, ⟨28, 1, 1, 7, some 3⟩] := by decide
example : (intoGroupsFixed .checked ⟨3, 5, 4, 7, none⟩ 2 3 4 3) = .ok
    [⟨3, 2, 3, 7, some 3⟩, ⟨5, 2, 3, 7, some 3⟩, ⟨7, 1, 3, 7, some 3⟩, ⟨8, 0, 3, 7, some 3⟩,
     ⟨24, 2, 1, 7, some 3⟩, ⟨26, 2, 1, 7, some 3⟩, ⟨28, 1, 1, 7, some 3⟩, ⟨29, 0, 1, 7, some 3⟩,
     ⟨31, 2, 0, 7, some 3⟩, ⟨33, 2, 0, 7, some 3⟩, ⟨35, 1, 0, 7, some 3⟩, ⟨36, 0, 0, 7, some 3⟩] := by
  decide
example : fromBuf .checked 3 26 5 4 7 = .ok ⟨3, 5, 4, 7, none⟩ ∧
    fromBuf .checked 3 25 5 4 7 = .panic .fromBufLen := by decide
example : mergeH ⟨3, 2, 4, 7, some 3⟩ ⟨5, 3, 3, 7, some 3⟩ = .panic .mergeHeight := by decide

/-- Observation: for out-of-range rows/columns `into_groups_with_fixed_count` forms (empty) groups
whose base offset lies beyond one-past-the-end of the allocation: `ptr.add` leaves the allocation,
although no element is ever accessed through such a group. -/
theorem C02_groups_empty_base_past_end_witness :
    Valid 29 ⟨3, 5, 4, 7, none⟩ ∧
    ∃ gs, intoGroupsFixed .checked ⟨3, 5, 4, 7, none⟩ 2 3 4 3 = .ok gs ∧
      ∃ c ∈ gs, cells c = [] ∧ 29 < c.off := by
  refine ⟨by decide, _, rfl, ⟨36, 0, 0, 7, some 3⟩, by decide, by decide, by decide⟩

end Jxl.Subgrid

namespace Jxl.Unchecked

/-- `Bitstream::refill`: in every history of public reader operations starting from
`Bitstream::new(bytes)` (`bytes.len() = N`), whenever the fast path runs, at least 8 bytes remain
(the 8-byte read is in bounds), it advances by `read_bytes < 8 ≤ len` (the new slice
`from_raw_parts(ptr.add(read_bytes), len - read_bytes)` lies inside the old one), and
`remaining_buf_bits ≤ 63` always (so `63 - remaining_buf_bits` never wraps in an optimised build). -/
theorem C02_refill_in_bounds (N : Nat) (hN : N < W) (ops : List BsOp) :
    (∀ e ∈ (run (bsNew N) ops).2, 8 ≤ e.len ∧ e.adv < 8 ∧ e.adv ≤ e.len ∧ e.len ≤ N) ∧
    (run (bsNew N) ops).1.rem ≤ 63 ∧ (run (bsNew N) ops).1.len ≤ N := by
  have h := run_inv hN ops (bsNew N) ⟨by simp [bsNew], by simp [bsNew]⟩
  refine ⟨fun e he => ?_, h.1.1, h.1.2⟩
  obtain ⟨⟨h8, hle, hlt⟩, hn⟩ := h.2 e he
  exact ⟨h8, hlt, hle, hn⟩

example : (run (bsNew 12) [.read 3, .skip 40, .pad, .read 32, .read 32]).2 = [⟨12, 7⟩] ∧
    (run (bsNew 12) [.read 3, .skip 40, .pad, .read 32, .read 32]).1 = ⟨0, 16, 80⟩ := by decide

/-- ANS `get_unchecked(i)`: for every `log_alphabet_size = 5 + u(2)`, every bucket table built from
a `dist` vector of `table_size` entries (all an accepted histogram can produce) and every 32-bit
state (indeed any state), `i = (state & 0xfff) >> log_bucket_size` is below the table length. -/
theorem C02_ans_index_in_bounds {β : Type} (mk : Nat → Nat → β) (u2 : Nat) (hu : u2 < 4)
    (dist : List Nat) (hd : dist.length = tableSize (logAlphabetSize u2)) (state : Nat) :
    ansIndex state (logBucketSize (logAlphabetSize u2)) < (buckets mk dist).length := by
  rw [buckets_length, hd]
  exact ansIndex_lt u2 state hu

example : tableSize (logAlphabetSize 3) = 256 ∧ logBucketSize (logAlphabetSize 3) = 4 ∧
    ansIndex 0xffffffff 4 = 255 := by decide

/-- Access plans of `inverse_h_i16_x86_64_avx2` / `_sse41`: for every width and height, every
raw-pointer access `(row, offset, lanes)` stays inside its row (`offset + lanes ≤ width`) and inside
the grid (`row < height`). -/
theorem C02_squeeze_plan_in_bounds (k : Kernel) (w h : Nat) :
    ∀ a ∈ plan k w h, a.offset + a.lanes ≤ w ∧ a.row < h ∧ 1 ≤ a.lanes :=
  plan_bounds k w h

/-- The `MaybeUninit` scratch (`vec![uninit; width]`) of the same kernels: every index touched is
`< width`, and every `assume_init_read` of an index is preceded by a `write` of that index. -/
theorem C02_squeeze_scratch_written_before_read (k : Kernel) (w : Nat) (hw : k.minWidth < w)
    (hW : w < W) : WrittenBeforeRead w (scratchPlan k w) := by
  unfold scratchPlan
  cases k
  · exact writtenBeforeRead_of_cover (scratchWritesAvx2_lt (by simpa [Kernel.minWidth] using hw) hW)
      (scratchWritesAvx2_cover (by simpa [Kernel.minWidth] using hw) hW)
  · exact writtenBeforeRead_of_cover (scratchWritesSse41_lt (by simpa [Kernel.minWidth] using hw) hW)
      (scratchWritesSse41_cover (by simpa [Kernel.minWidth] using hw) hW)

example : (plan .avx2 37 9).length = 112 ∧ (plan .sse41 17 8).length = 48 ∧
    scratchOk 37 (scratchPlan .avx2 37) [] = true ∧ scratchOk 130 (scratchPlan .sse41 130) [] = true := by
  decide +kernel

/-- `TransformType::try_from(u8)` (jxl-vardct/src/dct_select.rs) transmutes the byte into the
`#[repr(u8)]` enum: every byte its guard lets through is a declared discriminant, and every declared
discriminant is let through. Guard and variant count are regenerated from the source on every run. -/
theorem C02_transform_type_transmute_valid :
    (∀ v, v < 256 → Jxl.Gen.TransformType.accepts v = true → v < Jxl.Gen.TransformType.numVariants) ∧
    (∀ v, v < Jxl.Gen.TransformType.numVariants → Jxl.Gen.TransformType.accepts v = true) ∧
    Jxl.Gen.TransformType.numVariants ≤ 256 := by
  decide +kernel

end Jxl.Unchecked
