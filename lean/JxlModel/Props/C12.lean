import JxlModel.Proofs.Narrow
/-!
# C12 — 16-bit and 32-bit Modular buffers give identical results

The decoder instantiates the whole Modular pipeline at `i16` when the image header says
`modular_16bit_buffers` (and wide buffers are not forced), at `i32` otherwise
(`jxl-render/src/lib.rs: narrow_modular`). In the model every sample operation takes the sample
width `sb`; the narrow run is `sb = 16`, the wide run `sb = 32`.

## What "truthfully declares that 16-bit buffers suffice" means here

`Truthful…` below: **every listed value of the wide (`sb = 32`) run is an `i16`**. The lists
(`wideSamples`, `decodeChannelsWide`, `unsqueezeLineTrace`, `rctTrace`, `inverseAllTrace`, … in
`Model/Modular/Narrow.lean`) are executable — the driver (`jxlmodel c12`, ops `sq`, `rct`,
`range`) evaluates them for every generated case — and minimal:

* token level (`unpack`, `mul-add`, `from_i32`, `add`): only the **decoded sample**; the
  unpacked token, the scaled residual and the prediction may be anything, because these are ring
  operations and truncation to 16 bits is a ring homomorphism (`C12_sampleOf_narrow_is_truncation`);
* RCT: the three results, and for types 4/5 the sum `a + f` that is halved; types 0–3 and 6
  are ring operations on the inputs (`C12_rct_ring_types_narrow_is_truncation`);
* squeeze: per reconstructed pair `diff`, `first`, `second`, the numerator
  `4a − 3c − b ± 6` of `tendency` and the operand differences `left − a`, `a − next`.
  The partial products `4a`, `3c` need **not** fit (the `i16` code computes the numerator modulo
  `2^16`), the numerator itself must: with `i16` operands whose numerator is 35006 the `i16` and
  `i32` `tendency` differ (`C12_tendency_numerator_must_fit`). For 12-bit samples after one RCT
  (`|v| ≤ 4095`) the numerator is at most `4·8190 + 6 = 32766`, so it fits — with 1 to spare
  (`C12_tendency_numerator_fits_12bit`). The two differences are not needed by the scalar code
  (the theorems about it ignore them) but by the vector kernels, which form them in 16-bit lanes
  before testing monotonicity (`C12_vector_tendency_needs_differences`);
* palette: the expanded value and the `i32` value of the delta pass.

The theorems: per operation (`C12_<op>_narrow_eq_wide`), per channel, for the token decoder of a
whole sub-image (`C12_decode…`, `C12_decodeChannels…`), for the whole inverse transform chain
(`C12_inverseAll…`), and their composition (`C12_subimage_narrow_eq_wide`).

The AVX2/SSE4.1 squeeze kernels use a different formula for `tendency`
(`(|a−b|/3 + |a−c| + 2) >> 2` on absolute differences, `mulhi` by `0x5556` for the division by 3,
sign restored at the end) and `(d + (d >>> 15)) >> 1` for `d / 2`. Their **lane semantics** is
transcribed (`tendencyVec`, `halveVec`, `unsqueezeGoVec`) and proved equal to the wide scalar line
under the same hypothesis (`C12_vector_lane_*`). Their **data movement** (8/16-row transposes,
head/tail handling per width class, the fall-backs to the scalar kernel) is not modelled: it is
pinned to the scalar kernels by exhaustive-width runs through hook H7.

Not covered by theorems (tied by the differential run only): that data movement, the group
partition and re-assembly, the conversion of Modular samples to the frame buffer, and that the
model mirrors `jxl-modular` (C03's correspondence plus the `c12` kernel runs).
-/
namespace Jxl.Modular

/-! ## Algebra of truncation -/

/-- `i32 as i16`: truncating the wide value gives the narrow value -/
theorem C12_wrap16_wrap32 (x : Int) : wrap 16 (wrap 32 x) = wrap 16 x :=
  wrap_wrap_of_le 16 32 (by omega) x

/-- truncation is a ring homomorphism modulo `2^n`: addition … -/
theorem C12_wrap_add (n : Nat) (a b : Int) : wrap n (a + b) = wrap n (wrap n a + wrap n b) :=
  wrap_add n a b
/-- … subtraction … -/
theorem C12_wrap_sub (n : Nat) (a b : Int) : wrap n (a - b) = wrap n (wrap n a - wrap n b) :=
  wrap_sub n a b
/-- … multiplication -/
theorem C12_wrap_mul (n : Nat) (a b : Int) : wrap n (a * b) = wrap n (wrap n a * wrap n b) :=
  wrap_mul n a b

/-- a wide value that is an `i16` is its own truncation -/
theorem C12_narrow_of_wide_fits (x : Int) (h : I16 (wrap 32 x)) : wrap 16 x = wrap 32 x :=
  narrow_of_wide_fits x h

/-! ## Sample operations (`jxl-modular/src/sample.rs`) -/

theorem C12_sUnpack_narrow_eq_wide (tok : Nat) (h : I16 (sUnpack 32 tok)) :
    sUnpack 16 tok = sUnpack 32 tok := by
  rw [sUnpack_trunc, wrap16_of_I16 _ h]

theorem C12_sAdd_narrow_eq_wide (a b : Int) (h : I16 (sAdd 32 a b)) : sAdd 16 a b = sAdd 32 a b := by
  rw [sAdd_trunc, wrap16_of_I16 _ h]

theorem C12_sMulAdd_narrow_eq_wide (a mul add : Int) (h : I16 (sMulAdd 32 a mul add)) :
    sMulAdd 16 a mul add = sMulAdd 32 a mul add := by
  rw [sMulAdd_trunc, wrap16_of_I16 _ h]

theorem C12_sFromI32_narrow_eq_wide (v : Int) (h : I16 (sFromI32 32 v)) :
    sFromI32 16 v = sFromI32 32 v := by
  rw [sFromI32_trunc, wrap16_of_I16 _ h]

/-- ring operations: narrow on truncated operands = truncation of wide, **no range hypothesis** -/
theorem C12_sAdd_narrow_is_truncation (a b : Int) :
    sAdd 16 (wrap 16 a) (wrap 16 b) = wrap 16 (sAdd 32 a b) := sAdd_trunc_operands a b

theorem C12_sMulAdd_narrow_is_truncation (a mul add : Int) :
    sMulAdd 16 (wrap 16 a) mul add = wrap 16 (sMulAdd 32 a mul add) := sMulAdd_trunc_operands a mul add

/-- the Rust `i16` mul-add truncates the `i32` multiplier and offset first; same result -/
theorem C12_sMulAdd16_truncated_operands (a mul add : Int) :
    wrap 16 (wrap 16 (a * wrap 16 mul) + wrap 16 add) = sMulAdd 16 a mul add :=
  sMulAdd16_truncated_operands a mul add

/-- `grad_clamped` is computed in a wider type by both implementations and lies between its
operands: no truncation happens at either width -/
theorem C12_gradClamped_narrow_eq_wide (n w nw : Int) (hn : I16 n) (hw : I16 w) :
    wrap 16 (gradClamped n w nw) = gradClamped n w nw ∧
    wrap 32 (gradClamped n w nw) = gradClamped n w nw :=
  ⟨wrap16_of_I16 _ (gradClamped_I16 n w nw hn hw),
   wrap32_of_I32 _ (I32_of_I16 (gradClamped_I16 n w nw hn hw))⟩

/-- one decoded sample (`decode_one`): narrow = truncation of wide for **every** token, leaf
(multiplier, offset) and prediction -/
theorem C12_sampleOf_narrow_is_truncation (leaf : Leaf) (pred : Int) (tok : Nat) :
    sampleOf 16 leaf pred tok = wrap 16 (sampleOf 32 leaf pred tok) := sampleOf_trunc leaf pred tok

theorem C12_sampleOf_narrow_eq_wide (leaf : Leaf) (pred : Int) (tok : Nat)
    (h : I16 (sampleOf 32 leaf pred tok)) : sampleOf 16 leaf pred tok = sampleOf 32 leaf pred tok :=
  sampleOf_narrow_eq_wide leaf pred tok h

/-! ## Squeeze (`transform/squeeze.rs`) -/

/-- `tendency_i16 = tendency_i32` as soon as the numerator `4a − 3c − b ± 6` is an `i16`
(nothing is assumed about `4a`, `3c`, or even about `a`, `b`, `c` themselves) -/
theorem C12_tendency_narrow_eq_wide (a b c : Int) (h : I16 (tendencyNum a b c)) :
    tendency 16 a b c = tendency 32 a b c := tendency_narrow_eq_wide a b c h

/-- the hypothesis cannot be weakened to "operands and result fit": `i16` operands, `i16`
result, numerator 35006 -/
theorem C12_tendency_numerator_must_fit :
    I16 10000 ∧ I16 5000 ∧ I16 0 ∧ I16 (tendency 32 10000 5000 0) ∧
    ¬ I16 (tendencyNum 10000 5000 0) ∧ tendency 16 10000 5000 0 ≠ tendency 32 10000 5000 0 := by
  decide

/-- … whereas an overflowing partial product is harmless: `4a` is 32800 resp. 48000 -/
theorem C12_tendency_partial_products_may_overflow :
    ¬ I16 (4 * 8200) ∧ I16 (tendencyNum 8200 8200 8200) ∧
    tendency 16 8200 8200 8200 = tendency 32 8200 8200 8200 ∧
    ¬ I16 (4 * 12000) ∧ I16 (tendencyNum 12000 11000 9000) ∧
    tendency 16 12000 11000 9000 = tendency 32 12000 11000 9000 := by
  decide

/-- 12-bit samples, also after one RCT (`|v| ≤ 4095`): the numerator always fits -/
theorem C12_tendency_numerator_fits_12bit (a b c : Int)
    (ha : -4095 ≤ a ∧ a ≤ 4095) (hc : -4095 ≤ c ∧ c ≤ 4095) :
    I16 (tendencyNum a b c) := by
  unfold tendencyNum I16
  split
  · omega
  · split <;> omega

/-- one lane of the AVX2/SSE4.1 `tendency` = the wide scalar `tendency`, for `i16` lane contents
whose differences and numerator fit -/
theorem C12_vector_lane_tendency_eq_wide (a b c : Int) (ha : I16 a) (hc : I16 c)
    (hab : I16 (a - b)) (hbc : I16 (b - c)) (h : I16 (tendencyNum a b c)) :
    tendencyVec a b c = tendency 32 a b c := tendencyVec_eq_wide a b c ha hc hab hbc h

/-- the differences are needed: `i16` operands, not monotone (scalar result 0, numerator 0), but
`a − b = 60000` wraps in its lane, the sign test sees a monotone triple and the lane returns
garbage -/
theorem C12_vector_tendency_needs_differences :
    I16 30000 ∧ I16 (-30000) ∧ I16 (-20000) ∧ I16 (tendencyNum 30000 (-30000) (-20000)) ∧
    tendency 16 30000 (-30000) (-20000) = 0 ∧ tendency 32 30000 (-30000) (-20000) = 0 ∧
    tendencyVec 30000 (-30000) (-20000) ≠ 0 := by decide

/-- outside the hypothesis the vector lane is *closer* to the wide result than the scalar `i16`
code: numerator 35006, the lane still returns the wide value 2917, the scalar `i16` code −2544 -/
theorem C12_vector_lane_more_tolerant_than_scalar :
    tendencyVec 10000 5000 0 = tendency 32 10000 5000 0 ∧ tendency 32 10000 5000 0 = 2917 ∧
    tendency 16 10000 5000 0 = -2544 := by decide

/-- the vector kernels' halving = Rust's truncating `diff / 2` -/
theorem C12_vector_lane_halve_eq_tdiv (d : Int) (h : I16 d) : halveVec d = tdiv d 2 :=
  halveVec_eq_tdiv d h

/-- a whole line through the lane operations of the vector kernels = the wide scalar line -/
theorem C12_vector_lane_line_eq_wide (avg res : List Int) (havg : ∀ v ∈ avg, I16 v)
    (h : ∀ v ∈ unsqueezeLineTrace avg res, I16 v) :
    unsqueezeLineVec avg res = unsqueezeLine 32 avg res := by
  unfold unsqueezeLineVec unsqueezeLine unsqueezeLineG
  cases avg with
  | nil => simp [unsqueezeGo, unsqueezeGoVec]
  | cons a as =>
    exact unsqueezeGoVec_eq_wide (a :: as) res a havg (havg a List.mem_cons_self) h

/-- inverse squeeze of one line -/
theorem C12_unsqueezeLine_narrow_eq_wide (avg res : List Int)
    (h : ∀ v ∈ unsqueezeLineTrace avg res, I16 v) :
    unsqueezeLine 16 avg res = unsqueezeLine 32 avg res := unsqueezeLine_narrow_eq_wide avg res h

/-- inverse squeeze of a channel pair, horizontal or vertical -/
theorem C12_unsqueezeChan_narrow_eq_wide (horizontal : Bool) (avg res : Chan)
    (h : ∀ v ∈ unsqueezeChanTrace horizontal avg res, I16 v) :
    unsqueezeChan 16 horizontal avg res = unsqueezeChan 32 horizontal avg res :=
  unsqueezeChan_narrow_eq_wide horizontal avg res h

/-! ## RCT (`transform/rct.rs`) -/

/-- every type (0..6; other numbers behave as the code does) -/
theorem C12_rctInvSample_narrow_eq_wide (ty : Nat) (a b c : Int) (h : ∀ v ∈ rctTrace ty a b c, I16 v) :
    rctInvSample 16 ty a b c = rctInvSample 32 ty a b c := rct_narrow_eq_wide ty a b c h

/-- types 0–3 and 6 on `i16` inputs: narrow = componentwise truncation of wide, no range
hypothesis on anything computed -/
theorem C12_rct_ring_types_narrow_is_truncation (ty : Nat) (a b c : Int) (hty : ty = 6 ∨ ty / 2 ≠ 2)
    (ha : I16 a) (hb : I16 b) (hc : I16 c) :
    rctInvSample 16 ty a b c =
      (wrap 16 (rctInvSample 32 ty a b c).1, wrap 16 (rctInvSample 32 ty a b c).2.1,
       wrap 16 (rctInvSample 32 ty a b c).2.2) := rct_narrow_trunc_of_ring ty a b c hty ha hb hc

/-- whole channels, all 42 `rct_type`s (type and permutation) -/
theorem C12_rctInverse_narrow_eq_wide (rctType : Nat) (a b c : Chan)
    (h : ∀ v ∈ rctChanTrace rctType a b c, I16 v) :
    rctInverse 16 rctType a b c = rctInverse 32 rctType a b c :=
  rctInverse_narrow_eq_wide rctType a b c h

/-! ## Palette (`transform/palette.rs`) -/

theorem C12_paletteValue_narrow_eq_wide (pal : Chan) (nbColours bitDepth : Nat) (index : Int) (c : Nat)
    (h : I16 (paletteValue 32 pal nbColours bitDepth index c)) :
    paletteValue 16 pal nbColours bitDepth index c = paletteValue 32 pal nbColours bitDepth index c :=
  paletteValue_narrow_eq_wide pal nbColours bitDepth index c h

theorem C12_paletteDeltaPass_narrow_eq_wide (dPred : Nat) (wp : Wp) (isDelta : Nat → Nat → Bool) (c : Chan)
    (h : ∀ v ∈ paletteDeltaTrace dPred wp isDelta c, I16 v) :
    paletteDeltaPass 16 dPred wp isDelta c = paletteDeltaPass 32 dPred wp isDelta c :=
  paletteDeltaPass_narrow_eq_wide dPred wp isDelta c h

/-! ## Lifted: token decoder, transform chain, sub-image -/

/-- **Token decoder.** For every way of finding leaves (any tree / flattening), every predictor
state, previous-channel set, sample count and token list: if every sample the *wide* decoder
produces is an `i16`, the narrow decoder produces the same samples, consumes the same tokens,
ends in the same state — or fails at the same point. -/
theorem C12_decode_narrow_eq_wide (leafOf : LeafOf) (prev : List Chan) (n : Nat) (ps : PState)
    (toks : List Nat) (h : ∀ v ∈ wideSamples leafOf prev n ps toks, I16 v) :
    decodeSamples 16 leafOf prev n ps toks = decodeSamples 32 leafOf prev n ps toks :=
  decode_narrow_eq_wide leafOf prev n ps toks h

/-- the same with the hypothesis on the successful wide result -/
theorem C12_decode_narrow_eq_wide_of_result (leafOf : LeafOf) (prev : List Chan) (n : Nat) (ps : PState)
    (toks : List Nat) (vs : List Int) (rest : List Nat) (ps' : PState)
    (hw : decodeSamples 32 leafOf prev n ps toks = some (vs, rest, ps')) (h : ∀ v ∈ vs, I16 v) :
    decodeSamples 16 leafOf prev n ps toks = some (vs, rest, ps') := by
  rw [← hw]
  apply decode_narrow_eq_wide
  rw [wideSamples_of_decode leafOf prev n ps toks vs rest ps' hw]
  exact h

/-- the weaker form "every value of the wide run — unpacked token, scaled residual, prediction,
sample — is an `i16`" -/
theorem C12_decode_narrow_eq_wide_of_trace (leafOf : LeafOf) (prev : List Chan) (n : Nat) (ps : PState)
    (toks : List Nat) (h : ∀ v ∈ decodeTrace leafOf prev n ps toks, I16 v) :
    decodeSamples 16 leafOf prev n ps toks = decodeSamples 32 leafOf prev n ps toks :=
  decode_narrow_eq_wide leafOf prev n ps toks
    (fun v hv => h v (wideSamples_subset_trace leafOf prev n ps toks v hv))

/-- all channels of a sub-image (`decode_inner`), incl. previous-channel properties -/
theorem C12_decodeChannels_narrow_eq_wide (tree : Tree) (wp : Wp) (stream : Nat)
    (infos : List ChanInfo) (idx : Nat) (done : List (ChanInfo × Chan)) (tokens : List Nat)
    (h : ∀ v ∈ decodeChannelsWide tree wp stream infos idx done tokens, I16 v) :
    decodeChannels 16 tree wp stream infos idx done tokens =
      decodeChannels 32 tree wp stream infos idx done tokens :=
  decodeChannels_narrow_eq_wide tree wp stream infos idx done tokens h

/-- **Transform chain.** Any list of (resolved) transforms — RCT, palette incl. delta entries
with any predictor, squeeze with any parameters — on any channel list. -/
theorem C12_inverseAll_narrow_eq_wide (bitDepth : Nat) (wp : Wp) (ts : List Transform) (chans : List Chan)
    (h : ∀ v ∈ inverseAllTrace bitDepth wp ts chans, I16 v) :
    inverseAll 16 bitDepth wp ts chans = inverseAll 32 bitDepth wp ts chans :=
  inverseAll_narrow_eq_wide bitDepth wp ts chans h

/-- the wide run of one Modular sub-image: decoded samples, then the transform chain -/
def TruthfulSubimage (bitDepth : Nat) (tree : Tree) (wp : Wp) (stream : Nat) (infos : List ChanInfo)
    (ts : List Transform) (tokens : List Nat) : Prop :=
  (∀ v ∈ decodeChannelsWide tree wp stream infos 0 [] tokens, I16 v) ∧
  (∀ chans rest, decodeChannels 32 tree wp stream infos 0 [] tokens = some (chans, rest) →
    ∀ v ∈ inverseAllTrace bitDepth wp ts chans, I16 v)

/-- **Sub-image.** Tokens → samples → inverse transforms: a truthful sub-image decodes to the
same channels at both widths (and fails at both widths if it fails). -/
theorem C12_subimage_narrow_eq_wide (bitDepth : Nat) (tree : Tree) (wp : Wp) (stream : Nat)
    (infos : List ChanInfo) (ts : List Transform) (tokens : List Nat)
    (h : TruthfulSubimage bitDepth tree wp stream infos ts tokens) :
    (decodeChannels 16 tree wp stream infos 0 [] tokens).map (fun r => inverseAll 16 bitDepth wp ts r.1) =
    (decodeChannels 32 tree wp stream infos 0 [] tokens).map (fun r => inverseAll 32 bitDepth wp ts r.1) := by
  obtain ⟨h1, h2⟩ := h
  rw [decodeChannels_narrow_eq_wide tree wp stream infos 0 [] tokens h1]
  apply Option.map_congr
  intro p hp
  exact inverseAll_narrow_eq_wide bitDepth wp ts p.1 (h2 p.1 p.2 hp)

/-- **Frame, partial.** Every stream of a frame (LfGlobal and one per pass group; each with its
own stream index, channel list and tokens) decodes to the same channels at both widths when each
stream's wide samples are `i16`. -/
theorem C12_frame_narrow_eq_wide_partial (tree : Tree) (wp : Wp)
    (streams : List (Nat × List ChanInfo × List Nat))
    (h : ∀ s ∈ streams, ∀ v ∈ decodeChannelsWide tree wp s.1 s.2.1 0 [] s.2.2, I16 v) :
    streams.map (fun s => decodeChannels 16 tree wp s.1 s.2.1 0 [] s.2.2) =
    streams.map (fun s => decodeChannels 32 tree wp s.1 s.2.1 0 [] s.2.2) := by
  apply List.map_congr_left
  intro s hs
  exact decodeChannels_narrow_eq_wide tree wp s.1 s.2.1 0 [] s.2.2 (h s hs)

/-
Full statement not proved (`C12_frame_narrow_eq_wide`): for a whole frame — LfGlobal stream plus
one stream per pass group, channels cut into group rectangles, decoded per group with
`decodeChannels`, pasted back, then `inverseAll` — the narrow and the wide decode agree when every
group's `decodeChannelsWide` and the frame's `inverseAllTrace` are `i16`. The partition and the
pasting move samples without arithmetic and do not depend on `sb`; they exist in the model only
inside `Enc.encodeFrame` (not as a function of `sb` alone), so the composition is checked by the
differential run (multi-group images), not stated as a theorem. `C12_subimage_narrow_eq_wide` is
the single-stream case, `C12_frame_narrow_eq_wide_partial` the per-stream part of the general case
(the transform chain on the pasted channels is `C12_inverseAll_narrow_eq_wide`).
-/

/-! ## Non-vacuity: concrete 12-bit data -/

/-- a 12-bit line with full-range swings, squeezed by the reference encoder -/
def c12ExLine : List Int := [4095, 0, 4095, 4095, 17, 2048, 0, 0, 4095, 1, 3000]

example : (squeezeLine 32 c12ExLine) = ([2048, 4095, 1032, 0, 2048, 3000], [4096, 0, -3310, 0, 5015]) := by
  decide +kernel
example : allI16 (unsqueezeLineTrace (squeezeLine 32 c12ExLine).1 (squeezeLine 32 c12ExLine).2) = true := by
  decide +kernel
example : unsqueezeLine 16 (squeezeLine 32 c12ExLine).1 (squeezeLine 32 c12ExLine).2 = c12ExLine := by
  decide +kernel
example : unsqueezeLine 32 (squeezeLine 32 c12ExLine).1 (squeezeLine 32 c12ExLine).2 = c12ExLine := by
  decide +kernel

example : unsqueezeLineVec (squeezeLine 32 c12ExLine).1 (squeezeLine 32 c12ExLine).2 = c12ExLine := by
  decide +kernel
example : tendencyVec 4095 0 (-4095) = 2389 ∧ tendencyVec (-4095) 0 4095 = -2389 ∧
    tendencyVec 4095 (-4095) (-4095) = 0 ∧ tendencyVec 0 100 0 = 0 := by decide

/-- chroma-like values after an RCT (`|v| ≤ 4095`), extreme monotone run: numerator 32766 -/
example : tendencyNum 4095 (-4095) (-4095) = 32766 ∧ I16 (tendencyNum 4095 (-4095) (-4095)) := by decide
example : tendency 16 4095 (-4095) (-4095) = 0 ∧ tendency 32 4095 (-4095) (-4095) = 0 := by decide
example : tendency 16 4095 0 (-4095) = tendency 32 4095 0 (-4095) ∧ tendency 32 4095 0 (-4095) = 2389 := by decide

/-- 12-bit RGB through the forward YCoCg-style RCT (type 6) and back at both widths -/
example : rctFwdSample 6 4095 0 4095 = (2047, 0, -4095) := by decide
example : allI16 (rctTrace 6 2047 0 (-4095)) = true := by decide
example : rctInvSample 16 6 2047 0 (-4095) = (4095, 0, 4095) ∧
    rctInvSample 32 6 2047 0 (-4095) = (4095, 0, 4095) := by decide
example : allI16 (rctTrace 4 4095 (-2000) 4095) = true ∧
    rctInvSample 16 4 4095 (-2000) 4095 = rctInvSample 32 4 4095 (-2000) 4095 := by decide

/-- outside the hypothesis the two widths do differ (so the theorems are not about nothing):
type 4 halves `a + f = 40000` -/
example : allI16 (rctTrace 4 20000 0 20000) = false ∧
    rctInvSample 16 4 20000 0 20000 ≠ rctInvSample 32 4 20000 0 20000 := by decide

/-- a 12-bit channel, a tree with the gradient and the weighted predictor, narrow = wide -/
def c12ExTree : Tree :=
  .dec 9 3 (.leaf { ctx := 0, pred := 5, offset := 0, mul := 1 })
    (.dec 3 1 (.leaf { ctx := 1, pred := 6, offset := 1, mul := 1 })
              (.leaf { ctx := 2, pred := 13, offset := 0, mul := 1 }))

def c12ExChan : Chan := { w := 4, h := 3, data := #[4095, 9, 2000, 7, 0, 4095, 13, 13, 900, 4091, 4092, 1] }

def c12ExInfo : ChanInfo := { w := 4, h := 3, hshift := 0, vshift := 0 }

def c12ExToks : List Nat := ((encodeChannel 16 c12ExTree {} 0 0 c12ExChan []).getD []).map (·.2)

example : c12ExToks.length = 12 := by decide +kernel
example : allI16 (decodeChannelsWide c12ExTree {} 0 [c12ExInfo] 0 [] c12ExToks) = true := by decide +kernel
example : (decodeChannels 16 c12ExTree {} 0 [c12ExInfo] 0 [] c12ExToks).map (·.1.map (·.data.toList)) =
    some [c12ExChan.data.toList] := by decide +kernel
example : (decodeChannels 32 c12ExTree {} 0 [c12ExInfo] 0 [] c12ExToks).map (·.1.map (·.data.toList)) =
    some [c12ExChan.data.toList] := by decide +kernel

/-- a two-channel-pair squeeze + RCT chain on 12-bit data is within the hypothesis -/
def c12ExRgb : List Chan := [
  { w := 4, h := 2, data := #[4095, 0, 4095, 4095, 17, 2048, 0, 0] },
  { w := 4, h := 2, data := #[0, 4095, 1, 3000, 4095, 4095, 0, 1] },
  { w := 4, h := 2, data := #[4095, 4095, 0, 0, 1, 2, 4095, 0] }]

def c12ExTs : List Transform :=
  [.rct 0 6, .squeeze [{ horizontal := true, inPlace := true, beginC := 0, numC := 3 }]]

def c12ExCoded : List Chan := (forwardAll 32 c12ExTs [] c12ExRgb).getD []

example : c12ExCoded.length = 6 := by decide +kernel
example : allI16 (inverseAllTrace 12 {} c12ExTs c12ExCoded) = true := by decide +kernel
example : (inverseAll 16 12 {} c12ExTs c12ExCoded).map (·.data.toList) = c12ExRgb.map (·.data.toList) := by
  decide +kernel
example : (inverseAll 32 12 {} c12ExTs c12ExCoded).map (·.data.toList) = c12ExRgb.map (·.data.toList) := by
  decide +kernel

end Jxl.Modular
