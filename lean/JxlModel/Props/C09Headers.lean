import JxlModel.Proofs.BundlePrefix
import JxlModel.Gen.Headers
import JxlModel.Model.Headers
/-!
# C09 / C11 — the `PrefixStable` hypothesis discharged for the bundle-described header parsers

`Props/C09.lean` and `Props/C11.lean` quantify over every family of header parsers that is *prefix
stable* (`Feed.PrefixStable`: `Ok` on a buffer is the same `Ok` on every extension, a hard error
stays that error, only `unexpected_eof` may turn into something else). That the real parsers *are*
prefix stable was "exercised, not proved". Here it is proved for the generic bundle parser of
`Model/Bundle.lean` — the Lean reading of `define_bundle!` / `make_parse!` and of every primitive
reader (`read_bits`, `U32` with all four selectors, `U64` in all forms, `F16`, `Bool`, enums, signed
unpacking, nested bundles with contexts, vectors, arrays, `ZeroPadToByte`, validations, `skip_bits`)
— for **every description, every context, every buffer and every extension**; hence for all 20
descriptions regenerated from the Rust source on every run (`Gen/Headers.lean`), whatever they say.

This is the property the defect "short read in the extra bits of a hybrid integer" violated in the
entropy-coded part of the image header (the ICC stream; C04's layer): the bundle layer has no such
reader — every primitive goes through `rd`, which fails with end-of-data when bits are missing.

Not covered: the parsers that are not bundles (ICC stream = entropy decoder, TOC with its
permutation, the hand-written `ImageHeader` glue) — for those the hypothesis remains an obligation
exercised by the differential runs.
-/
namespace Jxl.Bundle
open Jxl.Feed (Res PrefixStable)
open Jxl.Container (Bytes)

/-- Bit level, any start position: a bundle parsed successfully on `s` is parsed to the same value
on `s ++ t`, leaving exactly `t` more unread — the parser never looks past what it consumes. -/
theorem C09_bundle_parse_ok_extends (b : Bundle) (ctx : Env) (pos : Nat) (s t : Bits) (e : Env)
    (rest : Bits) (h : parseAt b ctx pos s = .ok (e, rest)) :
    parseAt b ctx pos (s ++ t) = .ok (e, rest ++ t) ∧ rest.length ≤ s.length := by
  have hx := parseAt_ext b ctx pos s t
  rw [h] at hx
  exact ⟨hx.2, hx.1⟩

/-- Bit level: an error that is not end-of-data is the same error on every extension (a header that
is invalid stays invalid however many bytes follow). -/
theorem C09_bundle_parse_hard_error_stable (b : Bundle) (ctx : Env) (pos : Nat) (s t : Bits) (err : Err)
    (h : parseAt b ctx pos s = .error err) (hne : err ≠ .eof) :
    parseAt b ctx pos (s ++ t) = .error err := by
  have hx := parseAt_ext b ctx pos s t
  rw [h] at hx
  cases err with
  | eof => exact absurd rfl hne
  | invalid k => exact hx
  | stuck k => exact hx

/-- Contrapositive form used by C11: if the parser asks for more data on the long buffer it asked for
more data on every prefix of it (a prefix is never *accepted* or *rejected* and then re-judged). -/
theorem C09_bundle_parse_eof_on_prefix (b : Bundle) (ctx : Env) (pos : Nat) (s t : Bits)
    (h : parseAt b ctx pos (s ++ t) = .error .eof) : parseAt b ctx pos s = .error .eof := by
  have hx := parseAt_ext b ctx pos s t
  cases h1 : parseAt b ctx pos s with
  | ok p =>
    obtain ⟨e, r⟩ := p
    rw [h1] at hx
    rw [hx.2] at h
    cases h
  | error err =>
    rw [h1] at hx
    cases err with
    | eof => rfl
    | invalid k => simp only [Ext] at hx; rw [hx] at h; cases h
    | stuck k => simp only [Ext] at hx; rw [hx] at h; cases h

/-- Byte level, in the vocabulary of the feeding model: the header parser made of ANY bundle
description is prefix stable. -/
theorem C09_bundle_parser_prefix_stable (b : Bundle) (ctx : Env) : PrefixStable (bundleRes b ctx) :=
  bundleRes_stable b ctx

/-- …in particular each of the descriptions regenerated from `/repo` on this run. -/
theorem C09_header_descriptions_prefix_stable :
    ∀ nb ∈ Jxl.Headers.Gen.allBundles, ∀ ctx : Env, PrefixStable (bundleRes nb.2 ctx) :=
  fun nb _ ctx => bundleRes_stable nb.2 ctx

/-! ## non-vacuity: the regenerated `SizeHeader` on real bytes -/

/-- `SizeHeader` of a 16×8 image (`div8 = 1`, `h_div8 = 1 + 0`, ratio 0, `w_div8 = 1 + 1`): 14 bits, two bytes -/
def exSize : Bytes := [0x01, 0x02]

example : Jxl.Headers.Gen.allBundles.length = 20 := by decide +kernel

example :
    (match bundleRes Jxl.Headers.Gen.SizeHeader [] exSize with
      | .ok e n => n == 2 && (Val.record e).get "height" == Val.nat 8 && (Val.record e).get "width" == Val.nat 16
      | _ => false) = true ∧
    bundleRes Jxl.Headers.Gen.SizeHeader [] [0x01] = .needMore ∧
    (match bundleRes Jxl.Headers.Gen.SizeHeader [] (exSize ++ [0xff, 0x00]) with
      | .ok e n => n == 2 && (Val.record e).get "width" == Val.nat 16
      | _ => false) = true := by
  decide +kernel

/-- a hard error: a non-zero bit where `ZeroPadToByte` demands zeros -/
example : bundleRes [.mk "x" (.u 3) (.bool true) Option.none, .mk "pad" .zeroPad (.bool true) Option.none]
    [] [0xff] = .err ∧
    bundleRes [.mk "x" (.u 3) (.bool true) Option.none, .mk "pad" .zeroPad (.bool true) Option.none]
    [] [0xff, 0x12] = .err := by
  decide +kernel

end Jxl.Bundle
