import JxlModel.Proofs.RegionMore
/-!
# C06 — a region-of-interest render equals the same rectangle of the full render

Theorems about the region arithmetic of the renderer (`Model/Region.lean`, which mirrors
`jxl-render/src/{region,util,modular,render,blend,image,lib}.rs` and is tied to those files by the
differential check `tools/props/c06.py`), and the kernel-independent locality theorem
(`Model/Locality.lean`).

Vocabulary: `Region.Mem x y r` cell membership, `Region.Subset` inclusion of covered cells,
`Region.Within` the box order (edge by edge). Machine-type side conditions: every model function
`f` has a predicate `fFits` (no wrap / saturation / panic in the `i32`/`u32` arithmetic); the
theorems below are about the ideal values, which the Rust code computes whenever `fFits` holds
(checked on every run by the differential; all in-contract cases generated so far fit).
-/
namespace Jxl.Region
open Region

/-! ## Basic containment facts -/

/-- `upsample(downsample r) ⊇ r` for every factor. -/
theorem C06_down_up_contains (r : Region) (k : Nat) :
    Region.Subset r ((r.downsample k).upsample k) := by
  intro x y h
  exact (mem_upsample _ k x y).2 (mem_downsample k h)

example : (Region.downsample ⟨-5, 3, 10, 7⟩ 2).upsample 2 = ⟨-8, 0, 16, 12⟩ := by decide
example : Region.Mem 4 9 ⟨-5, 3, 10, 7⟩ := by decide

/-- Padding is monotone in the box order and never shrinks a region. -/
theorem C06_pad_monotone (a b : Region) (n : Nat) (h : a.Within b) :
    (a.pad n).Within (b.pad n) ∧ a.Within (a.pad n) :=
  ⟨pad_within_mono n h, within_pad a n⟩

example : (Region.pad ⟨3, 4, 5, 6⟩ 2).Within (Region.pad ⟨0, 0, 10, 10⟩ 2) := by decide

/-- Downsampling is monotone in the box order. -/
theorem C06_downsample_monotone (a b : Region) (k : Nat) (h : a.Within b) :
    (a.downsample k).Within (b.downsample k) := downsample_within_mono k h

/-- `container_aligned(g)` contains the region and its edges are multiples of `g`. -/
theorem C06_aligned_contains (r : Region) (g : Nat) (hg : 0 < g) :
    r.Within (r.containerAligned g) ∧
    (r.containerAligned g).left % (g : Int) = 0 ∧ (r.containerAligned g).top % (g : Int) = 0 ∧
    (r.containerAligned g).width % g = 0 ∧ (r.containerAligned g).height % g = 0 :=
  aligned_contains r g hg

example : Region.containerAligned ⟨-3, 9, 12, 7⟩ 8 = ⟨-8, 8, 24, 8⟩ := by decide

theorem C06_intersection_comm (a b : Region) : a.intersection b = b.intersection a := inter_comm a b

theorem C06_intersection_assoc (a b c : Region) :
    (a.intersection b).intersection c = a.intersection (b.intersection c) := inter_assoc a b c

theorem C06_intersection_idem (a : Region) (h : a.isEmpty = false) : a.intersection a = a :=
  inter_idem a h

/-- The intersection covers exactly the cells common to both operands. -/
theorem C06_intersection_mem (a b : Region) (x y : Int) :
    Mem x y (a.intersection b) ↔ Mem x y a ∧ Mem x y b := mem_intersection a b x y

example : Region.intersection ⟨-3, 2, 10, 10⟩ ⟨4, -1, 10, 5⟩ = ⟨4, 2, 3, 2⟩ := by decide
example : Region.intersection ⟨-3, 2, 10, 10⟩ ⟨7, 0, 4, 4⟩ = Region.empty := by decide

/-- `contains` decides the box order (an empty target is contained in everything). -/
theorem C06_contains_iff (r t : Region) :
    r.contains t = true ↔ (t.isEmpty = true ∨ t.Within r) := contains_iff r t

/-! ## From the request to the frame -/

/-- Orientation (`Region::apply_orientation`): every requested cell of the oriented image is
carried to a cell of the mapped region, which has exactly as many cells, for all 8 orientations. -/
theorem C06_orientation_maps_cells (r : Region) (imgW imgH o : Nat) (ho1 : 1 ≤ o) (ho8 : o ≤ 8)
    (x y : Int) (h : Mem x y r) :
    let WH := orientedSize o imgW imgH
    Mem (orientPoint o WH.1 WH.2 x y).1 (orientPoint o WH.1 WH.2 x y).2 (r.applyOrientation imgW imgH o) ∧
    (r.applyOrientation imgW imgH o).width * (r.applyOrientation imgW imgH o).height = r.width * r.height :=
  orientation_maps_cells r imgW imgH o ho1 ho8 x y h

example : Region.applyOrientation ⟨2, 1, 3, 4⟩ 10 20 6 = ⟨1, 15, 4, 3⟩ := by decide

/-- `image_region_to_frame`: for a frame that is not `ReferenceOnly` the frame region consists of
exactly the cells of the frame whose canvas position (signed crop offset `x0, y0`) lies in the
oriented request; a `ReferenceOnly` frame is always rendered in full. -/
theorem C06_frame_region_is_request (c : Cfg) (R : Region) :
    (c.refOnly = false → ∀ x y, Mem x y (imageRegionToFrame c R true) ↔
        Mem (x + c.x0) (y + c.y0) (R.applyOrientation c.imgW c.imgH c.orientation) ∧
        Mem x y (Region.withSize c.fw c.fh)) ∧
    (c.refOnly = true → imageRegionToFrame c R true = Region.withSize c.fw c.fh) :=
  ⟨fun h x y => mem_imageRegionToFrame c h R x y, fun h => imageRegionToFrame_refOnly c h R⟩

/-! ## The padded regions are sufficient -/

/-- a concrete valid header: 1000×700 frame at crop offset (-30, 12), 2× upsampling, one extra
channel with cumulative shift 3, EPF with 3 iterations, Gabor, chroma subsampling -/
def exampleCfg : Cfg :=
  { imgW := 2000, imgH := 1400, orientation := 1, x0 := -30, y0 := 12, fw := 1000, fh := 700,
    refOnly := false, normal := true, lfLevel := 0, upsampling := 1, ec := [(1, 2)], epfIters := 3,
    gab := true, ycbcr := true, groupSizeShift := 1 }

example : exampleCfg.valid = true := by decide
example : plumb exampleCfg false ⟨100, 200, 301, 77⟩ =
    { frameRegion := ⟨130, 188, 301, 77⟩, lfPadded := ⟨130, 188, 301, 77⟩,
      upValid := ⟨112, 168, 336, 120⟩, colorPadded := ⟨48, 72, 184, 80⟩,
      modularRegion := ⟨48, 72, 184, 80⟩, lfRegion := ⟨6, 9, 23, 10⟩ } := by decide
example : stageNeed exampleCfg ⟨130, 188, 301, 77⟩ = ⟨54, 84, 172, 60⟩ := by decide

/--
**For every valid header configuration** (upsampling 1/2/4/8, every LF level, extra channels with
cumulative shift ≤ 6, EPF off or 1–3 iterations, Gabor on/off, chroma subsampling on/off) **and
every requested rectangle** `R`, with `p = plumb c force R` the regions `render_frame` /
`render_modular` derive (`render.rs:22..44`, `modular.rs:27`):

1. final stage (blending, radius 0; features radius 0): the upsampler's output window
   `upsampling_valid_region` contains every cell of the (LF-padded) frame region inside the frame;
2. non-separable upsampling of the colour channels: every cell it reads (radius 2 per pass at the
   coarse scale, `upNeed`), clipped to the frame, lies in the window it is run on
   (`upsampling_valid_region.downsample(k)`);
3. restoration filters, chroma upsampling, decoding: the frame region dilated by the summed radii
   of all later stages (`stageNeed`: upsampler 2 per pass, EPF 2/3/6 by iteration count, Gabor 1,
   chroma upsampling 1 on the 2-aligned grid), clipped to the frame, lies in
   `color_padded_region`, the single window decoding, chroma upsampling, Gabor and EPF run on;
4. with EPF enabled the window origin is a multiple of 8 (the code asserts this and derives the
   sigma block index from it);
5. every extra channel (cumulative shift `ke`): every cell its upsampler reads, clipped to the
   frame, lies in its window;
6. the region handed to the Modular decoder contains `color_padded_region`.

`ReferenceOnly` frames are covered as well (their frame region is the whole frame).
-/
theorem C06_padded_region_sufficient (c : Cfg) (hv : c.valid = true) (force : Bool) (R : Region) :
    let p := plumb c force R
    let upFull := Region.withSize (c.sampleWidth 1) (c.sampleHeight 1)
    let fullC := Region.withSize c.colorSampleWidth c.colorSampleHeight
    (∀ x y, Mem x y p.lfPadded → Mem x y upFull → Mem x y p.upValid) ∧
    (∀ x y, Mem x y (upNeed p.lfPadded c.upsampling) → Mem x y fullC →
        Mem x y (p.upValid.downsample c.upsampling)) ∧
    (∀ x y, Mem x y (stageNeed c p.lfPadded) → Mem x y fullC → Mem x y p.colorPadded) ∧
    (c.epfIters ≠ 0 → p.colorPadded.left % 8 = 0 ∧ p.colorPadded.top % 8 = 0) ∧
    (∀ e ∈ c.ec, ∀ x y, Mem x y (upNeed p.lfPadded (e.1 + e.2)) →
        Mem x y (Region.withSize ((c.sampleWidth 1 + 2 ^ (e.1 + e.2) - 1) / 2 ^ (e.1 + e.2))
                                 ((c.sampleHeight 1 + 2 ^ (e.1 + e.2) - 1) / 2 ^ (e.1 + e.2))) →
        Mem x y (p.upValid.downsample (e.1 + e.2))) ∧
    (∀ x y, Mem x y p.colorPadded → Mem x y p.modularRegion) := by
  intro p upFull fullC
  obtain ⟨h1, h2, h3, h4, h5⟩ := padded_region_sufficient c hv p.lfPadded
  refine ⟨h1, h2, h3, h4, h5, ?_⟩
  intro x y hm
  show Mem x y (computeModularRegion c force p.colorPadded false)
  unfold computeModularRegion
  cases force with
  | false => exact hm
  | true =>
    have hc : Mem x y ((padColorRegion c p.lfPadded).intersection fullC) := hm
    have hf := ((mem_intersection _ _ x y).1 hc).2
    have hm' : Mem x y p.colorPadded := hm
    unfold Mem at hm' hf ⊢
    simp only [withSize, fullC, if_true, Bool.false_eq_true, if_false] at hf ⊢
    omega

/-- LF frames: the padding `pad_lf_region` adds is `4 * lf_level + 32` on every side
(`util.rs:54`). Partial: what the consuming VarDCT frame reads from an LF frame (adaptive LF
smoothing, 8×-upsampled block positions) is not modelled, so "sufficient" is not stated here. -/
theorem C06_lf_padding_partial (c : Cfg) (F : Region) :
    F.Within (padLfRegion c F) ∧
    (c.lfLevel ≠ 0 → padLfRegion c F = F.pad (4 * c.lfLevel + 32)) := by
  unfold padLfRegion
  constructor
  · split
    · exact within_pad _ _
    · exact Within.refl _
  · intro h; simp [h]

/-! ## Locality: sufficient windows give the full-frame result -/

/--
A pipeline of local operators evaluated stage by stage on windows equals the full-frame evaluation
on the target cells `R`, provided every stage's window lies in the frame and contains what that
stage and all later stages read (`Sufficient`), and the inputs agree on the needed cells. Holds
for arbitrary operators over cells of ℤ² with arbitrary values, arbitrary dependency relations
(`r`-local: `‖p − q‖∞ ≤ r`; resampling stages: any relation) and whatever the operators do at the
artificial edges of their windows.
-/
theorem C06_local_pipeline_crop_eq_full {V : Type} (stages : List (Stage V × (Cell → Prop)))
    (R : Cell → Prop) (hloc : ∀ sw ∈ stages, sw.1.Local) (hwin : Sufficient stages R)
    (f g : Img V) (hfg : ∀ q, need (stages.map (·.1)) R q → f q = g q) :
    ∀ p, R p → runWin stages f p = runFull (stages.map (·.1)) g p :=
  local_pipeline stages R hloc hwin f g hfg

/-- For an `r`-local stage the cells needed for a rectangle `T` lie in `T.pad r`, clipped to the
frame `D`: the link between `Sufficient` and the padded regions above. -/
theorem C06_need_of_radius_stage {V : Type} (op : (Cell → Prop) → Img V → Img V) (r : Nat)
    (D T : Region) (q : Cell) (h : need [radiusStage op r D] (fun p => Mem p.1 p.2 T) q) :
    Mem q.1 q.2 (T.pad r) ∧ Mem q.1 q.2 D :=
  need_radius_subset_pad op r D T q h

section NonVacuity
open Classical
/-- a 1-local operator that reads its right neighbour *through the window* (garbage `0` outside) -/
noncomputable def shiftAdd : Stage Int :=
  { op := fun W f p => f p + (if W (p.1 + 1, p.2) then f (p.1 + 1, p.2) else 0),
    dep := fun p q => q = p ∨ q = (p.1 + 1, p.2),
    dom := fun _ => True }

example : shiftAdd.Local := by
  intro W f g p _ h
  have h1 := h p (Or.inl rfl) trivial
  have h2 := h (p.1 + 1, p.2) (Or.inr rfl) trivial
  simp only [shiftAdd, h1.2, h2.1, h2.2, if_true]

/-- the window `x ∈ [0, 2]` is sufficient for the target `x ∈ [0, 1]` -/
example : Sufficient [(shiftAdd, fun q => 0 ≤ q.1 ∧ q.1 ≤ 2)] (fun p => 0 ≤ p.1 ∧ p.1 ≤ 1) := by
  refine ⟨?_, fun _ _ => trivial, trivial⟩
  rintro q ⟨_, p, hp, hq | hq⟩
  · subst hq
    have hp' : (0 : Int) ≤ q.1 ∧ q.1 ≤ 1 := hp
    omega
  · subst hq
    have hp' : (0 : Int) ≤ p.1 ∧ p.1 ≤ 1 := hp
    show (0 : Int) ≤ p.1 + 1 ∧ p.1 + 1 ≤ 2
    omega
end NonVacuity

/-! ## Every needed sample is decoded -/

/--
Every colour-sample cell `(x, y)` of the frame that lies in the region handed to the Modular
decoder belongs to a pass group with a valid index whose rectangle contains it and which passes the
job filter of `render_modular` (so it is decoded); and the LF group holding its 8×-downsampled
position passes the job filter of `load_lf_groups`. With palette or squeeze transforms the region
is the whole frame (`compute_modular_region`), so every group is selected.
-/
theorem C06_selected_groups_cover (c : Cfg) (mr : Region) (x y : Nat)
    (hx : x < c.colorSampleWidth) (hy : y < c.colorSampleHeight) (hm : Mem x y mr) :
    (let g := (y / c.groupDim) * c.groupsPerRow + x / c.groupDim
     g < c.numGroups ∧ Mem x y (groupRegion c g) ∧ groupSelected c mr g = true) ∧
    (let g := (y / 8 / c.groupDim) * c.lfGroupsPerRow + x / 8 / c.groupDim
     Mem ((x / 8 : Nat) : Int) ((y / 8 : Nat) : Int) (lfGroupRegion c g) ∧
     lfGroupSelected c (mr.downsample 3) g = true) :=
  ⟨group_cover c mr x y hx hy hm, lf_group_cover c mr x y hx hm⟩

example : groupSelected exampleCfg ⟨48, 72, 184, 80⟩ 0 = true := by decide
example : groupSelected exampleCfg ⟨48, 72, 184, 80⟩ 1 = false := by decide

/-- palette / squeeze: the whole frame is decoded -/
theorem C06_palette_forces_full (c : Cfg) (r : Region) (x y : Nat)
    (hx : x < c.colorSampleWidth) (hy : y < c.colorSampleHeight) :
    Mem x y (computeModularRegion c true r false) := by
  unfold computeModularRegion Mem
  simp only [withSize, if_true, Bool.false_eq_true, if_false]
  omega

/-! ## Request history -/

/--
After any history of region requests `rs` followed by a request for `r`, the complete handle
state (every handle together with everything it captured) is a function of `r`, the frame list
and the handles of `ReferenceOnly` frames created at load time — it does not depend on `rs`.
`rebuildFrom` gives every frame that is not `ReferenceOnly` a fresh handle for `r` capturing the
current handles of its dependencies.
-/
theorem C06_region_history_irrelevant (frames : List FrameInfo) (hs : List Handle)
    (rs : List Region) (r : Region) :
    requests frames hs (rs ++ [r]) = rebuildFrom r frames (kept frames hs) [] :=
  history_irrelevant frames hs rs r

/-- in particular two histories ending in the same request give the same state -/
theorem C06_region_history_irrelevant' (frames : List FrameInfo) (hs : List Handle)
    (rs₁ rs₂ : List Region) (r : Region) :
    requests frames hs (rs₁ ++ [r]) = requests frames hs (rs₂ ++ [r]) := by
  rw [history_irrelevant, history_irrelevant]

def exampleFrames : List FrameInfo :=
  [⟨true, []⟩, ⟨false, [0]⟩, ⟨false, [1]⟩, ⟨false, [1, 2]⟩]

example :
    requests exampleFrames (initial exampleFrames ⟨0, 0, 512, 512⟩) [⟨1, 2, 3, 4⟩, ⟨9, 9, 9, 9⟩, ⟨5, 6, 7, 8⟩] =
    requests exampleFrames (initial exampleFrames ⟨0, 0, 512, 512⟩) [⟨5, 6, 7, 8⟩] := by decide

/-- a request rebuilds the state from the region and the kept `ReferenceOnly` handles, and keeps
exactly those handles -/
theorem C06_request_rebuilds (frames : List FrameInfo) (hs : List Handle) (r : Region) :
    kept frames (request frames hs r) = kept frames hs ∧
    request frames hs r = rebuildFrom r frames (kept frames hs) [] := by
  unfold request
  exact ⟨kept_resetFrom r frames hs [], resetFrom_eq_rebuild r frames hs []⟩

/--
If `ReferenceOnly` frames depend only on earlier `ReferenceOnly` frames (`RefClosed`), the state
after a request for `r` equals the state of a decoder that had `r` requested before any frame was
loaded, whatever region `r₀` was in force at load time: together with
`C06_region_history_irrelevant` the handle state — hence everything rendered from it — depends
only on the last request.
-/
theorem C06_history_equals_fresh (frames : List FrameInfo) (hc : RefClosed frames) (r₀ r : Region) :
    request frames (initial frames r₀) r = initial frames r :=
  history_equals_fresh frames hc r₀ r

/-- two chained `ReferenceOnly` frames followed by regular frames that use them -/
example : RefClosed [⟨true, []⟩, ⟨true, [0]⟩, ⟨false, [1]⟩, ⟨false, [1, 2]⟩] := by
  intro i f hf hr d hd
  match i, hf with
  | 0, hf => simp at hf; subst hf; simp at hd
  | 1, hf => simp at hf; subst hf; simp at hd; subst hd; simp
  | 2, hf => simp at hf; subst hf; simp at hr
  | 3, hf => simp at hf; subst hf; simp at hr
  | n + 4, hf => simp at hf

/--
`RefClosed` cannot be dropped: in the model a `ReferenceOnly` frame that depends on a regular frame
(it takes patches from it) keeps the handle it captured at load time and goes on observing the
*old* region of that frame after a new request. No image available offline has such a frame, so
this witness could not be replayed on the decoder; it is reported as an unconfirmed candidate.
-/
theorem C06_history_equals_fresh_needs_refclosed :
    ∃ (frames : List FrameInfo) (r₀ r : Region),
      request frames (initial frames r₀) r ≠ initial frames r :=
  ⟨[⟨false, []⟩, ⟨true, [0]⟩], ⟨0, 0, 8, 8⟩, ⟨1, 1, 2, 2⟩, by decide⟩

/-! ## Blend chains under a region request -/

theorem mem_stageNeed_of_mem (c : Cfg) (hu : c.upsampling = 0) (F : Region) (x y : Int)
    (h : Mem x y F) : Mem x y (stageNeed c F) := by
  unfold stageNeed upNeed
  simp only [hu, Nat.zero_div, Nat.zero_mod, if_true, upNeedLoop]
  have h1 : Mem x y (F.pad (epfRadius c.epfIters)) := by
    rw [mem_pad]; unfold Mem at h; omega
  have h2 : Mem x y (if c.gab then (F.pad (epfRadius c.epfIters)).pad 1 else F.pad (epfRadius c.epfIters)) := by
    split
    · rw [mem_pad]; unfold Mem at h1; omega
    · exact h1
  split
  · apply C06_down_up_contains
    rw [mem_pad]; unfold Mem at h2; omega
  · exact h2

/--
**The frame at the bottom of a blend chain covers what the chain asks of it.** For a normal frame
without upsampling (any crop offset, Gabor / EPF / chroma subsampling on or off, palette/squeeze or
not): every cell of the region `composite` requests for an image-region request `R` that lies on the
frame is a cell of `color_padded_region`, the window the frame is decoded and filtered on — i.e. of
the grid the frame hands to `blend()`. Together with `C05_blend_chain_request_covered` (each layer
asks its source for exactly its own request) no layer of a chain of any depth reads outside what
the layer below rendered. (With upsampling the grid is `color_padded_region` scaled up; that case is
covered by the crop-vs-full runs only.) -/
theorem C06_source_grid_covers_request (c : Cfg) (hv : c.valid = true) (hn : c.normal = true)
    (hr : c.refOnly = false) (hl : c.lfLevel = 0) (hu : c.upsampling = 0) (force : Bool)
    (R : Region) (x y : Int)
    (h : Mem x y (compositeRegion c (R.applyOrientation c.imgW c.imgH c.orientation)))
    (hf : Mem x y (Region.withSize c.fw c.fh)) :
    Mem x y (plumb c force R).colorPadded := by
  -- the cell is a cell of the frame region
  have hfr : Mem x y (imageRegionToFrame c R true) := by
    rw [(C06_frame_region_is_request c R).1 hr]
    refine ⟨?_, hf⟩
    unfold compositeRegion at h
    simp only [hn, hl, if_true, Nat.zero_mul, Region.downsample] at h
    have := ((mem_intersection _ _ x y).1 h).1
    rw [mem_translate] at this
    have e1 : x - -c.x0 = x + c.x0 := by omega
    have e2 : y - -c.y0 = y + c.y0 := by omega
    rwa [e1, e2] at this
  have hplumb : (plumb c force R).lfPadded = imageRegionToFrame c R true := by
    simp [plumb, padLfRegion, hl, imageRegionToFrame, Region.downsample]
  have h3 := (C06_padded_region_sufficient c hv force R).2.2.1
  apply h3 x y
  · rw [hplumb]; exact mem_stageNeed_of_mem c hu _ x y hfr
  · simpa [Cfg.colorSampleWidth, Cfg.colorSampleHeight, Cfg.sampleWidth, Cfg.sampleHeight, Cfg.sampleDim, hu, hl] using hf


/-- a Gabor + EPF layer at crop offset (2, 2) of a 64×64 image: the hypotheses hold and the cell
`(8, 8)` of its request `(10, 10, 8, 8)` is on the frame -/
def chainCfg : Cfg :=
  { imgW := 64, imgH := 64, orientation := 1, x0 := 2, y0 := 2, fw := 40, fh := 40, refOnly := false, normal := true, lfLevel := 0, upsampling := 0, ec := [], epfIters := 2, gab := true, ycbcr := false, groupSizeShift := 1 }

example : chainCfg.valid = true ∧
    Mem 8 8 (compositeRegion chainCfg (Region.applyOrientation ⟨10, 10, 8, 8⟩ 64 64 1)) ∧
    Mem 8 8 (Region.withSize chainCfg.fw chainCfg.fh) ∧
    (plumb chainCfg false ⟨10, 10, 8, 8⟩).colorPadded = ⟨0, 0, 24, 24⟩ := by decide

end Jxl.Region
