import JxlModel.Proofs.Feed
import JxlModel.Gen.EofChain
import JxlModel.Props.C09
/-!
# C11 — every prefix of a valid stream means "need more data", never corruption

Same model as C09 (`Model/Feed.lean`), plus:

* `Gen/EofChain.lean` — **generated on every run** by `tools/translate_c11.py` from the `Error`
  enums and `unexpected_eof()` functions of the seven decoder crates.  (a) proves that each
  transcribed function equals the structural specification "the innermost wrapped error is
  `io::ErrorKind::UnexpectedEof`": no wrapping path is missing from the hand-written chains
  (`jxl_frame::Error::unexpected_eof` spells out eight nested patterns).
* the `allow_partial` derivations and `Modular::decode`'s partial rule (b);
* `render_loading_frame` / `render_loading_keyframe` result cases (c);
* render attempts interleaved with feeding, with what an attempt can leave behind
  (`all_group_offsets.has_error`, the kept render cache) (d).

Section decoders are abstract (`SecParsers`): how `LfGlobal::parse` classifies on the bytes a
truncated first section has received, and whether an attempt keeps a cache.  The statement
"none of this changes the final result" needs an obligation on them, `CutClean` — *a truncated
section never yields a non-EOF error, and a failed attempt keeps no `LfGlobal` parsed from
truncated data* — which is stated explicitly, shown necessary on the model
(`C11_hard_error_on_truncated_section_poisons`, `C11_stale_cache_poisons`), and checked on the real
code by the differential run of `tools/props/c11.py` (every byte cut, render attempts at random
subsets of cuts, then the rest of the bytes: final render = clean decode).

## Defect found by this property (fixed in /repo, `fix: render a completely loaded frame with its own references in render_loading_frame`)
`RenderContext::render_loading_frame` rendered the progressive frame found by `loading_frame()`
against `self.reference` / `self.lf_frame` — the slots *as later frames left them* — also when that
frame is already completely loaded: a valid stream cut before the header of its last frame
panicked (`assertion failed: bottom <= self.height` in jxl-grid) or blended against the wrong
frame (`corpus/c11/loading_refs_overwritten.json`).  This is outside the feeding model (it is in
the composition of the render); the decision logic of (c) is where it surfaces as `fail`.
-/
namespace Jxl.Feed
open Jxl.Container (Bytes)
open Jxl.EofChain
variable {Hdr : Type}

/-! ## (a) the end-of-data classification chain -/

/-- case-split an error value down to its innermost wrapped error (nesting depth ≤ 5) -/
macro "eof_chain_cases" e:ident : tactic =>
  `(tactic| (cases $e:ident <;> (try rfl) <;> (rename_i x1; cases x1 <;> (try rfl) <;>
      (rename_i x2; cases x2 <;> (try rfl) <;> (rename_i x3; cases x3 <;> (try rfl) <;>
        (rename_i x4; cases x4 <;> (try rfl) <;> (rename_i x5; cases x5 <;> rfl))))))) 

theorem C11_eof_chain_bitstream (e : BitstreamError) : e.unexpectedEof = e.rootEof := by
  eof_chain_cases e

theorem C11_eof_chain_coding (e : CodingError) : e.unexpectedEof = e.rootEof := by
  eof_chain_cases e

theorem C11_eof_chain_modular (e : ModularError) : e.unexpectedEof = e.rootEof := by
  eof_chain_cases e

theorem C11_eof_chain_vardct (e : VarDctError) : e.unexpectedEof = e.rootEof := by
  eof_chain_cases e

/-- `jxl_frame::Error::unexpected_eof` enumerates its wrapping paths by hand; all of them are
there: it agrees with the structural definition on every error value. -/
theorem C11_eof_chain_frame (e : FrameError) : e.unexpectedEof = e.rootEof := by
  eof_chain_cases e

theorem C11_eof_chain_color (e : ColorError) : e.unexpectedEof = e.rootEof := by
  eof_chain_cases e

theorem C11_eof_chain_render (e : RenderError) : e.unexpectedEof = e.rootEof := by
  cases e <;> simp only [RenderError.unexpectedEof, RenderError.rootEof, C11_eof_chain_bitstream,
    C11_eof_chain_coding, C11_eof_chain_modular, C11_eof_chain_frame, C11_eof_chain_color]

/-- a short read anywhere below is "need more data" at the API: a render error wrapping a frame
error wrapping a Modular error wrapping an entropy-decoder error wrapping the I/O error -/
example : (RenderError.frame (.modular (.decoder (.bitstream (.io true))))).unexpectedEof = true ∧
    (RenderError.frame (.varDct (.modular (.decoder (.bitstream (.io true)))))).unexpectedEof = true ∧
    (RenderError.frame .hadError).unexpectedEof = false ∧
    (RenderError.frame (.modular .invalidMaTree)).unexpectedEof = false := by decide

/-! ## (b) `allow_partial` and `Modular::decode` -/

/-- In a section that may be partial an end of data never surfaces as an error, and a hard error
always does; in a complete section both do. -/
theorem C11_partial_rule (o : SecOut) :
    modularDecode true o ≠ .errEof ∧
    (modularDecode true o = .errHard ↔ o = .hard) ∧
    (modularDecode false o = .full ↔ o = .complete) ∧
    (modularDecode false o = .errEof ↔ o = .eof) := by
  cases o <;> simp [modularDecode]

/-- `allow_partial` is exactly "the section has not received all its TOC-declared bytes" for
multi-section frames, "the frame's only section is not complete" for single-section frames. -/
theorem C11_allow_partial_derivation (got size idx : Nat) :
    (allowPartialMulti got size = true ↔ got < size) ∧
    (allowPartialSingle idx = true ↔ idx = 0) := by
  simp [allowPartialMulti, allowPartialSingle]

/-- The single-section cache: while the flag is clear and the frame is loading, an end of data is
reported as such (or swallowed as a partial image) and leaves the flag clear; exactly a hard error
sets it; once set, every later attempt answers `HadError`, whatever has arrived meanwhile. -/
theorem C11_single_section_flag (o : SecOut) (loaded : Bool) (k : Nat) (hk : k ≠ 0) :
    ((lfGlobalSingle 0 false o).2 = 0 ↔ o ≠ .hard) ∧
    lfGlobalSingle k loaded o = (.hadError, k) := by
  cases o <;> simp [lfGlobalSingle, modularDecode, hk]

/-! ## (c) rendering the loading frame -/

/-- Decision logic of `render_loading_keyframe`: if nothing on its path fails with an error other
than end-of-data / `IncompleteFrame`, the answer is an image (the grid of the requested region,
i.e. the full image dimensions) or need-more-data. -/
theorem C11_loading_render_dims_or_needmore (v : LoadingView)
    (h1 : v.render ≠ .error .other) (h2 : v.compose ≠ .error .other)
    (h3 : v.inProgress ≠ some (.error .other)) (h4 : v.postprocess ≠ .error .other) :
    renderLoading v = .image ∨ renderLoading v = .needMore :=
  renderLoading_cases v h1 h2 h3 h4

/-- a view with a progressive frame whose first section is truncated, nothing rendered before -/
example : renderLoading ⟨true, true, false, .error .needMore, .ok (), none, .ok ()⟩ = .needMore ∧
    renderLoading ⟨true, true, false, .ok (), .ok (), none, .ok ()⟩ = .image ∧
    renderLoading ⟨false, false, false, .ok (), .ok (), some (.ok ()), .ok ()⟩ = .image ∧
    renderLoading ⟨true, true, true, .ok (), .error .other, none, .ok ()⟩ = .fail := by decide

/-! ## (d) prefixes -/

/-- Initialisation on a prefix of a stream whose header parses: need-more-data, or the very same
success (same header, same `bytes_read`); never an error. -/
theorem C11_prefix_init_ok (P : Parsers Hdr) (hP : P.Stable) (cs : Bytes) (hd : Hdr) (off : Nat)
    (hv : initParse P cs = .ok hd off) (k : Nat) :
    initParse P (cs.take k) = .needMore ∨ initParse P (cs.take k) = .ok hd off :=
  initParse_prefix P hP cs k hd off hv

/-- the same for `try_init` as a whole (header, preview skip, and handing the rest to
`feed_bytes_inner`): not dead on the whole ⇒ not dead on any prefix -/
theorem C11_prefix_try_init_not_dead (P : Parsers Hdr) (hP : P.Stable) (cs : Bytes) (k : Nat)
    (hv : tryInit P (.uninit cs) ≠ .dead) : tryInit P (.uninit (cs.take k)) ≠ .dead := by
  apply tryInit_prefix_not_dead P hP (cs.take k) (cs.drop k)
  rwa [List.take_append_drop]

/-- Feeding never returns an error on a prefix: if feeding `stream` in one call from a session
does not kill it, then feeding any chunking of any prefix of `stream` does not either (container
layer, initialisation and frame loading together). -/
theorem C11_prefix_feed_never_errs (P : Parsers Hdr) (hP : P.Stable) (S : Sess Hdr) (stream : Bytes)
    (hv : (S.push P stream).dec ≠ .dead) (chunks : List Bytes) (rest : Bytes)
    (hpre : chunks.flatten ++ rest = stream) :
    (S.pushAll P chunks).dec ≠ .dead := by
  subst hpre
  exact pushAll_prefix_not_dead P hP S chunks rest hv

/-- **Attempts do not change the final result.** Any sequence of feed calls and render attempts
whose chunks make up `stream`, under the obligation `CutClean` on the section decoders: the final
observable is that of feeding `stream` in one call, no render attempt left a flag or a cache
behind (`res`), and no frame was handed to its final render with such a residue (`poisoned`). -/
theorem C11_prefix_attempts_do_not_change_final (P : Parsers Hdr) (hP : P.Stable) (Q : SecParsers)
    (stream : Bytes) (hclean : CutClean P Q stream) (ops : List Op)
    (hflat : (Op.chunks ops).flatten = stream) (hne : Op.chunks ops ≠ []) :
    (Prog.run P Q Prog.init ops).sess.obs = (Sess.init.pushAll P [stream]).obs ∧
    (Prog.run P Q Prog.init ops).res = Residue.clean ∧
    (Prog.run P Q Prog.init ops).poisoned = false := by
  have h := Prog.run_inv P hP Q stream hclean ops Prog.init [] rfl rfl rfl
    (by simp only [List.nil_append, hflat]; exact List.prefix_refl _)
  simp only [List.nil_append] at h
  refine ⟨?_, h.2.1, h.2.2⟩
  rw [h.1, C09_feed_chunking_invariant P hP _ _ hne, hflat]

/-- The obligation is necessary (1): if the truncated only section of a frame yields a hard error
at some cut, one attempt there sets `has_error`, and the final render of that frame is
`Error::HadError` however the remaining bytes arrive. -/
theorem C11_hard_error_on_truncated_section_poisons (Q : SecParsers) (f : FrameSt) (got : Bytes)
    (r : Residue) (hs : f.info.sizes.length = 1) (hh : Q.lfGlobal f.info got = .hard) (n : Nat) :
    finalRender n (attemptOn Q f got r) = .hadError :=
  attemptOn_hard Q f got r hs hh n

/-- A toy section decoder that reports a hard error when it sees fewer than 2 bytes of a section
(and otherwise behaves): one attempt at the cut after the first section byte, then the rest of the
stream — the session is exactly that of the clean feed, but the frame went to its final render
with the flag set. -/
def badQ : SecParsers := ⟨fun _ got => if got.length = 1 then .hard else .eof, fun _ _ => false⟩

/-- one frame, last, keyframe, a single section of 3 bytes -/
def oneFrame : Bytes := [0xff, 0x0a, 0x00, 0x03, 0x01, 0x03, 0x51, 0x52, 0x53]

theorem C11_poison_witness :
    let p := Prog.run Toy.parsers badQ Prog.init
      [.push (oneFrame.take 7), .render, .push (oneFrame.drop 7)]
    p.sess.obs = (Sess.init.pushAll Toy.parsers [oneFrame]).obs ∧ p.poisoned = true ∧
    (Prog.run Toy.parsers badQ Prog.init
      [.push (oneFrame.take 8), .render, .push (oneFrame.drop 8)]).poisoned = false := by
  decide +kernel

/-- The obligation is necessary (2): an attempt that keeps a cache whose `LfGlobal` was parsed from
fewer bytes than the section finally has makes the final render use that stale `LfGlobal`. -/
theorem C11_stale_cache_poisons (Q : SecParsers) (f : FrameSt) (got : Bytes)
    (hs : f.info.sizes.length ≠ 1) (hk : Q.keepsCache f.info got = true)
    (ho : Q.lfGlobal f.info got = .eof) (hg : got.length < f.info.sizes.headD 0) (n : Nat)
    (hn : got.length < n) :
    finalRender n (attemptOn Q f got Residue.clean) = .staleCache := by
  have hs' : (f.info.sizes.length == 1) = false := by simpa using hs
  have hg' : got.length < f.info.sizes.head?.getD 0 := by simpa using hg
  simp [attemptOn, finalRender, Residue.clean, hs', hk, ho, lfGlobalMulti, modularDecode,
    allowPartialMulti, hg', hn]

/-! ## Non-vacuity -/

/-- a section decoder satisfying the obligation on `oneFrame` (end of data on every truncation) -/
def goodQ : SecParsers := ⟨fun fi got => if got.length < fi.sizes.headD 0 then .eof else .complete,
  fun _ _ => false⟩

/-- `CutClean` holds for it: at every cut the loading frame's truncated section is `eof` -/
example : CutClean Toy.parsers goodQ oneFrame := by
  intro k _ f got _
  refine ⟨?_, rfl⟩
  simp only [goodQ]
  split <;> simp

/-- attempts at every cut of `oneFrame`, then completion: nothing left behind -/
example :
    let ops : List Op := (oneFrame.map fun b => [Op.push [b], Op.render]).flatten
    (Prog.run Toy.parsers goodQ Prog.init ops).sess.obs = (Sess.init.pushAll Toy.parsers [oneFrame]).obs ∧
    (Prog.run Toy.parsers goodQ Prog.init ops).res = Residue.clean ∧
    (Prog.run Toy.parsers goodQ Prog.init ops).poisoned = false := by
  decide +kernel

/-- prefixes of the toy stream of C09: uninitialised, then ready, never dead -/
example : ((List.range (toyCs.length + 1)).all fun k =>
    (Sess.init.pushAll Toy.parsers [toyCs.take k]).dec != .dead) = true := by decide +kernel

end Jxl.Feed
