import JxlModel.Driver.Common
import JxlModel.Model.Color
/-! Line protocol of `harness/src/bin/c19.rs`, answered by the model. -/
namespace Jxl.Driver.C19
open Jxl.Color

def hexDigit (n : Nat) : Char := if n < 10 then Char.ofNat (48 + n) else Char.ofNat (87 + n)

def hexBytes (l : List Nat) : String :=
  if l.isEmpty then "-" else String.ofList (l.flatMap fun b => [hexDigit (b / 16 % 16), hexDigit (b % 16)])

def hexVal (c : Char) : Option Nat :=
  if '0' ≤ c ∧ c ≤ '9' then some (c.toNat - 48)
  else if 'a' ≤ c ∧ c ≤ 'f' then some (c.toNat - 87)
  else if 'A' ≤ c ∧ c ≤ 'F' then some (c.toNat - 55) else none

def unhexGo : List Char → List Nat → Option (List Nat)
  | [], acc => some acc.reverse
  | [_], _ => none
  | a :: b :: r, acc => do unhexGo r (((← hexVal a) * 16 + (← hexVal b)) :: acc)

def unhex (s : String) : Option (List Nat) := if s = "-" then some [] else unhexGo s.toList []

def hexNat (s : String) : Option Nat :=
  s.toList.foldlM (fun acc c => do pure (acc * 16 + (← hexVal c))) 0

def parseXy (x y : String) : Option Customxy := do pure ⟨← x.toInt?, ← y.toInt?⟩

def parseTf (s : String) : Option TransferFunction :=
  match s with
  | "bt709" => some .bt709 | "unknown" => some .unknown | "linear" => some .linear
  | "srgb" => some .srgb | "pq" => some .pq | "dci" => some .dci | "hlg" => some .hlg
  | s => match s.splitOn ":" with
    | ["g", g, inv] => do pure (.gamma (← g.toNat?) (inv == "1"))
    | _ => none

def parseEnc : List String → Option Enc
  | [cs, wp, prim, tf, ri] => do
    let cs ← match cs with
      | "rgb" => some ColourSpace.rgb | "gray" => some .grey | "xyb" => some .xyb
      | "unknown" => some .unknown | _ => none
    let wp ← match wp with
      | "d65" => some WhitePoint.d65 | "e" => some .e | "dci" => some .dci
      | s => match s.splitOn ":" with
        | ["c", x, y] => do pure (.custom (← parseXy x y))
        | _ => none
    let prim ← match prim with
      | "srgb" => some Primaries.srgb | "bt2100" => some .bt2100 | "p3" => some .p3
      | s => match s.splitOn ":" with
        | ["c", rx, ry, gx, gy, bx, by_] => do
          pure (.custom (← parseXy rx ry) (← parseXy gx gy) (← parseXy bx by_))
        | _ => none
    let tf ← parseTf tf
    let ri ← Intent.ofNat? (← ri.toNat?)
    pure { cs, wp, prim, tf, ri }
  | _ => none

def showCs : ColourSpace → String
  | .rgb => "rgb" | .grey => "gray" | .xyb => "xyb" | .unknown => "unknown"

def showEnc (e : Enc) : String :=
  let wp := match e.wp with
    | .d65 => "d65" | .e => "e" | .dci => "dci" | .custom xy => s!"c:{xy.x}:{xy.y}"
  let prim := match e.prim with
    | .srgb => "srgb" | .bt2100 => "bt2100" | .p3 => "p3"
    | .custom r g b => s!"c:{r.x}:{r.y}:{g.x}:{g.y}:{b.x}:{b.y}"
  let tf := match e.tf with
    | .bt709 => "bt709" | .unknown => "unknown" | .linear => "linear" | .srgb => "srgb"
    | .pq => "pq" | .dci => "dci" | .hlg => "hlg"
    | .gamma g inv => s!"g:{g}:{if inv then 1 else 0}"
  s!"enum {showCs e.cs} {wp} {prim} {tf} {e.ri.toNat}"

def showErr : ParseErr → String
  | .tooShort => "err parse:profile_is_too_short"
  | .sizeMismatch => "err parse:profile_size_mismatch"
  | .badIntent => "err parse:invalid_rendering_intent"
  | .tagListEof => "err parse:unexpected_end_of_profile_while_reading_tag_list"
  | .tagDataEof => "err parse:unexpected_end_of_profile_while_reading_tag_data"
  | .badPara => "err parse:invalid_parametricCurveType"
  | .badColorant => "err parse:invalid_colorant_tag"
  | .badChad => "err parse:invalid_chad_tag"
  | .badWtpt => "err parse:invalid_wtpt_tag"
  | .badXyzType => "err parse:invalid_XYZType"
  | .unsupported => "err unsupported"

def showPanic : SynthPanic → String
  | .xyb => "panic xyb" | .tfUnknown => "panic tf-unknown" | .gammaZero => "panic gamma-zero"
  | .csUnknown => "panic cs-unknown"

structure St where
  pqLut : List Nat
  hlgLut : List Nat

def showWithIcc : WithIcc → String
  | .enum e => showEnc e
  | .icc cs => s!"icc {showCs cs}"
  | .err e => showErr e

def parseResult (st : St) (icc : List Nat) : String :=
  showWithIcc (withIcc f32Ops st.pqLut st.hlgLut icc)

/-! transfer curves at `Float`, as `ColorTransform` applies them to equal channels -/

def f16ToFloat (v : Nat) : Float :=
  let m := (v % 1024).toFloat
  let e := v / 1024 % 32
  let mag := if e = 0 then m / 1024.0 / 16384.0 else (1.0 + m / 1024.0) * Float.exp2 (e.toFloat - 15.0)
  if v / 32768 % 2 = 1 then -mag else mag

def hlgSystemGamma (it : Float) : Float := 1.2 * (1.111 : Float).pow ((it / 1000.0).log2)

def tfModel (tf : TransferFunction) (enc : Bool) (it : Float) (x : Float) : Float :=
  match tf with
  | .gamma g inv =>
    let γ : Float := if inv then g.toFloat / 1e7 else 1e7 / g.toFloat
    if enc then Tf.gammaEncode γ x else Tf.gammaDecode γ x
  | .bt709 => if enc then Tf.bt709Encode x else Tf.bt709Decode x
  | .srgb => if enc then Tf.srgbEncode x else Tf.srgbDecode x
  | .dci => if enc then Tf.dciEncode x else Tf.dciDecode x
  | .pq =>
    if enc then Tf.odd (fun a => Tf.pqEncodePos (a * (it / 10000.0))) x
    else Tf.pqDecode x * (10000.0 / it)
  | .hlg =>
    let γ := hlgSystemGamma it
    -- `tf::hlg_inverse_oo` / `hlg_oo` on equal channels: luminance = the sample itself
    let ootf (v e : Float) : Float :=
      let r := v.pow e
      v * (if r > 1e9 then 1e9 else r)
    if enc then
      Tf.hlgEncode (if 295.0 ≤ it && it ≤ 305.0 then x else ootf x ((1.0 - γ) / γ))
    else
      ootf (Tf.hlgDecode x) (γ - 1.0)
  | .linear | .unknown => x

def hex16 (n : Nat) : String :=
  String.ofList ((List.range 16).map fun i => hexDigit (n / 16 ^ (15 - i) % 16))

def runTf (ws : List String) (grey : Bool) : Option String :=
  match ws with
  | tf :: dir :: it :: n :: bits => do
    let tf ← parseTf tf
    let _ ← n.toNat?
    let enc ← match dir with | "enc" => some true | "dec" => some false | _ => none
    let it ← if it = "-" then some 255.0 else (hexNat it).map f16ToFloat
    if bits.isEmpty then none
    if grey ∧ tf = .hlg then pure "panic hlg-grey"
    else
      let vals ← bits.mapM fun b => (hexNat b).map fun n => (Float32.ofBits n.toUInt32).toFloat
      pure (" ".intercalate (vals.map fun v => hex16 (tfModel tf enc it v).toBits.toNat))
  | _ => none

def identLine (d : Described) : String :=
  match transformOps d d with
  | some ops =>
    let ch : Nat := match d with
      | .enum e => if e.cs = .grey then 1 else 3
      | .icc _ p =>
        let sig := (p.drop 16).take 4
        if sig = ascii "GRAY" then 1 else if sig = ascii "CMYK" then 4 else 3
    -- an empty op list leaves every buffer alone (`runOps`)
    let same := runOps ops [[0, 1], [2, 3], [4, 5]] == [[0, 1], [2, 3], [4, 5]]
    s!"noop={if ops.isEmpty then 1 else 0} same={if same then 1 else 0} ch={ch}/{ch}"
  | none => "noop=0 unmodelled"

def step (st : St) (ws : List String) : St × String :=
  let out : Option String :=
    match ws with
    | "rt" :: enc => do
      let e ← parseEnc enc
      match synth e (quantOf e st.pqLut st.hlgLut) with
      | .error p => pure (showPanic p)
      | .ok icc => pure s!"{hexBytes icc} => {parseResult st icc}"
    | ["parse", h] => do pure (parseResult st (← unhex h))
    | "tf" :: rest => runTf rest false
    | "tfg" :: rest => runTf rest true
    | "ident" :: a :: b :: c :: d :: e :: _n :: _bits => do
      pure (identLine (.enum (← parseEnc [a, b, c, d, e])))
    | "identicc" :: h :: _n :: _bits => do
      let icc ← unhex h
      match withIcc f32Ops st.pqLut st.hlgLut icc with
      | .enum e => pure (identLine (.enum e))
      | .icc cs => pure (identLine (.icc cs icc))
      | .err e => pure (showErr e)
    | ["jxl", _] => some "unmodelled"
    | ["jxlident", _] => some "unmodelled"
    | _ => none
  (st, out.getD "bad-op")

def main : IO Unit := runLoop { pqLut := pqTable 4096, hlgLut := hlgTable 4096 } step

end Jxl.Driver.C19
