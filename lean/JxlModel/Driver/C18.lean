import JxlModel.Driver.Common
import JxlModel.Model.Icc
/-!
Line protocol for C18.

* `decode <hex>`                      → `ok <hex>` | `err <kind>`
* `ctx <idx> <b1> <b2>`               → `<ctx>`
* `encode <plan tokens…> <hex>`       → `ok <encoded hex> | <plan tokens>` (legal plan) |
                                         `nocover <encoded hex> | <plan tokens>` (illegal plan, encoded anyway)
* `shuffle <w> <hex>` / `unshuffle <w> <hex>` → `<hex>`

Plan tokens: either `auto:<mode>:<c1,c2,…>` (planner) or an explicit plan:
`notags` | `tags:<numTags>:<terminator 0/1>` followed by `t:<code>:<explicitStart 0/1>:<explicitSize 0/1>`…,
then main commands `r:<n>` `s2:<n>` `s4:<n>` `p:<width>:<order>:<stride|->:<hi>:<n>` `x` `c:<k>`.
-/
namespace Jxl.Driver.C18
open Jxl.Icc

def hexDigit (c : Char) : Option Nat :=
  if '0' ≤ c ∧ c ≤ '9' then some (c.toNat - '0'.toNat)
  else if 'a' ≤ c ∧ c ≤ 'f' then some (c.toNat - 'a'.toNat + 10)
  else if 'A' ≤ c ∧ c ≤ 'F' then some (c.toNat - 'A'.toNat + 10)
  else none

def unhexAux : List Char → List Nat → Option (List Nat)
  | [], acc => some acc.reverse
  | [_], _ => none
  | a :: b :: rest, acc =>
    match hexDigit a, hexDigit b with
    | some x, some y => unhexAux rest ((x * 16 + y) :: acc)
    | _, _ => none

def unhex (s : String) : Option (List Nat) :=
  if s = "-" then some [] else unhexAux s.toList []

def hexChar (n : Nat) : Char := if n < 10 then Char.ofNat (48 + n) else Char.ofNat (87 + n)

def hex (l : List Nat) : String :=
  if l.isEmpty then "-"
  else String.ofList (l.foldr (fun b acc => hexChar (b / 16 % 16) :: hexChar (b % 16) :: acc) [])

def b01 (b : Bool) : String := if b then "1" else "0"

def showSeg : Seg → String
  | .raw n => s!"r:{n}"
  | .shuf2 n => s!"s2:{n}"
  | .shuf4 n => s!"s4:{n}"
  | .pred w o st hi n =>
    let s := match st with | none => "-" | some s => toString s
    s!"p:{w}:{o}:{s}:{hi}:{n}"
  | .xyz => "x"
  | .common k => s!"c:{k}"

def showPlan (p : Plan) : String :=
  let t := match p.tags with
    | none => ["notags"]
    | some t => s!"tags:{t.numTags}:{b01 t.terminator}" ::
        t.cmds.map fun c => s!"t:{c.code}:{b01 c.explicitStart}:{b01 c.explicitSize}"
  " ".intercalate (t ++ p.main.map showSeg)

def parseTag (w : String) : Option TagCmd :=
  match w.splitOn ":" with
  | ["t", c, s, z] => do
    let c ← c.toNat?
    pure { code := c, explicitStart := s == "1", explicitSize := z == "1" }
  | _ => none

def parseSeg (w : String) : Option Seg :=
  match w.splitOn ":" with
  | ["r", n] => do pure (.raw (← n.toNat?))
  | ["s2", n] => do pure (.shuf2 (← n.toNat?))
  | ["s4", n] => do pure (.shuf4 (← n.toNat?))
  | ["p", w, o, s, hi, n] => do
    let st ← if s == "-" then some none else (s.toNat?).map some
    pure (.pred (← w.toNat?) (← o.toNat?) st (← hi.toNat?) (← n.toNat?))
  | ["x"] => some .xyz
  | ["c", k] => do pure (.common (← k.toNat?))
  | _ => none

def parsePlan (ws : List String) (profile : List Nat) : Option Plan :=
  match ws with
  | [w] =>
    match w.splitOn ":" with
    | ["auto", mode, cs] => do
      let mode ← mode.toNat?
      let cs ← if cs == "" then some [] else (cs.splitOn ",").mapM String.toNat?
      pure (autoPlan mode cs profile)
    | _ => parseExplicit ws
  | _ => parseExplicit ws
where
  parseExplicit (ws : List String) : Option Plan :=
    match ws with
    | [] => none
    | hd :: rest =>
      let tagWs := rest.takeWhile (·.startsWith "t:")
      let mainWs := rest.dropWhile (·.startsWith "t:")
      match hd.splitOn ":" with
      | ["notags"] => do
        if !tagWs.isEmpty then none
        pure { tags := none, main := (← mainWs.mapM parseSeg) }
      | ["tags", n, term] => do
        let n ← n.toNat?
        let cmds ← tagWs.mapM parseTag
        pure { tags := some { numTags := n, cmds := cmds, terminator := term == "1" },
               main := (← mainWs.mapM parseSeg) }
      | _ => none

def step (_ : Unit) (ws : List String) : Unit × String :=
  let r : Option String :=
    match ws with
    | ["decode", h] => do
      let s ← unhex h
      match decodeIcc s with
      | .ok out => pure s!"ok {hex out}"
      | .error e => pure s!"err {e.name}"
    | ["ctx", i, b1, b2] => do
      pure (toString (getIccCtx (← i.toNat?) (← b1.toNat?) (← b2.toNat?)))
    | ["shuffle", w, h] => do pure (hex (shuffleBy (← w.toNat?) (← unhex h)))
    | ["unshuffle", w, h] => do pure (hex (unshuffleBy (← w.toNat?) (← unhex h)))
    | "encode" :: rest =>
      match rest.reverse with
      | h :: planRev => do
        let profile ← unhex h
        let plan ← parsePlan planRev.reverse profile
        -- an illegal plan is still encoded (`encodeIcc` is total): the stream feeds the rejection half
        let tag := if planCovers plan profile then "ok" else "nocover"
        pure s!"{tag} {hex (encodeIcc plan profile)} | {showPlan plan}"
      | [] => none
    | _ => none
  ((), r.getD "bad-op")

def main : IO Unit := runLoop () step

end Jxl.Driver.C18
