import JxlModel.Driver.Common
import JxlModel.Model.Enc.Frame
/-!
# Driver `enc`: plan line → codestream + expected channels

Plan grammar (whitespace separated, one image per line):
```
img W H BITS FLOATEXP ORIENT GRAY BUF16 NEC {TY DIMSHIFT BITS ALPHAASSOC}*NEC ANIM [NUM DEN LOOPS TC] [icc ANS PLANMODE HEXPROFILE]
    { iccraw N byte*N | spot ECIDX R G B SOLIDITY }*   (optional; iccraw = encoded ICC byte stream)
frames N { frame TY UPS {ECUPS}*NEC GSHIFT HAVECROP X0 Y0 W H BMODE BALPHA BCLAMP BSRC
           {MODE ALPHA CLAMP SRC}*NEC DUR ISLAST SAVEREF SAVEBEFORECT GAB EPFITERS
           wp 1 | wp 0 P1 P2 P3A P3B P3C P3D P3E W0 W1 W2 W3
           tr K { rct B T | pal B N NBC NBD DP | sq N {H INPL B N}*N }*K
           pals K { W H data*(W*H) }*K
           tree <preorder: D PROP VAL | L CTX PRED OFF MUL>
           coded 0|1 [ent 0..8] [tocperm SEED]
           chans K { W H data*(W*H) }*K }*N
```
Answer: `ok <hex> nframes N { paths.. ; numGroups ; K { W H data } }` or `invalid <why>`.
-/
namespace Jxl.Driver.Enc
open Jxl.Enc Jxl.Modular

abbrev P := StateT (List String) Option

def tok : P String := do
  match (← get) with
  | [] => failure
  | t :: r => set r; pure t

def nat : P Nat := do
  match (← tok).toNat? with
  | some n => pure n
  | none => failure

def int : P Int := do
  match (← tok).toInt? with
  | some n => pure n
  | none => failure

def bool : P Bool := do pure ((← nat) != 0)

def kw (s : String) : P Unit := do
  if (← tok) == s then pure () else failure

def rep {α} (n : Nat) (p : P α) : P (List α) :=
  match n with
  | 0 => pure []
  | n + 1 => do
    let a ← p
    let r ← rep n p
    pure (a :: r)

def chan : P Chan := do
  let w ← nat
  let h ← nat
  let d ← rep (w * h) int
  pure { w, h, data := d.toArray }

partial def tree : P Tree := do
  let t ← tok
  if t == "D" then
    let p ← nat
    let v ← int
    let l ← tree
    let r ← tree
    pure (.dec p v l r)
  else if t == "L" then
    let ctx ← nat
    let pred ← nat
    let off ← int
    let mul ← nat
    pure (.leaf { ctx, pred, offset := off, mul })
  else failure

def transform : P Transform := do
  let t ← tok
  if t == "rct" then pure (.rct (← nat) (← nat))
  else if t == "pal" then pure (.palette (← nat) (← nat) (← nat) (← nat) (← nat))
  else if t == "sq" then
    let n ← nat
    let ps ← rep n (do
      let h ← bool
      let i ← bool
      let b ← nat
      let c ← nat
      pure ({ horizontal := h, inPlace := i, beginC := b, numC := c } : SqueezeParam))
    pure (.squeeze ps)
  else failure

def blend : P Blend := do
  pure { mode := (← nat), alpha := (← nat), clamp := (← bool), source := (← nat) }

/-- `enc_size` as `U64`, then `Decoder::parse(41)` with a single cluster and the bytes as symbols -/
def iccBits (enc : List Nat) : List Bool :=
  let w0 : BW := #[]
  (v0Stream (w0.u64 enc.length) 41 (List.replicate 41 0) (enc.map fun b => (0, b))).toList

/-- optional trailing tokens of the image part (old plans have none):
`xyb` = xyb_encoded image; `iccraw N byte*N` = an already ENCODED ICC byte stream; `spot ECIDX R G B S` = f16 bit patterns -/
partial def imgOpts (h : ImgHdr) : P ImgHdr := do
  match (← get).head? with
  | some "iccraw" =>
    kw "iccraw"
    let n ← nat
    let bytes ← rep n nat
    imgOpts { h with icc := some (iccBits bytes) }
  | some "xyb" =>
    kw "xyb"
    imgOpts { h with xyb := true }
  | some "spot" =>
    kw "spot"
    let k ← nat
    let vals ← rep 4 nat
    imgOpts { h with ecs := h.ecs.mapIdx fun i e => if i == k then { e with spot := vals } else e }
  | _ => pure h

def imgHdr : P ImgHdr := do
  kw "img"
  let w ← nat
  let h ← nat
  let bits ← nat
  let fe ← nat
  let orient ← nat
  let gray ← bool
  let buf16 ← bool
  let nec ← nat
  let ecs ← rep nec (do
    let ty ← nat
    let ds ← nat
    let b ← nat
    let aa ← bool
    pure ({ ty, dimShift := ds, bits := b, alphaAssoc := aa } : EcInfo))
  let anim ← bool
  let an ← if anim then do
      let a ← nat
      let b ← nat
      let c ← nat
      let d ← bool
      pure (some (a, b, c, d))
    else pure none
  -- optional: `icc CODER PLANMODE <hex profile>` (CODER: 0 prefix, 1 ANS, 2/3 + LZ77, 4/5 + over-long LZ77 distances, 6/7 + final copy past enc_size) embeds the profile through the ICC command encoder
  let icc ← (do
    let st ← get
    match st with
    | "icc" :: _ => do
      let _ ← tok
      let ans ← nat
      let pm ← nat
      let hx ← tok
      match bytesOfHex hx with
      | some prof =>
        let plan := Jxl.Icc.autoPlan pm [] prof
        pure (some (iccStreamBits ans (Jxl.Icc.encodeIcc plan prof)))
      | none => failure
    | _ => pure none)
  imgOpts { w, h, bits, floatExp := if fe == 0 then none else some fe, orientation := orient, gray, buf16, ecs, anim := an, icc }

def framePlan (nec : Nat) : P FramePlan := do
  kw "frame"
  let ty ← nat
  let ups ← nat
  let ecups ← rep nec nat
  let gshift ← nat
  let haveCrop ← bool
  let x0 ← int
  let y0 ← int
  let w ← nat
  let h ← nat
  let b ← blend
  let ecb ← rep nec blend
  let dur ← nat
  let isLast ← bool
  let saveRef ← nat
  let sbct ← bool
  let gab ← bool
  let epf ← nat
  kw "wp"
  let wpDefault ← bool
  let wp ← if wpDefault then pure ({} : Wp) else do
    let l ← rep 11 nat
    pure ({ p1 := l.getD 0 0, p2 := l.getD 1 0, p3a := l.getD 2 0, p3b := l.getD 3 0, p3c := l.getD 4 0,
            p3d := l.getD 5 0, p3e := l.getD 6 0, w0 := l.getD 7 0, w1 := l.getD 8 0, w2 := l.getD 9 0,
            w3 := l.getD 10 0 } : Wp)
  kw "tr"
  let nt ← nat
  let ts ← rep nt transform
  kw "pals"
  let np ← nat
  let pals ← rep np chan
  kw "tree"
  let t ← tree
  kw "coded"
  let coded ← bool
  -- optional: `ent N` (entropy coding mode, default 0)
  let ent ← (do
    let st ← get
    match st with
    | "ent" :: _ => do let _ ← tok; nat
    | _ => pure 0)
  -- optional: `tocperm SEED` (permuted TOC)
  let tocSeed ← (do
    let st ← get
    match st with
    | "tocperm" :: _ => do let _ ← tok; let k ← nat; pure (some k)
    | _ => pure none)
  -- optional: `patches NP { REF X0 Y0 W H NT { X Y {MODE ALPHA CLAMP}*(1+nec) }*NT }*NP`
  let patches ← (do
    let st ← get
    match st with
    | "patches" :: _ => do
      let _ ← tok
      let np ← nat
      rep np (do
        let ref ← nat
        let x0 ← nat
        let y0 ← nat
        let w ← nat
        let h ← nat
        let nt ← nat
        let targets ← rep nt (do
          let x ← int
          let y ← int
          let blend ← rep (1 + nec) (do
            let m ← nat
            let a ← nat
            let c ← bool
            pure (m, a, c))
          pure ({ x, y, blend } : PatchTgt))
        pure ({ ref, x0, y0, w, h, targets } : PatchSpec))
    | _ => pure [])
  -- optional: `splines QA NS { X Y NP {DX DY}*NP {coeff}*128 }*NS` (coefficients: 3 x 32 colour, then 32 sigma)
  let splines ← (do
    let st ← get
    match st with
    | "splines" :: _ => do
      let _ ← tok
      let qa ← int
      let ns ← nat
      let sp ← rep ns (do
        let x ← int
        let y ← int
        let np ← nat
        let deltas ← rep np (do let a ← int; let b ← int; pure (a, b))
        let cs ← rep 128 int
        pure ({ start := (x, y), deltas, xyb := [cs.take 32, (cs.drop 32).take 32, (cs.drop 64).take 32],
                sigma := cs.drop 96 } : SplineSpec))
      pure (some (qa, sp))
    | _ => pure none)
  -- optional: `noise L0 .. L7` (10-bit LUT entries)
  let noise ← (do
    let st ← get
    match st with
    | "noise" :: _ => do
      let _ ← tok
      let l ← rep 8 nat
      pure (some l)
    | _ => pure none)
  kw "chans"
  let nc ← nat
  let chans ← rep nc chan
  pure { hdr := { patches, splines, noise, ty, upsampling := ups, ecUpsampling := ecups, groupShift := gshift, haveCrop, x0, y0, w, h,
                  blend := b, ecBlend := ecb, duration := dur, isLast, saveAsRef := saveRef, saveBeforeCt := sbct, gab, epfIters := epf },
         chans, transforms := ts, pals, tree := t, wp, coded, ent, tocSeed }

def plan : P (ImgHdr × List FramePlan) := do
  let img ← imgHdr
  kw "frames"
  let n ← nat
  let fs ← rep n (framePlan img.ecs.length)
  pure (img, fs)

def showChan (c : Chan) : String :=
  s!"{c.w} {c.h} " ++ joinInt c.data.toList

def run (ws : List String) : String :=
  match (plan.run ws) with
  | none => "invalid plan-syntax"
  | some ((img, fs), rest) =>
    if !rest.isEmpty then "invalid trailing-tokens"
    else
      let outs := fs.map (encodeFrame img)
      if outs.any Option.isNone then "invalid not-encodable"
      else
        let outs := outs.map (·.getD default)
        let bytes := (writeImageHeader img).toBytes ++ outs.flatMap (·.bytes)
        let frames := outs.map fun o =>
          s!"frame {o.numGroups} {o.paths.length + 1} ent{o.entUsed} " ++ " ".intercalate o.paths ++
          s!" {o.expected.length} " ++ " ".intercalate (o.expected.map showChan) ++
          (match o.modelDecoded with
           | none => " model none"
           | some m => if m == o.expected then " model same" else
               s!" model {m.length} " ++ " ".intercalate (m.map showChan))
        s!"ok {hexOfBytes bytes} {outs.length} " ++ " ".intercalate frames

def main : IO Unit := runLoop () fun _ ws => ((), run ws)

end Jxl.Driver.Enc
