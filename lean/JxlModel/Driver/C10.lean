import JxlModel.Driver.Common
import JxlModel.Model.Container
import JxlModel.Model.AuxBox
/-! Line protocol for C10 (same as `harness/src/bin/c10.rs`):
`new` → `ok`; `feed <hex>` → `consumed=<n> kind=<k> <event>*` (or `dead` after an error);
`push <hex>` = `feed (leftover ++ chunk)` keeping the unconsumed tail (one step of `feedChunks`);
`finish` → `kind=<k> pending=<n>`.

Layer above (same as `harness/src/bin/c10a.rs`, the model never answers `u`):
`sess <file hex> <l1,l2,..|->` → one word per chunk, `fin:<ok|E:class>`, final word;
`read <file hex>` → `read:<ok|E:class>` and the final word.
The `Codec` parameter is instantiated with `storedBrotli` (stored-only Brotli streams, anything
else is invalid) and `jbrdOk = false` (the campaign writes no valid `jbrd` data). -/
namespace Jxl.Driver.C10
open Jxl.Container

def hexDigit (n : Nat) : Char :=
  if n < 10 then Char.ofNat (48 + n) else Char.ofNat (87 + n)

def hex (b : Bytes) : String :=
  if b.isEmpty then "-"
  else String.ofList (b.flatMap fun x => [hexDigit (x.toNat / 16), hexDigit (x.toNat % 16)])

def unhexDigit (c : Char) : Option Nat :=
  if '0' ≤ c ∧ c ≤ '9' then some (c.toNat - 48)
  else if 'a' ≤ c ∧ c ≤ 'f' then some (c.toNat - 87)
  else if 'A' ≤ c ∧ c ≤ 'F' then some (c.toNat - 55)
  else none

def unhexAux : List Char → Bytes → Option Bytes
  | [], acc => some acc.reverse
  | [_], _ => none
  | a :: b :: r, acc =>
    match unhexDigit a, unhexDigit b with
    | some x, some y => unhexAux r (UInt8.ofNat (16 * x + y) :: acc)
    | _, _ => none

def unhex (s : String) : Option Bytes :=
  if s = "-" then some [] else unhexAux s.toList []

def showKind : Kind → String
  | .unknown => "unknown" | .bare => "bare" | .container => "container" | .invalid => "invalid"

def b01 (b : Bool) : String := if b then "1" else "0"

def showEvent : Event → String
  | .kind k => s!"K:{showKind k}"
  | .codestream d => s!"CS:{hex d}"
  | .noMoreAux => "NOMORE"
  | .auxStart ty br l => s!"START:{hex ty}:{b01 br}:{b01 l}"
  | .auxData ty d => s!"DATA:{hex ty}:{hex d}"
  | .auxEnd ty => s!"END:{hex ty}"

def showErr : Err → String
  | .invalidBox => "ERR:invalid-box"
  | .validationFailed => "ERR:validation"
  | .panicUnreachable => "panic-unreachable"
  | .panicUnderflow => "panic-underflow"

structure St where
  s : PState
  dead : Bool
  pending : Bytes

def showResult (buf : Bytes) (r : FeedResult) : String :=
  let evs := r.events.map showEvent ++ (match r.error with | some e => [showErr e] | none => [])
  let head := s!"consumed={consumed buf r} kind={showKind r.state.kind}"
  " ".intercalate (head :: evs)

def step (st : St) (ws : List String) : St × String :=
  match ws with
  | ["new"] => (⟨init, false, []⟩, "ok")
  | ["feed", h] =>
    if st.dead then (st, "dead")
    else
      match unhex h with
      | none => (st, "bad-op")
      | some buf =>
        let r := feed st.s buf
        (⟨r.state, r.error.isSome, st.pending⟩, showResult buf r)
  | ["push", h] =>
    if st.dead then (st, "dead")
    else
      match unhex h with
      | none => (st, "bad-op")
      | some chunk =>
        let buf := st.pending ++ chunk
        let r := feed st.s buf
        (⟨r.state, r.error.isSome, r.rest⟩, showResult buf r)
  | ["finish"] => (st, s!"kind={showKind st.s.kind} pending={st.pending.length}")
  | _ => (st, "bad-op")

/-! ### `AuxBoxList` through `JxlImage` -/
open Jxl.AuxBox (Codec Answer firstExif firstXml jbrdStatus SErr Sess storedBrotli)
def codec : Codec := ⟨storedBrotli, fun _ => false⟩

def showAnsBytes : Answer Bytes → String
  | .data b => s!"D:{hex b}"
  | .decoding => "dec"
  | .notFound => "nf"

def stateWord (a : Jxl.AuxBox.St) : String :=
  let exif := match firstExif a with
    | none => "inv"
    | some (.data (off, p)) => s!"D:{off}:{hex p}"
    | some .decoding => "dec"
    | some .notFound => "nf"
  let j := match jbrdStatus a with | .notFound => "nf" | _ => "x"
  s!"r/{exif}/{showAnsBytes (firstXml a)}/{j}"

def showSErr : SErr → String
  | .container .invalidBox => "E:invalid-box"
  | .container .validationFailed => "E:validation"
  | .container _ => "E:panic-container"
  | .aux .brotli => "E:io"
  | .aux .jbrd => "E:jbrd"
  | .aux .panic => "E:panic"

def dedupe (last w : String) : String := if w = last then "=" else w

/-- chunk by chunk; `acc` in reverse -/
def sessLoop (s : Sess) (file : Bytes) (last : String) (acc : List String) :
    List Nat → List String
  | [] =>
    match s.finalize codec with
    | .ok s' => (stateWord s'.a :: "fin:ok" :: acc).reverse
    | .error e => (stateWord s.a :: s!"fin:{showSErr e}" :: acc).reverse
  | n :: ns =>
    match s.push codec (file.take n) with
    | .error e => (showSErr e :: acc).reverse
    | .ok s' =>
      let w := stateWord s'.a
      sessLoop s' (file.drop n) w (dedupe last w :: acc) ns

def parseLens (l : String) (total : Nat) : Option (List Nat) :=
  if l = "-" then some [total] else (l.splitOn ",").mapM String.toNat?

def auxOp (ws : List String) : Option String :=
  match ws with
  | ["sess", h, l] =>
    match unhex h with
    | none => some "bad-op"
    | some file =>
      match parseLens l file.length with
      | none => some "bad-op"
      | some lens => some (" ".intercalate (sessLoop Sess.init file "" [] lens))
  | ["read", h] =>
    match unhex h with
    | none => some "bad-op"
    | some file =>
      match Jxl.AuxBox.read codec file with
      | .ok s => some s!"read:ok {stateWord s.a}"
      | .error e => some s!"read:{showSErr e}"
  | _ => none

def stepAll (st : St) (ws : List String) : St × String :=
  match auxOp ws with
  | some o => (st, o)
  | none => step st ws

def main : IO Unit := runLoop (⟨init, false, []⟩ : St) stepAll

end Jxl.Driver.C10
